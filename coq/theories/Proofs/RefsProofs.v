(* Proofs about Model/Refs.v (references.rs) for ALL documents, and the formal reading of property
   C13 over the occurrences / bindings of Proofs/GotoProofs.v. *)
From Coq Require Import Lia Arith PeanoNat Bool List NArith Permutation.
From Spl Require Import Model.Goto Model.Refs Proofs.GotoProofs.
Import ListNotations.
Local Open Scope nat_scope.

(* ---- structural induction over statements (nested through option and list) ---- *)
Section StmtInd.
Variable P : stmt -> Prop.
Hypothesis HEmpty : forall inf, P (SEmpty inf).
Hypothesis HAssign : forall v e inf, P (SAssign v e inf).
Hypothesis HCall : forall n a inf, P (SCall n a inf).
Hypothesis HIf : forall c t e inf,
  (forall x off, t = Some (x, off) -> P x) -> (forall x off, e = Some (x, off) -> P x) -> P (SIf c t e inf).
Hypothesis HWhile : forall c b inf, (forall x off, b = Some (x, off) -> P x) -> P (SWhile c b inf).
Hypothesis HBlock : forall body inf, (forall x off, In (x, off) body -> P x) -> P (SBlock body inf).
Hypothesis HError : forall inf, P (SError inf).

Lemma stmt_ind' : forall s, P s.
Proof.
  fix IH 1. intros [inf|v e inf|n a inf|c t e inf|c b inf|body inf|inf].
  - apply HEmpty.
  - apply HAssign.
  - apply HCall.
  - apply HIf.
    + intros x off E. destruct t as [[y o]|]; [injection E as <- <-; apply IH | discriminate].
    + intros x off E. destruct e as [[y o]|]; [injection E as <- <-; apply IH | discriminate].
  - apply HWhile. intros x off E. destruct b as [[y o]|]; [injection E as <- <-; apply IH | discriminate].
  - apply HBlock. induction body as [|[y o] r IHr]; intros x off Hin; [destruct Hin|].
    destruct Hin as [E|Hin]; [injection E as <- <-; apply IH | apply (IHr _ _ Hin)].
  - apply HError.
Qed.
End StmtInd.

(* ------------------------------------------------------------------------------------------------
   every walk returns identifiers that pass its test, and only identifiers the unfiltered walk
   (test `all`) returns as well *)
Section Walks.
Variable f : ident -> bool.
Hypothesis f_shift : forall i off, f (shift_ident i off) = f i.

Definition sub (a b : list ident) : Prop := forall i, In i a -> f i = true /\ In i b.

Lemma sub_nil b : sub [] b.
Proof. intros i []. Qed.

Lemma sub_app a a' b b' : sub a a' -> sub b b' -> sub (a ++ b) (a' ++ b').
Proof.
  intros H1 H2 i H. apply in_app_or in H. destruct H as [H|H].
  - destruct (H1 i H). split; auto. apply in_or_app; auto.
  - destruct (H2 i H). split; auto. apply in_or_app; auto.
Qed.

Lemma sub_shift a a' off : sub a a' -> sub (shift_idents a off) (shift_idents a' off).
Proof.
  intros H i Hi. unfold shift_idents in *. apply in_map_iff in Hi. destruct Hi as [j [<- Hj]].
  destruct (H j Hj). split; [now rewrite f_shift|]. apply in_map_iff. eauto.
Qed.

Lemma sub_test i : sub (if f i then [i] else []) (if all i then [i] else []).
Proof. simpl. destruct (f i) eqn:E; [|apply sub_nil]. intros j [<-|[]]. split; auto. now left. Qed.

Lemma sub_test_shift i off : sub (if f i then [shift_ident i off] else []) (if all i then [shift_ident i off] else []).
Proof.
  simpl. destruct (f i) eqn:E; [|apply sub_nil]. intros j [<-|[]]. split; [now rewrite f_shift|now left].
Qed.

Lemma sub_filter l : sub (filter f l) (filter all l).
Proof.
  intros i H. apply filter_In in H. destruct H. split; auto. apply filter_In. auto.
Qed.

Lemma sub_flat_map {A} (F G : A -> list ident) l :
  (forall x, In x l -> sub (F x) (G x)) -> sub (flat_map F l) (flat_map G l).
Proof.
  intros H i Hi. apply in_flat_map in Hi. destruct Hi as [x [Hx Hi]].
  destruct (H x Hx i Hi). split; auto. apply in_flat_map. eauto.
Qed.

Lemma sub_opt_stmt (W : (ident -> bool) -> stmt -> list ident) (r : option (stmt * nat)) :
  (forall x off, r = Some (x, off) -> sub (W f x) (W all x)) ->
  sub (match r with Some (x, off) => shift_idents (W f x) off | None => [] end)
      (match r with Some (x, off) => shift_idents (W all x) off | None => [] end).
Proof. destruct r as [[x off]|]; intros H; [apply sub_shift; eauto|apply sub_nil]. Qed.

Lemma sub_block (W : (ident -> bool) -> stmt -> list ident) (body : list (stmt * nat)) :
  (forall x off, In (x, off) body -> sub (W f x) (W all x)) ->
  sub ((fix go (l : list (stmt * nat)) : list ident :=
          match l with [] => [] | (x, off) :: r => shift_idents (W f x) off ++ go r end) body)
      ((fix go (l : list (stmt * nat)) : list ident :=
          match l with [] => [] | (x, off) :: r => shift_idents (W all x) off ++ go r end) body).
Proof.
  induction body as [|[x off] r IH]; intros H; [apply sub_nil|].
  apply sub_app; [apply sub_shift, (H x off); now left|]. apply IH. intros; eapply H; right; eauto.
Qed.

Lemma procs_in_stmt_sub s : sub (procs_in_stmt f s) (procs_in_stmt all s).
Proof.
  induction s as [inf|v e inf|n a inf|c t e inf IHt IHe|c b inf IHb|body inf IHbody|inf] using stmt_ind';
    cbn [procs_in_stmt]; try apply sub_nil.
  - apply sub_test.
  - apply sub_app; apply (sub_opt_stmt procs_in_stmt); auto.
  - apply (sub_opt_stmt procs_in_stmt); auto.
  - apply (sub_block procs_in_stmt); auto.
Qed.

Lemma procs_in_stmts_sub l : sub (procs_in_stmts f l) (procs_in_stmts all l).
Proof. apply sub_flat_map. intros x _. apply sub_shift, procs_in_stmt_sub. Qed.

Lemma find_procs_sub p : sub (find_procs_f f p) (find_procs_f all p).
Proof.
  apply sub_flat_map. intros [g off] _. cbn [fst snd]. destruct g as [td|pd|inf]; try apply sub_nil.
  apply sub_shift, sub_app; [|apply procs_in_stmts_sub].
  destruct (pd_name pd) as [i|]; [apply sub_test|apply sub_nil].
Qed.

Lemma types_in_params_sub l : sub (types_in_params f l) (types_in_params all l).
Proof.
  apply sub_flat_map. intros [pd off] _. cbn [fst snd].
  destruct pd as [? ? ? [[te toff]|] ?|?]; try apply sub_nil. apply sub_filter.
Qed.

Lemma types_in_vars_sub l : sub (types_in_vars f l) (types_in_vars all l).
Proof.
  apply sub_flat_map. intros [vd off] _. cbn [fst snd].
  destruct vd as [? ? [[te toff]|] ?|?]; try apply sub_nil. apply sub_filter.
Qed.

Lemma find_types_sub p : sub (find_types_f f p) (find_types_f all p).
Proof.
  apply sub_flat_map. intros [g off] _. cbn [fst snd]. apply sub_shift.
  destruct g as [td|pd|inf]; try apply sub_nil.
  - apply sub_app.
    + destruct (td_name td) as [i|]; [apply sub_test|apply sub_nil].
    + destruct (td_ty td) as [[te toff]|]; [apply sub_filter|apply sub_nil].
  - apply sub_app; [apply types_in_params_sub|apply types_in_vars_sub].
Qed.

Lemma vars_sub :
  (forall v, sub (vars_in_variable f v) (vars_in_variable all v))
  /\ (forall e, sub (vars_in_expr f e) (vars_in_expr all e)).
Proof.
  assert (X : forall v, sub (vars_in_variable f v) (vars_in_variable all v)).
  { fix IHv 1. intros v.
    assert (IHe : forall e, sub (vars_in_expr f e) (vars_in_expr all e)).
    { fix IHe 1. intros e. destruct e as [op l r inf|a inf|il|op a inf|w|inf]; cbn [vars_in_expr]; try apply sub_nil.
      - apply sub_app; apply IHe.
      - apply IHe.
      - apply IHe.
      - apply IHv. }
    destruct v as [n|a idx inf]; cbn [vars_in_variable].
    - apply sub_test.
    - apply sub_app; [apply IHv|]. destruct idx as [[e off]|]; [apply sub_shift, IHe|apply sub_nil]. }
  split; [exact X|].
  fix IHe 1. intros e. destruct e as [op l r inf|a inf|il|op a inf|w|inf]; cbn [vars_in_expr]; try apply sub_nil.
  - apply sub_app; apply IHe.
  - apply IHe.
  - apply IHe.
  - apply X.
Qed.

Lemma vars_in_oexpr_sub o : sub (vars_in_oexpr f o) (vars_in_oexpr all o).
Proof. destruct o as [[e off]|]; [apply sub_shift, vars_sub|apply sub_nil]. Qed.

Lemma vars_in_stmt_sub s : sub (vars_in_stmt f s) (vars_in_stmt all s).
Proof.
  induction s as [inf|v e inf|n a inf|c t e inf IHt IHe|c b inf IHb|body inf IHbody|inf] using stmt_ind';
    cbn [vars_in_stmt]; try apply sub_nil.
  - apply sub_app; [apply vars_sub|apply vars_in_oexpr_sub].
  - apply sub_flat_map. intros x _. apply sub_shift, vars_sub.
  - apply sub_app; [apply vars_in_oexpr_sub|]. apply sub_app; apply (sub_opt_stmt vars_in_stmt); auto.
  - apply sub_app; [apply vars_in_oexpr_sub|]. apply (sub_opt_stmt vars_in_stmt); auto.
  - apply (sub_block vars_in_stmt); auto.
Qed.

Lemma vars_in_stmts_sub l : sub (vars_in_stmts f l) (vars_in_stmts all l).
Proof. apply sub_flat_map. intros x _. apply sub_shift, vars_in_stmt_sub. Qed.

Lemma var_names_in_params_sub l : sub (var_names_in_params f l) (var_names_in_params all l).
Proof.
  apply sub_flat_map. intros [pd off] _. cbn [fst snd].
  destruct pd as [? ? [i|] ? ?|?]; try apply sub_nil. apply sub_test_shift.
Qed.

Lemma var_names_in_vars_sub l : sub (var_names_in_vars f l) (var_names_in_vars all l).
Proof.
  apply sub_flat_map. intros [vd off] _. cbn [fst snd].
  destruct vd as [? [i|] ? ?|?]; try apply sub_nil. apply sub_test_shift.
Qed.

Lemma vars_of_proc_sub pd off : sub (vars_of_proc f pd off) (vars_of_proc all pd off).
Proof.
  unfold vars_of_proc. apply sub_shift. apply sub_app; [apply var_names_in_params_sub|].
  apply sub_app; [apply var_names_in_vars_sub|apply vars_in_stmts_sub].
Qed.

End Walks.

Lemma named_shift name i off : named name (shift_ident i off) = named name i.
Proof. reflexivity. Qed.

Lemma find_proc_decl_in pn l pd off : find_proc_decl pn l = Some (pd, off) -> In (GProc pd, off) l.
Proof.
  induction l as [|[g o] r IH]; simpl; [discriminate|].
  destruct g as [td|pd'|inf].
  - intros H; right; auto.
  - destruct (pd_name pd') as [i|]; [|intros H; right; auto].
    destruct (named pn i); [|intros H; right; auto].
    intros H; inversion H; subst. now left.
  - intros H; right; auto.
Qed.

(* all referenced identifiers carry the cursor's name and are identifier nodes of the document *)
Lemma referenced_sub name ctx p g gp :
  sub (named name) (find_referenced_identifiers name ctx p g gp) (doc_idents p).
Proof.
  assert (P : sub (named name) (find_procs name p) (doc_idents p)).
  { intros i H. destruct (find_procs_sub (named name) (named_shift name) p i H). split; auto.
    unfold doc_idents. apply in_or_app. now left. }
  assert (T : sub (named name) (find_types name p) (doc_idents p)).
  { intros i H. destruct (find_types_sub (named name) (named_shift name) p i H). split; auto.
    unfold doc_idents. apply in_or_app. right. apply in_or_app. now left. }
  assert (V : forall pn, sub (named name) (find_vars name pn p) (doc_idents p)).
  { intros pn i H. unfold find_vars in H.
    destruct (find_proc_decl pn (pg_decls p)) as [[pd off]|] eqn:E; [|destruct H].
    destruct (vars_of_proc_sub (named name) (named_shift name) pd off i H). split; auto.
    unfold doc_idents. apply in_or_app. right. apply in_or_app. right.
    unfold all_vars. apply in_flat_map. exists (GProc pd, off). split; [eapply find_proc_decl_in; eauto|exact H1]. }
  unfold find_referenced_identifiers. destruct ctx as [t|pe]; [exact T|].
  destruct (resolve name (GProcE pe) g gp) as [[?|?|?|?]|]; auto. apply sub_nil.
Qed.

Lemma same_name name ctx p g gp i :
  In i (find_referenced_identifiers name ctx p g gp) -> id_val i = name.
Proof. intros H. destruct (referenced_sub name ctx p g gp i H) as [H1 _]. now apply text_eqb_true in H1. Qed.

(* ------------------------------------------------------------------------------------------------
   resolution by syntactic position (/repo b909979) *)

(* in a global position (name of a global declaration, type expression) the locals of the enclosing
   procedure play no role: the identifier is looked up in the global table only, and the
   occurrences of a variable are never collected *)
Lemma referenced_global_position name pe p g :
  find_referenced_identifiers name (GProcE pe) p g true
  = match lookup g name with
    | Some (GTypeE _) => find_types name p
    | Some (GProcE _) => find_procs name p
    | None => []
    end.
Proof.
  unfold find_referenced_identifiers, resolve. rewrite lookup_for_global.
  destruct (lookup g name) as [[?|?]|]; reflexivity.
Qed.

Lemma predefined_global_position name pe pe' g :
  is_predefined name (GProcE pe) g true = is_predefined name (GProcE pe') g true.
Proof. unfold is_predefined, resolve. now rewrite !lookup_for_global. Qed.

(* outside a global position a parameter or variable of the enclosing procedure wins, whatever
   else has its name (its own procedure, a type, a predefined procedure, `int`): its occurrences
   inside that procedure are collected, and it is not predefined *)
Lemma referenced_local name pe p g le :
  lookup (pe_local pe) name = Some le ->
  find_referenced_identifiers name (GProcE pe) p g false = find_vars name (id_val (pe_name pe)) p
  /\ is_predefined name (GProcE pe) g false = false.
Proof.
  intros L. unfold find_referenced_identifiers, is_predefined, resolve. rewrite (lookup_for_local _ _ _ _ L).
  destruct le; auto.
Qed.

(* ------------------------------------------------------------------------------------------------
   the handlers *)

Lemma text_ranges_ok toks l :
  (forall i, In i l -> info_ok (length toks) (id_info i) = true) -> exists rs, text_ranges toks l = ROk rs.
Proof.
  induction l as [|i r IH]; intros H; simpl; [eauto|].
  destruct (ident_text_range_ok toks i) as [x ->]; [apply H; now left|]. simpl.
  destruct IH as [rs ->]; [intros; apply H; now right|]. simpl. eauto.
Qed.

Lemma text_ranges_spec toks l rs :
  text_ranges toks l = ROk rs ->
  Forall2 (fun i x => fst x = id_val i /\ ident_text_range toks i = ROk (snd x)) l rs.
Proof.
  revert rs. induction l as [|i r IH]; simpl; intros rs H; [inversion H; constructor|].
  destruct (ident_text_range toks i) as [x|] eqn:E; simpl in H; [|discriminate].
  destruct (text_ranges toks r) as [r'|]; simpl in H; [|discriminate].
  inversion H; subst. constructor; auto.
Qed.

Lemma referenced_ok d name ctx gp :
  nav_wf d ->
  exists rs, text_ranges (d_toks d) (find_referenced_identifiers name ctx (d_ast d) (d_table d) gp) = ROk rs.
Proof.
  intros W. destruct (nav_wf_parts d W) as (_ & _ & I). rewrite forallb_forall in I.
  apply text_ranges_ok. intros i H. apply I. eapply referenced_sub; eauto.
Qed.

Lemma with_cursor_r_ok {A} d l c (k : text * (N * N) -> gentry -> bool -> res (option A)) :
  nav_wf d -> (forall id ctx gp, exists o, k id ctx gp = ROk o) -> exists o, with_cursor_r d l c k = ROk o.
Proof.
  intros W K. destruct (doc_cursor_ok d l c W) as [cur [E _]]. unfold with_cursor_r. rewrite E. simpl.
  destruct (cursor_ident cur) as [id|]; [|eauto]. destruct (c_ctx cur) as [ctx|]; eauto.
Qed.

Lemma refs_robust d l c :
  nav_wf d ->
  (exists o, references d l c = ROk o) /\ (exists o, rename d l c = ROk o)
  /\ (exists o, prepare_rename d l c = ROk o).
Proof.
  intros W. repeat split.
  - apply with_cursor_r_ok; auto. intros id ctx gp.
    destruct (referenced_ok d (fst id) ctx gp W) as [rs ->]. simpl. eauto.
  - apply with_cursor_r_ok; auto. intros id ctx gp. destruct (is_predefined _ _ _ _); [eauto|].
    destruct (referenced_ok d (fst id) ctx gp W) as [rs ->]. simpl. eauto.
  - destruct (doc_cursor_ok d l c W) as [cur [E _]]. unfold prepare_rename. rewrite E. simpl.
    destruct (cursor_ident cur) as [[name r]|]; [|eauto].
    destruct (match c_ctx cur with Some ctx => _ | None => false end); eauto.
Qed.

Lemma no_identifier_no_answer d l c cur :
  doc_cursor d l c = ROk cur -> cursor_ident cur = None ->
  references d l c = ROk None /\ rename d l c = ROk None /\ prepare_rename d l c = ROk None.
Proof.
  intros E H. unfold references, rename, with_cursor_r, prepare_rename. rewrite E. simpl. rewrite H. auto.
Qed.

(* an identifier that resolves - by its position - to a predefined entity (`int`, printi, ...) is
   never renamed; this replaces the test on the spelling `int` of the code before /repo b909979 *)
Lemma predefined_not_renamed d l c cur name r ctx :
  doc_cursor d l c = ROk cur -> cursor_ident cur = Some (name, r) -> c_ctx cur = Some ctx ->
  is_predefined name ctx (d_table d) (is_global_position cur) = true ->
  rename d l c = ROk None /\ prepare_rename d l c = ROk None.
Proof.
  intros E H C P. unfold rename, with_cursor_r, prepare_rename. rewrite E. simpl. rewrite H, C. simpl.
  now rewrite P.
Qed.

(* the converse: rename and prepareRename ARE offered on every identifier that does not resolve to a
   predefined entity - in particular on a parameter or variable named `int` or `printi` *)
Lemma user_names_renamed d l c cur name r ctx :
  nav_wf d ->
  doc_cursor d l c = ROk cur -> cursor_ident cur = Some (name, r) -> c_ctx cur = Some ctx ->
  is_predefined name ctx (d_table d) (is_global_position cur) = false ->
  (exists es, rename d l c = ROk (Some es)) /\ prepare_rename d l c = ROk (Some (pos_range r (d_text d))).
Proof.
  intros W E H C P. unfold rename, with_cursor_r, prepare_rename. rewrite E. simpl. rewrite H, C. simpl.
  rewrite P. split; [|reflexivity].
  destruct (referenced_ok d name ctx (is_global_position cur) W) as [rs ->]. simpl. eauto.
Qed.

(* prepareRename is null exactly when rename is - inside a declaration that has a table entry.  No
   well-formedness is needed: a panic is neither `ROk None` *)
Lemma prepare_iff_rename d l c cur :
  doc_cursor d l c = ROk cur -> c_ctx cur <> None ->
  (prepare_rename d l c = ROk None <-> rename d l c = ROk None).
Proof.
  intros E C. unfold rename, with_cursor_r, prepare_rename. rewrite E. simpl.
  destruct (cursor_ident cur) as [[name r]|]; [|tauto].
  destruct (c_ctx cur) as [ctx|]; [|congruence]. simpl.
  destruct (is_predefined _ _ _ _); [tauto|].
  destruct (text_ranges _ _) as [rs|]; simpl; split; discriminate.
Qed.

(* one direction holds everywhere: where prepareRename refuses, rename refuses *)
Lemma prepare_null_rename_null d l c :
  prepare_rename d l c = ROk None -> rename d l c = ROk None.
Proof.
  unfold rename, with_cursor_r, prepare_rename.
  destruct (doc_cursor d l c) as [cur|]; simpl; [|discriminate].
  destruct (cursor_ident cur) as [[name r]|]; [|reflexivity].
  destruct (c_ctx cur) as [ctx|]; [|reflexivity]. simpl.
  destruct (is_predefined _ _ _ _); [reflexivity|discriminate].
Qed.

(* the other direction fails only outside every declaration with a table entry (impossible in a
   diagnostic-free program): there references and rename are null, while prepareRename still
   answers with the range of the identifier under the cursor, whatever it is *)
Lemma no_context d l c cur :
  doc_cursor d l c = ROk cur -> c_ctx cur = None ->
  references d l c = ROk None /\ rename d l c = ROk None
  /\ prepare_rename d l c = ROk (option_map (fun id => pos_range (snd id) (d_text d)) (cursor_ident cur)).
Proof.
  intros E C. unfold references, rename, with_cursor_r, prepare_rename. rewrite E. simpl. rewrite C.
  destruct (cursor_ident cur) as [[name r]|]; auto.
Qed.

Lemma find_some_in {A} (f : A -> bool) l x : find f l = Some x -> In x l /\ f x = true.
Proof. apply find_some. Qed.

(* prepareRename's answer is the range of the identifier token under the cursor *)
Lemma prepare_range d l c x :
  prepare_rename d l c = ROk (Some x) ->
  exists cur t name,
    doc_cursor d l c = ROk cur /\ In t (d_toks d) /\ tk t = Ident name
    /\ in_range (ts t, te t) (get_insertion_index l c (d_text d)) = true
    /\ x = pos_range (ts t, te t) (d_text d)
    /\ (forall ctx, c_ctx cur = Some ctx -> is_predefined name ctx (d_table d) (is_global_position cur) = false).
Proof.
  unfold prepare_rename.
  destruct (doc_cursor d l c) as [cur|] eqn:DC; simpl; [|discriminate].
  assert (CI : c_doc cur = d /\ c_index cur = get_insertion_index l c (d_text d)).
  { unfold doc_cursor in DC. destruct (find_decl _ _ _) as [g|]; simpl in DC; [|discriminate].
    inversion DC; subst; simpl; auto. }
  destruct CI as [CD CX].
  unfold cursor_ident, token_at. rewrite CD, CX.
  destruct (find _ (d_toks d)) as [t|] eqn:F; [|discriminate].
  destruct (tk t) as [| | | | | | | | | | | | | | | | | | | | | | | | | | | | |s| | | | | |] eqn:K; try discriminate.
  destruct (match c_ctx cur with Some ctx => _ | None => false end) eqn:P; [discriminate|].
  intros H. inversion H; subst. apply find_some in F. destruct F as [F1 F2].
  exists cur, t, s. repeat split; auto. intros ctx C. now rewrite C in P.
Qed.

(* references = the edits of rename without the cursor's own identifier *)
Lemma references_in_rename d l c rs :
  references d l c = ROk (Some rs) ->
  rename d l c = ROk None \/ exists es, rename d l c = ROk (Some es) /\ incl rs es.
Proof.
  unfold references, rename, with_cursor_r.
  destruct (doc_cursor d l c) as [cur|]; simpl; [|discriminate].
  destruct (cursor_ident cur) as [id|]; [|discriminate].
  destruct (c_ctx cur) as [ctx|]; [|discriminate].
  destruct (is_predefined _ _ _ _); [now left|].
  destruct (text_ranges _ _) as [xs|]; simpl; [|discriminate].
  intros H. inversion H; subst. right. eexists; split; [reflexivity|].
  intros x Hx. apply in_map_iff in Hx. destruct Hx as [y [<- Hy]]. apply filter_In in Hy.
  apply in_map_iff. exists y. tauto.
Qed.

(* every reference and every edit is the range of a token of the document, and comes from an
   identifier node that carries the name under the cursor *)
Lemma rename_edits d l c es :
  rename d l c = ROk (Some es) ->
  exists cur name r ctx,
    doc_cursor d l c = ROk cur /\ cursor_ident cur = Some (name, r) /\ c_ctx cur = Some ctx
    /\ is_predefined name ctx (d_table d) (is_global_position cur) = false
    /\ Forall2 (fun i e => id_val i = name
                           /\ exists x, ident_text_range (d_toks d) i = ROk x /\ e = pos_range x (d_text d))
               (find_referenced_identifiers name ctx (d_ast d) (d_table d) (is_global_position cur)) es
    /\ Forall (loc_of_token d) es.
Proof.
  unfold rename, with_cursor_r.
  destruct (doc_cursor d l c) as [cur|] eqn:E1; simpl; [|discriminate].
  destruct (cursor_ident cur) as [[name r]|] eqn:E2; [|discriminate].
  destruct (c_ctx cur) as [ctx|] eqn:E3; [|discriminate]. simpl.
  destruct (is_predefined _ _ _ _) eqn:P; [discriminate|].
  destruct (text_ranges _ _) as [xs|] eqn:T; simpl; [|discriminate].
  intros H. inversion H; subst. exists cur, name, r, ctx. repeat split; auto.
  - apply text_ranges_spec in T.
    assert (N : forall i, In i (find_referenced_identifiers name ctx (d_ast d) (d_table d) (is_global_position cur)) -> id_val i = name)
      by (intros; eapply same_name; eauto).
    clear H E1 E2 E3 P. remember (find_referenced_identifiers name ctx (d_ast d) (d_table d) (is_global_position cur)) as L. clear HeqL.
    induction T as [|i x l' xs' [Hv Hr] T IH]; simpl; constructor.
    + split; [apply N; now left|]. eauto.
    + apply IH. intros; apply N; now right.
  - apply text_ranges_spec in T. clear -T.
    remember (find_referenced_identifiers name ctx (d_ast d) (d_table d) (is_global_position cur)) as L. clear HeqL.
    induction T as [|i x l' xs' [Hv Hr] T IH]; simpl; constructor; auto.
    destruct (ident_text_range_token _ _ _ Hr) as [t [Ht [-> | ->]]]; exists t; auto.
Qed.

(* ------------------------------------------------------------------------------------------------
   The formal reading of C13 (same_entity, spec_references, spec_rename, spec_prepare,
   full_statement_refs, apply_rename, fresh_name, roundtrip_statement, refs_agree_at) is in Spec/Nav.v. *)

Lemma refs_refutation_instance (t : text) (l c : N) (n : nat) :
  is_clean t = true ->
  (match nth_error (occurrences (d_ast (doc_of t))) n with
   | Some o =>
       match nth_error (d_toks (doc_of t)) (o_tok o) with
       | Some tok => in_range (ts tok, te tok) (get_insertion_index l c (d_text (doc_of t)))
                     && match references (doc_of t) l c with
                        | ROk (Some rs) => negb (Nat.eqb (length rs) (length (spec_references (doc_of t) o)))
                        | _ => true
                        end
       | None => false
       end
   | None => false
   end) = true ->
  ~ full_statement_refs.
Proof.
  intros C H F.
  destruct (nth_error (occurrences (d_ast (doc_of t))) n) as [o|] eqn:E; [|discriminate].
  destruct (nth_error (d_toks (doc_of t)) (o_tok o)) as [tok|] eqn:E2; [|discriminate].
  apply andb_true_iff in H. destruct H as [H1 H2].
  destruct (F t (doc_of t) o l c) as [[rs [R P]] _].
  - now apply is_clean_doc.
  - eapply nth_error_In; eauto.
  - exists tok. auto.
  - rewrite R in H2. apply Permutation_length in P. rewrite P, Nat.eqb_refl in H2. discriminate.
Qed.

(* [refs_refutation_instance] / [rename_refutation_instance]: the tools for a counterexample (a wrong
   number of references / of edits, or a wrong null).  None is known for the code of /repo b909979:
   on the four former counterexamples the statement now holds at every occurrence (Props/C13.v,
   C13_repaired_witnesses_agree). *)

Lemma rename_refutation_instance (t : text) (l c : N) (n : nat) :
  is_clean t = true ->
  (match nth_error (occurrences (d_ast (doc_of t))) n with
   | Some o =>
       match nth_error (d_toks (doc_of t)) (o_tok o) with
       | Some tok => in_range (ts tok, te tok) (get_insertion_index l c (d_text (doc_of t)))
                     && match rename (doc_of t) l c, spec_rename (doc_of t) o with
                        | ROk None, None => false
                        | ROk (Some es), Some es' => negb (Nat.eqb (length es) (length es'))
                        | _, _ => true
                        end
       | None => false
       end
   | None => false
   end) = true ->
  ~ full_statement_refs.
Proof.
  intros C H F.
  destruct (nth_error (occurrences (d_ast (doc_of t))) n) as [o|] eqn:E; [|discriminate].
  destruct (nth_error (d_toks (doc_of t)) (o_tok o)) as [tok|] eqn:E2; [|discriminate].
  apply andb_true_iff in H. destruct H as [H1 H2].
  destruct (F t (doc_of t) o l c) as [_ [R _]].
  - now apply is_clean_doc.
  - eapply nth_error_In; eauto.
  - exists tok. auto.
  - destruct (spec_rename (doc_of t) o) as [es'|].
    + destruct R as [es [R P]]. rewrite R in H2. apply Permutation_length in P.
      rewrite P, Nat.eqb_refl in H2. discriminate.
    + rewrite R in H2. discriminate.
Qed.

From Coq Require Import String.
(* witnesses of the findings repaired by /repo b909979 (with Proofs/GotoProofs.v witness_own_name and
   witness_type_name; regression corpus of the check, corpus/C13/*.json) *)
(* rename was offered on a predefined procedure *)
Definition witness_predefined : text := str "proc main() { printi(1); printi(2); }".
(* a variable named `int` could not be renamed *)
Definition witness_int_variable : text := str "proc main() { var int: int; int := 1; }".

(* a program on which the implementation does what the specification says at every occurrence:
   the same names (a, i) in two procedures, uses in index / negated / parenthesised expressions,
   arguments and conditions, a comment in front of an identifier, LF and CRLF *)
Definition sample_refs : text :=
  app (str "type v = array [3] of int; type w = v; // c")
  (app [10%N]
  (app (str "proc g(ref a: w, i: int) { var k: array [2] of int; a[i] := -k[(i)]; g(a, // x")
  (app [10%N]
  (app (str " i); while (i < k[0]) a[i - 1] := (i); }")
  (app [13%N; 10%N] (str "proc main() { var a: w; var i: int; g(a, i); if (i < 1) main(); }")))))).
