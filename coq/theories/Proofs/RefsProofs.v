(* Proofs about Model/Refs.v (references.rs) for ALL documents, and the formal reading of property
   C13 over the occurrences / bindings of Proofs/GotoProofs.v. *)
From Coq Require Import Lia Arith PeanoNat Bool List NArith Permutation.
From Spl Require Import Model.Goto Model.Refs Proofs.GotoProofs.
Import ListNotations.
Local Open Scope nat_scope.

(* ---- structural induction over statements (nested through option and list) ---- *)
Section StmtInd.
Variable P : stmt -> Prop.
Hypothesis HEmpty : forall inf, P (SEmpty inf).
Hypothesis HAssign : forall v e inf, P (SAssign v e inf).
Hypothesis HCall : forall n a inf, P (SCall n a inf).
Hypothesis HIf : forall c t e inf,
  (forall x off, t = Some (x, off) -> P x) -> (forall x off, e = Some (x, off) -> P x) -> P (SIf c t e inf).
Hypothesis HWhile : forall c b inf, (forall x off, b = Some (x, off) -> P x) -> P (SWhile c b inf).
Hypothesis HBlock : forall body inf, (forall x off, In (x, off) body -> P x) -> P (SBlock body inf).
Hypothesis HError : forall inf, P (SError inf).

Lemma stmt_ind' : forall s, P s.
Proof.
  fix IH 1. intros [inf|v e inf|n a inf|c t e inf|c b inf|body inf|inf].
  - apply HEmpty.
  - apply HAssign.
  - apply HCall.
  - apply HIf.
    + intros x off E. destruct t as [[y o]|]; [injection E as <- <-; apply IH | discriminate].
    + intros x off E. destruct e as [[y o]|]; [injection E as <- <-; apply IH | discriminate].
  - apply HWhile. intros x off E. destruct b as [[y o]|]; [injection E as <- <-; apply IH | discriminate].
  - apply HBlock. induction body as [|[y o] r IHr]; intros x off Hin; [destruct Hin|].
    destruct Hin as [E|Hin]; [injection E as <- <-; apply IH | apply (IHr _ _ Hin)].
  - apply HError.
Qed.
End StmtInd.

(* ------------------------------------------------------------------------------------------------
   every walk returns identifiers that pass its test, and only identifiers the unfiltered walk
   (test `all`) returns as well *)
Section Walks.
Variable f : ident -> bool.
Hypothesis f_shift : forall i off, f (shift_ident i off) = f i.

Definition sub (a b : list ident) : Prop := forall i, In i a -> f i = true /\ In i b.

Lemma sub_nil b : sub [] b.
Proof. intros i []. Qed.

Lemma sub_app a a' b b' : sub a a' -> sub b b' -> sub (a ++ b) (a' ++ b').
Proof.
  intros H1 H2 i H. apply in_app_or in H. destruct H as [H|H].
  - destruct (H1 i H). split; auto. apply in_or_app; auto.
  - destruct (H2 i H). split; auto. apply in_or_app; auto.
Qed.

Lemma sub_shift a a' off : sub a a' -> sub (shift_idents a off) (shift_idents a' off).
Proof.
  intros H i Hi. unfold shift_idents in *. apply in_map_iff in Hi. destruct Hi as [j [<- Hj]].
  destruct (H j Hj). split; [now rewrite f_shift|]. apply in_map_iff. eauto.
Qed.

Lemma sub_test i : sub (if f i then [i] else []) (if all i then [i] else []).
Proof. simpl. destruct (f i) eqn:E; [|apply sub_nil]. intros j [<-|[]]. split; auto. now left. Qed.

Lemma sub_test_shift i off : sub (if f i then [shift_ident i off] else []) (if all i then [shift_ident i off] else []).
Proof.
  simpl. destruct (f i) eqn:E; [|apply sub_nil]. intros j [<-|[]]. split; [now rewrite f_shift|now left].
Qed.

Lemma sub_filter l : sub (filter f l) (filter all l).
Proof.
  intros i H. apply filter_In in H. destruct H. split; auto. apply filter_In. auto.
Qed.

Lemma sub_flat_map {A} (F G : A -> list ident) l :
  (forall x, In x l -> sub (F x) (G x)) -> sub (flat_map F l) (flat_map G l).
Proof.
  intros H i Hi. apply in_flat_map in Hi. destruct Hi as [x [Hx Hi]].
  destruct (H x Hx i Hi). split; auto. apply in_flat_map. eauto.
Qed.

Lemma sub_opt_stmt (W : (ident -> bool) -> stmt -> list ident) (r : option (stmt * nat)) :
  (forall x off, r = Some (x, off) -> sub (W f x) (W all x)) ->
  sub (match r with Some (x, off) => shift_idents (W f x) off | None => [] end)
      (match r with Some (x, off) => shift_idents (W all x) off | None => [] end).
Proof. destruct r as [[x off]|]; intros H; [apply sub_shift; eauto|apply sub_nil]. Qed.

Lemma sub_block (W : (ident -> bool) -> stmt -> list ident) (body : list (stmt * nat)) :
  (forall x off, In (x, off) body -> sub (W f x) (W all x)) ->
  sub ((fix go (l : list (stmt * nat)) : list ident :=
          match l with [] => [] | (x, off) :: r => shift_idents (W f x) off ++ go r end) body)
      ((fix go (l : list (stmt * nat)) : list ident :=
          match l with [] => [] | (x, off) :: r => shift_idents (W all x) off ++ go r end) body).
Proof.
  induction body as [|[x off] r IH]; intros H; [apply sub_nil|].
  apply sub_app; [apply sub_shift, (H x off); now left|]. apply IH. intros; eapply H; right; eauto.
Qed.

Lemma procs_in_stmt_sub s : sub (procs_in_stmt f s) (procs_in_stmt all s).
Proof.
  induction s as [inf|v e inf|n a inf|c t e inf IHt IHe|c b inf IHb|body inf IHbody|inf] using stmt_ind';
    cbn [procs_in_stmt]; try apply sub_nil.
  - apply sub_test.
  - apply sub_app; apply (sub_opt_stmt procs_in_stmt); auto.
  - apply (sub_opt_stmt procs_in_stmt); auto.
  - apply (sub_block procs_in_stmt); auto.
Qed.

Lemma procs_in_stmts_sub l : sub (procs_in_stmts f l) (procs_in_stmts all l).
Proof. apply sub_flat_map. intros x _. apply sub_shift, procs_in_stmt_sub. Qed.

Lemma find_procs_sub p : sub (find_procs_f f p) (find_procs_f all p).
Proof.
  apply sub_flat_map. intros [g off] _. cbn [fst snd]. destruct g as [td|pd|inf]; try apply sub_nil.
  apply sub_shift, sub_app; [|apply procs_in_stmts_sub].
  destruct (pd_name pd) as [i|]; [apply sub_test|apply sub_nil].
Qed.

Lemma types_in_params_sub l : sub (types_in_params f l) (types_in_params all l).
Proof.
  apply sub_flat_map. intros [pd off] _. cbn [fst snd].
  destruct pd as [? ? ? [[te toff]|] ?|?]; try apply sub_nil. apply sub_filter.
Qed.

Lemma types_in_vars_sub l : sub (types_in_vars f l) (types_in_vars all l).
Proof.
  apply sub_flat_map. intros [vd off] _. cbn [fst snd].
  destruct vd as [? ? [[te toff]|] ?|?]; try apply sub_nil. apply sub_filter.
Qed.

Lemma find_types_sub p : sub (find_types_f f p) (find_types_f all p).
Proof.
  apply sub_flat_map. intros [g off] _. cbn [fst snd]. apply sub_shift.
  destruct g as [td|pd|inf]; try apply sub_nil.
  - apply sub_app.
    + destruct (td_name td) as [i|]; [apply sub_test|apply sub_nil].
    + destruct (td_ty td) as [[te toff]|]; [apply sub_filter|apply sub_nil].
  - apply sub_app; [apply types_in_params_sub|apply types_in_vars_sub].
Qed.

Lemma vars_sub :
  (forall v, sub (vars_in_variable f v) (vars_in_variable all v))
  /\ (forall e, sub (vars_in_expr f e) (vars_in_expr all e)).
Proof.
  assert (X : forall v, sub (vars_in_variable f v) (vars_in_variable all v)).
  { fix IHv 1. intros v.
    assert (IHe : forall e, sub (vars_in_expr f e) (vars_in_expr all e)).
    { fix IHe 1. intros e. destruct e as [op l r inf|a inf|il|op a inf|w|inf]; cbn [vars_in_expr]; try apply sub_nil.
      - apply sub_app; apply IHe.
      - apply IHe.
      - apply IHe.
      - apply IHv. }
    destruct v as [n|a idx inf]; cbn [vars_in_variable].
    - apply sub_test.
    - apply sub_app; [apply IHv|]. destruct idx as [[e off]|]; [apply sub_shift, IHe|apply sub_nil]. }
  split; [exact X|].
  fix IHe 1. intros e. destruct e as [op l r inf|a inf|il|op a inf|w|inf]; cbn [vars_in_expr]; try apply sub_nil.
  - apply sub_app; apply IHe.
  - apply IHe.
  - apply IHe.
  - apply X.
Qed.

Lemma vars_in_oexpr_sub o : sub (vars_in_oexpr f o) (vars_in_oexpr all o).
Proof. destruct o as [[e off]|]; [apply sub_shift, vars_sub|apply sub_nil]. Qed.

Lemma vars_in_stmt_sub s : sub (vars_in_stmt f s) (vars_in_stmt all s).
Proof.
  induction s as [inf|v e inf|n a inf|c t e inf IHt IHe|c b inf IHb|body inf IHbody|inf] using stmt_ind';
    cbn [vars_in_stmt]; try apply sub_nil.
  - apply sub_app; [apply vars_sub|apply vars_in_oexpr_sub].
  - apply sub_flat_map. intros x _. apply sub_shift, vars_sub.
  - apply sub_app; [apply vars_in_oexpr_sub|]. apply sub_app; apply (sub_opt_stmt vars_in_stmt); auto.
  - apply sub_app; [apply vars_in_oexpr_sub|]. apply (sub_opt_stmt vars_in_stmt); auto.
  - apply (sub_block vars_in_stmt); auto.
Qed.

Lemma vars_in_stmts_sub l : sub (vars_in_stmts f l) (vars_in_stmts all l).
Proof. apply sub_flat_map. intros x _. apply sub_shift, vars_in_stmt_sub. Qed.

Lemma var_names_in_params_sub l : sub (var_names_in_params f l) (var_names_in_params all l).
Proof.
  apply sub_flat_map. intros [pd off] _. cbn [fst snd].
  destruct pd as [? ? [i|] ? ?|?]; try apply sub_nil. apply sub_test_shift.
Qed.

Lemma var_names_in_vars_sub l : sub (var_names_in_vars f l) (var_names_in_vars all l).
Proof.
  apply sub_flat_map. intros [vd off] _. cbn [fst snd].
  destruct vd as [? [i|] ? ?|?]; try apply sub_nil. apply sub_test_shift.
Qed.

Lemma vars_of_proc_sub pd off : sub (vars_of_proc f pd off) (vars_of_proc all pd off).
Proof.
  unfold vars_of_proc. apply sub_shift. apply sub_app; [apply var_names_in_params_sub|].
  apply sub_app; [apply var_names_in_vars_sub|apply vars_in_stmts_sub].
Qed.

End Walks.

Lemma named_shift name i off : named name (shift_ident i off) = named name i.
Proof. reflexivity. Qed.

Lemma find_proc_decl_in pn l pd off : find_proc_decl pn l = Some (pd, off) -> In (GProc pd, off) l.
Proof.
  induction l as [|[g o] r IH]; simpl; [discriminate|].
  destruct g as [td|pd'|inf].
  - intros H; right; auto.
  - destruct (pd_name pd') as [i|]; [|intros H; right; auto].
    destruct (named pn i); [|intros H; right; auto].
    intros H; inversion H; subst. now left.
  - intros H; right; auto.
Qed.

(* all referenced identifiers carry the cursor's name and are identifier nodes of the document *)
Lemma referenced_sub name ctx p g :
  sub (named name) (find_referenced_identifiers name ctx p g) (doc_idents p).
Proof.
  assert (P : sub (named name) (find_procs name p) (doc_idents p)).
  { intros i H. destruct (find_procs_sub (named name) (named_shift name) p i H). split; auto.
    unfold doc_idents. apply in_or_app. now left. }
  assert (T : sub (named name) (find_types name p) (doc_idents p)).
  { intros i H. destruct (find_types_sub (named name) (named_shift name) p i H). split; auto.
    unfold doc_idents. apply in_or_app. right. apply in_or_app. now left. }
  assert (V : forall pn, sub (named name) (find_vars name pn p) (doc_idents p)).
  { intros pn i H. unfold find_vars in H.
    destruct (find_proc_decl pn (pg_decls p)) as [[pd off]|] eqn:E; [|destruct H].
    destruct (vars_of_proc_sub (named name) (named_shift name) pd off i H). split; auto.
    unfold doc_idents. apply in_or_app. right. apply in_or_app. right.
    unfold all_vars. apply in_flat_map. exists (GProc pd, off). split; [eapply find_proc_decl_in; eauto|exact H1]. }
  unfold find_referenced_identifiers. destruct ctx as [t|pe]; [exact T|].
  destruct (text_eqb (id_val (pe_name pe)) name); [exact P|].
  destruct (lt_lookup _ _ name) as [[?|?|?|?]|]; auto. apply sub_nil.
Qed.

Lemma same_name name ctx p g i :
  In i (find_referenced_identifiers name ctx p g) -> id_val i = name.
Proof. intros H. destruct (referenced_sub name ctx p g i H) as [H1 _]. now apply text_eqb_true in H1. Qed.

(* ------------------------------------------------------------------------------------------------
   the handlers *)

Lemma text_ranges_ok toks l :
  (forall i, In i l -> info_ok (length toks) (id_info i) = true) -> exists rs, text_ranges toks l = ROk rs.
Proof.
  induction l as [|i r IH]; intros H; simpl; [eauto|].
  destruct (ident_text_range_ok toks i) as [x ->]; [apply H; now left|]. simpl.
  destruct IH as [rs ->]; [intros; apply H; now right|]. simpl. eauto.
Qed.

Lemma text_ranges_spec toks l rs :
  text_ranges toks l = ROk rs ->
  Forall2 (fun i x => fst x = id_val i /\ ident_text_range toks i = ROk (snd x)) l rs.
Proof.
  revert rs. induction l as [|i r IH]; simpl; intros rs H; [inversion H; constructor|].
  destruct (ident_text_range toks i) as [x|] eqn:E; simpl in H; [|discriminate].
  destruct (text_ranges toks r) as [r'|]; simpl in H; [|discriminate].
  inversion H; subst. constructor; auto.
Qed.

Lemma referenced_ok d name ctx :
  nav_wf d ->
  exists rs, text_ranges (d_toks d) (find_referenced_identifiers name ctx (d_ast d) (d_table d)) = ROk rs.
Proof.
  intros W. destruct (nav_wf_parts d W) as (_ & _ & I). rewrite forallb_forall in I.
  apply text_ranges_ok. intros i H. apply I. eapply referenced_sub; eauto.
Qed.

Lemma with_cursor_r_ok {A} d l c (k : text * (N * N) -> gentry -> res (option A)) :
  nav_wf d -> (forall id ctx, exists o, k id ctx = ROk o) -> exists o, with_cursor_r d l c k = ROk o.
Proof.
  intros W K. destruct (doc_cursor_ok d l c W) as [cur [E _]]. unfold with_cursor_r. rewrite E. simpl.
  destruct (cursor_ident cur) as [id|]; [|eauto]. destruct (c_ctx cur) as [ctx|]; eauto.
Qed.

Lemma refs_robust d l c :
  nav_wf d ->
  (exists o, references d l c = ROk o) /\ (exists o, rename d l c = ROk o)
  /\ (exists o, prepare_rename d l c = ROk o).
Proof.
  intros W. repeat split.
  - apply with_cursor_r_ok; auto. intros id ctx.
    destruct (referenced_ok d (fst id) ctx W) as [rs ->]. simpl. eauto.
  - apply with_cursor_r_ok; auto. intros id ctx. destruct (text_eqb (fst id) s_int); [eauto|].
    destruct (referenced_ok d (fst id) ctx W) as [rs ->]. simpl. eauto.
  - destruct (doc_cursor_ok d l c W) as [cur [E _]]. unfold prepare_rename. rewrite E. simpl.
    destruct (cursor_ident cur) as [[name r]|]; [|eauto]. destruct (text_eqb name s_int); eauto.
Qed.

Lemma no_identifier_no_answer d l c cur :
  doc_cursor d l c = ROk cur -> cursor_ident cur = None ->
  references d l c = ROk None /\ rename d l c = ROk None /\ prepare_rename d l c = ROk None.
Proof.
  intros E H. unfold references, rename, with_cursor_r, prepare_rename. rewrite E. simpl. rewrite H. auto.
Qed.

Lemma int_not_renamed d l c cur r :
  doc_cursor d l c = ROk cur -> cursor_ident cur = Some (s_int, r) ->
  rename d l c = ROk None /\ prepare_rename d l c = ROk None.
Proof.
  intros E H. unfold rename, with_cursor_r, prepare_rename. rewrite E. simpl. rewrite H. simpl.
  destruct (c_ctx cur); auto.
Qed.

(* prepareRename answers exactly when rename does (on a well-formed document, inside a named
   declaration that has a table entry) *)
Lemma prepare_iff_rename d l c cur :
  nav_wf d -> doc_cursor d l c = ROk cur -> c_ctx cur <> None ->
  (prepare_rename d l c = ROk None <-> rename d l c = ROk None).
Proof.
  intros W E C. unfold rename, with_cursor_r, prepare_rename. rewrite E. simpl.
  destruct (cursor_ident cur) as [[name r]|]; [|tauto].
  destruct (c_ctx cur) as [ctx|]; [|congruence]. simpl.
  destruct (text_eqb name s_int); [tauto|].
  destruct (referenced_ok d name ctx W) as [rs ->]. simpl. split; discriminate.
Qed.

Lemma find_some_in {A} (f : A -> bool) l x : find f l = Some x -> In x l /\ f x = true.
Proof. apply find_some. Qed.

(* prepareRename's answer is the range of the identifier token under the cursor *)
Lemma prepare_range d l c x :
  prepare_rename d l c = ROk (Some x) ->
  exists t name, In t (d_toks d) /\ tk t = Ident name /\ name <> s_int
                 /\ in_range (ts t, te t) (get_insertion_index l c (d_text d)) = true
                 /\ x = pos_range (ts t, te t) (d_text d).
Proof.
  unfold prepare_rename, doc_cursor.
  destruct (find_decl _ _ _) as [g|]; simpl; [|discriminate].
  unfold cursor_ident, token_at. simpl.
  destruct (find _ (d_toks d)) as [t|] eqn:F; [|discriminate].
  destruct (tk t) as [| | | | | | | | | | | | | | | | | | | | | | | | | | | | |s| | | | | |] eqn:K; try discriminate.
  destruct (text_eqb s s_int) eqn:E; [discriminate|].
  intros H. inversion H; subst. apply find_some in F. destruct F as [F1 F2].
  exists t, s. repeat split; auto. intros ->. now rewrite text_eqb_refl' in E.
Qed.

(* references = the edits of rename without the cursor's own identifier *)
Lemma references_in_rename d l c rs :
  references d l c = ROk (Some rs) ->
  rename d l c = ROk None \/ exists es, rename d l c = ROk (Some es) /\ incl rs es.
Proof.
  unfold references, rename, with_cursor_r.
  destruct (doc_cursor d l c) as [cur|]; simpl; [|discriminate].
  destruct (cursor_ident cur) as [id|]; [|discriminate].
  destruct (c_ctx cur) as [ctx|]; [|discriminate].
  destruct (text_eqb (fst id) s_int); [now left|].
  destruct (text_ranges _ _) as [xs|]; simpl; [|discriminate].
  intros H. inversion H; subst. right. eexists; split; [reflexivity|].
  intros x Hx. apply in_map_iff in Hx. destruct Hx as [y [<- Hy]]. apply filter_In in Hy.
  apply in_map_iff. exists y. tauto.
Qed.

(* every reference and every edit is the range of a token of the document, and comes from an
   identifier node that carries the name under the cursor *)
Lemma rename_edits d l c es :
  rename d l c = ROk (Some es) ->
  exists cur name r ctx,
    doc_cursor d l c = ROk cur /\ cursor_ident cur = Some (name, r) /\ c_ctx cur = Some ctx
    /\ Forall2 (fun i e => id_val i = name
                           /\ exists x, ident_text_range (d_toks d) i = ROk x /\ e = pos_range x (d_text d))
               (find_referenced_identifiers name ctx (d_ast d) (d_table d)) es
    /\ Forall (loc_of_token d) es.
Proof.
  unfold rename, with_cursor_r.
  destruct (doc_cursor d l c) as [cur|] eqn:E1; simpl; [|discriminate].
  destruct (cursor_ident cur) as [[name r]|] eqn:E2; [|discriminate].
  destruct (c_ctx cur) as [ctx|] eqn:E3; [|discriminate]. simpl.
  destruct (text_eqb name s_int); [discriminate|].
  destruct (text_ranges _ _) as [xs|] eqn:T; simpl; [|discriminate].
  intros H. inversion H; subst. exists cur, name, r, ctx. repeat split; auto.
  - apply text_ranges_spec in T.
    assert (N : forall i, In i (find_referenced_identifiers name ctx (d_ast d) (d_table d)) -> id_val i = name)
      by (intros; eapply same_name; eauto).
    clear H E1 E2 E3. remember (find_referenced_identifiers name ctx (d_ast d) (d_table d)) as L. clear HeqL.
    induction T as [|i x l' xs' [Hv Hr] T IH]; simpl; constructor.
    + split; [apply N; now left|]. eauto.
    + apply IH. intros; apply N; now right.
  - apply text_ranges_spec in T. clear -T.
    remember (find_referenced_identifiers name ctx (d_ast d) (d_table d)) as L. clear HeqL.
    induction T as [|i x l' xs' [Hv Hr] T IH]; simpl; constructor; auto.
    destruct (ident_text_range_token _ _ _ Hr) as [t [Ht [-> | ->]]]; exists t; auto.
Qed.

(* ------------------------------------------------------------------------------------------------
   The formal reading of C13 over the occurrences and bindings of Proofs/GotoProofs.v *)

(* two occurrences are bound to the same entity: the same declaring occurrence, or - for
   predefined entities, which have none - the same name *)
Definition same_entity (occs : list occ) (a b : occ) : bool :=
  match binding occs a, binding occs b with
  | Some x, Some y => Nat.eqb (o_tok x) (o_tok y)
  | None, None => text_eqb (o_name a) (o_name b)
  | _, _ => false
  end.

Fixpoint opt_locs (l : list (option loc)) : list loc :=
  match l with [] => [] | Some x :: r => x :: opt_locs r | None :: r => opt_locs r end.

Definition spec_references (d : doc) (o : occ) : list loc :=
  let occs := occurrences (d_ast d) in
  opt_locs (map (loc_of_occ d)
                (filter (fun x => same_entity occs x o && negb (Nat.eqb (o_tok x) (o_tok o))) occs)).

(* one edit per occurrence of the binding, the declaration included; a predefined entity has no
   declaration, so no rename is offered *)
Definition spec_rename (d : doc) (o : occ) : option (list loc) :=
  let occs := occurrences (d_ast d) in
  match binding occs o with
  | Some _ => Some (opt_locs (map (loc_of_occ d) (filter (fun x => same_entity occs x o) occs)))
  | None => None
  end.

Definition spec_prepare (d : doc) (o : occ) : option loc :=
  match binding (occurrences (d_ast d)) o with
  | Some _ => loc_of_occ d o
  | None => None
  end.

Definition full_statement_refs : Prop :=
  forall t d o l c,
    clean_doc t d -> In o (occurrences (d_ast d)) -> cursor_inside d o l c ->
    (exists rs, references d l c = ROk (Some rs) /\ Permutation rs (spec_references d o))
    /\ match spec_rename d o with
       | Some es' => exists es, rename d l c = ROk (Some es) /\ Permutation es es'
       | None => rename d l c = ROk None
       end
    /\ prepare_rename d l c = ROk (spec_prepare d o).

(* ---- the second half of the property: applying the edits ---- *)
Definition loc_start_ltb (a b : loc) : bool :=
  (fst (fst a) <? fst (fst b))%N || ((fst (fst a) =? fst (fst b))%N && (snd (fst a) <? snd (fst b))%N).

Fixpoint insert_desc (x : loc) (l : list loc) : list loc :=
  match l with
  | [] => [x]
  | y :: r => if loc_start_ltb y x then x :: l else y :: insert_desc x r
  end.

(* all edits of a WorkspaceEdit refer to the original text: apply them from the last to the first *)
Definition apply_rename (t : text) (edits : list loc) (new : text) : option text :=
  Doc.apply_changes t (map (fun r => {| Doc.crange := Some r; Doc.ctext := new |}) (fold_right insert_desc [] edits)).

(* an identifier spelling that occurs nowhere in the document and names nothing predefined *)
Definition fresh_name (d : doc) (new : text) : Prop :=
  (exists tok rest, lex new = Some (tok :: rest) /\ tk tok = Ident new /\ te tok = blen new)
  /\ (forall tok, In tok (d_toks d) -> tk tok <> Ident new)
  /\ existsb (text_eqb new) default_entries = false.

(* rename to a fresh name: the result is again diagnostic-free, its occurrences (same walk order,
   so position by position) are bound together exactly as before, and renaming the same occurrence
   back to the old name restores the original text *)
Definition roundtrip_statement : Prop :=
  forall t d n o l c new es t',
    clean_doc t d -> nth_error (occurrences (d_ast d)) n = Some o -> binding (occurrences (d_ast d)) o <> None ->
    cursor_inside d o l c -> fresh_name d new ->
    rename d l c = ROk (Some es) -> apply_rename t es new = Some t' ->
    exists d',
      clean_doc t' d'
      /\ length (occurrences (d_ast d')) = length (occurrences (d_ast d))
      /\ (forall i j a b a' b',
            nth_error (occurrences (d_ast d)) i = Some a -> nth_error (occurrences (d_ast d)) j = Some b ->
            nth_error (occurrences (d_ast d')) i = Some a' -> nth_error (occurrences (d_ast d')) j = Some b' ->
            same_entity (occurrences (d_ast d')) a' b' = same_entity (occurrences (d_ast d)) a b)
      /\ (forall o' l' c',
            nth_error (occurrences (d_ast d')) n = Some o' -> cursor_inside d' o' l' c' ->
            exists es', rename d' l' c' = ROk (Some es') /\ apply_rename t' es' (o_name o) = Some t).

(* ---- executable instance, witnesses ---- *)
Fixpoint count_loc (x : loc) (l : list loc) : nat :=
  match l with [] => 0 | y :: r => (if loc_eqb x y then 1 else 0) + count_loc x r end.
(* multiset equality *)
Definition same_locs (a b : list loc) : bool :=
  Nat.eqb (length a) (length b) && forallb (fun x => Nat.eqb (count_loc x a) (count_loc x b)) a.

Definition refs_agree_at (d : doc) (o : occ) : bool :=
  match nth_error (d_toks d) (o_tok o) with
  | Some tok =>
      forallb (fun idx =>
        let p := as_position idx (d_text d) in
        match references d (fst p) (snd p) with
        | ROk (Some rs) => same_locs rs (spec_references d o)
        | _ => false
        end
        && match rename d (fst p) (snd p), spec_rename d o with
           | ROk (Some es), Some es' => same_locs es es'
           | ROk None, None => true
           | _, _ => false
           end
        && res_loc_eqb (prepare_rename d (fst p) (snd p)) (spec_prepare d o))
        [ts tok; (te tok - 1)%N]
  | None => false
  end.

Lemma refs_refutation_instance (t : text) (l c : N) (n : nat) :
  is_clean t = true ->
  (match nth_error (occurrences (d_ast (doc_of t))) n with
   | Some o =>
       match nth_error (d_toks (doc_of t)) (o_tok o) with
       | Some tok => in_range (ts tok, te tok) (get_insertion_index l c (d_text (doc_of t)))
                     && match references (doc_of t) l c with
                        | ROk (Some rs) => negb (Nat.eqb (length rs) (length (spec_references (doc_of t) o)))
                        | _ => true
                        end
       | None => false
       end
   | None => false
   end) = true ->
  ~ full_statement_refs.
Proof.
  intros C H F.
  destruct (nth_error (occurrences (d_ast (doc_of t))) n) as [o|] eqn:E; [|discriminate].
  destruct (nth_error (d_toks (doc_of t)) (o_tok o)) as [tok|] eqn:E2; [|discriminate].
  apply andb_true_iff in H. destruct H as [H1 H2].
  destruct (F t (doc_of t) o l c) as [[rs [R P]] _].
  - now apply is_clean_doc.
  - eapply nth_error_In; eauto.
  - exists tok. auto.
  - rewrite R in H2. apply Permutation_length in P. rewrite P, Nat.eqb_refl in H2. discriminate.
Qed.

(* a local named like its procedure: references on the parameter `f` answers with the header and
   the call of the PROCEDURE f (2 locations); bound to the parameter is 1 other occurrence *)
Lemma full_statement_refs_refuted : ~ full_statement_refs.
Proof. apply (refs_refutation_instance witness_own_name 0 7 1); vm_compute; reflexivity. Qed.

Lemma rename_refutation_instance (t : text) (l c : N) (n : nat) :
  is_clean t = true ->
  (match nth_error (occurrences (d_ast (doc_of t))) n with
   | Some o =>
       match nth_error (d_toks (doc_of t)) (o_tok o) with
       | Some tok => in_range (ts tok, te tok) (get_insertion_index l c (d_text (doc_of t)))
                     && match rename (doc_of t) l c, spec_rename (doc_of t) o with
                        | ROk None, None => false
                        | ROk (Some es), Some es' => negb (Nat.eqb (length es) (length es'))
                        | _, _ => true
                        end
       | None => false
       end
   | None => false
   end) = true ->
  ~ full_statement_refs.
Proof.
  intros C H F.
  destruct (nth_error (occurrences (d_ast (doc_of t))) n) as [o|] eqn:E; [|discriminate].
  destruct (nth_error (d_toks (doc_of t)) (o_tok o)) as [tok|] eqn:E2; [|discriminate].
  apply andb_true_iff in H. destruct H as [H1 H2].
  destruct (F t (doc_of t) o l c) as [_ [R _]].
  - now apply is_clean_doc.
  - eapply nth_error_In; eauto.
  - exists tok. auto.
  - destruct (spec_rename (doc_of t) o) as [es'|].
    + destruct R as [es [R P]]. rewrite R in H2. apply Permutation_length in P.
      rewrite P, Nat.eqb_refl in H2. discriminate.
    + rewrite R in H2. discriminate.
Qed.

From Coq Require Import String.
(* rename is offered on a predefined procedure *)
Definition witness_predefined : text := str "proc main() { printi(1); printi(2); }".
(* a variable named `int` cannot be renamed *)
Definition witness_int_variable : text := str "proc main() { var int: int; int := 1; }".

Lemma full_statement_refs_refuted_predefined : ~ full_statement_refs.
Proof. apply (rename_refutation_instance witness_predefined 0 14 1); vm_compute; reflexivity. Qed.

Lemma full_statement_refs_refuted_int_variable : ~ full_statement_refs.
Proof. apply (rename_refutation_instance witness_int_variable 0 28 3); vm_compute; reflexivity. Qed.

Lemma full_statement_refs_refuted_type_name : ~ full_statement_refs.
Proof. apply (refs_refutation_instance witness_type_name 0 35 4); vm_compute; reflexivity. Qed.

(* a program on which the implementation does what the specification says at every occurrence:
   the same names (a, i) in two procedures, uses in index / negated / parenthesised expressions,
   arguments and conditions, a comment in front of an identifier, LF and CRLF *)
Definition sample_refs : text :=
  app (str "type v = array [3] of int; type w = v; // c")
  (app [10%N]
  (app (str "proc g(ref a: w, i: int) { var k: array [2] of int; a[i] := -k[(i)]; g(a, // x")
  (app [10%N]
  (app (str " i); while (i < k[0]) a[i - 1] := (i); }")
  (app [13%N; 10%N] (str "proc main() { var a: w; var i: int; g(a, i); if (i < 1) main(); }")))))).
