(* C14 - hover on every identifier occurrence of a VALID program, in ANY layout, shows the entity the
   occurrence is bound to under SPL scoping: [hover_valid].

   p ranges over the abstract programs of the grammar (Spec/Grammar.v: a comment slot in front of
   every token), G over the global tables with [well_typed (expected p) G] (Spec/Typing.v: the
   declarative static semantics), t over the texts that lex to p's token kinds - i.e. over all
   layouts of p.  The proof composes
     C04  Proofs/GrammarProg.v [roundtrip]: parse = expected p;
     C03  Proofs/TypingProofs.v [no_false_positive_tree]: build and analyze return the tree and G;
     S    where the identifier occurrences of [expected p] (by syntactic role: HoverProofs.v
          [program_occs]) sit in the token vector and which token precedes them ([located],
          [hlocated]: grammar inductions);
     F    [find_decl] finds the declaration whose tokens contain the cursor (tokens tile the text);
     T    what the static semantics says about the spelling of every occurrence ([res_ok]):
          type names and declaration names are in the global table, variables in the local table
          of their procedure, a callee is a global procedure that no local hides.               *)
From Coq Require Import PeanoNat Lia.
From Spl Require Import Proofs.GrammarBase Proofs.GrammarExpr Proofs.GrammarStmt.
From Spl Require Import Proofs.GrammarProofs Spec.Typing Model.Errors Proofs.SemProofs Proofs.TypingProofs.
From Spl Require Import Model.Hover Model.Fold Proofs.LexerProofs Proofs.FoldProofs Proofs.HoverProofs.
Local Open Scope nat_scope.

Notation len l := (length l).

(* ---------------------------------------------------------------------------------------- *)
(* lists                                                                                     *)

Lemma firstn_exact {A} (a b : list A) : firstn (len a) (a ++ b) = a.
Proof. induction a as [|x a IH]; [reflexivity|]. cbn [length firstn app]. now rewrite IH. Qed.

Lemma firstn_app_lt {A} : forall j (a b : list A), j <= len a -> firstn j (a ++ b) = firstn j a.
Proof.
  induction j as [|j IH]; intros a b H; [reflexivity|].
  destruct a as [|x a]; [cbn in H; lia|]. cbn [app firstn]. rewrite IH by (cbn in H; lia). reflexivity.
Qed.

Lemma firstn_app_ge {A} (a b : list A) j : firstn (len a + j) (a ++ b) = a ++ firstn j b.
Proof. induction a as [|x a IH]; [reflexivity|]. cbn [length Nat.add firstn app]. now rewrite IH. Qed.

Lemma nth_error_at {A} (a : list A) x b : nth_error (a ++ x :: b) (len a) = Some x.
Proof. rewrite nth_error_app2 by lia. now rewrite Nat.sub_diag. Qed.

Lemma nth_error_mid {A} (a s b : list A) j x :
  nth_error s j = Some x -> nth_error (a ++ s ++ b) (len a + j) = Some x.
Proof.
  intros H. rewrite nth_error_app2 by lia. replace (len a + j - len a) with j by lia.
  rewrite nth_error_app1; [exact H|]. apply nth_error_Some. congruence.
Qed.

Lemma map_firstn {A B} (f : A -> B) : forall n l, map f (firstn n l) = firstn n (map f l).
Proof. induction n as [|n IH]; intros [|x l]; try reflexivity. cbn [firstn map]. now rewrite IH. Qed.

Lemma nth_firstn_lt {A} : forall n (l : list A) i, i < n -> nth_error (firstn n l) i = nth_error l i.
Proof.
  induction n as [|n IH]; intros l i H; [lia|]. destruct l as [|x l]; [destruct i; reflexivity|].
  destruct i as [|i]; [reflexivity|]. cbn [firstn nth_error]. apply IH. lia.
Qed.

Lemma hd_rev {A} (l : list A) : hd_error (rev l) = nth_error l (len l - 1).
Proof.
  destruct l as [|x l] using rev_ind; [reflexivity|].
  rewrite rev_app_distr, app_length. cbn [rev app hd_error length].
  replace (len l + 1 - 1) with (len l) by lia. now rewrite nth_error_at.
Qed.

Ltac listeq := rewrite ?app_nil_r; repeat (rewrite <- app_assoc; cbn [app]); cbn [app]; reflexivity.
Ltac leneq := repeat (rewrite app_length || rewrite cm_length || cbn [length]); lia.

(* ---------------------------------------------------------------------------------------- *)
(* the previous non-comment token                                                            *)

Lemma prev_app : forall a pk b, prev_kind_k pk (a ++ b) = prev_kind_k (prev_kind_k pk a) b.
Proof. induction a as [|k a IH]; intros pk b; [reflexivity|]. cbn [app prev_kind_k]. apply IH. Qed.

Lemma prev_cm c pk : prev_kind_k pk (cm c) = pk.
Proof. revert pk. induction c as [|x c IH]; intros pk; [reflexivity|]. cbn [cm map prev_kind_k]. apply IH. Qed.

Ltac prevc := repeat (rewrite prev_app || rewrite prev_cm || cbn [prev_kind_k]).

Definition nonglobal (k : kind) : Prop := global_kind (Some k) = false.

Lemma nonglobal_prefix : forall l j pk,
  Forall nonglobal l -> global_kind pk = false -> global_kind (prev_kind_k pk (firstn j l)) = false.
Proof.
  induction l as [|k l IH]; intros j pk Hl Hpk; [destruct j; exact Hpk|].
  destruct j as [|j]; [exact Hpk|]. cbn [firstn prev_kind_k]. inversion Hl as [|? ? Hk Hl']; subst.
  apply IH; [exact Hl'|]. destruct k; try exact Hk; exact Hpk.
Qed.

Lemma nonglobal_all l pk :
  Forall nonglobal l -> global_kind pk = false -> global_kind (prev_kind_k pk l) = false.
Proof. intros H1 H2. rewrite <- (firstn_all l). now apply nonglobal_prefix. Qed.

Lemma nonglobal_cm c : Forall nonglobal (cm c).
Proof. induction c; constructor; [reflexivity | assumption]. Qed.

(* ---------------------------------------------------------------------------------------- *)
(* S: where the occurrences of the mandated tree sit in the token kinds                      *)

Definition o_tok (o : occ) : nat := fst (fst o).
Definition o_name (o : occ) : text := snd (fst o).
Definition o_scope (o : occ) : occ_scope := snd o.

(* occurrence o is the identifier token number j of the segment that starts at token [base] *)
Definition occ_at (seg : list kind) (base : nat) (o : occ) : Prop :=
  exists j, o_tok o = base + j /\ nth_error seg j = Some (Ident (o_name o)).
Definition located (seg : list kind) (base : nat) (l : list occ) : Prop := Forall (occ_at seg base) l.

Lemma located_in seg base l a sub b base' :
  located sub base' l -> seg = a ++ sub ++ b -> base' = base + len a -> located seg base l.
Proof.
  intros H -> ->. unfold located in *. rewrite Forall_forall in *. intros o Ho.
  destruct (H o Ho) as [j [Hk Hn]]. exists (len a + j). split; [lia | now apply nth_error_mid].
Qed.

Lemma located_one seg base a x b k sc :
  seg = a ++ Ident x :: b -> k = base + len a -> located seg base [(k, x, sc)].
Proof. intros -> ->. constructor; [|constructor]. exists (len a). split; [reflexivity | apply nth_error_at]. Qed.

Lemma located_app seg base l1 l2 : located seg base l1 -> located seg base l2 -> located seg base (l1 ++ l2).
Proof. intros H1 H2. apply Forall_app. now split. Qed.

Lemma located_nil seg base : located seg base [].
Proof. constructor. Qed.

(* the same with the class of the previous non-comment token: [want sc] says whether `proc`, `type`,
   `:` or `of` stands in front of an occurrence of scope sc.  In declaration headers exactly in
   front of the occurrences that the syntax binds globally ([is_gscope]); in statements never. *)
Definition is_gscope (sc : occ_scope) : bool := match sc with ScGlobal => true | ScLocal => false end.
Definition never (sc : occ_scope) : bool := false.

Definition occ_at_w (want : occ_scope -> bool) (pk : option kind) (seg : list kind) (base : nat) (o : occ) : Prop :=
  exists j, o_tok o = base + j /\ nth_error seg j = Some (Ident (o_name o)) /\
            global_kind (prev_kind_k pk (firstn j seg)) = want (o_scope o).
Definition wlocated want pk seg base (l : list occ) : Prop := Forall (occ_at_w want pk seg base) l.
Notation hlocated := (wlocated is_gscope).

Lemma occ_at_w_in want pk a sub b base o :
  occ_at_w want (prev_kind_k pk a) sub (base + len a) o -> occ_at_w want pk (a ++ sub ++ b) base o.
Proof.
  intros [j [Hk [Hn Hg]]]. exists (len a + j). split; [lia|]. split; [now apply nth_error_mid|].
  rewrite firstn_app_ge, prev_app, firstn_app_lt; [exact Hg|].
  apply Nat.lt_le_incl, nth_error_Some. congruence.
Qed.

Lemma wlocated_in want pk seg base l a sub b base' pk' :
  wlocated want pk' sub base' l -> seg = a ++ sub ++ b -> base' = base + len a -> pk' = prev_kind_k pk a ->
  wlocated want pk seg base l.
Proof. intros H -> -> ->. revert H. apply Forall_impl. intros o. apply occ_at_w_in. Qed.

Lemma wlocated_one want pk seg base a x b k sc :
  seg = a ++ Ident x :: b -> k = base + len a -> global_kind (prev_kind_k pk a) = want sc ->
  wlocated want pk seg base [(k, x, sc)].
Proof.
  intros -> -> Hg. constructor; [|constructor]. exists (len a). split; [reflexivity|].
  split; [apply nth_error_at|]. now rewrite firstn_exact.
Qed.

Lemma wlocated_app want pk seg base l1 l2 :
  wlocated want pk seg base l1 -> wlocated want pk seg base l2 -> wlocated want pk seg base (l1 ++ l2).
Proof. intros H1 H2. apply Forall_app. now split. Qed.

Lemma wlocated_located want pk seg base l : wlocated want pk seg base l -> located seg base l.
Proof. apply Forall_impl. intros o [j [H1 [H2 _]]]. exists j. now split. Qed.

(* a segment without `proc`, `type`, `:`, `of` behind a token that is none of them *)
Lemma located_never pk seg base l :
  located seg base l -> Forall nonglobal seg -> global_kind pk = false -> wlocated never pk seg base l.
Proof.
  intros H Hn Hpk. revert H. apply Forall_impl. intros o [j [H1 H2]]. exists j. repeat split; try assumption.
  now apply nonglobal_prefix.
Qed.

(* ---- expressions ---- *)

Lemma id_tok_x off o c x : id_tok off (x_ident o c x) = off + o + len c.
Proof. unfold id_tok, x_ident. cbn [id_info i_e mkinfo]. lia. Qed.

Ltac sub_located IH a s b := eapply (located_in _ _ _ a s b); [apply IH | listeq | leneq].

Theorem expr_located :
  (forall v off o, located (fl_var v) (off + o) (occs_var off (x_var o v))) /\
  (forall f off o, located (fl_fac f) (off + o) (occs_expr off (x_fac o f))) /\
  (forall m off o, located (fl_mul m) (off + o) (occs_expr off (x_mul o m))) /\
  (forall a off o, located (fl_add a) (off + o) (occs_expr off (x_add o a))) /\
  (forall e off o, located (fl_cmp e) (off + o) (occs_expr off (x_cmp o e))).
Proof.
  apply aexpr_mutind.
  - (* AName *) intros c x off o. cbn [x_var occs_var fl_var id_val x_ident]. rewrite id_tok_x.
    apply (located_one _ _ (cm c) x []); [reflexivity | leneq].
  - (* AIndex *) intros v IHv c1 e IHe c2 off o. cbn [x_var occs_var fl_var]. apply located_app.
    + sub_located IHv (@nil kind) (fl_var v) (cm c1 ++ LBracket :: fl_cmp e ++ cm c2 ++ [RBracket]).
    + sub_located IHe (fl_var v ++ cm c1 ++ [LBracket]) (fl_cmp e) (cm c2 ++ [RBracket]).
  - (* FLit *) intros c l off o. apply located_nil.
  - (* FVar *) intros v IHv off o. cbn [x_fac occs_expr fl_fac]. apply IHv.
  - (* FNeg *) intros c f IHf off o. cbn [x_fac occs_expr fl_fac].
    sub_located IHf (cm c ++ [Minus]) (fl_fac f) (@nil kind).
  - (* FPar *) intros c1 e IHe c2 off o. cbn [x_fac occs_expr fl_fac].
    sub_located IHe (cm c1 ++ [LParen]) (fl_cmp e) (cm c2 ++ [RParen]).
  - (* MFac *) intros f IHf off o. apply IHf.
  - (* MBin *) intros m IHm c op f IHf off o. cbn [x_mul occs_expr fl_mul]. apply located_app.
    + sub_located IHm (@nil kind) (fl_mul m) (cm c ++ k_mul op :: fl_fac f).
    + sub_located IHf (fl_mul m ++ cm c ++ [k_mul op]) (fl_fac f) (@nil kind).
  - (* AMul *) intros m IHm off o. apply IHm.
  - (* ABin *) intros a IHa c op m IHm off o. cbn [x_add occs_expr fl_add]. apply located_app.
    + sub_located IHa (@nil kind) (fl_add a) (cm c ++ k_add op :: fl_mul m).
    + sub_located IHm (fl_add a ++ cm c ++ [k_add op]) (fl_mul m) (@nil kind).
  - (* CAdd *) intros a IHa off o. apply IHa.
  - (* CBin *) intros l IHl c op r IHr off o. cbn [x_cmp occs_expr fl_cmp]. apply located_app.
    + sub_located IHl (@nil kind) (fl_add l) (cm c ++ k_cmp op :: fl_add r).
    + sub_located IHr (fl_add l ++ cm c ++ [k_cmp op]) (fl_add r) (@nil kind).
Qed.

Definition cmp_located := proj2 (proj2 (proj2 (proj2 expr_located))).
Definition var_located := proj1 expr_located.

(* ---- type expressions: every name stands behind `:`, `of` (or `=` in a type declaration) ---- *)

Lemma type_hlocated : forall t off o pk,
  global_kind pk = true -> hlocated pk (fl_type t) (off + o) (occs_texpr off (x_type o t)).
Proof.
  induction t as [c x | ca cl cz size cr co base IH]; intros off o pk Hpk.
  - cbn [x_type occs_texpr fl_type id_val x_ident]. rewrite id_tok_x.
    apply (wlocated_one _ _ _ _ (cm c) x []); [reflexivity | leneq | now rewrite prev_cm].
  - cbn [x_type occs_texpr fl_type].
    eapply (wlocated_in _ _ _ _ _
              (cm ca ++ KArray :: cm cl ++ LBracket :: cm cz ++ k_lit size :: cm cr ++ RBracket :: cm co ++ [KOf])
              (fl_type base) (@nil kind)); [apply (IH _ 0 (Some KOf)); reflexivity | listeq | leneq | prevc; reflexivity].
Qed.

Lemma type_located t off o : located (fl_type t) (off + o) (occs_texpr off (x_type o t)).
Proof. apply (wlocated_located is_gscope (Some Colon)). now apply type_hlocated. Qed.

(* ---- statements ---- *)

(* the occurrences of a statement list (the anonymous fix of occs_stmt for blocks) *)
Definition occs_stmts (off : nat) (l : list (stmt * nat)) : list occ :=
  flat_map (fun x => occs_stmt (off + snd x) (fst x)) l.

Lemma occs_stmt_block off body inf : occs_stmt off (SBlock body inf) = occs_stmts off body.
Proof.
  induction body as [|[s n] body IH]; [reflexivity|].
  unfold occs_stmts. cbn [flat_map fst snd]. unfold occs_stmts in IH. rewrite <- IH. reflexivity.
Qed.

Definition occs_args (off : nat) (args : list (expr * nat)) : list occ :=
  flat_map (fun a => occs_expr (off + snd a) (fst a)) args.

Lemma tail_located : forall l off o,
  located (fl_tail fl_cmp l) (off + o) (occs_args off (x_tail fl_cmp (x_cmp 0) o l)).
Proof.
  induction l as [|[c a] l IH]; intros off o; [apply located_nil|].
  unfold fl_tail, occs_args in *. cbn [x_tail flat_map fst snd]. apply located_app.
  - sub_located cmp_located (cm c ++ [Comma]) (fl_cmp a) (flat_map (fun ca => cm (fst ca) ++ Comma :: fl_cmp (snd ca)) l).
  - eapply (located_in _ _ _ (cm c ++ Comma :: fl_cmp a) _ (@nil kind)); [apply IH | listeq | leneq].
Qed.

Lemma args_located a off o :
  located (fl_sep fl_cmp a) (off + o) (occs_args off (x_sep fl_cmp (x_cmp 0) o a)).
Proof.
  destruct a as [[e l]|]; [|apply located_nil].
  unfold occs_args. cbn [x_sep fl_sep flat_map fst snd]. apply located_app.
  - sub_located cmp_located (@nil kind) (fl_cmp e) (fl_tail fl_cmp l).
  - eapply (located_in _ _ _ (fl_cmp e) _ (@nil kind)); [apply tail_located | listeq | leneq].
Qed.

Theorem stmt_located :
  (forall s off o, located (fl_stmt s) (off + o) (occs_stmt off (x_stmt o s))) /\
  (forall b off o, located (fl_stmts b) (off + o) (occs_stmts off (x_stmts o b))).
Proof.
  apply astmt_mutind.
  - (* SEmp *) intros c off o. apply located_nil.
  - (* SAsg *) intros v c1 e c2 off o. cbn [x_stmt occs_stmt fl_stmt occs_opt_expr]. apply located_app.
    + sub_located var_located (@nil kind) (fl_var v) (cm c1 ++ Assign :: fl_cmp e ++ cm c2 ++ [Semic]).
    + sub_located cmp_located (fl_var v ++ cm c1 ++ [Assign]) (fl_cmp e) (cm c2 ++ [Semic]).
  - (* SCal *) intros c1 f c2 a c3 c4 off o. cbn [x_stmt occs_stmt fl_stmt id_val x_ident]. rewrite id_tok_x.
    apply (located_app _ _ [_]).
    + apply (located_one _ _ (cm c1) f (cm c2 ++ LParen :: fl_sep fl_cmp a ++ cm c3 ++ RParen :: cm c4 ++ [Semic]));
        [reflexivity | leneq].
    + eapply (located_in _ _ _ (cm c1 ++ Ident f :: cm c2 ++ [LParen]) _ (cm c3 ++ RParen :: cm c4 ++ [Semic]));
        [apply args_located | listeq | leneq].
  - (* SIfT *) intros c1 c2 e c3 t IHt off o. cbn [x_stmt occs_stmt fl_stmt occs_opt_expr]. rewrite app_nil_r. apply located_app.
    + sub_located cmp_located (cm c1 ++ KIf :: cm c2 ++ [LParen]) (fl_cmp e) (cm c3 ++ RParen :: fl_stmt t).
    + sub_located IHt (cm c1 ++ KIf :: cm c2 ++ LParen :: fl_cmp e ++ cm c3 ++ [RParen]) (fl_stmt t) (@nil kind).
  - (* SIfE *) intros c1 c2 e c3 t IHt c4 s IHs off o. cbn [x_stmt occs_stmt fl_stmt occs_opt_expr]. repeat apply located_app.
    + sub_located cmp_located (cm c1 ++ KIf :: cm c2 ++ [LParen]) (fl_cmp e) (cm c3 ++ RParen :: fl_stmt t ++ cm c4 ++ KElse :: fl_stmt s).
    + sub_located IHt (cm c1 ++ KIf :: cm c2 ++ LParen :: fl_cmp e ++ cm c3 ++ [RParen]) (fl_stmt t) (cm c4 ++ KElse :: fl_stmt s).
    + sub_located IHs (cm c1 ++ KIf :: cm c2 ++ LParen :: fl_cmp e ++ cm c3 ++ RParen :: fl_stmt t ++ cm c4 ++ [KElse]) (fl_stmt s) (@nil kind).
  - (* SWhl *) intros c1 c2 e c3 b IHb off o. cbn [x_stmt occs_stmt fl_stmt occs_opt_expr]. apply located_app.
    + sub_located cmp_located (cm c1 ++ KWhile :: cm c2 ++ [LParen]) (fl_cmp e) (cm c3 ++ RParen :: fl_stmt b).
    + sub_located IHb (cm c1 ++ KWhile :: cm c2 ++ LParen :: fl_cmp e ++ cm c3 ++ [RParen]) (fl_stmt b) (@nil kind).
  - (* SBlk *) intros c1 b IHb c2 off o. cbn [x_stmt fl_stmt]. rewrite occs_stmt_block.
    sub_located IHb (cm c1 ++ [LCurly]) (fl_stmts b) (cm c2 ++ [RCurly]).
  - (* SNil *) intros off o. apply located_nil.
  - (* SCons *) intros s IHs r IHr off o. unfold occs_stmts in *. cbn [x_stmts fl_stmts flat_map fst snd]. apply located_app.
    + sub_located IHs (@nil kind) (fl_stmt s) (fl_stmts r).
    + eapply (located_in _ _ _ (fl_stmt s) _ (@nil kind)); [apply IHr | listeq | leneq].
Qed.

(* no `proc`, `type`, `:`, `of` inside statements *)
Ltac ng := repeat first [assumption | apply nonglobal_cm | apply Forall_nil | apply Forall_app; split | apply Forall_cons | reflexivity].

Theorem expr_nonglobal :
  (forall v, Forall nonglobal (fl_var v)) /\ (forall f, Forall nonglobal (fl_fac f)) /\
  (forall m, Forall nonglobal (fl_mul m)) /\ (forall a, Forall nonglobal (fl_add a)) /\
  (forall e, Forall nonglobal (fl_cmp e)).
Proof.
  apply aexpr_mutind; intros; cbn [fl_var fl_fac fl_mul fl_add fl_cmp]; ng;
    try (match goal with |- nonglobal (k_lit ?l) => destruct l end; reflexivity);
    try (match goal with |- nonglobal (_ ?op) => destruct op end; reflexivity).
Qed.

Lemma args_nonglobal a : Forall nonglobal (fl_sep fl_cmp a).
Proof.
  destruct a as [[e l]|]; [|constructor]. cbn [fl_sep]. apply Forall_app. split; [apply expr_nonglobal|].
  unfold fl_tail. induction l as [|[c x] l IH]; [constructor|]. cbn [flat_map fst snd]. ng. apply expr_nonglobal.
Qed.

Theorem stmt_nonglobal : (forall s, Forall nonglobal (fl_stmt s)) /\ (forall b, Forall nonglobal (fl_stmts b)).
Proof.
  apply astmt_mutind; intros; cbn [fl_stmt fl_stmts]; ng; try apply expr_nonglobal; try apply args_nonglobal.
Qed.

(* ---- parameters and variable declarations ---- *)

Definition occs_params (base : nat) (l : list (paramdecl * nat)) : list occ :=
  flat_map (fun x => occs_paramdecl (base + snd x) (fst x)) l.
Definition occs_vars (base : nat) (l : list (vardecl * nat)) : list occ :=
  flat_map (fun x => occs_vardecl (base + snd x) (fst x)) l.

Lemma param_hlocated p base pk :
  global_kind pk = false -> hlocated pk (fl_param p) base (occs_paramdecl base (x_param p)).
Proof.
  intros Hpk. destruct p as [c x cc t | cr c x cc t];
    cbn [x_param occs_paramdecl occs_name occs_opt_texpr fl_param id_val x_ident]; rewrite id_tok_x;
    apply (wlocated_app _ _ _ _ [_]).
  - apply (wlocated_one _ _ _ _ (cm c) x (cm cc ++ Colon :: fl_type t)); [reflexivity | leneq | rewrite prev_cm; exact Hpk].
  - eapply (wlocated_in _ pk _ _ _ (cm c ++ Ident x :: cm cc ++ [Colon]) (fl_type t) (@nil kind) _ (Some Colon));
      [apply (type_hlocated t _ 0 (Some Colon)); reflexivity | listeq | leneq | prevc; reflexivity].
  - apply (wlocated_one _ _ _ _ (cm cr ++ KRef :: cm c) x (cm cc ++ Colon :: fl_type t)); [listeq | leneq | prevc; reflexivity].
  - eapply (wlocated_in _ pk _ _ _ (cm cr ++ KRef :: cm c ++ Ident x :: cm cc ++ [Colon]) (fl_type t) (@nil kind) _ (Some Colon));
      [apply (type_hlocated t _ 0 (Some Colon)); reflexivity | listeq | leneq | prevc; reflexivity].
Qed.

Lemma ptail_hlocated : forall l pk base o,
  hlocated pk (fl_tail fl_param l) (base + o) (occs_params base (x_tail fl_param x_param o l)).
Proof.
  induction l as [|[c a] l IH]; intros pk base o; [constructor|].
  unfold fl_tail, occs_params in *. cbn [x_tail flat_map fst snd]. apply wlocated_app.
  - eapply (wlocated_in _ pk _ _ _ (cm c ++ [Comma]) (fl_param a)
              (flat_map (fun ca => cm (fst ca) ++ Comma :: fl_param (snd ca)) l) _ (Some Comma));
      [apply param_hlocated; reflexivity | listeq | leneq | prevc; reflexivity].
  - eapply (wlocated_in _ pk _ _ _ (cm c ++ Comma :: fl_param a) _ (@nil kind)); [apply IH | listeq | leneq | reflexivity].
Qed.

Lemma params_hlocated ps pk base o :
  global_kind pk = false ->
  hlocated pk (fl_sep fl_param ps) (base + o) (occs_params base (x_sep fl_param x_param o ps)).
Proof.
  intros Hpk. destruct ps as [[a l]|]; [|constructor].
  unfold occs_params. cbn [x_sep fl_sep flat_map fst snd]. apply wlocated_app.
  - eapply (wlocated_in _ pk _ _ _ (@nil kind) (fl_param a) (fl_tail fl_param l) _ pk);
      [apply param_hlocated; exact Hpk | listeq | leneq | reflexivity].
  - eapply (wlocated_in _ pk _ _ _ (fl_param a) _ (@nil kind)); [apply ptail_hlocated | listeq | leneq | reflexivity].
Qed.

Lemma vardecl_hlocated v base pk : hlocated pk (fl_vardecl v) base (occs_vardecl base (x_vardecl v)).
Proof.
  destruct v as [c1 c2 x c3 t c4]. unfold fl_vardecl, x_vardecl. cbn [v_c1 v_c2 v_x v_c3 v_t v_c4].
  cbn [occs_vardecl occs_name occs_opt_texpr id_val x_ident]. rewrite id_tok_x. apply (wlocated_app _ _ _ _ [_]).
  - apply (wlocated_one _ _ _ _ (cm c1 ++ KVar :: cm c2) x (cm c3 ++ Colon :: fl_type t ++ cm c4 ++ [Semic]));
      [listeq | leneq | prevc; reflexivity].
  - eapply (wlocated_in _ pk _ _ _ (cm c1 ++ KVar :: cm c2 ++ Ident x :: cm c3 ++ [Colon]) (fl_type t) (cm c4 ++ [Semic]) _ (Some Colon));
      [apply (type_hlocated t _ 0 (Some Colon)); reflexivity | listeq | leneq | prevc; reflexivity].
Qed.

Lemma vardecls_hlocated : forall vs pk base o,
  hlocated pk (flat_map fl_vardecl vs) (base + o) (occs_vars base (x_vardecls o vs)).
Proof.
  induction vs as [|v vs IH]; intros pk base o; [constructor|].
  unfold occs_vars in *. cbn [x_vardecls flat_map fst snd]. apply wlocated_app.
  - eapply (wlocated_in _ pk _ _ _ (@nil kind) (fl_vardecl v) (flat_map fl_vardecl vs) _ pk);
      [apply vardecl_hlocated | listeq | leneq | reflexivity].
  - eapply (wlocated_in _ pk _ _ _ (fl_vardecl v) _ (@nil kind)); [apply IH | listeq | leneq | reflexivity].
Qed.

(* the last token in front of the statements of a procedure is `{` or the `;` of a variable declaration *)
Lemma vardecls_prev : forall vs pk,
  global_kind pk = false -> global_kind (prev_kind_k pk (flat_map fl_vardecl vs)) = false.
Proof.
  induction vs as [|v vs IH]; intros pk Hpk; [exact Hpk|].
  cbn [flat_map]. rewrite prev_app. apply IH. unfold fl_vardecl. prevc. reflexivity.
Qed.

(* ---- declarations ---- *)

(* the occurrences of a procedure declaration: header (name, parameters, variables) and body *)
Definition proc_header_occs (D : nat) (pd : procdecl) : list occ :=
  occs_name D ScGlobal (pd_name pd) ++ occs_params D (pd_params pd) ++ occs_vars D (pd_vars pd).

Lemma occs_gdecl_proc D pd :
  occs_gdecl D (GProc pd) =
  map (pair (option_map id_val (pd_name pd))) (proc_header_occs D pd ++ occs_stmts D (pd_stmts pd)).
Proof. unfold occs_gdecl, proc_header_occs, occs_params, occs_vars, occs_stmts. now rewrite <- !app_assoc. Qed.

Definition the_proc (d : adecl) : procdecl :=
  match x_decl d with GProc pd => pd | _ => {| pd_doc := []; pd_name := None; pd_params := []; pd_vars := []; pd_stmts := []; pd_info := mkinfo 0 0 |} end.

Lemma proc_header_hlocated c1 c2 x c3 ps c4 c5 vs b c6 D pk :
  let d := DProc c1 c2 x c3 ps c4 c5 vs b c6 in
  hlocated pk (fl_decl d) D (proc_header_occs D (the_proc d)).
Proof.
  cbv zeta. unfold proc_header_occs, the_proc. cbn [x_decl pd_name pd_params pd_vars fl_decl occs_name id_val x_ident].
  rewrite id_tok_x. repeat apply wlocated_app.
  - apply (wlocated_one _ _ _ _ (cm c1 ++ KProc :: cm c2) x
             (cm c3 ++ LParen :: fl_sep fl_param ps ++ cm c4 ++ RParen :: cm c5 ++ LCurly :: flat_map fl_vardecl vs ++ fl_stmts b ++ cm c6 ++ [RCurly]));
      [listeq | leneq | prevc; reflexivity].
  - eapply (wlocated_in _ pk _ _ _ (cm c1 ++ KProc :: cm c2 ++ Ident x :: cm c3 ++ [LParen]) (fl_sep fl_param ps)
              (cm c4 ++ RParen :: cm c5 ++ LCurly :: flat_map fl_vardecl vs ++ fl_stmts b ++ cm c6 ++ [RCurly]) _ (Some LParen));
      [apply params_hlocated; reflexivity | listeq | leneq | prevc; reflexivity].
  - eapply (wlocated_in _ pk _ _ _
              (cm c1 ++ KProc :: cm c2 ++ Ident x :: cm c3 ++ LParen :: fl_sep fl_param ps ++ cm c4 ++ RParen :: cm c5 ++ [LCurly])
              (flat_map fl_vardecl vs) (fl_stmts b ++ cm c6 ++ [RCurly]) _ _);
      [apply vardecls_hlocated | listeq | leneq | reflexivity].
Qed.

Lemma proc_body_located c1 c2 x c3 ps c4 c5 vs b c6 D pk :
  let d := DProc c1 c2 x c3 ps c4 c5 vs b c6 in
  wlocated never pk (fl_decl d) D (occs_stmts D (pd_stmts (the_proc d))).
Proof.
  cbv zeta. unfold the_proc. cbn [x_decl pd_stmts fl_decl].
  eapply (wlocated_in _ pk _ _ _
            (cm c1 ++ KProc :: cm c2 ++ Ident x :: cm c3 ++ LParen :: fl_sep fl_param ps ++ cm c4 ++ RParen :: cm c5 ++ LCurly :: flat_map fl_vardecl vs)
            (fl_stmts b) (cm c6 ++ [RCurly]) _ _); [ | listeq | | reflexivity].
  - apply located_never; [apply (proj2 stmt_located) | apply stmt_nonglobal|].
    prevc. apply vardecls_prev. reflexivity.
  - leneq.
Qed.

(* a type declaration: the name and the names of the type expression *)
Lemma type_decl_located c1 c2 x c3 t c4 D :
  let d := DType c1 c2 x c3 t c4 in
  located (fl_decl d) D (map snd (occs_gdecl D (x_decl d))).
Proof.
  cbv zeta. cbn [x_decl occs_gdecl td_name td_ty]. rewrite map_map. cbn [snd]. rewrite map_id.
  cbn [fl_decl occs_name occs_opt_texpr id_val x_ident]. rewrite id_tok_x. apply (located_app _ _ [_]).
  - apply (located_one _ _ (cm c1 ++ KType :: cm c2) x (cm c3 ++ EqT :: fl_type t ++ cm c4 ++ [Semic])); [listeq | leneq].
  - eapply (located_in _ _ _ (cm c1 ++ KType :: cm c2 ++ Ident x :: cm c3 ++ [EqT]) (fl_type t) (cm c4 ++ [Semic]));
      [apply (type_located t _ 0) | listeq | leneq].
Qed.

(* ---------------------------------------------------------------------------------------- *)
(* the handler on a token vector in text order                                               *)
Local Open Scope N_scope.

Lemma token_at_sorted : forall toks k tok index,
  toks_sorted toks = true -> nth_error toks k = Some tok -> ts tok <= index -> index < te tok ->
  token_at toks index = Some tok.
Proof.
  unfold token_at. induction toks as [|x r IH]; intros k tok index Hs Hn H1 H2; [destruct k; discriminate|].
  cbn [find]. destruct k as [|k]; cbn [nth_error] in Hn.
  - injection Hn as ->. unfold in_range. cbn [fst snd].
    destruct (N.leb_spec (ts tok) index); [|lia]. destruct (N.ltb_spec index (te tok)); [|lia]. reflexivity.
  - pose proof (sorted_head_le r x k tok Hs Hn) as Hle.
    unfold in_range at 1. cbn [fst snd]. destruct (N.ltb_spec index (te x)); [lia|]. rewrite andb_false_r.
    apply (IH k); eauto using toks_sorted_tail.
Qed.

Lemma global_position_sorted toks k tok index :
  toks_sorted toks = true -> nth_error toks k = Some tok -> ts tok <= index -> index < te tok ->
  global_position_at toks index = global_kind (prev_kind_k None (firstn k (map tk toks))).
Proof.
  intros Hs Hn H1 H2. destruct (nth_error_split toks k Hn) as [l1 [l2 [Ht Hl]]].
  unfold global_position_at. rewrite Ht at 1. rewrite gp_scan_spec.
  - unfold prev_kind. rewrite <- map_firstn. rewrite Ht, <- Hl, firstn_exact. reflexivity.
  - apply forallb_forall. intros x Hx. apply In_nth_error in Hx as [i Hi].
    assert (Hi' : nth_error toks i = Some x).
    { rewrite Ht, nth_error_app1; [exact Hi|]. apply nth_error_Some. congruence. }
    assert (i < k)%nat. { rewrite <- Hl. apply nth_error_Some. congruence. }
    pose proof (sorted_pair _ Hs i k x tok ltac:(assumption) Hi' Hn).
    unfold in_range. cbn [fst snd]. destruct (N.ltb_spec index (te x)); [lia|]. now rewrite andb_false_r.
  - unfold in_range. cbn [fst snd].
    destruct (N.leb_spec (ts tok) index); [|lia]. destruct (N.ltb_spec index (te tok)); [|lia]. reflexivity.
Qed.

(* hover computed: the cursor inside identifier token number k of a document in text order *)
Theorem hover_at (d : doc) line col k tok x gd D ctx e :
  let index := get_insertion_index line col (d_text d) in
  toks_sorted (d_toks d) = true -> nth_error (d_toks d) k = Some tok -> tk tok = Ident x ->
  ts tok <= index -> index < te tok ->
  find_decl (d_toks d) index (pg_decls (d_ast d)) = ROk (Some (gd, D)) ->
  match gdecl_name gd with Some n => lookup (d_table d) (id_val n) | None => None end = Some ctx ->
  hover_entry d ctx (global_kind (prev_kind_k None (firstn k (map tk (d_toks d))))) x = Some e ->
  hover d line col = ROk (Some (hover_text e, (as_position (ts tok) (d_text d), as_position (te tok) (d_text d)))).
Proof.
  intros index Hs Hn Hk H1 H2 Hf Hc He. unfold hover, doc_cursor. fold index. rewrite Hf. cbn [rbind].
  unfold cursor_ident, is_global_position. cbn [c_doc c_index c_ctx].
  rewrite (token_at_sorted _ _ _ _ Hs Hn H1 H2), Hk. cbv zeta. rewrite Hc.
  fold (global_position_at (d_toks d) index). rewrite (global_position_sorted _ _ _ _ Hs Hn H1 H2), He.
  reflexivity.
Qed.

(* ---------------------------------------------------------------------------------------- *)
(* F: the declaration around the cursor                                                      *)
Local Open Scope nat_scope.

Lemma fl_decl_pos d : 1 <= len (fl_decl d).
Proof. destruct d; cbn [fl_decl]; leneq. Qed.

Lemma x_decl_info d : gdecl_info (x_decl d) = mkinfo 0 (len (fl_decl d)).
Proof. destruct d; reflexivity. Qed.

(* the text range of a declaration: from its first token (doc comments included) to its last one *)
Lemma decl_text_range toks o d :
  o + len (fl_decl d) <= len toks ->
  exists first last, nth_error toks o = Some first /\ nth_error toks (o + len (fl_decl d) - 1) = Some last /\
    info_text_range (skipn o toks) (gdecl_info (x_decl d)) = ROk (ts first, te last).
Proof.
  intros H. pose proof (fl_decl_pos d) as Hp. set (n := len (fl_decl d)) in *.
  rewrite x_decl_info. fold n. unfold info_text_range, byte_range, mkinfo. cbn [e_s e_e e_m i_s i_e].
  destruct (Nat.ltb_spec 0 n); [|lia]. rewrite skipn_length. destruct (Nat.ltb_spec (len toks - o) n); [lia|].
  cbn [skipn]. rewrite Nat.sub_0_r. set (sl := firstn n (skipn o toks)).
  assert (Hl : len sl = n) by (unfold sl; rewrite firstn_length, skipn_length; lia).
  assert (Hnth : forall i, i < n -> nth_error sl i = nth_error toks (o + i)).
  { intros i Hi. unfold sl. rewrite nth_firstn_lt by exact Hi. apply nth_skipn. }
  rewrite hd_rev, Hl, (Hnth (n - 1)) by lia.
  assert (Hhd : hd_error sl = nth_error toks o).
  { replace (hd_error sl) with (nth_error sl 0) by (destruct sl; reflexivity). rewrite (Hnth 0) by lia. now rewrite Nat.add_0_r. }
  rewrite Hhd.
  destruct (nth_error toks o) as [f|] eqn:Ef; [|apply nth_error_None in Ef; lia].
  replace (o + (n - 1)) with (o + n - 1) by lia.
  destruct (nth_error toks (o + n - 1)) as [l|] eqn:El; [|apply nth_error_None in El; lia].
  exists f, l. repeat split; reflexivity.
Qed.

Lemma sorted_le toks i j a b :
  toks_sorted toks = true -> i <= j -> nth_error toks i = Some a -> nth_error toks j = Some b ->
  (ts a <= ts b /\ te a <= te b)%N.
Proof.
  intros Hs Hij Ha Hb. destruct (Nat.eq_dec i j) as [->|Hne].
  - rewrite Ha in Hb. injection Hb as <-. split; apply N.le_refl.
  - pose proof (sorted_pair _ Hs i j a b ltac:(lia) Ha Hb).
    pose proof (sorted_self _ Hs _ _ Ha). pose proof (sorted_self _ Hs _ _ Hb). split; lia.
Qed.

Lemma find_decl_hit toks index k tok :
  toks_sorted toks = true -> nth_error toks k = Some tok -> (ts tok <= index)%N -> (index < te tok)%N ->
  forall l1 o d l2,
    o + len (flat_map fl_decl (l1 ++ d :: l2)) <= len toks ->
    o + len (flat_map fl_decl l1) <= k -> k < o + len (flat_map fl_decl l1) + len (fl_decl d) ->
    find_decl toks index (x_decls o (l1 ++ d :: l2)) = ROk (Some (x_decl d, o + len (flat_map fl_decl l1))).
Proof.
  intros Hs Hn H1 H2. induction l1 as [|d' l1 IH]; intros o d l2 Hlen Hlo Hhi.
  - cbn [app flat_map length] in *. rewrite Nat.add_0_r in *. rewrite app_length in Hlen.
    cbn [x_decls find_decl]. unfold slice_from. destruct (Nat.ltb_spec (len toks) o); [lia|]. cbn [rbind].
    destruct (decl_text_range toks o d ltac:(lia)) as [f [l [Hf [Hl Hr]]]]. rewrite Hr. cbn [rbind].
    destruct (sorted_le toks o k f tok Hs ltac:(lia) Hf Hn) as [Ha _].
    destruct (sorted_le toks k (o + len (fl_decl d) - 1) tok l Hs ltac:(lia) Hn Hl) as [_ Hb].
    unfold in_range. cbn [fst snd]. destruct (N.leb_spec (ts f) index); [|lia]. destruct (N.ltb_spec index (te l)); [|lia].
    reflexivity.
  - cbn [app flat_map] in *. rewrite app_length in *. pose proof (fl_decl_pos d') as Hp.
    cbn [x_decls find_decl]. unfold slice_from. destruct (Nat.ltb_spec (len toks) o); [lia|]. cbn [rbind].
    destruct (decl_text_range toks o d' ltac:(lia)) as [f [l [Hf [Hl Hr]]]]. rewrite Hr. cbn [rbind].
    pose proof (sorted_pair _ Hs (o + len (fl_decl d') - 1) k l tok ltac:(lia) Hl Hn).
    unfold in_range. cbn [fst snd]. destruct (N.ltb_spec index (te l)); [lia|]. rewrite andb_false_r.
    rewrite (IH (o + len (fl_decl d')) d l2) by lia. do 3 f_equal. lia.
Qed.

(* the declarations of the mandated tree *)
Lemma x_decls_in : forall l o g D,
  In (g, D) (x_decls o l) -> exists l1 d l2, l = l1 ++ d :: l2 /\ g = x_decl d /\ D = o + len (flat_map fl_decl l1).
Proof.
  induction l as [|d l IH]; intros o g D H; [contradiction|]. cbn [x_decls In] in H. destruct H as [H|H].
  - injection H as <- <-. exists [], d, l. cbn [app flat_map length]. repeat split. lia.
  - destruct (IH _ _ _ H) as [l1 [d0 [l2 [-> [-> ->]]]]]. exists (d :: l1), d0, l2. cbn [app flat_map].
    rewrite app_length. repeat split. lia.
Qed.

(* ---------------------------------------------------------------------------------------- *)
(* T: what the static semantics says about the spelling of every occurrence                  *)

(* the spelling x of an occurrence of scope sc, with (g = true) or without `proc`/`type`/`:`/`of` in
   front, is resolved the way hover looks it up in a procedure with local table L *)
Definition res_ok (G : gtable) (L : ltable) (sc : occ_scope) (g : bool) (x : text) : Prop :=
  match sc, g with
  | ScGlobal, true => lookup G x <> None
  | ScGlobal, false => lookup L x = None /\ lookup G x <> None
  | ScLocal, false => lt_lookup (Some L) (Some G) x <> None
  | ScLocal, true => False
  end.
Definition occ_res G L (want : occ_scope -> bool) (o : occ) : Prop :=
  res_ok G L (o_scope o) (want (o_scope o)) (o_name o).

Lemma binds_lt L G x e : binds L G x e -> lt_lookup (Some L) (Some G) x = Some e.
Proof. intros [le H | ge H1 H2]; unfold lt_lookup; [now rewrite H | now rewrite H1, H2]. Qed.

(* ---- bodies ---- *)
Lemma typing_occs L G :
  (forall v t, var_type L G v t -> forall off, Forall (occ_res G L never) (occs_var off v)) /\
  (forall e t, expr_type L G e t -> forall off, Forall (occ_res G L never) (occs_expr off e)).
Proof.
  apply typing_mutind.
  - intros i e ve t Hb _ _ off. cbn [occs_var]. constructor; [|constructor].
    unfold occ_res, never, o_scope, o_name. cbn [fst snd res_ok]. now rewrite (binds_lt _ _ _ _ Hb).
  - intros a e off inf sz b c _ IHa _ IHe off'. cbn [occs_var]. apply Forall_app. split; [apply IHa | apply IHe].
  - intros i off. constructor.
  - intros v t _ IH off. apply IH.
  - intros op l r inf _ _ IHl _ IHr off. cbn [occs_expr]. apply Forall_app. split; [apply IHl | apply IHr].
  - intros op l r inf _ _ IHl _ IHr off. cbn [occs_expr]. apply Forall_app. split; [apply IHl | apply IHr].
  - intros op a inf _ IH off. apply IH.
  - intros a inf t _ IH off. apply IH.
Qed.

Lemma args_occs L G : forall args ps off,
  Forall2 (arg_ok L G) args ps -> Forall (occ_res G L never) (occs_args off args).
Proof.
  intros args ps off H. induction H as [|[a o] p args ps Ha _ IH]; [constructor|].
  unfold occs_args in *. cbn [flat_map fst snd]. apply Forall_app. split; [|exact IH].
  inversion Ha; subst. eapply (proj2 (typing_occs L G)); eassumption.
Qed.

Lemma wt_occs L G :
  (forall s, wt_stmt L G s -> forall off, Forall (occ_res G L never) (occs_stmt off s)) /\
  (forall l, wt_stmts L G l -> forall off, Forall (occ_res G L never) (occs_stmts off l)).
Proof.
  destruct (typing_occs L G) as [Tv Te].
  apply wt_mutind.
  - intros inf off. constructor.
  - intros v e o inf Hv He off. cbn [occs_stmt occs_opt_expr]. apply Forall_app. split; [eapply Tv | eapply Te]; eassumption.
  - intros name args inf pe Hb Ha off. cbn [occs_stmt]. constructor.
    + unfold occ_res, never, o_scope, o_name. cbn [fst snd res_ok].
      inversion Hb as [le Hl He | ge Hl Hg He]; [destruct le; discriminate He|]. split; [exact Hl | congruence].
    + exact (args_occs L G _ _ off Ha).
  - intros c oc t ot inf Hc _ IHt off. cbn [occs_stmt occs_opt_expr]. rewrite app_nil_r. apply Forall_app.
    split; [eapply Te; eassumption | apply IHt].
  - intros c oc t ot e oe inf Hc _ IHt _ IHe off. cbn [occs_stmt occs_opt_expr]. repeat (apply Forall_app; split);
      [eapply Te; eassumption | apply IHt | apply IHe].
  - intros c oc b ob inf Hc _ IHb off. cbn [occs_stmt occs_opt_expr]. apply Forall_app.
    split; [eapply Te; eassumption | apply IHb].
  - intros body inf _ IH off. rewrite occs_stmt_block. apply IH.
  - intros off. constructor.
  - intros s o r _ IHs _ IHr off. unfold occs_stmts in *. cbn [flat_map fst snd]. apply Forall_app. split; [apply IHs | apply IHr].
Qed.

(* ---- type expressions, parameters, variables ---- *)
Lemma denotes_occs L G cr te t : denotes L G cr te t ->
  forall off, Forall (fun o => o_scope o = ScGlobal /\ lookup G (o_name o) <> None) (occs_texpr off te).
Proof.
  induction 1 as [i te t Hb _ | il b o inf bt _ IH]; intros off.
  - cbn [occs_texpr]. constructor; [|constructor]. split; [reflexivity|]. unfold o_name. cbn [fst snd].
    inversion Hb as [le Hl He | ge Hl Hg He]; [destruct le; discriminate He | congruence].
  - cbn [occs_texpr]. apply IH.
Qed.

Lemma lookup_snoc_same {V} (L : list (text * V)) x v : lookup L x = None -> lookup (L ++ [(x, v)]) x = Some v.
Proof. intros H. now rewrite lookup_app, H, text_eqb_refl. Qed.

Lemma lookup_snoc_keep {V} (L : list (text * V)) x v y : lookup L y <> None -> lookup (L ++ [(x, v)]) y <> None.
Proof. intros H. rewrite lookup_app. destruct (lookup L y); [discriminate | contradiction]. Qed.

(* header occurrences: a name of a type expression is in the global table the declaration sees,
   a declared name is in the final local table *)
Definition header_res (Gi : gtable) (L : ltable) (o : occ) : Prop :=
  match o_scope o with ScGlobal => lookup Gi (o_name o) <> None | ScLocal => lookup L (o_name o) <> None end.

Lemma texpr_header Gi L L0 cr te t off :
  denotes L0 Gi cr te t -> Forall (header_res Gi L) (occs_texpr off te).
Proof.
  intros H. eapply Forall_impl; [|exact (denotes_occs _ _ _ _ _ H off)].
  intros o [Hs Hl]. unfold header_res. now rewrite Hs.
Qed.

Lemma wf_params_occs Gi pn L ps L' es : wf_params Gi pn L ps L' es ->
  (forall y, lookup L y <> None -> lookup L' y <> None) /\
  forall D, Forall (header_res Gi L') (occs_params D ps).
Proof.
  induction 1 as [L | L doc is_ref name te o inf off t r L' es Hd _ Hfresh _ [IHm IH]].
  - split; [auto | intros D; constructor].
  - split; [intros y Hy; apply IHm; now apply lookup_snoc_keep|].
    intros D. unfold occs_params in *. cbn [flat_map fst snd occs_paramdecl occs_name occs_opt_texpr].
    rewrite <- app_assoc. cbn [app]. constructor; [|apply Forall_app; split; [|apply IH]].
    + unfold header_res, o_scope, o_name. cbn [fst snd]. apply IHm. now rewrite (lookup_snoc_same _ _ _ Hfresh).
    + eapply texpr_header; eassumption.
Qed.

Lemma wf_vars_occs Gi pn L vs L' : wf_vars Gi pn L vs L' ->
  (forall y, lookup L y <> None -> lookup L' y <> None) /\
  forall D, Forall (header_res Gi L') (occs_vars D vs).
Proof.
  induction 1 as [L | L doc name te o inf off t r L' Hd Hfresh _ [IHm IH]].
  - split; [auto | intros D; constructor].
  - split; [intros y Hy; apply IHm; now apply lookup_snoc_keep|].
    intros D. unfold occs_vars in *. cbn [flat_map fst snd occs_vardecl occs_name occs_opt_texpr].
    rewrite <- app_assoc. cbn [app]. constructor; [|apply Forall_app; split; [|apply IH]].
    + unfold header_res, o_scope, o_name. cbn [fst snd]. apply IHm. now rewrite (lookup_snoc_same _ _ _ Hfresh).
    + eapply texpr_header; eassumption.
Qed.

(* ---- the global table ---- *)
Lemma wf_gdecls_in : forall G0 ds es, wf_gdecls G0 ds es ->
  forall g off, In (g, off) ds ->
  exists Gi ke, wf_gdecl Gi off g ke /\ lookup (G0 ++ es) (fst ke) = Some (snd ke) /\
                (forall x, lookup Gi x <> None -> lookup (G0 ++ es) x <> None).
Proof.
  induction 1 as [G | G d off [k e] r es Hd _ IH]; intros g o Hin; [contradiction|].
  destruct (wf_gdecl_fresh _ _ _ _ Hd) as [Hf _]. cbn [fst] in Hf.
  assert (Heq : G ++ (k, e) :: es = (G ++ [(k, e)]) ++ es) by (now rewrite <- app_assoc).
  destruct Hin as [Hin|Hin].
  - injection Hin as <- <-. exists G, (k, e). split; [exact Hd|]. cbn [fst snd]. split.
    + rewrite Heq. apply lookup_app_l. now apply lookup_snoc_same.
    + intros x Hx. destruct (lookup G x) as [v|] eqn:E; [|contradiction].
      rewrite (lookup_app_l _ _ _ _ E). discriminate.
  - destruct (IH _ _ Hin) as [Gi [ke [H1 [H2 H3]]]]. exists Gi, ke. rewrite Heq. repeat split; assumption.
Qed.

(* ---------------------------------------------------------------------------------------- *)
(* the theorem                                                                               *)

(* the document of a valid program *)
Lemma valid_doc p G t toks d :
  prog_ok p = true -> well_typed (expected p) G -> lex t = Some toks -> map tk toks = flatten p ++ [Eof] ->
  new_doc_res t = ODone d ->
  d = {| d_text := t; d_toks := toks; d_ast := expected p; d_table := G |}.
Proof.
  intros Hok Hwt Hlex Hk. destruct (no_false_positive_tree _ _ (expected_clean p) Hwt) as [Hb [Ha _]].
  unfold new_doc_res. rewrite Hlex, (roundtrip p toks Hok Hk), Hb, Ha. intros [= <-]. reflexivity.
Qed.

(* binding (the specification) and hover_entry (the handler) agree on a resolved spelling *)
Lemma res_entry (d : doc) pe owner sc g x :
  lookup (d_table d) owner = Some (GProcE pe) -> res_ok (d_table d) (pe_local pe) sc g x ->
  exists e, binding d (Some owner) sc x = Some e /\ hover_entry d (GProcE pe) g x = Some e.
Proof.
  intros Ho. destruct sc, g; cbn [res_ok]; unfold binding, hover_entry, lookup_for, lt_lookup; try contradiction.
  - intros H. destruct (lookup (d_table d) x) as [ge|]; [|contradiction]. exists (entry_of_g ge). split; reflexivity.
  - intros [Hl H]. rewrite Hl. destruct (lookup (d_table d) x) as [ge|]; [|contradiction]. exists (entry_of_g ge). split; reflexivity.
  - rewrite Ho. unfold lt_lookup. intros H.
    destruct (lookup (pe_local pe) x) as [le|]; [eexists; split; reflexivity|].
    destruct (lookup (d_table d) x) as [ge|]; [eexists; split; reflexivity | contradiction].
Qed.

Lemma res_entry_type (d : doc) te owner g x :
  lookup (d_table d) x <> None ->
  exists e, binding d owner ScGlobal x = Some e /\ hover_entry d (GTypeE te) g x = Some e.
Proof.
  intros H. unfold binding, hover_entry. destruct (lookup (d_table d) x) as [ge|]; [|contradiction].
  exists (entry_of_g ge). split; reflexivity.
Qed.

Lemma occ_at_w_abs want pre seg post o :
  occ_at_w want (prev_kind_k None pre) seg (len pre) o ->
  global_kind (prev_kind_k None (firstn (o_tok o) (pre ++ seg ++ post))) = want (o_scope o).
Proof.
  intros [j [Hk [Hn Hg]]]. rewrite Hk, firstn_app_ge, prev_app, firstn_app_lt; [exact Hg|].
  apply Nat.lt_le_incl, nth_error_Some. congruence.
Qed.

Local Open Scope N_scope.

(* hover on an occurrence that sits in declaration dd of the program *)
Lemma hover_occ p G t toks l1 dd l2 post o tok line col ctx e :
  let d := {| d_text := t; d_toks := toks; d_ast := expected p; d_table := G |} in
  let pre := flat_map fl_decl l1 in
  toks_sorted toks = true -> a_decls p = l1 ++ dd :: l2 ->
  map tk toks = pre ++ fl_decl dd ++ post -> (len (flat_map fl_decl (a_decls p)) <= len toks)%nat ->
  occ_at (fl_decl dd) (len pre) o ->
  nth_error toks (o_tok o) = Some tok ->
  ts tok <= get_insertion_index line col t -> get_insertion_index line col t < te tok ->
  match gdecl_name (x_decl dd) with Some n => lookup G (id_val n) | None => None end = Some ctx ->
  hover_entry d ctx (global_kind (prev_kind_k None (firstn (o_tok o) (map tk toks)))) (o_name o) = Some e ->
  hover d line col = ROk (Some (hover_text e, (as_position (ts tok) t, as_position (te tok) t))).
Proof.
  intros d pre Hs Hds Hks Hlen [j [Hk Hj]] Hn H1 H2 Hc He.
  assert (Hid : tk tok = Ident (o_name o)).
  { pose proof (map_nth_error tk _ _ Hn) as Hm. rewrite Hks, Hk in Hm.
    rewrite (nth_error_mid pre (fl_decl dd) post j _ Hj) in Hm. now injection Hm. }
  assert (Hjl : (j < len (fl_decl dd))%nat) by (apply nth_error_Some; congruence).
  apply (hover_at d line col (o_tok o) tok (o_name o) (x_decl dd) (0 + len pre) ctx e); try assumption.
  unfold d. cbn [d_toks d_ast d_text]. unfold expected. cbn [pg_decls]. rewrite Hds.
  apply (find_decl_hit toks _ (o_tok o) tok Hs Hn H1 H2 l1 0 dd l2); rewrite <- ?Hds; fold pre; lia.
Qed.

Theorem hover_valid (p : aprog) (G : gtable) (t : text) (toks : list token) (d : doc) :
  prog_ok p = true -> well_typed (expected p) G ->
  lex t = Some toks -> map tk toks = flatten p ++ [Eof] ->
  new_doc_res t = ODone d ->
  forall owner k x sc, In (owner, (k, x, sc)) (program_occs (expected p)) ->
  forall tok line col, nth_error toks k = Some tok ->
    ts tok <= get_insertion_index line col t -> get_insertion_index line col t < te tok ->
    exists e, binding d owner sc x = Some e /\
      hover d line col = ROk (Some (hover_text e, (as_position (ts tok) t, as_position (te tok) t))).
Proof.
  intros Hok Hwt Hlex Hk Hd owner k x sc Hin tok line col Hn H1 H2.
  rewrite (valid_doc p G t toks d Hok Hwt Hlex Hk Hd). clear Hd d.
  set (d := {| d_text := t; d_toks := toks; d_ast := expected p; d_table := G |}).
  assert (Hs : toks_sorted toks = true) by exact (ordered_sorted 0 _ (tiles_ordered 0 t _ (lex_tiles t _ Hlex))).
  unfold program_occs in Hin. apply in_flat_map in Hin as [[g D] [Hg Ho]]. cbn [fst snd expected pg_decls] in Hg, Ho.
  destruct (x_decls_in _ _ _ _ Hg) as [l1 [dd [l2 [Hds [-> HD]]]]]. cbn [Nat.add] in HD. subst D.
  set (pre := flat_map fl_decl l1) in *.
  set (post := flat_map fl_decl l2 ++ cm (a_ceof p) ++ [Eof]).
  assert (Hks : map tk toks = pre ++ fl_decl dd ++ post).
  { rewrite Hk. unfold flatten, post, pre. rewrite Hds, flat_map_app. cbn [flat_map]. now rewrite <- !app_assoc. }
  assert (Hlen : (len (flat_map fl_decl (a_decls p)) <= len toks)%nat).
  { rewrite <- (map_length tk toks), Hk. unfold flatten. rewrite !app_length. lia. }
  destruct Hwt as [[es [Hwf [HG Hmain]]] Hbodies].
  destruct (wf_gdecls_in _ _ _ Hwf _ _ Hg) as [Gi [ke [Hke [Hlk Hsub]]]]. rewrite <- HG in Hlk, Hsub. clear HG Hmain.
  destruct dd as [c1 c2 xn c3 ty c4 | c1 c2 xn c3 ps c4 c5 vs b c6].
  - (* a type declaration: everything is looked up globally *)
    pose proof (type_decl_located c1 c2 xn c3 ty c4 (len pre)) as Hloc. cbv zeta in Hloc.
    cbn [x_decl occs_gdecl td_name td_ty] in Ho. apply in_map_iff in Ho as [o [Heq Ho]]. injection Heq as Ho1 Ho2. subst owner o.
    inversion Hke as [d0 name te0 o0 t0 Hname _ _ Hty Hden | ]; subst. cbn [x_decl td_name td_ty] in Hname, Hty.
    injection Hname as <-. injection Hty as <- <-. cbn [fst snd id_val x_ident] in Hlk.
    assert (Hres : o_scope (k, x, sc) = ScGlobal /\ lookup G (o_name (k, x, sc)) <> None).
    { cbn [occs_name] in Ho. destruct Ho as [Ho|Ho].
      - injection Ho as <- <- <-. split; [reflexivity|]. unfold o_name. cbn [fst snd id_val x_ident]. congruence.
      - pose proof (denotes_occs _ _ _ _ _ Hden (len pre + (len c1 + 1 + len c2 + 1 + len c3 + 1))) as Hf.
        rewrite Forall_forall in Hf. destruct (Hf _ Ho) as [Ha Hb]. split; [exact Ha | apply Hsub, Hb]. }
    destruct Hres as [Hsc Hlx]. unfold o_scope, o_name in Hsc, Hlx. cbn [fst snd] in Hsc, Hlx. subst sc.
    match type of Hlk with lookup G xn = Some (GTypeE ?te1) => set (te := te1) in * end.
    destruct (res_entry_type d te (option_map id_val (Some (x_ident (len c1 + 1) c2 xn)))
                (global_kind (prev_kind_k None (firstn k (map tk toks)))) x Hlx) as [e [Hb He]].
    exists e. split; [exact Hb|].
    assert (Hat : occ_at (fl_decl (DType c1 c2 xn c3 ty c4)) (len pre) (k, x, ScGlobal)).
    { unfold located in Hloc. rewrite Forall_forall in Hloc. apply Hloc.
      cbn [x_decl occs_gdecl td_name td_ty]. rewrite map_map. cbn [snd]. rewrite map_id. exact Ho. }
    exact (hover_occ p G t toks l1 _ l2 post (k, x, ScGlobal) tok line col (GTypeE te) e Hs Hds Hks Hlen Hat Hn H1 H2 Hlk He).
  - (* a procedure declaration *)
    set (dd := DProc c1 c2 xn c3 ps c4 c5 vs b c6) in *.
    change (x_decl dd) with (GProc (the_proc dd)) in Ho, Hke, Hg.
    rewrite occs_gdecl_proc in Ho. apply in_map_iff in Ho as [o [Heq Ho]].
    assert (Hown : pd_name (the_proc dd) = Some (x_ident (len c1 + 1) c2 xn)) by reflexivity.
    rewrite Hown in Heq. cbn [option_map id_val x_ident] in Heq. injection Heq as Ho1 Ho2. subst owner o.
    inversion Hke as [ | d0 name L1 pes L2 Hname _ Hpar Hvar]; subst. rewrite Hown in Hname. injection Hname as <-.
    cbn [fst snd id_val x_ident] in Hlk.
    match type of Hlk with lookup G xn = Some (GProcE ?pe0) => set (pe := pe0) in * end.
    assert (Hfin : forall want, occ_at_w want (prev_kind_k None pre) (fl_decl dd) (len pre) (k, x, sc) ->
                     res_ok G L2 sc (want sc) x ->
                     exists e, binding d (Some xn) sc x = Some e /\
                       hover d line col = ROk (Some (hover_text e, (as_position (ts tok) t, as_position (te tok) t)))).
    { intros want Hat Hres. destruct (res_entry d pe xn sc (want sc) x Hlk Hres) as [e [Hb He]]. exists e. split; [exact Hb|].
      pose proof (occ_at_w_abs want pre (fl_decl dd) post _ Hat) as Hgp. rewrite <- Hks in Hgp. unfold o_tok, o_scope in Hgp. cbn [fst snd] in Hgp.
      assert (Hat' : occ_at (fl_decl dd) (len pre) (k, x, sc)) by (destruct Hat as [j [Ha [Hb' _]]]; exists j; now split).
      apply (hover_occ p G t toks l1 dd l2 post (k, x, sc) tok line col (GProcE pe) e Hs Hds Hks Hlen Hat' Hn H1 H2 Hlk).
      unfold o_tok, o_name. cbn [fst snd]. rewrite Hgp. exact He. }
    apply in_app_or in Ho as [Ho|Ho].
    + (* header: the name, the parameters, the variable declarations *)
      pose proof (proc_header_hlocated c1 c2 xn c3 ps c4 c5 vs b c6 (len pre) (prev_kind_k None pre)) as Hloc. cbv zeta in Hloc. fold dd in Hloc.
      unfold wlocated in Hloc. rewrite Forall_forall in Hloc. apply (Hfin is_gscope (Hloc _ Ho)).
      destruct (wf_params_occs _ _ _ _ _ _ Hpar) as [Hm1 Hp]. destruct (wf_vars_occs _ _ _ _ _ Hvar) as [Hm2 Hv].
      assert (Hh : header_res G L2 (k, x, sc)).
      { unfold proc_header_occs in Ho. rewrite Hown in Ho. cbn [occs_name app] in Ho. destruct Ho as [Ho|Ho].
        - injection Ho as <- <- <-. unfold header_res, o_scope, o_name. cbn [fst snd id_val x_ident]. congruence.
        - apply in_app_or in Ho as [Ho|Ho].
          + specialize (Hp (len pre)). rewrite Forall_forall in Hp. specialize (Hp _ Ho). unfold header_res in *.
            destruct (o_scope (k, x, sc)); [apply Hsub, Hp | apply Hm2, Hp].
          + specialize (Hv (len pre)). rewrite Forall_forall in Hv. specialize (Hv _ Ho). unfold header_res in *.
            destruct (o_scope (k, x, sc)); [apply Hsub, Hv | exact Hv]. }
      unfold header_res, o_scope, o_name in Hh. cbn [fst snd] in Hh. destruct sc; cbn [is_gscope res_ok]; [exact Hh|].
      unfold lt_lookup. destruct (lookup L2 x); [discriminate | contradiction].
    + (* body *)
      pose proof (proc_body_located c1 c2 xn c3 ps c4 c5 vs b c6 (len pre) (prev_kind_k None pre)) as Hloc. cbv zeta in Hloc. fold dd in Hloc.
      unfold wlocated in Hloc. rewrite Forall_forall in Hloc. apply (Hfin never (Hloc _ Ho)).
      unfold wt_bodies in Hbodies. rewrite Forall_forall in Hbodies. destruct (Hbodies _ Hg) as [_ Hwb].
      unfold wt_body in Hwb. cbn [fst snd] in Hwb.
      assert (Hoe : own_entry G (the_proc dd) (len pre) pe).
      { exists (x_ident (len c1 + 1) c2 xn). repeat split; [exact Hlk]. }
      pose proof (proj2 (wt_occs L2 G) _ (Hwb pe Hoe) (len pre)) as Hf. rewrite Forall_forall in Hf.
      exact (Hf _ Ho).
Qed.
