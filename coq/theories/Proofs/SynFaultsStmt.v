(* C03 - syntax faults: the parser on statements with one missing closing token.  The structural induction of
   GrammarStmt.v once more, over the faulty syntax of SynFaults.v: at the leaf `expect(closing token)` fails on the token
   behind the gap, attaches its message at the token in front of the gap (the error state of a failing tag parser is the
   state it was started in: in front of the comments) and goes on from there; around the leaf everything is as for valid
   statements.  Behind the gap the parser runs with a non-empty error buffer: `Fr` (the buffer is only ever appended
   to, and `info` hides it from what it encloses) reduces these runs to the ones GrammarStmt.v knows. *)
From Coq Require Import List Lia Arith Bool.
From Spl Require Import Spec.Grammar Model.Parser Proofs.GrammarBase Proofs.GrammarExpr Proofs.GrammarStmt.
From Spl Require Import Proofs.SynFaults Proofs.SynFaultsEP Proofs.SynFaultsArgs.
Import ListNotations.
Local Open Scope nat_scope.

Ltac flens' := flens.

Ltac fteq :=
  lazymatch goal with
  | |- @eq nat _ _ => flens'; lia
  | |- _ => first [reflexivity | progress f_equal; fteq | idtac]
  end.

Ltac side := first [lia | assumption].

(* the token behind a missing `;`: cannot continue an expression, and is not `;` *)
Notation gapfol := (gapfolE Semic).

(* what can stand behind a statement inside a body: a statement, `}`, `else` *)
Definition stopper (kd : kind) : bool := stmt_first kd || is_k RCurly kd || is_k KElse kd.

Lemma stopper_cmp kd : stopper kd = true -> fol_cmp kd = true.
Proof. destruct kd; try discriminate; reflexivity. Qed.

Lemma stmts_stopper b rest : fol (is_k RCurly) rest -> fol stopper (fl_stmts b ++ rest).
Proof.
  intros H. destruct b as [|s b]; cbn [fl_stmts app].
  - revert H. apply fol_weaken. intros kd Hk. destruct kd; try discriminate; reflexivity.
  - destruct (stmt_head s) as (c & kd & tl & -> & Hs & Hk). rewrite <- !app_assoc. cbn [app].
    apply fol_here; [exact Hs|]. unfold stopper. rewrite Hk. reflexivity.
Qed.

Lemma stmt_first_stopper kd : stmt_first kd = true -> stopper kd = true.
Proof. intros H. unfold stopper. rewrite H. reflexivity. Qed.

Lemma stmt_stopper s rest : fol stopper (fl_stmt s ++ rest).
Proof.
  destruct (stmt_head s) as (c & kd & tl & -> & Hs & Hk). rewrite <- !app_assoc. cbn [app].
  apply fol_here; [exact Hs | apply stmt_first_stopper, Hk].
Qed.

(* something stands behind the gap, whatever the fault's position *)
Definition anyk (kd : kind) : bool := true.

Lemma fol_any P l : fol P l -> fol anyk l.
Proof. apply fol_weaken. reflexivity. Qed.

Lemma after_expr_any :
  (forall v rest, fol anyk rest -> fol anyk (after_var v rest)) /\ (forall f rest, fol anyk rest -> fol anyk (after_fac f rest)) /\
  (forall m rest, fol anyk rest -> fol anyk (after_mul m rest)) /\ (forall a rest, fol anyk rest -> fol anyk (after_add a rest)) /\
  (forall e rest, fol anyk rest -> fol anyk (after_cmp e rest)).
Proof.
  apply fexpr_mutind; cbn [after_var after_fac after_mul after_add after_cmp]; intros; auto;
    match goal with H : forall rest, fol anyk rest -> _ |- _ => apply H end; apply fol_here; try reflexivity;
    match goal with op : mulop |- _ => destruct op | op : addop |- _ => destruct op | op : cmpop |- _ => destruct op end; reflexivity.
Qed.

Lemma fol_tail_any l rest : fol anyk rest -> fol anyk (fl_tail fl_cmp l ++ rest).
Proof.
  intros H. destruct l as [|[c a] l]; cbn [fl_tail flat_map fst snd app]; [exact H|].
  rewrite <- !app_assoc. cbn [app]. now apply fol_here.
Qed.

Lemma after_any :
  (forall s rest, fol anyk rest -> fol anyk (after_stmt s rest)) /\
  (forall b rest, fol anyk rest -> fol anyk (after_stmts b rest)).
Proof.
  destruct after_expr_any as (Av & _ & _ & _ & Ac).
  apply fstmt_mutind; cbn [after_stmt after_stmts]; intros; auto;
    try (match goal with a : fargs |- _ => destruct a as [e0 l0|e0 pre0 c0 e1 post0]; cbn [after_args]; apply Ac; apply fol_tail_any; apply fol_here; reflexivity end);
    try (apply (fol_any stopper), stmt_stopper);
    try (apply Av; apply fol_here; reflexivity); try (apply Ac; apply fol_here; reflexivity);
    try (apply fol_here; reflexivity);
    try (match goal with H : forall rest, fol anyk rest -> _ |- _ => apply H end; try (apply fol_here; reflexivity)).
  destruct r as [|s1 r1]; cbn [fl_stmts app]; [assumption|]. rewrite <- app_assoc. apply (fol_any stopper), stmt_stopper.
Qed.

(* the condition on the tokens behind the gap (from gap_open): not the missing token itself and nothing that continues an
   expression; nothing is asked behind a missing `}` *)
Definition gapc (k : kind) (l : list kind) : Prop := match k with Semic | RParen | RBracket => gapE k l | _ => True end.

Lemma gapc_open k l : fol anyk l -> gap_open k l = true -> gapc k l.
Proof.
  intros Hf Hg. destruct k; try exact I; cbn [gapc]; apply gap_open_E; auto.
Qed.

Lemma gk_expr :
  (forall v, gk_var v = RParen \/ gk_var v = RBracket) /\ (forall f, gk_fac f = RParen \/ gk_fac f = RBracket) /\
  (forall m, gk_mul m = RParen \/ gk_mul m = RBracket) /\ (forall a, gk_add a = RParen \/ gk_add a = RBracket) /\
  (forall e, gk_cmp e = RParen \/ gk_cmp e = RBracket).
Proof. apply fexpr_mutind; cbn [gk_var gk_fac gk_mul gk_add gk_cmp]; intros; auto. Qed.

Lemma gapc_E_var v l : gapc (gk_var v) l -> gapE (gk_var v) l.
Proof. destruct (proj1 gk_expr v) as [-> | ->]; exact (fun H => H). Qed.
Lemma gapc_E_cmp e l : gapc (gk_cmp e) l -> gapE (gk_cmp e) l.
Proof. destruct (proj2 (proj2 (proj2 (proj2 gk_expr))) e) as [-> | ->]; exact (fun H => H). Qed.
Lemma gapc_E_args a l : gapc (gk_args a) l -> gapE (gk_args a) l.
Proof. destruct a; cbn [gk_args]; apply gapc_E_cmp. Qed.

(* the name of a faulty variable is followed by `[` *)
Lemma fvar_tl_next v : forall Z, exists c Z', fvar_tl v ++ Z = cm c ++ LBracket :: Z'.
Proof.
  induction v as [v c1 e|v IH c1 e c2|v c1 e c2]; intros Z; cbn [fvar_tl]; rewrite <- ?app_assoc; cbn [app].
  - destruct (var_tl_next v c1 LBracket (fl_cmp e ++ Z) eq_refl) as (c & kd & Z' & E & _ & [-> | ->]); rewrite E; eauto.
  - apply IH.
  - destruct (var_tl_next v c1 LBracket ((ffl_cmp e ++ cm c2 ++ [RBracket]) ++ Z) eq_refl) as (c & kd & Z' & E & _ & [-> | ->]);
      rewrite E; eauto.
Qed.

Lemma fstmt_head s : exists c kd tl, ffl_stmt s = cm c ++ kd :: tl /\ sig kd = true /\ stmt_first kd = true.
Proof.
  destruct s as [v c1 e|c1 f c2 a c3|c1 f c2 a c4|c1 c2 e t|c1 c2 e t c4 s'|c1 c2 e b
                |v c1 e c2|v c1 e c2|c1 c2 e c3 t|c1 c2 e c3 t c4 s'|c1 c2 e c3 b|c1 f c2 a c3 c4
                |c1 c2 e c3 t|c1 c2 e c3 t c4 s'|c1 c2 e c3 t c4 s'|c1 c2 e c3 b|c1 b c2]; cbn [ffl_stmt].
  - rewrite fl_var_head, <- app_assoc. cbn [app]. now eexists _, (Ident _), _.
  - now eexists c1, (Ident f), _.
  - now eexists c1, (Ident f), _.
  - now eexists c1, KIf, _.
  - now eexists c1, KIf, _.
  - now eexists c1, KWhile, _.
  - rewrite ffl_var_head, <- app_assoc. cbn [app]. now eexists _, (Ident _), _.
  - rewrite fl_var_head, <- app_assoc. cbn [app]. now eexists _, (Ident _), _.
  - now eexists c1, KIf, _.
  - now eexists c1, KIf, _.
  - now eexists c1, KWhile, _.
  - now eexists c1, (Ident f), _.
  - now eexists c1, KIf, _.
  - now eexists c1, KIf, _.
  - now eexists c1, KIf, _.
  - now eexists c1, KWhile, _.
  - now eexists c1, LCurly, _.
Qed.

Lemma fstmts_follow b rest : fol noelse (ffl_stmts b ++ rest).
Proof.
  destruct b as [s r|s r]; cbn [ffl_stmts].
  - destruct (fstmt_head s) as (c & kd & tl & -> & Hs & Hk). rewrite <- !app_assoc. cbn [app].
    apply fol_here; [exact Hs|]. destruct kd; try discriminate; reflexivity.
  - destruct (stmt_head s) as (c & kd & tl & -> & Hs & Hk). rewrite <- !app_assoc. cbn [app].
    apply fol_here; [exact Hs|]. destruct kd; try discriminate; reflexivity.
Qed.


Section FStmt.
Variable toks : list token.
Notation at_ := (at_ toks).


(* ---- behind the gap the error buffer is not empty: every parser only appends to it, and `info` hides it from what it
   encloses, so the run is the run on the empty buffer with the buffer put in front ---- *)
Definition map_eb {A} (b : list err) (r : pres A) : pres A :=
  match r with
  | POk s a => POk (set_ebuf s (b ++ ebuf s)) a
  | PErr s => PErr (set_ebuf s (b ++ ebuf s))
  | PFuel => PFuel
  end.
Definition Fr {A} (p : parser A) : Prop := forall s b, p (set_ebuf s b) = map_eb b (p (set_ebuf s [])).

Lemma Fr_tag f : Fr (p_tag toks f).
Proof.
  intros s b. unfold p_tag, adv, set_ebuf. cbn [pos refp ebuf].
  destruct (nth_error toks (pos s + length (comments_at toks (pos s)))) as [t|]; [destruct (f (tk t))|];
    unfold map_eb, set_ebuf; cbn [pos refp ebuf]; rewrite app_nil_r; reflexivity.
Qed.

Lemma Fr_info {A} (q : parser A) : Fr (p_info q).
Proof.
  intros s b. unfold p_info, set_ebuf. cbn [pos refp ebuf].
  destruct (q {| pos := pos s; refp := refp s; ebuf := [] |}) as [s' a|s'|]; unfold map_eb, set_ebuf; cbn [pos refp ebuf];
    rewrite ?app_nil_r; reflexivity.
Qed.

Lemma Fr_map {A C} (f : A -> C) p : Fr p -> Fr (p_map f p).
Proof. intros H s b. unfold p_map, bind. rewrite (H s b). destruct (p (set_ebuf s [])); reflexivity. Qed.

Lemma Fr_alt {A} (p q : parser A) : Fr p -> Fr q -> Fr (p_alt p q).
Proof. intros Hp Hq s b. unfold p_alt. rewrite (Hp s b), (Hq s b). destruct (p (set_ebuf s [])); reflexivity. Qed.

Lemma Fr_restore {A} (p : parser A) : Fr p -> Fr (p_restore p).
Proof.
  intros Hp s b. unfold p_restore. rewrite (Hp s b). destruct (p (set_ebuf s [])); unfold map_eb; try reflexivity.
  unfold set_ebuf. cbn [pos refp ebuf]. rewrite app_nil_r. reflexivity.
Qed.

Lemma Fr_stmt f : Fr (p_stmt toks f).
Proof.
  destruct f as [|f]; [intros s b; reflexivity|]. intros s b. rewrite !p_stmt_S. revert s b.
  match goal with |- forall s b, ?P (set_ebuf s b) = _ => change (Fr P) end.
  unfold p_call, p_assign. repeat first [apply Fr_restore | apply Fr_alt | apply Fr_map | apply Fr_info].
Qed.

(* a state met behind the gap, written as the buffer put on a state GrammarStmt.v knows *)
Ltac fr_at P :=
  match goal with
  | |- context [P {| pos := ?a; refp := ?b; ebuf := ?c |}] =>
      change (P {| pos := a; refp := b; ebuf := c |}) with (P (set_ebuf (mk a b) c))
  end.
Ltac fr_done := unfold map_eb, set_ebuf; cbn [pos refp ebuf app].

(* ---- the leaves ---- *)
Lemma fassign_ok v c1 e k r rest fuel : r <= k -> 6 * len (ffl_stmt (FAsg v c1 e)) + 6 <= fuel ->
  at_ k (ffl_stmt (FAsg v c1 e) ++ rest) -> fol gapfol rest ->
  p_assign toks fuel (mk k r) = POk (mk (k + len (ffl_stmt (FAsg v c1 e))) r) (fx_stmt (k - r) (FAsg v c1 e)).
Proof.
  intros Hr Hf H Hfol. cbn [ffl_stmt] in H. flat_in H.
  assert (Hl : len (ffl_stmt (FAsg v c1 e)) = len (fl_var v) + len c1 + 1 + len (fl_cmp e)) by (flens'; lia).
  destruct Hfol as (cg & kg & restg & -> & Hsg & Hkg). unfold gapfol in Hkg. apply andb_prop in Hkg. destruct Hkg as [Hcmp Hns].
  unfold p_assign, p_expr. comb.
  rewrite (var_ok toks v k r _ fuel Hr ltac:(lia) H (fol_here nolb c1 Assign _ eq_refl eq_refl)). norm.
  apply at_app in H.
  destruct (p_tag_at toks (is_k Assign) _ r _ _ _ H eq_refl) as (t1 & _ & E1). rewrite E1; ifs; norm.
  apply at_cm_cons in H.
  rewrite (cmp_ok toks e _ _ _ fuel (le_n _) ltac:(lia) H (fol_here fol_cmp cg kg _ Hsg Hcmp)). norm.
  apply at_app in H.
  rewrite (p_tag_no toks (is_k Semic) _ r _ _ _ H Hsg) by (apply negb_true_iff in Hns; exact Hns).
  unfold expect_error, push_err. norm. cbn [app].
  rewrite Nat.sub_diag. cbn [fxg_stmt gap_stmt]. unfold einfo, e_real, gap_err, msg_of_kind. rewrite Hl. fteq.
Qed.

(* list_ok of GrammarStmt.v wants `)` behind the list; that is what stands there *)
Lemma fcall_ok c1 f c2 a c3 k r rest fuel : r <= k -> 6 * len (ffl_stmt (FCal c1 f c2 a c3)) + 12 <= fuel ->
  at_ k (ffl_stmt (FCal c1 f c2 a c3) ++ rest) -> fol gapfol rest ->
  p_call toks fuel (mk k r) = POk (mk (k + len (ffl_stmt (FCal c1 f c2 a c3))) r) (fx_stmt (k - r) (FCal c1 f c2 a c3)).
Proof.
  intros Hr Hf H Hfol. cbn [ffl_stmt] in H. flat_in H.
  assert (Hl : len (ffl_stmt (FCal c1 f c2 a c3)) = len c1 + 1 + len c2 + 1 + len (fl_sep fl_cmp a) + len c3 + 1) by (flens'; lia).
  destruct Hfol as (cg & kg & restg & -> & Hsg & Hkg). unfold gapfol in Hkg. apply andb_prop in Hkg. destruct Hkg as [_ Hns].
  apply negb_true_iff in Hns.
  unfold p_call. comb.
  rewrite (p_ident_at toks k r _ _ _ H Hr). norm. apply at_cm_cons in H.
  destruct (p_tag_at toks (is_k LParen) _ r _ _ _ H eq_refl) as (t1 & _ & E1). rewrite E1; ifs; norm.
  apply at_cm_cons in H.
  assert (Hb : match a with Some (_, l) => len l < fuel | None => True end).
  { destruct a as [[e l]|]; [|exact I]. pose proof (tail_len_le fl_cmp l). cbn [fl_sep] in Hl. rewrite app_length in Hl. lia. }
  destruct a as [[e l]|].
  - destruct (head_cmp e) as (c & kd & tl & E & Hs & Hk). pose proof H as H0. cbn [fl_sep] in H0. rewrite E in H0. flat_in H0.
    rewrite (la_tag_at toks _ _ _ _ _ H0 Hs), (expr_start_not_close _ Hk). norm.
    rewrite (list_ok toks fl_cmp (x_cmp 0) (p_argument toks fuel) (len (fl_sep fl_cmp (Some (e, l))))
               (arg_ok toks fuel (len (fl_sep fl_cmp (Some (e, l)))) ltac:(lia)) e l (k + len c1 + 1 + len c2 + 1) r
               (cm c3 ++ RParen :: cm cg ++ kg :: restg) fuel ltac:(lia) (le_n _) Hb H (fol_here (is_k RParen) c3 RParen _ eq_refl eq_refl)).
    norm. apply at_app in H.
    destruct (p_tag_at toks (is_k RParen) _ r _ _ _ H eq_refl) as (t2 & _ & E2). rewrite E2; ifs; norm.
    apply at_cm_cons in H.
    rewrite (p_tag_no toks (is_k Semic) _ r _ _ _ H Hsg Hns).
    unfold expect_error, push_err. norm. cbn [app].
    cbn [fxg_stmt gap_stmt]. unfold einfo, e_real, gap_err, msg_of_kind. rewrite Hl. fteq.
  - cbn [fl_sep app length x_sep] in *. rewrite (la_tag_at toks _ _ _ _ _ H eq_refl). norm.
    destruct (p_tag_at toks (is_k RParen) _ r _ _ _ H eq_refl) as (t2 & _ & E2). rewrite E2; ifs; norm.
    apply at_cm_cons in H.
    rewrite (p_tag_no toks (is_k Semic) _ r _ _ _ H Hsg Hns).
    unfold expect_error, push_err. norm. cbn [app].
    cbn [fxg_stmt gap_stmt x_sep]. unfold einfo, e_real, gap_err, msg_of_kind. rewrite Hl. fteq.
Qed.


Lemma stmt_fol_cmp t rest : fol fol_cmp (fl_stmt t ++ rest).
Proof. apply (fol_weaken stopper); [exact stopper_cmp | apply stmt_stopper]. Qed.

Lemma semic_follows kd : follows_g (is_k Semic) kd = true -> fol_cmp kd = true /\
  (match kd with RParen | Comma => true | _ => false end || match kd with LCurly | RCurly | Semic | KIf | KWhile => true | _ => false end) = true.
Proof. destruct kd; try discriminate; split; reflexivity. Qed.

(* an argument in front of `,` or `;` *)
Lemma arg_ok_g f N : 6 * N + 6 <= f -> forall e k rest, len (fl_cmp e) <= N -> at_ k (fl_cmp e ++ rest) ->
  fol (follows_g (is_k Semic)) rest -> p_argument toks f (mk k k) = POk (mk (k + len (fl_cmp e)) k) (x_cmp 0 e).
Proof.
  intros Hf e k rest HN H Hfol. unfold p_argument, p_expr. comb.
  rewrite (cmp_ok toks e k k rest f (le_n _) ltac:(lia) H (fol_weaken _ _ _ (fun kd Hk => proj1 (semic_follows kd Hk)) Hfol)). norm.
  destruct Hfol as (c & kd & rest' & -> & Hs & Hk). apply at_app in H.
  unfold la_arg, la_param, la_var_dec, la_stmt. rewrite !(la_tag_at toks _ _ _ _ _ H Hs).
  rewrite Nat.sub_diag. destruct kd; try discriminate; reflexivity.
Qed.

(* the `)` of a call is missing: `expect())` fails on the `;`, which `expect(;)` then takes *)
Lemma fcallp_ok c1 f c2 a c4 k r rest fuel : r <= k -> 6 * len (ffl_stmt (FCalP c1 f c2 a c4)) + 12 <= fuel ->
  at_ k (ffl_stmt (FCalP c1 f c2 a c4) ++ rest) ->
  p_call toks fuel (mk k r) = POk (mk (k + len (ffl_stmt (FCalP c1 f c2 a c4))) r) (fx_stmt (k - r) (FCalP c1 f c2 a c4)).
Proof.
  intros Hr Hf H. cbn [ffl_stmt] in H. flat_in H.
  assert (Hl : len (ffl_stmt (FCalP c1 f c2 a c4)) = len c1 + 1 + len c2 + 1 + len (fl_sep fl_cmp a) + len c4 + 1) by (flens'; lia).
  unfold p_call. comb.
  rewrite (p_ident_at toks k r _ _ _ H Hr). norm. apply at_cm_cons in H.
  destruct (p_tag_at toks (is_k LParen) _ r _ _ _ H eq_refl) as (t1 & _ & E1). rewrite E1; ifs; norm.
  apply at_cm_cons in H.
  assert (Hb : match a with Some (_, l) => len l < fuel | None => True end).
  { destruct a as [[e l]|]; [|exact I]. pose proof (tail_len_le fl_cmp l). cbn [fl_sep] in Hl. rewrite app_length in Hl. lia. }
  destruct a as [[e l]|].
  - destruct (head_cmp e) as (c & kd & tl & E & Hs & Hk). pose proof H as H0. cbn [fl_sep] in H0. rewrite E in H0. flat_in H0.
    rewrite (la_tag_at toks _ _ _ _ _ H0 Hs), (expr_start_not_close _ Hk). norm.
    rewrite (list_ok_g toks fl_cmp (x_cmp 0) (p_argument toks fuel) (len (fl_sep fl_cmp (Some (e, l)))) (is_k Semic)
               (fun kd Hk => ltac:(destruct kd; try discriminate; reflexivity))
               (arg_ok_g fuel (len (fl_sep fl_cmp (Some (e, l)))) ltac:(lia)) e l (k + len c1 + 1 + len c2 + 1) r
               (cm c4 ++ Semic :: rest) fuel ltac:(lia) (le_n _) Hb H (fol_here (is_k Semic) c4 Semic _ eq_refl eq_refl)).
    norm. apply at_app in H.
    rewrite (p_tag_no toks (is_k RParen) _ r _ _ _ H eq_refl eq_refl).
    unfold expect_error, push_err. norm. cbn [app].
    fr_at (p_tag toks (is_k Semic)). rewrite Fr_tag. unfold set_ebuf at 1; cbn [pos refp ebuf].
    destruct (p_tag_at toks (is_k Semic) _ r _ _ _ H eq_refl) as (t3 & _ & E3). rewrite E3; ifs. fr_done. norm.
    cbn [fxg_stmt gap_stmt]. unfold einfo, e_real, gap_err, msg_of_kind. rewrite Hl. pose proof (fl_cmp_pos e). fteq.
  - cbn [fl_sep app length x_sep] in *. rewrite (la_tag_at toks _ _ _ _ _ H eq_refl). norm.
    rewrite (p_tag_no toks (is_k RParen) _ r _ _ _ H eq_refl eq_refl).
    unfold expect_error, push_err. norm. cbn [app].
    fr_at (p_tag toks (is_k Semic)). rewrite Fr_tag. unfold set_ebuf at 1; cbn [pos refp ebuf].
    destruct (p_tag_at toks (is_k Semic) _ r _ _ _ H eq_refl) as (t3 & _ & E3). rewrite E3; ifs. fr_done. norm.
    cbn [fxg_stmt gap_stmt x_sep fl_sep length]. unfold einfo, e_real, gap_err, msg_of_kind. rewrite Hl. cbn [fl_sep length]. fteq.
Qed.

(* ---- statements ---- *)
Definition FStmtOK (s : fstmt) : Prop :=
  forall k r rest fuel, r <= k -> 6 * len (ffl_stmt s) + 13 <= fuel -> else_ok (orig_stmt s) = true ->
  at_ k (ffl_stmt s ++ rest) -> (open_if (orig_stmt s) = true -> fol noelse rest) -> gapc (gk_stmt s) (after_stmt s rest) ->
  p_stmt toks fuel (mk k r) = POk (mk (k + len (ffl_stmt s)) r) (fx_stmt (k - r) s).

Definition FStmtsOK (b : fstmts) : Prop :=
  forall k r rest f, r <= k -> 6 * len (ffl_stmts b) + 13 <= f -> else_oks (orig_stmts b) = true ->
  at_ k (ffl_stmts b ++ rest) -> fol (is_k RCurly) rest -> gapc (gk_stmts b) (after_stmts b rest) ->
  steps (stmt_ref toks f) (mk k r) (fx_stmts (k - r) b) (mk (k + len (ffl_stmts b)) r).

Lemma fstmt_asg v c1 e : FStmtOK (FAsg v c1 e).
Proof.
  intros k r rest fuel Hr Hf Hok H Hfol Hgap. cbn [after_stmt gk_stmt gapc] in Hgap.
  destruct fuel as [|f]; [lia|]. rewrite p_stmt_S. comb.
  pose proof H as H0. cbn [ffl_stmt] in H0. flat_in H0.
  destruct (call_no_asg toks v c1 _ k r f H0 Hr) as (e0 & Ec).
  rewrite fl_var_head in H0. flat_in H0.
  rewrite (p_tag_no toks (is_k Semic) k r _ _ _ H0 eq_refl eq_refl).
  rewrite (p_tag_no toks (is_k KIf) k r _ _ _ H0 eq_refl eq_refl).
  rewrite (p_tag_no toks (is_k KWhile) k r _ _ _ H0 eq_refl eq_refl).
  rewrite (p_tag_no toks (is_k LCurly) k r _ _ _ H0 eq_refl eq_refl).
  rewrite Ec. rewrite (fassign_ok v c1 e k r rest f Hr ltac:(lia) H Hgap). reflexivity.
Qed.

Lemma fstmt_cal c1 g c2 a c3 : FStmtOK (FCal c1 g c2 a c3).
Proof.
  intros k r rest fuel Hr Hf Hok H Hfol Hgap. cbn [after_stmt gk_stmt gapc] in Hgap.
  destruct fuel as [|f]; [lia|]. rewrite p_stmt_S. comb.
  pose proof H as H0. cbn [ffl_stmt] in H0. flat_in H0.
  rewrite (p_tag_no toks (is_k Semic) k r _ _ _ H0 eq_refl eq_refl).
  rewrite (p_tag_no toks (is_k KIf) k r _ _ _ H0 eq_refl eq_refl).
  rewrite (p_tag_no toks (is_k KWhile) k r _ _ _ H0 eq_refl eq_refl).
  rewrite (p_tag_no toks (is_k LCurly) k r _ _ _ H0 eq_refl eq_refl).
  rewrite (fcall_ok c1 g c2 a c3 k r rest f Hr ltac:(lia) H Hgap). reflexivity.
Qed.

Lemma fstmt_calp c1 g c2 a c4 : FStmtOK (FCalP c1 g c2 a c4).
Proof.
  intros k r rest fuel Hr Hf Hok H Hfol _.
  destruct fuel as [|f]; [lia|]. rewrite p_stmt_S. comb.
  pose proof H as H0. cbn [ffl_stmt] in H0. flat_in H0.
  rewrite (p_tag_no toks (is_k Semic) k r _ _ _ H0 eq_refl eq_refl).
  rewrite (p_tag_no toks (is_k KIf) k r _ _ _ H0 eq_refl eq_refl).
  rewrite (p_tag_no toks (is_k KWhile) k r _ _ _ H0 eq_refl eq_refl).
  rewrite (p_tag_no toks (is_k LCurly) k r _ _ _ H0 eq_refl eq_refl).
  rewrite (fcallp_ok c1 g c2 a c4 k r rest f Hr ltac:(lia) H). reflexivity.
Qed.

(* the `)` of a condition is missing: `expect())` fails on the first token of the statement behind it *)
Lemma fstmt_ifp c1 c2 e t : FStmtOK (FIfP c1 c2 e t).
Proof.
  intros k r rest fuel Hr Hf Hok H Hfol _. cbn [ffl_stmt] in H. flat_in H. cbn [orig_stmt else_ok open_if] in Hok, Hfol.
  assert (Hl : len (ffl_stmt (FIfP c1 c2 e t)) = len c1 + 1 + len c2 + 1 + len (fl_cmp e) + len (fl_stmt t)) by (flens'; lia).
  pose proof (fun _ : open_if t = true => Hfol eq_refl) as Hft.
  destruct (stmt_head t) as (ct & kt & tlt & Et & Hst & Hkt).
  destruct fuel as [|f]; [lia|]. rewrite p_stmt_S. unfold stmt_ref, p_expr. comb.
  rewrite (p_tag_no toks (is_k Semic) k r _ _ _ H eq_refl eq_refl).
  destruct (p_tag_at toks (is_k KIf) k r _ _ _ H eq_refl) as (t1 & _ & E1). rewrite E1; ifs; norm.
  apply at_cm_cons in H.
  destruct (p_tag_at toks (is_k LParen) _ r _ _ _ H eq_refl) as (t2 & _ & E2). rewrite E2; ifs; norm.
  apply at_cm_cons in H.
  rewrite (cmp_ok toks e _ _ _ f (le_n _) ltac:(lia) H (stmt_fol_cmp t rest)). norm.
  apply at_app in H. pose proof H as H1. rewrite Et in H1. flat_in H1.
  rewrite (p_tag_no toks (is_k RParen) _ r _ _ _ H1 Hst) by (destruct kt; try discriminate; reflexivity).
  unfold expect_error, push_err. norm. cbn [app].
  fr_at (p_stmt toks f). rewrite Fr_stmt. unfold set_ebuf at 1; cbn [pos refp ebuf].
  rewrite (proj1 (stmt_all toks) t _ _ rest f (le_n _)) by side. fr_done. norm.
  apply at_app in H. destruct (Hfol eq_refl) as (c & kd & rest' & -> & Hs & Hk).
  fr_at (p_tag toks (is_k KElse)). rewrite Fr_tag. unfold set_ebuf at 1; cbn [pos refp ebuf].
  rewrite (p_tag_no toks (is_k KElse) _ r _ _ _ H Hs) by (unfold noelse in Hk; now destruct (is_k KElse kd)).
  fr_done. norm. rewrite !Nat.sub_diag. cbn [fxg_stmt gap_stmt]. unfold einfo, e_real, gap_err, msg_of_kind. rewrite Hl.
  pose proof (fl_cmp_pos e). fteq.
Qed.

Lemma fstmt_ifpe c1 c2 e t c4 s' : FStmtOK (FIfPE c1 c2 e t c4 s').
Proof.
  intros k r rest fuel Hr Hf Hok H Hfol _. cbn [ffl_stmt] in H. flat_in H. cbn [orig_stmt else_ok open_if] in Hok, Hfol.
  apply andb_prop in Hok. destruct Hok as [Hok Hok2]. apply andb_prop in Hok. destruct Hok as [Hno Hok1].
  apply negb_true_iff in Hno.
  assert (Hl : len (ffl_stmt (FIfPE c1 c2 e t c4 s')) =
               len c1 + 1 + len c2 + 1 + len (fl_cmp e) + len (fl_stmt t) + len c4 + 1 + len (fl_stmt s')) by (flens'; lia).
  assert (Hft : open_if t = true -> fol noelse (cm c4 ++ KElse :: fl_stmt s' ++ rest)) by (intros Ho; congruence).
  destruct (stmt_head t) as (ct & kt & tlt & Et & Hst & Hkt).
  destruct fuel as [|f]; [lia|]. rewrite p_stmt_S. unfold stmt_ref, p_expr. comb.
  rewrite (p_tag_no toks (is_k Semic) k r _ _ _ H eq_refl eq_refl).
  destruct (p_tag_at toks (is_k KIf) k r _ _ _ H eq_refl) as (t1 & _ & E1). rewrite E1; ifs; norm.
  apply at_cm_cons in H.
  destruct (p_tag_at toks (is_k LParen) _ r _ _ _ H eq_refl) as (t2 & _ & E2). rewrite E2; ifs; norm.
  apply at_cm_cons in H.
  rewrite (cmp_ok toks e _ _ _ f (le_n _) ltac:(lia) H (stmt_fol_cmp t _)). norm.
  apply at_app in H. pose proof H as H1. rewrite Et in H1. flat_in H1.
  rewrite (p_tag_no toks (is_k RParen) _ r _ _ _ H1 Hst) by (destruct kt; try discriminate; reflexivity).
  unfold expect_error, push_err. norm. cbn [app].
  fr_at (p_stmt toks f). rewrite Fr_stmt. unfold set_ebuf at 1; cbn [pos refp ebuf].
  rewrite (proj1 (stmt_all toks) t _ _ (cm c4 ++ KElse :: fl_stmt s' ++ rest) f (le_n _)) by side. fr_done. norm.
  apply at_app in H.
  fr_at (p_tag toks (is_k KElse)). rewrite Fr_tag. unfold set_ebuf at 1; cbn [pos refp ebuf].
  destruct (p_tag_at toks (is_k KElse) _ r _ _ _ H eq_refl) as (t4 & _ & E4). rewrite E4; ifs. fr_done. norm.
  apply at_cm_cons in H.
  fr_at (p_stmt toks f). rewrite Fr_stmt. unfold set_ebuf at 1; cbn [pos refp ebuf].
  rewrite (proj1 (stmt_all toks) s' _ _ rest f (le_n _)) by side. fr_done. norm.
  rewrite !Nat.sub_diag. cbn [fxg_stmt gap_stmt]. unfold einfo, e_real, gap_err, msg_of_kind. rewrite Hl.
  pose proof (fl_cmp_pos e). fteq.
Qed.

Lemma fstmt_whlp c1 c2 e b : FStmtOK (FWhlP c1 c2 e b).
Proof.
  intros k r rest fuel Hr Hf Hok H Hfol _. cbn [ffl_stmt] in H. flat_in H. cbn [orig_stmt else_ok open_if] in Hok, Hfol.
  assert (Hl : len (ffl_stmt (FWhlP c1 c2 e b)) = len c1 + 1 + len c2 + 1 + len (fl_cmp e) + len (fl_stmt b)) by (flens'; lia).
  destruct (stmt_head b) as (ct & kt & tlt & Et & Hst & Hkt).
  destruct fuel as [|f]; [lia|]. rewrite p_stmt_S. unfold stmt_ref, p_expr. comb.
  rewrite (p_tag_no toks (is_k Semic) k r _ _ _ H eq_refl eq_refl).
  rewrite (p_tag_no toks (is_k KIf) k r _ _ _ H eq_refl eq_refl).
  destruct (p_tag_at toks (is_k KWhile) k r _ _ _ H eq_refl) as (t1 & _ & E1). rewrite E1; ifs; norm.
  apply at_cm_cons in H.
  destruct (p_tag_at toks (is_k LParen) _ r _ _ _ H eq_refl) as (t2 & _ & E2). rewrite E2; ifs; norm.
  apply at_cm_cons in H.
  rewrite (cmp_ok toks e _ _ _ f (le_n _) ltac:(lia) H (stmt_fol_cmp b rest)). norm.
  apply at_app in H. pose proof H as H1. rewrite Et in H1. flat_in H1.
  rewrite (p_tag_no toks (is_k RParen) _ r _ _ _ H1 Hst) by (destruct kt; try discriminate; reflexivity).
  unfold expect_error, push_err. norm. cbn [app].
  fr_at (p_stmt toks f). rewrite Fr_stmt. unfold set_ebuf at 1; cbn [pos refp ebuf].
  rewrite (proj1 (stmt_all toks) b _ _ rest f (le_n _)) by side. fr_done. norm.
  rewrite !Nat.sub_diag. cbn [fxg_stmt gap_stmt]. unfold einfo, e_real, gap_err, msg_of_kind. rewrite Hl.
  pose proof (fl_cmp_pos e). fteq.
Qed.

(* ---- a fault inside an expression of the statement ---- *)
Lemma call_no_idx v Z k r fuel : at_ k (ffl_var v ++ Z) -> r <= k -> exists e, p_call toks fuel (mk k r) = PErr e.
Proof.
  intros H Hr. rewrite ffl_var_head in H. flat_in H. destruct (fvar_tl_next v Z) as (c & Z' & E). rewrite E in H.
  unfold p_call. comb. rewrite (p_ident_at toks k r _ _ _ H Hr). norm. apply at_cm_cons in H.
  rewrite (p_tag_no toks (is_k LParen) _ r _ _ _ H eq_refl eq_refl). eexists; reflexivity.
Qed.

Lemma fstmt_asgl v c1 e c2 : FStmtOK (FAsgL v c1 e c2).
Proof.
  intros k r rest fuel Hr Hf Hok H Hfol Hgap. cbn [after_stmt gk_stmt] in Hgap. apply gapc_E_var in Hgap.
  assert (Hl : len (ffl_stmt (FAsgL v c1 e c2)) = len (ffl_var v) + len c1 + 1 + len (fl_cmp e) + len c2 + 1) by (flens'; lia).
  destruct fuel as [|f]; [lia|]. rewrite p_stmt_S. comb.
  pose proof H as H0. cbn [ffl_stmt] in H0. flat_in H0.
  destruct (call_no_idx v _ k r f H0 Hr) as (e0 & Ec).
  pose proof H0 as H1. rewrite ffl_var_head in H1. flat_in H1.
  rewrite (p_tag_no toks (is_k Semic) k r _ _ _ H1 eq_refl eq_refl).
  rewrite (p_tag_no toks (is_k KIf) k r _ _ _ H1 eq_refl eq_refl).
  rewrite (p_tag_no toks (is_k KWhile) k r _ _ _ H1 eq_refl eq_refl).
  rewrite (p_tag_no toks (is_k LCurly) k r _ _ _ H1 eq_refl eq_refl).
  rewrite Ec. unfold p_assign, p_expr. comb.
  rewrite (fvar_ok toks v k r _ f Hr ltac:(lia) H0 (fol_here nolb c1 Assign _ eq_refl eq_refl) Hgap). norm.
  apply at_app in H0.
  destruct (p_tag_at toks (is_k Assign) _ r _ _ _ H0 eq_refl) as (t1 & _ & E1). rewrite E1; ifs; norm.
  apply at_cm_cons in H0.
  rewrite (cmp_ok toks e _ _ _ f (le_n _) ltac:(lia) H0 (fol_here fol_cmp c2 Semic _ eq_refl eq_refl)). norm.
  apply at_app in H0.
  destruct (p_tag_at toks (is_k Semic) _ r _ _ _ H0 eq_refl) as (t2 & _ & E2). rewrite E2; ifs; norm.
  rewrite Nat.sub_diag. cbn [fxg_stmt]. unfold mkinfo. rewrite Hl. fteq.
Qed.

Lemma fstmt_asgr v c1 e c2 : FStmtOK (FAsgR v c1 e c2).
Proof.
  intros k r rest fuel Hr Hf Hok H Hfol Hgap. cbn [after_stmt gk_stmt] in Hgap. apply gapc_E_cmp in Hgap.
  assert (Hl : len (ffl_stmt (FAsgR v c1 e c2)) = len (fl_var v) + len c1 + 1 + len (ffl_cmp e) + len c2 + 1) by (flens'; lia).
  destruct fuel as [|f]; [lia|]. rewrite p_stmt_S. comb.
  pose proof H as H0. cbn [ffl_stmt] in H0. flat_in H0.
  destruct (call_no_asg toks v c1 _ k r f H0 Hr) as (e0 & Ec).
  pose proof H0 as H1. rewrite fl_var_head in H1. flat_in H1.
  rewrite (p_tag_no toks (is_k Semic) k r _ _ _ H1 eq_refl eq_refl).
  rewrite (p_tag_no toks (is_k KIf) k r _ _ _ H1 eq_refl eq_refl).
  rewrite (p_tag_no toks (is_k KWhile) k r _ _ _ H1 eq_refl eq_refl).
  rewrite (p_tag_no toks (is_k LCurly) k r _ _ _ H1 eq_refl eq_refl).
  rewrite Ec. unfold p_assign, p_expr. comb.
  rewrite (var_ok toks v k r _ f Hr ltac:(lia) H0 (fol_here nolb c1 Assign _ eq_refl eq_refl)). norm.
  apply at_app in H0.
  destruct (p_tag_at toks (is_k Assign) _ r _ _ _ H0 eq_refl) as (t1 & _ & E1). rewrite E1; ifs; norm.
  apply at_cm_cons in H0.
  rewrite (fcmp_ok toks e _ _ _ f (le_n _) ltac:(lia) H0 (fol_here fol_cmp c2 Semic _ eq_refl eq_refl) Hgap). norm.
  apply at_app in H0.
  destruct (p_tag_at toks (is_k Semic) _ r _ _ _ H0 eq_refl) as (t2 & _ & E2). rewrite E2; ifs; norm.
  rewrite Nat.sub_diag. cbn [fxg_stmt]. unfold mkinfo. rewrite Hl. fteq.
Qed.

Lemma fstmt_ifc c1 c2 e c3 t : FStmtOK (FIfC c1 c2 e c3 t).
Proof.
  intros k r rest fuel Hr Hf Hok H Hfol Hgap. cbn [ffl_stmt] in H. flat_in H. cbn [orig_stmt else_ok open_if] in Hok, Hfol.
  cbn [after_stmt gk_stmt] in Hgap. apply gapc_E_cmp in Hgap.
  assert (Hl : len (ffl_stmt (FIfC c1 c2 e c3 t)) = len c1 + 1 + len c2 + 1 + len (ffl_cmp e) + len c3 + 1 + len (fl_stmt t)) by (flens'; lia).
  pose proof (fun _ : open_if t = true => Hfol eq_refl) as Hft.
  destruct fuel as [|f]; [lia|]. rewrite p_stmt_S. unfold stmt_ref, p_expr. comb.
  rewrite (p_tag_no toks (is_k Semic) k r _ _ _ H eq_refl eq_refl).
  destruct (p_tag_at toks (is_k KIf) k r _ _ _ H eq_refl) as (t1 & _ & E1). rewrite E1; ifs; norm.
  apply at_cm_cons in H.
  destruct (p_tag_at toks (is_k LParen) _ r _ _ _ H eq_refl) as (t2 & _ & E2). rewrite E2; ifs; norm.
  apply at_cm_cons in H.
  rewrite (fcmp_ok toks e _ _ _ f (le_n _) ltac:(lia) H (fol_here fol_cmp c3 RParen _ eq_refl eq_refl) Hgap). norm.
  apply at_app in H.
  destruct (p_tag_at toks (is_k RParen) _ r _ _ _ H eq_refl) as (t3 & _ & E3). rewrite E3; ifs; norm.
  apply at_cm_cons in H.
  rewrite (proj1 (stmt_all toks) t _ _ rest f (le_n _)) by side. norm.
  apply at_app in H. destruct (Hfol eq_refl) as (c & kd & rest' & -> & Hs & Hk).
  rewrite (p_tag_no toks (is_k KElse) _ r _ _ _ H Hs) by (unfold noelse in Hk; now destruct (is_k KElse kd)).
  norm. rewrite !Nat.sub_diag. cbn [fxg_stmt]. unfold mkinfo. rewrite Hl. fteq.
Qed.

Lemma fstmt_ifec c1 c2 e c3 t c4 s' : FStmtOK (FIfEC c1 c2 e c3 t c4 s').
Proof.
  intros k r rest fuel Hr Hf Hok H Hfol Hgap. cbn [ffl_stmt] in H. flat_in H. cbn [orig_stmt else_ok open_if] in Hok, Hfol.
  cbn [after_stmt gk_stmt] in Hgap. apply gapc_E_cmp in Hgap.
  apply andb_prop in Hok. destruct Hok as [Hok Hok2]. apply andb_prop in Hok. destruct Hok as [Hno Hok1].
  apply negb_true_iff in Hno.
  assert (Hl : len (ffl_stmt (FIfEC c1 c2 e c3 t c4 s')) =
               len c1 + 1 + len c2 + 1 + len (ffl_cmp e) + len c3 + 1 + len (fl_stmt t) + len c4 + 1 + len (fl_stmt s')) by (flens'; lia).
  assert (Hft : open_if t = true -> fol noelse (cm c4 ++ KElse :: fl_stmt s' ++ rest)) by (intros Ho; congruence).
  destruct fuel as [|f]; [lia|]. rewrite p_stmt_S. unfold stmt_ref, p_expr. comb.
  rewrite (p_tag_no toks (is_k Semic) k r _ _ _ H eq_refl eq_refl).
  destruct (p_tag_at toks (is_k KIf) k r _ _ _ H eq_refl) as (t1 & _ & E1). rewrite E1; ifs; norm.
  apply at_cm_cons in H.
  destruct (p_tag_at toks (is_k LParen) _ r _ _ _ H eq_refl) as (t2 & _ & E2). rewrite E2; ifs; norm.
  apply at_cm_cons in H.
  rewrite (fcmp_ok toks e _ _ _ f (le_n _) ltac:(lia) H (fol_here fol_cmp c3 RParen _ eq_refl eq_refl) Hgap). norm.
  apply at_app in H.
  destruct (p_tag_at toks (is_k RParen) _ r _ _ _ H eq_refl) as (t3 & _ & E3). rewrite E3; ifs; norm.
  apply at_cm_cons in H.
  rewrite (proj1 (stmt_all toks) t _ _ (cm c4 ++ KElse :: fl_stmt s' ++ rest) f (le_n _)) by side. norm.
  apply at_app in H.
  destruct (p_tag_at toks (is_k KElse) _ r _ _ _ H eq_refl) as (t4 & _ & E4). rewrite E4; ifs; norm.
  apply at_cm_cons in H.
  rewrite (proj1 (stmt_all toks) s' _ _ rest f (le_n _)) by side. norm.
  rewrite !Nat.sub_diag. cbn [fxg_stmt]. unfold mkinfo. rewrite Hl. fteq.
Qed.

Lemma fstmt_whlc c1 c2 e c3 b : FStmtOK (FWhlC c1 c2 e c3 b).
Proof.
  intros k r rest fuel Hr Hf Hok H Hfol Hgap. cbn [ffl_stmt] in H. flat_in H. cbn [orig_stmt else_ok open_if] in Hok, Hfol.
  cbn [after_stmt gk_stmt] in Hgap. apply gapc_E_cmp in Hgap.
  assert (Hl : len (ffl_stmt (FWhlC c1 c2 e c3 b)) = len c1 + 1 + len c2 + 1 + len (ffl_cmp e) + len c3 + 1 + len (fl_stmt b)) by (flens'; lia).
  destruct fuel as [|f]; [lia|]. rewrite p_stmt_S. unfold stmt_ref, p_expr. comb.
  rewrite (p_tag_no toks (is_k Semic) k r _ _ _ H eq_refl eq_refl).
  rewrite (p_tag_no toks (is_k KIf) k r _ _ _ H eq_refl eq_refl).
  destruct (p_tag_at toks (is_k KWhile) k r _ _ _ H eq_refl) as (t1 & _ & E1). rewrite E1; ifs; norm.
  apply at_cm_cons in H.
  destruct (p_tag_at toks (is_k LParen) _ r _ _ _ H eq_refl) as (t2 & _ & E2). rewrite E2; ifs; norm.
  apply at_cm_cons in H.
  rewrite (fcmp_ok toks e _ _ _ f (le_n _) ltac:(lia) H (fol_here fol_cmp c3 RParen _ eq_refl eq_refl) Hgap). norm.
  apply at_app in H.
  destruct (p_tag_at toks (is_k RParen) _ r _ _ _ H eq_refl) as (t3 & _ & E3). rewrite E3; ifs; norm.
  apply at_cm_cons in H.
  rewrite (proj1 (stmt_all toks) b _ _ rest f (le_n _)) by side. norm.
  rewrite !Nat.sub_diag. cbn [fxg_stmt]. unfold mkinfo. rewrite Hl. fteq.
Qed.

(* a fault inside an argument of a call *)
Lemma fargs_head a : headed (ffl_args a).
Proof. destruct a; cbn [ffl_args]; apply headed_app; [apply fhead_cmp | apply head_cmp]. Qed.

Lemma fstmt_cala c1 g c2 a c3 c4 : FStmtOK (FCalA c1 g c2 a c3 c4).
Proof.
  intros k r rest fuel Hr Hf Hok H Hfol Hgap. cbn [after_stmt gk_stmt] in Hgap. apply gapc_E_args in Hgap.
  assert (Hl : len (ffl_stmt (FCalA c1 g c2 a c3 c4)) = len c1 + 1 + len c2 + 1 + len (ffl_args a) + len c3 + 1 + len c4 + 1) by (flens'; lia).
  destruct fuel as [|f]; [lia|]. rewrite p_stmt_S. comb.
  cbn [ffl_stmt] in H. flat_in H.
  rewrite (p_tag_no toks (is_k Semic) k r _ _ _ H eq_refl eq_refl).
  rewrite (p_tag_no toks (is_k KIf) k r _ _ _ H eq_refl eq_refl).
  rewrite (p_tag_no toks (is_k KWhile) k r _ _ _ H eq_refl eq_refl).
  rewrite (p_tag_no toks (is_k LCurly) k r _ _ _ H eq_refl eq_refl).
  unfold p_call. comb.
  rewrite (p_ident_at toks k r _ _ _ H Hr). norm. apply at_cm_cons in H.
  destruct (p_tag_at toks (is_k LParen) _ r _ _ _ H eq_refl) as (t1 & _ & E1). rewrite E1; ifs; norm.
  apply at_cm_cons in H.
  destruct (fargs_head a) as (c & kd & tl & E & Hs & Hk). pose proof H as H0. rewrite E in H0. flat_in H0.
  rewrite (la_tag_at toks _ _ _ _ _ H0 Hs), (expr_start_not_close _ Hk). norm.
  rewrite (fargs_ok toks a (k + len c1 + 1 + len c2 + 1) r (cm c3 ++ RParen :: cm c4 ++ Semic :: rest) f ltac:(lia) ltac:(lia) H
             (fol_here (is_k RParen) c3 RParen _ eq_refl eq_refl) Hgap).
  norm. apply at_app in H.
  destruct (p_tag_at toks (is_k RParen) _ r _ _ _ H eq_refl) as (t2 & _ & E2). rewrite E2; ifs; norm.
  apply at_cm_cons in H.
  destruct (p_tag_at toks (is_k Semic) _ r _ _ _ H eq_refl) as (t3 & _ & E3). rewrite E3; ifs; norm.
  cbn [fxg_stmt]. unfold mkinfo. rewrite Hl. fteq.
Qed.

Lemma fstmt_ift c1 c2 e c3 t : FStmtOK t -> FStmtOK (FIfT c1 c2 e c3 t).
Proof.
  intros IHt k r rest fuel Hr Hf Hok H Hfol Hgap. cbn [ffl_stmt] in H. flat_in H. cbn [orig_stmt else_ok] in Hok.
  cbn [after_stmt gk_stmt gapc] in Hgap. cbn [orig_stmt open_if] in Hfol.
  assert (Hl : len (ffl_stmt (FIfT c1 c2 e c3 t)) = len c1 + 1 + len c2 + 1 + len (fl_cmp e) + len c3 + 1 + len (ffl_stmt t)) by (flens'; lia).
  pose proof (fun _ : open_if (orig_stmt t) = true => Hfol eq_refl) as Hft.
  destruct fuel as [|f]; [lia|]. rewrite p_stmt_S. unfold stmt_ref, p_expr. comb.
  rewrite (p_tag_no toks (is_k Semic) k r _ _ _ H eq_refl eq_refl).
  destruct (p_tag_at toks (is_k KIf) k r _ _ _ H eq_refl) as (t1 & _ & E1). rewrite E1; ifs; norm.
  apply at_cm_cons in H.
  destruct (p_tag_at toks (is_k LParen) _ r _ _ _ H eq_refl) as (t2 & _ & E2). rewrite E2; ifs; norm.
  apply at_cm_cons in H.
  rewrite (cmp_ok toks e _ _ _ f (le_n _) ltac:(lia) H (fol_here fol_cmp c3 RParen _ eq_refl eq_refl)). norm.
  apply at_app in H.
  destruct (p_tag_at toks (is_k RParen) _ r _ _ _ H eq_refl) as (t3 & _ & E3). rewrite E3; ifs; norm.
  apply at_cm_cons in H.
  rewrite (IHt _ _ rest f (le_n _)) by side. norm.
  apply at_app in H. destruct (Hfol eq_refl) as (c & kd & rest' & -> & Hs & Hk).
  rewrite (p_tag_no toks (is_k KElse) _ r _ _ _ H Hs) by (unfold noelse in Hk; now destruct (is_k KElse kd)).
  norm. rewrite !Nat.sub_diag. cbn [fxg_stmt fxg_stmts]. unfold mkinfo. rewrite Hl. fteq.
Qed.

Lemma fstmt_ife1 c1 c2 e c3 t c4 s' : FStmtOK t -> FStmtOK (FIfE1 c1 c2 e c3 t c4 s').
Proof.
  intros IHt k r rest fuel Hr Hf Hok H Hfol Hgap. cbn [ffl_stmt] in H. flat_in H. cbn [orig_stmt else_ok open_if] in Hok, Hfol.
  cbn [after_stmt gk_stmt gapc] in Hgap.
  apply andb_prop in Hok. destruct Hok as [Hok Hok2]. apply andb_prop in Hok. destruct Hok as [Hno Hok1].
  apply negb_true_iff in Hno.
  assert (Hl : len (ffl_stmt (FIfE1 c1 c2 e c3 t c4 s')) =
               len c1 + 1 + len c2 + 1 + len (fl_cmp e) + len c3 + 1 + len (ffl_stmt t) + len c4 + 1 + len (fl_stmt s')) by (flens'; lia).
  assert (Hft : open_if (orig_stmt t) = true -> fol noelse (cm c4 ++ KElse :: fl_stmt s' ++ rest)) by (intros Ho; congruence).
  destruct fuel as [|f]; [lia|]. rewrite p_stmt_S. unfold stmt_ref, p_expr. comb.
  rewrite (p_tag_no toks (is_k Semic) k r _ _ _ H eq_refl eq_refl).
  destruct (p_tag_at toks (is_k KIf) k r _ _ _ H eq_refl) as (t1 & _ & E1). rewrite E1; ifs; norm.
  apply at_cm_cons in H.
  destruct (p_tag_at toks (is_k LParen) _ r _ _ _ H eq_refl) as (t2 & _ & E2). rewrite E2; ifs; norm.
  apply at_cm_cons in H.
  rewrite (cmp_ok toks e _ _ _ f (le_n _) ltac:(lia) H (fol_here fol_cmp c3 RParen _ eq_refl eq_refl)). norm.
  apply at_app in H.
  destruct (p_tag_at toks (is_k RParen) _ r _ _ _ H eq_refl) as (t3 & _ & E3). rewrite E3; ifs; norm.
  apply at_cm_cons in H.
  rewrite (IHt _ _ (cm c4 ++ KElse :: fl_stmt s' ++ rest) f (le_n _)) by side. norm.
  apply at_app in H.
  destruct (p_tag_at toks (is_k KElse) _ r _ _ _ H eq_refl) as (t4 & _ & E4). rewrite E4; ifs; norm.
  apply at_cm_cons in H.
  rewrite (proj1 (stmt_all toks) s' _ _ rest f (le_n _)) by side. norm.
  rewrite !Nat.sub_diag. cbn [fxg_stmt fxg_stmts]. unfold mkinfo. rewrite Hl. fteq.
Qed.

Lemma fstmt_ife2 c1 c2 e c3 t c4 s' : FStmtOK s' -> FStmtOK (FIfE2 c1 c2 e c3 t c4 s').
Proof.
  intros IHs k r rest fuel Hr Hf Hok H Hfol Hgap. cbn [ffl_stmt] in H. flat_in H. cbn [orig_stmt else_ok open_if] in Hok, Hfol.
  cbn [after_stmt gk_stmt gapc] in Hgap.
  apply andb_prop in Hok. destruct Hok as [Hok Hok2]. apply andb_prop in Hok. destruct Hok as [Hno Hok1].
  apply negb_true_iff in Hno.
  assert (Hl : len (ffl_stmt (FIfE2 c1 c2 e c3 t c4 s')) =
               len c1 + 1 + len c2 + 1 + len (fl_cmp e) + len c3 + 1 + len (fl_stmt t) + len c4 + 1 + len (ffl_stmt s')) by (flens'; lia).
  assert (Hft : open_if t = true -> fol noelse (cm c4 ++ KElse :: ffl_stmt s' ++ rest)) by (intros Ho; congruence).
  destruct fuel as [|f]; [lia|]. rewrite p_stmt_S. unfold stmt_ref, p_expr. comb.
  rewrite (p_tag_no toks (is_k Semic) k r _ _ _ H eq_refl eq_refl).
  destruct (p_tag_at toks (is_k KIf) k r _ _ _ H eq_refl) as (t1 & _ & E1). rewrite E1; ifs; norm.
  apply at_cm_cons in H.
  destruct (p_tag_at toks (is_k LParen) _ r _ _ _ H eq_refl) as (t2 & _ & E2). rewrite E2; ifs; norm.
  apply at_cm_cons in H.
  rewrite (cmp_ok toks e _ _ _ f (le_n _) ltac:(lia) H (fol_here fol_cmp c3 RParen _ eq_refl eq_refl)). norm.
  apply at_app in H.
  destruct (p_tag_at toks (is_k RParen) _ r _ _ _ H eq_refl) as (t3 & _ & E3). rewrite E3; ifs; norm.
  apply at_cm_cons in H.
  rewrite (proj1 (stmt_all toks) t _ _ (cm c4 ++ KElse :: ffl_stmt s' ++ rest) f (le_n _)) by side. norm.
  apply at_app in H.
  destruct (p_tag_at toks (is_k KElse) _ r _ _ _ H eq_refl) as (t4 & _ & E4). rewrite E4; ifs; norm.
  apply at_cm_cons in H.
  rewrite (IHs _ _ rest f (le_n _)) by side. norm.
  rewrite !Nat.sub_diag. cbn [fxg_stmt fxg_stmts]. unfold mkinfo. rewrite Hl. fteq.
Qed.

Lemma fstmt_whl c1 c2 e c3 b : FStmtOK b -> FStmtOK (FWhl c1 c2 e c3 b).
Proof.
  intros IHb k r rest fuel Hr Hf Hok H Hfol Hgap. cbn [ffl_stmt] in H. flat_in H. cbn [orig_stmt else_ok open_if] in Hok, Hfol.
  cbn [after_stmt gk_stmt gapc] in Hgap.
  assert (Hl : len (ffl_stmt (FWhl c1 c2 e c3 b)) = len c1 + 1 + len c2 + 1 + len (fl_cmp e) + len c3 + 1 + len (ffl_stmt b)) by (flens'; lia).
  destruct fuel as [|f]; [lia|]. rewrite p_stmt_S. unfold stmt_ref, p_expr. comb.
  rewrite (p_tag_no toks (is_k Semic) k r _ _ _ H eq_refl eq_refl).
  rewrite (p_tag_no toks (is_k KIf) k r _ _ _ H eq_refl eq_refl).
  destruct (p_tag_at toks (is_k KWhile) k r _ _ _ H eq_refl) as (t1 & _ & E1). rewrite E1; ifs; norm.
  apply at_cm_cons in H.
  destruct (p_tag_at toks (is_k LParen) _ r _ _ _ H eq_refl) as (t2 & _ & E2). rewrite E2; ifs; norm.
  apply at_cm_cons in H.
  rewrite (cmp_ok toks e _ _ _ f (le_n _) ltac:(lia) H (fol_here fol_cmp c3 RParen _ eq_refl eq_refl)). norm.
  apply at_app in H.
  destruct (p_tag_at toks (is_k RParen) _ r _ _ _ H eq_refl) as (t3 & _ & E3). rewrite E3; ifs; norm.
  apply at_cm_cons in H.
  rewrite (IHb _ _ rest f (le_n _)) by side. norm.
  rewrite !Nat.sub_diag. cbn [fxg_stmt fxg_stmts]. unfold mkinfo. rewrite Hl. fteq.
Qed.

Lemma fx_stmts_len o b : len (fx_stmts o b) <= len (ffl_stmts b).
Proof.
  revert o. induction b as [s r|s r IH]; intros o; cbn [fxg_stmts ffl_stmts length]; rewrite app_length.
  - pose proof (x_stmts_len (o + len (ffl_stmt s)) r). pose proof (proj1 ffl_pos s). lia.
  - pose proof (stmt_len_pos s). specialize (IH (o + len (fl_stmt s))). lia.
Qed.

Lemma fstmt_blk c1 b c2 : FStmtsOK b -> FStmtOK (FBlk c1 b c2).
Proof.
  intros IHb k r rest fuel Hr Hf Hok H Hfol Hgap. cbn [ffl_stmt] in H. flat_in H. cbn [orig_stmt else_ok] in Hok.
  cbn [after_stmt gk_stmt gapc] in Hgap.
  assert (Hl : len (ffl_stmt (FBlk c1 b c2)) = len c1 + 1 + len (ffl_stmts b) + len c2 + 1) by (flens'; lia).
  destruct fuel as [|f]; [lia|]. rewrite p_stmt_S. comb.
  rewrite (p_tag_no toks (is_k Semic) k r _ _ _ H eq_refl eq_refl).
  rewrite (p_tag_no toks (is_k KIf) k r _ _ _ H eq_refl eq_refl).
  rewrite (p_tag_no toks (is_k KWhile) k r _ _ _ H eq_refl eq_refl).
  destruct (p_tag_at toks (is_k LCurly) k r _ _ _ H eq_refl) as (t1 & _ & E1). rewrite E1; ifs; norm.
  apply at_cm_cons in H.
  pose proof (IHb (k + len c1 + 1) r _ f ltac:(lia) ltac:(lia) Hok H (fol_here (is_k RCurly) c2 RCurly rest eq_refl eq_refl) Hgap) as Hst.
  apply at_app in H.
  destruct (stmt_no_rcurly toks (k + len c1 + 1 + len (ffl_stmts b)) (k + len c1 + 1 + len (ffl_stmts b)) _ _ f H ltac:(lia)) as (e0 & Ee0).
  assert (Ee : stmt_ref toks f (mk (k + len c1 + 1 + len (ffl_stmts b)) r) = PErr (set_refp e0 r)).
  { unfold stmt_ref. comb. now rewrite Ee0. }
  pose proof (fx_stmts_len (k + len c1 + 1 - r) b) as Hn.
  rewrite (many0_steps' _ _ _ _ _ f Hst Ee ltac:(lia)). norm.
  destruct (p_tag_at toks (is_k RCurly) _ r _ _ _ H eq_refl) as (t2 & _ & E2). rewrite E2; ifs; norm.
  change (fx_stmt (k - r) (FBlk c1 b c2)) with (SBlock (fx_stmts (k - r + len c1 + 1) b) (mkinfo (k - r) (k - r + len (ffl_stmt (FBlk c1 b c2))))).
  unfold mkinfo. rewrite Hl. fteq.
Qed.


Lemma fstmts_here s b : FStmtOK s -> FStmtsOK (FHere s b).
Proof.
  intros IHs k r rest f Hr Hf Hok H Hfol Hgap. cbn [ffl_stmts] in *. rewrite app_length in *. flat_in H.
  cbn [orig_stmts else_oks] in Hok. apply andb_prop in Hok. destruct Hok as [Hok1 Hok2]. cbn [after_stmts gk_stmts] in Hgap.
  pose proof (proj1 ffl_pos s) as Hp. pose proof (fun _ : open_if (orig_stmt s) = true => stmts_follow b rest Hfol) as Hfs.
  cbn [fxg_stmts]. eapply steps_cons with (s1 := mk (k + len (ffl_stmt s)) r).
  - unfold stmt_ref. comb. rewrite (IHs k k (fl_stmts b ++ rest) f (le_n _)) by side. norm. now rewrite Nat.sub_diag.
  - cbn [pos]. lia.
  - apply at_app in H. pose proof (stmts_ok toks b (k + len (ffl_stmt s)) r rest f ltac:(lia) ltac:(lia) Hok2 H Hfol) as Hb.
    replace (k + len (ffl_stmt s) - r) with (k - r + len (ffl_stmt s)) in Hb by lia.
    now rewrite Nat.add_assoc.
Qed.

Lemma fstmts_later s b : FStmtsOK b -> FStmtsOK (FLater s b).
Proof.
  intros IHb k r rest f Hr Hf Hok H Hfol Hgap. cbn [ffl_stmts] in *. rewrite app_length in *. flat_in H.
  cbn [orig_stmts else_oks] in Hok. apply andb_prop in Hok. destruct Hok as [Hok1 Hok2]. cbn [after_stmts gk_stmts] in Hgap.
  pose proof (stmt_len_pos s) as Hp.
  pose proof (fun _ : open_if s = true => fstmts_follow b rest) as Hfs.
  cbn [fxg_stmts]. eapply steps_cons with (s1 := mk (k + len (fl_stmt s)) r).
  - unfold stmt_ref. comb. rewrite (proj1 (stmt_all toks) s k k (ffl_stmts b ++ rest) f (le_n _)) by side. norm. now rewrite Nat.sub_diag.
  - cbn [pos]. lia.
  - apply at_app in H. specialize (IHb (k + len (fl_stmt s)) r rest f ltac:(lia) ltac:(lia) Hok2 H Hfol Hgap).
    replace (k + len (fl_stmt s) - r) with (k - r + len (fl_stmt s)) in IHb by lia.
    now rewrite Nat.add_assoc.
Qed.

End FStmt.

Theorem fstmt_all toks : (forall s, FStmtOK toks s) /\ (forall b, FStmtsOK toks b).
Proof.
  apply fstmt_mutind.
  - apply fstmt_asg.
  - apply fstmt_cal.
  - apply fstmt_calp.
  - apply fstmt_ifp.
  - apply fstmt_ifpe.
  - apply fstmt_whlp.
  - apply fstmt_asgl.
  - apply fstmt_asgr.
  - apply fstmt_ifc.
  - apply fstmt_ifec.
  - apply fstmt_whlc.
  - apply fstmt_cala.
  - intros; now apply fstmt_ift.
  - intros; now apply fstmt_ife1.
  - intros; now apply fstmt_ife2.
  - intros; now apply fstmt_whl.
  - intros; now apply fstmt_blk.
  - intros; now apply fstmts_here.
  - intros; now apply fstmts_later.
Qed.

Lemma fstmts_ok toks b : FStmtsOK toks b.
Proof. apply fstmt_all. Qed.
