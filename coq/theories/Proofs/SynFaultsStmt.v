(* C03 - syntax faults, family A (a statement lost its `;`): the parser on statements.  The structural induction of
   GrammarStmt.v once more, over the faulty syntax of SynFaults.v: at the leaf `expect(;)` fails on the token behind
   the gap (which is not `;` and cannot continue the expression), attaches MissingTrailingSemic at the token in front
   of the gap and goes on from there; around the leaf everything is as for valid statements. *)
From Coq Require Import List Lia Arith Bool.
From Spl Require Import Spec.Grammar Model.Parser Proofs.GrammarBase Proofs.GrammarExpr Proofs.GrammarStmt Proofs.SynFaults.
Import ListNotations.
Local Open Scope nat_scope.

Ltac flens' :=
  cbn [fl_var fl_fac fl_mul fl_add fl_cmp fl_type fl_stmt fl_stmts ffl_stmt ffl_stmts];
  repeat (rewrite app_length || rewrite cm_length || cbn [length]).

Ltac fteq :=
  lazymatch goal with
  | |- @eq nat _ _ => flens'; lia
  | |- _ => first [reflexivity | progress f_equal; fteq | idtac]
  end.

Ltac side := first [lia | assumption].

(* the token behind the gap: cannot continue an expression, and is not `;` *)
Definition gapfol (kd : kind) : bool := fol_cmp kd && negb (is_k Semic kd).

(* what can stand behind a statement inside a body: a statement, `}`, `else` *)
Definition stopper (kd : kind) : bool := stmt_first kd || is_k RCurly kd || is_k KElse kd.

Lemma stopper_cmp kd : stopper kd = true -> fol_cmp kd = true.
Proof. destruct kd; try discriminate; reflexivity. Qed.

Lemma fol_next P l : fol P l -> exists kd, next_sig l = Some kd /\ sig kd = true /\ P kd = true.
Proof.
  intros (c & kd & rest & -> & Hs & HP). exists kd. split; [|auto].
  induction c as [|x c IH]; cbn [cm map app next_sig]; [|exact IH]. destruct kd; try reflexivity; discriminate.
Qed.

Lemma gap_open_fol l : fol stopper l -> gap_open l = true -> fol gapfol l.
Proof.
  intros Hf Hg. destruct (fol_next _ _ Hf) as (kd & Hn & _ & _). destruct Hf as (c & kd' & rest & -> & Hs & HP).
  assert (kd' = kd).
  { clear - Hn Hs. induction c as [|x c IH]; cbn [cm map app next_sig] in Hn; [|exact (IH Hn)]. destruct kd'; try discriminate; congruence. }
  subst kd'. exists c, kd, rest. split; [reflexivity|]. split; [exact Hs|].
  unfold gapfol. rewrite (stopper_cmp _ HP). unfold gap_open in Hg. rewrite Hn in Hg. destruct kd; try reflexivity; discriminate.
Qed.

Lemma stmts_stopper b rest : fol (is_k RCurly) rest -> fol stopper (fl_stmts b ++ rest).
Proof.
  intros H. destruct b as [|s b]; cbn [fl_stmts app].
  - revert H. apply fol_weaken. intros kd Hk. destruct kd; try discriminate; reflexivity.
  - destruct (stmt_head s) as (c & kd & tl & -> & Hs & Hk). rewrite <- !app_assoc. cbn [app].
    apply fol_here; [exact Hs|]. unfold stopper. rewrite Hk. reflexivity.
Qed.

(* behind the gap stands a stopper, whatever the fault's position *)
Lemma after_stopper :
  (forall s rest, fol stopper rest -> fol stopper (after_stmt s rest)) /\
  (forall b rest, fol (is_k RCurly) rest -> fol stopper (after_stmts b rest)).
Proof.
  apply fstmt_mutind; cbn [after_stmt after_stmts]; intros; auto.
  - apply H. apply fol_here; reflexivity.
  - apply H. apply fol_here; reflexivity.
  - apply H. apply stmts_stopper. assumption.
Qed.

Lemma fstmt_head s : exists c kd tl, ffl_stmt s = cm c ++ kd :: tl /\ sig kd = true /\ stmt_first kd = true.
Proof.
  destruct s as [v c1 e|c1 f c2 a c3|c1 c2 e c3 t|c1 c2 e c3 t c4 s'|c1 c2 e c3 t c4 s'|c1 c2 e c3 b|c1 b c2]; cbn [ffl_stmt].
  - rewrite fl_var_head, <- app_assoc. cbn [app]. now eexists _, (Ident _), _.
  - now eexists c1, (Ident f), _.
  - now eexists c1, KIf, _.
  - now eexists c1, KIf, _.
  - now eexists c1, KIf, _.
  - now eexists c1, KWhile, _.
  - now eexists c1, LCurly, _.
Qed.

Lemma fstmts_follow b rest : fol noelse (ffl_stmts b ++ rest).
Proof.
  destruct b as [s r|s r]; cbn [ffl_stmts].
  - destruct (fstmt_head s) as (c & kd & tl & -> & Hs & Hk). rewrite <- !app_assoc. cbn [app].
    apply fol_here; [exact Hs|]. destruct kd; try discriminate; reflexivity.
  - destruct (stmt_head s) as (c & kd & tl & -> & Hs & Hk). rewrite <- !app_assoc. cbn [app].
    apply fol_here; [exact Hs|]. destruct kd; try discriminate; reflexivity.
Qed.

Section FStmt.
Variable toks : list token.
Notation at_ := (at_ toks).

(* ---- the leaves ---- *)
Lemma fassign_ok v c1 e k r rest fuel : r <= k -> 6 * len (ffl_stmt (FAsg v c1 e)) + 6 <= fuel ->
  at_ k (ffl_stmt (FAsg v c1 e) ++ rest) -> fol gapfol rest ->
  p_assign toks fuel (mk k r) = POk (mk (k + len (ffl_stmt (FAsg v c1 e))) r) (fx_stmt (k - r) (FAsg v c1 e)).
Proof.
  intros Hr Hf H Hfol. cbn [ffl_stmt] in H. flat_in H.
  assert (Hl : len (ffl_stmt (FAsg v c1 e)) = len (fl_var v) + len c1 + 1 + len (fl_cmp e)) by (flens'; lia).
  destruct Hfol as (cg & kg & restg & -> & Hsg & Hkg). unfold gapfol in Hkg. apply andb_prop in Hkg. destruct Hkg as [Hcmp Hns].
  unfold p_assign, p_expr. comb.
  rewrite (var_ok toks v k r _ fuel Hr ltac:(lia) H (fol_here nolb c1 Assign _ eq_refl eq_refl)). norm.
  apply at_app in H.
  destruct (p_tag_at toks (is_k Assign) _ r _ _ _ H eq_refl) as (t1 & _ & E1). rewrite E1; ifs; norm.
  apply at_cm_cons in H.
  rewrite (cmp_ok toks e _ _ _ fuel (le_n _) ltac:(lia) H (fol_here fol_cmp cg kg _ Hsg Hcmp)). norm.
  apply at_app in H.
  rewrite (p_tag_no toks (is_k Semic) _ r _ _ _ H Hsg) by (apply negb_true_iff in Hns; exact Hns).
  unfold expect_error, push_err. norm. cbn [app].
  rewrite Nat.sub_diag. cbn [fx_stmt]. unfold finfo, gap_err. rewrite Hl. fteq.
Qed.

(* list_ok of GrammarStmt.v wants `)` behind the list; that is what stands there *)
Lemma fcall_ok c1 f c2 a c3 k r rest fuel : r <= k -> 6 * len (ffl_stmt (FCal c1 f c2 a c3)) + 12 <= fuel ->
  at_ k (ffl_stmt (FCal c1 f c2 a c3) ++ rest) -> fol gapfol rest ->
  p_call toks fuel (mk k r) = POk (mk (k + len (ffl_stmt (FCal c1 f c2 a c3))) r) (fx_stmt (k - r) (FCal c1 f c2 a c3)).
Proof.
  intros Hr Hf H Hfol. cbn [ffl_stmt] in H. flat_in H.
  assert (Hl : len (ffl_stmt (FCal c1 f c2 a c3)) = len c1 + 1 + len c2 + 1 + len (fl_sep fl_cmp a) + len c3 + 1) by (flens'; lia).
  destruct Hfol as (cg & kg & restg & -> & Hsg & Hkg). unfold gapfol in Hkg. apply andb_prop in Hkg. destruct Hkg as [_ Hns].
  apply negb_true_iff in Hns.
  unfold p_call. comb.
  rewrite (p_ident_at toks k r _ _ _ H Hr). norm. apply at_cm_cons in H.
  destruct (p_tag_at toks (is_k LParen) _ r _ _ _ H eq_refl) as (t1 & _ & E1). rewrite E1; ifs; norm.
  apply at_cm_cons in H.
  assert (Hb : match a with Some (_, l) => len l < fuel | None => True end).
  { destruct a as [[e l]|]; [|exact I]. pose proof (tail_len_le fl_cmp l). cbn [fl_sep] in Hl. rewrite app_length in Hl. lia. }
  destruct a as [[e l]|].
  - destruct (head_cmp e) as (c & kd & tl & E & Hs & Hk). pose proof H as H0. cbn [fl_sep] in H0. rewrite E in H0. flat_in H0.
    rewrite (la_tag_at toks _ _ _ _ _ H0 Hs), (expr_start_not_close _ Hk). norm.
    rewrite (list_ok toks fl_cmp (x_cmp 0) (p_argument toks fuel) (len (fl_sep fl_cmp (Some (e, l))))
               (arg_ok toks fuel (len (fl_sep fl_cmp (Some (e, l)))) ltac:(lia)) e l (k + len c1 + 1 + len c2 + 1) r
               (cm c3 ++ RParen :: cm cg ++ kg :: restg) fuel ltac:(lia) (le_n _) Hb H (fol_here (is_k RParen) c3 RParen _ eq_refl eq_refl)).
    norm. apply at_app in H.
    destruct (p_tag_at toks (is_k RParen) _ r _ _ _ H eq_refl) as (t2 & _ & E2). rewrite E2; ifs; norm.
    apply at_cm_cons in H.
    rewrite (p_tag_no toks (is_k Semic) _ r _ _ _ H Hsg Hns).
    unfold expect_error, push_err. norm. cbn [app].
    cbn [fx_stmt]. unfold finfo, gap_err. rewrite Hl. fteq.
  - cbn [fl_sep app length x_sep] in *. rewrite (la_tag_at toks _ _ _ _ _ H eq_refl). norm.
    destruct (p_tag_at toks (is_k RParen) _ r _ _ _ H eq_refl) as (t2 & _ & E2). rewrite E2; ifs; norm.
    apply at_cm_cons in H.
    rewrite (p_tag_no toks (is_k Semic) _ r _ _ _ H Hsg Hns).
    unfold expect_error, push_err. norm. cbn [app].
    cbn [fx_stmt x_sep]. unfold finfo, gap_err. rewrite Hl. fteq.
Qed.

(* ---- statements ---- *)
Definition FStmtOK (s : fstmt) : Prop :=
  forall k r rest fuel, r <= k -> 6 * len (ffl_stmt s) + 13 <= fuel -> else_ok (orig_stmt s) = true ->
  at_ k (ffl_stmt s ++ rest) -> (open_if (orig_stmt s) = true -> fol noelse rest) -> fol gapfol (after_stmt s rest) ->
  p_stmt toks fuel (mk k r) = POk (mk (k + len (ffl_stmt s)) r) (fx_stmt (k - r) s).

Definition FStmtsOK (b : fstmts) : Prop :=
  forall k r rest f, r <= k -> 6 * len (ffl_stmts b) + 13 <= f -> else_oks (orig_stmts b) = true ->
  at_ k (ffl_stmts b ++ rest) -> fol (is_k RCurly) rest -> fol gapfol (after_stmts b rest) ->
  steps (stmt_ref toks f) (mk k r) (fx_stmts (k - r) b) (mk (k + len (ffl_stmts b)) r).

Lemma fstmt_asg v c1 e : FStmtOK (FAsg v c1 e).
Proof.
  intros k r rest fuel Hr Hf Hok H Hfol Hgap. cbn [after_stmt] in Hgap.
  destruct fuel as [|f]; [lia|]. rewrite p_stmt_S. comb.
  pose proof H as H0. cbn [ffl_stmt] in H0. flat_in H0.
  destruct (call_no_asg toks v c1 _ k r f H0 Hr) as (e0 & Ec).
  rewrite fl_var_head in H0. flat_in H0.
  rewrite (p_tag_no toks (is_k Semic) k r _ _ _ H0 eq_refl eq_refl).
  rewrite (p_tag_no toks (is_k KIf) k r _ _ _ H0 eq_refl eq_refl).
  rewrite (p_tag_no toks (is_k KWhile) k r _ _ _ H0 eq_refl eq_refl).
  rewrite (p_tag_no toks (is_k LCurly) k r _ _ _ H0 eq_refl eq_refl).
  rewrite Ec. rewrite (fassign_ok v c1 e k r rest f Hr ltac:(lia) H Hgap). reflexivity.
Qed.

Lemma fstmt_cal c1 g c2 a c3 : FStmtOK (FCal c1 g c2 a c3).
Proof.
  intros k r rest fuel Hr Hf Hok H Hfol Hgap. cbn [after_stmt] in Hgap.
  destruct fuel as [|f]; [lia|]. rewrite p_stmt_S. comb.
  pose proof H as H0. cbn [ffl_stmt] in H0. flat_in H0.
  rewrite (p_tag_no toks (is_k Semic) k r _ _ _ H0 eq_refl eq_refl).
  rewrite (p_tag_no toks (is_k KIf) k r _ _ _ H0 eq_refl eq_refl).
  rewrite (p_tag_no toks (is_k KWhile) k r _ _ _ H0 eq_refl eq_refl).
  rewrite (p_tag_no toks (is_k LCurly) k r _ _ _ H0 eq_refl eq_refl).
  rewrite (fcall_ok c1 g c2 a c3 k r rest f Hr ltac:(lia) H Hgap). reflexivity.
Qed.

Lemma fstmt_ift c1 c2 e c3 t : FStmtOK t -> FStmtOK (FIfT c1 c2 e c3 t).
Proof.
  intros IHt k r rest fuel Hr Hf Hok H Hfol Hgap. cbn [ffl_stmt] in H. flat_in H. cbn [orig_stmt else_ok] in Hok.
  cbn [after_stmt] in Hgap. cbn [orig_stmt open_if] in Hfol.
  assert (Hl : len (ffl_stmt (FIfT c1 c2 e c3 t)) = len c1 + 1 + len c2 + 1 + len (fl_cmp e) + len c3 + 1 + len (ffl_stmt t)) by (flens'; lia).
  pose proof (fun _ : open_if (orig_stmt t) = true => Hfol eq_refl) as Hft.
  destruct fuel as [|f]; [lia|]. rewrite p_stmt_S. unfold stmt_ref, p_expr. comb.
  rewrite (p_tag_no toks (is_k Semic) k r _ _ _ H eq_refl eq_refl).
  destruct (p_tag_at toks (is_k KIf) k r _ _ _ H eq_refl) as (t1 & _ & E1). rewrite E1; ifs; norm.
  apply at_cm_cons in H.
  destruct (p_tag_at toks (is_k LParen) _ r _ _ _ H eq_refl) as (t2 & _ & E2). rewrite E2; ifs; norm.
  apply at_cm_cons in H.
  rewrite (cmp_ok toks e _ _ _ f (le_n _) ltac:(lia) H (fol_here fol_cmp c3 RParen _ eq_refl eq_refl)). norm.
  apply at_app in H.
  destruct (p_tag_at toks (is_k RParen) _ r _ _ _ H eq_refl) as (t3 & _ & E3). rewrite E3; ifs; norm.
  apply at_cm_cons in H.
  rewrite (IHt _ _ rest f (le_n _)) by side. norm.
  apply at_app in H. destruct (Hfol eq_refl) as (c & kd & rest' & -> & Hs & Hk).
  rewrite (p_tag_no toks (is_k KElse) _ r _ _ _ H Hs) by (unfold noelse in Hk; now destruct (is_k KElse kd)).
  norm. rewrite !Nat.sub_diag. cbn [fx_stmt]. unfold mkinfo. rewrite Hl. fteq.
Qed.

Lemma fstmt_ife1 c1 c2 e c3 t c4 s' : FStmtOK t -> FStmtOK (FIfE1 c1 c2 e c3 t c4 s').
Proof.
  intros IHt k r rest fuel Hr Hf Hok H Hfol Hgap. cbn [ffl_stmt] in H. flat_in H. cbn [orig_stmt else_ok open_if] in Hok, Hfol.
  cbn [after_stmt] in Hgap.
  apply andb_prop in Hok. destruct Hok as [Hok Hok2]. apply andb_prop in Hok. destruct Hok as [Hno Hok1].
  apply negb_true_iff in Hno.
  assert (Hl : len (ffl_stmt (FIfE1 c1 c2 e c3 t c4 s')) =
               len c1 + 1 + len c2 + 1 + len (fl_cmp e) + len c3 + 1 + len (ffl_stmt t) + len c4 + 1 + len (fl_stmt s')) by (flens'; lia).
  assert (Hft : open_if (orig_stmt t) = true -> fol noelse (cm c4 ++ KElse :: fl_stmt s' ++ rest)) by (intros Ho; congruence).
  destruct fuel as [|f]; [lia|]. rewrite p_stmt_S. unfold stmt_ref, p_expr. comb.
  rewrite (p_tag_no toks (is_k Semic) k r _ _ _ H eq_refl eq_refl).
  destruct (p_tag_at toks (is_k KIf) k r _ _ _ H eq_refl) as (t1 & _ & E1). rewrite E1; ifs; norm.
  apply at_cm_cons in H.
  destruct (p_tag_at toks (is_k LParen) _ r _ _ _ H eq_refl) as (t2 & _ & E2). rewrite E2; ifs; norm.
  apply at_cm_cons in H.
  rewrite (cmp_ok toks e _ _ _ f (le_n _) ltac:(lia) H (fol_here fol_cmp c3 RParen _ eq_refl eq_refl)). norm.
  apply at_app in H.
  destruct (p_tag_at toks (is_k RParen) _ r _ _ _ H eq_refl) as (t3 & _ & E3). rewrite E3; ifs; norm.
  apply at_cm_cons in H.
  rewrite (IHt _ _ (cm c4 ++ KElse :: fl_stmt s' ++ rest) f (le_n _)) by side. norm.
  apply at_app in H.
  destruct (p_tag_at toks (is_k KElse) _ r _ _ _ H eq_refl) as (t4 & _ & E4). rewrite E4; ifs; norm.
  apply at_cm_cons in H.
  rewrite (proj1 (stmt_all toks) s' _ _ rest f (le_n _)) by side. norm.
  rewrite !Nat.sub_diag. cbn [fx_stmt]. unfold mkinfo. rewrite Hl. fteq.
Qed.

Lemma fstmt_ife2 c1 c2 e c3 t c4 s' : FStmtOK s' -> FStmtOK (FIfE2 c1 c2 e c3 t c4 s').
Proof.
  intros IHs k r rest fuel Hr Hf Hok H Hfol Hgap. cbn [ffl_stmt] in H. flat_in H. cbn [orig_stmt else_ok open_if] in Hok, Hfol.
  cbn [after_stmt] in Hgap.
  apply andb_prop in Hok. destruct Hok as [Hok Hok2]. apply andb_prop in Hok. destruct Hok as [Hno Hok1].
  apply negb_true_iff in Hno.
  assert (Hl : len (ffl_stmt (FIfE2 c1 c2 e c3 t c4 s')) =
               len c1 + 1 + len c2 + 1 + len (fl_cmp e) + len c3 + 1 + len (fl_stmt t) + len c4 + 1 + len (ffl_stmt s')) by (flens'; lia).
  assert (Hft : open_if t = true -> fol noelse (cm c4 ++ KElse :: ffl_stmt s' ++ rest)) by (intros Ho; congruence).
  destruct fuel as [|f]; [lia|]. rewrite p_stmt_S. unfold stmt_ref, p_expr. comb.
  rewrite (p_tag_no toks (is_k Semic) k r _ _ _ H eq_refl eq_refl).
  destruct (p_tag_at toks (is_k KIf) k r _ _ _ H eq_refl) as (t1 & _ & E1). rewrite E1; ifs; norm.
  apply at_cm_cons in H.
  destruct (p_tag_at toks (is_k LParen) _ r _ _ _ H eq_refl) as (t2 & _ & E2). rewrite E2; ifs; norm.
  apply at_cm_cons in H.
  rewrite (cmp_ok toks e _ _ _ f (le_n _) ltac:(lia) H (fol_here fol_cmp c3 RParen _ eq_refl eq_refl)). norm.
  apply at_app in H.
  destruct (p_tag_at toks (is_k RParen) _ r _ _ _ H eq_refl) as (t3 & _ & E3). rewrite E3; ifs; norm.
  apply at_cm_cons in H.
  rewrite (proj1 (stmt_all toks) t _ _ (cm c4 ++ KElse :: ffl_stmt s' ++ rest) f (le_n _)) by side. norm.
  apply at_app in H.
  destruct (p_tag_at toks (is_k KElse) _ r _ _ _ H eq_refl) as (t4 & _ & E4). rewrite E4; ifs; norm.
  apply at_cm_cons in H.
  rewrite (IHs _ _ rest f (le_n _)) by side. norm.
  rewrite !Nat.sub_diag. cbn [fx_stmt]. unfold mkinfo. rewrite Hl. fteq.
Qed.

Lemma fstmt_whl c1 c2 e c3 b : FStmtOK b -> FStmtOK (FWhl c1 c2 e c3 b).
Proof.
  intros IHb k r rest fuel Hr Hf Hok H Hfol Hgap. cbn [ffl_stmt] in H. flat_in H. cbn [orig_stmt else_ok open_if] in Hok, Hfol.
  cbn [after_stmt] in Hgap.
  assert (Hl : len (ffl_stmt (FWhl c1 c2 e c3 b)) = len c1 + 1 + len c2 + 1 + len (fl_cmp e) + len c3 + 1 + len (ffl_stmt b)) by (flens'; lia).
  destruct fuel as [|f]; [lia|]. rewrite p_stmt_S. unfold stmt_ref, p_expr. comb.
  rewrite (p_tag_no toks (is_k Semic) k r _ _ _ H eq_refl eq_refl).
  rewrite (p_tag_no toks (is_k KIf) k r _ _ _ H eq_refl eq_refl).
  destruct (p_tag_at toks (is_k KWhile) k r _ _ _ H eq_refl) as (t1 & _ & E1). rewrite E1; ifs; norm.
  apply at_cm_cons in H.
  destruct (p_tag_at toks (is_k LParen) _ r _ _ _ H eq_refl) as (t2 & _ & E2). rewrite E2; ifs; norm.
  apply at_cm_cons in H.
  rewrite (cmp_ok toks e _ _ _ f (le_n _) ltac:(lia) H (fol_here fol_cmp c3 RParen _ eq_refl eq_refl)). norm.
  apply at_app in H.
  destruct (p_tag_at toks (is_k RParen) _ r _ _ _ H eq_refl) as (t3 & _ & E3). rewrite E3; ifs; norm.
  apply at_cm_cons in H.
  rewrite (IHb _ _ rest f (le_n _)) by side. norm.
  rewrite !Nat.sub_diag. cbn [fx_stmt]. unfold mkinfo. rewrite Hl. fteq.
Qed.

Lemma fx_stmts_len o b : len (fx_stmts o b) <= len (ffl_stmts b).
Proof.
  revert o. induction b as [s r|s r IH]; intros o; cbn [fx_stmts ffl_stmts length]; rewrite app_length.
  - pose proof (x_stmts_len (o + len (ffl_stmt s)) r). pose proof (proj1 ffl_pos s). lia.
  - pose proof (stmt_len_pos s). specialize (IH (o + len (fl_stmt s))). lia.
Qed.

Lemma fstmt_blk c1 b c2 : FStmtsOK b -> FStmtOK (FBlk c1 b c2).
Proof.
  intros IHb k r rest fuel Hr Hf Hok H Hfol Hgap. cbn [ffl_stmt] in H. flat_in H. cbn [orig_stmt else_ok] in Hok.
  cbn [after_stmt] in Hgap.
  assert (Hl : len (ffl_stmt (FBlk c1 b c2)) = len c1 + 1 + len (ffl_stmts b) + len c2 + 1) by (flens'; lia).
  destruct fuel as [|f]; [lia|]. rewrite p_stmt_S. comb.
  rewrite (p_tag_no toks (is_k Semic) k r _ _ _ H eq_refl eq_refl).
  rewrite (p_tag_no toks (is_k KIf) k r _ _ _ H eq_refl eq_refl).
  rewrite (p_tag_no toks (is_k KWhile) k r _ _ _ H eq_refl eq_refl).
  destruct (p_tag_at toks (is_k LCurly) k r _ _ _ H eq_refl) as (t1 & _ & E1). rewrite E1; ifs; norm.
  apply at_cm_cons in H.
  pose proof (IHb (k + len c1 + 1) r _ f ltac:(lia) ltac:(lia) Hok H (fol_here (is_k RCurly) c2 RCurly rest eq_refl eq_refl) Hgap) as Hst.
  apply at_app in H.
  destruct (stmt_no_rcurly toks (k + len c1 + 1 + len (ffl_stmts b)) (k + len c1 + 1 + len (ffl_stmts b)) _ _ f H ltac:(lia)) as (e0 & Ee0).
  assert (Ee : stmt_ref toks f (mk (k + len c1 + 1 + len (ffl_stmts b)) r) = PErr (set_refp e0 r)).
  { unfold stmt_ref. comb. now rewrite Ee0. }
  pose proof (fx_stmts_len (k + len c1 + 1 - r) b) as Hn.
  rewrite (many0_steps' _ _ _ _ _ f Hst Ee ltac:(lia)). norm.
  destruct (p_tag_at toks (is_k RCurly) _ r _ _ _ H eq_refl) as (t2 & _ & E2). rewrite E2; ifs; norm.
  cbn [fx_stmt]. unfold mkinfo. rewrite Hl. fteq.
Qed.

Lemma steps_app {A} (p : parser A) s l1 s1 l2 s2 : steps p s l1 s1 -> steps p s1 l2 s2 -> steps p s (l1 ++ l2) s2.
Proof. induction 1 as [s|s sa s1 a l Hp Hne Hs IH]; intros H2; cbn [app]; [exact H2|]. econstructor; eauto. Qed.

Lemma fstmts_here s b : FStmtOK s -> FStmtsOK (FHere s b).
Proof.
  intros IHs k r rest f Hr Hf Hok H Hfol Hgap. cbn [ffl_stmts] in *. rewrite app_length in *. flat_in H.
  cbn [orig_stmts else_oks] in Hok. apply andb_prop in Hok. destruct Hok as [Hok1 Hok2]. cbn [after_stmts] in Hgap.
  pose proof (proj1 ffl_pos s) as Hp. pose proof (fun _ : open_if (orig_stmt s) = true => stmts_follow b rest Hfol) as Hfs.
  cbn [fx_stmts]. eapply steps_cons with (s1 := mk (k + len (ffl_stmt s)) r).
  - unfold stmt_ref. comb. rewrite (IHs k k (fl_stmts b ++ rest) f (le_n _)) by side. norm. now rewrite Nat.sub_diag.
  - cbn [pos]. lia.
  - apply at_app in H. pose proof (stmts_ok toks b (k + len (ffl_stmt s)) r rest f ltac:(lia) ltac:(lia) Hok2 H Hfol) as Hb.
    replace (k + len (ffl_stmt s) - r) with (k - r + len (ffl_stmt s)) in Hb by lia.
    now rewrite Nat.add_assoc.
Qed.

Lemma fstmts_later s b : FStmtsOK b -> FStmtsOK (FLater s b).
Proof.
  intros IHb k r rest f Hr Hf Hok H Hfol Hgap. cbn [ffl_stmts] in *. rewrite app_length in *. flat_in H.
  cbn [orig_stmts else_oks] in Hok. apply andb_prop in Hok. destruct Hok as [Hok1 Hok2]. cbn [after_stmts] in Hgap.
  pose proof (stmt_len_pos s) as Hp.
  pose proof (fun _ : open_if s = true => fstmts_follow b rest) as Hfs.
  cbn [fx_stmts]. eapply steps_cons with (s1 := mk (k + len (fl_stmt s)) r).
  - unfold stmt_ref. comb. rewrite (proj1 (stmt_all toks) s k k (ffl_stmts b ++ rest) f (le_n _)) by side. norm. now rewrite Nat.sub_diag.
  - cbn [pos]. lia.
  - apply at_app in H. specialize (IHb (k + len (fl_stmt s)) r rest f ltac:(lia) ltac:(lia) Hok2 H Hfol Hgap).
    replace (k + len (fl_stmt s) - r) with (k - r + len (fl_stmt s)) in IHb by lia.
    now rewrite Nat.add_assoc.
Qed.

End FStmt.

Theorem fstmt_all toks : (forall s, FStmtOK toks s) /\ (forall b, FStmtsOK toks b).
Proof.
  apply fstmt_mutind.
  - apply fstmt_asg.
  - apply fstmt_cal.
  - intros; now apply fstmt_ift.
  - intros; now apply fstmt_ife1.
  - intros; now apply fstmt_ife2.
  - intros; now apply fstmt_whl.
  - intros; now apply fstmt_blk.
  - intros; now apply fstmts_here.
  - intros; now apply fstmts_later.
Qed.

Lemma fstmts_ok toks b : FStmtsOK toks b.
Proof. apply fstmt_all. Qed.
