(* C01, positive part: a class of edits for which the tree layer HOLDS.

   BLANK EDITS on a syntactically valid text: the change is such that lexer::update reports an empty
   TokenChange - no token deleted, none inserted, only positions shift (white space typed or removed
   in a gap between tokens, away from the look-ahead of the token before it).  Then the new token
   vector has the kinds of the old one (C07: the window is truthful), the scratch tree of the new
   text is the old tree (the parser reads kinds only), and parser::update returns exactly that tree
   (Proofs/IncPositiveProg.v `inc_empty_change`), provided
     - the old tree carries no parse error, and
     - no comment stands directly before a comma (parse_list re-wraps old list elements with inner
       offset 1).
   Both side conditions are necessary, and so is the emptiness of the change: see the witnesses
   `blank_*_witness` below (evaluated in Props/C01.v).

   Everything is stated with decidable predicates on (old text, changes): [clean_textb], [blank_histb]. *)
From Coq Require Import List Arith Lia.
From Spl Require Import Model.Update Model.Errors Spec.LexUpdateSpec Proofs.LexUpdateProofs Proofs.UpdateProofs
  Proofs.FormatProofs Proofs.ParseKinds Proofs.ParserComb Proofs.UpdateDocProofsStrip Proofs.UpdateDocProofs
  Proofs.IncPositiveList Proofs.IncPositiveProg.
Import ListNotations.
Local Open Scope nat_scope.

(* ---- an empty truthful window: same kinds ---- *)
Lemma shift_token_tk i d t u : shift_token_signed i d t = Some u -> tk u = tk t.
Proof.
  unfold shift_token_signed. destruct (shift_signed i d (ts t)); [|discriminate].
  destruct (shift_signed i d (te t)); [|discriminate]. destruct (map_opt _ (terr t)); [|discriminate].
  intros [= <-]. reflexivity.
Qed.

Lemma map_opt_shift_kinds i d : forall l l', map_opt (shift_token_signed i d) l = Some l' -> map tk l' = map tk l.
Proof.
  induction l as [|t l IH]; intros l' H; cbn [map_opt] in H; [injection H as <-; reflexivity|].
  destruct (shift_token_signed i d t) as [u|] eqn:Eu; [|discriminate].
  destruct (map_opt (shift_token_signed i d) l) as [r|] eqn:Er; [|discriminate]. injection H as <-.
  cbn [map]. rewrite (shift_token_tk _ _ _ _ Eu), (IH r eq_refl). reflexivity.
Qed.

Lemma truthful_empty_kinds told tnew w i d : Truthful told tnew w w 0 i d -> same_kinds told tnew.
Proof.
  intros (H1 & _ & _ & _ & H5). unfold same_kinds. rewrite Nat.add_0_r in H5.
  rewrite <- (firstn_skipn w told), <- (firstn_skipn w tnew), !map_app, H1, (map_opt_shift_kinds _ _ _ _ H5). reflexivity.
Qed.

Lemma NCC_kinds t1 t2 : same_kinds t1 t2 -> NCC t1 -> NCC t2.
Proof.
  intros Hk H p Hla. rewrite <- (la_tag_kinds t1 t2 Hk) in Hla. rewrite <- (comments_at_kinds t1 t2 Hk). exact (H p Hla).
Qed.

(* ---- the side condition on commas, decidably ---- *)
Fixpoint no_ccb (l : list token) : bool :=
  match l with
  | t :: r => match r with
              | u :: _ => negb (is_comment (tk t) && is_k Comma (tk u)) && no_ccb r
              | [] => true
              end
  | [] => true
  end.

Lemma no_ccb_adjacent : forall l i t u, no_ccb l = true -> nth_error l i = Some t -> nth_error l (S i) = Some u ->
  is_comment (tk t) && is_k Comma (tk u) = false.
Proof.
  induction l as [|x l IH]; intros i t u H Ht Hu; [destruct i; discriminate|].
  destruct l as [|y l']; [destruct i; cbn in Hu; [discriminate | destruct i; discriminate]|].
  cbn [no_ccb] in H. apply andb_true_iff in H as [H1 H2]. destruct i as [|i].
  - cbn in Ht, Hu. injection Ht as <-. injection Hu as <-. apply negb_true_iff in H1. exact H1.
  - cbn [nth_error] in Ht, Hu. exact (IH i t u H2 Ht Hu).
Qed.

Lemma no_ccb_NCC toks : no_ccb toks = true -> NCC toks.
Proof.
  intros H p Hla. rewrite la_tag_spec in Hla.
  destruct (nth_error toks (sig_at toks p)) as [u|] eqn:Eu; [|discriminate].
  destruct (comments_at toks p) as [|c cs] eqn:Ec; [reflexivity|]. exfalso.
  assert (Hsig : sig_at toks p = S (p + length cs)) by (unfold sig_at; rewrite Ec; cbn [length]; lia).
  destruct (sig_at_comment toks p (p + length cs)) as (t & Ht & Hc); [lia|].
  rewrite Hsig in Eu. pose proof (no_ccb_adjacent toks _ t u H Ht Eu) as X. rewrite Hc, Hla in X. discriminate X.
Qed.

(* ---- one blank edit ---- *)
Lemma blank_parse_update old told a d b ins toks w p :
  lex (a ++ d ++ b) = Some told -> parse told = Done p -> tree_errors p = [] -> NCC told -> strip_program old = p ->
  lex_update (a ++ ins ++ b) told (blen a) (blen a + blen d) ins = UDone toks w w 0 ->
  lex (a ++ ins ++ b) = Some toks /\ same_kinds told toks /\ parse toks = Done p /\ parse_update old toks w w 0 = Done p.
Proof.
  intros Hl Hp Hc Hn Hs Hu.
  destruct (lex_update_correct a d b ins told Hl) as (tn & ds & de & n & Hnew & Hu' & Htr).
  rewrite Hu in Hu'. injection Hu' as <- <- <- <-.
  pose proof (truthful_empty_kinds _ _ _ _ _ Htr) as Hk.
  assert (Hp' : parse toks = Done p) by (rewrite <- (parse_kinds told toks Hk); exact Hp).
  repeat split; [exact Hnew | exact Hk | exact Hp' |].
  exact (inc_empty_change old toks w p (NCC_kinds _ _ Hk Hn) Hp' Hc Hs).
Qed.

Definition CleanDoc (doc : pdoc) : Prop :=
  lex (p_text doc) = Some (p_toks doc) /\ parse (p_toks doc) = Done (p_tree doc) /\
  tree_errors (p_tree doc) = [] /\ NCC (p_toks doc).

Definition blank_change (doc : pdoc) (c : tchange) : Prop :=
  p_text doc = c_a c ++ c_d c ++ c_b c /\
  exists toks w,
    lex_update (c_a c ++ c_ins c ++ c_b c) (p_toks doc) (blen (c_a c)) (blen (c_a c) + blen (c_d c)) (c_ins c) = UDone toks w w 0.

Theorem blank_step doc c :
  CleanDoc doc -> blank_change doc c ->
  exists doc', pstep doc (c_a c) (c_d c) (c_b c) (c_ins c) = Done doc' /\
               pnew (c_a c ++ c_ins c ++ c_b c) = Done doc' /\ CleanDoc doc' /\ p_tree doc' = p_tree doc.
Proof.
  intros (Hl & Hp & Hc & Hn) (Ht & toks & w & Hu). rewrite Ht in Hl.
  assert (Hs : strip_program (p_tree doc) = p_tree doc) by (apply strip_program_id, (parse_parse_only _ _ Hp)).
  destruct (blank_parse_update (p_tree doc) _ _ _ _ _ toks w _ Hl Hp Hc Hn Hs Hu) as (A & K & B & C).
  exists {| p_text := c_a c ++ c_ins c ++ c_b c; p_toks := toks; p_tree := p_tree doc |}.
  split; [unfold pstep; rewrite Hu, C; reflexivity|]. split; [unfold pnew; rewrite A, B; reflexivity|].
  split; [|reflexivity]. unfold CleanDoc. cbn [p_text p_toks p_tree]. repeat split; [exact A | exact B | exact Hc | exact (NCC_kinds _ _ K Hn)].
Qed.

(* ---- histories of blank edits ---- *)
Fixpoint blank_hist (doc : pdoc) (h : list tchange) : Prop :=
  match h with
  | [] => True
  | c :: r => blank_change doc c /\
              forall doc', pnew (c_a c ++ c_ins c ++ c_b c) = Done doc' -> blank_hist doc' r
  end.

Theorem blank_history : forall h doc,
  CleanDoc doc -> pnew (p_text doc) = Done doc -> blank_hist doc h ->
  exists doc', phist doc h = Done doc' /\ pnew (final_text (p_text doc) h) = Done doc' /\ p_tree doc' = p_tree doc /\ CleanDoc doc'.
Proof.
  induction h as [|c r IH]; intros doc Hc Hn Hb.
  - exists doc. cbn [phist final_text]. auto.
  - destruct Hb as [Hb1 Hb2]. destruct (blank_step doc c Hc Hb1) as (d1 & E1 & N1 & C1 & T1).
    assert (Ht1 : p_text d1 = c_a c ++ c_ins c ++ c_b c).
    { unfold pnew in N1. destruct (lex _); [|discriminate]. destruct (parse _); try discriminate. injection N1 as <-. reflexivity. }
    rewrite <- Ht1 in N1. destruct (IH d1 C1 N1 (Hb2 d1 ltac:(rewrite <- Ht1; exact N1))) as (d2 & E2 & N2 & T2 & C2).
    exists d2. cbn [phist final_text]. rewrite E1. rewrite <- Ht1. split; [exact E2|]. split; [exact N2|]. split; [congruence | exact C2].
Qed.

(* ---- decidable versions: predicates on the old text and the changes only ---- *)
Definition clean_textb (t : text) : bool :=
  match pnew t with
  | Done d => match tree_errors (p_tree d) with [] => no_ccb (p_toks d) | _ :: _ => false end
  | _ => false
  end.

Definition blank_changeb (t : text) (c : tchange) : bool :=
  text_eqb t (c_a c ++ c_d c ++ c_b c) &&
  match lex t with
  | Some told =>
      match lex_update (c_a c ++ c_ins c ++ c_b c) told (blen (c_a c)) (blen (c_a c) + blen (c_d c)) (c_ins c) with
      | UDone _ ws we n => Nat.eqb ws we && Nat.eqb n 0
      | _ => false
      end
  | None => false
  end.

Fixpoint blank_histb (t : text) (h : list tchange) : bool :=
  match h with
  | [] => true
  | c :: r => blank_changeb t c && blank_histb (c_a c ++ c_ins c ++ c_b c) r
  end.

Lemma clean_textb_spec t : clean_textb t = true -> exists doc, pnew t = Done doc /\ CleanDoc doc /\ p_text doc = t.
Proof.
  unfold clean_textb. destruct (pnew t) as [d| |] eqn:E; try discriminate.
  destruct (tree_errors (p_tree d)) eqn:Et; [|discriminate]. intros H. exists d. split; [reflexivity|].
  destruct (pnew_inv _ _ E) as [Ht Hi]. split; [|exact Ht]. unfold CleanDoc.
  unfold pnew in E. rewrite <- Ht in E. rewrite Hi in E. destruct (parse (p_toks d)) as [p| |] eqn:Ep; try discriminate.
  injection E as E. apply (f_equal p_tree) in E. cbn [p_tree] in E. subst p.
  split; [exact Hi|]. split; [first [exact Ep | reflexivity]|]. split; [exact Et | exact (no_ccb_NCC _ H)].
Qed.

Lemma blank_changeb_spec doc c : lex (p_text doc) = Some (p_toks doc) -> blank_changeb (p_text doc) c = true -> blank_change doc c.
Proof.
  unfold blank_changeb. intros Hl H. apply andb_true_iff in H as [H1 H2]. apply text_eqb_eq in H1. rewrite Hl in H2.
  split; [exact H1|].
  destruct (lex_update _ _ _ _ _) as [toks ws we n| |]; try discriminate.
  apply andb_true_iff in H2 as [A B]. apply Nat.eqb_eq in A, B. subst. eauto.
Qed.

Lemma blank_histb_spec : forall h doc, lex (p_text doc) = Some (p_toks doc) -> blank_histb (p_text doc) h = true -> blank_hist doc h.
Proof.
  induction h as [|c r IH]; intros doc Hl H; cbn [blank_histb blank_hist] in *; [exact I|].
  apply andb_true_iff in H as [H1 H2]. split; [exact (blank_changeb_spec doc c Hl H1)|].
  intros d' Hn. destruct (pnew_inv _ _ Hn) as [Ht Hi]. apply IH; [exact Hi | rewrite Ht; exact H2].
Qed.

(* C01 for blank edits: after ANY history of blank edits of a syntactically valid text, the
   incrementally updated document (text, tokens, tree) IS the freshly analysed one *)
Theorem blank_edits_fresh t h :
  clean_textb t = true -> blank_histb t h = true ->
  exists doc0 doc', pnew t = Done doc0 /\ valid_hist t h /\ phist doc0 h = Done doc' /\ pnew (final_text t h) = Done doc'.
Proof.
  intros Hc Hb. destruct (clean_textb_spec t Hc) as (doc0 & Hn & Hcd & Ht).
  assert (Hv : valid_hist t h).
  { clear - Hb. revert t Hb. induction h as [|c r IH]; intros t Hb; cbn [valid_hist blank_histb] in *; [exact I|].
    apply andb_true_iff in Hb as [H1 H2]. unfold blank_changeb in H1. apply andb_true_iff in H1 as [H1 _].
    apply text_eqb_eq in H1. split; [exact H1 | exact (IH _ H2)]. }
  destruct Hcd as (Hl & Hrest). rewrite <- Ht in Hb, Hn.
  destruct (blank_history h doc0 (conj Hl Hrest) Hn (blank_histb_spec h doc0 Hl Hb)) as (doc' & E & N & _ & _).
  rewrite Ht in *. exists doc0, doc'. auto.
Qed.
