(* Lemmas about the formatter model (Model/Format.v) behind Props/C09.v, C10.v, C11.v. *)
From Coq Require Import String.
From Spl Require Import Model.Format Model.Lexer.
From Spl Require Model.Doc Proofs.DocProofs.
Import ListNotations.
Local Open Scope N_scope.

(* ================================================================================================
   1. The handler: null / whole-document edit
   ================================================================================================ *)

(* the text the formatter prints for a document (lex, parse, fmt) *)
Definition formatted_text (doc : text) (insert_spaces : bool) (tab_size : N) : outcome text :=
  match lex doc with
  | None => OutOfFuel
  | Some toks =>
      match parse toks with
      | Panic => Panic
      | OutOfFuel => OutOfFuel
      | Done p =>
          match fmt_program (options_of insert_spaces tab_size) p toks with
          | FPanic => Panic
          | FOk t => Done t
          end
      end
  end.

Definition whole_document (doc : text) : pos_range := ((0, 0), Doc.as_position (blen doc) doc).

Lemma text_eqb_refl a : text_eqb a a = true.
Proof. apply text_eqb_eq. reflexivity. Qed.

Lemma text_eqb_neq a b : text_eqb a b = false <-> a <> b.
Proof.
  split.
  - intros H E. subst. rewrite text_eqb_refl in H. discriminate.
  - intros H. destruct (text_eqb a b) eqn:E; [|reflexivity]. apply text_eqb_eq in E. contradiction.
Qed.

Lemma as_position_0 doc : Doc.as_position 0 doc = (0, 0).
Proof. unfold Doc.as_position. destruct doc; reflexivity. Qed.

Lemma format_request_spec doc ins ts :
  format_request doc ins ts =
  match formatted_text doc ins ts with
  | Done t => if text_eqb t doc then Done None else Done (Some (whole_document doc, t))
  | Panic => Panic
  | OutOfFuel => OutOfFuel
  end.
Proof.
  unfold format_request, formatted_text, whole_document.
  destruct (lex doc) as [toks|]; [|reflexivity].
  destruct (parse toks) as [p| |]; try reflexivity.
  destruct (fmt_program _ p toks) as [t|]; [|reflexivity].
  rewrite as_position_0. reflexivity.
Qed.

Theorem null_iff doc ins ts :
  format_request doc ins ts = Done None <-> formatted_text doc ins ts = Done doc.
Proof.
  rewrite format_request_spec. destruct (formatted_text doc ins ts) as [t| |].
  - destruct (text_eqb t doc) eqn:E.
    + apply text_eqb_eq in E. subst. split; reflexivity.
    + apply text_eqb_neq in E. split; [discriminate|]. intros [= ->]. contradiction.
  - split; discriminate.
  - split; discriminate.
Qed.

Theorem edit_iff doc ins ts r new :
  format_request doc ins ts = Done (Some (r, new)) <->
  formatted_text doc ins ts = Done new /\ new <> doc /\ r = whole_document doc.
Proof.
  rewrite format_request_spec. destruct (formatted_text doc ins ts) as [t| |].
  - destruct (text_eqb t doc) eqn:E.
    + apply text_eqb_eq in E. subst. split; [discriminate|]. intros ([= ->] & H & _). contradiction.
    + apply text_eqb_neq in E. split.
      * intros [= <- <-]. repeat split; assumption.
      * intros ([= ->] & _ & ->). reflexivity.
  - split; [discriminate | intros (H & _); discriminate].
  - split; [discriminate | intros (H & _); discriminate].
Qed.

Theorem whole_edit doc ins ts r new :
  format_request doc ins ts = Done (Some (r, new)) ->
  r = ((0, 0), Doc.as_position (blen doc) doc) /\ new <> doc /\ formatted_text doc ins ts = Done new.
Proof. intros H. apply edit_iff in H. unfold whole_document in H. tauto. Qed.

(* exactly one of: null, one whole-document edit, panic, fuel - and never an edit that changes nothing *)
Theorem response_cases doc ins ts :
  match format_request doc ins ts with
  | Done None => formatted_text doc ins ts = Done doc
  | Done (Some (r, new)) => formatted_text doc ins ts = Done new /\ new <> doc /\ r = whole_document doc
  | Panic => formatted_text doc ins ts = Panic
  | OutOfFuel => formatted_text doc ins ts = OutOfFuel
  end.
Proof.
  destruct (format_request doc ins ts) as [[[r new]|]| |] eqn:E.
  - apply edit_iff. exact E.
  - apply null_iff. exact E.
  - rewrite format_request_spec in E. destruct (formatted_text doc ins ts) as [t| |]; try reflexivity; try discriminate.
    destruct (text_eqb t doc); discriminate.
  - rewrite format_request_spec in E. destruct (formatted_text doc ins ts) as [t| |]; try reflexivity; try discriminate.
    destruct (text_eqb t doc); discriminate.
Qed.

(* the range of the edit addresses, under the server's own position -> index conversion (which C08
   proves to be the LSP rule), the byte range 0 .. |doc|: the whole document *)
Theorem whole_document_covers doc :
  let r := whole_document doc in
  Doc.get_insertion_index (fst (fst r)) (snd (fst r)) doc = 0 /\
  Doc.get_insertion_index (fst (snd r)) (snd (snd r)) doc = blen doc.
Proof.
  cbn zeta. unfold whole_document. cbn [fst snd]. split.
  - unfold Doc.get_insertion_index. destruct doc; reflexivity.
  - pose proof (DocProofs.roundtrip doc []) as H. rewrite app_nil_r in H. apply H.
    intros (a' & b' & _ & E). discriminate E.
Qed.

(* ================================================================================================
   2. str::lines and indent
   ================================================================================================ *)

Definition no_nl (s : text) : Prop := ~ In 10 s.

Definition strip_cr (l : text) : text :=
  match rev l with c :: r => if c =? 13 then rev r else l | [] => l end.

(* numeral patterns compile to matches on binary positives; this is the readable form *)
Lemma strip_line_eq piece :
  strip_line piece =
  match rev piece with
  | c :: r => if c =? 10
              then match r with c2 :: r2 => if c2 =? 13 then rev r2 else rev r | [] => rev r end
              else piece
  | [] => piece
  end.
Proof.
  unfold strip_line. destruct (rev piece) as [|c r]; [reflexivity|].
  destruct (c =? 10) eqn:E.
  - apply N.eqb_eq in E. subst. destruct r as [|c2 r2]; [reflexivity|].
    destruct (c2 =? 13) eqn:E2.
    + apply N.eqb_eq in E2. subst. reflexivity.
    + destruct c2 as [|p]; [reflexivity|].
      do 4 (try (destruct p as [p|p|]; try reflexivity)). all: cbn in E2; discriminate.
  - destruct c as [|p]; [reflexivity|].
    do 4 (try (destruct p as [p|p|]; try reflexivity)). all: cbn in E; discriminate.
Qed.

Lemma split_incl_line l rest : no_nl l -> split_incl (l ++ 10 :: rest) = (l ++ [10]) :: split_incl rest.
Proof.
  induction l as [|c l IH]; intros H; cbn [app split_incl].
  - reflexivity.
  - destruct (c =? 10) eqn:E.
    + apply N.eqb_eq in E. subst. exfalso. apply H. left. reflexivity.
    + rewrite IH; [reflexivity|]. intros Hin. apply H. right. exact Hin.
Qed.

Lemma split_incl_last l : no_nl l -> l <> [] -> split_incl l = [l].
Proof.
  induction l as [|c l IH]; intros H Hne; [congruence|]. cbn [split_incl].
  destruct (c =? 10) eqn:E.
  - apply N.eqb_eq in E. subst. exfalso. apply H. left. reflexivity.
  - destruct l as [|d l']; [reflexivity|].
    rewrite IH; [reflexivity | intros Hin; apply H; right; exact Hin | discriminate].
Qed.

(* everything in front of a newline is split independently of what follows it *)
Lemma split_incl_app_nl a b : split_incl (a ++ 10 :: b) = split_incl (a ++ [10]) ++ split_incl b.
Proof.
  induction a as [|c a IH]; cbn [app split_incl].
  - reflexivity.
  - destruct (c =? 10).
    + rewrite IH. reflexivity.
    + rewrite IH. destruct (split_incl (a ++ [10])) as [|l ls] eqn:E.
      * exfalso. destruct a; cbn in E; [discriminate|].
        destruct (n =? 10); [discriminate|]. destruct (split_incl (a ++ [10])); discriminate.
      * reflexivity.
Qed.

Lemma lines_app_nl a b : lines (a ++ 10 :: b) = lines (a ++ [10]) ++ lines b.
Proof. unfold lines. rewrite split_incl_app_nl, map_app. reflexivity. Qed.

Definition nl_terminated (s : text) : Prop := s = [] \/ exists s', s = s' ++ [10].

Lemma lines_app_terminated a b : nl_terminated a -> lines (a ++ b) = lines a ++ lines b.
Proof.
  intros [->|[a' ->]]; [reflexivity|].
  rewrite <- app_assoc. cbn [app]. apply lines_app_nl.
Qed.

Lemma nl_terminated_app a b : nl_terminated a -> nl_terminated b -> nl_terminated (a ++ b).
Proof.
  intros Ha [->|[b' ->]]; [rewrite app_nil_r; exact Ha|].
  right. exists (a ++ b'). rewrite app_assoc. reflexivity.
Qed.

Lemma strip_line_nl l : no_nl l -> strip_line (l ++ [10]) = strip_cr l.
Proof.
  intros H. rewrite strip_line_eq. unfold strip_cr. rewrite rev_app_distr. cbn [rev app].
  rewrite N.eqb_refl. destruct (rev l) as [|c r] eqn:E.
  - destruct l; [reflexivity|]. apply (f_equal (@rev _)) in E. rewrite rev_involutive in E. discriminate.
  - destruct (c =? 13); [reflexivity|]. rewrite <- E. apply rev_involutive.
Qed.

Lemma strip_line_no_nl l : no_nl l -> strip_line l = l.
Proof.
  intros H. rewrite strip_line_eq. destruct (rev l) as [|c r] eqn:E; [reflexivity|].
  destruct (c =? 10) eqn:E10; [|reflexivity].
  apply N.eqb_eq in E10. subst. exfalso. apply H. apply in_rev.
  assert (Hin : In 10 (rev l)) by (rewrite E; left; reflexivity). exact Hin.
Qed.

Lemma no_nl_app a b : no_nl a -> no_nl b -> no_nl (a ++ b).
Proof. unfold no_nl. intros Ha Hb Hin. apply in_app_or in Hin. tauto. Qed.

Lemma no_nl_repeat c n : c <> 10 -> no_nl (repeat c n).
Proof. intros Hc Hin. apply repeat_spec in Hin. congruence. Qed.

(* the lines of a text never contain a newline *)
Lemma split_incl_pieces s : forall p, In p (split_incl s) -> (no_nl p /\ p <> []) \/ exists l, no_nl l /\ p = l ++ [10].
Proof.
  induction s as [|c s IH]; cbn [split_incl]; [intros p []|].
  destruct (c =? 10) eqn:E.
  - apply N.eqb_eq in E. subst. intros p [<-|Hin]; [|apply IH; exact Hin].
    right. exists []. split; [intros []|reflexivity].
  - apply N.eqb_neq in E. destruct (split_incl s) as [|l ls] eqn:Es.
    + intros p [<-|[]]. left. split; [|discriminate]. intros [H|[]]. congruence.
    + intros p [<-|Hin]; [|apply IH; right; exact Hin].
      destruct (IH l (or_introl eq_refl)) as [[Hn _]|[l' [Hn ->]]].
      * left. split; [|discriminate]. intros [H|H]; [congruence|]. apply Hn. exact H.
      * right. exists (c :: l'). split; [|reflexivity]. intros [H|H]; [congruence|]. apply Hn. exact H.
Qed.

Lemma strip_cr_no_nl l : no_nl l -> no_nl (strip_cr l).
Proof.
  intros H. unfold strip_cr. destruct (rev l) as [|c r] eqn:E; [exact H|].
  destruct (c =? 13); [|exact H].
  intros Hin. apply H. assert (l = rev r ++ [c]) as -> by (rewrite <- (rev_involutive l), E; reflexivity).
  apply in_or_app. left. exact Hin.
Qed.

Lemma lines_no_nl s : Forall no_nl (lines s).
Proof.
  unfold lines. apply Forall_forall. intros l Hin. apply in_map_iff in Hin. destruct Hin as (p & <- & Hp).
  destruct (split_incl_pieces s p Hp) as [[Hn _]|[l' [Hn ->]]].
  - rewrite strip_line_no_nl; assumption.
  - rewrite strip_line_nl by assumption. apply strip_cr_no_nl. exact Hn.
Qed.

Section Indent.
Variable f : fopts.
Hypothesis sym_not_nl : ind_sym f <> 10.
Hypothesis sym_not_cr : ind_sym f <> 13.

Lemma strip_cr_no_cr (l : text) : ~ In 13 l -> strip_cr l = l.
Proof.
  intros H. unfold strip_cr. destruct (rev l) as [|c r] eqn:E; [reflexivity|].
  destruct (c =? 13) eqn:E13; [|reflexivity]. apply N.eqb_eq in E13. subst. exfalso. apply H.
  assert (l = rev r ++ [13]) as -> by (rewrite <- (rev_involutive l), E; reflexivity).
  apply in_or_app. right. left. reflexivity.
Qed.

Lemma strip_cr_unit (l : text) : strip_cr (indentation f ++ l) = indentation f ++ strip_cr l.
Proof.
  destruct l as [|x l'] using rev_ind.
  - rewrite app_nil_r. rewrite strip_cr_no_cr; [cbn; rewrite app_nil_r; reflexivity|].
    unfold indentation. intros Hin. apply repeat_spec in Hin. congruence.
  - unfold strip_cr. rewrite app_assoc, !rev_app_distr. cbn [rev app].
    destruct (x =? 13); rewrite <- ?rev_app_distr, ?rev_involutive, <- ?app_assoc; reflexivity.
Qed.

Lemma indent_of_lines ls :
  Forall no_nl ls ->
  lines (flat_map (fun line => indentation f ++ line ++ [10]) ls) = map (fun l => indentation f ++ strip_cr l) ls.
Proof.
  induction 1 as [|l ls Hl Hls IH]; [reflexivity|]. cbn [flat_map map].
  rewrite lines_app_terminated.
  - rewrite IH. f_equal. unfold lines. rewrite app_assoc.
    assert (Hn : no_nl (indentation f ++ l)) by (apply no_nl_app; [apply no_nl_repeat; exact sym_not_nl | exact Hl]).
    replace ((indentation f ++ l) ++ [10]) with ((indentation f ++ l) ++ 10 :: []) by reflexivity.
    rewrite split_incl_line by exact Hn. cbn [split_incl map].
    rewrite strip_line_nl by exact Hn. rewrite strip_cr_unit. reflexivity.
  - right. exists (indentation f ++ l). rewrite app_assoc. reflexivity.
Qed.

(* every line produced by `indent` is the indentation unit followed by the original line *)
Theorem indent_lines s : lines (indent s f) = map (fun l => indentation f ++ strip_cr l) (lines s).
Proof. unfold indent. apply indent_of_lines. apply lines_no_nl. Qed.

Theorem indent_unit s : Forall (fun l => exists rest, l = indentation f ++ rest) (lines (indent s f)).
Proof.
  rewrite indent_lines. apply Forall_forall. intros l Hin. apply in_map_iff in Hin.
  destruct Hin as (l0 & <- & _). eexists. reflexivity.
Qed.

Lemma indent_terminated s : nl_terminated (indent s f).
Proof.
  unfold indent. induction (lines s) as [|l ls IH]; [left; reflexivity|]. cbn [flat_map].
  apply nl_terminated_app; [|exact IH]. right. exists (indentation f ++ l). rewrite app_assoc. reflexivity.
Qed.

End Indent.

(* the options a client can send always give a legal unit: tab_size spaces or one tab *)
Lemma options_sym ins ts : ind_sym (options_of ins ts) <> 10 /\ ind_sym (options_of ins ts) <> 13.
Proof. unfold options_of. destruct ins; cbn; split; discriminate. Qed.

Definition unit_of (ins : bool) (ts : N) : text := if ins then repeat 32 (N.to_nat ts) else [9].

Lemma indentation_options ins ts : indentation (options_of ins ts) = unit_of ins ts.
Proof. unfold options_of, unit_of. destruct ins; reflexivity. Qed.

(* ================================================================================================
   3. The structure of printed statements
   ================================================================================================ *)

Section StmtEq.
Variable f : fopts.

(* fn fmt_branch, as a top-level function (the model defines it locally inside fmt_stmt) *)
Definition fmt_branch (br : option (stmt * nat)) (toks : list token) (ending : char) : fres :=
  match br with
  | None => FOk [ending]
  | Some (x, off) =>
      with_from off toks (fun t' =>
        match x with
        | SBlock body _ =>
            match body with
            | [] => FOk (str " {}" ++ [10])
            | _ => do ss <- fmt_stmts f body t'; FOk (str " {" ++ [10] ++ indent ss f ++ [125] ++ [ending])
            end
        | _ => do st <- fmt_stmt f x t'; FOk ([10] ++ indent st f)
        end)
  end.

Lemma branch_eq br toks ending :
  match br with
  | None => FOk [ending]
  | Some (x, off) =>
      with_from off toks (fun t' =>
        match x with
        | SBlock body _ =>
            match body with
            | [] => FOk (str " {}" ++ [10])
            | _ =>
                do ss <- fconcat (fun xo : stmt * nat => with_from (snd xo) t' (fun t'' => fmt_stmt f (fst xo) t'')) body;
                FOk (str " {" ++ [10] ++ indent ss f ++ [125] ++ [ending])
            end
        | _ => do st <- fmt_stmt f x t'; FOk ([10] ++ indent st f)
        end)
  end = fmt_branch br toks ending.
Proof. reflexivity. Qed.

Lemma fmt_stmt_block body inf toks :
  fmt_stmt f (SBlock body inf) toks =
  (do st <- match body with
            | [] => FOk (str "{}" ++ [10])
            | _ => do ss <- fmt_stmts f body toks; FOk (str "{" ++ [10] ++ indent ss f ++ str "}" ++ [10])
            end;
   with_slice inf toks (fun sl => FOk (add_leading_comments st sl))).
Proof. reflexivity. Qed.

Lemma fmt_stmt_while c b inf toks :
  fmt_stmt f (SWhile c b inf) toks =
  (do cond <- fmt_ref_expr c toks;
   do br <- fmt_branch b toks 10;
   with_slice inf toks (fun sl => FOk (add_leading_comments (str "while (" ++ cond ++ [41] ++ br) sl))).
Proof. reflexivity. Qed.

Lemma fmt_stmt_if c t e inf toks :
  fmt_stmt f (SIf c t e inf) toks =
  (do cond <- fmt_ref_expr c toks;
   do st <- match e with
            | None => do b <- fmt_branch t toks 10; FOk (str "if (" ++ cond ++ [41] ++ b)
            | Some (x, off) =>
                match x with
                | SIf _ _ _ _ =>
                    do b <- fmt_branch t toks 32;
                    do ei <- with_from off toks (fun t' => fmt_stmt f x t');
                    FOk (str "if (" ++ cond ++ [41] ++ b ++ str "else " ++ ei)
                | _ =>
                    do b <- fmt_branch t toks 32;
                    do b2 <- fmt_branch e toks 10;
                    FOk (str "if (" ++ cond ++ [41] ++ b ++ str "else" ++ b2)
                end
            end;
   with_slice inf toks (fun sl => FOk (add_leading_comments st sl))).
Proof. destruct e as [[x off]|]; [|reflexivity]. destruct x; reflexivity. Qed.

End StmtEq.

(* ---- structural induction over statements (nested through option and list) ---- *)
Section StmtInd.
Variable P : stmt -> Prop.
Hypothesis HEmpty : forall inf, P (SEmpty inf).
Hypothesis HAssign : forall v e inf, P (SAssign v e inf).
Hypothesis HCall : forall n a inf, P (SCall n a inf).
Hypothesis HIf : forall c t e inf,
  (forall x off, t = Some (x, off) -> P x) -> (forall x off, e = Some (x, off) -> P x) -> P (SIf c t e inf).
Hypothesis HWhile : forall c b inf, (forall x off, b = Some (x, off) -> P x) -> P (SWhile c b inf).
Hypothesis HBlock : forall body inf, (forall x off, In (x, off) body -> P x) -> P (SBlock body inf).
Hypothesis HError : forall inf, P (SError inf).

Lemma stmt_ind' : forall s, P s.
Proof.
  fix IH 1. intros [inf|v e inf|n a inf|c t e inf|c b inf|body inf|inf].
  - apply HEmpty.
  - apply HAssign.
  - apply HCall.
  - apply HIf.
    + intros x off E. destruct t as [[y o]|]; [injection E as <- <-; apply IH | discriminate].
    + intros x off E. destruct e as [[y o]|]; [injection E as <- <-; apply IH | discriminate].
  - apply HWhile. intros x off E. destruct b as [[y o]|]; [injection E as <- <-; apply IH | discriminate].
  - apply HBlock. induction body as [|[y o] r IHr]; intros x off Hin; [destruct Hin|].
    destruct Hin as [E|Hin]; [injection E as <- <-; apply IH | apply (IHr _ _ Hin)].
  - apply HError.
Qed.
End StmtInd.

(* ---- every printed statement ends its last line ---- *)
Lemma fbind_ok r k out : fbind r k = FOk out -> exists a, r = FOk a /\ k a = FOk out.
Proof. destruct r as [a|]; [intros H; exists a; split; [reflexivity | exact H] | discriminate]. Qed.

Lemma with_slice_ok i toks k out : with_slice i toks k = FOk out -> exists sl, slice i toks = Some sl /\ k sl = FOk out.
Proof. unfold with_slice. destruct (slice i toks) as [sl|]; [intros H; exists sl; split; [reflexivity|exact H] | discriminate]. Qed.

Lemma with_from_ok off toks k out : with_from off toks k = FOk out -> exists t', slice_from off toks = Some t' /\ k t' = FOk out.
Proof. unfold with_from. destruct (slice_from off toks) as [sl|]; [intros H; exists sl; split; [reflexivity|exact H] | discriminate]. Qed.

Ltac fok :=
  repeat match goal with
         | H : fbind _ _ = FOk _ |- _ => apply fbind_ok in H; destruct H as (? & ? & H)
         | H : with_slice _ _ _ = FOk _ |- _ => apply with_slice_ok in H; destruct H as (? & ? & H)
         | H : with_from _ _ _ = FOk _ |- _ => apply with_from_ok in H; destruct H as (? & ? & H)
         | H : FOk _ = FOk _ |- _ => injection H as H; try subst
         end.

Definition ends_nl_text (s : text) : Prop := exists s', s = s' ++ [10].

Lemma ends_nl_app a b : ends_nl_text b -> ends_nl_text (a ++ b).
Proof. intros [b' ->]. exists (a ++ b'). rewrite app_assoc. reflexivity. Qed.

Lemma ends_nl_cons c b : ends_nl_text b -> ends_nl_text (c :: b).
Proof. intros [b' ->]. exists (c :: b'). reflexivity. Qed.

Lemma ends_nl_single : ends_nl_text [10].
Proof. exists []. reflexivity. Qed.

Ltac ends_nl :=
  repeat first [ exact ends_nl_single
               | match goal with
                 | |- ends_nl_text (_ ++ _) => apply ends_nl_app
                 | |- ends_nl_text (_ :: _) => apply ends_nl_cons
                 end ].

Lemma ends_nl_terminated s : ends_nl_text s -> nl_terminated s.
Proof. intros H. right. exact H. Qed.

Section EndsNl.
Variable f : fopts.

Lemma nl_indent_ends_nl st : ends_nl_text ([10] ++ indent st f).
Proof.
  destruct (indent_terminated f st) as [E|E].
  - rewrite E. exists []. reflexivity.
  - apply ends_nl_app. exact E.
Qed.

Lemma branch_ends_nl br toks out : fmt_branch f br toks 10 = FOk out -> ends_nl_text out.
Proof.
  intros H. destruct br as [[x off]|]; cbn [fmt_branch] in H.
  - fok. destruct x; try (fok; subst; apply nl_indent_ends_nl).
    destruct body; fok; subst.
    + exists (str " {"%string ++ [125]). reflexivity.
    + eexists (str " {" ++ [10] ++ indent _ f ++ [125]). rewrite <- !app_assoc. reflexivity.
  - injection H as <-. exists []. reflexivity.
Qed.

Lemma fmap_ok {A} (g : A -> fres) l k out :
  fmap g l k = FOk out -> exists outs, k outs = FOk out /\ Forall2 (fun x o => g x = FOk o) l outs.
Proof.
  revert k. induction l as [|x r IH]; intros k H; cbn [fmap] in H.
  - exists []. split; [exact H | constructor].
  - apply fbind_ok in H. destruct H as (a & Ha & H). apply IH in H. destruct H as (outs & Hk & Hall).
    exists (a :: outs). split; [exact Hk | constructor; assumption].
Qed.

Lemma fconcat_ok {A} (g : A -> fres) l out :
  fconcat g l = FOk out -> exists outs, out = concat outs /\ Forall2 (fun x o => g x = FOk o) l outs.
Proof.
  revert out. induction l as [|x r IH]; intros out H; cbn [fconcat] in H.
  - injection H as <-. exists []. split; [reflexivity | constructor].
  - apply fbind_ok in H. destruct H as (a & Ha & H). apply fbind_ok in H. destruct H as (b & Hb & H).
    injection H as <-. apply IH in Hb. destruct Hb as (outs & -> & Hall).
    exists (a :: outs). split; [reflexivity | constructor; assumption].
Qed.

Lemma stmt_ends_nl : forall s toks out, fmt_stmt f s toks = FOk out -> ends_nl_text out.
Proof.
  induction s as [inf|v e inf|n a inf|c t e inf IHt IHe|c b inf IHb|body inf IHbody|inf] using stmt_ind'; intros toks out H.
  - cbn [fmt_stmt] in H. fok. subst. unfold add_all_comments. ends_nl.
  - cbn [fmt_stmt] in H. unfold fmt_assign_body in H. fok. subst. unfold add_all_comments. ends_nl.
  - cbn [fmt_stmt] in H. unfold fmt_call_body in H. fok. apply fmap_ok in H0. destruct H0 as (outs & Hk & _).
    injection Hk as <-. subst. unfold add_all_comments. ends_nl.
  - rewrite fmt_stmt_if in H. fok. subst. unfold add_leading_comments. apply ends_nl_app.
    destruct e as [[y off]|].
    + destruct y; fok; subst; ends_nl;
        try (eapply branch_ends_nl; eassumption).
      eapply IHe; [reflexivity | eassumption].
    + fok. subst. ends_nl. eapply branch_ends_nl; eassumption.
  - rewrite fmt_stmt_while in H. fok. subst. unfold add_leading_comments. ends_nl. eapply branch_ends_nl; eassumption.
  - rewrite fmt_stmt_block in H. fok. subst. unfold add_leading_comments. apply ends_nl_app.
    destruct body; fok; subst; ends_nl.
  - cbn [fmt_stmt] in H. fok. subst. ends_nl.
Qed.

End EndsNl.

(* ---- lines of nested constructs: one unit deeper than the parent ---- *)
Lemma show_comment_terminated t : is_comment_tok t = true -> ends_nl_text (show_tok t).
Proof.
  unfold is_comment_tok, show_tok. destruct (tk t); try discriminate. intros _. cbn [show_kind].
  eexists ([47; 47; 32] ++ trim s). rewrite <- !app_assoc. reflexivity.
Qed.

Lemma leading_comment_terminated sl : nl_terminated (leading_comment_text sl).
Proof.
  induction sl as [|t r IH]; [left; reflexivity|]. cbn [leading_comment_text].
  destruct (is_comment_tok t) eqn:E; [|left; reflexivity].
  apply nl_terminated_app; [right; apply show_comment_terminated; exact E | exact IH].
Qed.

Lemma all_comment_terminated sl : nl_terminated (all_comment_text sl).
Proof.
  unfold all_comment_text. induction sl as [|t r IH]; [left; reflexivity|]. cbn [filter].
  destruct (is_comment_tok t) eqn:E; [|exact IH]. cbn [flat_map].
  apply nl_terminated_app; [right; apply show_comment_terminated; exact E | exact IH].
Qed.

Lemma lines_concat outs : Forall ends_nl_text outs -> lines (concat outs) = flat_map lines outs.
Proof.
  induction 1 as [|o r Ho Hr IH]; [reflexivity|]. cbn [concat flat_map].
  rewrite lines_app_terminated by (right; exact Ho). rewrite IH. reflexivity.
Qed.

Lemma concat_terminated outs : Forall ends_nl_text outs -> nl_terminated (concat outs).
Proof.
  induction 1 as [|o r Ho Hr IH]; [left; reflexivity|]. cbn [concat].
  apply nl_terminated_app; [right; exact Ho | exact IH].
Qed.

Lemma lines_single l : no_nl l -> lines (l ++ [10]) = [strip_cr l].
Proof.
  intros H. unfold lines. replace (l ++ [10]) with (l ++ 10 :: []) by reflexivity.
  rewrite split_incl_line by exact H. cbn [split_incl map]. rewrite strip_line_nl by exact H. reflexivity.
Qed.

Section Nesting.
Variable f : fopts.
Hypothesis sym_not_nl : ind_sym f <> 10.
Hypothesis sym_not_cr : ind_sym f <> 13.

Definition deeper (l : text) : text := indentation f ++ strip_cr l.

(* the statements of a list, each printed on its own token slice *)
Definition printed (toks : list token) (xo : stmt * nat) (o : text) : Prop :=
  exists t', slice_from (snd xo) toks = Some t' /\ fmt_stmt f (fst xo) t' = FOk o.

Lemma fmt_stmts_lines l toks ss :
  fmt_stmts f l toks = FOk ss ->
  exists outs, Forall2 (printed toks) l outs /\ ss = concat outs /\ lines ss = flat_map lines outs.
Proof.
  intros H. unfold fmt_stmts in H. apply fconcat_ok in H. destruct H as (outs & -> & Hall).
  assert (Hp : Forall2 (printed toks) l outs).
  { induction Hall as [|xo o l' outs' H1 _ IH]; constructor; [|exact IH].
    apply with_from_ok in H1. destruct H1 as (t' & Ht & Hf). exists t'. split; assumption. }
  exists outs. split; [exact Hp|]. split; [reflexivity|]. apply lines_concat.
  clear Hall. induction Hp as [|xo o l' outs' (t' & _ & Hf) _ IH]; constructor; [|exact IH].
  eapply stmt_ends_nl. exact Hf.
Qed.

(* a block: its leading comments, "{", every line of every statement one unit deeper, "}" *)
Theorem block_lines body inf toks out :
  body <> [] -> fmt_stmt f (SBlock body inf) toks = FOk out ->
  exists sl outs,
    slice inf toks = Some sl /\ Forall2 (printed toks) body outs /\
    lines out = lines (leading_comment_text sl) ++ [[123]] ++ map deeper (flat_map lines outs) ++ [[125]].
Proof.
  intros Hne H. rewrite fmt_stmt_block in H. destruct body as [|b0 body']; [congruence|].
  apply fbind_ok in H. destruct H as (st & Hst & H).
  apply with_slice_ok in H. destruct H as (sl & Hsl & H). injection H as <-.
  apply fbind_ok in Hst. destruct Hst as (ss & Hss & Hst). injection Hst as <-.
  apply fmt_stmts_lines in Hss. destruct Hss as (outs & Hp & -> & Hl).
  exists sl, outs. split; [assumption|]. split; [exact Hp|].
  unfold add_leading_comments. rewrite lines_app_terminated by apply leading_comment_terminated. f_equal.
  match goal with |- lines ?x = ?y => change (lines ([123] ++ 10 :: (indent (concat outs) f ++ [125; 10])) = y) end.
  rewrite (lines_app_nl [123] (indent (concat outs) f ++ [125; 10])). f_equal.
  rewrite (lines_app_terminated (indent (concat outs) f) [125; 10]) by (apply indent_terminated).
  rewrite indent_lines by assumption. rewrite Hl. reflexivity.
Qed.

(* [has_block out m]: the text [m] occurs in [out] right after a newline *)
Definition has_block (out m : text) : Prop := exists a r, out = a ++ 10 :: m ++ r.

Lemma has_block_base m r : has_block (10 :: m ++ r) m.
Proof. exists [], r. reflexivity. Qed.
Lemma has_block_app_l p x m : has_block x m -> has_block (p ++ x) m.
Proof. intros (a & r & ->). exists (p ++ a), r. rewrite <- app_assoc. reflexivity. Qed.
Lemma has_block_app_r q x m : has_block x m -> has_block (x ++ q) m.
Proof. intros (a & r & ->). exists a, (r ++ q). rewrite <- !app_assoc. cbn [app]. rewrite <- app_assoc. reflexivity. Qed.
Lemma has_block_cons c x m : has_block x m -> has_block (c :: x) m.
Proof. apply (has_block_app_l [c]). Qed.

Lemma has_block_lines out m l : nl_terminated m -> has_block out m -> In l (lines m) -> In l (lines out).
Proof.
  intros Hm (a & r & ->) Hin. rewrite lines_app_nl. apply in_or_app. right.
  rewrite lines_app_terminated by exact Hm. apply in_or_app. left. exact Hin.
Qed.

Ltac hb :=
  lazymatch goal with
  | |- has_block (10 :: ?m ++ _) ?m => apply has_block_base
  | |- has_block (_ :: _) _ => apply has_block_cons; hb
  | |- has_block (_ ++ _) _ => apply has_block_app_l; hb
  end.

Lemma is_nil_true {A} (l : list A) : is_nil l = true -> l = [].
Proof. destruct l; [reflexivity | discriminate]. Qed.

(* the lines of a text that is indented inside [out] appear in [out], one unit deeper *)
Lemma indented_lines out s l : has_block out (indent s f) -> In l (lines s) -> In (deeper l) (lines out).
Proof.
  intros Hb Hin. eapply has_block_lines; [apply indent_terminated | exact Hb|].
  rewrite indent_lines by assumption. apply in_map. exact Hin.
Qed.

Lemma printed_in_concat toks l outs x off t' :
  Forall2 (printed toks) l outs -> In (x, off) l -> slice_from off toks = Some t' ->
  exists o, fmt_stmt f x t' = FOk o /\ In o outs.
Proof.
  induction 1 as [|xo o l' outs' (t0 & Ht0 & Hf) _ IH]; intros Hin Hs; [destruct Hin|].
  destruct Hin as [->|Hin].
  - cbn [fst snd] in *. rewrite Hs in Ht0. injection Ht0 as <-. exists o. split; [exact Hf | left; reflexivity].
  - destruct (IH Hin Hs) as (o' & Ho & Hi). exists o'. split; [exact Ho | right; exact Hi].
Qed.

Lemma in_flat_lines (outs : list text) o l : In o outs -> In l (lines o) -> In l (flat_map lines outs).
Proof. intros Ho Hl. apply in_flat_map. exists o. split; assumption. Qed.

(* statements of a statement list [body] printed into [ss]: their lines are lines of [ss] *)
Lemma stmts_member_lines body toks ss x off t' :
  fmt_stmts f body toks = FOk ss -> In (x, off) body -> slice_from off toks = Some t' ->
  exists o, fmt_stmt f x t' = FOk o /\ forall l, In l (lines o) -> In l (lines ss).
Proof.
  intros H Hin Hs. apply fmt_stmts_lines in H. destruct H as (outs & Hp & -> & Hl).
  destruct (printed_in_concat _ _ _ _ _ _ Hp Hin Hs) as (o & Ho & Hi).
  exists o. split; [exact Ho|]. intros l Hl'. rewrite Hl. eapply in_flat_lines; eassumption.
Qed.

Definition is_block (s : stmt) : bool := match s with SBlock _ _ => true | _ => false end.
Definition is_if (s : stmt) : bool := match s with SIf _ _ _ _ => true | _ => false end.

(* the text of a branch contains the indented text of the branch statement / of the block's statements *)
Lemma branch_has_block br toks ending b :
  fmt_branch f br toks ending = FOk b ->
  match br with
  | None => True
  | Some (x, off) =>
      exists t', slice_from off toks = Some t' /\
      match x with
      | SBlock body _ => body = [] \/ exists ss, fmt_stmts f body t' = FOk ss /\ has_block b (indent ss f)
      | _ => exists st, fmt_stmt f x t' = FOk st /\ has_block b (indent st f)
      end
  end.
Proof.
  intros H. destruct br as [[x off]|]; [|exact I]. cbn [fmt_branch] in H.
  apply with_from_ok in H. destruct H as (t' & Ht & H). exists t'. split; [exact Ht|].
  destruct x as [i|v e i|n a i|c t e i|c b1 i|body i|i];
    try (apply fbind_ok in H; destruct H as (st & Hst & H); injection H as <-;
                   exists st; split; [exact Hst | exists [], []; rewrite app_nil_r; reflexivity]).
  destruct body as [|b0 body']; [left; reflexivity|]. right.
  apply fbind_ok in H. destruct H as (ss & Hss & H). injection H as <-. exists ss. split; [exact Hss|].
  apply (has_block_app_l (str " {")). apply has_block_base.
Qed.

(* the branches that are printed one level deeper: then-branch, loop body, and an else-branch that is
   not itself an `if` (an else-if chain stays at the level of the first `if`) *)
Inductive branch_of : stmt -> option (stmt * nat) -> Prop :=
| bo_then c t e inf : branch_of (SIf c t e inf) t
| bo_else c t x off inf : is_if x = false -> branch_of (SIf c t (Some (x, off)) inf) (Some (x, off))
| bo_loop c b inf : branch_of (SWhile c b inf) b.

Lemma branch_of_text s br toks out :
  branch_of s br -> fmt_stmt f s toks = FOk out ->
  exists b ending, fmt_branch f br toks ending = FOk b /\ forall m, has_block b m -> has_block out m.
Proof.
  intros Hb H. destruct Hb as [c t e inf|c t x off inf Hx|c b inf].
  - rewrite fmt_stmt_if in H. apply fbind_ok in H. destruct H as (cond & _ & H).
    apply fbind_ok in H. destruct H as (st & Hst & H). apply with_slice_ok in H. destruct H as (sl & _ & H).
    injection H as <-. unfold add_leading_comments.
    destruct e as [[y o]|].
    + destruct y as [i|v e' i|n a i|c' t' e' i|c' b1 i|body i|i];
        apply fbind_ok in Hst; destruct Hst as (b & Hb & Hst); apply fbind_ok in Hst; destruct Hst as (b2 & _ & Hst);
        injection Hst as <-; exists b, 32; (split; [exact Hb|]); intros m Hm;
        apply has_block_app_l; apply (has_block_app_l (str "if (")); apply has_block_app_l; apply (has_block_app_l [41]);
        apply has_block_app_r; exact Hm.
    + apply fbind_ok in Hst. destruct Hst as (b & Hb & Hst). injection Hst as <-. exists b, 10. split; [exact Hb|].
      intros m Hm. apply has_block_app_l. apply (has_block_app_l (str "if (")). apply has_block_app_l. apply (has_block_app_l [41]). exact Hm.
  - rewrite fmt_stmt_if in H. apply fbind_ok in H. destruct H as (cond & _ & H).
    apply fbind_ok in H. destruct H as (st & Hst & H). apply with_slice_ok in H. destruct H as (sl & _ & H).
    injection H as <-. unfold add_leading_comments.
    destruct x as [i|v e' i|n a i|c' t' e' i|c' b1 i|body i|i]; try discriminate Hx;
      apply fbind_ok in Hst; destruct Hst as (b & _ & Hst); apply fbind_ok in Hst; destruct Hst as (b2 & Hb2 & Hst);
      injection Hst as <-; exists b2, 10; (split; [exact Hb2|]); intros m Hm;
      apply has_block_app_l; apply (has_block_app_l (str "if (")); apply has_block_app_l; apply (has_block_app_l [41]);
      apply has_block_app_l; apply (has_block_app_l (str "else")); exact Hm.
  - rewrite fmt_stmt_while in H. apply fbind_ok in H. destruct H as (cond & _ & H).
    apply fbind_ok in H. destruct H as (b0 & Hb & H). apply with_slice_ok in H. destruct H as (sl & _ & H).
    injection H as <-. unfold add_leading_comments. exists b0, 10. split; [exact Hb|].
    intros m Hm. apply has_block_app_l. apply (has_block_app_l (str "while (")). apply has_block_app_l. apply (has_block_app_l [41]). exact Hm.
Qed.

(* [child s toks x tx]: x (printed on the token slice tx) is a statement one level below s *)
Inductive child : stmt -> list token -> stmt -> list token -> Prop :=
| ch_block body inf toks x off t' :
    In (x, off) body -> slice_from off toks = Some t' -> child (SBlock body inf) toks x t'
| ch_branch s toks x off t' :
    branch_of s (Some (x, off)) -> is_block x = false -> slice_from off toks = Some t' -> child s toks x t'
| ch_branch_block s toks body i off t' y o2 t'' :
    branch_of s (Some (SBlock body i, off)) -> slice_from off toks = Some t' ->
    In (y, o2) body -> slice_from o2 t' = Some t'' -> child s toks y t''.

Theorem child_lines s toks x tx out :
  child s toks x tx -> fmt_stmt f s toks = FOk out ->
  exists o, fmt_stmt f x tx = FOk o /\ forall l, In l (lines o) -> In (deeper l) (lines out).
Proof.
  intros Hc H. destruct Hc as [body inf toks x off t' Hin Hs|s toks x off t' Hb Hx Hs|s toks body i off t' y o2 t'' Hb Hs Hin Hs2].
  - rewrite fmt_stmt_block in H. destruct body as [|b0 body']; [destruct Hin|].
    apply fbind_ok in H. destruct H as (st & Hst & H). apply with_slice_ok in H. destruct H as (sl & _ & H). injection H as <-.
    apply fbind_ok in Hst. destruct Hst as (ss & Hss & Hst). injection Hst as <-.
    destruct (stmts_member_lines _ _ _ _ _ _ Hss Hin Hs) as (o & Ho & Hl). exists o. split; [exact Ho|].
    intros l Hl'. apply (indented_lines _ ss); [|apply Hl; exact Hl'].
    unfold add_leading_comments. apply has_block_app_l. apply (has_block_app_l (str "{")). apply has_block_base.
  - destruct (branch_of_text _ _ _ _ Hb H) as (b & ending & Hbr & Hlift).
    apply branch_has_block in Hbr. destruct Hbr as (t0 & Ht0 & Hbr). rewrite Hs in Ht0. injection Ht0 as <-.
    destruct x as [i|v e' i|n a i|c' t0 e' i|c' b1 i|body i|i]; try discriminate Hx;
      destruct Hbr as (st & Hst & Hhb); exists st; (split; [exact Hst|]); intros l Hl;
      (apply (indented_lines _ st); [apply Hlift; exact Hhb | exact Hl]).
  - destruct (branch_of_text _ _ _ _ Hb H) as (b & ending & Hbr & Hlift).
    apply branch_has_block in Hbr. destruct Hbr as (t0 & Ht0 & Hbr). rewrite Hs in Ht0. injection Ht0 as <-.
    destruct Hbr as [->|(ss & Hss & Hhb)]; [destruct Hin|].
    destruct (stmts_member_lines _ _ _ _ _ _ Hss Hin Hs2) as (o & Ho & Hl). exists o. split; [exact Ho|].
    intros l Hl'. apply (indented_lines _ ss); [apply Hlift; exact Hhb | apply Hl; exact Hl'].
Qed.

Inductive nested : nat -> stmt -> list token -> stmt -> list token -> Prop :=
| nested_0 s toks : nested 0 s toks s toks
| nested_S d s toks m tm x tx : child s toks m tm -> nested d m tm x tx -> nested (S d) s toks x tx.

Fixpoint deeper_n (d : nat) (l : text) : text :=
  match d with O => l | S d' => deeper (deeper_n d' l) end.

(* by induction over the nesting: a statement d levels below s has each of its lines, d units deeper, in s *)
Theorem nested_lines d s toks x tx :
  nested d s toks x tx -> forall out, fmt_stmt f s toks = FOk out ->
  exists o, fmt_stmt f x tx = FOk o /\ forall l, In l (lines o) -> In (deeper_n d l) (lines out).
Proof.
  induction 1 as [s toks|d s toks m tm x tx Hc Hn IH]; intros out H.
  - exists out. split; [exact H | intros l Hl; exact Hl].
  - destruct (child_lines _ _ _ _ _ Hc H) as (om & Hom & Hlm).
    destruct (IH om Hom) as (o & Ho & Hl). exists o. split; [exact Ho|].
    intros l Hin. cbn [deeper_n]. apply Hlm. apply Hl. exact Hin.
Qed.

(* the statements and variable declarations of a procedure body sit one unit deep *)
Theorem proc_stmt_lines d toks out x off t' :
  fmt_procdecl f d toks = FOk out -> In (x, off) (pd_stmts d) -> slice_from off toks = Some t' ->
  exists o, fmt_stmt f x t' = FOk o /\ forall l, In l (lines o) -> In (deeper l) (lines out).
Proof.
  intros H Hin Hs. unfold fmt_procdecl in H.
  apply fbind_ok in H. destruct H as (params & _ & H). apply fbind_ok in H. destruct H as (vd0 & _ & H).
  apply fbind_ok in H. destruct H as (st0 & Hst & H). apply with_slice_ok in H. destruct H as (sl & _ & H). injection H as <-.
  destruct (stmts_member_lines _ _ _ _ _ _ Hst Hin Hs) as (o & Ho & Hl). exists o. split; [exact Ho|].
  intros l Hl'. apply Hl in Hl'. clear Hl.
  assert (Hd : In (deeper l) (lines (indent st0 f))) by (rewrite indent_lines by assumption; apply in_map; exact Hl').
  unfold add_leading_comments.
  eapply has_block_lines; [apply indent_terminated | | exact Hd].
  destruct (is_nil (indent st0 f)) eqn:En.
  { apply is_nil_true in En. rewrite En in Hd. destruct Hd. }
  destruct (is_nil (indent vd0 f)); cbv iota; hb.
Qed.

Theorem proc_var_lines d toks out :
  fmt_procdecl f d toks = FOk out ->
  exists vd0, fmt_vardecls (pd_vars d) toks = FOk vd0 /\ forall l, In l (lines vd0) -> In (deeper l) (lines out).
Proof.
  intros H. unfold fmt_procdecl in H.
  apply fbind_ok in H. destruct H as (params & _ & H). apply fbind_ok in H. destruct H as (vd0 & Hvd & H).
  apply fbind_ok in H. destruct H as (st0 & _ & H). apply with_slice_ok in H. destruct H as (sl & _ & H). injection H as <-.
  exists vd0. split; [exact Hvd|]. intros l Hl'.
  assert (Hd : In (deeper l) (lines (indent vd0 f))) by (rewrite indent_lines by assumption; apply in_map; exact Hl').
  unfold add_leading_comments.
  eapply has_block_lines; [apply indent_terminated | | exact Hd].
  destruct (is_nil (indent vd0 f)) eqn:En.
  { apply is_nil_true in En. rewrite En in Hd. destruct Hd. }
  destruct (is_nil (indent st0 f)); cbv iota; hb.
Qed.

End Nesting.

(* ================================================================================================
   4. The printers read the token KINDS only (never positions, never the text)
   ================================================================================================ *)
Definition same_kinds (a b : list token) : Prop := map tk a = map tk b.

Lemma same_kinds_length a b : same_kinds a b -> length a = length b.
Proof. intros H. rewrite <- (map_length tk a), H. apply map_length. Qed.

Lemma same_kinds_skipn n a b : same_kinds a b -> same_kinds (skipn n a) (skipn n b).
Proof. unfold same_kinds. intros H. rewrite <- !skipn_map, H. reflexivity. Qed.

Lemma same_kinds_firstn n a b : same_kinds a b -> same_kinds (firstn n a) (firstn n b).
Proof. unfold same_kinds. intros H. rewrite <- !firstn_map, H. reflexivity. Qed.

Lemma with_from_kinds a b off F G :
  same_kinds a b -> (forall x y, same_kinds x y -> F x = G y) -> with_from off a F = with_from off b G.
Proof.
  intros H HFG. unfold with_from, slice_from. rewrite (same_kinds_length _ _ H).
  destruct (Nat.leb off (length b)); [|reflexivity]. apply HFG. apply same_kinds_skipn. exact H.
Qed.

Lemma with_slice_kinds a b i F G :
  same_kinds a b -> (forall x y, same_kinds x y -> F x = G y) -> with_slice i a F = with_slice i b G.
Proof.
  intros H HFG. unfold with_slice, slice. rewrite (same_kinds_length _ _ H).
  destruct (Nat.leb (i_s i) (i_e i) && Nat.leb (i_e i) (length b)); [|reflexivity].
  apply HFG. apply same_kinds_firstn. apply same_kinds_skipn. exact H.
Qed.

Lemma same_kinds_cons t a t' b : same_kinds (t :: a) (t' :: b) -> tk t = tk t' /\ same_kinds a b.
Proof. unfold same_kinds. cbn [map]. intros [= H1 H2]. split; assumption. Qed.

Lemma same_kinds_nil_l b : same_kinds [] b -> b = [].
Proof. destruct b; [reflexivity | discriminate]. Qed.
Lemma same_kinds_nil_r a : same_kinds a [] -> a = [].
Proof. destruct a; [reflexivity | discriminate]. Qed.

Lemma tok_kind_funs t t' : tk t = tk t' ->
  is_comment_tok t = is_comment_tok t' /\ show_tok t = show_tok t' /\ is_lit_tok t = is_lit_tok t'.
Proof. unfold is_comment_tok, show_tok, is_lit_tok. intros ->. repeat split. Qed.

Lemma leading_comment_kinds a : forall b, same_kinds a b -> leading_comment_text a = leading_comment_text b.
Proof.
  induction a as [|t a IH]; intros b H.
  - apply same_kinds_nil_l in H. subst. reflexivity.
  - destruct b as [|t' b]; [discriminate H|]. apply same_kinds_cons in H. destruct H as [Ht H].
    cbn [leading_comment_text]. destruct (tok_kind_funs _ _ Ht) as (-> & -> & _).
    rewrite (IH b H). reflexivity.
Qed.

Lemma all_comment_kinds a : forall b, same_kinds a b -> all_comment_text a = all_comment_text b.
Proof.
  unfold all_comment_text. induction a as [|t a IH]; intros b H.
  - apply same_kinds_nil_l in H. subst. reflexivity.
  - destruct b as [|t' b]; [discriminate H|]. apply same_kinds_cons in H. destruct H as [Ht H].
    cbn [filter]. destruct (tok_kind_funs _ _ Ht) as (-> & Hs & _).
    destruct (is_comment_tok t'); [|apply IH; exact H]. cbn [flat_map]. rewrite Hs, (IH b H). reflexivity.
Qed.

Lemma show_toks_kinds a b : same_kinds a b -> map show_tok a = map show_tok b.
Proof.
  intros H. unfold show_tok. rewrite <- (map_map tk show_kind a), <- (map_map tk show_kind b), H. reflexivity.
Qed.

Lemma fmt_info_kinds i a b : same_kinds a b -> fmt_info i a = fmt_info i b.
Proof.
  intros H. unfold fmt_info. apply with_slice_kinds; [exact H|]. intros x y Hxy.
  rewrite (show_toks_kinds _ _ Hxy). reflexivity.
Qed.

Lemma find_lit_kinds a : forall b, same_kinds a b ->
  match find is_lit_tok a, find is_lit_tok b with
  | Some t, Some t' => tk t = tk t'
  | None, None => True
  | _, _ => False
  end.
Proof.
  induction a as [|t a IH]; intros b H.
  - apply same_kinds_nil_l in H. subst. exact I.
  - destruct b as [|t' b]; [discriminate H|]. apply same_kinds_cons in H. destruct H as [Ht H].
    cbn [find]. destruct (tok_kind_funs _ _ Ht) as (_ & _ & ->).
    destruct (is_lit_tok t'); [exact Ht | apply IH; exact H].
Qed.

Lemma fmt_intlit_kinds i a b : same_kinds a b -> fmt_intlit i a = fmt_intlit i b.
Proof.
  intros H. unfold fmt_intlit. apply with_slice_kinds; [exact H|]. intros x y Hxy.
  pose proof (find_lit_kinds x y Hxy) as Hf.
  destruct (find is_lit_tok x), (find is_lit_tok y); try contradiction; [|reflexivity].
  unfold show_tok. rewrite Hf. reflexivity.
Qed.

Lemma fbind_ext r r' k k' : r = r' -> (forall x, k x = k' x) -> fbind r k = fbind r' k'.
Proof. intros -> H. destruct r'; [apply H | reflexivity]. Qed.

Lemma fmt_var_kinds : forall v a b, same_kinds a b -> fmt_var v a = fmt_var v b
with fmt_expr_kinds : forall e a b, same_kinds a b -> fmt_expr e a = fmt_expr e b.
Proof.
  - intros [i|arr idx inf] a b H; cbn [fmt_var]; [reflexivity|].
    rewrite (fmt_var_kinds arr a b H).
    apply fbind_ext; [|reflexivity].
    destruct idx as [[e off]|]; [|reflexivity].
    apply with_from_kinds; [exact H|]. intros x y Hxy. apply fmt_expr_kinds. exact Hxy.
  - intros [op l r inf|x inf|i|op x inf|v|inf] a b H; cbn [fmt_expr].
    + rewrite (fmt_expr_kinds l a b H), (fmt_expr_kinds r a b H). reflexivity.
    + rewrite (fmt_expr_kinds x a b H). reflexivity.
    + apply fmt_intlit_kinds. exact H.
    + rewrite (fmt_expr_kinds x a b H). reflexivity.
    + apply fmt_var_kinds. exact H.
    + apply fmt_info_kinds. exact H.
Qed.

Lemma fmt_ref_expr_kinds o a b : same_kinds a b -> fmt_ref_expr o a = fmt_ref_expr o b.
Proof.
  intros H. destruct o as [[e off]|]; [|reflexivity]. cbn [fmt_ref_expr].
  apply with_from_kinds; [exact H|]. intros x y Hxy. apply fmt_expr_kinds. exact Hxy.
Qed.

Lemma fmt_texpr_kinds : forall t a b, same_kinds a b -> fmt_texpr t a = fmt_texpr t b.
Proof.
  fix IH 1. intros [i|size base inf] a b H; cbn [fmt_texpr]; [reflexivity|].
  assert (Hs : match size with None => FOk [] | Some i => fmt_intlit i a end =
               match size with None => FOk [] | Some i => fmt_intlit i b end)
    by (destruct size; [apply fmt_intlit_kinds; exact H | reflexivity]).
  rewrite Hs. apply fbind_ext; [reflexivity|]. intros sz. destruct base as [[bt off]|]; [|reflexivity].
  apply fbind_ext; [|reflexivity].
  apply with_from_kinds; [exact H|]. intros x y Hxy. apply IH. exact Hxy.
Qed.

Lemma fmt_ref_texpr_kinds o a b : same_kinds a b -> fmt_ref_texpr o a = fmt_ref_texpr o b.
Proof.
  intros H. destruct o as [[e off]|]; [|reflexivity]. cbn [fmt_ref_texpr].
  apply with_from_kinds; [exact H|]. intros x y Hxy. apply fmt_texpr_kinds. exact Hxy.
Qed.

Lemma fmap_ext {A} (g g' : A -> fres) l : (forall x, In x l -> g x = g' x) -> forall k, fmap g l k = fmap g' l k.
Proof.
  induction l as [|x r IH]; intros H k; [reflexivity|]. cbn [fmap].
  apply fbind_ext; [apply H; left; reflexivity|]. intros a. apply IH. intros y Hy. apply H. right. exact Hy.
Qed.

Lemma fconcat_ext {A} (g g' : A -> fres) l : (forall x, In x l -> g x = g' x) -> fconcat g l = fconcat g' l.
Proof.
  induction l as [|x r IH]; intros H; [reflexivity|]. cbn [fconcat].
  apply fbind_ext; [apply H; left; reflexivity|]. intros a. rewrite IH; [reflexivity|].
  intros y Hy. apply H. right. exact Hy.
Qed.

Section KindsStmt.
Variable f : fopts.

Definition kinds_ok (s : stmt) : Prop :=
  (forall a b, same_kinds a b -> fmt_stmt f s a = fmt_stmt f s b) /\
  (forall body i, s = SBlock body i -> forall a b, same_kinds a b -> fmt_stmts f body a = fmt_stmts f body b).

Lemma fmt_stmts_kinds l a b :
  (forall x off, In (x, off) l -> kinds_ok x) -> same_kinds a b -> fmt_stmts f l a = fmt_stmts f l b.
Proof.
  intros IH H. unfold fmt_stmts. apply fconcat_ext. intros [x off] Hin. cbn [fst snd].
  apply with_from_kinds; [exact H|]. intros u v Huv. apply (IH x off Hin). exact Huv.
Qed.

Lemma fmt_branch_kinds br a b ending :
  (forall x off, br = Some (x, off) -> kinds_ok x) ->
  same_kinds a b -> fmt_branch f br a ending = fmt_branch f br b ending.
Proof.
  intros IH H. destruct br as [[x off]|]; [|reflexivity]. cbn [fmt_branch].
  apply with_from_kinds; [exact H|]. intros u v Huv.
  destruct (IH x off eq_refl) as [IH1 IH2].
  destruct x as [i|v0 e i|n a0 i|c t e i|c b1 i|body i|i]; try (rewrite (IH1 u v Huv); reflexivity).
  destruct body as [|b0 body']; [reflexivity|].
  rewrite (IH2 _ _ eq_refl u v Huv). reflexivity.
Qed.

Lemma fmt_stmt_kinds : forall s, kinds_ok s.
Proof.
  induction s as [inf|v e inf|n a inf|c t e inf IHt IHe|c b inf IHb|body inf IHbody|inf] using stmt_ind';
    (split; [|intros body' i' E; try discriminate E]); intros x y H.
  - cbn [fmt_stmt]. apply with_slice_kinds; [exact H|]. intros u v Huv.
    unfold add_all_comments. rewrite (all_comment_kinds _ _ Huv). reflexivity.
  - cbn [fmt_stmt]. unfold fmt_assign_body.
    rewrite (fmt_ref_expr_kinds e x y H), (fmt_var_kinds v x y H).
    apply fbind_ext; [reflexivity|]. intros body. apply with_slice_kinds; [exact H|]. intros u w Huw.
    unfold add_all_comments. rewrite (all_comment_kinds _ _ Huw). reflexivity.
  - cbn [fmt_stmt]. unfold fmt_call_body.
    apply fbind_ext.
    + apply fmap_ext. intros [ex off] _. cbn [fst snd]. apply with_from_kinds; [exact H|].
      intros u w Huw. apply fmt_expr_kinds. exact Huw.
    + intros body. apply with_slice_kinds; [exact H|]. intros u w Huw.
      unfold add_all_comments. rewrite (all_comment_kinds _ _ Huw). reflexivity.
  - rewrite !fmt_stmt_if. rewrite (fmt_ref_expr_kinds c x y H).
    apply fbind_ext; [reflexivity|]. intros cond.
    apply fbind_ext.
    + destruct e as [[z off]|].
      * destruct z as [i|v0 e0 i|n0 a0 i|c0 t0 e0 i|c0 b1 i|body0 i|i];
          rewrite (fmt_branch_kinds t x y _ IHt H);
          try (rewrite (fmt_branch_kinds _ x y _ IHe H); reflexivity).
        apply fbind_ext; [reflexivity|]. intros b0.
        apply fbind_ext; [|reflexivity].
        apply with_from_kinds; [exact H|]. intros u w Huw. apply (IHe _ _ eq_refl). exact Huw.
      * rewrite (fmt_branch_kinds t x y _ IHt H). reflexivity.
    + intros st. apply with_slice_kinds; [exact H|]. intros u w Huw.
      unfold add_leading_comments. rewrite (leading_comment_kinds _ _ Huw). reflexivity.
  - rewrite !fmt_stmt_while. rewrite (fmt_ref_expr_kinds c x y H).
    apply fbind_ext; [reflexivity|]. intros cond.
    rewrite (fmt_branch_kinds b x y _ IHb H).
    apply fbind_ext; [reflexivity|]. intros br. apply with_slice_kinds; [exact H|]. intros u w Huw.
    unfold add_leading_comments. rewrite (leading_comment_kinds _ _ Huw). reflexivity.
  - rewrite !fmt_stmt_block. apply fbind_ext.
    + destruct body as [|b0 body']; [reflexivity|].
      rewrite (fmt_stmts_kinds _ x y IHbody H). reflexivity.
    + intros st. apply with_slice_kinds; [exact H|]. intros u w Huw.
      unfold add_leading_comments. rewrite (leading_comment_kinds _ _ Huw). reflexivity.
  - injection E as <- <-. apply fmt_stmts_kinds; [exact IHbody | exact H].
  - cbn [fmt_stmt]. rewrite (fmt_info_kinds inf x y H). reflexivity.
Qed.

Lemma fmt_vardecl_kinds v a b : same_kinds a b -> fmt_vardecl v a = fmt_vardecl v b.
Proof.
  intros H. destruct v as [doc name ty inf|inf]; cbn [fmt_vardecl].
  - rewrite (fmt_ref_texpr_kinds ty a b H). reflexivity.
  - apply fmt_info_kinds. exact H.
Qed.

Lemma fmt_paramdecl_kinds v a b : same_kinds a b -> fmt_paramdecl v a = fmt_paramdecl v b.
Proof.
  intros H. destruct v as [doc r name ty inf|inf]; cbn [fmt_paramdecl].
  - rewrite (fmt_ref_texpr_kinds ty a b H). reflexivity.
  - apply fmt_info_kinds. exact H.
Qed.

Lemma fmt_gdecl_kinds g a b : same_kinds a b -> fmt_gdecl f g a = fmt_gdecl f g b.
Proof.
  intros H. destruct g as [d|d|inf]; cbn [fmt_gdecl].
  - unfold fmt_typedecl. rewrite (fmt_ref_texpr_kinds (td_ty d) a b H).
    apply fbind_ext; [reflexivity|]. intros t. apply with_slice_kinds; [exact H|]. intros u w Huw.
    unfold add_leading_comments. rewrite (leading_comment_kinds _ _ Huw). reflexivity.
  - unfold fmt_procdecl.
    apply fbind_ext.
    { unfold fmt_params. apply fmap_ext. intros [p off] _. cbn [fst snd].
      apply with_from_kinds; [exact H|]. intros u w Huw. rewrite (fmt_paramdecl_kinds p u w Huw).
      apply fbind_ext; [reflexivity|]. intros body. apply with_slice_kinds; [exact Huw|]. intros u' w' Huw'.
      unfold add_all_comments. rewrite (all_comment_kinds _ _ Huw'). reflexivity. }
    intros params. apply fbind_ext.
    { unfold fmt_vardecls. apply fconcat_ext. intros [v off] _. cbn [fst snd].
      apply with_from_kinds; [exact H|]. intros u w Huw. rewrite (fmt_vardecl_kinds v u w Huw).
      apply fbind_ext; [reflexivity|]. intros body. apply with_slice_kinds; [exact Huw|]. intros u' w' Huw'.
      unfold add_all_comments. rewrite (all_comment_kinds _ _ Huw'). reflexivity. }
    intros vd0. apply fbind_ext.
    { apply fmt_stmts_kinds; [|exact H]. intros x off _. apply fmt_stmt_kinds. }
    intros st0. apply with_slice_kinds; [exact H|]. intros u w Huw.
    unfold add_leading_comments. rewrite (leading_comment_kinds _ _ Huw). reflexivity.
  - apply fmt_info_kinds. exact H.
Qed.

(* the whole printer: same kinds, same text *)
Theorem fmt_program_kinds p a b : same_kinds a b -> fmt_program f p a = fmt_program f p b.
Proof.
  intros H. unfold fmt_program. apply fmap_ext. intros [g off] _. cbn [fst snd].
  apply with_from_kinds; [exact H|]. intros u w Huw. apply fmt_gdecl_kinds. exact Huw.
Qed.

End KindsStmt.

(* ================================================================================================
   5. Canonical form (the part that does not need the parser): same kinds + same tree => same text
   ================================================================================================ *)
Theorem canonical_given_tree d1 d2 t1 t2 ins ts :
  lex d1 = Some t1 -> lex d2 = Some t2 -> same_kinds t1 t2 -> parse t1 = parse t2 ->
  formatted_text d1 ins ts = formatted_text d2 ins ts.
Proof.
  intros H1 H2 Hk Hp. unfold formatted_text. rewrite H1, H2, Hp.
  destruct (parse t2) as [p| |]; try reflexivity.
  rewrite (fmt_program_kinds _ p t1 t2 Hk). reflexivity.
Qed.

(* ================================================================================================
   6. Comments: what the two helper functions emit
   ================================================================================================ *)
Definition comment_tokens (sl : list token) : list token := filter is_comment_tok sl.

Fixpoint leading_comments_of (sl : list token) : list token :=
  match sl with
  | t :: r => if is_comment_tok t then t :: leading_comments_of r else []
  | [] => []
  end.

Lemma all_comments_once body sl :
  add_all_comments body sl = concat (map show_tok (comment_tokens sl)) ++ body.
Proof. unfold add_all_comments, all_comment_text, comment_tokens. rewrite flat_map_concat_map. reflexivity. Qed.

Lemma leading_comments_once body sl :
  add_leading_comments body sl = concat (map show_tok (leading_comments_of sl)) ++ body.
Proof.
  unfold add_leading_comments. f_equal. induction sl as [|t r IH]; [reflexivity|].
  cbn [leading_comment_text leading_comments_of]. destruct (is_comment_tok t); [|reflexivity].
  cbn [map concat]. rewrite IH. reflexivity.
Qed.

(* the leading run is a prefix of the slice, and nothing but comments *)
Lemma leading_comments_prefix sl : exists rest, sl = leading_comments_of sl ++ rest /\
  match rest with t :: _ => is_comment_tok t = false | [] => True end.
Proof.
  induction sl as [|t r (rest & E & Hr)]; [exists []; split; [reflexivity | exact I]|].
  cbn [leading_comments_of]. destruct (is_comment_tok t) eqn:Et.
  - exists rest. split; [cbn [app]; f_equal; exact E | exact Hr].
  - exists (t :: r). split; [reflexivity | exact Et].
Qed.

(* an assignment, a call or an empty statement is printed as: every comment token of its own token range,
   each exactly once and in source order, as Display prints it - then the statement's text *)
Theorem leaf_statement_comments f s toks out :
  fmt_stmt f s toks = FOk out ->
  match s with
  | SEmpty inf =>
      exists sl, slice inf toks = Some sl /\ out = concat (map show_tok (comment_tokens sl)) ++ [59; 10]
  | SAssign v e inf =>
      exists sl body, slice inf toks = Some sl /\ fmt_assign_body v e toks = FOk body /\
                      out = concat (map show_tok (comment_tokens sl)) ++ body
  | SCall n a inf =>
      exists sl body, slice inf toks = Some sl /\ fmt_call_body n a toks = FOk body /\
                      out = concat (map show_tok (comment_tokens sl)) ++ body
  | _ => True
  end.
Proof.
  intros H. destruct s as [inf|v e inf|n a inf|c t e inf|c b inf|body inf|inf]; try exact I; cbn [fmt_stmt] in H.
  - apply with_slice_ok in H. destruct H as (sl & Hsl & H). injection H as <-.
    exists sl. split; [exact Hsl|]. apply all_comments_once.
  - apply fbind_ok in H. destruct H as (body & Hb & H). apply with_slice_ok in H. destruct H as (sl & Hsl & H). injection H as <-.
    exists sl, body. split; [exact Hsl|]. split; [exact Hb|]. apply all_comments_once.
  - apply fbind_ok in H. destruct H as (body & Hb & H). apply with_slice_ok in H. destruct H as (sl & Hsl & H). injection H as <-.
    exists sl, body. split; [exact Hsl|]. split; [exact Hb|]. apply all_comments_once.
Qed.

(* ---- syntactic validity of a document (for the full statements and the refutation witness) ---- *)
Definition info_clean (i : info) : bool := is_nil (i_errs i).
Definition ident_clean (i : ident) : bool := info_clean (id_info i).
Definition oident_clean (o : option ident) : bool := match o with Some i => ident_clean i | None => false end.

Fixpoint var_clean (v : variable) : bool :=
  match v with
  | NamedVar i => ident_clean i
  | ArrAccess a idx inf =>
      info_clean inf && var_clean a && match idx with Some (e, _) => expr_clean e | None => false end
  end
with expr_clean (e : expr) : bool :=
  match e with
  | EBin _ l r inf => info_clean inf && expr_clean l && expr_clean r
  | EBrack x inf | EUn _ x inf => info_clean inf && expr_clean x
  | EInt i => info_clean (il_info i) && match il_val i with Some _ => true | None => false end
  | EVar v => var_clean v
  | EErr _ => false
  end.

Definition oexpr_clean (o : option (expr * nat)) : bool := match o with Some (e, _) => expr_clean e | None => false end.

Fixpoint texpr_clean (t : typeexpr) : bool :=
  match t with
  | TNamed i => ident_clean i
  | TArray size base inf =>
      info_clean inf && match size with Some i => info_clean (il_info i) | None => false end
      && match base with Some (b, _) => texpr_clean b | None => false end
  end.
Definition otexpr_clean (o : option (typeexpr * nat)) : bool := match o with Some (t, _) => texpr_clean t | None => false end.

Fixpoint stmt_clean (s : stmt) : bool :=
  match s with
  | SEmpty inf => info_clean inf
  | SAssign v e inf => info_clean inf && var_clean v && oexpr_clean e
  | SCall n a inf => info_clean inf && ident_clean n && forallb (fun x : expr * nat => expr_clean (fst x)) a
  | SIf c t e inf =>
      info_clean inf && oexpr_clean c
      && match t with Some (x, _) => stmt_clean x | None => false end
      && match e with Some (x, _) => stmt_clean x | None => true end
  | SWhile c b inf => info_clean inf && oexpr_clean c && match b with Some (x, _) => stmt_clean x | None => false end
  | SBlock body inf => info_clean inf && forallb (fun x : stmt * nat => stmt_clean (fst x)) body
  | SError _ => false
  end.

Definition vardecl_clean (v : vardecl) : bool :=
  match v with VValid _ n t inf => info_clean inf && oident_clean n && otexpr_clean t | VError _ => false end.
Definition paramdecl_clean (p : paramdecl) : bool :=
  match p with PValid _ _ n t inf => info_clean inf && oident_clean n && otexpr_clean t | PError _ => false end.
Definition gdecl_clean (g : gdecl) : bool :=
  match g with
  | GType d => info_clean (td_info d) && oident_clean (td_name d) && otexpr_clean (td_ty d)
  | GProc d => info_clean (pd_info d) && oident_clean (pd_name d)
               && forallb (fun x : paramdecl * nat => paramdecl_clean (fst x)) (pd_params d)
               && forallb (fun x : vardecl * nat => vardecl_clean (fst x)) (pd_vars d)
               && forallb (fun x : stmt * nat => stmt_clean (fst x)) (pd_stmts d)
  | GError _ => false
  end.
Definition program_clean (p : program) : bool :=
  info_clean (pg_info p) && forallb (fun x : gdecl * nat => gdecl_clean (fst x)) (pg_decls p).

(* no lexical error, the parser completes, no syntax error anywhere in the tree, no missing part *)
Definition syntactically_valid (doc : text) : Prop :=
  exists toks p, lex doc = Some toks /\ forallb (fun t => is_nil (terr t)) toks = true /\
                 parse toks = Done p /\ program_clean p = true.

Definition comment_bodies (toks : list token) : list text :=
  flat_map (fun t => match tk t with Comment s => [trim s] | _ => [] end) toks.
Definition code_kinds (toks : list token) : list kind :=
  filter (fun k => match k with Comment _ => false | _ => true end) (map tk toks).

(* C10 as the property text states it *)
Definition C10_statement : Prop :=
  forall doc ins ts toks out toks',
    syntactically_valid doc -> lex doc = Some toks -> formatted_text doc ins ts = Done out -> lex out = Some toks' ->
    comment_bodies toks' = comment_bodies toks.

(* "proc main() {\n// c\n}\n" *)
Definition c10_witness : text :=
  str "proc main() {" ++ [10] ++ str "// c" ++ [10] ++ str "}" ++ [10].

Theorem c10_refuted : ~ C10_statement.
Proof.
  intros H.
  assert (Hv : syntactically_valid c10_witness).
  { unfold syntactically_valid.
    destruct (lex c10_witness) as [toks|] eqn:El; [|vm_compute in El; discriminate].
    destruct (parse toks) as [p| |] eqn:Ep.
    - exists toks, p. split; [reflexivity|].
      vm_compute in El. injection El as <-. vm_compute in Ep. injection Ep as <-.
      vm_compute. repeat split; reflexivity.
    - vm_compute in El. injection El as <-. vm_compute in Ep. discriminate.
    - vm_compute in El. injection El as <-. vm_compute in Ep. discriminate. }
  destruct (lex c10_witness) as [toks|] eqn:El; [|vm_compute in El; discriminate].
  destruct (formatted_text c10_witness true 4) as [out| |] eqn:Ef; try (vm_compute in Ef; discriminate).
  destruct (lex out) as [toks'|] eqn:El'; [|vm_compute in Ef; injection Ef as <-; vm_compute in El'; discriminate].
  specialize (H c10_witness true 4 toks out toks' Hv El Ef El').
  vm_compute in El. injection El as <-. vm_compute in Ef. injection Ef as <-. vm_compute in El'. injection El' as <-.
  vm_compute in H. discriminate H.
Qed.

(* ================================================================================================
   7. Statements left open (they need the parser round trip, DESIGN C04) - stated, not proved
   ================================================================================================ *)
(* C09: formatting a syntactically valid document keeps the non-comment token kinds (with their values)
   and yields a syntactically valid document *)
Definition C09_statement : Prop :=
  forall doc ins ts toks out toks',
    syntactically_valid doc -> lex doc = Some toks -> formatted_text doc ins ts = Done out -> lex out = Some toks' ->
    code_kinds toks' = code_kinds toks /\ syntactically_valid out.

(* C10, duplicate-freedom only: no comment occurs more often after formatting than before *)
Definition C10_no_dup_statement : Prop :=
  forall doc ins ts toks out toks' c,
    syntactically_valid doc -> lex doc = Some toks -> formatted_text doc ins ts = Done out -> lex out = Some toks' ->
    (count_occ (list_eq_dec N.eq_dec) (comment_bodies toks') c <= count_occ (list_eq_dec N.eq_dec) (comment_bodies toks) c)%nat.

(* C11: idempotence, and canonical form without the same-tree hypothesis *)
Definition C11_idempotent_statement : Prop :=
  forall doc ins ts out,
    syntactically_valid doc -> formatted_text doc ins ts = Done out -> format_request out ins ts = Done None.

Definition C11_canonical_statement : Prop :=
  forall d1 d2 t1 t2 ins ts,
    lex d1 = Some t1 -> lex d2 = Some t2 -> same_kinds t1 t2 ->
    formatted_text d1 ins ts = formatted_text d2 ins ts.

Lemma client_unit ins ts :
  indentation (options_of ins ts) = (if ins then repeat 32 (N.to_nat ts) else [9])
  /\ ind_sym (options_of ins ts) <> 10 /\ ind_sym (options_of ins ts) <> 13.
Proof. split; [apply indentation_options | apply options_sym]. Qed.

(* ================================================================================================
   8. Separators: where the printers glue two spellings with nothing in between, the lexer splits
      the text again at that point (design C09, part B)
   ================================================================================================ *)

(* the next character does not continue a word (identifier, keyword, number) - lexer.rs `kw_ok` *)
Definition word_end (r : text) : bool := kw_ok r.

(* symbols that are no proper prefix of another token: nothing that follows can change them *)
Definition closed_sym (k : kind) : bool :=
  match k with
  | LParen | RParen | LBracket | RBracket | LCurly | RCurly | EqT | NeqT | Comma | Semic | Plus | Minus | Times
  | LeT | GeT | Assign => true
  | _ => false
  end.

Lemma lex_closed_sym k r : closed_sym k = true -> lex_raw (static_str k ++ r) = Some (k, [], static_str k, r).
Proof. destruct k; try discriminate; intros _; reflexivity. Qed.

(* `<`, `>`, `:` and `/` can be continued by `=` resp. `/` *)
Definition sym_continues (k : kind) (r : text) : bool :=
  match k, r with
  | (LtT | GtT | Colon), c :: _ => 61 =? c
  | Divide, c :: _ => 47 =? c
  | _, _ => false
  end.

Lemma lex_open_sym k r :
  match k with LtT | GtT | Colon | Divide => True | _ => False end ->
  sym_continues k r = false -> lex_raw (static_str k ++ r) = Some (k, [], static_str k, r).
Proof.
  destruct k; try contradiction; intros _ H; destruct r as [|c r]; try reflexivity; cbn in H;
    unfold lex_raw, lex_comment, lex_sym; cbn; rewrite H; reflexivity.
Qed.

Lemma lex_keyword p k r : In (p, k) kw_table -> word_end r = true -> lex_raw (p ++ r) = Some (k, [], p, r).
Proof.
  intros Hin Hr. unfold word_end in Hr. cbn in Hin.
  repeat (destruct Hin as [E|Hin]; [injection E as <- <-; unfold lex_raw, lex_comment, lex_sym, lex_kw; cbn; rewrite Hr; reflexivity|]).
  destruct Hin.
Qed.

(* ---- identifiers ---- *)
Definition ident_ok (x : text) : Prop :=
  match x with
  | c0 :: xs => is_ident_start c0 = true /\ forallb is_alnum_trunc xs = true
  | [] => False
  end /\ forallb (fun pk : text * kind => negb (text_eqb (fst pk) x)) kw_table = true.

Lemma ident_start_range c : is_ident_start c = true -> (65 <= c <= 90) \/ (97 <= c <= 122) \/ c = 95.
Proof.
  unfold is_ident_start, is_alpha, is_upper, is_lower.
  rewrite !orb_true_iff, !andb_true_iff, !N.leb_le, N.eqb_eq. tauto.
Qed.

Lemma ident_start_alnum c : is_ident_start c = true -> is_alnum_trunc c = true.
Proof.
  intros H. pose proof (ident_start_range c H) as R. unfold is_alnum_trunc. cbv zeta.
  rewrite N.mod_small by lia. unfold is_ident_start in H. rewrite orb_true_iff in H.
  destruct H as [H|H]; rewrite H; [reflexivity|]. rewrite !orb_true_r. reflexivity.
Qed.

Lemma ident_start_not_digit c : is_ident_start c = true -> is_digit c = false.
Proof.
  intros H. pose proof (ident_start_range c H) as R. unfold is_digit.
  destruct (48 <=? c) eqn:E1; [|reflexivity]. destruct (c <=? 57) eqn:E2; [|reflexivity].
  apply N.leb_le in E1, E2. lia.
Qed.

Lemma ident_start_no_sym c s : is_ident_start c = true -> first_match sym_table (c :: s) = None.
Proof.
  intros H. pose proof (ident_start_range c H) as R.
  assert (Hne : forall p, In p [40; 41; 91; 93; 123; 125; 61; 35; 60; 62; 58; 44; 59; 43; 45; 42; 47] -> (p =? c) = false).
  { intros p Hp. apply N.eqb_neq. intros ->. cbn in Hp. lia. }
  unfold sym_table. cbn [first_match starts].
  rewrite !Hne by (cbn; tauto). reflexivity.
Qed.

Lemma span_word xs r : forallb is_alnum_trunc xs = true -> word_end r = true -> span is_alnum_trunc (xs ++ r) = (xs, r).
Proof.
  intros Hx Hr. induction xs as [|c xs IH]; cbn [app].
  - destruct r as [|c r]; [reflexivity|]. cbn [span]. unfold word_end, kw_ok in Hr.
    destruct (is_alnum_trunc c); [discriminate | reflexivity].
  - cbn [forallb] in Hx. apply andb_true_iff in Hx. destruct Hx as [Hc Hx]. cbn [span]. rewrite Hc, (IH Hx). reflexivity.
Qed.

(* a keyword [p] is not recognised in front of [x ++ r] unless x = p *)
Lemma kw_none p : forallb is_alnum_trunc p = true ->
  forall x r, forallb is_alnum_trunc x = true -> word_end r = true -> x <> p ->
  starts p (x ++ r) && kw_ok (skipn (length p) (x ++ r)) = false.
Proof.
  induction p as [|a p IH]; intros Hp x r Hx Hr Hne.
  - cbn [starts length skipn andb]. destruct x as [|b x]; [congruence|]. cbn [app forallb] in *.
    apply andb_true_iff in Hx. destruct Hx as [Hb _]. unfold kw_ok. rewrite Hb. reflexivity.
  - cbn [forallb] in Hp. apply andb_true_iff in Hp. destruct Hp as [Ha Hp].
    destruct x as [|b x]; cbn [app].
    + destruct r as [|c r]; [reflexivity|]. cbn [starts]. destruct (a =? c) eqn:E; [|reflexivity].
      apply N.eqb_eq in E. subst. unfold word_end, kw_ok in Hr. rewrite Ha in Hr. discriminate.
    + cbn [starts length skipn]. destruct (a =? b) eqn:E; [|reflexivity]. apply N.eqb_eq in E. subst.
      cbn [andb]. cbn [forallb] in Hx. apply andb_true_iff in Hx. destruct Hx as [_ Hx].
      apply IH; try assumption. congruence.
Qed.

Lemma ident_no_kw x r : ident_ok x -> word_end r = true -> first_kw kw_table (x ++ r) = None.
Proof.
  intros [Hx Hk] Hr.
  assert (Hal : forallb is_alnum_trunc x = true).
  { destruct x as [|c0 xs]; [contradiction|]. destruct Hx as [H0 Hxs]. cbn [forallb]. rewrite (ident_start_alnum _ H0), Hxs. reflexivity. }
  assert (Hstep : forall p, forallb is_alnum_trunc p = true -> negb (text_eqb p x) = true ->
                            starts p (x ++ r) && kw_ok (skipn (length p) (x ++ r)) = false).
  { intros p Hp Hn. apply kw_none; try assumption. intros ->. rewrite text_eqb_refl in Hn. discriminate. }
  unfold kw_table in *. cbn [forallb fst] in Hk. rewrite !andb_true_iff in Hk.
  cbn [first_kw].
  repeat (rewrite Hstep; [|reflexivity|tauto]). reflexivity.
Qed.

(* an identifier followed by anything that does not continue a word lexes as that identifier *)
Theorem lex_ident_glue x r : ident_ok x -> word_end r = true -> lex_raw (x ++ r) = Some (Ident x, [], x, r).
Proof.
  intros Hx Hr. pose proof (ident_no_kw x r Hx Hr) as Hkw. destruct Hx as [Hx _].
  destruct x as [|c0 xs]; [contradiction|]. destruct Hx as [H0 Hxs].
  pose proof (ident_start_range c0 H0) as R.
  unfold lex_raw. cbn [app] in *.
  assert (E1 : lex_comment (c0 :: xs ++ r) = None).
  { unfold lex_comment. cbn [starts]. replace (47 =? c0) with false by (symmetry; apply N.eqb_neq; lia). reflexivity. }
  assert (E2 : lex_sym (c0 :: xs ++ r) = None) by (unfold lex_sym; rewrite ident_start_no_sym by exact H0; reflexivity).
  assert (E3 : lex_kw (c0 :: xs ++ r) = None) by (unfold lex_kw; rewrite Hkw; reflexivity).
  assert (E4 : lex_char (c0 :: xs ++ r) = None).
  { unfold lex_char. destruct c0 as [|p]; [reflexivity|]. do 6 (try (destruct p as [p|p|]; try reflexivity)). all: lia. }
  assert (E5 : lex_hex (c0 :: xs ++ r) = None).
  { unfold lex_hex. cbn [starts]. replace (48 =? c0) with false by (symmetry; apply N.eqb_neq; lia). reflexivity. }
  assert (E6 : lex_int (c0 :: xs ++ r) = None).
  { unfold lex_int. cbn [span]. rewrite (ident_start_not_digit _ H0). reflexivity. }
  rewrite E1, E2, E3, E4, E5, E6. cbn [orelse]. unfold lex_ident. rewrite H0.
  rewrite (span_word xs r Hxs Hr). reflexivity.
Qed.

(* ---- literals: what Display prints lexes back to the same kind with the same value ---- *)
Lemma not_word_not_alnum c : is_alnum_trunc c = false -> c < 256 -> is_alpha c = false /\ is_digit c = false.
Proof.
  unfold is_alnum_trunc. cbv zeta. intros H Hc. rewrite N.mod_small in H by exact Hc.
  rewrite !orb_false_iff in H. tauto.
Qed.

Lemma digit_range c : is_digit c = true <-> 48 <= c <= 57.
Proof. unfold is_digit. rewrite andb_true_iff, !N.leb_le. tauto. Qed.

Lemma hex_range c : is_hex c = true <-> (48 <= c <= 57) \/ (65 <= c <= 70) \/ (97 <= c <= 102).
Proof. unfold is_hex, is_digit. rewrite !orb_true_iff, !andb_true_iff, !N.leb_le. tauto. Qed.

Lemma hex_is_alnum c : is_hex c = true -> is_alnum_trunc c = true.
Proof.
  intros H. apply hex_range in H. unfold is_alnum_trunc. cbv zeta. rewrite N.mod_small by lia.
  unfold is_alpha, is_upper, is_lower, is_digit.
  destruct H as [H|[H|H]].
  - replace (48 <=? c) with true by (symmetry; apply N.leb_le; lia).
    replace (c <=? 57) with true by (symmetry; apply N.leb_le; lia). rewrite !orb_true_r. reflexivity.
  - replace (65 <=? c) with true by (symmetry; apply N.leb_le; lia).
    replace (c <=? 90) with true by (symmetry; apply N.leb_le; lia). reflexivity.
  - replace (97 <=? c) with true by (symmetry; apply N.leb_le; lia).
    replace (c <=? 122) with true by (symmetry; apply N.leb_le; lia). rewrite !orb_true_r. reflexivity.
Qed.

Lemma digit_is_hex c : is_digit c = true -> is_hex c = true.
Proof. intros H. unfold is_hex. rewrite H. reflexivity. Qed.

Lemma span_class (cls : char -> bool) ds r :
  forallb cls ds = true -> (forall c, cls c = true -> is_alnum_trunc c = true) -> word_end r = true ->
  span cls (ds ++ r) = (ds, r).
Proof.
  intros Hd Hcls Hr. induction ds as [|c ds IH]; cbn [app].
  - destruct r as [|c r]; [reflexivity|]. cbn [span]. destruct (cls c) eqn:E; [|reflexivity].
    apply Hcls in E. unfold word_end, kw_ok in Hr. rewrite E in Hr. discriminate.
  - cbn [forallb] in Hd. apply andb_true_iff in Hd. destruct Hd as [Hc Hd]. cbn [span]. rewrite Hc, (IH Hd). reflexivity.
Qed.

Lemma digit_no_sym c s : is_digit c = true -> first_match sym_table (c :: s) = None.
Proof.
  intros H. apply digit_range in H.
  assert (Hne : forall p, In p [40; 41; 91; 93; 123; 125; 61; 35; 60; 62; 58; 44; 59; 43; 45; 42; 47] -> (p =? c) = false).
  { intros p Hp. apply N.eqb_neq. intros ->. cbn in Hp. lia. }
  unfold sym_table. cbn [first_match starts]. rewrite !Hne by (cbn; tauto). reflexivity.
Qed.

Lemma digit_no_kw c s : is_digit c = true -> first_kw kw_table (c :: s) = None.
Proof.
  intros H. apply digit_range in H.
  assert (Hne : forall p, In p [105; 101; 119; 97; 111; 112; 114; 116; 118] -> (p =? c) = false).
  { intros p Hp. apply N.eqb_neq. intros ->. cbn in Hp. lia. }
  unfold kw_table. cbn [first_kw starts]. rewrite !Hne by (cbn; tauto). reflexivity.
Qed.

(* a string of decimal digits *)
Theorem lex_int_glue d r :
  d <> [] -> forallb is_digit d = true -> dec_value d < u32_limit -> word_end r = true ->
  lex_raw (d ++ r) = Some (IntT (IntOk (dec_value d)), [], d, r).
Proof.
  intros Hne Hd Hv Hr. destruct d as [|c0 ds]; [congruence|]. clear Hne.
  pose proof Hd as Hd0. cbn [forallb] in Hd0. apply andb_true_iff in Hd0. destruct Hd0 as [H0 Hds].
  pose proof (proj1 (digit_range c0) H0) as R.
  assert (Hsp : span is_digit ((c0 :: ds) ++ r) = (c0 :: ds, r)).
  { apply span_class; [exact Hd | | exact Hr]. intros c Hc. apply hex_is_alnum. apply digit_is_hex. exact Hc. }
  unfold lex_raw. cbn [app] in *.
  assert (E1 : lex_comment (c0 :: ds ++ r) = None).
  { unfold lex_comment. cbn [starts]. replace (47 =? c0) with false by (symmetry; apply N.eqb_neq; lia). reflexivity. }
  assert (E2 : lex_sym (c0 :: ds ++ r) = None) by (unfold lex_sym; rewrite digit_no_sym by exact H0; reflexivity).
  assert (E3 : lex_kw (c0 :: ds ++ r) = None) by (unfold lex_kw; rewrite digit_no_kw by exact H0; reflexivity).
  assert (E4 : lex_char (c0 :: ds ++ r) = None).
  { unfold lex_char. destruct c0 as [|p]; [reflexivity|]. do 6 (try (destruct p as [p|p|]; try reflexivity)). all: lia. }
  assert (E5 : lex_hex (c0 :: ds ++ r) = None).
  { unfold lex_hex. cbn [starts]. destruct (48 =? c0); [|reflexivity]. cbn [andb].
    destruct ds as [|c1 ds'].
    - destruct r as [|c1 r']; [reflexivity|]. cbn [app]. destruct (120 =? c1) eqn:E; [|reflexivity].
      apply N.eqb_eq in E. subst. discriminate Hr.
    - cbn [app]. destruct (120 =? c1) eqn:E; [|reflexivity]. apply N.eqb_eq in E. subst. discriminate Hds. }
  rewrite E1, E2, E3, E4, E5. cbn [orelse]. unfold lex_int. rewrite Hsp. cbn [fst snd].
  apply N.ltb_lt in Hv. rewrite Hv. reflexivity.
Qed.

(* "0x" and hexadecimal digits *)
Theorem lex_hex_glue h r :
  h <> [] -> forallb is_hex h = true -> hex_value h < u32_limit -> word_end r = true ->
  lex_raw ([48; 120] ++ h ++ r) = Some (HexT (IntOk (hex_value h)), [], [48; 120] ++ h, r).
Proof.
  intros Hne Hh Hv Hr.
  assert (Hsp : span is_hex (h ++ r) = (h, r)) by (apply span_class; [exact Hh | apply hex_is_alnum | exact Hr]).
  unfold lex_raw. cbn [app].
  assert (E1 : lex_comment (48 :: 120 :: h ++ r) = None) by reflexivity.
  assert (E2 : lex_sym (48 :: 120 :: h ++ r) = None) by reflexivity.
  assert (E3 : lex_kw (48 :: 120 :: h ++ r) = None) by reflexivity.
  assert (E4 : lex_char (48 :: 120 :: h ++ r) = None) by reflexivity.
  rewrite E1, E2, E3, E4. cbn [orelse]. unfold lex_hex. cbn [starts N.eqb Pos.eqb andb skipn].
  rewrite Hsp. cbn [fst snd]. destruct h as [|c0 hs]; [congruence|].
  apply N.ltb_lt in Hv. rewrite Hv. reflexivity.
Qed.

(* a character literal as Display prints it: 'c', and '\n' escaped *)
Lemma lex_raw_tick (c : char) (r : text) : lex_raw (39 :: c :: 39 :: r) = Some (CharT c, [], [39; c; 39], r).
Proof.
  unfold lex_raw.
  assert (E1 : lex_comment (39 :: c :: 39 :: r) = None) by reflexivity.
  assert (E2 : lex_sym (39 :: c :: 39 :: r) = None) by reflexivity.
  assert (E3 : lex_kw (39 :: c :: 39 :: r) = None) by reflexivity.
  rewrite E1, E2, E3. cbn [orelse]. unfold lex_char. cbn [starts].
  destruct (92 =? c); reflexivity.
Qed.

Theorem lex_char_glue c r :
  lex_raw (show_kind (CharT c) ++ r) = Some (CharT c, [], show_kind (CharT c), r).
Proof.
  unfold show_kind. destruct (c =? 10) eqn:E10.
  - apply N.eqb_eq in E10. subst. reflexivity.
  - apply lex_raw_tick.
Qed.

(* ---- what Display prints for a number is its digit string ---- *)
Section PrintBase.
Variable base : N.
Variable val : char -> N.
Variable cls : char -> bool.
Hypothesis base_big : 2 <= base.
Hypothesis val_digit : forall d, d < base -> val (digit_char d) = d.
Hypothesis cls_digit : forall d, d < base -> cls (digit_char d) = true.

Definition value_of (l : text) : N := fold_left (fun a c => a * base + val c) l 0.

Lemma value_snoc l c : value_of (l ++ [c]) = value_of l * base + val c.
Proof. unfold value_of. rewrite fold_left_app. reflexivity. Qed.

Lemma print_base_spec : forall fuel n acc, n < 2 ^ N.of_nat fuel -> n <> 0 ->
  exists D, print_base_fuel fuel base n acc = D ++ acc /\ D <> [] /\ forallb cls D = true /\ value_of D = n.
Proof.
  induction fuel as [|f IH]; intros n acc Hn Hnz.
  - cbn in Hn. lia.
  - cbn [print_base_fuel]. assert (Hm : n mod base < base) by (apply N.mod_lt; lia).
    destruct (n / base =? 0) eqn:E.
    + apply N.eqb_eq in E. exists [digit_char (n mod base)]. split; [reflexivity|]. split; [discriminate|].
      split; [cbn; rewrite cls_digit by exact Hm; reflexivity|].
      unfold value_of. cbn [fold_left]. rewrite val_digit by exact Hm.
      pose proof (N.div_mod n base ltac:(lia)) as Hdm. rewrite E in Hdm. lia.
    + apply N.eqb_neq in E.
      assert (Hlt : n / base < 2 ^ N.of_nat f).
      { apply N.div_lt_upper_bound; [lia|]. rewrite Nat2N.inj_succ, N.pow_succ_r' in Hn.
        assert (2 * 2 ^ N.of_nat f <= base * 2 ^ N.of_nat f) by (apply N.mul_le_mono_r; exact base_big). lia. }
      destruct (IH (n / base) (digit_char (n mod base) :: acc) Hlt E) as (D & HD & Hne & Hc & Hv).
      exists (D ++ [digit_char (n mod base)]). split; [rewrite HD, <- app_assoc; reflexivity|].
      split; [destruct D; discriminate|]. split.
      * rewrite forallb_app, Hc. cbn. rewrite cls_digit by exact Hm. reflexivity.
      * rewrite value_snoc, Hv, val_digit by exact Hm. pose proof (N.div_mod n base ltac:(lia)). lia.
Qed.
End PrintBase.

Lemma size_nat_bound n : n < 2 ^ N.of_nat (N.size_nat n).
Proof.
  destruct n as [|p]; [reflexivity|]. cbn [N.size_nat].
  induction p as [p IH|p IH|]; cbn [Pos.size_nat]; rewrite ?Nat2N.inj_succ, ?N.pow_succ_r' in *; try lia.
Qed.

Lemma dec_value_is l : dec_value l = value_of 10 digit_val l.
Proof. reflexivity. Qed.
Lemma hex_value_is l : hex_value l = value_of 16 hex_val l.
Proof. reflexivity. Qed.

Lemma digit_char_dec d : d < 10 -> digit_val (digit_char d) = d /\ is_digit (digit_char d) = true.
Proof.
  intros H. unfold digit_char. replace (d <? 10) with true by (symmetry; apply N.ltb_lt; exact H).
  split; [unfold digit_val; lia|]. apply digit_range. lia.
Qed.

Lemma digit_char_hex d : d < 16 -> hex_val (digit_char d) = d /\ is_hex (digit_char d) = true.
Proof.
  intros H. unfold digit_char. destruct (d <? 10) eqn:E.
  - apply N.ltb_lt in E. split; [|apply hex_range; lia].
    unfold hex_val. replace (is_digit (48 + d)) with true by (symmetry; apply digit_range; lia). lia.
  - apply N.ltb_ge in E. split; [|apply hex_range; lia].
    unfold hex_val. replace (is_digit (55 + d)) with false.
    + replace (55 + d <=? 70) with true by (symmetry; apply N.leb_le; lia). lia.
    + symmetry. destruct (is_digit (55 + d)) eqn:Ed; [|reflexivity]. apply digit_range in Ed. lia.
Qed.

Lemma print_dec_spec n : print_dec n <> [] /\ forallb is_digit (print_dec n) = true /\ dec_value (print_dec n) = n.
Proof.
  destruct (N.eq_dec n 0) as [->|Hnz]; [repeat split; discriminate|].
  unfold print_dec.
  destruct (print_base_spec 10 digit_val is_digit ltac:(lia) (fun d H => proj1 (digit_char_dec d H)) (fun d H => proj2 (digit_char_dec d H))
              (S (N.size_nat n)) n []) as (D & HD & Hne & Hc & Hv); [|exact Hnz|].
  - pose proof (size_nat_bound n). rewrite Nat2N.inj_succ, N.pow_succ_r'. lia.
  - rewrite HD, app_nil_r. repeat split; assumption.
Qed.

Lemma print_hex_spec n :
  print_hex_upper n <> [] /\ forallb is_hex (print_hex_upper n) = true /\ hex_value (print_hex_upper n) = n.
Proof.
  destruct (N.eq_dec n 0) as [->|Hnz]; [repeat split; discriminate|].
  unfold print_hex_upper.
  destruct (print_base_spec 16 hex_val is_hex ltac:(lia) (fun d H => proj1 (digit_char_hex d H)) (fun d H => proj2 (digit_char_hex d H))
              (S (N.size_nat n)) n []) as (D & HD & Hne & Hc & Hv); [|exact Hnz|].
  - pose proof (size_nat_bound n). rewrite Nat2N.inj_succ, N.pow_succ_r'. lia.
  - rewrite HD, app_nil_r. repeat split; assumption.
Qed.

(* the literal round trips: Display then lexer give the token back, value included *)
Theorem int_roundtrip i r : i < u32_limit -> word_end r = true ->
  lex_raw (show_kind (IntT (IntOk i)) ++ r) = Some (IntT (IntOk i), [], show_kind (IntT (IntOk i)), r).
Proof.
  intros Hi Hr. cbn [show_kind]. destruct (print_dec_spec i) as (Hne & Hd & Hv).
  rewrite lex_int_glue; try assumption; rewrite Hv; [reflexivity | exact Hi].
Qed.

Theorem hex_roundtrip i r : i < u32_limit -> word_end r = true ->
  lex_raw (show_kind (HexT (IntOk i)) ++ r) = Some (HexT (IntOk i), [], show_kind (HexT (IntOk i)), r).
Proof.
  intros Hi Hr. cbn [show_kind]. unfold print_hex04. cbv zeta. destruct (print_hex_spec i) as (Hne & Hd & Hv).
  destruct (print_hex_upper i) as [|a [|b D']]; [congruence| |].
  - subst i.
    assert (Hd2 : forallb is_hex [48; a] = true) by (cbn [forallb] in *; rewrite Hd; reflexivity).
    pose proof (lex_hex_glue [48; a] r ltac:(discriminate) Hd2 Hi Hr) as G. exact G.
  - pose proof (lex_hex_glue (a :: b :: D') r ltac:(discriminate) Hd ltac:(rewrite Hv; exact Hi) Hr) as G.
    rewrite Hv in G. exact G.
Qed.

(* ---- the separator table ---- *)
(* classes of tokens the printers put side by side with nothing in between *)
Inductive gclass := GId | GLit | GSym (k : kind).

(* [spelled g s k]: s is a spelling the printers produce for a token of class g, and k the kind it has *)
Inductive spelled : gclass -> text -> kind -> Prop :=
| sp_ident x : ident_ok x -> spelled GId x (Ident x)
| sp_int i : i < u32_limit -> spelled GLit (show_kind (IntT (IntOk i))) (IntT (IntOk i))
| sp_hex i : i < u32_limit -> spelled GLit (show_kind (HexT (IntOk i))) (HexT (IntOk i))
| sp_char c : spelled GLit (show_kind (CharT c)) (CharT c)
| sp_sym k : closed_sym k = true -> spelled (GSym k) (static_str k) k.

(* left class l directly followed by right class r: is the boundary safe? *)
Definition glue_ok (l r : gclass) : bool :=
  match l with
  | GSym k => closed_sym k
  | GId | GLit =>
      match r with
      | GSym k' => match static_str k' with c :: _ => negb (is_alnum_trunc c) | [] => false end
      | _ => false
      end
  end.

(* the spellings of the right neighbour: a symbol's fixed spelling, anything for identifiers and literals *)
Definition right_spelling (r : gclass) (s : text) : Prop :=
  match r with GSym k' => s = static_str k' | _ => True end.

Definition glue_table : list (gclass * gclass) :=
  (* identifier / literal / `)` / `]` followed by a closing or separating symbol *)
  map (fun k => (GId, GSym k)) [LParen; LBracket; Colon; Semic; Comma; RParen; RBracket]
  ++ map (fun k => (GLit, GSym k)) [Semic; Comma; RParen; RBracket]
  ++ map (fun k => (GSym RParen, GSym k)) [Semic; Comma; RParen; RBracket]
  ++ map (fun k => (GSym RBracket, GSym k)) [Semic; Comma; RParen; RBracket; LBracket]
  (* `(`, `[`, unary `-` followed by the first token of an expression, parameter or nothing *)
  ++ map (fun r => (GSym LParen, r)) [GId; GLit; GSym LParen; GSym Minus; GSym RParen; GSym KRef]
  ++ map (fun r => (GSym LBracket, r)) [GId; GLit; GSym LParen; GSym Minus; GSym RBracket]
  ++ map (fun r => (GSym Minus, r)) [GId; GLit; GSym LParen; GSym Minus].

Theorem glue_table_ok : forallb (fun lr : gclass * gclass => glue_ok (fst lr) (snd lr)) glue_table = true.
Proof. vm_compute. reflexivity. Qed.

Lemma word_end_app s rest : match s with c :: _ => negb (is_alnum_trunc c) | [] => false end = true -> word_end (s ++ rest) = true.
Proof. destruct s as [|c s]; [discriminate|]. intros H. exact H. Qed.

(* lifting the table: at a safe boundary the lexer cuts exactly where the printer glued *)
Theorem glue_lift l r sl k sr rest :
  glue_ok l r = true -> spelled l sl k -> right_spelling r sr ->
  lex_raw (sl ++ sr ++ rest) = Some (k, [], sl, sr ++ rest).
Proof.
  intros Hok Hs Hr. destruct Hs as [x Hx|i Hi|i Hi|c|k Hk].
  - destruct r as [| |k']; try discriminate Hok. cbn in Hr. subst sr.
    apply lex_ident_glue; [exact Hx | apply word_end_app; exact Hok].
  - destruct r as [| |k']; try discriminate Hok. cbn in Hr. subst sr.
    apply int_roundtrip; [exact Hi | apply word_end_app; exact Hok].
  - destruct r as [| |k']; try discriminate Hok. cbn in Hr. subst sr.
    apply hex_roundtrip; [exact Hi | apply word_end_app; exact Hok].
  - apply lex_char_glue.
  - apply lex_closed_sym. exact Hk.
Qed.
