(* Proofs about Model/Goto.v (goto.rs) for ALL documents, and the formal reading of property C12:
   the syntactic occurrences of a program, the declaration each is bound to under SPL scoping
   (computed from the tree only, never from the symbol table), the full statement, and executable
   instances of it: the witnesses of the two findings repaired by /repo b909979 (on which the
   statement was refuted before and holds now) and two larger samples. *)
From Coq Require Import Lia Arith PeanoNat Bool List NArith.
From Spl Require Import Model.Goto Model.Refs.
From Spl Require Export Spec.Nav.
Import ListNotations.
Local Open Scope nat_scope.

(* ------------------------------------------------------------------------------------------------
   basic facts *)

Lemma text_eqb_true : forall a b, text_eqb a b = true -> a = b.
Proof.
  induction a as [|x a IH]; destruct b as [|y b]; simpl; intros H; try discriminate; auto.
  apply andb_true_iff in H. destruct H as [H1 H2]. apply N.eqb_eq in H1. subst. f_equal. auto.
Qed.

Lemma lookup_in {V} (t : list (text * V)) k v :
  lookup t k = Some v -> exists k', In (k', v) t /\ text_eqb k' k = true.
Proof.
  induction t as [|[k' v'] t IH]; simpl; [discriminate|].
  destruct (text_eqb k' k) eqn:E; intros H.
  - inversion H; subst. exists k'. split; auto.
  - destruct (IH H) as [k2 [H1 H2]]. exists k2. auto.
Qed.

Lemma in_firstn {A} n (l : list A) x : In x (firstn n l) -> In x l.
Proof. revert l; induction n; destruct l; simpl; intros H; auto; try contradiction. destruct H; auto. Qed.
Lemma in_skipn {A} n (l : list A) x : In x (skipn n l) -> In x l.
Proof. revert l; induction n; destruct l; simpl; intros H; auto. Qed.

Lemma slice_in toks r sl : slice toks r = ROk sl -> forall t, In t sl -> In t toks.
Proof.
  unfold slice. destruct (Nat.ltb (snd r) (fst r)); [discriminate|].
  destruct (Nat.ltb (length toks) (snd r)); [discriminate|].
  intros H t Ht. inversion H; subst. eapply in_skipn, in_firstn; eauto.
Qed.

Lemma slice_ok toks r :
  range_ok (length toks) r = true -> exists sl, slice toks r = ROk sl /\ length sl = range_len r.
Proof.
  unfold range_ok, slice, range_len. intros H. apply andb_true_iff in H. destruct H as [H1 H2].
  apply Nat.leb_le in H1. apply Nat.leb_le in H2.
  destruct (Nat.ltb (snd r) (fst r)) eqn:E1; [apply Nat.ltb_lt in E1; lia|].
  destruct (Nat.ltb (length toks) (snd r)) eqn:E2; [apply Nat.ltb_lt in E2; lia|].
  eexists; split; [reflexivity|]. rewrite firstn_length, skipn_length. lia.
Qed.

(* the text range of an identifier is the range of a token of the slice, or the empty range at the
   end of one *)
Definition token_range (toks : list token) (r : N * N) : Prop :=
  exists t, In t toks /\ (r = (ts t, te t) \/ r = (te t, te t)).

(* identifiers: the last token of a non-empty range, or the empty range at the end of token [i_e] *)
Lemma ident_text_range_token sl i r : ident_text_range sl i = ROk r -> token_range sl r.
Proof.
  unfold ident_text_range.
  destruct (Nat.ltb (i_s (id_info i)) (i_e (id_info i))) eqn:E.
  - destruct (nth_error sl (i_e (id_info i) - 1)) as [t|] eqn:Hn; [|discriminate].
    intros H; inversion H; subst. exists t. split; [eapply nth_error_In; eauto|now left].
  - unfold info_text_range, byte_range; simpl. rewrite E.
    destruct (nth_error sl (i_e (id_info i))) as [t|] eqn:Hn; simpl; [|discriminate].
    intros H; inversion H; subst. exists t. split; [eapply nth_error_In; eauto|now right].
Qed.

Lemma ident_text_range_ok sl i :
  info_ok (length sl) (id_info i) = true -> exists r, ident_text_range sl i = ROk r.
Proof.
  unfold info_ok, ident_text_range.
  destruct (Nat.ltb (i_s (id_info i)) (i_e (id_info i))) eqn:E; intros H.
  - apply Nat.leb_le in H. apply Nat.ltb_lt in E.
    destruct (nth_error sl (i_e (id_info i) - 1)) eqn:Hn; [eauto|].
    apply nth_error_None in Hn. lia.
  - apply Nat.ltb_lt in H. unfold info_text_range, byte_range; simpl. rewrite E.
    destruct (nth_error sl (i_e (id_info i))) eqn:Hn; simpl; [eauto|].
    apply nth_error_None in Hn. lia.
Qed.

Lemma hd_rev_some {A} (l : list A) :
  0 < length l -> exists f, hd_error l = Some f /\ exists z, hd_error (rev l) = Some z.
Proof.
  destruct l as [|f l]; simpl; [lia|]. intros _. exists f. split; auto.
  destruct (rev l ++ [f]) eqn:E; [|simpl; eauto].
  apply (f_equal (@length A)) in E. rewrite app_length in E. simpl in E. lia.
Qed.

Lemma info_text_range_ok sl i :
  info_ok (length sl) i = true -> exists r, info_text_range sl i = ROk r.
Proof.
  unfold info_ok, info_text_range, byte_range; simpl.
  destruct (Nat.ltb (i_s i) (i_e i)) eqn:E; intros H.
  - apply Nat.leb_le in H. apply Nat.ltb_lt in E.
    destruct (Nat.ltb (length sl) (i_e i)) eqn:E2; [apply Nat.ltb_lt in E2; lia|].
    assert (L : length (firstn (i_e i - i_s i) (skipn (i_s i) sl)) = i_e i - i_s i)
      by (rewrite firstn_length, skipn_length; lia).
    destruct (hd_rev_some (firstn (i_e i - i_s i) (skipn (i_s i) sl))) as [f [Hf [l Hl]]]; [lia|].
    rewrite Hf, Hl. simpl. eauto.
  - apply Nat.ltb_lt in H. destruct (nth_error sl (i_e i)) eqn:Hn; simpl; [eauto|].
    apply nth_error_None in Hn. lia.
Qed.

(* ------------------------------------------------------------------------------------------------
   the frame *)

(* `resolve name ctx table gp` is Refs.resolve (references.rs `resolve`); goto.rs inlines the same
   lookup in each handler *)

Lemma with_cursor_none {A} d l c (k : text -> gentry -> bool -> res (option A)) cur :
  doc_cursor d l c = ROk cur -> cursor_ident cur = None \/ c_ctx cur = None ->
  with_cursor d l c k = ROk None.
Proof.
  unfold with_cursor. intros -> H. simpl.
  destruct H as [H|H]; rewrite H; [reflexivity|]. destruct (cursor_ident cur) as [[? ?]|]; reflexivity.
Qed.

Lemma no_identifier_no_location d l c cur :
  doc_cursor d l c = ROk cur -> cursor_ident cur = None \/ c_ctx cur = None ->
  goto_declaration d l c = ROk None /\ goto_definition d l c = ROk None
  /\ goto_type_definition d l c = ROk None /\ goto_implementation d l c = ROk None.
Proof.
  intros H1 H2. unfold goto_definition, goto_declaration, goto_type_definition, goto_implementation.
  repeat split; eapply with_cursor_none; eauto.
Qed.

(* what a handler returns on a position is what its `_at` function returns on the identifier and
   context found there *)
Lemma with_cursor_some {A} d l c (k : text -> gentry -> bool -> res (option A)) x :
  with_cursor d l c k = ROk (Some x) ->
  exists cur name r ctx, doc_cursor d l c = ROk cur /\ cursor_ident cur = Some (name, r)
                         /\ c_ctx cur = Some ctx /\ k name ctx (is_global_position cur) = ROk (Some x).
Proof.
  unfold with_cursor. destruct (doc_cursor d l c) as [cur|] eqn:E1; simpl; [|discriminate].
  destruct (cursor_ident cur) as [[name r]|] eqn:E2; [|discriminate].
  destruct (c_ctx cur) as [ctx|] eqn:E3; [|discriminate].
  intros H. exists cur, name, r, ctx. repeat split; auto.
Qed.

(* ------------------------------------------------------------------------------------------------
   predefined entities *)

Lemma predefined_no_location d name ctx gp e :
  resolve name ctx (d_table d) gp = Some e -> is_default e = true ->
  declaration_at d name ctx gp = ROk None /\ implementation_at d name ctx gp = ROk None.
Proof.
  unfold resolve, declaration_at, implementation_at. destruct ctx as [t|p]; intros H D.
  - split; [|reflexivity].
    destruct (text_eqb name s_int); [reflexivity|].
    destruct (lookup (d_table d) name) as [ge|]; simpl in H; [|discriminate].
    inversion H; subst. now rewrite D.
  - rewrite H. split.
    + now rewrite D.
    + destruct e; try reflexivity. now rewrite D.
Qed.

(* typeDefinition: no location for `int`, for procedures, for variables whose type is primitive,
   unknown, or an array whose creator is not a type of the table (an anonymous array type) *)
Definition no_type_target (d : doc) (name : text) (e : entry) : Prop :=
  match e with
  | EntType _ => name = s_int
  | EntProc _ => True
  | EntVar v | EntParam v =>
      match ve_ty v with
      | Some (DArray _ _ creator) =>
          match lookup (d_table d) creator with Some (GTypeE _) => False | _ => True end
      | _ => True
      end
  end.

Lemma text_eqb_refl' a : text_eqb a a = true.
Proof. induction a; simpl; auto. rewrite N.eqb_refl. auto. Qed.

Lemma type_definition_none d name ctx gp e :
  resolve name ctx (d_table d) gp = Some e -> no_type_target d name e -> type_definition_at d name ctx gp = ROk None.
Proof.
  destruct ctx as [t|p]; simpl; intros H N.
  - destruct (text_eqb name s_int) eqn:E; [reflexivity|].
    destruct (lookup (d_table d) name) as [[t'|p']|]; simpl in H; try reflexivity.
    inversion H; subst. simpl in N. subst. now rewrite text_eqb_refl' in E.
  - rewrite H. destruct e as [t'|p'|v|v]; simpl in N; try reflexivity.
    + subst. now rewrite text_eqb_refl'.
    + destruct (ve_ty v) as [[| |s b cr]|]; try reflexivity.
      destruct (lookup (d_table d) cr) as [[?|?]|]; try reflexivity. contradiction.
    + destruct (ve_ty v) as [[| |s b cr]|]; try reflexivity.
      destruct (lookup (d_table d) cr) as [[?|?]|]; try reflexivity. contradiction.
Qed.

(* ------------------------------------------------------------------------------------------------
   every answer is the range of a token of the document *)

Definition loc_of_token (d : doc) (x : loc) : Prop :=
  exists t, In t (d_toks d)
            /\ (x = pos_range (ts t, te t) (d_text d) \/ x = pos_range (te t, te t) (d_text d)).

Lemma answer_token d sl e x :
  (forall t, In t sl -> In t (d_toks d)) -> answer d sl e = ROk (Some x) -> loc_of_token d x.
Proof.
  unfold answer, entry_text_range. intros Hs.
  destruct (ident_text_range sl (entry_name e)) as [r|] eqn:E; simpl; [|discriminate].
  intros H; inversion H; subst.
  destruct (ident_text_range_token _ _ _ E) as [t [Ht [-> | ->]]]; exists t; auto.
Qed.

Ltac slice_case H :=
  match type of H with
  | context [slice ?a ?b] =>
      let E := fresh "E" in destruct (slice a b) as [?sl|] eqn:E; simpl in H; [|discriminate]
  end.

Lemma declaration_token d name ctx gp x : declaration_at d name ctx gp = ROk (Some x) -> loc_of_token d x.
Proof.
  destruct ctx as [t|p]; simpl.
  - destruct (text_eqb name s_int); [discriminate|].
    destruct (lookup (d_table d) name) as [ge|]; [|discriminate].
    destruct (is_default (entry_of_g ge)); [discriminate|].
    intros H. slice_case H. eapply answer_token; [|exact H]. eapply slice_in; eauto.
  - destruct (lookup_for _ _ gp name) as [e|]; [|discriminate].
    destruct (is_default e); [discriminate|].
    intros H. destruct e as [t|q|v|v]; simpl in H.
    + slice_case H. eapply answer_token; [|exact H]. eapply slice_in; eauto.
    + slice_case H. eapply answer_token; [|exact H]. eapply slice_in; eauto.
    + slice_case H. slice_case H. eapply answer_token; [|exact H].
      intros t Ht. eapply slice_in; [exact E|]. eapply slice_in; eauto.
    + slice_case H. slice_case H. eapply answer_token; [|exact H].
      intros t Ht. eapply slice_in; [exact E|]. eapply slice_in; eauto.
Qed.

Lemma type_definition_token d name ctx gp x : type_definition_at d name ctx gp = ROk (Some x) -> loc_of_token d x.
Proof.
  destruct ctx as [t|p]; simpl.
  - destruct (text_eqb name s_int); [discriminate|].
    destruct (lookup (d_table d) name) as [[t'|p']|]; try discriminate.
    intros H. slice_case H. eapply answer_token; [|exact H]. eapply slice_in; eauto.
  - destruct (lookup_for _ _ gp name) as [[t'|p'|v|v]|]; try discriminate.
    + destruct (text_eqb name s_int); [discriminate|].
      intros H. slice_case H. eapply answer_token; [|exact H]. eapply slice_in; eauto.
    + destruct (ve_ty v) as [[| |s b cr]|]; try discriminate.
      destruct (lookup (d_table d) cr) as [[t'|?]|]; try discriminate.
      destruct (opt_dt_eqb _ _); [|discriminate].
      intros H. slice_case H. eapply answer_token; [|exact H]. eapply slice_in; eauto.
    + destruct (ve_ty v) as [[| |s b cr]|]; try discriminate.
      destruct (lookup (d_table d) cr) as [[t'|?]|]; try discriminate.
      destruct (opt_dt_eqb _ _); [|discriminate].
      intros H. slice_case H. eapply answer_token; [|exact H]. eapply slice_in; eauto.
Qed.

Lemma implementation_refines d name ctx gp x :
  implementation_at d name ctx gp = ROk (Some x) -> declaration_at d name ctx gp = ROk (Some x).
Proof.
  unfold implementation_at, declaration_at. destruct ctx as [t|p]; [discriminate|].
  destruct (lookup_for _ _ gp name) as [[t'|q|v|v]|]; try discriminate.
  destruct (is_default (EntProc q)) eqn:D; [discriminate|]. simpl. auto.
Qed.

Lemma answer_is_a_token d l c x :
  (goto_declaration d l c = ROk (Some x) -> loc_of_token d x)
  /\ (goto_definition d l c = ROk (Some x) -> loc_of_token d x)
  /\ (goto_type_definition d l c = ROk (Some x) -> loc_of_token d x)
  /\ (goto_implementation d l c = ROk (Some x) -> loc_of_token d x).
Proof.
  unfold goto_definition, goto_declaration, goto_type_definition, goto_implementation.
  repeat split; intros H; apply with_cursor_some in H;
    destruct H as (cur & name & r & ctx & _ & _ & _ & H).
  - eapply declaration_token; eauto.
  - eapply declaration_token; eauto.
  - eapply type_definition_token; eauto.
  - eapply declaration_token, implementation_refines; eauto.
Qed.

Lemma implementation_refines_declaration d l c x :
  goto_implementation d l c = ROk (Some x) -> goto_declaration d l c = ROk (Some x).
Proof.
  unfold goto_implementation, goto_declaration, with_cursor.
  destruct (doc_cursor d l c) as [cur|]; simpl; [|discriminate].
  destruct (cursor_ident cur) as [[name r]|]; [|discriminate].
  destruct (c_ctx cur) as [ctx|]; [|discriminate]. apply implementation_refines.
Qed.

(* ------------------------------------------------------------------------------------------------
   resolution by syntactic position (/repo b909979) *)

Lemma lookup_for_global g l name :
  lookup_for g l true name = option_map entry_of_g (lookup g name).
Proof. unfold lookup_for, lt_lookup. destruct (lookup g name); reflexivity. Qed.

Lemma lookup_for_local g l name le :
  lookup l name = Some le -> lookup_for g l false name = Some (entry_of_l le).
Proof. unfold lookup_for, lt_lookup. now intros ->. Qed.

(* in a global position (name of a global declaration, type expression) the locals of the enclosing
   procedure play no role: the three answers are the same for every procedure context *)
Lemma global_position_ignores_locals d name p p' :
  declaration_at d name (GProcE p) true = declaration_at d name (GProcE p') true
  /\ type_definition_at d name (GProcE p) true = type_definition_at d name (GProcE p') true
  /\ implementation_at d name (GProcE p) true = implementation_at d name (GProcE p') true.
Proof.
  unfold declaration_at, type_definition_at, implementation_at. rewrite !lookup_for_global.
  destruct (lookup (d_table d) name) as [[t|q]|]; simpl; auto.
Qed.

(* ... and declaration / typeDefinition answer what they answer inside a type declaration *)
Lemma global_position_as_type_context d name p t :
  text_eqb name s_int = false ->
  declaration_at d name (GProcE p) true = declaration_at d name (GTypeE t) true
  /\ type_definition_at d name (GProcE p) true = type_definition_at d name (GTypeE t) true.
Proof.
  intros E. unfold declaration_at, type_definition_at. rewrite !lookup_for_global, E.
  destruct (lookup (d_table d) name) as [[t'|q]|]; simpl; auto.
Qed.

(* outside a global position a parameter or variable of the enclosing procedure wins - also when
   it has the name of its procedure, of a type or of another procedure: declaration answers with
   the local's own name, implementation with nothing *)
Lemma local_wins d name p le :
  lookup (pe_local p) name = Some le ->
  declaration_at d name (GProcE p) false
  = (do toks <- entry_tokens d p (entry_of_l le); answer d toks (entry_of_l le))
  /\ implementation_at d name (GProcE p) false = ROk None.
Proof.
  intros L. unfold declaration_at, implementation_at. rewrite (lookup_for_local _ _ _ _ L).
  destruct le; simpl; auto.
Qed.

(* ------------------------------------------------------------------------------------------------
   robustness: on a well-formed document (Refs.nav_wf_b) no slice or index of goto.rs can fail *)

Definition nav_wf (d : doc) : Prop := nav_wf_b d = true.

Lemma nav_wf_parts d :
  nav_wf d ->
  forallb (decl_ok (length (d_toks d))) (pg_decls (d_ast d)) = true
  /\ forallb (gentry_ok (length (d_toks d))) (d_table d) = true
  /\ forallb (fun i => info_ok (length (d_toks d)) (id_info i)) (doc_idents (d_ast d)) = true.
Proof.
  unfold nav_wf, nav_wf_b. intros H.
  apply andb_true_iff in H. destruct H as [H H3]. apply andb_true_iff in H. destruct H as [H1 H2]. auto.
Qed.

Lemma find_decl_ok toks idx decls :
  forallb (decl_ok (length toks)) decls = true -> exists r, find_decl toks idx decls = ROk r.
Proof.
  induction decls as [|[g off] r IH]; simpl; [eauto|].
  intros H. apply andb_true_iff in H. destruct H as [H1 H2].
  unfold decl_ok in H1. simpl in H1. apply andb_true_iff in H1. destruct H1 as [Ha Hb].
  apply Nat.leb_le in Ha.
  unfold slice_from. destruct (Nat.ltb (length toks) off) eqn:E; [apply Nat.ltb_lt in E; lia|]. simpl.
  destruct (info_text_range_ok (skipn off toks) (gdecl_info g)) as [tr Htr].
  { rewrite skipn_length. exact Hb. }
  rewrite Htr. simpl. destruct (in_range tr idx); eauto.
Qed.

Lemma table_entry_ok d k ge :
  nav_wf d -> lookup (d_table d) k = Some ge -> gentry_ok (length (d_toks d)) (k, ge) = true.
Proof.
  intros W H. destruct (nav_wf_parts d W) as (_ & T & _).
  destruct (lookup_in _ _ _ H) as [k' [Hin Hk]]. apply text_eqb_true in Hk. subst k'.
  rewrite forallb_forall in T. exact (T _ Hin).
Qed.

Lemma type_entry_ok n k t :
  gentry_ok n (k, GTypeE t) = true -> text_eqb k s_int = false -> tentry_ok n t = true.
Proof.
  unfold gentry_ok; simpl. intros H E. apply andb_true_iff in H. destruct H as [_ H].
  rewrite E in H. simpl in H. exact H.
Qed.

Lemma type_entry_ok_array n k t :
  gentry_ok n (k, GTypeE t) = true -> is_array (ten_ty t) = true -> tentry_ok n t = true.
Proof.
  unfold gentry_ok; simpl. intros H E. apply andb_true_iff in H. destruct H as [_ H].
  rewrite E in H. simpl in H. rewrite andb_false_r in H. exact H.
Qed.

Lemma proc_entry_ok n k p :
  gentry_ok n (k, GProcE p) = true -> is_default (EntProc p) = false -> pentry_ok n p = true.
Proof.
  unfold gentry_ok. cbn [snd fst]. intros H E. apply andb_true_iff in H. destruct H as [_ H].
  rewrite E in H. exact H.
Qed.

Lemma proc_entry_locals n k p x le :
  gentry_ok n (k, GProcE p) = true -> lookup (pe_local p) x = Some le -> pentry_ok n p = true.
Proof.
  unfold gentry_ok. cbn [snd fst]. intros H L. apply andb_true_iff in H. destruct H as [_ H].
  destruct (pe_local p) eqn:E; [discriminate L|]. rewrite andb_false_r in H. exact H.
Qed.

Lemma key_is_name n k ge :
  gentry_ok n (k, ge) = true ->
  k = id_val (match ge with GTypeE t => ten_name t | GProcE p => pe_name p end).
Proof.
  unfold gentry_ok. cbn [snd fst]. destruct ge; intros H; apply andb_true_iff in H; destruct H as [H _];
    now apply text_eqb_true in H.
Qed.

Lemma int_is_default : existsb (text_eqb s_int) default_entries = true.
Proof. reflexivity. Qed.

Lemma not_default_not_int t : is_default (EntType t) = false -> text_eqb (id_val (ten_name t)) s_int = false.
Proof.
  unfold is_default. intros H. destruct (text_eqb (id_val (ten_name t)) s_int) eqn:E; [|reflexivity].
  apply text_eqb_true in E. rewrite E in H. rewrite int_is_default in H. discriminate.
Qed.

Lemma answer_ok d sl e :
  info_ok (length sl) (id_info (entry_name e)) = true -> exists o, answer d sl e = ROk o.
Proof.
  intros H. unfold answer, entry_text_range.
  destruct (ident_text_range_ok sl (entry_name e) H) as [r ->]. simpl. eauto.
Qed.

Lemma tentry_answer d t :
  tentry_ok (length (d_toks d)) t = true ->
  exists o, (do toks <- slice (d_toks d) (ten_range t); answer d toks (EntType t)) = ROk o.
Proof.
  unfold tentry_ok. intros H. apply andb_true_iff in H. destruct H as [H1 H2].
  destruct (slice_ok _ _ H1) as [sl [-> L]]. simpl. apply answer_ok. simpl. now rewrite L.
Qed.

Lemma pentry_answer d p :
  pentry_ok (length (d_toks d)) p = true ->
  exists o, (do toks <- slice (d_toks d) (pe_range p); answer d toks (EntProc p)) = ROk o.
Proof.
  unfold pentry_ok. intros H. apply andb_true_iff in H. destruct H as [H _].
  apply andb_true_iff in H. destruct H as [H1 H2].
  destruct (slice_ok _ _ H1) as [sl [-> L]]. simpl. apply answer_ok. simpl. now rewrite L.
Qed.

Lemma local_answer d p x le (e : entry) :
  pentry_ok (length (d_toks d)) p = true -> lookup (pe_local p) x = Some le ->
  e = entry_of_l le ->
  exists o, (do toks <- entry_tokens d p e; answer d toks e) = ROk o.
Proof.
  unfold pentry_ok. intros H L ->. apply andb_true_iff in H. destruct H as [H H3].
  apply andb_true_iff in H. destruct H as [H1 _].
  destruct (lookup_in _ _ _ L) as [k' [Hin _]].
  rewrite forallb_forall in H3. specialize (H3 _ Hin). simpl in H3.
  unfold ventry_ok in H3. apply andb_true_iff in H3. destruct H3 as [V1 V2].
  destruct (slice_ok _ _ H1) as [s1 [E1 L1]].
  assert (X : exists o, (do toks <- (do s1 <- slice (d_toks d) (pe_range p); slice s1 (ve_range (lentry_var le)));
                         answer d toks (entry_of_l le)) = ROk o).
  { rewrite E1. simpl. rewrite <- L1 in V1. destruct (slice_ok _ _ V1) as [s2 [E2 L2]]. rewrite E2. simpl.
    apply answer_ok. destruct le; simpl in *; now rewrite L2. }
  destruct le; exact X.
Qed.

(* the global part of a lookup that is not a predefined entity *)
Lemma global_answer d p k ge :
  nav_wf d -> lookup (d_table d) k = Some ge -> is_default (entry_of_g ge) = false ->
  exists o, (do toks <- entry_tokens d p (entry_of_g ge); answer d toks (entry_of_g ge)) = ROk o.
Proof.
  intros W L D. pose proof (table_entry_ok d k ge W L) as G.
  destruct ge as [t|q]; simpl.
  - apply tentry_answer. eapply type_entry_ok; eauto.
    rewrite (key_is_name _ _ _ G). now apply not_default_not_int.
  - apply pentry_answer. eapply proc_entry_ok; eauto.
Qed.

(* lookup_table_for(..).lookup: a local entry only outside a global position, else a global one *)
Lemma lookup_for_cases g l gp name e :
  lookup_for g l gp name = Some e ->
  (exists le, gp = false /\ lookup l name = Some le /\ e = entry_of_l le)
  \/ (exists ge, lookup g name = Some ge /\ e = entry_of_g ge).
Proof.
  unfold lookup_for, lt_lookup. destruct gp.
  - destruct (lookup g name) as [ge|]; [|discriminate]. intros H; inversion H; right; eauto.
  - destruct (lookup l name) as [le|].
    + intros H; inversion H; left; eauto.
    + destruct (lookup g name) as [ge|]; [|discriminate]. intros H; inversion H; right; eauto.
Qed.


Lemma declaration_at_ok d name ctx gp k :
  nav_wf d -> lookup (d_table d) k = Some ctx -> exists o, declaration_at d name ctx gp = ROk o.
Proof.
  intros W C. pose proof (table_entry_ok d k ctx W C) as G.
  destruct ctx as [t|p]; unfold declaration_at.
  - destruct (text_eqb name s_int) eqn:E; [eauto|].
    destruct (lookup (d_table d) name) as [ge|] eqn:L; [|eauto].
    destruct (is_default (entry_of_g ge)) eqn:D; [eauto|].
    pose proof (table_entry_ok d name ge W L) as G2.
    destruct ge as [t'|q]; simpl.
    + apply tentry_answer. eapply type_entry_ok; eauto.
    + apply pentry_answer. eapply proc_entry_ok; eauto.
  - destruct (lookup_for _ _ gp name) as [e|] eqn:L; [|eauto].
    destruct (is_default e) eqn:D; [eauto|].
    destruct (lookup_for_cases _ _ _ _ _ L) as [[le [_ [L1 ->]]]|[ge [L1 ->]]].
    + eapply local_answer; eauto. eapply proc_entry_locals; eauto.
    + eapply global_answer; eauto.
Qed.

Lemma opt_dt_eqb_array a b : opt_dt_eqb a b = true -> is_array b = true -> is_array a = true.
Proof.
  destruct a as [[| |? ? ?]|], b as [[| |? ? ?]|]; simpl; intros; try discriminate; auto.
Qed.

Lemma type_definition_at_ok d name ctx gp k :
  nav_wf d -> lookup (d_table d) k = Some ctx -> exists o, type_definition_at d name ctx gp = ROk o.
Proof.
  intros W C. unfold type_definition_at.
  assert (V : forall v, exists o,
    match ve_ty v with
    | Some (DArray _ _ creator) =>
        match lookup (d_table d) creator with
        | Some (GTypeE t) =>
            if opt_dt_eqb (ten_ty t) (ve_ty v)
            then do toks <- slice (d_toks d) (ten_range t); answer d toks (EntType t)
            else ROk None
        | _ => ROk None
        end
    | _ => ROk None
    end = ROk o).
  { intros v. destruct (ve_ty v) as [[| |s b cr]|] eqn:T; eauto.
    destruct (lookup (d_table d) cr) as [[t|q]|] eqn:L; eauto.
    destruct (opt_dt_eqb (ten_ty t) (Some (DArray s b cr))) eqn:Q; eauto.
    apply tentry_answer. eapply type_entry_ok_array; [eapply table_entry_ok; eauto|].
    eapply opt_dt_eqb_array; eauto. }
  destruct ctx as [t|p].
  - destruct (text_eqb name s_int) eqn:E; [eauto|].
    destruct (lookup (d_table d) name) as [[t'|q]|] eqn:L; eauto.
    apply tentry_answer. eapply type_entry_ok; eauto. eapply table_entry_ok; eauto.
  - destruct (lookup_for _ _ gp name) as [[t'|q|v|v]|] eqn:L; eauto.
    destruct (text_eqb name s_int) eqn:E; [eauto|].
    destruct (lookup_for_cases _ _ _ _ _ L) as [[le [_ [L1 Q]]]|[ge [L1 Q]]].
    + destruct le; discriminate Q.
    + destruct ge as [t2|?]; [|discriminate Q]. inversion Q; subst t2.
      apply tentry_answer. eapply type_entry_ok; eauto. eapply table_entry_ok; eauto.
Qed.

Lemma implementation_at_ok d name ctx gp k :
  nav_wf d -> lookup (d_table d) k = Some ctx -> exists o, implementation_at d name ctx gp = ROk o.
Proof.
  intros W C. unfold implementation_at. destruct ctx as [t|p]; [eauto|].
  destruct (lookup_for _ _ gp name) as [[t'|q|v|v]|] eqn:L; eauto.
  destruct (is_default (EntProc q)) eqn:D; [eauto|].
  destruct (lookup_for_cases _ _ _ _ _ L) as [[le [_ [L1 Q]]]|[ge [L1 Q]]].
  - destruct le; discriminate Q.
  - destruct ge as [?|q2]; [discriminate Q|]. inversion Q; subst q2.
    apply pentry_answer. eapply proc_entry_ok; eauto. eapply table_entry_ok; eauto.
Qed.

Lemma doc_cursor_ok d l c :
  nav_wf d ->
  exists cur, doc_cursor d l c = ROk cur
              /\ (forall ctx, c_ctx cur = Some ctx -> exists k, lookup (d_table d) k = Some ctx).
Proof.
  intros W. destruct (nav_wf_parts d W) as (D & _ & _).
  unfold doc_cursor.
  destruct (find_decl_ok (d_toks d) (get_insertion_index l c (d_text d)) _ D) as [g ->]. simpl.
  eexists; split; [reflexivity|]. simpl. intros ctx.
  destruct g as [[gd off]|]; [|discriminate]. destruct (gdecl_name gd) as [n|]; [|discriminate]. eauto.
Qed.

Lemma with_cursor_ok {A} d l c (k : text -> gentry -> bool -> res (option A)) :
  nav_wf d ->
  (forall name ctx gp key, lookup (d_table d) key = Some ctx -> exists o, k name ctx gp = ROk o) ->
  exists o, with_cursor d l c k = ROk o.
Proof.
  intros W K. destruct (doc_cursor_ok d l c W) as [cur [E C]]. unfold with_cursor. rewrite E. simpl.
  destruct (cursor_ident cur) as [[name r]|]; [|eauto].
  destruct (c_ctx cur) as [ctx|] eqn:X; [|eauto].
  destruct (C ctx eq_refl) as [key L]. eauto.
Qed.

Lemma goto_robust d l c :
  nav_wf d ->
  (exists o, goto_declaration d l c = ROk o) /\ (exists o, goto_definition d l c = ROk o)
  /\ (exists o, goto_type_definition d l c = ROk o) /\ (exists o, goto_implementation d l c = ROk o).
Proof.
  intros W. unfold goto_definition, goto_declaration, goto_type_definition, goto_implementation.
  repeat split; apply with_cursor_ok; auto; intros name ctx gp key L.
  - eapply declaration_at_ok; eauto.
  - eapply declaration_at_ok; eauto.
  - eapply type_definition_at_ok; eauto.
  - eapply implementation_at_ok; eauto.
Qed.

(* ------------------------------------------------------------------------------------------------
   The formal reading of C12 (occurrences, binding, spec_*, clean_doc, cursor_inside, full_statement,
   agrees_at, doc_of, is_clean) is in Spec/Nav.v. *)

Lemma res_loc_eqb_spec r e : r = ROk e -> res_loc_eqb r e = true.
Proof.
  intros ->. destruct e as [[[a b] [c' d']]|]; simpl; [|reflexivity].
  unfold loc_eqb; simpl. now rewrite !N.eqb_refl.
Qed.

Lemma is_clean_doc t : is_clean t = true -> clean_doc t (doc_of t).
Proof.
  unfold is_clean, clean_doc, doc_of. destruct (new_doc_res t) as [d| |]; try discriminate.
  intros H. apply andb_true_iff in H. destruct H as [H1 H2].
  destruct (doc_errors_res d) as [[|? ?]|]; try discriminate. auto.
Qed.

(* ---- the witnesses of the two findings repaired by /repo b909979 (regression corpus of the check:
   corpus/C12/proc_name_shadowed_by_own_local.json, type_use_shadowed_by_local.json) ---- *)
From Coq Require Import String.
Local Open Scope string_scope.

(* the name of a procedure in its own header, when a parameter has the same name *)
Definition witness_own_name : text := str "proc f(f: int) { f := 1; } proc main() { f(2); }".
(* a type identifier in a declaration of a procedure with a local of the same name *)
Definition witness_type_name : text := str "type t = int; proc main() { var t: t; t := 1; }".
(* a program on which the implementation does what the specification says, everywhere *)
Definition sample_ok : text :=
  app (str "type v = array [3] of int; type w = v; // c")
  (app [10%N]
  (app (str "proc g(ref a: w, i: int) { var k: array [2] of int; a[i] := -k[(i)]; g(a, i); printi(i); }")
  (app [13%N; 10%N] (str "proc main() { var x: w; var i: int; g(x, i); if (i < 1) main(); }")))).

(* every collision of a local with a global name at once: a parameter named like its procedure (of
   array type, so typeDefinition has a target), a parameter named like a type that a LATER
   parameter uses (parameter types are resolved globally), variables named `int` and `printi`, a
   parameter named like another procedure, a type used only behind `of`, a forward call *)
Definition witness_collisions : text :=
  app (str "type t = array [2] of int; type u = array [3] of t;")
  (app [10%N]
  (app (str "proc f(ref f: t, t: int, ref g: t) { var int: int; var printi: u; f[t] := int; printi[0][1] := g[0]; }")
  (app [10%N] (str "proc g(x: int) { var a: t; var b: t; f(a, x, b); printi(x); } proc main() { g(1); }")))).

Local Close Scope string_scope.

(* a clean text, an occurrence and a position inside it where declaration differs from the
   specification refute the full statement *)
Lemma refutation_instance (t : text) (l c : N) (n : nat) :
  is_clean t = true ->
  (match nth_error (occurrences (d_ast (doc_of t))) n with
   | Some o =>
       match nth_error (d_toks (doc_of t)) (o_tok o) with
       | Some tok => in_range (ts tok, te tok) (get_insertion_index l c (d_text (doc_of t)))
                     && negb (res_loc_eqb (goto_declaration (doc_of t) l c) (spec_declaration (doc_of t) o))
       | None => false
       end
   | None => false
   end) = true ->
  ~ full_statement.
Proof.
  intros C H F.
  destruct (nth_error (occurrences (d_ast (doc_of t))) n) as [o|] eqn:E; [|discriminate].
  destruct (nth_error (d_toks (doc_of t)) (o_tok o)) as [tok|] eqn:E2; [|discriminate].
  apply andb_true_iff in H. destruct H as [H1 H2].
  destruct (F t (doc_of t) o l c) as [D _].
  - now apply is_clean_doc.
  - eapply nth_error_In; eauto.
  - exists tok. auto.
  - apply res_loc_eqb_spec in D. rewrite D in H2. discriminate.
Qed.

(* [refutation_instance] is the tool for a counterexample: none is known for the code of /repo b909979.
   On the two former counterexamples the statement now holds at every occurrence (first and last
   column): Props/C12.v, C12_repaired_witnesses_agree. *)
