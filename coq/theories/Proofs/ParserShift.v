(* S1 - shift invariance of the parser model (Model/Parser.v).
   Running any parser of the model on the token list  pre ++ rest  from a state whose position and
   reference position both lie |pre| further to the right gives EXACTLY the result of running it on
   rest  alone: the same value (all ranges in the tree are relative to the enclosing Reference, error
   messages quote the same skipped tokens), and end/error states that differ by the same shift.
   One lemma per combinator ([Sh_map], [Sh_alt], ...), then every non-terminal by induction on the
   fuel - the architecture of Proofs/ParseKinds.v, but the relation is a plain equation
       p (pre ++ rest) (sh |pre| s) = shr |pre| (p rest s). *)
From Coq Require Import Arith Lia List.
From Spl Require Import Model.Parser Proofs.ParserEqns.
Import ListNotations.
Local Open Scope nat_scope.

(* the shifted state and the shifted result *)
Definition sh (k : nat) (s : st) : st := {| pos := pos s + k; refp := refp s + k; ebuf := ebuf s |}.
Definition shr {A} (k : nat) (r : pres A) : pres A :=
  match r with POk s a => POk (sh k s) a | PErr s => PErr (sh k s) | PFuel => PFuel end.

(* the combinator the error alternative of p_stmt is about to be wrapped in: restore the input on failure *)
Definition p_restore {A} (p : parser A) : parser A :=
  fun s => match p s with PErr _ => PErr s | r => r end.

Lemma sub_add_r a b k : a + k - (b + k) = a - b.
Proof. lia. Qed.
Lemma eqb_add_r a b k : Nat.eqb (a + k) (b + k) = Nat.eqb a b.
Proof. destruct (Nat.eqb_spec a b), (Nat.eqb_spec (a + k) (b + k)); try reflexivity; lia. Qed.
Lemma ltb_add_r a b k : Nat.ltb (a + k) (b + k) = Nat.ltb a b.
Proof. destruct (Nat.ltb_spec a b), (Nat.ltb_spec (a + k) (b + k)); try reflexivity; lia. Qed.

Lemma skipn_app_len {A} (l1 l2 : list A) p : skipn (length l1 + p) (l1 ++ l2) = skipn p l2.
Proof. induction l1 as [|x l1 IH]; [reflexivity | exact IH]. Qed.

Lemma shr_bind {A B} k (r : pres A) (k1 k2 : st -> A -> pres B) :
  (forall s a, k1 (sh k s) a = shr k (k2 s a)) -> bind (shr k r) k1 = shr k (bind r k2).
Proof. intros H. destruct r; cbn [shr bind]; [apply H | reflexivity | reflexivity]. Qed.

Section Shift.
Variables pre rest : list token.
Notation k := (length pre).
Notation t1 := (pre ++ rest).
Notation t2 := rest.

(* [Sh p q]: p (a parser over pre ++ rest) from the shifted state does what q (over rest) does *)
Definition Sh {A} (p q : parser A) : Prop := forall s, p (sh k s) = shr k (q s).

(* ---- state bookkeeping ---- *)
Lemma sh_adv s n : adv (sh k s) n = sh k (adv s n).
Proof. unfold adv, sh. cbn [pos refp ebuf]. f_equal. lia. Qed.

Lemma sh_expect_error s m : expect_error (sh k s) m = sh k (expect_error s m).
Proof. unfold expect_error. cbn [pos refp sh]. rewrite sub_add_r. reflexivity. Qed.

(* ---- nom combinators ---- *)
Lemma Sh_fuel {A} : Sh (fun _ : st => @PFuel A) (fun _ => PFuel).
Proof. intros s. reflexivity. Qed.

Lemma Sh_map {A B} (f : A -> B) p q : Sh p q -> Sh (p_map f p) (p_map f q).
Proof. intros H s. unfold p_map. rewrite H. destruct (q s); reflexivity. Qed.

Lemma Sh_alt {A} (p q p' q' : parser A) : Sh p q -> Sh p' q' -> Sh (p_alt p p') (p_alt q q').
Proof.
  intros H H' s. unfold p_alt. rewrite H. destruct (q s); cbn [shr]; [reflexivity | apply H' | reflexivity].
Qed.

Lemma Sh_opt {A} (p q : parser A) : Sh p q -> Sh (p_opt p) (p_opt q).
Proof. intros H s. unfold p_opt. rewrite H. destruct (q s); reflexivity. Qed.

Lemma Sh_pair {A B} (p q : parser A) (p' q' : parser B) : Sh p q -> Sh p' q' -> Sh (p_pair p p') (p_pair q q').
Proof.
  intros H H' s. unfold p_pair. rewrite H. destruct (q s) as [s1 a| |]; cbn [shr bind]; try reflexivity.
  rewrite H'. destruct (q' s1); reflexivity.
Qed.

Lemma Sh_preceded {A B} (p q : parser A) (p' q' : parser B) :
  Sh p q -> Sh p' q' -> Sh (p_preceded p p') (p_preceded q q').
Proof. intros H H'. unfold p_preceded. apply Sh_map, Sh_pair; assumption. Qed.

Lemma Sh_terminated {A B} (p q : parser A) (p' q' : parser B) :
  Sh p q -> Sh p' q' -> Sh (p_terminated p p') (p_terminated q q').
Proof. intros H H'. unfold p_terminated. apply Sh_map, Sh_pair; assumption. Qed.

Lemma Sh_many0 {A} (p q : parser A) fuel : Sh p q -> Sh (p_many0 fuel p) (p_many0 fuel q).
Proof.
  intros H. induction fuel as [|f IH]; intros s; cbn [p_many0]; [reflexivity|].
  rewrite H. destruct (q s) as [s1 a|e|]; cbn [shr]; try reflexivity.
  cbn [pos sh]. rewrite eqb_add_r. destruct (Nat.eqb (pos s1) (pos s)); [reflexivity|].
  change {| pos := pos s1 + k; refp := refp s1 + k; ebuf := ebuf s1 |} with (sh k s1).
  rewrite IH. destruct (p_many0 f q s1); reflexivity.
Qed.

Lemma Sh_bind {A B} (p q : parser A) (k1 k2 : st -> A -> pres B) :
  Sh p q -> (forall a s, k1 (sh k s) a = shr k (k2 s a)) ->
  Sh (fun s => bind (p s) k1) (fun s => bind (q s) k2).
Proof. intros H Hk s. rewrite H. apply shr_bind. intros s1 a. apply Hk. Qed.

Lemma Sh_restore {A} (p q : parser A) : Sh p q -> Sh (p_restore p) (p_restore q).
Proof. intros H s. unfold p_restore. rewrite H. destruct (q s); reflexivity. Qed.

(* ---- utility.rs ---- *)
Lemma Sh_info {A} (p q : parser A) : Sh p q -> Sh (p_info p) (p_info q).
Proof.
  intros H s. unfold p_info. change (set_ebuf (sh k s) []) with (sh k (set_ebuf s [])). rewrite H.
  destruct (q (set_ebuf s [])) as [s1 a|s1|]; cbn [shr pos refp ebuf sh set_ebuf]; rewrite ?sub_add_r; reflexivity.
Qed.

Lemma Sh_expect {A} (p q : parser A) m : Sh p q -> Sh (p_expect p m) (p_expect q m).
Proof.
  intros H s. unfold p_expect. rewrite H. destruct (q s); cbn [shr]; rewrite ?sh_expect_error; reflexivity.
Qed.

Lemma Sh_ref {A} (p q : parser A) : Sh p q -> Sh (p_ref p) (p_ref q).
Proof.
  intros H s. unfold p_ref. change (set_refp (sh k s) (pos (sh k s))) with (sh k (set_refp s (pos s))). rewrite H.
  destruct (q (set_refp s (pos s))) as [s1 a|s1|]; cbn [shr pos refp ebuf sh set_refp]; rewrite ?sub_add_r; reflexivity.
Qed.

Lemma Sh_confusable {A} (p q : parser A) m : Sh p q -> Sh (p_confusable p m) (p_confusable q m).
Proof.
  intros H s. unfold p_confusable. rewrite (Sh_info _ _ H).
  destruct (p_info q s) as [s1 [a i]| |]; reflexivity.
Qed.

(* ---- token level ---- *)
Lemma comments_at_sh p : comments_at t1 (p + k) = comments_at t2 p.
Proof. unfold comments_at. rewrite Nat.add_comm, skipn_app_len. reflexivity. Qed.

Lemma nth_error_sh i : nth_error t1 (i + k) = nth_error t2 i.
Proof. rewrite nth_error_app2 by lia. f_equal. lia. Qed.

Lemma length_sh : length t1 = length t2 + k.
Proof. rewrite app_length. lia. Qed.

Lemma Sh_comments : Sh (p_comments t1) (p_comments t2).
Proof. intros s. unfold p_comments. cbn [pos sh shr]. rewrite comments_at_sh, sh_adv. reflexivity. Qed.

Lemma Sh_tag f : Sh (p_tag t1 f) (p_tag t2 f).
Proof.
  intros s. unfold p_tag. cbn [pos sh]. rewrite comments_at_sh.
  change {| pos := pos s + k; refp := refp s + k; ebuf := ebuf s |} with (sh k s). rewrite sh_adv.
  cbn [pos sh adv]. rewrite nth_error_sh.
  change {| pos := pos s + length (comments_at t2 (pos s)) + k; refp := refp s + k; ebuf := ebuf s |}
    with (sh k (adv s (length (comments_at t2 (pos s))))).
  destruct (nth_error t2 (pos s + length (comments_at t2 (pos s)))) as [t|]; [|reflexivity].
  destruct (f (tk t)); cbn [shr]; rewrite ?sh_adv; reflexivity.
Qed.

(* look-aheads: predicates on the position *)
Definition LaSh (la1 la2 : nat -> bool) : Prop := forall p, la1 (p + k) = la2 p.

Lemma sig_at_sh p : sig_at t1 (p + k) = sig_at t2 p + k.
Proof. unfold sig_at. rewrite comments_at_sh. lia. Qed.

Lemma la_tag_sh f : LaSh (la_tag t1 f) (la_tag t2 f).
Proof. intros p. unfold la_tag. rewrite sig_at_sh, nth_error_sh. reflexivity. Qed.

Lemma la_ident_then_sh f : LaSh (la_ident_then t1 f) (la_ident_then t2 f).
Proof.
  intros p. unfold la_ident_then. rewrite sig_at_sh, nth_error_sh.
  destruct (nth_error t2 (sig_at t2 p)) as [t|]; [|reflexivity]. destruct (is_ident (tk t)); [|reflexivity].
  change (S (sig_at t2 p + k)) with (S (sig_at t2 p) + k). apply la_tag_sh.
Qed.

Lemma la_global_sh : LaSh (la_global t1) (la_global t2).
Proof. intros p. unfold la_global. apply la_tag_sh. Qed.
Lemma la_stmt_sh : LaSh (la_stmt t1) (la_stmt t2).
Proof. intros p. unfold la_stmt. rewrite la_tag_sh, la_ident_then_sh, la_global_sh. reflexivity. Qed.
Lemma la_var_dec_sh : LaSh (la_var_dec t1) (la_var_dec t2).
Proof. intros p. unfold la_var_dec. rewrite la_tag_sh, la_ident_then_sh, la_stmt_sh. reflexivity. Qed.
Lemma la_param_sh : LaSh (la_param t1) (la_param t2).
Proof. intros p. unfold la_param. rewrite la_tag_sh, la_var_dec_sh. reflexivity. Qed.
Lemma la_arg_sh : LaSh (la_arg t1) (la_arg t2).
Proof. exact la_param_sh. Qed.

Lemma Sh_peek_la la1 la2 : LaSh la1 la2 -> Sh (p_peek_la la1) (p_peek_la la2).
Proof. intros H s. unfold p_peek_la. cbn [pos sh]. rewrite H. destruct (la2 (pos s)); reflexivity. Qed.

Lemma ignore_from_sh la1 la2 : LaSh la1 la2 ->
  forall n s, ignore_from t1 n la1 (sh k s) = shr k (ignore_from t2 n la2 s).
Proof.
  intros H. induction n as [|n IH]; intros s; cbn [ignore_from]; cbn [pos sh]; rewrite H;
    destruct (la2 (pos s)); try reflexivity.
  rewrite length_sh, ltb_add_r. destruct (Nat.ltb (pos s) (length t2)); [|reflexivity].
  change {| pos := pos s + k; refp := refp s + k; ebuf := ebuf s |} with (sh k s). rewrite sh_adv. apply IH.
Qed.

Lemma skipped_sh s s' : skipped t1 (sh k s) (sh k s') = skipped t2 s s'.
Proof. unfold skipped. cbn [pos sh]. rewrite sub_add_r, (Nat.add_comm (pos s)), skipn_app_len. reflexivity. Qed.

Lemma Sh_ignore0 la1 la2 : LaSh la1 la2 -> Sh (p_ignore0 t1 la1) (p_ignore0 t2 la2).
Proof.
  intros H s. unfold p_ignore0. cbn [pos sh].
  replace (length t1 - (pos s + k)) with (length t2 - pos s) by (rewrite length_sh; lia).
  change {| pos := pos s + k; refp := refp s + k; ebuf := ebuf s |} with (sh k s).
  rewrite (ignore_from_sh la1 la2 H).
  destruct (ignore_from t2 (S (length t2 - pos s)) la2 s) as [s' []| |]; cbn [shr bind]; rewrite ?skipped_sh; reflexivity.
Qed.

Lemma Sh_ignore1 la1 la2 : LaSh la1 la2 -> Sh (p_ignore1 t1 la1) (p_ignore1 t2 la2).
Proof.
  intros H s. unfold p_ignore1. cbn [pos sh]. rewrite H.
  change {| pos := pos s + k; refp := refp s + k; ebuf := ebuf s |} with (sh k s).
  destruct (la2 (pos s)); [reflexivity | apply Sh_ignore0; exact H].
Qed.

(* ---- the tactic: structural descent through the combinators ---- *)
Ltac la_sh :=
  first [ exact la_param_sh | exact la_arg_sh | exact la_var_dec_sh | exact la_stmt_sh | exact la_global_sh
        | apply la_tag_sh | apply la_ident_then_sh ].

Lemma Sh_list {A} (p q : parser A) fuel : Sh p q -> Sh (p_list t1 fuel p) (p_list t2 fuel q).
Proof.
  intros H. unfold p_list. apply Sh_bind; [apply Sh_ref; exact H|]. intros hd s.
  apply (Sh_bind
    (p_many0 fuel (p_map (fun r => (fst (fst r), snd r + snd (fst r))) (p_ref (p_preceded (p_tag t1 (is_k Comma)) (p_ref p)))))
    (p_many0 fuel (p_map (fun r => (fst (fst r), snd r + snd (fst r))) (p_ref (p_preceded (p_tag t2 (is_k Comma)) (p_ref q)))))).
  - apply Sh_many0, Sh_map, Sh_ref, Sh_preceded; [apply Sh_tag | apply Sh_ref; exact H].
  - intros tl s2. reflexivity.
Qed.

(* eta-reduces the two parsers of the goal (unification leaves [fun s => p s] behind) *)
Ltac sh_eta :=
  repeat match goal with
         | |- Sh (fun x => ?f x) ?q => change (Sh f q)
         | |- Sh ?p (fun x => ?g x) => change (Sh p g)
         end.

Ltac sh_auto :=
  lazymatch goal with
  | |- Sh (p_map _ _) (p_map _ _) => apply Sh_map; sh_auto
  | |- Sh (p_alt _ _) (p_alt _ _) => apply Sh_alt; sh_auto
  | |- Sh (p_pair _ _) (p_pair _ _) => apply Sh_pair; sh_auto
  | |- Sh (p_opt _) (p_opt _) => apply Sh_opt; sh_auto
  | |- Sh (p_info _) (p_info _) => apply Sh_info; sh_auto
  | |- Sh (p_expect _ _) (p_expect _ _) => apply Sh_expect; sh_auto
  | |- Sh (p_ref _) (p_ref _) => apply Sh_ref; sh_auto
  | |- Sh (p_confusable _ _) (p_confusable _ _) => apply Sh_confusable; sh_auto
  | |- Sh (p_preceded _ _) (p_preceded _ _) => apply Sh_preceded; sh_auto
  | |- Sh (p_terminated _ _) (p_terminated _ _) => apply Sh_terminated; sh_auto
  | |- Sh (p_many0 _ _) (p_many0 _ _) => apply Sh_many0; sh_auto
  | |- Sh (p_list _ _ _) (p_list _ _ _) => apply Sh_list; sh_auto
  | |- Sh (p_restore _) (p_restore _) => apply Sh_restore; sh_auto
  | |- Sh (p_tag _ _) (p_tag _ _) => apply Sh_tag
  | |- Sh (p_comments _) (p_comments _) => apply Sh_comments
  | |- Sh (p_peek_la _) (p_peek_la _) => apply Sh_peek_la; la_sh
  | |- Sh (p_ignore0 _ _) (p_ignore0 _ _) => apply Sh_ignore0; la_sh
  | |- Sh (p_ignore1 _ _) (p_ignore1 _ _) => apply Sh_ignore1; la_sh
  | |- Sh (fun _ => PFuel) (fun _ => PFuel) => apply Sh_fuel
  | _ => first [ eassumption | apply Sh_restore; sh_eta; sh_auto ]   (* also the inlined form fun s => match p s with PErr _ => PErr s | r => r end *)
  end.

(* ---- non-terminals ---- *)
Lemma Sh_ident : Sh (p_ident t1) (p_ident t2).
Proof. unfold p_ident. sh_auto. Qed.

Lemma Sh_intlit : Sh (p_intlit t1) (p_intlit t2).
Proof. unfold p_intlit. sh_auto. Qed.

Lemma Sh_rhs p q lhs op : Sh p q -> Sh (p_rhs p lhs op) (p_rhs q lhs op).
Proof.
  intros H. unfold p_rhs. apply Sh_bind; [apply Sh_expect; exact H|].
  intros rhs s. cbn [shr pos refp sh]. rewrite sub_add_r. reflexivity.
Qed.

(* the loops of parse_mul / parse_add / parse_comparison *)
Definition LoopSh (l1 l2 : st -> expr -> pres expr) : Prop := forall s lhs, l1 (sh k s) lhs = shr k (l2 s lhs).

Lemma loop_step (isop : kind -> bool) (pa pb : parser expr) (la lb : st -> expr -> pres expr) s lhs :
  Sh pa pb -> LoopSh la lb ->
  match p_tag t1 isop (sh k s) with
  | POk s1 op => bind (p_rhs pa lhs (op_of (tk op)) s1) (fun s2 e => la s2 e)
  | PErr _ => POk (sh k s) lhs
  | PFuel => PFuel
  end =
  shr k (match p_tag t2 isop s with
         | POk s1 op => bind (p_rhs pb lhs (op_of (tk op)) s1) (fun s2 e => lb s2 e)
         | PErr _ => POk s lhs
         | PFuel => PFuel
         end).
Proof.
  intros Hp Hl. rewrite Sh_tag. destruct (p_tag t2 isop s) as [s1 op| |]; cbn [shr]; try reflexivity.
  rewrite (Sh_rhs pa pb lhs _ Hp). apply shr_bind. intros s2 e. apply Hl.
Qed.

Definition expr_sh (fuel : nat) : Prop :=
  Sh (p_variable t1 fuel) (p_variable t2 fuel) /\
  Sh (p_primary t1 fuel) (p_primary t2 fuel) /\
  Sh (p_factor t1 fuel) (p_factor t2 fuel) /\
  LoopSh (mul_loop t1 fuel) (mul_loop t2 fuel) /\
  Sh (p_mul t1 fuel) (p_mul t2 fuel) /\
  LoopSh (add_loop t1 fuel) (add_loop t2 fuel) /\
  Sh (p_add t1 fuel) (p_add t2 fuel) /\
  Sh (p_comparison t1 fuel) (p_comparison t2 fuel).

Lemma Sh_expr_all : forall fuel, expr_sh fuel.
Proof.
  pose proof Sh_ident as Hid. pose proof Sh_intlit as Hil.
  induction fuel as [|f (IHv & IHp & IHf & IHml & IHm & IHal & IHa & IHc)].
  - unfold expr_sh, LoopSh. repeat split; intros s; try intros lhs; reflexivity.
  - unfold expr_sh. repeat split.
    + rewrite !p_variable_S. apply Sh_bind; [sh_auto|]. intros [[v0 vi] acc] s. reflexivity.
    + rewrite !p_primary_S.
      refine (_ : Sh (p_alt _ _) (p_alt _ _)). apply Sh_alt; [sh_auto|]. apply Sh_alt; [sh_auto|].
      apply Sh_bind; [sh_auto|]. intros [[[x lp] [e y]] inf] s. reflexivity.
    + rewrite !p_factor_S. refine (_ : Sh (p_alt _ _) (p_alt _ _)). sh_auto.
    + intros s lhs. rewrite !mul_loop_S. apply loop_step; assumption.
    + rewrite !p_mul_S. apply Sh_bind; [exact IHf|]. intros e s. apply IHml.
    + intros s lhs. rewrite !add_loop_S. apply loop_step; assumption.
    + rewrite !p_add_S. apply Sh_bind; [exact IHm|]. intros e s. apply IHal.
    + rewrite !p_comparison_S. apply Sh_bind; [exact IHa|]. intros e s.
      rewrite Sh_tag. destruct (p_tag t2 is_cmpop s) as [s1 op| |]; cbn [shr]; try reflexivity.
      apply Sh_rhs. exact IHa.
Qed.

Lemma Sh_variable fuel : Sh (p_variable t1 fuel) (p_variable t2 fuel). Proof. apply Sh_expr_all. Qed.
Lemma Sh_primary fuel : Sh (p_primary t1 fuel) (p_primary t2 fuel). Proof. apply Sh_expr_all. Qed.
Lemma Sh_factor fuel : Sh (p_factor t1 fuel) (p_factor t2 fuel). Proof. apply Sh_expr_all. Qed.
Lemma Sh_mul fuel : Sh (p_mul t1 fuel) (p_mul t2 fuel). Proof. apply Sh_expr_all. Qed.
Lemma Sh_add fuel : Sh (p_add t1 fuel) (p_add t2 fuel). Proof. apply Sh_expr_all. Qed.
Lemma Sh_comparison fuel : Sh (p_comparison t1 fuel) (p_comparison t2 fuel). Proof. apply Sh_expr_all. Qed.
Lemma Sh_expr fuel : Sh (p_expr t1 fuel) (p_expr t2 fuel). Proof. unfold p_expr. apply Sh_comparison. Qed.

Lemma Sh_texpr : forall fuel, Sh (p_texpr t1 fuel) (p_texpr t2 fuel).
Proof.
  pose proof Sh_ident as Hid. pose proof Sh_intlit as Hil.
  induction fuel as [|f IH]; [intros s; reflexivity|]. rewrite !p_texpr_S.
  refine (_ : Sh (p_alt _ _) (p_alt _ _)). sh_auto.
Qed.

Lemma Sh_typedecl fuel : Sh (p_typedecl t1 fuel) (p_typedecl t2 fuel).
Proof. pose proof Sh_ident. pose proof (Sh_texpr fuel). unfold p_typedecl. sh_auto. Qed.

Lemma Sh_vardecl fuel : Sh (p_vardecl t1 fuel) (p_vardecl t2 fuel).
Proof. pose proof Sh_ident. pose proof (Sh_texpr fuel). unfold p_vardecl. sh_auto. Qed.

Lemma Sh_paramdecl fuel : Sh (p_paramdecl t1 fuel) (p_paramdecl t2 fuel).
Proof. pose proof Sh_ident. pose proof (Sh_texpr fuel). unfold p_paramdecl. sh_auto. Qed.

Lemma Sh_argument fuel : Sh (p_argument t1 fuel) (p_argument t2 fuel).
Proof. pose proof (Sh_expr fuel). unfold p_argument. sh_auto. Qed.

Lemma Sh_call fuel : Sh (p_call t1 fuel) (p_call t2 fuel).
Proof. pose proof Sh_ident. pose proof (Sh_argument fuel). unfold p_call. sh_auto. Qed.

Lemma Sh_assign fuel : Sh (p_assign t1 fuel) (p_assign t2 fuel).
Proof. pose proof (Sh_variable fuel). pose proof (Sh_expr fuel). unfold p_assign. sh_auto. Qed.

Lemma Sh_stmt : forall fuel, Sh (p_stmt t1 fuel) (p_stmt t2 fuel).
Proof.
  induction fuel as [|f IH]; [intros s; reflexivity|]. rewrite !p_stmt_S.
  pose proof (Sh_expr f). pose proof (Sh_call f). pose proof (Sh_assign f).
  refine (_ : Sh (p_alt _ _) (p_alt _ _)). sh_auto.
Qed.

Lemma Sh_procdecl fuel : Sh (p_procdecl t1 fuel) (p_procdecl t2 fuel).
Proof.
  pose proof Sh_ident. pose proof (Sh_paramdecl fuel). pose proof (Sh_vardecl fuel). pose proof (Sh_stmt fuel).
  unfold p_procdecl. sh_auto.
Qed.

Lemma Sh_gdecl fuel : Sh (p_gdecl t1 fuel) (p_gdecl t2 fuel).
Proof. pose proof (Sh_typedecl fuel). pose proof (Sh_procdecl fuel). unfold p_gdecl. sh_auto. Qed.

Lemma Sh_eof_all : Sh (p_eof_all t1) (p_eof_all t2).
Proof.
  unfold p_eof_all. apply Sh_bind; [apply Sh_tag|]. intros t s. cbn [pos sh].
  rewrite length_sh, ltb_add_r. destruct (Nat.ltb (pos s) (length t2)); reflexivity.
Qed.

Lemma Sh_program fuel : Sh (p_program t1 fuel) (p_program t2 fuel).
Proof. pose proof (Sh_gdecl fuel). pose proof Sh_eof_all. unfold p_program. sh_auto. Qed.

End Shift.

(* the same tactics for users outside the section (Ltac definitions do not survive [End Section]) *)
Ltac la_sh :=
  first [ apply la_param_sh | apply la_arg_sh | apply la_var_dec_sh | apply la_stmt_sh | apply la_global_sh
        | apply la_tag_sh | apply la_ident_then_sh ].

(* eta-reduces the two parsers of the goal (unification leaves [fun s => p s] behind) *)
Ltac sh_eta :=
  repeat match goal with
         | |- Sh ?pre (fun x => ?f x) ?q => change (Sh pre f q)
         | |- Sh ?pre ?p (fun x => ?g x) => change (Sh pre p g)
         end.

Ltac sh_auto :=
  lazymatch goal with
  | |- Sh _ (p_map _ _) (p_map _ _) => apply Sh_map; sh_auto
  | |- Sh _ (p_alt _ _) (p_alt _ _) => apply Sh_alt; sh_auto
  | |- Sh _ (p_pair _ _) (p_pair _ _) => apply Sh_pair; sh_auto
  | |- Sh _ (p_opt _) (p_opt _) => apply Sh_opt; sh_auto
  | |- Sh _ (p_info _) (p_info _) => apply Sh_info; sh_auto
  | |- Sh _ (p_expect _ _) (p_expect _ _) => apply Sh_expect; sh_auto
  | |- Sh _ (p_ref _) (p_ref _) => apply Sh_ref; sh_auto
  | |- Sh _ (p_confusable _ _) (p_confusable _ _) => apply Sh_confusable; sh_auto
  | |- Sh _ (p_preceded _ _) (p_preceded _ _) => apply Sh_preceded; sh_auto
  | |- Sh _ (p_terminated _ _) (p_terminated _ _) => apply Sh_terminated; sh_auto
  | |- Sh _ (p_many0 _ _) (p_many0 _ _) => apply Sh_many0; sh_auto
  | |- Sh _ (p_list _ _ _) (p_list _ _ _) => apply Sh_list; sh_auto
  | |- Sh _ (p_restore _) (p_restore _) => apply Sh_restore; sh_auto
  | |- Sh _ (p_tag _ _) (p_tag _ _) => apply Sh_tag
  | |- Sh _ (p_comments _) (p_comments _) => apply Sh_comments
  | |- Sh _ (p_peek_la _) (p_peek_la _) => apply Sh_peek_la; la_sh
  | |- Sh _ (p_ignore0 _ _) (p_ignore0 _ _) => apply Sh_ignore0; la_sh
  | |- Sh _ (p_ignore1 _ _) (p_ignore1 _ _) => apply Sh_ignore1; la_sh
  | |- Sh _ (fun _ => PFuel) (fun _ => PFuel) => apply Sh_fuel
  | _ => first [ eassumption | apply Sh_restore; sh_eta; sh_auto ]   (* also the inlined form fun s => match p s with PErr _ => PErr s | r => r end *)
  end.

