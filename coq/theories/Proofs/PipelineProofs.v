(* lexer output meets the parser theorems' hypothesis: pipeline-level corollaries *)
From Spl Require Import Model.Update Proofs.LexerProofs Proofs.ParserProofs.

Lemma lex_eoflast s toks : lex s = Some toks -> ParserTotal.EofLast toks.
Proof.
  intros H. destruct (tiles_last_eof 0 s toks (lex_tiles s toks H)) as (body & E & F).
  exists body, {| tk := Eof; ts := blen s; te := blen s; terr := [] |}. auto.
Qed.

(* AnalyzedSource::new up to the tree never panics, for every text *)
Theorem pnew_total t : exists d, pnew t = Done d.
Proof.
  unfold pnew. destruct (lex_total t) as [toks H]. rewrite H.
  destruct (parse_ok toks (lex_eoflast _ _ H)) as [p Hp]. rewrite Hp. eauto.
Qed.
