(* C16 - completion on VALID programs, part 5: the top level.
   [propose_toplevel_position]: the cursor in the white space behind the last token of a global
   declaration (in front of the next declaration with its doc comments, or of the comments / the end
   of the text behind the last one), at least one character behind that token;
   [propose_toplevel_start]: the cursor in the white space in front of the first token of the text, not
   at index 0:
   the answer is exactly [proc snippet; type snippet; `proc`; `type`] - no `main` snippet, because a
   valid program declares main. *)
From Coq Require Import PeanoNat NArith Lia List Bool.
From Spl Require Import Proofs.GrammarBase Proofs.GrammarExpr Proofs.GrammarStmt.
From Spl Require Import Proofs.GrammarProofs Spec.Typing Model.Errors Proofs.SemProofs Proofs.TypingProofs.
From Spl Require Import Model.Hover Model.Fold Proofs.LexerProofs Proofs.FoldProofs Proofs.HoverProofs.
From Spl Require Import Proofs.HoverValid Model.Completion Proofs.CompletionProofs.
From Spl Require Import Proofs.ComplValidBase Proofs.ComplValidProc Proofs.ComplValid.
Import ListNotations.
Local Open Scope nat_scope.

Lemma x_decls_app : forall l1 o l2,
  x_decls o (l1 ++ l2) = x_decls o l1 ++ x_decls (o + len (flat_map fl_decl l1)) l2.
Proof.
  induction l1 as [|d l1 IH]; intros o l2; cbn [app x_decls flat_map length]; [now rewrite Nat.add_0_r|].
  rewrite IH, app_length. do 3 f_equal. lia.
Qed.

Section TopGap.
Variable toks : list token.
Variable position : N.
Variable j : nat.
Hypothesis Hbefore : forall k t, nth_error toks k = Some t -> k < j -> (ts t <= position /\ te t <= position)%N.
Hypothesis Hafter : forall k t, nth_error toks k = Some t -> j <= k -> (position < ts t)%N.

Lemma fd_after : forall ds o,
  j <= o -> o + len (flat_map fl_decl ds) <= len toks -> find_decl toks position (x_decls o ds) = ROk None.
Proof.
  induction ds as [|d ds IH]; intros o Hjo Hlen; cbn [x_decls find_decl]; [reflexivity|].
  cbn [flat_map] in Hlen. rewrite app_length in Hlen. rewrite slice_from_ok by lia. cbn [rbind].
  destruct (decl_text_range toks o d ltac:(lia)) as [f [l [Hf [_ Hr]]]]. rewrite Hr. cbn [rbind].
  pose proof (Hafter o f Hf Hjo). unfold in_range. cbn [fst snd]. destruct (N.leb_spec (ts f) position); [lia|].
  cbn [andb]. apply IH; lia.
Qed.

Lemma fd_before : forall da o rest,
  o + len (flat_map fl_decl da) <= j -> j <= len toks ->
  find_decl toks position (x_decls o da ++ rest) = find_decl toks position rest.
Proof.
  induction da as [|d da IH]; intros o rest Hoj Hlen; cbn [x_decls app find_decl]; [reflexivity|].
  cbn [flat_map] in Hoj. rewrite app_length in Hoj. pose proof (fl_decl_pos d) as Hp.
  rewrite slice_from_ok by lia. cbn [rbind].
  destruct (decl_text_range toks o d ltac:(lia)) as [f [l [_ [Hl Hr]]]]. rewrite Hr. cbn [rbind].
  destruct (Hbefore _ l Hl ltac:(lia)) as [_ Hle]. unfold in_range. cbn [fst snd].
  destruct (N.ltb_spec position (te l)); [lia|]. rewrite andb_false_r. apply IH; lia.
Qed.

Lemma fd_gap l1 l2 :
  len (flat_map fl_decl l1) = j -> j + len (flat_map fl_decl l2) <= len toks ->
  find_decl toks position (x_decls 0 (l1 ++ l2)) = ROk None.
Proof.
  intros Hj Hlen. rewrite x_decls_app, fd_before by lia. apply fd_after; lia.
Qed.
End TopGap.

(* the fall-back of `propose` outside every declaration: the last declaration of the mandated tree is
   finished (a type declaration ends with `;`) *)
Lemma last_decl_finished (toks : list token) ds post G position :
  map tk toks = flat_map fl_decl ds ++ post ->
  match last (map Some (x_decls 0 ds)) None with
  | Some (GType td, off) =>
      do tl <- slice_from toks off;
      do sl <- slice tl (info_range (td_info td));
      match last (map Some sl) None with
      | Some lt =>
          if is_semic (tk lt) then ROk (Some (new_global_declaration G))
          else ROk (complete_type position tl G)
      | None => ROk (Some (new_global_declaration G))
      end
  | _ => ROk (Some (new_global_declaration G))
  end = ROk (Some (new_global_declaration G)).
Proof.
  intros Hk. destruct ds as [|d0 ds0] using rev_ind; [reflexivity|]. clear IHds0.
  rewrite x_decls_app. cbn [x_decls]. rewrite map_app. cbn [map]. rewrite last_last. cbn [Nat.add].
  destruct d0 as [c1 c2 x c3 ty c4 | c1 c2 x c3 ps c4 c5 vs b c6]; [|reflexivity].
  cbn [x_decl td_info]. set (dd := DType c1 c2 x c3 ty c4) in *.
  rewrite flat_map_app in Hk. cbn [flat_map] in Hk. rewrite app_nil_r, <- app_assoc in Hk.
  pose proof (dslice_room toks _ _ _ Hk) as Hroom.
  rewrite slice_from_ok by lia. cbn [rbind].
  rewrite (slice_head _ _ (len (fl_decl dd))); [|reflexivity|reflexivity|rewrite skipn_length; lia]. cbn [rbind].
  pose proof (dslice_kinds toks _ _ _ Hk) as Hsl. unfold dslice in Hsl.
  set (sl := firstn (len (fl_decl dd)) (skipn (len (flat_map fl_decl ds0)) toks)) in *.
  assert (Hend : fl_decl dd = (cm c1 ++ KType :: cm c2 ++ Ident x :: cm c3 ++ EqT :: fl_type ty ++ cm c4) ++ [Semic]).
  { unfold dd. cbn [fl_decl]. listeq. }
  rewrite Hend in Hsl. apply map_eq_app in Hsl as [sl1 [sl2 [-> [_ H2]]]].
  destruct sl2 as [|lt [|? ?]]; try discriminate H2. injection H2 as H2.
  rewrite map_app. cbn [map]. rewrite last_last, H2. reflexivity.
Qed.

Section ValidTop.
Variables (p : aprog) (G : gtable) (t : text) (toks : list token) (d : doc).
Hypothesis Hok : prog_ok p = true.
Hypothesis Hwt : well_typed (expected p) G.
Hypothesis Hlex : lex t = Some toks.
Hypothesis Hkinds : map tk toks = flatten p ++ [Eof].
Hypothesis Hdoc : new_doc_res t = ODone d.

Lemma valid_starters : new_global_declaration G = [snip_proc; snip_type; item_proc; item_type].
Proof.
  destruct Hwt as [[es [_ [_ [pe [Hm _]]]]] _]. unfold new_global_declaration. now rewrite Hm.
Qed.

(* the answer once the corrected position is known to lie in front of / behind all tokens of the
   declarations split at j *)
Lemma propose_top l1 l2 line col :
  a_decls p = l1 ++ l2 ->
  let j := len (flat_map fl_decl l1) in
  let position := correct_index (get_insertion_index line col t) in
  (forall k tok, nth_error toks k = Some tok -> k < j -> (ts tok <= position /\ te tok <= position)%N) ->
  (forall k tok, nth_error toks k = Some tok -> j <= k -> (position < ts tok)%N) ->
  propose d line col = ROk (Some [snip_proc; snip_type; item_proc; item_type]).
Proof.
  intros Hds j position Hb Ha.
  rewrite (HoverValid.valid_doc p G t toks d Hok Hwt Hlex Hkinds Hdoc).
  pose proof (valid_room p toks Hkinds) as Hroom.
  unfold propose, doc_cursor. cbn [d_text d_toks d_ast d_table expected pg_decls].
  destruct (find_decl_ok toks (get_insertion_index line col t) (a_decls p) 0 Hroom) as [r0 ->].
  cbn [rbind c_index]. fold position.
  assert (Hfd : find_decl toks position (x_decls 0 (a_decls p)) = ROk None).
  { rewrite Hds. apply (fd_gap toks position j Hb Ha); [reflexivity|].
    rewrite Hds, flat_map_app, app_length in Hroom. fold j in Hroom. lia. }
  rewrite Hfd. cbn [rbind]. rewrite <- valid_starters.
  apply (last_decl_finished toks (a_decls p) (cm (a_ceof p) ++ [Eof])).
  rewrite Hkinds. unfold flatten. now rewrite <- app_assoc.
Qed.

Theorem propose_toplevel_position l1 l2 :
  a_decls p = l1 ++ l2 ->
  let j := len (flat_map fl_decl l1) in
  forall tprev tnext line col,
    1 <= j -> nth_error toks (j - 1) = Some tprev -> nth_error toks j = Some tnext ->
    (te tprev < get_insertion_index line col t)%N -> (get_insertion_index line col t <= ts tnext)%N ->
    propose d line col = ROk (Some [snip_proc; snip_type; item_proc; item_type]).
Proof.
  intros Hds j tprev tnext line col Hj Hp Hn H1 H2.
  pose proof (valid_sorted t toks Hlex) as Hs.
  replace j with (S (j - 1)) in Hn by lia.
  destruct (gap_position t toks Hlex (j - 1) tprev tnext _ Hp Hn H1 H2) as [G1 [G2 G3]].
  replace (S (j - 1)) with j in Hn by lia.
  apply (propose_top l1 l2 line col Hds).
  - exact (gap_before toks j tprev _ Hs Hj Hp G2).
  - exact (gap_after toks j tnext _ Hs Hn G3).
Qed.

Theorem propose_toplevel_start :
  forall tnext line col,
    nth_error toks 0 = Some tnext ->
    (0 < get_insertion_index line col t)%N -> (get_insertion_index line col t <= ts tnext)%N ->
    propose d line col = ROk (Some [snip_proc; snip_type; item_proc; item_type]).
Proof.
  intros tnext line col Hn H1 H2.
  pose proof (valid_sorted t toks Hlex) as Hs.
  apply (propose_top [] (a_decls p) line col eq_refl).
  - intros k tok _ Hk. cbn in Hk. lia.
  - apply (gap_after toks 0 tnext _ Hs Hn). unfold correct_index.
    destruct (N.ltb_spec 0 (get_insertion_index line col t)); lia.
Qed.

End ValidTop.
