(* C02, request handlers: the explicit predicate [cursor_pre] (Model/Hover.v) under which `doc_cursor`
   and hence hover never panic holds for the document of EVERY text.

   It is a direct consequence of R2 (RangeProofs [doc_bounded]): every range of the analysed tree,
   read at its accumulated Reference offset, ends at or before the index of the Eof token. *)
From Coq Require Import Arith Lia List Bool.
From Spl Require Import Model.Hover Proofs.ParserTotal Proofs.RangeProofs Proofs.HoverProofs.
Import ListNotations.
Local Open Scope nat_scope.

Lemma GdeclB_info M off g : GdeclB M off g -> InfoB M off (gdecl_info g).
Proof.
  destruct g as [td|pd|inf]; cbn [GdeclB gdecl_info]; [intros H; exact (proj1 H) | intros H; exact (proj1 H) | exact (fun H => H)].
Qed.

(* what R2 says about the global declarations of an analysed document *)
Lemma new_doc_decls_bounded t d :
  new_doc_res t = ODone d ->
  0 < length (d_toks d) /\
  Forall (fun x : gdecl * nat => snd x + i_e (gdecl_info (fst x)) <= length (d_toks d) - 1) (pg_decls (d_ast d)).
Proof.
  intros H. destruct (doc_bounded t d H) as [[_ Hb] HE]. split; [exact (N_pos _ HE)|].
  eapply Forall_impl; [|exact Hb]. intros [g off] Hg. unfold RefB in Hg. cbn [fst snd] in *.
  apply GdeclB_info in Hg. destruct Hg as [Hg _]. lia.
Qed.

Theorem new_doc_cursor_pre t d : new_doc_res t = ODone d -> cursor_pre d = true.
Proof.
  intros H. destruct (new_doc_decls_bounded t d H) as [HN Hb].
  unfold cursor_pre. apply forallb_forall. intros [g off] Hin.
  rewrite Forall_forall in Hb. specialize (Hb _ Hin). cbn [fst snd] in Hb.
  unfold decl_ok. cbn [fst snd]. apply andb_true_iff. split; [apply Nat.leb_le; lia|].
  destruct (Nat.ltb (i_s (gdecl_info g)) (i_e (gdecl_info g))); [apply Nat.leb_le | apply Nat.ltb_lt]; lia.
Qed.

(* hover answers on every freshly analysed document, at every position *)
Theorem new_doc_hover_total t d line col : new_doc_res t = ODone d -> exists r, hover d line col = ROk r.
Proof. intros H. exact (hover_total d line col (new_doc_cursor_pre t d H)). Qed.
