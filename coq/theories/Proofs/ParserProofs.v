(* Structural theorems about the parser model (Model/Parser.v) - the statements property files cite.
   Proofs live in ParserComb / ParserEqns / ParserFwd / ParserDecl / ParserTotal / ParserFuel /
   ParserSync / ParserLocal; this file restates the results in self-contained form, checks their
   assumptions and gives one concrete instance of each. *)
From Coq Require Import Arith Lia List.
From Spl Require Import Model.Parser.
From Spl Require Export Proofs.ParserComb Proofs.ParserEqns Proofs.ParserFwd Proofs.ParserDecl
  Proofs.ParserTotal Proofs.ParserFuel Proofs.ParserSync Proofs.ParserLocal.
Local Open Scope nat_scope.

(* ------------------------------------------------------------------------------------------ *)
(* T1: position discipline.  [Disciplined toks p]: from an in-bounds state, both a success of p and
   the state carried by an error of p lie at or after the input position, in bounds, with refp
   restored.  (In this model an error state is NEVER behind the input: a tag parser fails at its
   input or after the comments, ignore_until fails where it stopped, many0 fails at the iteration
   that made no progress, and info/Reference only restore ebuf/refp.) *)
Definition Disciplined {A} (toks : list token) (p : parser A) : Prop :=
  forall s, pos s <= length toks ->
    match p s with
    | POk s' _ | PErr s' => pos s <= pos s' /\ pos s' <= length toks /\ refp s' = refp s
    | PFuel => True
    end.

Lemma Fwd_Disciplined {A} toks sync (p : parser A) : Fwd toks sync p -> Disciplined toks p.
Proof.
  intros H s Hs. specialize (H s Hs). destruct (p s); cbn in H; try exact I;
    destruct H as (H1 & H2 & H3 & _); auto.
Qed.

(* [Guarded toks p]: additionally p never steps over a proc/type/Eof token, neither on success nor
   in the state carried by an error *)
Definition Guarded {A} (toks : list token) (p : parser A) : Prop :=
  forall s, pos s <= length toks ->
    match p s with
    | POk s' _ | PErr s' =>
        forall i t, pos s <= i < pos s' -> nth_error toks i = Some t -> sync_full (tk t) = false
    | PFuel => True
    end.

Lemma Fwd_Guarded {A} toks (p : parser A) : Fwd toks sync_full p -> Guarded toks p.
Proof.
  intros H s Hs. specialize (H s Hs). destruct (p s); cbn in H; try exact I;
    destruct H as (_ & _ & _ & H4); intros i t Hi Ht; exact (H4 i Hi t Ht).
Qed.

Theorem T1_discipline toks fuel :
  Disciplined toks (p_ident toks) /\ Disciplined toks (p_intlit toks) /\
  Disciplined toks (p_variable toks fuel) /\ Disciplined toks (p_primary toks fuel) /\
  Disciplined toks (p_factor toks fuel) /\ Disciplined toks (p_mul toks fuel) /\
  Disciplined toks (p_add toks fuel) /\ Disciplined toks (p_comparison toks fuel) /\
  Disciplined toks (p_texpr toks fuel) /\ Disciplined toks (p_argument toks fuel) /\
  Disciplined toks (p_call toks fuel) /\ Disciplined toks (p_assign toks fuel) /\
  Disciplined toks (p_stmt toks fuel) /\ Disciplined toks (p_vardecl toks fuel) /\
  Disciplined toks (p_paramdecl toks fuel) /\ Disciplined toks (p_typedecl toks fuel) /\
  Disciplined toks (p_procdecl toks fuel) /\ Disciplined toks (p_gdecl toks fuel) /\
  Disciplined toks (p_eof_all toks) /\ Disciplined toks (p_program toks fuel).
Proof.
  pose proof sync_none_ok as Hs. pose proof (Fwd_expr_all toks sync_none Hs fuel) as (A1 & A2 & A3 & _ & A4 & _ & A5 & A6).
  repeat split; apply (Fwd_Disciplined toks sync_none); try assumption;
    first [ now apply Fwd_ident | now apply Fwd_intlit | now apply Fwd_texpr | now apply Fwd_argument
          | now apply Fwd_call | now apply Fwd_assign | now apply Fwd_stmt | now apply Fwd_vardecl
          | now apply Fwd_paramdecl | apply Fwd0_typedecl | apply Fwd0_procdecl | apply Fwd0_gdecl
          | apply Fwd0_eof_all | apply Fwd0_program ].
Qed.
Print Assumptions T1_discipline.

Theorem T1_guarded toks fuel :
  Guarded toks (p_ident toks) /\ Guarded toks (p_intlit toks) /\
  Guarded toks (p_variable toks fuel) /\ Guarded toks (p_comparison toks fuel) /\
  Guarded toks (p_texpr toks fuel) /\ Guarded toks (p_argument toks fuel) /\
  Guarded toks (p_call toks fuel) /\ Guarded toks (p_assign toks fuel) /\
  Guarded toks (p_stmt toks fuel) /\ Guarded toks (p_vardecl toks fuel) /\
  Guarded toks (p_paramdecl toks fuel) /\
  Guarded toks (typedecl_rest toks fuel) /\ Guarded toks (procdecl_rest toks fuel) /\
  Guarded toks (p_info (p_ignore1 toks (la_global toks))).
Proof.
  pose proof sync_full_ok as Hs.
  repeat split; apply Fwd_Guarded; fwd_solve Hs.
Qed.
Print Assumptions T1_guarded.

(* where a tag parser fails: at the original input (mismatch) or after the comments (no token left) *)
Theorem T1_tag_error toks f s s' :
  p_tag toks f s = PErr s' ->
  (s' = s /\ exists t, nth_error toks (sig_at toks (pos s)) = Some t /\ f (tk t) = false) \/
  (s' = adv s (sig_at toks (pos s) - pos s) /\ nth_error toks (sig_at toks (pos s)) = None).
Proof. exact (p_tag_err toks f s s'). Qed.
Print Assumptions T1_tag_error.

(* ------------------------------------------------------------------------------------------ *)
(* T2: progress *)
Theorem T2_gdecl_progress toks fuel s s' g :
  pos s <= length toks -> p_gdecl toks fuel s = POk s' g -> pos s < pos s'.
Proof. intros Hs H. exact (Prog_gdecl toks fuel s s' g Hs H). Qed.
Print Assumptions T2_gdecl_progress.

Theorem T2_many0_never_stuck toks fuel fuel' s e :
  pos s <= length toks -> p_many0 fuel (p_ref (p_gdecl toks fuel')) s <> PErr e.
Proof. exact (many0_gdecl_noerr toks fuel fuel' s e). Qed.
Print Assumptions T2_many0_never_stuck.

(* ------------------------------------------------------------------------------------------ *)
(* T3: "Parser cannot fail" is unreachable *)
Theorem T3_program_never_fails toks fuel s e :
  EofLast toks -> pos s < length toks -> p_program toks fuel s <> PErr e.
Proof. intros HE. exact (program_noerr toks HE fuel s e). Qed.
Print Assumptions T3_program_never_fails.

Theorem T3_parse_no_panic toks : EofLast toks -> parse toks <> Panic.
Proof. exact (parse_no_panic toks). Qed.
Print Assumptions T3_parse_no_panic.

(* T4: the stated fuel suffices - for every token list *)
Theorem T4_parse_fuel_suffices toks : parse toks <> OutOfFuel.
Proof. exact (parse_fuel_suffices toks). Qed.
Print Assumptions T4_parse_fuel_suffices.

Theorem T4_program_fuel toks fuel s :
  pos s <= length toks -> 8 * (length toks - pos s) + 9 <= fuel -> p_program toks fuel s <> PFuel.
Proof. intros Hs Hf. exact (program_nofuel toks fuel (length toks - pos s) Hf s Hs (le_n _)). Qed.
Print Assumptions T4_program_fuel.

(* T3 + T4 = parse_ok of DESIGN.md (C02) *)
Theorem parse_ok toks : EofLast toks -> exists prog, parse toks = Done prog.
Proof.
  intros HE. pose proof (parse_no_panic toks HE). pose proof (parse_fuel_suffices toks).
  destruct (parse toks) as [p| |]; [eauto | congruence | congruence].
Qed.
Print Assumptions parse_ok.

(* ------------------------------------------------------------------------------------------ *)
(* T5: synchronisation *)
Theorem T5_sync toks prog :
  EofLast toks -> parse toks = Done prog ->
  Spans toks 0 (pg_decls prog) (i_e (pg_info prog)) /\
  i_s (pg_info prog) = 0 /\
  sig_at toks (i_e (pg_info prog)) = length toks - 1.
Proof. exact (parse_sync toks prog). Qed.
Print Assumptions T5_sync.

(* the same, per declaration: declaration i occupies the tokens [off, off + i_e); it is never empty;
   the next declaration starts exactly where it ends and the last one ends where the comments in
   front of Eof start; the first starts at 0; a Type/Procedure declaration consists of comments, its
   keyword, and tokens that are not proc/type/Eof; an Error declaration contains no proc/type/Eof
   token and ends in front of (comments +) one *)
Theorem T5_per_declaration toks prog i g off :
  EofLast toks -> parse toks = Done prog -> nth_error (pg_decls prog) i = Some (g, off) ->
  off + i_e (gdecl_info g) <= i_e (pg_info prog) /\ 0 < i_e (gdecl_info g) /\ i_s (gdecl_info g) = 0 /\
  decl_span toks g off (off + i_e (gdecl_info g)) /\
  match nth_error (pg_decls prog) (S i) with
  | Some (_, off') => off' = off + i_e (gdecl_info g)
  | None => off + i_e (gdecl_info g) = i_e (pg_info prog)
  end /\
  (i = 0 -> off = 0).
Proof.
  intros HE H Hn. apply parse_sync in H as (Hsp & _); [|exact HE].
  destruct (Spans_nth toks _ _ _ _ _ _ Hsp Hn) as (A & B & C & D & E & F & G).
  repeat split; assumption.
Qed.
Print Assumptions T5_per_declaration.

Theorem T5_heads toks prog :
  EofLast toks -> parse toks = Done prog ->
  decl_heads toks (pg_decls prog) = kw_in toks 0 (length toks).
Proof. exact (parse_heads toks prog). Qed.
Print Assumptions T5_heads.

(* ------------------------------------------------------------------------------------------ *)
(* T6: locality *)
Theorem T6_locality toks1 toks2 fuel j s :
  (forall i, i <= j -> nth_error toks1 i = nth_error toks2 i) ->
  (exists t, nth_error toks1 j = Some t /\ sync_full (tk t) = true) ->
  sig_at toks1 (pos s) < j ->
  p_gdecl toks1 fuel s = p_gdecl toks2 fuel s /\
  (forall s' g, p_gdecl toks1 fuel s = POk s' g -> pos s' <= j).
Proof.
  intros Hag Hj Hs. split.
  - exact (gdecl_local toks1 toks2 j Hag Hj fuel s Hs).
  - intros s' g. exact (gdecl_stops toks1 j Hj fuel s s' g Hs).
Qed.
Print Assumptions T6_locality.

(* ------------------------------------------------------------------------------------------ *)
(* concrete instances *)
Definition mk (ks : list kind) : list token :=
  map (fun k => {| tk := k; ts := 0; te := 0; terr := [] |}) ks.

Definition idx := Ident [120%N].
Definition cmt := Comment [100%N].

(* kind of declaration (0 error, 1 type, 2 proc), offset, length *)
Definition summary (toks : list token) : option (list (nat * nat * nat) * nat) :=
  match parse toks with
  | Done p => Some (map (fun go => (match fst go with GType _ => 1 | GProc _ => 2 | GError _ => 0 end,
                                    snd go, i_e (gdecl_info (fst go)))) (pg_decls p), i_e (pg_info p))
  | _ => None
  end.

Lemma EofLast_mk body : Forall (fun k => k <> Eof) body -> EofLast (mk (body ++ [Eof])).
Proof.
  intros H. exists (mk body), {| tk := Eof; ts := 0; te := 0; terr := [] |}.
  split; [unfold mk; now rewrite map_app|]. split; [reflexivity|].
  unfold mk. rewrite Forall_map. exact H.
Qed.

(* `) + //d type x = array type x //d //d Eof`: garbage, then two type declarations, the first one
   cut short by the second `type`; the comment after the garbage becomes the doc of the first *)
Definition ex1 := mk ([RParen; Plus; cmt; KType; idx; EqT; KArray; KType; idx; cmt; cmt] ++ [Eof]).

Example ex1_eoflast : EofLast ex1.
Proof. apply EofLast_mk. repeat constructor; discriminate. Qed.

Example ex1_parse : summary ex1 = Some ([(0, 0, 2); (1, 2, 5); (1, 7, 2)], 9).
Proof. vm_compute. reflexivity. Qed.

Example ex1_heads : kw_in ex1 0 (length ex1) = [(3, KType); (7, KType)].
Proof. vm_compute. reflexivity. Qed.

(* `proc f ( proc g ( ) { }`: the parameter-list recovery stops in front of the second `proc` *)
Definition ex2 := mk ([KProc; idx; LParen; KProc; idx; LParen; RParen; LCurly; RCurly] ++ [Eof]).

Example ex2_eoflast : EofLast ex2.
Proof. apply EofLast_mk. repeat constructor; discriminate. Qed.

Example ex2_parse : summary ex2 = Some ([(2, 0, 3); (2, 3, 6)], 9).
Proof. vm_compute. reflexivity. Qed.

(* K0 of DESIGN.md (C05), repaired: `proc a ( ) { x := x ; if //d proc b ( ) { }`.  Before the fix of
   Statement::parse_error the failing error alternative of the statement expected after `if` left the
   comment consumed, `expect` continued behind it, and the first procedure swallowed the doc comment
   of the second (spans 11 + 6).  Now the alternative fails at its own input: the first procedure's
   span is 10 tokens and ends IN FRONT of the comment (index 10), the second procedure starts at the
   comment and keeps it as its doc *)
Definition ex3 := mk ([KProc; idx; LParen; RParen; LCurly; idx; Assign; idx; Semic; KIf; cmt;
                       KProc; idx; LParen; RParen; LCurly; RCurly] ++ [Eof]).

Example ex3_parse : summary ex3 = Some ([(2, 0, 10); (2, 10, 7)], 17).
Proof. vm_compute. reflexivity. Qed.

(* the doc comments of the two procedures: none for `a`, `//d` for `b` *)
Example ex3_docs :
  match parse ex3 with
  | Done p => map (fun go => match fst go with GProc d => pd_doc d | _ => [] end) (pg_decls p)
  | _ => []
  end = [ []; [[100%N]] ].
Proof. vm_compute. reflexivity. Qed.

(* the error recorded in the first procedure's own AstInfo is `missing closing }`; it lands on token 9,
   the `if`, i.e. on the last token of the procedure's span [0, 10) - before the fix it was (10, 10),
   the swallowed comment of the next declaration *)
Example ex3_closing_brace :
  match parse ex3 with
  | Done p => match pg_decls p with
              | (GProc d, off) :: _ =>
                  map (fun e => (off + e_s e, off + e_e e)) (i_errs (pd_info d))
              | _ => []
              end
  | _ => []
  end = [ (9, 9) ].
Proof. vm_compute. reflexivity. Qed.

(* the hypothesis of T3 is needed: with a second Eof token "Parser cannot fail" is reachable *)
Example two_eofs_panic : parse (mk [Eof; Eof]) = Panic.
Proof. vm_compute. reflexivity. Qed.

Example no_eof_panic : parse (mk [idx]) = Panic.
Proof. vm_compute. reflexivity. Qed.

(* T1/T2 instance: the first declaration of ex1 *)
Example ex1_gdecl :
  match p_gdecl ex1 20 {| pos := 0; refp := 0; ebuf := [] |} with
  | POk s' (GError _) => pos s' = 2
  | _ => False
  end.
Proof. vm_compute. reflexivity. Qed.

(* T6 instance: ex1 and a list that differs after the second `type` give the same first type declaration *)
Definition ex1' := mk ([RParen; Plus; cmt; KType; idx; EqT; KArray; KType; RCurly; RCurly] ++ [Eof]).
Example ex1_local :
  p_gdecl ex1 20 {| pos := 2; refp := 2; ebuf := [] |} = p_gdecl ex1' 20 {| pos := 2; refp := 2; ebuf := [] |}.
Proof. vm_compute. reflexivity. Qed.
