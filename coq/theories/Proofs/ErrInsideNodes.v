(* C05, positions of the syntax errors: every error the parser attaches anywhere below a node lies inside
   the tokens that node consumed.

   The invariant is RELATIVE (the invariant of RangeProofsBound.v bounds every range by the index of the
   Eof token only): [Inv H b p] - from a state with refp <= pos <= N a run of p (success or error) ends in
   such a state with the same refp, every error of the buffer - read relative to any reference position
   r <= refp, see RangeProofsBound.v - satisfies [ErrQ (pos s') r], and the errors [er a] that errors()
   collects from a returned tree a satisfy [ErrQ P refp] for every P >= pos s'.
   [ErrQ P off e]: off + e_e e <= P, e_s e <= e_e e, and off + e_s e < P unless e is [soft] - the error of
   an EMPTY parameter declaration or argument (`ignore_until0` that skipped nothing), whose empty range sits AT
   the position the parser stands on, i.e. possibly at the first token behind the node.
   The flag b = true adds refp < pos to the precondition: `expect` pushes its error at pos - refp - 1 (truncated
   subtraction), which is a position of the enclosing Reference only when something of that Reference has been
   consumed already; every `expect` of the grammar comes behind a consumed token of its Reference
   ([Inv_pair_prog]: the flag is switched on behind a parser that makes progress). *)
From Coq Require Import Arith Lia List.
From Spl Require Import Model.Parser Model.Errors Proofs.ParserComb Proofs.ParserEqns Proofs.ParserFwd Proofs.ParserDecl.
Import ListNotations.
Local Open Scope nat_scope.

(* ------------------------------------------------------------------------------------------ *)
(* the predicate on errors *)
Definition soft (e : err) : Prop :=
  e_m e = EParse (ExpectedToken s_paramdec) \/ e_m e = EParse (ExpectedToken s_expression).

Definition ErrQ (P off : nat) (e : err) : Prop :=
  off + e_e e <= P /\ e_s e <= e_e e /\ (off + e_s e < P \/ soft e).

Lemma ErrQ_mono P P' r r' e : P <= P' -> r' <= r -> ErrQ P r e -> ErrQ P' r' e.
Proof.
  intros HP Hr (A & B & C). split; [lia|]. split; [exact B|]. destruct C as [C|C]; [left; lia | right; exact C].
Qed.

Lemma Forall_ErrQ_mono P P' r r' l : P <= P' -> r' <= r -> Forall (ErrQ P r) l -> Forall (ErrQ P' r') l.
Proof. intros HP Hr H. eapply Forall_impl; [|exact H]. intros e. now apply ErrQ_mono. Qed.

Lemma ErrQ_shift P off o e : ErrQ P (off + o) e <-> ErrQ P off (shift_e o e).
Proof.
  unfold ErrQ, shift_e, soft. cbn [e_s e_e e_m].
  split; intros (A & B & C); (split; [lia|]; split; [lia|]; destruct C as [C|C]; [left; lia | right; exact C]).
Qed.

Lemma Forall_ErrQ_shift P off o l : Forall (ErrQ P (off + o)) l <-> Forall (ErrQ P off) (shift_es o l).
Proof.
  unfold shift_es. rewrite Forall_map. split; intros H; (eapply Forall_impl; [|exact H]); intros e; apply ErrQ_shift.
Qed.

Lemma Forall_incl {A} (Q : A -> Prop) l l' : incl l' l -> Forall Q l -> Forall Q l'.
Proof. intros Hi H. apply Forall_forall. intros x Hx. rewrite Forall_forall in H. apply H, Hi, Hx. Qed.

(* ------------------------------------------------------------------------------------------ *)
(* what errors() collects from a parser result *)
Class Er (A : Type) := er : A -> list err.

#[global] Instance er_ident : Er ident := ident_errors.
#[global] Instance er_intlit : Er intlit := fun i => i_errs (il_info i).
#[global] Instance er_info : Er info := i_errs.
#[global] Instance er_variable : Er variable := var_errors.
#[global] Instance er_expr : Er expr := expr_errors.
#[global] Instance er_texpr : Er typeexpr := texpr_errors.
#[global] Instance er_stmt : Er stmt := stmt_errors.
#[global] Instance er_vardecl : Er vardecl := vardecl_errors.
#[global] Instance er_paramdecl : Er paramdecl := paramdecl_errors.
#[global] Instance er_typedecl : Er typedecl := typedecl_errors.
#[global] Instance er_procdecl : Er procdecl := procdecl_errors.
#[global] Instance er_gdecl : Er gdecl := gdecl_errors.
#[global] Instance er_token : Er token := fun _ => [].
#[global] Instance er_unit : Er unit := fun _ => [].
#[global] Instance er_bool : Er bool := fun _ => [].
#[global] Instance er_texts : Er (list text) := fun _ => [].
#[global] Instance er_tokens : Er (list token) := fun _ => [].
#[global] Instance er_optN : Er (option N) := fun _ => [].
#[global] Instance er_opt {A} (H : Er A) : Er (option A) | 5 :=
  fun o => match o with Some a => H a | None => [] end.
#[global] Instance er_list {A} (H : Er A) : Er (list A) | 5 := flat_map H.
#[global] Instance er_ref {A} (H : Er A) : Er (A * nat) | 4 := fun x => shift_es (snd x) (H (fst x)).
#[global] Instance er_pair {A B} (HA : Er A) (HB : Er B) : Er (A * B) | 5 := fun x => HA (fst x) ++ HB (snd x).

Ltac er_unf :=
  unfold er, er_ident, er_intlit, er_info, er_variable, er_expr, er_texpr, er_stmt, er_vardecl, er_paramdecl,
    er_typedecl, er_procdecl, er_gdecl, er_token, er_unit, er_bool, er_texts, er_tokens, er_optN,
    er_opt, er_list, er_ref, er_pair in *.

Lemma block_errors body inf :
  stmt_errors (SBlock body inf) = i_errs inf ++ flat_map (fun x => shift_es (snd x) (stmt_errors (fst x))) body.
Proof.
  cbn [stmt_errors]. f_equal. induction body as [|[x o] r IH]; [reflexivity|].
  cbn [flat_map fst snd]. f_equal. exact IH.
Qed.

(* ------------------------------------------------------------------------------------------ *)
Section Inv.
Variable toks : list token.
Notation N := (length toks).
Notation Fwd0 := (Fwd toks sync_none).
Notation ProgT := (Prog toks).

Definition GoodS (b : bool) (s : st) : Prop := pos s <= N /\ refp s <= pos s /\ (b = true -> refp s < pos s).
Definition St (s s' : st) : Prop := pos s <= pos s' /\ pos s' <= N /\ refp s' = refp s.
Definition EB (r : nat) (s : st) : Prop := Forall (ErrQ (pos s) r) (ebuf s).

Definition postc {A} (s : st) (r : nat) (Q : nat -> A -> Prop) (x : pres A) : Prop :=
  match x with
  | POk s' a => St s s' /\ EB r s' /\ (forall X, pos s' <= X -> Q X a)
  | PErr s' => St s s' /\ EB r s'
  | PFuel => True
  end.

Definition InvAt {A} (b : bool) (off : nat) (Q : nat -> A -> Prop) (p : parser A) : Prop :=
  forall s r, GoodS b s -> refp s = off -> r <= off -> EB r s -> postc s r Q (p s).

Definition QE {A} (H : Er A) (off : nat) : nat -> A -> Prop := fun P a => Forall (ErrQ P off) (H a).

Definition Inv {A} (H : Er A) (b : bool) (p : parser A) : Prop := forall off, InvAt b off (QE H off) p.

Lemma St_refl s : pos s <= N -> St s s.
Proof. intros H. repeat split; [lia | exact H]. Qed.

Lemma St_trans s1 s2 s3 : St s1 s2 -> St s2 s3 -> St s1 s3.
Proof. intros (A1 & A2 & A3) (B1 & B2 & B3). repeat split; [lia | lia | congruence]. Qed.

Lemma St_good b s s' : GoodS b s -> St s s' -> GoodS b s'.
Proof. intros (G1 & G2 & G3) (A1 & A2 & A3). split; [exact A2|]. split; [lia|]. intros Hb. specialize (G3 Hb). lia. Qed.

Lemma GoodS_sub b s : GoodS b s -> GoodS false s.
Proof. intros (G1 & G2 & _). split; [exact G1|]. split; [exact G2 | discriminate]. Qed.

Lemma GoodS_true b s : GoodS b s -> refp s < pos s -> GoodS true s.
Proof. intros (G1 & G2 & _) H. split; [exact G1|]. split; [exact G2 | intros _; exact H]. Qed.

Lemma EB_mono r s s' : pos s <= pos s' -> ebuf s' = ebuf s -> EB r s -> EB r s'.
Proof. intros Hp He H. unfold EB in *. rewrite He. eapply Forall_ErrQ_mono; [exact Hp | apply le_n | exact H]. Qed.

Lemma postc_bind {A B} s r (P : nat -> A -> Prop) (Q : nat -> B -> Prop) (x : pres A) (k : st -> A -> pres B) :
  postc s r P x ->
  (forall s1 a, St s s1 -> EB r s1 -> (forall X, pos s1 <= X -> P X a) -> postc s1 r Q (k s1 a)) ->
  postc s r Q (bind x k).
Proof.
  destruct x as [s1 a|e|]; cbn [postc bind]; intros H K; [|exact H|exact I].
  destruct H as (S1 & B1 & Pa). specialize (K s1 a S1 B1 Pa).
  destruct (k s1 a) as [s2 b|e|]; cbn [postc] in *; [| |exact I].
  - destruct K as (S2 & K). split; [eapply St_trans; eassumption | exact K].
  - destruct K as (S2 & K). split; [eapply St_trans; eassumption | exact K].
Qed.

Lemma postc_weaken {A} s r (P Q : nat -> A -> Prop) (x : pres A) :
  (forall X a, P X a -> Q X a) -> postc s r P x -> postc s r Q x.
Proof.
  intros H. destruct x; cbn [postc]; [|tauto|tauto].
  intros (A1 & A2 & A3). split; [exact A1|]. split; [exact A2|]. intros X HX. apply H, A3, HX.
Qed.

Lemma postc_ret {A} s r (Q : nat -> A -> Prop) a :
  pos s <= N -> EB r s -> (forall X, pos s <= X -> Q X a) -> postc s r Q (POk s a).
Proof. intros H1 H2 H3. cbn [postc]. split; [apply St_refl, H1|]. split; assumption. Qed.

Lemma InvAt_bind {A B} b off (P : nat -> A -> Prop) (Q : nat -> B -> Prop) (p : parser A) (k : st -> A -> pres B) :
  InvAt b off P p ->
  (forall a s1 r, GoodS b s1 -> refp s1 = off -> r <= off -> EB r s1 -> (forall X, pos s1 <= X -> P X a) ->
                  postc s1 r Q (k s1 a)) ->
  InvAt b off Q (fun s => bind (p s) k).
Proof.
  intros Hp Hk s r G Ho Hr Hb. apply postc_bind with (P := P); [now apply Hp|].
  intros s1 a S1 B1 Pa. apply Hk; [eapply St_good; eassumption | | exact Hr | exact B1 | exact Pa].
  destruct S1 as (_ & _ & E). congruence.
Qed.

Lemma InvAt_ext {A} b off (Q : nat -> A -> Prop) (p q : parser A) :
  (forall s, p s = q s) -> InvAt b off Q p -> InvAt b off Q q.
Proof. intros E Hp s r G Ho Hr Hb. rewrite <- E. now apply Hp. Qed.

Lemma InvAt_sub {A} b off (Q : nat -> A -> Prop) (p : parser A) : InvAt false off Q p -> InvAt b off Q p.
Proof. intros Hp s r G Ho Hr Hb. apply Hp; [eapply GoodS_sub, G | exact Ho | exact Hr | exact Hb]. Qed.

Lemma InvAt_fuel {A} b off (Q : nat -> A -> Prop) : InvAt b off Q (fun _ => PFuel).
Proof. intros s r _ _ _ _. exact I. Qed.

Lemma Inv_fuel {A} (H : Er A) b : Inv H b (fun _ => PFuel).
Proof. intros off. apply InvAt_fuel. Qed.

Lemma Inv_sub {A} (H : Er A) b (p : parser A) : Inv H false p -> Inv H b p.
Proof. intros Hp off. apply InvAt_sub, Hp. Qed.

(* ---- leaves: parsers that move forward and leave the error buffer alone ---- *)
Definition Quiet {A} (p : parser A) : Prop :=
  forall s, pos s <= N ->
    match p s with
    | POk s' _ | PErr s' => pos s <= pos s' /\ pos s' <= N /\ refp s' = refp s /\ ebuf s' = ebuf s
    | PFuel => True
    end.

Lemma Inv_quiet {A} (H : Er A) b (p : parser A) : Quiet p -> (forall a, H a = []) -> Inv H b p.
Proof.
  intros Hq Hn off s r G Ho Hr Hb. specialize (Hq s (proj1 G)).
  destruct (p s) as [s' a|s'|]; cbn [postc]; [| |exact I]; destruct Hq as (A1 & A2 & A3 & A4).
  - split; [repeat split; assumption|]. split; [now apply (EB_mono r s s')|].
    intros X _. unfold QE. rewrite Hn. constructor.
  - split; [repeat split; assumption | now apply (EB_mono r s s')].
Qed.

Lemma Quiet_comments : Quiet (p_comments toks).
Proof.
  intros s Hs. unfold p_comments. cbn [pos adv refp ebuf]. pose proof (comments_at_le toks (pos s) Hs).
  repeat split; lia.
Qed.

Lemma Quiet_tag f : Quiet (p_tag toks f).
Proof.
  intros s Hs. pose proof (sig_at_ge toks (pos s)) as Hge. pose proof (sig_at_le toks (pos s) Hs) as Hle.
  destruct (p_tag toks f s) as [s' t|s'|] eqn:E; [| |exact I].
  - apply p_tag_ok in E as (Ht & _ & ->). cbn [pos adv refp ebuf].
    assert (sig_at toks (pos s) < N) by (apply nth_error_Some; congruence). repeat split; lia.
  - apply p_tag_err in E as [[-> _]|[-> _]]; cbn [pos adv refp ebuf]; repeat split; lia.
Qed.

Lemma Quiet_peek_la la : Quiet (p_peek_la la).
Proof. intros s Hs. unfold p_peek_la. destruct (la (pos s)); repeat split; lia. Qed.

Lemma ignore_from_quiet n la : forall s, pos s <= N ->
  match ignore_from toks n la s with
  | POk s' _ | PErr s' => pos s <= pos s' /\ pos s' <= N /\ refp s' = refp s /\ ebuf s' = ebuf s
  | PFuel => True
  end.
Proof.
  induction n as [|n IH]; intros s Hs; cbn [ignore_from]; destruct (la (pos s)); try (repeat split; lia).
  destruct (Nat.ltb (pos s) N) eqn:El; [|repeat split; lia]. apply Nat.ltb_lt in El.
  specialize (IH (adv s 1)). cbn [pos adv refp ebuf] in IH.
  destruct (ignore_from toks n la (adv s 1)) as [s' u|s'|]; [| |exact I];
    (destruct IH as (A1 & A2 & A3 & A4); [lia|]; repeat split; try assumption; lia).
Qed.

Lemma Quiet_ignore0 la : Quiet (p_ignore0 toks la).
Proof.
  intros s Hs. unfold p_ignore0. pose proof (ignore_from_quiet (S (N - pos s)) la s Hs) as H.
  destruct (ignore_from toks (S (N - pos s)) la s) as [s' u|s'|]; cbn [bind]; exact H.
Qed.

Lemma Quiet_ignore1 la : Quiet (p_ignore1 toks la).
Proof.
  intros s Hs. unfold p_ignore1. destruct (la (pos s)); [repeat split; lia | now apply Quiet_ignore0].
Qed.

Lemma Quiet_pair {A B} (p : parser A) (q : parser B) : Quiet p -> Quiet q -> Quiet (p_pair p q).
Proof.
  intros Hp Hq s Hs. unfold p_pair. specialize (Hp s Hs).
  destruct (p s) as [s1 a|s1|]; cbn [bind]; [|exact Hp|exact I]. destruct Hp as (A1 & A2 & A3 & A4).
  specialize (Hq s1 A2). destruct (q s1) as [s2 c|s2|]; cbn [bind]; [| |exact I];
    (destruct Hq as (B1 & B2 & B3 & B4); repeat split; [lia | exact B2 | congruence | congruence]).
Qed.

Lemma Inv_comments b : Inv er_texts b (p_comments toks).
Proof. apply Inv_quiet; [apply Quiet_comments | reflexivity]. Qed.
Lemma Inv_tag b f : Inv er_token b (p_tag toks f).
Proof. apply Inv_quiet; [apply Quiet_tag | reflexivity]. Qed.
Lemma Inv_peek_la b la : Inv er_unit b (p_peek_la la).
Proof. apply Inv_quiet; [apply Quiet_peek_la | reflexivity]. Qed.
Lemma Inv_ignore0 b la : Inv er_tokens b (p_ignore0 toks la).
Proof. apply Inv_quiet; [apply Quiet_ignore0 | reflexivity]. Qed.
Lemma Inv_ignore1 b la : Inv er_tokens b (p_ignore1 toks la).
Proof. apply Inv_quiet; [apply Quiet_ignore1 | reflexivity]. Qed.

(* ---- combinators ---- *)
Lemma Inv_map {A B} (HA : Er A) (HB : Er B) b (f : A -> B) p :
  Inv HA b p -> (forall a, incl (HB (f a)) (HA a)) -> Inv HB b (p_map f p).
Proof.
  intros Hp Hf off s r G Ho Hr Hb. unfold p_map. apply postc_bind with (P := QE HA off); [now apply Hp|].
  intros s1 a S1 B1 Pa. apply postc_ret; [apply S1 | exact B1|].
  intros X HX. unfold QE in *. eapply Forall_incl; [apply Hf | apply Pa, HX].
Qed.

Lemma Inv_alt {A} (H : Er A) b (p q : parser A) : Inv H b p -> Inv H b q -> Inv H b (p_alt p q).
Proof.
  intros Hp Hq off s r G Ho Hr Hb. unfold p_alt. specialize (Hp off s r G Ho Hr Hb).
  destruct (p s); [exact Hp | now apply Hq | exact I].
Qed.

Lemma Inv_restore {A} (H : Er A) b (p : parser A) : Inv H b p -> Inv H b (p_restore p).
Proof.
  intros Hp off s r G Ho Hr Hb. unfold p_restore. specialize (Hp off s r G Ho Hr Hb).
  destruct (p s) as [s1 a|e|]; cbn [postc] in *; [exact Hp | | exact I].
  split; [apply St_refl, G | exact Hb].
Qed.

Lemma Inv_opt {A} (H : Er A) b (p : parser A) : Inv H b p -> Inv (er_opt H) b (p_opt p).
Proof.
  intros Hp off s r G Ho Hr Hb. unfold p_opt. specialize (Hp off s r G Ho Hr Hb).
  destruct (p s) as [s1 a|e|]; cbn [postc] in *; [exact Hp | | exact I].
  split; [apply St_refl, G | split; [exact Hb | intros X _; constructor]].
Qed.

Lemma Inv_pair {A B} (HA : Er A) (HB : Er B) b (p : parser A) (q : parser B) :
  Inv HA b p -> Inv HB b q -> Inv (er_pair HA HB) b (p_pair p q).
Proof.
  intros Hp Hq off. unfold p_pair. apply InvAt_bind with (P := QE HA off); [apply Hp|].
  intros a s1 r G1 Ho1 Hr1 B1 Pa. apply postc_bind with (P := QE HB off); [now apply Hq|].
  intros s2 c S2 B2 Pc. apply postc_ret; [apply S2 | exact B2|].
  intros X HX. unfold QE, er_pair in *. cbn [fst snd]. apply Forall_app. split; [apply Pa | apply Pc, HX].
  destruct S2 as (S2 & _). lia.
Qed.

(* behind a parser that consumes a token the position is behind the reference position *)
Lemma Inv_pair_prog {A B} (HA : Er A) (HB : Er B) b (p : parser A) (q : parser B) :
  Inv HA b p -> ProgT p -> Inv HB true q -> Inv (er_pair HA HB) b (p_pair p q).
Proof.
  intros Hp Pp Hq off s r G Ho Hr Hb. unfold p_pair.
  pose proof (Hp off s r G Ho Hr Hb) as H1.
  destruct (p s) as [s1 a|e|] eqn:E; cbn [bind postc] in *; [|exact H1|exact I].
  destruct H1 as (S1 & B1 & Pa). pose proof (Pp s s1 a (proj1 G) E) as Hlt.
  assert (G1 : GoodS true s1).
  { apply (GoodS_true b); [eapply St_good; eassumption|]. destruct S1 as (_ & _ & E1). destruct G as (_ & G2 & _). lia. }
  assert (Ho1 : refp s1 = off) by (destruct S1 as (_ & _ & E1); congruence).
  pose proof (Hq off s1 r G1 Ho1 Hr B1) as H2.
  destruct (q s1) as [s2 c|e|]; cbn [bind postc] in *; [| |exact I].
  - destruct H2 as (S2 & B2 & Pc). split; [eapply St_trans; eassumption|]. split; [exact B2|].
    intros X HX. unfold QE, er_pair in *. cbn [fst snd]. apply Forall_app. split; [apply Pa | apply Pc, HX].
    destruct S2 as (S2 & _). lia.
  - destruct H2 as (S2 & B2). split; [eapply St_trans; eassumption | exact B2].
Qed.

Lemma Inv_many0 {A} (H : Er A) b fuel (p : parser A) : Inv H b p -> Inv (er_list H) b (p_many0 fuel p).
Proof.
  intros Hp off. induction fuel as [|f IH]; intros s r G Ho Hr Hb; cbn [p_many0]; [exact I|].
  pose proof (Hp off s r G Ho Hr Hb) as H1.
  destruct (p s) as [s1 a|e|]; cbn [postc] in H1; [| |exact I].
  2:{ cbn [postc]. split; [apply St_refl, G | split; [exact Hb | intros X _; constructor]]. }
  destruct H1 as (S1 & B1 & Pa).
  destruct (Nat.eqb (pos s1) (pos s)); [cbn [postc]; split; [apply St_refl, G | exact Hb]|].
  assert (G1 : GoodS b s1) by (eapply St_good; eassumption).
  assert (Ho1 : refp s1 = off) by (destruct S1 as (_ & _ & E); congruence).
  specialize (IH s1 r G1 Ho1 Hr B1).
  destruct (p_many0 f p s1) as [s2 l|e|]; cbn [bind postc] in *; [| |exact I].
  - destruct IH as (S2 & B2 & Pl). split; [eapply St_trans; eassumption|]. split; [exact B2|].
    intros X HX. unfold QE, er_list in *. cbn [flat_map]. apply Forall_app. split; [apply Pa | apply Pl, HX].
    destruct S2 as (S2 & _). lia.
  - destruct IH as (S2 & B2). split; [eapply St_trans; eassumption | exact B2].
Qed.

Lemma Inv_info {A} (H : Er A) b (p : parser A) : Inv H b p -> Inv (er_pair H er_info) b (p_info p).
Proof.
  intros Hp off s r G Ho Hr Hb. unfold p_info.
  assert (H0 : postc (set_ebuf s []) off (QE H off) (p (set_ebuf s []))).
  { apply Hp; [exact G | exact Ho | lia | constructor]. }
  destruct G as (G1 & G2 & G3).
  destruct (p (set_ebuf s [])) as [s1 a|s1|]; cbn [postc] in *; [| |exact I].
  - destruct H0 as ((A1 & A2 & A3) & B1 & Pa). cbn [pos refp set_ebuf] in *.
    split; [repeat split; cbn [pos refp set_ebuf]; assumption|].
    split; [apply (EB_mono r s); [exact A1 | reflexivity | exact Hb]|].
    intros X HX. cbn [pos set_ebuf] in HX. unfold QE, er_pair, er_info in *. cbn [fst snd i_errs].
    apply Forall_app. split; [apply Pa, HX|]. eapply Forall_ErrQ_mono; [exact HX | apply le_n | exact B1].
  - destruct H0 as ((A1 & A2 & A3) & B1). cbn [pos refp set_ebuf] in *.
    split; [repeat split; cbn [pos refp set_ebuf]; assumption|].
    apply (EB_mono r s); [exact A1 | reflexivity | exact Hb].
Qed.

Lemma EB_expect_error r e m : r <= refp e -> refp e < pos e -> EB r e -> EB r (expect_error e m).
Proof.
  intros H1 H2 Hb. unfold EB, expect_error, push_err. cbn [ebuf set_ebuf pos].
  apply Forall_app. split; [exact Hb|]. constructor; [|constructor]. unfold ErrQ. cbn [e_s e_e].
  repeat split; [lia | lia | left; lia].
Qed.

Lemma Inv_expect {A} (H : Er A) (p : parser A) m : Inv H true p -> Inv (er_opt H) true (p_expect p m).
Proof.
  intros Hp off s r G Ho Hr Hb. unfold p_expect. specialize (Hp off s r G Ho Hr Hb).
  destruct (p s) as [s1 a|e|]; cbn [postc] in *; [exact Hp | | exact I].
  destruct Hp as (S1 & B1). pose proof (St_good _ _ _ G S1) as (G1 & G2 & G3).
  assert (Hre : refp e = off) by (destruct S1 as (_ & _ & E); congruence).
  split; [exact S1|]. split; [|intros X _; constructor].
  apply EB_expect_error; [lia | apply G3; reflexivity | exact B1].
Qed.

Lemma Inv_ref {A} (H : Er A) b (p : parser A) : Inv H false p -> Inv (er_ref H) b (p_ref p).
Proof.
  intros Hp off s r (G1 & G2 & G3) Ho Hr Hb. unfold p_ref.
  assert (H0 : postc (set_refp s (pos s)) r (QE H (pos s)) (p (set_refp s (pos s)))).
  { apply Hp; [split; cbn [pos refp set_refp]; [exact G1 | split; [lia | discriminate]] | reflexivity | cbn [pos set_refp]; lia | exact Hb]. }
  destruct (p (set_refp s (pos s))) as [s1 a|s1|]; cbn [postc] in *; [| |exact I].
  - destruct H0 as ((A1 & A2 & A3) & B1 & Pa). cbn [pos refp set_refp] in *.
    split; [repeat split; cbn [pos refp set_refp]; assumption|]. split; [exact B1|].
    intros X HX. cbn [pos set_refp] in HX. unfold QE, er_ref in *. cbn [fst snd].
    apply Forall_ErrQ_shift. replace (off + (pos s - refp s)) with (pos s) by lia. apply Pa, HX.
  - destruct H0 as ((A1 & A2 & A3) & B1). cbn [pos refp set_refp] in *.
    split; [repeat split; cbn [pos refp set_refp]; assumption | exact B1].
Qed.

(* the error of a confusable token spans that token *)
Lemma Inv_confusable {A} (H : Er A) b (p : parser A) m : Inv H b p -> ProgT p -> Inv H b (p_confusable p m).
Proof.
  intros Hp Pp off s r G Ho Hr Hb. unfold p_confusable.
  pose proof (Inv_info H b p Hp off s r G Ho Hr Hb) as H1.
  destruct (p_info p s) as [s1 [a inf]|e|] eqn:E; cbn [bind postc] in *; [|exact H1|exact I].
  destruct H1 as (S1 & B1 & Pa). cbn [fst snd].
  pose proof (Prog_info toks p Pp s s1 (a, inf) (proj1 G) E) as Hlt.
  apply p_info_ok in E as (s2 & _ & -> & Hinf). cbn [snd pos set_ebuf] in *. subst inf. cbn [i_s i_e].
  destruct S1 as (A1 & A2 & A3). cbn [pos refp set_ebuf] in *. destruct G as (G1 & G2 & G3).
  split; [repeat split; cbn [pos refp push_err set_ebuf]; assumption|].
  split.
  - unfold EB, push_err. cbn [ebuf set_ebuf pos]. apply Forall_app. split; [exact B1|].
    constructor; [|constructor]. unfold ErrQ. cbn [e_s e_e]. repeat split; [lia | lia | left; lia].
  - intros X HX. cbn [pos push_err set_ebuf] in HX. specialize (Pa X HX). unfold QE, er_pair in *. cbn [fst snd] in Pa.
    apply Forall_app in Pa. exact (proj1 Pa).
Qed.

(* an error node: the skipped tokens with one error over their range.  The range is not empty when the
   skipping parser makes progress (ignore_until1); otherwise (ignore_until0) the message is a soft one *)
Lemma Inv_selferr {A B} (HB : Er B) b (p : parser A) (g : A * info -> B) :
  Quiet p ->
  (forall a inf, exists m, HB (g (a, inf)) = i_errs inf ++ [ {| e_s := i_s inf; e_e := i_e inf; e_m := m |} ] /\
                           (ProgT p \/ soft {| e_s := i_s inf; e_e := i_e inf; e_m := m |})) ->
  Inv HB b (p_map g (p_info p)).
Proof.
  intros Hq Hg off s r G Ho Hr Hb. unfold p_map, p_info.
  pose proof (Hq (set_ebuf s []) (proj1 G)) as H1.
  destruct (p (set_ebuf s [])) as [s1 a|s1|] eqn:E; cbn [bind postc]; [| |exact I];
    destruct H1 as (A1 & A2 & A3 & A4); cbn [pos refp ebuf set_ebuf] in *; destruct G as (G1 & G2 & G3).
  - split; [repeat split; cbn [pos refp set_ebuf]; assumption|].
    split; [apply (EB_mono r s); [exact A1 | reflexivity | exact Hb]|].
    intros X HX. cbn [pos set_ebuf] in HX. unfold QE.
    destruct (Hg a {| i_s := pos s - refp s; i_e := pos s1 - refp s; i_errs := ebuf s1 |}) as (m & -> & Hm).
    cbn [i_errs i_s i_e] in *. rewrite A4. cbn [app]. constructor; [|constructor].
    unfold ErrQ. cbn [e_s e_e]. repeat split; [lia | lia |].
    destruct Hm as [Pp|Hs]; [left | right; exact Hs].
    pose proof (Pp (set_ebuf s []) _ _ G1 E) as Hlt. cbn [pos set_ebuf] in Hlt. lia.
  - split; [repeat split; cbn [pos refp set_ebuf]; assumption|].
    apply (EB_mono r s); [exact A1 | reflexivity | exact Hb].
Qed.

Lemma Inv_bind {A B} (HA : Er A) (HB : Er B) b (p : parser A) (f : A -> B) :
  Inv HA b p -> (forall a, incl (HB (f a)) (HA a)) -> Inv HB b (fun s => bind (p s) (fun s' a => POk s' (f a))).
Proof. exact (Inv_map HA HB b f p). Qed.

(* the shape `match p_tag f s with POk s1 t => k s1 t | PErr _ => POk s d | PFuel => PFuel end`: behind the
   tag the position is behind the reference position *)
Lemma tag_loop_post {A} b off (Q : nat -> A -> Prop) f (k : st -> token -> pres A) (d : A) s r :
  GoodS b s -> refp s = off -> r <= off -> EB r s -> (forall X, pos s <= X -> Q X d) ->
  (forall t s1, GoodS true s1 -> refp s1 = off -> EB r s1 -> pos s <= pos s1 -> postc s1 r Q (k s1 t)) ->
  postc s r Q (match p_tag toks f s with POk s1 op => k s1 op | PErr _ => POk s d | PFuel => PFuel end).
Proof.
  intros G Ho Hr Hb Hd Hk. pose proof (Inv_tag b f off s r G Ho Hr Hb) as H.
  destruct (p_tag toks f s) as [s1 t|e|] eqn:E; cbn [postc] in *; [| |exact I].
  - destruct H as (S1 & B1 & _). pose proof (Prog_tag toks f s s1 t (proj1 G) E) as Hlt.
    assert (Ho1 : refp s1 = off) by (destruct S1 as (_ & _ & E1); congruence).
    assert (K : postc s1 r Q (k s1 t)).
    { apply Hk; [|exact Ho1|exact B1|lia]. apply (GoodS_true b); [eapply St_good; eassumption|].
      destruct G as (_ & G2 & _). lia. }
    destruct (k s1 t) as [s2 c|e|]; cbn [postc] in *; [| |exact I];
      (destruct K as (S2 & K); split; [eapply St_trans; eassumption | exact K]).
  - apply postc_ret; [apply G | exact Hb | exact Hd].
Qed.

End Inv.

(* ------------------------------------------------------------------------------------------ *)
(* side conditions [incl (er (f a)) (er a)] of Inv_map *)
Ltac incl_tac :=
  let x := fresh "x" in let Hx := fresh "Hx" in
  intros x Hx; repeat rewrite in_app_iff in *; cbn [In] in *; tauto.

Ltac er_destruct :=
  repeat match goal with
         | x : (_ * _)%type |- _ => destruct x
         end.
Ltac er_opts :=
  repeat match goal with
         | |- context [match ?o with Some _ => _ | None => _ end] => is_var o; destruct o
         end.

Ltac incl_side :=
  solve [ let a := fresh "a" in
          intros a; er_destruct; er_unf; cbn [fst snd];
          unfold gdecl_errors; unfold typedecl_errors, procdecl_errors, vardecl_errors, paramdecl_errors,
            opt_ident_errors, opt_texpr_errors, opt_expr_errors, ident_errors;
          cbn [td_info td_name td_ty pd_info pd_name pd_params pd_vars pd_stmts id_info il_info
               var_errors expr_errors texpr_errors stmt_errors fst snd];
          unfold opt_ident_errors, opt_texpr_errors, opt_expr_errors, ident_errors;
          er_opts; er_destruct; cbn [fst snd app]; incl_tac ].

Ltac prog_step' toks :=
  first
  [ assumption
  | apply Prog_fuel
  | apply Prog_map | apply Prog_restore | apply Prog_alt | apply Prog_info | apply Prog_ref
  | apply Prog_tag | apply Prog_ignore1
  | apply Prog_pair_comments
  | apply Prog_pair_l; [ | solve [fwd_solve (sync_none_ok)] | solve [fwd_solve (sync_none_ok)] ] ].
Ltac prog' toks := unfold p_preceded, p_terminated; repeat (prog_step' toks).

Ltac inv_step toks :=
  first
  [ assumption
  | apply (Inv_sub toks); assumption
  | apply (Inv_fuel toks)
  | apply (Inv_comments toks)
  | apply (Inv_tag toks)
  | apply (Inv_peek_la toks)
  | apply (Inv_ignore0 toks)
  | apply (Inv_ignore1 toks)
  | apply (Inv_restore toks) | apply (Inv_alt toks) | apply (Inv_opt toks)
  | apply (Inv_pair_prog toks); [ | solve [prog' toks] | ]
  | apply (Inv_pair toks)
  | apply (Inv_many0 toks) | apply (Inv_info toks) | apply (Inv_expect toks) | apply (Inv_ref toks)
  | apply (Inv_confusable toks); [ | solve [prog' toks] ]
  | eapply (Inv_map toks); [ | incl_side ] ].
Ltac inv toks := unfold p_preceded, p_terminated; repeat (inv_step toks).
