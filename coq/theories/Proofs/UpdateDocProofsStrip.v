(* C01, layer (iv): the predicate "carries parse errors only" on every node type of the tree, and
   `remove_messages` (the strip functions of ParserInc): what a strip returns carries parse errors only - the
   traversal reaches EVERY AstInfo of the node - and a strip is the identity on such nodes.

   The predicate attached to a type is canonical (class [PO]) so that the invariant proofs over the
   non-terminals of the incremental parser (UpdateDocProofsInv.v) are syntax directed. *)
From Coq Require Import List Arith Lia.
From Spl Require Import Model.ParserInc Model.Errors.
Import ListNotations.
Local Open Scope nat_scope.

(* ------------------------------------------------------------------------------------------ *)
(* parse errors *)

Definition perr (e : err) : Prop := keep_err e = true.

Lemma perr_iff e : perr e <-> exists m, e_m e = EParse m.
Proof.
  unfold perr, keep_err. destruct (e_m e) as [m|m|m]; split; intros H; try discriminate H; eauto;
    destruct H as [m' H]; discriminate H.
Qed.

Lemma perr_mk a b m : perr {| e_s := a; e_e := b; e_m := EParse m |}.
Proof. reflexivity. Qed.

Section All.
Context {A : Type} (P : A -> Prop).
Fixpoint all (l : list A) : Prop := match l with [] => True | x :: r => P x /\ all r end.

Lemma all_app l l' : all (l ++ l') <-> all l /\ all l'.
Proof. induction l as [|x l IH]; cbn [all app]; [tauto | rewrite IH; tauto]. Qed.

Lemma all_Forall l : all l <-> Forall P l.
Proof.
  induction l as [|x l IH]; cbn [all]; split; intros H; auto.
  - destruct H as [H1 H2]. constructor; [exact H1 | apply IH, H2].
  - inversion H; subst. split; [assumption | apply IH; assumption].
Qed.
End All.

Lemma all_impl {A} (P Q : A -> Prop) l : (forall x, P x -> Q x) -> all P l -> all Q l.
Proof. intros H. induction l as [|x l IH]; cbn [all]; [auto | intros [H1 H2]; split; auto]. Qed.

Lemma all_map {A B} (P : B -> Prop) (f : A -> B) l : all P (map f l) <-> all (fun x => P (f x)) l.
Proof. induction l as [|x l IH]; cbn [all map]; [tauto | rewrite IH; tauto]. Qed.

Lemma all_triv {A} (l : list A) : all (fun _ => True) l.
Proof. induction l; cbn [all]; auto. Qed.

(* ------------------------------------------------------------------------------------------ *)
(* canonical predicate per type *)

Class PO (A : Type) := po : A -> Prop.

Definition triv {A} : A -> Prop := fun _ => True.

Definition po_info (i : info) : Prop := Forall perr (i_errs i).
Definition po_ident (i : ident) : Prop := po_info (id_info i).
Definition po_intlit (i : intlit) : Prop := po_info (il_info i).

Definition po_opt {A} (P : A -> Prop) (o : option A) : Prop := match o with Some a => P a | None => True end.
Definition po_pair {A B} (P : A -> Prop) (Q : B -> Prop) (x : A * B) : Prop := P (fst x) /\ Q (snd x).
(* a Reference<T>: the node and its offset *)
Definition po_ref {A} (P : A -> Prop) : A * nat -> Prop := po_pair P triv.

Fixpoint po_var (v : variable) : Prop :=
  match v with
  | NamedVar i => po_ident i
  | ArrAccess a idx inf =>
      po_var a /\ match idx with Some x => po_expr (fst x) /\ triv (snd x) | None => True end /\ po_info inf
  end
with po_expr (e : expr) : Prop :=
  match e with
  | EBin _ l r inf => po_expr l /\ po_expr r /\ po_info inf
  | EBrack x inf => po_expr x /\ po_info inf
  | EInt i => po_intlit i
  | EUn _ x inf => po_expr x /\ po_info inf
  | EVar v => po_var v
  | EErr inf => po_info inf
  end.

(* the size literal of an array type has an AstInfo too *)
Fixpoint po_texpr (t : typeexpr) : Prop :=
  match t with
  | TNamed i => po_ident i
  | TArray size base inf =>
      po_opt po_intlit size /\ match base with Some x => po_texpr (fst x) /\ triv (snd x) | None => True end /\ po_info inf
  end.

Fixpoint po_stmt (s : stmt) : Prop :=
  let oref (r : option (stmt * nat)) : Prop :=
    match r with Some x => po_stmt (fst x) /\ triv (snd x) | None => True end in
  match s with
  | SEmpty inf | SError inf => po_info inf
  | SAssign v e inf => po_var v /\ po_opt (po_ref po_expr) e /\ po_info inf
  | SCall n args inf => po_ident n /\ all (po_ref po_expr) args /\ po_info inf
  | SIf c t e inf => po_opt (po_ref po_expr) c /\ oref t /\ oref e /\ po_info inf
  | SWhile c b inf => po_opt (po_ref po_expr) c /\ oref b /\ po_info inf
  | SBlock body inf =>
      (fix go (l : list (stmt * nat)) : Prop :=
         match l with [] => True | x :: r => (po_stmt (fst x) /\ triv (snd x)) /\ go r end) body /\ po_info inf
  end.

Definition po_vardecl (v : vardecl) : Prop :=
  match v with
  | VValid _ name ty inf => po_opt po_ident name /\ po_opt (po_ref po_texpr) ty /\ po_info inf
  | VError inf => po_info inf
  end.

Definition po_paramdecl (p : paramdecl) : Prop :=
  match p with
  | PValid _ _ name ty inf => po_opt po_ident name /\ po_opt (po_ref po_texpr) ty /\ po_info inf
  | PError inf => po_info inf
  end.

Definition po_typedecl (d : typedecl) : Prop :=
  po_opt po_ident (td_name d) /\ po_opt (po_ref po_texpr) (td_ty d) /\ po_info (td_info d).

Definition po_procdecl (d : procdecl) : Prop :=
  po_opt po_ident (pd_name d) /\ all (po_ref po_paramdecl) (pd_params d) /\
  all (po_ref po_vardecl) (pd_vars d) /\ all (po_ref po_stmt) (pd_stmts d) /\ po_info (pd_info d).

Definition po_gdecl (g : gdecl) : Prop :=
  match g with GType d => po_typedecl d | GProc d => po_procdecl d | GError inf => po_info inf end.

(* every error attached to any AstInfo of the tree is a parse error *)
Definition parse_only (p : program) : Prop := all (po_ref po_gdecl) (pg_decls p) /\ po_info (pg_info p).

#[global] Instance PO_info : PO info := po_info.
#[global] Instance PO_ident : PO ident := po_ident.
#[global] Instance PO_intlit : PO intlit := po_intlit.
#[global] Instance PO_variable : PO variable := po_var.
#[global] Instance PO_expr : PO expr := po_expr.
#[global] Instance PO_texpr : PO typeexpr := po_texpr.
#[global] Instance PO_stmt : PO stmt := po_stmt.
#[global] Instance PO_vardecl : PO vardecl := po_vardecl.
#[global] Instance PO_paramdecl : PO paramdecl := po_paramdecl.
#[global] Instance PO_typedecl : PO typedecl := po_typedecl.
#[global] Instance PO_procdecl : PO procdecl := po_procdecl.
#[global] Instance PO_gdecl : PO gdecl := po_gdecl.
#[global] Instance PO_program : PO program := parse_only.
#[global] Instance PO_token : PO token := triv.
#[global] Instance PO_unit : PO unit := triv.
#[global] Instance PO_bool : PO bool := triv.
#[global] Instance PO_nat : PO nat := triv.
#[global] Instance PO_N : PO N := triv.
#[global] Instance PO_text : PO text := triv.
#[global] Instance PO_opt {A} (H : PO A) : PO (option A) | 5 := po_opt H.
#[global] Instance PO_list {A} (H : PO A) : PO (list A) | 5 := all H.
#[global] Instance PO_pair {A B} (HA : PO A) (HB : PO B) : PO (A * B) | 5 := po_pair HA HB.

Ltac unfold_po :=
  unfold po, PO_info, PO_ident, PO_intlit, PO_variable, PO_expr, PO_texpr, PO_stmt, PO_vardecl, PO_paramdecl,
    PO_typedecl, PO_procdecl, PO_gdecl, PO_program, PO_token, PO_unit, PO_bool, PO_nat, PO_N, PO_text,
    PO_opt, PO_list, PO_pair, po_ref, po_pair, po_opt, triv in *.

(* the nested positions of the fixpoints, in canonical form *)
Lemma po_stmt_block body inf : po_stmt (SBlock body inf) <-> all (po_ref po_stmt) body /\ po_info inf.
Proof.
  cbn [po_stmt].
  assert (E : forall l, (fix go (l : list (stmt * nat)) : Prop :=
                 match l with [] => True | x :: r => (po_stmt (fst x) /\ triv (snd x)) /\ go r end) l
              <-> all (po_ref po_stmt) l).
  { induction l as [|x l IH]; cbn [all]; [tauto|]. rewrite IH. unfold po_ref, po_pair. tauto. }
  rewrite E. tauto.
Qed.

Lemma po_stmt_if c t e inf :
  po_stmt (SIf c t e inf) <->
  po_opt (po_ref po_expr) c /\ po_opt (po_ref po_stmt) t /\ po_opt (po_ref po_stmt) e /\ po_info inf.
Proof. destruct t, e; cbn [po_stmt po_opt]; unfold po_ref, po_pair; tauto. Qed.

Lemma po_stmt_while c b inf :
  po_stmt (SWhile c b inf) <-> po_opt (po_ref po_expr) c /\ po_opt (po_ref po_stmt) b /\ po_info inf.
Proof. destruct b; cbn [po_stmt po_opt]; unfold po_ref, po_pair; tauto. Qed.

Lemma po_var_access a idx inf :
  po_var (ArrAccess a idx inf) <-> po_var a /\ po_opt (po_ref po_expr) idx /\ po_info inf.
Proof. destruct idx; cbn [po_var po_opt]; unfold po_ref, po_pair; tauto. Qed.

Lemma po_texpr_array size base inf :
  po_texpr (TArray size base inf) <-> po_opt po_intlit size /\ po_opt (po_ref po_texpr) base /\ po_info inf.
Proof. destruct base; cbn [po_texpr po_opt]; unfold po_ref, po_pair; tauto. Qed.

(* ------------------------------------------------------------------------------------------ *)
(* induction principles for the nested syntax *)

Section ExprInd.
Variables (P : variable -> Prop) (Q : expr -> Prop).
Hypothesis Hname : forall i, P (NamedVar i).
Hypothesis Hacc : forall a idx inf, P a -> po_opt (fun x => Q (fst x)) idx -> P (ArrAccess a idx inf).
Hypothesis Hbin : forall op l r inf, Q l -> Q r -> Q (EBin op l r inf).
Hypothesis Hbrack : forall a inf, Q a -> Q (EBrack a inf).
Hypothesis Hint : forall i, Q (EInt i).
Hypothesis Hun : forall op a inf, Q a -> Q (EUn op a inf).
Hypothesis Hvar : forall v, P v -> Q (EVar v).
Hypothesis Herr : forall inf, Q (EErr inf).

Fixpoint var_rect' (v : variable) : P v :=
  match v with
  | NamedVar i => Hname i
  | ArrAccess a idx inf =>
      Hacc a idx inf (var_rect' a)
        (match idx return po_opt (fun x => Q (fst x)) idx with
         | Some (e, off) => expr_rect' e
         | None => I
         end)
  end
with expr_rect' (e : expr) : Q e :=
  match e with
  | EBin op l r inf => Hbin op l r inf (expr_rect' l) (expr_rect' r)
  | EBrack a inf => Hbrack a inf (expr_rect' a)
  | EInt i => Hint i
  | EUn op a inf => Hun op a inf (expr_rect' a)
  | EVar v => Hvar v (var_rect' v)
  | EErr inf => Herr inf
  end.

Lemma var_expr_induction : (forall v, P v) /\ (forall e, Q e).
Proof. split; [exact var_rect' | exact expr_rect']. Qed.
End ExprInd.

Section TexprInd.
Variable P : typeexpr -> Prop.
Hypothesis Hn : forall i, P (TNamed i).
Hypothesis Ha : forall size base inf, po_opt (fun x => P (fst x)) base -> P (TArray size base inf).
Fixpoint texpr_induction (t : typeexpr) : P t :=
  match t with
  | TNamed i => Hn i
  | TArray size base inf =>
      Ha size base inf (match base return po_opt (fun x => P (fst x)) base with
                        | Some (b, off) => texpr_induction b
                        | None => I
                        end)
  end.
End TexprInd.

Section StmtInd.
Variable P : stmt -> Prop.
Hypothesis Hempty : forall inf, P (SEmpty inf).
Hypothesis Hassign : forall v e inf, P (SAssign v e inf).
Hypothesis Hcall : forall n args inf, P (SCall n args inf).
Hypothesis Hif : forall c t e inf, po_opt (fun x => P (fst x)) t -> po_opt (fun x => P (fst x)) e -> P (SIf c t e inf).
Hypothesis Hwhile : forall c b inf, po_opt (fun x => P (fst x)) b -> P (SWhile c b inf).
Hypothesis Hblock : forall body inf, all (fun x => P (fst x)) body -> P (SBlock body inf).
Hypothesis Herror : forall inf, P (SError inf).

Fixpoint stmt_induction (s : stmt) : P s :=
  let opt (o : option (stmt * nat)) : po_opt (fun x => P (fst x)) o :=
    match o return po_opt (fun x => P (fst x)) o with Some (x, _) => stmt_induction x | None => I end in
  match s with
  | SEmpty inf => Hempty inf
  | SAssign v e inf => Hassign v e inf
  | SCall n args inf => Hcall n args inf
  | SIf c t e inf => Hif c t e inf (opt t) (opt e)
  | SWhile c b inf => Hwhile c b inf (opt b)
  | SBlock body inf =>
      Hblock body inf
        ((fix go (l : list (stmt * nat)) : all (fun x => P (fst x)) l :=
            match l return all (fun x => P (fst x)) l with
            | [] => I
            | (x, _) :: r => conj (stmt_induction x) (go r)
            end) body)
  | SError inf => Herror inf
  end.
End StmtInd.

(* ------------------------------------------------------------------------------------------ *)
(* remove_messages on the two top-level node types ParserInc does not need *)

Definition strip_gdecl (g : gdecl) : gdecl :=
  match g with
  | GType d => GType (strip_typedecl d)
  | GProc d => GProc (strip_procdecl d)
  | GError inf => GError (strip_info inf)
  end.

Definition strip_program (p : program) : program :=
  {| pg_decls := map (fun a => (strip_gdecl (fst a), snd a)) (pg_decls p); pg_info := strip_info (pg_info p) |}.

(* the block body of strip_stmt is a map *)
Lemma strip_stmt_block body inf :
  strip_stmt (SBlock body inf) = SBlock (map (fun a => (strip_stmt (fst a), snd a)) body) (strip_info inf).
Proof.
  cbn [strip_stmt]. f_equal. induction body as [|[x o] r IH]; [reflexivity|]. cbn [map fst snd]. f_equal. exact IH.
Qed.

(* ------------------------------------------------------------------------------------------ *)
(* what a strip returns carries parse errors only: the traversal visits every info *)

Lemma strip_info_po i : po_info (strip_info i).
Proof.
  unfold po_info, strip_info. cbn [i_errs]. apply Forall_forall. intros e H. apply filter_In in H. exact (proj2 H).
Qed.

Lemma strip_ident_po i : po_ident (strip_ident i).
Proof. apply strip_info_po. Qed.

Lemma strip_intlit_po i : po_intlit (strip_intlit i).
Proof. apply strip_info_po. Qed.

Lemma strip_var_expr_po : (forall v, po_var (strip_var v)) /\ (forall e, po_expr (strip_expr e)).
Proof.
  apply var_expr_induction; intros; cbn [strip_var strip_expr po_var po_expr];
    repeat split; auto using strip_info_po, strip_ident_po, strip_intlit_po.
  destruct idx as [[e o]|]; cbn in *; auto. split; [assumption | exact I].
Qed.
Lemma strip_var_po v : po_var (strip_var v). Proof. apply strip_var_expr_po. Qed.
Lemma strip_expr_po e : po_expr (strip_expr e). Proof. apply strip_var_expr_po. Qed.

Lemma strip_oref_po {A} (P : A -> Prop) (f : A -> A) (r : option (A * nat)) : (forall x, P (f x)) -> po_opt (po_ref P) (strip_oref f r).
Proof. intros H. destruct r as [[x o]|]; cbn; [split; [apply H | exact I] | exact I]. Qed.

Lemma option_map_po {A} (P : A -> Prop) (f : A -> A) (o : option A) : (forall x, P (f x)) -> po_opt P (option_map f o).
Proof. intros H. destruct o; cbn; auto. Qed.

Lemma map_ref_po {A} (P : A -> Prop) (f : A -> A) (l : list (A * nat)) :
  (forall x, P (f x)) -> all (po_ref P) (map (fun a => (f (fst a), snd a)) l).
Proof. intros H. apply all_map. induction l as [|x l IH]; cbn [all]; [exact I|]. split; [split; [apply H | exact I] | exact IH]. Qed.

Lemma strip_texpr_po t : po_texpr (strip_texpr t).
Proof.
  induction t as [i | size base inf IH] using texpr_induction; cbn [strip_texpr].
  - apply strip_ident_po.
  - apply po_texpr_array. split; [apply option_map_po, strip_intlit_po|]. split; [|apply strip_info_po].
    destruct base as [[b o]|]; cbn in *; [split; [exact IH | exact I] | exact I].
Qed.

Lemma strip_stmt_po s : po_stmt (strip_stmt s).
Proof.
  induction s as [inf | v e inf | name args inf | c t e inf IHt IHe | c b inf IHb | body inf IH | inf] using stmt_induction.
  - apply strip_info_po.
  - cbn [strip_stmt po_stmt]. split; [apply strip_var_po|]. split; [apply strip_oref_po, strip_expr_po | apply strip_info_po].
  - cbn [strip_stmt po_stmt]. split; [apply strip_ident_po|]. split; [apply map_ref_po, strip_expr_po | apply strip_info_po].
  - cbn [strip_stmt]. apply po_stmt_if. split; [apply strip_oref_po, strip_expr_po|].
    split; [|split; [|apply strip_info_po]].
    + destruct t as [[x o]|]; cbn in *; [split; [exact IHt | exact I] | exact I].
    + destruct e as [[x o]|]; cbn in *; [split; [exact IHe | exact I] | exact I].
  - cbn [strip_stmt]. apply po_stmt_while. split; [apply strip_oref_po, strip_expr_po|]. split; [|apply strip_info_po].
    destruct b as [[x o]|]; cbn in *; [split; [exact IHb | exact I] | exact I].
  - rewrite strip_stmt_block. apply po_stmt_block. split; [|apply strip_info_po].
    apply all_map. eapply all_impl; [|exact IH]. intros x Hx. split; [exact Hx | exact I].
  - apply strip_info_po.
Qed.

Lemma strip_vardecl_po v : po_vardecl (strip_vardecl v).
Proof.
  destruct v as [doc name ty inf | inf]; cbn [strip_vardecl po_vardecl]; [|apply strip_info_po].
  split; [apply option_map_po, strip_ident_po|]. split; [apply strip_oref_po, strip_texpr_po | apply strip_info_po].
Qed.

Lemma strip_paramdecl_po p : po_paramdecl (strip_paramdecl p).
Proof.
  destruct p as [doc r name ty inf | inf]; cbn [strip_paramdecl po_paramdecl]; [|apply strip_info_po].
  split; [apply option_map_po, strip_ident_po|]. split; [apply strip_oref_po, strip_texpr_po | apply strip_info_po].
Qed.

Lemma strip_typedecl_po d : po_typedecl (strip_typedecl d).
Proof.
  unfold po_typedecl, strip_typedecl. cbn [td_name td_ty td_info].
  split; [apply option_map_po, strip_ident_po|]. split; [apply strip_oref_po, strip_texpr_po | apply strip_info_po].
Qed.

Lemma strip_procdecl_po d : po_procdecl (strip_procdecl d).
Proof.
  unfold po_procdecl, strip_procdecl. cbn [pd_name pd_params pd_vars pd_stmts pd_info].
  split; [apply option_map_po, strip_ident_po|].
  split; [apply map_ref_po, strip_paramdecl_po|].
  split; [apply map_ref_po, strip_vardecl_po|].
  split; [apply map_ref_po, strip_stmt_po | apply strip_info_po].
Qed.

Lemma strip_gdecl_po g : po_gdecl (strip_gdecl g).
Proof. destruct g; cbn [strip_gdecl po_gdecl]; auto using strip_typedecl_po, strip_procdecl_po, strip_info_po. Qed.

Theorem strip_program_parse_only p : parse_only (strip_program p).
Proof. split; cbn [strip_program pg_decls pg_info]; [apply map_ref_po, strip_gdecl_po | apply strip_info_po]. Qed.

(* ------------------------------------------------------------------------------------------ *)
(* a strip is the identity on nodes that carry parse errors only *)

Lemma filter_id {A} (f : A -> bool) l : Forall (fun x => f x = true) l -> filter f l = l.
Proof. induction 1 as [|x l H _ IH]; cbn [filter]; [reflexivity|]. rewrite H, IH. reflexivity. Qed.

Lemma strip_info_id i : po_info i -> strip_info i = i.
Proof. unfold po_info, strip_info, perr. intros H. rewrite (filter_id _ _ H). destruct i; reflexivity. Qed.

Lemma strip_ident_id i : po_ident i -> strip_ident i = i.
Proof. unfold po_ident, strip_ident. intros H. rewrite (strip_info_id _ H). destruct i; reflexivity. Qed.

Lemma strip_intlit_id i : po_intlit i -> strip_intlit i = i.
Proof. unfold po_intlit, strip_intlit. intros H. rewrite (strip_info_id _ H). destruct i; reflexivity. Qed.

Lemma strip_var_expr_id :
  (forall v, po_var v -> strip_var v = v) /\ (forall e, po_expr e -> strip_expr e = e).
Proof.
  apply var_expr_induction; cbn [strip_var strip_expr po_var po_expr].
  - intros i H. rewrite (strip_ident_id _ H). reflexivity.
  - intros a idx inf IHa IHi (H1 & H2 & H3). rewrite (IHa H1), (strip_info_id _ H3).
    destruct idx as [[e o]|]; [|reflexivity]. cbn in IHi, H2. rewrite (IHi (proj1 H2)). reflexivity.
  - intros op l r inf IHl IHr (H1 & H2 & H3). rewrite (IHl H1), (IHr H2), (strip_info_id _ H3). reflexivity.
  - intros a inf IH (H1 & H2). rewrite (IH H1), (strip_info_id _ H2). reflexivity.
  - intros i H. rewrite (strip_intlit_id _ H). reflexivity.
  - intros op a inf IH (H1 & H2). rewrite (IH H1), (strip_info_id _ H2). reflexivity.
  - intros v IH H. rewrite (IH H). reflexivity.
  - intros inf H. rewrite (strip_info_id _ H). reflexivity.
Qed.
Lemma strip_var_id v : po_var v -> strip_var v = v. Proof. apply strip_var_expr_id. Qed.
Lemma strip_expr_id e : po_expr e -> strip_expr e = e. Proof. apply strip_var_expr_id. Qed.

Lemma strip_oref_id {A} (P : A -> Prop) f (r : option (A * nat)) :
  (forall x, P x -> f x = x) -> po_opt (po_ref P) r -> strip_oref f r = r.
Proof. intros H. destruct r as [[x o]|]; cbn; [|reflexivity]. intros [Hx _]. cbn [fst] in Hx. rewrite (H _ Hx). reflexivity. Qed.

Lemma option_map_id {A} (P : A -> Prop) f (o : option A) :
  (forall x, P x -> f x = x) -> po_opt P o -> option_map f o = o.
Proof. intros H. destruct o; cbn; [|reflexivity]. intros Hx. rewrite (H _ Hx). reflexivity. Qed.

Lemma map_ref_id {A} (P : A -> Prop) f (l : list (A * nat)) :
  (forall x, P x -> f x = x) -> all (po_ref P) l -> map (fun a => (f (fst a), snd a)) l = l.
Proof.
  intros H. induction l as [|[x o] l IH]; cbn [all map fst snd]; [reflexivity|].
  intros [[Hx _] Hl]. cbn [fst] in Hx. rewrite (H _ Hx), (IH Hl). reflexivity.
Qed.

Lemma strip_texpr_id t : po_texpr t -> strip_texpr t = t.
Proof.
  induction t as [i | size base inf IH] using texpr_induction; cbn [strip_texpr].
  - cbn [po_texpr]. intros H. rewrite (strip_ident_id _ H). reflexivity.
  - intros H. apply po_texpr_array in H. destruct H as (H1 & H2 & H3).
    rewrite (option_map_id _ _ _ strip_intlit_id H1), (strip_info_id _ H3).
    destruct base as [[b o]|]; [|reflexivity]. cbn in IH, H2. rewrite (IH (proj1 H2)). reflexivity.
Qed.

Lemma strip_stmt_id s : po_stmt s -> strip_stmt s = s.
Proof.
  induction s as [inf | v e inf | name args inf | c t e inf IHt IHe | c b inf IHb | body inf IH | inf] using stmt_induction.
  - cbn [po_stmt strip_stmt]. intros H. rewrite (strip_info_id _ H). reflexivity.
  - cbn [po_stmt strip_stmt]. intros (H1 & H2 & H3).
    rewrite (strip_var_id _ H1), (strip_oref_id _ _ _ strip_expr_id H2), (strip_info_id _ H3). reflexivity.
  - cbn [po_stmt strip_stmt]. intros (H1 & H2 & H3).
    rewrite (strip_ident_id _ H1), (map_ref_id _ _ _ strip_expr_id H2), (strip_info_id _ H3). reflexivity.
  - intros H. apply po_stmt_if in H. destruct H as (H1 & H2 & H3 & H4). cbn [strip_stmt].
    change (match c with Some (x, o) => Some (strip_expr x, o) | None => None end) with (strip_oref strip_expr c).
    rewrite (strip_oref_id _ _ _ strip_expr_id H1), (strip_info_id _ H4).
    replace (match t with Some (x, o) => Some (strip_stmt x, o) | None => None end) with t.
    2:{ destruct t as [[x o]|]; [|reflexivity]. cbn in IHt, H2. rewrite (IHt (proj1 H2)). reflexivity. }
    replace (match e with Some (x, o) => Some (strip_stmt x, o) | None => None end) with e.
    2:{ destruct e as [[x o]|]; [|reflexivity]. cbn in IHe, H3. rewrite (IHe (proj1 H3)). reflexivity. }
    reflexivity.
  - intros H. apply po_stmt_while in H. destruct H as (H1 & H2 & H3). cbn [strip_stmt].
    rewrite (strip_oref_id _ _ _ strip_expr_id H1), (strip_info_id _ H3).
    replace (match b with Some (x, o) => Some (strip_stmt x, o) | None => None end) with b.
    2:{ destruct b as [[x o]|]; [|reflexivity]. cbn in IHb, H2. rewrite (IHb (proj1 H2)). reflexivity. }
    reflexivity.
  - intros H. apply po_stmt_block in H. destruct H as (H1 & H2). rewrite strip_stmt_block, (strip_info_id _ H2).
    f_equal. clear H2. induction body as [|[x o] r IHr]; [reflexivity|].
    cbn [all map fst snd] in *. destruct IH as [IHx IHl]. destruct H1 as [[Hx _] Hl]. cbn [fst] in Hx.
    rewrite (IHx Hx), (IHr IHl Hl). reflexivity.
  - cbn [po_stmt strip_stmt]. intros H. rewrite (strip_info_id _ H). reflexivity.
Qed.

Lemma strip_vardecl_id v : po_vardecl v -> strip_vardecl v = v.
Proof.
  destruct v as [doc name ty inf | inf]; cbn [strip_vardecl po_vardecl].
  - intros (H1 & H2 & H3).
    rewrite (option_map_id _ _ _ strip_ident_id H1), (strip_oref_id _ _ _ strip_texpr_id H2), (strip_info_id _ H3). reflexivity.
  - intros H. rewrite (strip_info_id _ H). reflexivity.
Qed.

Lemma strip_paramdecl_id p : po_paramdecl p -> strip_paramdecl p = p.
Proof.
  destruct p as [doc r name ty inf | inf]; cbn [strip_paramdecl po_paramdecl].
  - intros (H1 & H2 & H3).
    rewrite (option_map_id _ _ _ strip_ident_id H1), (strip_oref_id _ _ _ strip_texpr_id H2), (strip_info_id _ H3). reflexivity.
  - intros H. rewrite (strip_info_id _ H). reflexivity.
Qed.

Lemma strip_typedecl_id d : po_typedecl d -> strip_typedecl d = d.
Proof.
  unfold po_typedecl, strip_typedecl. intros (H1 & H2 & H3).
  rewrite (option_map_id _ _ _ strip_ident_id H1), (strip_oref_id _ _ _ strip_texpr_id H2), (strip_info_id _ H3).
  destruct d; reflexivity.
Qed.

Lemma strip_procdecl_id d : po_procdecl d -> strip_procdecl d = d.
Proof.
  unfold po_procdecl, strip_procdecl. intros (H1 & H2 & H3 & H4 & H5).
  rewrite (option_map_id _ _ _ strip_ident_id H1), (map_ref_id _ _ _ strip_paramdecl_id H2),
    (map_ref_id _ _ _ strip_vardecl_id H3), (map_ref_id _ _ _ strip_stmt_id H4), (strip_info_id _ H5).
  destruct d; reflexivity.
Qed.

Lemma strip_gdecl_id g : po_gdecl g -> strip_gdecl g = g.
Proof.
  destruct g; cbn [strip_gdecl po_gdecl]; intros H;
    [rewrite (strip_typedecl_id _ H) | rewrite (strip_procdecl_id _ H) | rewrite (strip_info_id _ H)]; reflexivity.
Qed.

Theorem strip_program_id p : parse_only p -> strip_program p = p.
Proof.
  unfold parse_only, strip_program. intros [H1 H2].
  rewrite (map_ref_id _ _ _ strip_gdecl_id H1), (strip_info_id _ H2). destruct p; reflexivity.
Qed.

Corollary parse_only_iff p : parse_only p <-> strip_program p = p.
Proof. split; [apply strip_program_id | intros <-; apply strip_program_parse_only]. Qed.
