(* C01, positive part (4a/4): the non-terminals that take an old node, below statements.

   For every non-terminal X: if the scratch parser returns - quietly - the node `strip this`
   (remove_messages of the old node), and that node carries no parse error, then X::parse(Some(this))
   under the empty TokenChange returns the same node.  Relations [R*]: old node, scratch result. *)
From Coq Require Import List Arith Lia.
From Spl Require Import Model.ParserInc Model.Errors Proofs.ParserComb Proofs.ParserFwd Proofs.UpdateDocProofsSim
  Proofs.UpdateDocProofsStrip
  Proofs.IncPositiveMono Proofs.IncPositiveSim Proofs.IncPositiveList Proofs.IncPositiveExpr Proofs.IncPositiveRng.
Import ListNotations.
Local Open Scope nat_scope.

(* ---- diagnostics of a node are empty iff those of its parts are ---- *)
Lemma opt_ident_errors_nil o : opt_ident_errors o = [] -> match o with Some i => ident_errors i = [] | None => True end.
Proof. destruct o; cbn [opt_ident_errors]; auto. Qed.

Lemma opt_texpr_errors_nil (o : option (typeexpr * nat)) :
  opt_texpr_errors o = [] -> match o with Some a => texpr_errors (fst a) = [] | None => True end.
Proof. destruct o as [[e off]|]; cbn [opt_texpr_errors fst]; [apply shift_es_nil | auto]. Qed.

Lemma flat_map_errors_nil {A} (E : A -> list err) (l : list (A * nat)) :
  flat_map (fun x => shift_es (snd x) (E (fst x))) l = [] -> Forall (fun x => E (fst x) = []) l.
Proof.
  induction l as [|x l IH]; cbn [flat_map]; intros H; [constructor|].
  apply app_eq_nil in H as [H1 H2]. constructor; [exact (shift_es_nil _ _ H1) | exact (IH H2)].
Qed.

Lemma Forall2_of_map {A} (f : A -> A) (C : A -> Prop) (olds l : list (A * nat)) :
  l = map (fun a => (f (fst a), snd a)) olds -> Forall (fun a => C (fst a)) l ->
  Forall2 (fun o a => snd a = snd o /\ (fst a = f (fst o) /\ C (fst a))) olds l.
Proof.
  intros -> H. induction olds as [|o r IH]; cbn [map] in *; [constructor|].
  inversion H as [|? ? H1 H2]; subst. constructor; [cbn [fst snd] in *; auto | exact (IH H2)].
Qed.

Ltac nil_split H :=
  repeat match type of H with _ ++ _ = [] => let H' := fresh H in apply app_eq_nil in H as [H' H] end.

Section T.
Variable toks : list token.
Variable w : nat.
Hypothesis Hncc : NCC toks.
Notation N := (length toks).
Notation FwdT := (Fwd toks sync_none).
Notation WF := (WF toks).
Notation Good := (Good toks).
Notation GoodN := (GoodN toks).
Notation SG := (Stable_Good toks).
Notation Rng := (Rng toks).
Notation Adv := (Adv toks).
Notation QSpair := (QS_pair toks Good SG).
Notation QSinfo := (QS_info toks Good SG).
Notation QSpreceded := (QS_preceded toks Good SG).
Notation QSterminated := (QS_terminated toks Good SG).

Ltac fw := fwd_solve sync_none_ok.
Ltac wf := split; [fwd_solve sync_none_ok | mono_solve].

(* ---- more combinators ---- *)
(* expect(this, p): an absent old node is never asked for - the scratch parse found one *)
Lemma QS_expect_this {A T} (this : option T) (R : T -> A -> Prop) (p : parser A) (q : option T -> iparser A) m :
  MonoE p -> (forall th, QSg Good (R th) p (q (Some th))) ->
  QSg Good (fun o => match o with Some a => exists th, this = Some th /\ R th a | None => True end)
      (p_expect p m) (i_expect this q m).
Proof.
  intros Hm Q s s1 t Hg E He Hp. apply p_expect_ok in E as [(a & E & ->)|(e & E & -> & ->)].
  - destruct Hp as (th & -> & Hr). destruct (Q th s s1 a Hg E He Hr) as (s' & E' & A1 & A2).
    exists s'. unfold i_expect. rewrite E'. auto.
  - exfalso. pose proof (MonoE_err p _ _ Hm E) as X. unfold expect_error, push_err in He. cbn [ebuf set_ebuf] in He.
    exact (ext_push_neq _ _ _ X He).
Qed.

(* a confusable token is accepted with an error message: never quiet *)
Lemma QS_confusable_never G {A} (P : A -> Prop) (p : parser A) q m : QSg G P (p_confusable p m) (i_confusable q m).
Proof.
  intros s s1 t Hg E He Hp. exfalso. unfold p_confusable in E. apply bind_ok in E as (s' & ai & E & X). injection X as <- <-.
  apply p_info_ok in E as (s0 & _ & -> & _). unfold push_err in He. cbn [ebuf set_ebuf proj] in He.
  apply (f_equal (@length err)) in He. rewrite app_length in He. cbn [length] in He. lia.
Qed.

(* opt(preceded(tag, p)) where p never fails (an `expect`) *)
Lemma QS_opt_preceded_tag {B} k (PB : B -> Prop) (p' : parser B) q' :
  MonoE p' -> (forall s e, p' s <> PErr e) -> QSg Good PB p' q' ->
  QSg Good (fun o => match o with Some b => PB b | None => True end)
      (p_opt (p_preceded (p_tag toks k) p')) (i_opt (i_preceded (i_tag toks k) q')).
Proof.
  intros Hm Hne Q s s1 t Hg E He Hp. unfold p_opt in E.
  destruct (p_preceded (p_tag toks k) p' (proj s)) as [s0 b|s0|] eqn:E0; [| |discriminate].
  - injection E as <- <-.
    assert (Q' : QSg Good PB (p_preceded (p_tag toks k) p') (i_preceded (i_tag toks k) q')).
    { apply QSpreceded; [wf | exact Hm | apply QS_tag | exact Q]. }
    destruct (Q' s s0 b Hg E0 He Hp) as (s' & E' & A1 & A2). exists s'. unfold i_opt. rewrite E'. auto.
  - injection E as <- <-. unfold p_preceded, p_map, p_pair in E0. pose proof (Sim_tag toks k s) as Hs.
    destruct (p_tag toks k (proj s)) as [sa tk0|sa|] eqn:Et; cbn [bind] in E0.
    + exfalso. destruct (p' sa) as [sb b|sb|] eqn:Eb; cbn [bind] in E0; try discriminate. exact (Hne _ _ Eb).
    + unfold i_opt, i_preceded, i_map, i_pair. destruct (i_tag toks k s) as [sa' t'|sa' fl| |]; cbn in Hs; try contradiction.
      cbn [ibind]. eauto.
    + discriminate.
Qed.

(* affected(Some(th), inner): range facts only for the results that matter *)
Lemma QS_affected' {A} (th : A) (inf : A -> info) (strip : A -> A) (P : A -> Prop) p inner :
  FwdT p ->
  (forall s s1 t, refp s <= pos s -> pos s <= N -> p s = POk s1 t -> t = strip th -> P t ->
     i_s (inf t) = pos s - refp s /\ i_e (inf t) = pos s1 - refp s /\ pos s < pos s1) ->
  i_s (inf (strip th)) = i_s (inf th) -> i_e (inf (strip th)) = i_e (inf th) ->
  QSg Good (fun t => t = strip th /\ P t) p inner ->
  QSg Good (fun t => t = strip th /\ P t) p (i_affected toks w w 0 (Some th) inf strip inner).
Proof.
  intros Hf Hr Hs1 Hs2 Q s s1 t Hg E He [Ht Hp]. pose proof Hg as (G1 & G2 & G3).
  destruct (Hr (proj s) s1 _ G2 G3 E Ht Hp) as (R1 & R2 & R3). subst t.
  destruct (Fwd_ok toks sync_none p (proj s) s1 _ Hf G3 E) as (M1 & M2 & M3 & _).
  cbn [proj pos refp ebuf] in *. rewrite Hs1 in R1. rewrite Hs2 in R2.
  unfold i_affected. cbv zeta. rewrite G1.
  replace (i_s (inf th) + irefp s) with (ipos s) by lia.
  replace (i_e (inf th) + irefp s) with (pos s1) by lia.
  rewrite (tc_invalid_empty w (ipos s) (pos s1) R3).
  destruct (tc_overlaps w w (ipos s) (pos s1 + 1)).
  - destruct (Q s s1 _ Hg E He (conj eq_refl Hp)) as (s' & E' & A1 & A2). rewrite E'. eauto.
  - replace (ipos s + (pos s1 - ipos s)) with (pos s1) by lia.
    destruct (Nat.leb_spec (pos s1) N) as [_|H]; [|lia].
    eexists. split; [reflexivity|]. split; [|reflexivity].
    unfold proj. cbn [ipos irefp iebuf iadv]. replace (ipos s + (pos s1 - ipos s)) with (pos s1) by lia.
    rewrite <- M3, <- He. apply st_eta.
Qed.

(* ---- relations: old node, node of the scratch parse ---- *)
Definition RI (th t : ident) : Prop := t = strip_ident th.
Definition RL (th t : intlit) : Prop := t = strip_intlit th.
Definition RV (th t : variable) : Prop := t = strip_var th /\ var_errors t = [].
Definition RE (th t : expr) : Prop := t = strip_expr th /\ expr_errors t = [].
Definition RT (th t : typeexpr) : Prop := t = strip_texpr th /\ texpr_errors t = [].
Definition Rref {A} (R : A -> A -> Prop) (th t : A * nat) : Prop := snd t = snd th /\ R (fst th) (fst t).

(* ---- leaves ---- *)
Lemma QS_ident th : QSg Good (RI th) (p_ident toks) (i_ident toks w w 0 (Some th)).
Proof.
  eapply QS_impl; [|apply (QS_affected toks w th id_info strip_ident (fun _ => True) (p_ident toks) (i_ident0 toks))].
  - intros t H. split; [exact H | exact I].
  - fw.
  - apply Rng_ident.
  - destruct th; reflexivity.
  - destruct th; reflexivity.
  - apply (QS_ident_none toks w Good).
Qed.

Lemma QS_intlit th : QSg Good (RL th) (p_intlit toks) (i_intlit toks w w 0 (Some th)).
Proof.
  eapply QS_impl; [|apply (QS_affected toks w th il_info strip_intlit (fun _ => True) (p_intlit toks) (i_intlit0 toks))].
  - intros t H. split; [exact H | exact I].
  - fw.
  - apply Rng_intlit.
  - destruct th; reflexivity.
  - destruct th; reflexivity.
  - apply (QS_intlit_none toks w Good).
Qed.

Lemma QS_variable f th : QSg Good (RV th) (p_variable toks f) (i_variable toks w w 0 f (Some th)).
Proof.
  unfold i_variable, RV. apply QS_affected.
  - fw.
  - apply Rng_variable.
  - destruct th; reflexivity.
  - destruct th; reflexivity.
  - apply QS_weaken, QN_variable.
Qed.

Lemma QS_expr f th : QSg Good (RE th) (p_expr toks f) (i_expr toks w w 0 f (Some th)).
Proof.
  unfold i_expr, p_expr, RE. apply QS_affected.
  - fw.
  - apply Rng_comparison.
  - destruct th; try reflexivity. cbn [strip_expr expr_info]. destruct v; reflexivity.
  - destruct th; try reflexivity. cbn [strip_expr expr_info]. destruct v; reflexivity.
  - apply QS_weaken, QN_comparison.
Qed.

Lemma QS_ref_expr f th : QSg Good (Rref RE th) (p_ref (p_expr toks f)) (i_ref_expr toks w w 0 f (Some th)).
Proof. destruct th as [e off]. unfold i_ref_expr, Rref. cbn [fst snd]. apply QS_ref_some, QS_expr. Qed.

(* ---- type expressions ---- *)
Definition FARR (r : token * (option token * (option intlit * (option token * (option token * option (typeexpr * nat))))) * info) : typeexpr :=
  let '((_, (_, (size, (_, (_, base))))), inf) := r in TArray size base inf.

Definition ARR (f : nat) : parser typeexpr :=
  p_map FARR
    (p_info (p_pair (p_tag toks (is_k KArray))
            (p_pair (p_expect (p_tag toks (is_k LBracket)) (ExpectedToken s_lbracket))
            (p_pair (p_expect (p_intlit toks) (ExpectedToken s_intlit))
            (p_pair (p_expect (p_tag toks (is_k RBracket)) (MissingClosing 93%N))
            (p_pair (p_expect (p_tag toks (is_k KOf)) (ExpectedToken s_of))
                    (p_expect (p_ref (p_texpr toks f)) (ExpectedToken s_typeexpr)))))))).

Definition IARR (f : nat) (sz : option intlit) (b : option (typeexpr * nat)) (inf : info) : iparser typeexpr :=
  i_affected toks w w 0 (Some (TArray sz b inf)) texpr_info strip_texpr
    (i_map FARR
       (i_info (i_pair (i_tag toks (is_k KArray))
               (i_pair (i_expect0 (i_tag toks (is_k LBracket)) (ExpectedToken s_lbracket))
               (i_pair (i_expect sz (i_intlit toks w w 0) (ExpectedToken s_intlit))
               (i_pair (i_expect0 (i_tag toks (is_k RBracket)) (MissingClosing 93%N))
               (i_pair (i_expect0 (i_tag toks (is_k KOf)) (ExpectedToken s_of))
                       (i_expect b (fun t => i_ref t (i_texpr toks w w 0 f)) (ExpectedToken s_typeexpr))))))))).

Lemma p_texpr_alt f s : p_texpr toks (S f) s = p_alt (ARR f) (p_map TNamed (p_ident toks)) s.
Proof. reflexivity. Qed.
Lemma i_texpr_named f name s : i_texpr toks w w 0 (S f) (Some (TNamed name)) s = i_map TNamed (i_ident toks w w 0 (Some name)) s.
Proof. reflexivity. Qed.
Lemma i_texpr_array f sz b inf s : i_texpr toks w w 0 (S f) (Some (TArray sz b inf)) s = IARR f sz b inf s.
Proof. reflexivity. Qed.

Lemma Rng_ARR f : Rng texpr_info (ARR f).
Proof.
  unfold ARR. apply Rng_map_info.
  - intros [k [lb [sz [rb [o b]]]]] i. auto.
  - apply Adv_pair_l; [apply Adv_tag | fw | fw].
Qed.

Lemma QS_arr f sz b inf :
  (forall th, QSg Good (RT th) (p_texpr toks f) (i_texpr toks w w 0 f (Some th))) ->
  QSg Good (RT (TArray sz b inf)) (ARR f) (IARR f sz b inf).
Proof.
  intros IH. unfold IARR, RT. apply QS_affected'.
  - unfold ARR. fw.
  - intros s s1 t Hr Hs E _ _. exact (Rng_ARR f s s1 t Hr Hs E).
  - reflexivity.
  - reflexivity.
  - unfold ARR. apply QS_map. eapply QS_impl; cycle 1.
    { apply QSinfo, QSpair; [wf | mono_solve | apply QS_tag |].
      apply QSpair; [wf | mono_solve | apply (QS_expect0 Good (fun _ => True)); [mono_solve | apply QS_tag] |].
      apply QSpair; [wf | mono_solve | apply (QS_expect_this sz RL); [mono_solve | apply QS_intlit] |].
      apply QSpair; [wf | mono_solve | apply (QS_expect0 Good (fun _ => True)); [mono_solve | apply QS_tag] |].
      apply QSpair; [wf | mono_solve | apply (QS_expect0 Good (fun _ => True)); [mono_solve | apply QS_tag] |].
      apply (QS_expect_this b (Rref RT)); [mono_solve|]. intros [bb bo]. unfold Rref. cbn [fst snd].
      apply QS_ref_some, IH. }
    intros [[k [lb [sz' [rb [o b']]]]] i] [Ht Hc]. cbn [FARR fst snd] in *. cbn [strip_texpr] in Ht.
    injection Ht as -> -> ->. cbn [texpr_errors] in Hc. apply app_eq_nil in Hc as [Hc1 Hc2].
    split; [exact Hc1|]. split; [exact I|]. split; [destruct lb; exact I|].
    split; [destruct sz; cbn [option_map]; [eexists; split; reflexivity | exact I]|].
    split; [destruct rb; exact I|]. split; [destruct o; exact I|].
    destruct b as [[bb bo]|]; [|exact I]. exists (bb, bo). split; [reflexivity|]. unfold Rref, RT. cbn [fst snd].
    split; [reflexivity|]. split; [reflexivity | exact (shift_es_nil _ _ Hc2)].
Qed.

Lemma QS_texpr : forall f th, QSg Good (RT th) (p_texpr toks f) (i_texpr toks w w 0 f (Some th)).
Proof.
  induction f as [|f IH]; intros th s s1 t Hg E He [Ht Hc]; [discriminate|].
  rewrite p_texpr_alt in E. apply p_alt_ok in E as [E|[_ E]].
  - destruct th as [name|sz b inf].
    + exfalso. unfold ARR in E. apply p_map_ok in E as ([[k [lb [sz' [rb [o b']]]]] i] & _ & Hr). cbn [FARR] in Hr.
      rewrite Hr in Ht. discriminate Ht.
    + rewrite i_texpr_array. exact (QS_arr f sz b inf IH s s1 t Hg E He (conj Ht Hc)).
  - destruct th as [name|sz b inf].
    + rewrite i_texpr_named.
      assert (Q : QSg Good (fun t => t = strip_texpr (TNamed name)) (p_map TNamed (p_ident toks)) (i_map TNamed (i_ident toks w w 0 (Some name)))).
      { apply QS_map. eapply QS_impl; [|apply QS_ident]. intros a H. cbn [strip_texpr] in H. injection H as ->. reflexivity. }
      exact (Q s s1 t Hg E He Ht).
    + exfalso. apply p_map_ok in E as (a & _ & Hr). rewrite Hr in Ht. discriminate Ht.
Qed.

Lemma QS_ref_texpr f th : QSg Good (Rref RT th) (p_ref (p_texpr toks f)) (i_ref_texpr toks w w 0 f (Some th)).
Proof. destruct th as [e off]. unfold i_ref_texpr, Rref. cbn [fst snd]. apply QS_ref_some, QS_texpr. Qed.

(* ---- declarations ---- *)
Definition RTd (th t : typedecl) : Prop := t = strip_typedecl th /\ typedecl_errors t = [].
Definition RVd (th t : vardecl) : Prop := t = strip_vardecl th /\ vardecl_errors t = [].
Definition RPd (th t : paramdecl) : Prop := t = strip_paramdecl th /\ paramdecl_errors t = [].

Lemma QS_eq_alt : QSg Good (fun _ => True)
  (p_alt (p_tag toks (is_k EqT))
     (p_alt (p_confusable (p_tag toks (is_k Assign)) (ConfusedToken s_eq s_assign))
            (p_confusable (p_tag toks (is_k Colon)) (ConfusedToken s_eq s_colon))))
  (i_alt (i_tag toks (is_k EqT))
     (i_alt (i_confusable (i_tag toks (is_k Assign)) (ConfusedToken s_eq s_assign))
            (i_confusable (i_tag toks (is_k Colon)) (ConfusedToken s_eq s_colon)))).
Proof.
  apply (QS_alt Good); [apply Sim_tag | apply QS_tag |].
  apply (QS_alt Good); [sim_auto | apply QS_confusable_never | apply QS_confusable_never].
Qed.

Lemma QS_colon_alt : QSg Good (fun _ => True)
  (p_alt (p_tag toks (is_k Colon))
     (p_alt (p_confusable (p_tag toks (is_k Assign)) (ConfusedToken s_colon s_assign))
            (p_confusable (p_tag toks (is_k EqT)) (ConfusedToken s_colon s_eq))))
  (i_alt (i_tag toks (is_k Colon))
     (i_alt (i_confusable (i_tag toks (is_k Assign)) (ConfusedToken s_colon s_assign))
            (i_confusable (i_tag toks (is_k EqT)) (ConfusedToken s_colon s_eq)))).
Proof.
  apply (QS_alt Good); [apply Sim_tag | apply QS_tag |].
  apply (QS_alt Good); [sim_auto | apply QS_confusable_never | apply QS_confusable_never].
Qed.

Ltac opt_triv := match goal with |- match ?o with Some _ => True | None => True end => destruct o; exact I end.

Lemma QS_typedecl f th : QSg Good (RTd th) (p_typedecl toks f) (i_typedecl toks w w 0 f (Some th)).
Proof.
  unfold i_typedecl, p_typedecl, RTd. apply QS_affected'.
  - fw.
  - intros s s1 t Hr Hs E _ _. revert s s1 t Hr Hs E. apply Rng_map_info.
    + intros [doc [k [name [e [ty se]]]]] i. auto.
    + apply Adv_pair_r; [fw|]. apply Adv_pair_l; [apply Adv_tag | fw | fw].
  - destruct th; reflexivity.
  - destruct th; reflexivity.
  - apply QS_map. eapply QS_impl; cycle 1.
    { apply QSinfo, QSpair; [wf | mono_solve | apply QS_comments |].
      apply QSpair; [wf | mono_solve | apply QS_tag |].
      apply QSpair; [wf | mono_solve | apply (QS_expect_this (td_name th) RI); [mono_solve | apply QS_ident] |].
      apply QSpair; [wf | mono_solve | apply (QS_expect0 Good (fun _ => True)); [mono_solve | apply QS_eq_alt] |].
      apply QSpair; [wf | mono_solve | apply (QS_expect_this (td_ty th) (Rref RT)); [mono_solve | intros th'; apply QS_ref_texpr] |].
      apply (QS_expect0 Good (fun _ => True)); [mono_solve | apply QS_tag]. }
    intros [[doc [k [name [e [ty se]]]]] i] [Ht Hc]. cbn [fst snd] in *. destruct th as [d0 n0 t0 i0].
    unfold strip_typedecl in Ht. cbn [td_doc td_name td_ty td_info] in Ht. injection Ht as -> -> -> ->.
    unfold typedecl_errors in Hc. cbn [td_name td_ty td_info] in Hc. nil_split Hc.
    split; [assumption|]. split; [exact I|]. split; [exact I|].
    split; [destruct n0; cbn [option_map]; [eexists; split; reflexivity | exact I]|].
    split; [opt_triv|]. split; [|opt_triv].
    destruct t0 as [[tt to]|]; [|exact I]. exists (tt, to). split; [reflexivity|]. unfold Rref, RT. cbn [fst snd strip_oref].
    split; [reflexivity|]. split; [reflexivity|]. cbn [strip_oref opt_texpr_errors] in Hc. exact (shift_es_nil _ _ Hc).
Qed.

Lemma QS_vardecl f th : QSg Good (RVd th) (p_vardecl toks f) (i_vardecl toks w w 0 f (Some th)).
Proof.
  destruct th as [doc n ty inf|inf]; intros s s1 t Hg E He [Ht Hc]; unfold p_vardecl in E; apply p_alt_ok in E as [E|[_ E]].
  - unfold i_vardecl. cbv beta iota zeta.
    match type of E with ?p (proj s) = _ =>
      match goal with |- exists s', ?q s = _ /\ _ => assert (Q : QSg Good (RVd (VValid doc n ty inf)) p q) end end.
    { unfold RVd. apply QS_affected'.
      - fw.
      - intros s0 s0' t0 Hr Hs E0 _ _. revert s0 s0' t0 Hr Hs E0. apply Rng_map_info.
        + intros [doc' [k [name [e [ty' se]]]]] i. auto.
        + apply Adv_pair_r; [fw|]. apply Adv_pair_l; [apply Adv_tag | fw | fw].
      - reflexivity.
      - reflexivity.
      - apply QS_map. eapply QS_impl; cycle 1.
        { apply QSinfo, QSpair; [wf | mono_solve | apply QS_comments |].
          apply QSpair; [wf | mono_solve | apply QS_tag |].
          apply QSpair; [wf | mono_solve | apply (QS_expect_this n RI); [mono_solve | apply QS_ident] |].
          apply QSpair; [wf | mono_solve | apply (QS_expect0 Good (fun _ => True)); [mono_solve | apply QS_colon_alt] |].
          apply QSpair; [wf | mono_solve | apply (QS_expect_this ty (Rref RT)); [mono_solve | intros th'; apply QS_ref_texpr] |].
          apply (QS_expect0 Good (fun _ => True)); [mono_solve | apply QS_tag]. }
        intros [[doc' [k [name [e [ty' se]]]]] i] [Ht' Hc']. cbn [fst snd] in *. cbn [strip_vardecl] in Ht'.
        injection Ht' as -> -> -> ->. cbn [vardecl_errors] in Hc'. nil_split Hc'.
        split; [assumption|]. split; [exact I|]. split; [exact I|].
        split; [destruct n; cbn [option_map]; [eexists; split; reflexivity | exact I]|].
        split; [opt_triv|]. split; [|opt_triv].
        destruct ty as [[tt to]|]; [|exact I]. exists (tt, to). split; [reflexivity|]. unfold Rref, RT. cbn [fst snd strip_oref].
        split; [reflexivity|]. split; [reflexivity|]. cbn [strip_oref opt_texpr_errors] in Hc'. exact (shift_es_nil _ _ Hc'). }
    exact (Q s s1 t Hg E He (conj Ht Hc)).
  - exfalso. apply p_map_ok in E as (r & _ & Hr). rewrite Hr in Ht. discriminate Ht.
  - exfalso. apply p_map_ok in E as ([[doc' [k [name [e [ty' se]]]]] i] & _ & Hr). rewrite Hr in Ht. discriminate Ht.
  - exfalso. apply p_map_ok in E as (r & _ & Hr). rewrite Hr in Ht. cbn [strip_vardecl] in Ht. rewrite Hr in Hc.
    cbn [vardecl_errors info_append i_errs] in Hc. apply app_eq_nil in Hc as [_ Hc]. discriminate Hc.
Qed.

(* `ref name` or `name` *)
Lemma QS_param_name (n : option ident) :
  QSg Good (fun rn : bool * option ident =>
              if fst rn then match snd rn with Some a => exists th, n = Some th /\ RI th a | None => True end
              else exists th a, n = Some th /\ snd rn = Some a /\ RI th a)
    (p_alt (p_map (fun tn => (true, snd tn)) (p_pair (p_tag toks (is_k KRef)) (p_expect (p_ident toks) (ExpectedToken s_identifier))))
           (p_map (fun i => (false, Some i)) (p_ident toks)))
    (i_alt (i_map (fun tn => (true, snd tn)) (i_pair (i_tag toks (is_k KRef)) (i_expect n (i_ident toks w w 0) (ExpectedToken s_identifier))))
           (i_map (fun i => (false, Some i)) (i_ident toks w w 0 n))).
Proof.
  intros s s1 [r o] Hg E He Hp. cbn [fst snd] in Hp. apply p_alt_ok in E as [E|[[e Ee] E]].
  - assert (Q : QSg Good (fun rn : bool * option ident => match snd rn with Some a => exists th, n = Some th /\ RI th a | None => True end)
                  (p_map (fun tn => (true, snd tn)) (p_pair (p_tag toks (is_k KRef)) (p_expect (p_ident toks) (ExpectedToken s_identifier))))
                  (i_map (fun tn => (true, snd tn)) (i_pair (i_tag toks (is_k KRef)) (i_expect n (i_ident toks w w 0) (ExpectedToken s_identifier))))).
    { apply QS_map. eapply QS_impl; cycle 1.
      { apply QSpair; [wf | mono_solve | apply QS_tag | apply (QS_expect_this n RI); [mono_solve | apply QS_ident]]. }
      intros [k o'] H. cbn [fst snd] in *. auto. }
    pose proof E as E0. apply p_map_ok in E0 as (tn & _ & Hr). cbv beta in Hr. injection Hr as -> ->. cbn [snd] in Hp.
    destruct (Q s s1 _ Hg E He Hp) as (s' & E' & A). exists s'. unfold i_alt. rewrite E'. exact (conj eq_refl A).
  - pose proof E as E0. apply p_map_ok in E0 as (i & _ & Hr). cbv beta in Hr. injection Hr as -> ->.
    destruct Hp as (th & a & -> & Ha & Hr). injection Ha as <-.
    assert (Hfail : exists sx fl, i_tag toks (is_k KRef) s = IErr sx fl).
    { apply p_map_err in Ee. apply p_pair_err in Ee as [Ee|(sa & a & _ & Ee)]; [|exfalso; exact (p_expect_noerr _ _ _ _ Ee)].
      pose proof (Sim_tag toks (is_k KRef) s) as Hs. rewrite Ee in Hs.
      destruct (i_tag toks (is_k KRef) s) as [sa' t'|sa' fl| |]; cbn in Hs; try contradiction. eauto. }
    destruct Hfail as (sx & fl & Hfail).
    assert (Q : QSg Good (fun rn : bool * option ident => exists a, snd rn = Some a /\ RI th a)
                  (p_map (fun i => (false, Some i)) (p_ident toks)) (i_map (fun i => (false, Some i)) (i_ident toks w w 0 (Some th)))).
    { apply QS_map. eapply QS_impl; [|apply QS_ident]. intros a [a' [Ha Hr']]. cbn [snd] in Ha. injection Ha as ->. exact Hr'. }
    destruct (Q s s1 _ Hg E He (ex_intro _ i (conj eq_refl Hr))) as (s' & E' & A).
    exists s'. unfold i_alt at 1. unfold i_map at 1. unfold i_pair. rewrite Hfail. cbn [ibind]. rewrite E'. exact (conj eq_refl A).
Qed.

Lemma QS_paramdecl f th : QSg Good (RPd th) (p_paramdecl toks f) (i_paramdecl toks w w 0 f (Some th)).
Proof.
  destruct th as [doc r n ty inf|inf].
  - unfold i_paramdecl. cbv beta iota zeta. unfold RPd. apply QS_affected'.
    + fw.
    + intros s s1 t Hr Hs E Ht _. unfold p_paramdecl in E. apply p_alt_ok in E as [E|[_ E]].
      * revert s s1 t Hr Hs E Ht. intros s s1 t Hr Hs E _. revert s s1 t Hr Hs E. apply Rng_map_info.
        -- intros [doc' [rn [k [ty' pk]]]] i. auto.
        -- apply Adv_pair_r; [fw|]. apply Adv_pair_l; [|fw|fw].
           apply Adv_alt; apply Adv_map; [apply Adv_pair_l; [apply Adv_tag | fw | fw] | apply Adv_map, Adv_info, Adv_tag].
      * exfalso. apply p_map_ok in E as (r0 & _ & Hr0). rewrite Hr0 in Ht. discriminate Ht.
    + reflexivity.
    + reflexivity.
    + intros s s1 t Hg E He [Ht Hc]. unfold p_paramdecl in E. apply p_alt_ok in E as [E|[_ E]].
      * match type of E with ?p (proj s) = _ =>
          match goal with |- exists s', i_alt ?q _ s = _ /\ _ =>
            assert (Q : QSg Good (fun t => t = strip_paramdecl (PValid doc r n ty inf) /\ paramdecl_errors t = []) p q) end end.
        { apply QS_map. eapply QS_impl; cycle 1.
          { apply QSinfo, QSpair; [wf | mono_solve | apply QS_comments |].
            apply QSpair; [wf | mono_solve | apply (QS_param_name n) |].
            apply QSpair; [wf | mono_solve | apply (QS_expect0 Good (fun _ => True)); [mono_solve | apply QS_tag] |].
            apply QSpair; [wf | mono_solve | apply (QS_expect_this ty (Rref RT)); [mono_solve | intros th'; apply QS_ref_texpr] |].
            apply QS_peek_la. }
          intros [[doc' [[rf nm] [k [ty' pk]]]] i] [Ht' Hc']. cbn [fst snd] in *. cbn [strip_paramdecl] in Ht'.
          injection Ht' as -> -> -> -> ->. cbn [paramdecl_errors] in Hc'. nil_split Hc'.
          split; [assumption|]. split; [exact I|]. split.
          { destruct r.
            - destruct n; cbn [option_map]; [eexists; split; reflexivity | exact I].
            - destruct n as [n0|]; cbn [option_map]; [exists n0, (strip_ident n0); repeat split|].
              exfalso. clear - E Ht. apply p_map_ok in E as ([[doc' [[rf nm] [k [ty' pk]]]] i] & E & Hr). cbv beta iota in Hr.
              rewrite Hr in Ht. cbn [strip_paramdecl option_map fst snd] in Ht. injection Ht as _ Hrf Hnm _ _. subst rf nm.
              apply p_info_ok in E as (s0 & E & _). cbn [fst] in E.
              apply p_pair_ok in E as (sa & _ & E). cbn [fst snd] in E. apply p_pair_ok in E as (sb & E & _). cbn [fst snd] in E.
              apply p_alt_ok in E as [E|[_ E]]; apply p_map_ok in E as (x & _ & Hx); discriminate Hx. }
          split; [opt_triv|]. split; [|exact I].
          destruct ty as [[tt to]|]; [|exact I]. exists (tt, to). split; [reflexivity|]. unfold Rref, RT. cbn [fst snd strip_oref].
          split; [reflexivity|]. split; [reflexivity|]. cbn [strip_oref opt_texpr_errors] in Hc'. exact (shift_es_nil _ _ Hc'). }
        destruct (Q s s1 t Hg E He (conj Ht Hc)) as (s' & E' & A). exists s'. unfold i_alt at 1. rewrite E'. exact (conj eq_refl A).
      * exfalso. apply p_map_ok in E as (r0 & _ & Hr0). rewrite Hr0 in Ht. discriminate Ht.
  - intros s s1 t Hg E He [Ht Hc]. exfalso. unfold p_paramdecl in E. apply p_alt_ok in E as [E|[_ E]].
    + apply p_map_ok in E as ([[doc' [rn [k [ty' pk]]]] i] & _ & Hr). rewrite Hr in Ht. discriminate Ht.
    + apply p_map_ok in E as (r & _ & Hr). rewrite Hr in Hc.
      cbn [paramdecl_errors info_append i_errs] in Hc. apply app_eq_nil in Hc as [_ Hc]. discriminate Hc.
Qed.

End T.
