(* C16 - the position classifier on VALID programs, decided at EVERY position: part 2, procedures.

   [proc_spec D dd lo hi lastk]: what `complete_procedure` answers on a procedure declaration dd of the
   grammar whose first token has index D, at the position (lo, hi) ([pos_at], Proofs/ComplFindingsSpec.v),
   when `token_before` returned a token of kind lastk - a function of the abstract declaration:
     in front of the `)` of the parameter list      the signature answers ([sig_answer]: `ref` behind `(` and
                                                     `,`, the types behind `:` and `of`, null otherwise);
     else, if a statement other than `;` starts at or in front of token lo   [sts_spec] of the body;
     else                                           [decl_answer]: types behind `:` / `of`, the `var` and
                                                     statement proposals behind `;` / `{`, null otherwise.
   [complete_procedure_spec]: the model computes exactly this.
   [token_before_in], [token_before_front]: which token `token_before` returns. *)
From Coq Require Import PeanoNat NArith Lia List Bool.
From Spl Require Import Proofs.GrammarBase Proofs.GrammarExpr Proofs.GrammarStmt.
From Spl Require Import Proofs.GrammarProofs Spec.Typing Model.Errors Proofs.SemProofs Proofs.TypingProofs.
From Spl Require Import Model.Hover Model.Fold Proofs.LexerProofs Proofs.FoldProofs Proofs.HoverProofs.
From Spl Require Import Proofs.HoverValid Model.Completion Proofs.CompletionProofs.
From Spl Require Import Proofs.ComplValidBase Proofs.ComplValidProc Proofs.ComplValidNest Proofs.ComplValid.
From Spl Require Import Proofs.ComplFindingsSpec.
Import ListNotations.
Local Open Scope nat_scope.

(* ---------------------------------------------------------------------------------------- *)
(* the specification                                                                          *)

(* index of the first token of the first statement other than `;` *)
Fixpoint first_real (b : astmts) (o : nat) : option nat :=
  match b with
  | SNil => None
  | SCons s r => if is_emp s then first_real r (o + len (fl_stmt s)) else Some o
  end.

Definition sig_answer (k : kind) : shape :=
  match k with LParen | Comma => ARef | Colon | KOf => ATypes | _ => ANull end.
Definition decl_answer (k : kind) : shape :=
  match k with Colon | KOf => ATypes | Semic | LCurly => AVarStmt | _ => ANull end.

Definition in_stmts_spec (b : astmts) (o lo : nat) : bool :=
  match first_real b o with Some r => r <=? lo | None => false end.

Definition proc_spec (D : nat) (dd : adecl) (lo hi : nat) (lastk : kind) : shape :=
  match dd with
  | DProc c1 c2 x c3 ps c4 c5 vs b c6 =>
      let o := D + len (proc_head c1 c2 x c3 ps c4 c5) + len (flat_map fl_vardecl vs) in
      if lo <? D + len (proc_sig c1 c2 x c3 ps c4) then sig_answer lastk
      else if in_stmts_spec b o lo then sts_spec b o lo hi lastk false
      else decl_answer lastk
  | DType _ _ _ _ _ _ => ANull
  end.

(* ---------------------------------------------------------------------------------------- *)
(* token_before                                                                               *)

Lemma tb_loop_end : forall l1 a pos cur,
  Forall (fun t => (ts t < pos)%N) l1 -> (ts a < pos)%N -> tb_loop (l1 ++ [a]) pos cur = a.
Proof.
  induction l1 as [|x l1 IH]; intros a pos cur H Ha; cbn [app tb_loop].
  - destruct (N.leb_spec pos (ts a)); [lia | reflexivity].
  - inversion H as [|? ? Hx Hr]; subst. destruct (N.leb_spec pos (ts x)); [lia|]. now apply IH.
Qed.

Lemma token_before_split l1 a rest pos :
  Forall (fun t => (ts t < pos)%N) l1 -> (ts a < pos)%N ->
  match rest with b :: _ => (pos <= ts b)%N | [] => True end ->
  token_before (l1 ++ a :: rest) pos = Some a.
Proof.
  intros Hall Ha Hr. unfold token_before.
  assert (Hl : forall cur, tb_loop (l1 ++ a :: rest) pos cur = a).
  { intros cur. destruct rest as [|b l2]; [now apply tb_loop_end | now apply tb_loop_hit]. }
  destruct l1 as [|x l1]; cbn [app] in *.
  - destruct (N.ltb_spec pos (ts a)); [lia|]. now rewrite Hl.
  - inversion Hall as [|? ? Hx _]; subst. destruct (N.ltb_spec pos (ts x)); [lia|]. now rewrite Hl.
Qed.

Section TokenBefore.
Variables (sl : list token) (position : N) (a lo hi : nat).
Hypothesis Hpos : pos_at sl position a lo hi.
(* tokens are not empty: everything in front of token lo starts strictly in front of the position *)
Hypothesis Hstrict : forall k t, nth_error sl k = Some t -> a + k < lo -> (ts t < position)%N.

Lemma front_all l1 r : sl = l1 ++ r -> a + len l1 <= lo -> Forall (fun t => (ts t < position)%N) l1.
Proof.
  intros E Hl. apply Forall_forall. intros x Hx. apply In_nth_error in Hx as [i Hi].
  assert (Hil : i < len l1) by (apply nth_error_Some; congruence).
  apply (Hstrict i x); [|lia]. rewrite E, nth_error_app1; assumption.
Qed.

(* the position lies behind the first character of token lo: token lo *)
Lemma token_before_in tlo :
  a <= lo -> nth_error sl (lo - a) = Some tlo -> (ts tlo < position)%N -> token_before sl position = Some tlo.
Proof.
  intros Ha Hn Hlt. destruct (nth_error_split sl (lo - a) Hn) as [l1 [rest [E Hl]]].
  rewrite E. apply token_before_split; [apply (front_all l1 (tlo :: rest) E); lia | exact Hlt |].
  destruct rest as [|b l2]; [exact I|].
  assert (Hb : nth_error sl (S (lo - a)) = Some b).
  { rewrite E, nth_error_app2 by lia. replace (S (lo - a) - len l1) with 1 by lia. reflexivity. }
  destruct (Hpos _ _ Hb) as [_ [H2 _]]. specialize (H2 ltac:(lia)). lia.
Qed.

(* the position is the first character of token lo: the token in front of it *)
Lemma token_before_front tlo tp :
  a < lo -> nth_error sl (lo - a) = Some tlo -> (ts tlo = position)%N -> nth_error sl (lo - a - 1) = Some tp ->
  token_before sl position = Some tp.
Proof.
  intros Ha Hn Heq Hp. destruct (nth_error_split sl (lo - a - 1) Hp) as [l1 [rest [E Hl]]].
  assert (Er : exists l2, rest = tlo :: l2).
  { rewrite E, nth_error_app2 in Hn by lia. replace (lo - a - len l1) with 1 in Hn by lia.
    cbn [nth_error] in Hn. destruct rest as [|y l2]; [discriminate|]. injection Hn as ->. now exists l2. }
  destruct Er as [l2 ->]. rewrite E. apply token_before_split.
  - apply (front_all l1 (tp :: tlo :: l2) E). lia.
  - apply (Hstrict (lo - a - 1) tp Hp). lia.
  - lia.
Qed.
End TokenBefore.

(* ---------------------------------------------------------------------------------------- *)
(* the `in_statements` test                                                                   *)

Lemma in_stmts_at position a lo hi : forall b (sl : list token) pre post,
  map tk sl = pre ++ fl_stmts b ++ post -> pos_at sl position a lo hi ->
  in_stmts_test sl position (x_stmts (len pre) b) = ROk (in_stmts_spec b (a + len pre) lo).
Proof.
  unfold in_stmts_test, in_stmts_spec.
  induction b as [|s r IH]; intros sl pre post Hk Hpos; cbn [x_stmts find first_real]; [reflexivity|].
  cbn [fl_stmts] in Hk. rewrite <- app_assoc in Hk. rewrite real_x_stmt.
  destruct (is_emp s); cbn [negb].
  - replace (len pre + len (fl_stmt s)) with (len (pre ++ fl_stmt s)) by leneq.
    rewrite (IH sl (pre ++ fl_stmt s) post ltac:(rewrite Hk; listeq) Hpos). do 2 f_equal.
    replace (a + len (pre ++ fl_stmt s)) with (a + len pre + len (fl_stmt s)) by leneq. reflexivity.
  - pose proof (stmt_len_pos s) as Hp. destruct (x_stmt_info s) as [His Hie].
    pose proof (dslice_room sl _ _ _ Hk) as Hroom.
    destruct (range_at sl (len pre) (len (fl_stmt s)) (stmt_info (x_stmt 0 s)) Hp Hroom His Hie) as [f [la [Hf [_ Hr]]]].
    rewrite slice_from_ok by lia. cbn [rbind]. rewrite Hr. cbn [rbind fst]. f_equal.
    destruct (Hpos _ _ Hf) as [F1 [F2 _]].
    destruct (Nat.leb_spec (a + len pre) lo) as [H|H].
    + destruct (N.leb_spec (ts f) position); [reflexivity | specialize (F1 H); lia].
    + destruct (N.leb_spec (ts f) position); [specialize (F2 H); lia | reflexivity].
Qed.

(* ---------------------------------------------------------------------------------------- *)
(* complete_procedure                                                                         *)

Lemma render_sig l g k :
  match k with LParen | Comma => Some [item_ref] | Colon | KOf => Some (search_types g) | _ => None end
  = render l g (sig_answer k).
Proof. destruct k; reflexivity. Qed.

Lemma render_decl l g k :
  match k with
  | Colon | KOf => Some (search_types g)
  | Semic | LCurly => Some ([snip_var; item_var] ++ new_stmt l g)
  | _ => None
  end = render l g (decl_answer k).
Proof. destruct k; reflexivity. Qed.

Theorem complete_procedure_spec c1 c2 x c3 ps c4 c5 vs b c6 (sl : list token) G position D lo hi last :
  let dd := DProc c1 c2 x c3 ps c4 c5 vs b c6 in
  map tk sl = fl_decl dd -> pos_at sl position D lo hi -> token_before sl position = Some last ->
  complete_procedure (the_proc dd) position sl G =
    ROk (render (get_local_table (the_proc dd) G) G (proc_spec D dd lo hi (tk last))).
Proof.
  intros dd Hk Hpos Htb.
  destruct (sig_end_found c1 c2 x c3 ps c4 c5 vs b c6 sl Hk) as [rp [Hrp [_ Hfind]]].
  destruct (Hpos _ _ Hrp) as [R1 [R2 _]].
  unfold proc_spec, dd.
  destruct (Nat.ltb_spec lo (D + len (proc_sig c1 c2 x c3 ps c4))) as [Hlt|Hge].
  - assert (Hsig : (position <? ts rp)%N = true).
    { destruct (N.ltb_spec position (ts rp)); [reflexivity | specialize (R2 Hlt); lia]. }
    rewrite (complete_procedure_sig _ position sl G last rp Htb Hfind Hsig). f_equal. apply render_sig.
  - assert (Hsig : (position <? ts rp)%N = false).
    { destruct (N.ltb_spec position (ts rp)); [specialize (R1 Hge); lia | reflexivity]. }
    assert (Hkk : map tk sl = (proc_head c1 c2 x c3 ps c4 c5 ++ flat_map fl_vardecl vs) ++ fl_stmts b ++ (cm c6 ++ [RCurly])).
    { rewrite Hk. unfold dd. rewrite fl_proc. listeq. }
    rewrite (complete_procedure_body _ position sl G last rp
               (in_stmts_spec b (D + len (proc_head c1 c2 x c3 ps c4 c5 ++ flat_map fl_vardecl vs)) lo) Htb Hfind Hsig).
    + replace (D + len (proc_head c1 c2 x c3 ps c4 c5 ++ flat_map fl_vardecl vs))
        with (D + len (proc_head c1 c2 x c3 ps c4 c5) + len (flat_map fl_vardecl vs)) by leneq.
      destruct (in_stmts_spec b _ lo).
      * rewrite the_proc_stmts.
        replace (len (proc_head c1 c2 x c3 ps c4 c5) + len (flat_map fl_vardecl vs))
          with (len (proc_head c1 c2 x c3 ps c4 c5 ++ flat_map fl_vardecl vs)) by leneq.
        rewrite (complete_statements_spec b sl _ _ position D lo hi last false _ G Hkk Hpos).
        do 3 f_equal. leneq.
      * f_equal. apply render_decl.
    + rewrite the_proc_stmts.
      replace (len (proc_head c1 c2 x c3 ps c4 c5) + len (flat_map fl_vardecl vs))
        with (len (proc_head c1 c2 x c3 ps c4 c5 ++ flat_map fl_vardecl vs)) by leneq.
      exact (in_stmts_at position D lo hi b sl _ _ Hkk Hpos).
Qed.
