(* C13, second half - renamings on trees (Proofs/RefsRoundDefs.v [rn_program]) and the occurrences of
   Spec/Nav.v, for EVERY tree:
     [rn_*_walks]       the tree walks of Model/Refs.v commute with a renaming;
     [occR_program]     the occurrences of the renamed tree are the old ones, position by position, with the
                        name [F_occ F x], the same token and role;
     [rn_program_ext]   two renamings that agree on the occurrences of a tree rename it alike. *)
From Coq Require Import PeanoNat Lia Bool List.
From Spl Require Import Spec.Typing Proofs.SemProofs Proofs.TypingProofs Spec.Nav Proofs.GotoProofs Proofs.RefsProofs.
From Spl Require Import Proofs.RefsValidWalks Proofs.RefsRoundDefs.
Import ListNotations.
Local Open Scope nat_scope.

Lemma Forall2_flat_map_map {A B} (R : B -> B -> Prop) (f f' : A -> list B) (hh : A -> A) l :
  (forall a, In a l -> Forall2 R (f a) (f' (hh a))) -> Forall2 R (flat_map f l) (flat_map f' (map hh l)).
Proof.
  induction l as [|a l IH]; intros H; [constructor|]. cbn [flat_map map]. apply Forall2_app; [apply H; now left|].
  apply IH. intros b Hb. apply H. now right.
Qed.

Lemma Forall2_map_r {A B} (R : A -> B -> Prop) (f : A -> B) l : (forall a, In a l -> R a (f a)) -> Forall2 R l (map f l).
Proof. induction l as [|a l IH]; intros H; [constructor|]. cbn [map]. constructor; [apply H; now left | apply IH; intros b Hb; apply H; now right]. Qed.

Section Walks.
Variable F : rnf.

Lemma rn_ident_shift c q D i off : rn_ident F c q D (shift_ident i off) = shift_ident (rn_ident F c q (D + off) i) off.
Proof. unfold rn_ident, shift_ident, shift_info. cbn [id_val id_info i_e]. f_equal. f_equal. lia. Qed.

Lemma map_rn_shift c q D l off :
  map (rn_ident F c q D) (shift_idents l off) = shift_idents (map (rn_ident F c q (D + off)) l) off.
Proof. unfold shift_idents. rewrite !map_map. apply map_ext. intros i. apply rn_ident_shift. Qed.

Lemma rn_vars :
  (forall v q D, vars_in_variable all (rn_var F q D v) = map (rn_ident F CLocal q D) (vars_in_variable all v)) /\
  (forall e q D, vars_in_expr all (rn_expr F q D e) = map (rn_ident F CLocal q D) (vars_in_expr all e)).
Proof.
  apply var_expr_ind.
  - intros i q D. reflexivity.
  - intros a inf IHa q D. cbn [rn_var vars_in_variable]. now rewrite IHa, !app_nil_r.
  - intros a e off inf IHa IHe q D. cbn [rn_var vars_in_variable]. now rewrite IHa, IHe, map_app, map_rn_shift.
  - intros op l r inf IHl IHr q D. cbn [rn_expr vars_in_expr]. now rewrite IHl, IHr, map_app.
  - intros a inf IHa q D. cbn [rn_expr vars_in_expr]. apply IHa.
  - intros i q D. reflexivity.
  - intros op a inf IHa q D. cbn [rn_expr vars_in_expr]. apply IHa.
  - intros v IHv q D. cbn [rn_expr vars_in_expr]. apply IHv.
  - intros inf q D. reflexivity.
Qed.

Lemma rn_oexpr_vars o q D : vars_in_oexpr all (rn_oexpr F q D o) = map (rn_ident F CLocal q D) (vars_in_oexpr all o).
Proof. destruct o as [[e off]|]; [|reflexivity]. cbn [rn_oexpr vars_in_oexpr]. now rewrite (proj2 rn_vars), map_rn_shift. Qed.

Lemma rn_block_go q D body :
  (fix go (l : list (stmt * nat)) : list (stmt * nat) :=
     match l with [] => [] | (x, off) :: r => (rn_stmt F q (D + off) x, off) :: go r end) body
  = rn_stmts F q D body.
Proof. unfold rn_stmts. induction body as [|[x off] r IH]; [reflexivity|]. cbn [map fst snd]. now rewrite IH. Qed.

Lemma rn_stmt_walks s : forall q D,
  vars_in_stmt all (rn_stmt F q D s) = map (rn_ident F CLocal q D) (vars_in_stmt all s)
  /\ procs_in_stmt all (rn_stmt F q D s) = map (rn_ident F CProc q D) (procs_in_stmt all s).
Proof.
  induction s as [inf|v e inf|n a inf|c t e inf IHt IHe|c b inf IHb|body inf IHbody|inf] using RefsProofs.stmt_ind'; intros q D.
  - split; reflexivity.
  - split; [|reflexivity]. cbn [rn_stmt vars_in_stmt]. now rewrite (proj1 rn_vars), rn_oexpr_vars, map_app.
  - split; [|reflexivity]. cbn [rn_stmt vars_in_stmt]. induction a as [|[x off] r IH]; [reflexivity|].
    cbn [map flat_map fst snd]. now rewrite IH, (proj2 rn_vars), map_app, map_rn_shift.
  - assert (Ho : forall r, (forall x off, r = Some (x, off) -> forall q D,
                     vars_in_stmt all (rn_stmt F q D x) = map (rn_ident F CLocal q D) (vars_in_stmt all x)
                     /\ procs_in_stmt all (rn_stmt F q D x) = map (rn_ident F CProc q D) (procs_in_stmt all x)) ->
              match (match r with Some (x, off) => Some (rn_stmt F q (D + off) x, off) | None => None end) with
              | Some (x, off) => shift_idents (vars_in_stmt all x) off | None => [] end
              = map (rn_ident F CLocal q D) (match r with Some (x, off) => shift_idents (vars_in_stmt all x) off | None => [] end)
              /\ match (match r with Some (x, off) => Some (rn_stmt F q (D + off) x, off) | None => None end) with
                 | Some (x, off) => shift_idents (procs_in_stmt all x) off | None => [] end
                 = map (rn_ident F CProc q D) (match r with Some (x, off) => shift_idents (procs_in_stmt all x) off | None => [] end)).
    { intros [[x off]|] H; [|split; reflexivity]. destruct (H x off eq_refl q (D + off)) as [H1 H2].
      rewrite H1, H2, !map_rn_shift. split; reflexivity. }
    destruct (Ho t IHt) as [T1 T2]. destruct (Ho e IHe) as [E1 E2]. cbn [rn_stmt vars_in_stmt procs_in_stmt].
    split; [now rewrite rn_oexpr_vars, T1, E1, !map_app | now rewrite T2, E2, map_app].
  - cbn [rn_stmt vars_in_stmt procs_in_stmt]. destruct b as [[x off]|].
    + destruct (IHb x off eq_refl q (D + off)) as [H1 H2]. rewrite rn_oexpr_vars, H1, H2, map_app, !map_rn_shift. split; reflexivity.
    + rewrite rn_oexpr_vars, map_app. split; reflexivity.
  - cbn [rn_stmt vars_in_stmt procs_in_stmt]. rewrite rn_block_go.
    rewrite !(block_go (vars_in_stmt all) shift_idents), !(block_go (procs_in_stmt all) shift_idents).
    unfold rn_stmts. induction body as [|[x off] r IH]; [split; reflexivity|].
    cbn [map flat_map fst snd]. destruct (IHbody x off (or_introl eq_refl) q (D + off)) as [H1 H2].
    destruct IH as [I1 I2]; [intros y o Hy; apply (IHbody y o); now right|].
    rewrite H1, H2, I1, I2, !map_app, !map_rn_shift. split; reflexivity.
  - split; reflexivity.
Qed.

Lemma rn_stmts_walks l q D :
  vars_in_stmts all (rn_stmts F q D l) = map (rn_ident F CLocal q D) (vars_in_stmts all l)
  /\ procs_in_stmts all (rn_stmts F q D l) = map (rn_ident F CProc q D) (procs_in_stmts all l).
Proof.
  unfold vars_in_stmts, procs_in_stmts, rn_stmts. induction l as [|[x off] r [I1 I2]]; [split; reflexivity|].
  cbn [map flat_map fst snd]. destruct (rn_stmt_walks x q (D + off)) as [H1 H2].
  rewrite H1, H2, I1, I2, !map_app, !map_rn_shift. split; reflexivity.
Qed.
Lemma rn_texpr_ident t : forall q D off,
  ident_in_texpr (rn_texpr F q (D + off) t) off = option_map (rn_ident F CType q D) (ident_in_texpr t off).
Proof.
  induction t as [i | sz inf | sz b boff inf IH] using texpr_ind'; intros q D off.
  - cbn [rn_texpr ident_in_texpr option_map]. now rewrite rn_ident_shift.
  - reflexivity.
  - cbn [rn_texpr ident_in_texpr]. rewrite (IH q (D + off) boff).
    destruct (ident_in_texpr b boff) as [j|]; [|reflexivity]. cbn [option_map]. now rewrite rn_ident_shift.
Qed.

Lemma filter_all (l : list ident) : filter all l = l.
Proof. apply filter_true. Qed.

Definition rn_params (q : option text) (D : nat) (ps : list (paramdecl * nat)) : list (paramdecl * nat) :=
  map (fun x => (rn_param F q (D + snd x) (fst x), snd x)) ps.
Definition rn_vardecls (q : option text) (D : nat) (vs : list (vardecl * nat)) : list (vardecl * nat) :=
  map (fun x => (rn_vardecl F q (D + snd x) (fst x), snd x)) vs.

Lemma rn_otexpr_ident ty q D so :
  match rn_otexpr F q (D + so) ty with
  | Some (te, toff) => opt_list (option_map (fun i => shift_ident i so) (ident_in_texpr te toff))
  | None => []
  end
  = map (rn_ident F CType q D)
      (match ty with Some (te, toff) => opt_list (option_map (fun i => shift_ident i so) (ident_in_texpr te toff)) | None => [] end).
Proof.
  destruct ty as [[te toff]|]; [|reflexivity]. cbn [rn_otexpr]. rewrite rn_texpr_ident.
  destruct (ident_in_texpr te toff) as [j|]; [|reflexivity]. cbn [option_map opt_list map]. now rewrite rn_ident_shift.
Qed.

Lemma rn_params_types ps q D : types_in_params all (rn_params q D ps) = map (rn_ident F CType q D) (types_in_params all ps).
Proof.
  unfold types_in_params, rn_params. induction ps as [|[p so] r IH]; [reflexivity|]. cbn [map flat_map fst snd]. rewrite IH, map_app. f_equal.
  destruct p as [doc rf name ty inf | inf]; [|reflexivity]. cbn [rn_param].
  pose proof (rn_otexpr_ident ty q D so) as H. destruct ty as [[te toff]|]; [|reflexivity]. cbn [rn_otexpr] in H |- *.
  now rewrite !filter_all.
Qed.

Lemma rn_vars_types vs q D : types_in_vars all (rn_vardecls q D vs) = map (rn_ident F CType q D) (types_in_vars all vs).
Proof.
  unfold types_in_vars, rn_vardecls. induction vs as [|[p so] r IH]; [reflexivity|]. cbn [map flat_map fst snd]. rewrite IH, map_app. f_equal.
  destruct p as [doc name ty inf | inf]; [|reflexivity]. cbn [rn_vardecl].
  pose proof (rn_otexpr_ident ty q D so) as H. destruct ty as [[te toff]|]; [|reflexivity]. cbn [rn_otexpr] in H |- *.
  now rewrite !filter_all.
Qed.

Lemma rn_params_names ps q D : var_names_in_params all (rn_params q D ps) = map (rn_ident F CLocal q D) (var_names_in_params all ps).
Proof.
  unfold var_names_in_params, rn_params. induction ps as [|[p so] r IH]; [reflexivity|]. cbn [map flat_map fst snd]. rewrite IH, map_app. f_equal.
  destruct p as [doc rf [i|] ty inf | inf]; try reflexivity. cbn [rn_param option_map all map]. now rewrite rn_ident_shift.
Qed.

Lemma rn_vars_names vs q D : var_names_in_vars all (rn_vardecls q D vs) = map (rn_ident F CLocal q D) (var_names_in_vars all vs).
Proof.
  unfold var_names_in_vars, rn_vardecls. induction vs as [|[p so] r IH]; [reflexivity|]. cbn [map flat_map fst snd]. rewrite IH, map_app. f_equal.
  destruct p as [doc [i|] ty inf | inf]; try reflexivity. cbn [rn_vardecl option_map all map]. now rewrite rn_ident_shift.
Qed.

(* ---- occurrences ---- *)
(* x' is x renamed; p' is the renamed name of the procedure around *)
Definition occR (p' : option text) (x x' : occ) : Prop :=
  o_id x' = {| id_val := F_occ F x; id_info := id_info (o_id x) |} /\ o_role x' = o_role x /\ o_proc x' = p'.

Lemma Forall2_maps {A B C} (R : B -> C -> Prop) (f : A -> B) (g : A -> C) l :
  (forall a, In a l -> R (f a) (g a)) -> Forall2 R (map f l) (map g l).
Proof. induction l as [|a l IH]; intros H; [constructor|]. cbn [map]. constructor; [apply H; now left | apply IH; intros b Hb; apply H; now right]. Qed.

Lemma occR_mk D r p p' l : Forall2 (occR p') (mk_occs D r p l) (mk_occs D r p' (map (rn_ident F (cls r) p D) l)).
Proof. unfold mk_occs. rewrite map_map. apply Forall2_maps. intros i _. repeat split. Qed.

Lemma occR_params D p p' ps : Forall2 (occR p') (param_occs D p ps) (param_occs D p' (rn_params p D ps)).
Proof.
  unfold param_occs, rn_params. apply Forall2_flat_map_map. intros [pd so] _. cbn [fst snd].
  destruct pd as [doc rf [i|] ty inf | inf]; cbn [rn_param option_map]; try constructor; [|constructor].
  repeat split. unfold F_occ, o_tok, o_name, rn_ident, shift_ident, shift_info. cbn [o_id o_role o_proc id_val id_info i_e cls].
  f_equal. f_equal. lia.
Qed.

Lemma occR_vars D p p' vs : Forall2 (occR p') (var_occs D p vs) (var_occs D p' (rn_vardecls p D vs)).
Proof.
  unfold var_occs, rn_vardecls. apply Forall2_flat_map_map. intros [vd so] _. cbn [fst snd].
  destruct vd as [doc [i|] ty inf | inf]; cbn [rn_vardecl option_map]; try constructor; [|constructor].
  repeat split. unfold F_occ, o_tok, o_name, rn_ident, shift_ident, shift_info. cbn [o_id o_role o_proc id_val id_info i_e cls].
  f_equal. f_equal. lia.
Qed.

(* the new name of the procedure around the occurrences of a declaration *)
Definition new_proc (g : gdecl * nat) : option text :=
  match fst g with
  | GProc pd => option_map (fun i => id_val (rn_ident F CProc (option_map id_val (pd_name pd)) (snd g) i)) (pd_name pd)
  | _ => None
  end.

Theorem occR_decl g D : Forall2 (occR (new_proc (g, D))) (occs_of_decl (g, D)) (occs_of_decl (rn_gdecl F D g, D)).
Proof.
  destruct g as [td|pd|inf]; [| |constructor]; unfold occs_of_decl, new_proc; cbn [fst snd rn_gdecl].
  - cbn [td_name td_ty]. apply Forall2_app.
    + destruct (td_name td) as [i|]; cbn [option_map]; constructor; [|constructor]. repeat split.
    + pose proof (occR_mk D RTypeUse None None
                   (match td_ty td with Some (te, toff) => opt_list (ident_in_texpr te toff) | None => [] end)) as H.
      replace (match rn_otexpr F None D (td_ty td) with Some (te, toff) => opt_list (ident_in_texpr te toff) | None => [] end)
        with (map (rn_ident F (cls RTypeUse) None D)
                (match td_ty td with Some (te, toff) => opt_list (ident_in_texpr te toff) | None => [] end)); [exact H|].
      destruct (td_ty td) as [[te toff]|]; [|reflexivity]. cbn [rn_otexpr cls]. rewrite rn_texpr_ident.
      now destruct (ident_in_texpr te toff).
  - cbn [pd_name pd_params pd_vars pd_stmts].
    set (q := option_map id_val (pd_name pd)). set (p' := option_map id_val (option_map (rn_ident F CProc q D) (pd_name pd))).
    assert (Ep : option_map (fun i => id_val (rn_ident F CProc q D i)) (pd_name pd) = p') by (unfold p'; now destruct (pd_name pd)).
    rewrite Ep. fold (rn_params q D (pd_params pd)). fold (rn_vardecls q D (pd_vars pd)).
    rewrite rn_params_types, rn_vars_types, (proj1 (rn_stmts_walks _ q D)), (proj2 (rn_stmts_walks _ q D)).
    repeat apply Forall2_app.
    + destruct (pd_name pd) as [i|]; cbn [option_map opt_list]; [|constructor]. exact (occR_mk D RProcDecl q p' [i]).
    + apply occR_params.
    + exact (occR_mk D RTypeUse q p' _).
    + apply occR_vars.
    + exact (occR_mk D RTypeUse q p' _).
    + exact (occR_mk D RCall q p' _).
    + exact (occR_mk D RVarUse q p' _).
Qed.

Theorem occR_program (T : program) :
  Forall2 (fun x x' => exists p', occR p' x x') (occurrences T) (occurrences (rn_program F T)).
Proof.
  unfold occurrences, rn_program. cbn [pg_decls]. apply Forall2_flat_map_map. intros [g D] _. cbn [fst snd].
  generalize (occR_decl g D). generalize (occs_of_decl (g, D)), (occs_of_decl (rn_gdecl F D g, D)).
  induction 1 as [|a b l l' H _ IH]; constructor; eauto.
Qed.
End Walks.

(* ---------------------------------------------------------------------------------------- *)
(* two renamings that agree on the occurrences rename the tree alike *)
Section Ext.
Variables F F' : rnf.

Definition agree (c : rclass) (q : option text) (D : nat) (i : ident) : Prop :=
  F c q (i_e (id_info i) + D - 1) (id_val i) = F' c q (i_e (id_info i) + D - 1) (id_val i).

Lemma agree_ident c q D i : agree c q D i -> rn_ident F c q D i = rn_ident F' c q D i.
Proof. unfold agree, rn_ident. now intros ->. Qed.

Lemma agree_shift c q D l off :
  (forall i, In i (shift_idents l off) -> agree c q D i) -> forall j, In j l -> agree c q (D + off) j.
Proof.
  intros H j Hj. specialize (H (shift_ident j off)). unfold agree in *. cbn [shift_ident shift_info id_info id_val i_e] in H.
  replace (i_e (id_info j) + (D + off) - 1) with (i_e (id_info j) + off + D - 1) by lia. apply H. apply in_shift. eauto.
Qed.

Lemma ext_vars :
  (forall v q D, (forall i, In i (vars_in_variable all v) -> agree CLocal q D i) -> rn_var F q D v = rn_var F' q D v) /\
  (forall e q D, (forall i, In i (vars_in_expr all e) -> agree CLocal q D i) -> rn_expr F q D e = rn_expr F' q D e).
Proof.
  apply var_expr_ind.
  - intros i q D H. cbn [rn_var]. f_equal. apply agree_ident, H. now left.
  - intros a inf IHa q D H. cbn [rn_var]. f_equal. apply IHa. intros i Hi. apply H. cbn [vars_in_variable]. apply in_or_app. now left.
  - intros a e off inf IHa IHe q D H. cbn [rn_var]. cbn [vars_in_variable] in H. f_equal.
    + apply IHa. intros i Hi. apply H. apply in_or_app. now left.
    + do 2 f_equal. apply IHe. apply (agree_shift CLocal q D _ off). intros i Hi. apply H. apply in_or_app. now right.
  - intros op l r inf IHl IHr q D H. cbn [rn_expr]. cbn [vars_in_expr] in H.
    f_equal; [apply IHl | apply IHr]; intros i Hi; apply H; apply in_or_app; auto.
  - intros a inf IHa q D H. cbn [rn_expr]. f_equal. apply IHa, H.
  - reflexivity.
  - intros op a inf IHa q D H. cbn [rn_expr]. f_equal. apply IHa, H.
  - intros v IHv q D H. cbn [rn_expr]. f_equal. apply IHv, H.
  - reflexivity.
Qed.

Lemma ext_oexpr o q D : (forall i, In i (vars_in_oexpr all o) -> agree CLocal q D i) -> rn_oexpr F q D o = rn_oexpr F' q D o.
Proof.
  destruct o as [[e off]|]; [|reflexivity]. cbn [vars_in_oexpr rn_oexpr]. intros H. do 2 f_equal.
  apply (proj2 ext_vars). now apply (agree_shift CLocal q D _ off).
Qed.

Lemma ext_stmt s : forall q D,
  (forall i, In i (vars_in_stmt all s) -> agree CLocal q D i) -> (forall i, In i (procs_in_stmt all s) -> agree CProc q D i) ->
  rn_stmt F q D s = rn_stmt F' q D s.
Proof.
  induction s as [inf|v e inf|n a inf|c t e inf IHt IHe|c b inf IHb|body inf IHbody|inf] using RefsProofs.stmt_ind'; intros q D Hv Hp.
  - reflexivity.
  - cbn [rn_stmt]. cbn [vars_in_stmt] in Hv. f_equal.
    + apply (proj1 ext_vars). intros i Hi. apply Hv, in_or_app. now left.
    + apply ext_oexpr. intros i Hi. apply Hv, in_or_app. now right.
  - cbn [rn_stmt]. cbn [vars_in_stmt] in Hv. cbn [procs_in_stmt all] in Hp. f_equal.
    + apply agree_ident, Hp. now left.
    + apply map_ext_in. intros [x off] Hx. cbn [fst snd]. f_equal. apply (proj2 ext_vars).
      apply (agree_shift CLocal q D _ off). intros i Hi. apply Hv. apply in_flat_map. exists (x, off). split; [exact Hx | exact Hi].
  - assert (Ho : forall r, (forall x off, r = Some (x, off) -> forall q D,
                  (forall i, In i (vars_in_stmt all x) -> agree CLocal q D i) -> (forall i, In i (procs_in_stmt all x) -> agree CProc q D i) ->
                  rn_stmt F q D x = rn_stmt F' q D x) ->
              (forall i, In i (match r with Some (x, off) => shift_idents (vars_in_stmt all x) off | None => [] end) -> agree CLocal q D i) ->
              (forall i, In i (match r with Some (x, off) => shift_idents (procs_in_stmt all x) off | None => [] end) -> agree CProc q D i) ->
              match r with Some (x, off) => Some (rn_stmt F q (D + off) x, off) | None => None end
              = match r with Some (x, off) => Some (rn_stmt F' q (D + off) x, off) | None => None end).
    { intros [[x off]|] H H1 H2; [|reflexivity]. do 2 f_equal.
      apply (H x off eq_refl); [now apply (agree_shift CLocal q D _ off) | now apply (agree_shift CProc q D _ off)]. }
    cbn [rn_stmt]. cbn [vars_in_stmt] in Hv. cbn [procs_in_stmt] in Hp. f_equal.
    + apply ext_oexpr. intros i Hi. apply Hv, in_or_app. now left.
    + apply (Ho t IHt); intros i Hi; [apply Hv | apply Hp]; apply in_or_app; [right; apply in_or_app|]; now left.
    + apply (Ho e IHe); intros i Hi; [apply Hv | apply Hp]; apply in_or_app; [right; apply in_or_app|]; now right.
  - cbn [rn_stmt]. cbn [vars_in_stmt] in Hv. cbn [procs_in_stmt] in Hp. f_equal.
    + apply ext_oexpr. intros i Hi. apply Hv, in_or_app. now left.
    + destruct b as [[x off]|]; [|reflexivity]. do 2 f_equal. apply (IHb x off eq_refl).
      * apply (agree_shift CLocal q D _ off). intros i Hi. apply Hv, in_or_app. now right.
      * now apply (agree_shift CProc q D _ off).
  - cbn [rn_stmt]. rewrite !rn_block_go. f_equal. unfold rn_stmts. apply map_ext_in. intros [x off] Hx. cbn [fst snd]. f_equal.
    cbn [vars_in_stmt] in Hv. cbn [procs_in_stmt] in Hp.
    rewrite (block_go (vars_in_stmt all) shift_idents) in Hv. rewrite (block_go (procs_in_stmt all) shift_idents) in Hp.
    apply (IHbody x off Hx).
    + apply (agree_shift CLocal q D _ off). intros i Hi. apply Hv. apply in_flat_map. exists (x, off). split; [exact Hx | exact Hi].
    + apply (agree_shift CProc q D _ off). intros i Hi. apply Hp. apply in_flat_map. exists (x, off). split; [exact Hx | exact Hi].
  - reflexivity.
Qed.

Lemma ext_stmts l q D :
  (forall i, In i (vars_in_stmts all l) -> agree CLocal q D i) -> (forall i, In i (procs_in_stmts all l) -> agree CProc q D i) ->
  rn_stmts F q D l = rn_stmts F' q D l.
Proof.
  intros Hv Hp. unfold rn_stmts. apply map_ext_in. intros [x off] Hx. cbn [fst snd]. f_equal. apply ext_stmt.
  - apply (agree_shift CLocal q D _ off). intros i Hi. apply Hv. unfold vars_in_stmts. apply in_flat_map. exists (x, off). split; [exact Hx | exact Hi].
  - apply (agree_shift CProc q D _ off). intros i Hi. apply Hp. unfold procs_in_stmts. apply in_flat_map. exists (x, off). split; [exact Hx | exact Hi].
Qed.

Lemma ext_texpr t : forall q D off,
  (forall i, ident_in_texpr t off = Some i -> agree CType q D i) -> rn_texpr F q (D + off) t = rn_texpr F' q (D + off) t.
Proof.
  induction t as [i | sz inf | sz b boff inf IH] using texpr_ind'; intros q D off H.
  - cbn [rn_texpr]. f_equal. apply agree_ident. specialize (H _ eq_refl). unfold agree in *.
    cbn [shift_ident shift_info id_info id_val i_e] in H. replace (i_e (id_info i) + (D + off) - 1) with (i_e (id_info i) + off + D - 1) by lia. exact H.
  - reflexivity.
  - cbn [rn_texpr]. do 3 f_equal. apply IH. intros i Hi. cbn [ident_in_texpr] in H. rewrite Hi in H. specialize (H _ eq_refl).
    unfold agree in *. cbn [shift_ident shift_info id_info id_val i_e] in H.
    replace (i_e (id_info i) + (D + off) - 1) with (i_e (id_info i) + off + D - 1) by lia. exact H.
Qed.

Lemma ext_otexpr ty q D :
  (forall te toff i, ty = Some (te, toff) -> ident_in_texpr te toff = Some i -> agree CType q D i) ->
  rn_otexpr F q D ty = rn_otexpr F' q D ty.
Proof. destruct ty as [[te toff]|]; [|reflexivity]. intros H. cbn [rn_otexpr]. do 2 f_equal. apply ext_texpr. intros i. now apply H. Qed.

(* agreement on the occurrences of a declaration *)
Lemma occ_agree g D c q i r :
  (forall x, In x (occs_of_decl (g, D)) -> F_occ F x = F_occ F' x) ->
  In {| o_id := shift_ident i D; o_role := r; o_proc := q; o_ty := None |} (occs_of_decl (g, D)) -> cls r = c -> agree c q D i.
Proof. intros H Hin <-. exact (H _ Hin). Qed.

Theorem ext_decl g D : (forall x, In x (occs_of_decl (g, D)) -> F_occ F x = F_occ F' x) -> rn_gdecl F D g = rn_gdecl F' D g.
Proof.
  intros H. destruct g as [td|pd|inf]; [| |reflexivity]; cbn [rn_gdecl]; cbv zeta.
  - unfold occs_of_decl in H. cbn [fst snd] in H. f_equal. f_equal.
    + destruct (td_name td) as [i|]; [|reflexivity]. cbn [option_map]. f_equal. apply agree_ident. apply (H _ (or_introl eq_refl)).
    + apply ext_otexpr. intros te toff i E Hi. rewrite E, Hi in H. apply (H {| o_id := shift_ident i D; o_role := RTypeUse; o_proc := None; o_ty := None |}).
      apply in_or_app. right. destruct (td_name td); now left.
  - set (q := option_map id_val (pd_name pd)) in *.
    assert (Hmk : forall c r l, cls r = c -> (forall i, In i l -> In {| o_id := shift_ident i D; o_role := r; o_proc := q; o_ty := None |} (occs_of_decl (GProc pd, D))) ->
                  forall i, In i l -> agree c q D i).
    { intros c r l Hc Hl i Hi. exact (occ_agree _ _ c q i r H (Hl i Hi) Hc). }
    assert (Hin : forall r l i, In i l -> In {| o_id := shift_ident i D; o_role := r; o_proc := q; o_ty := None |} (mk_occs D r q l)).
    { intros r l i Hi. unfold mk_occs. apply in_map_iff. exists i. split; [reflexivity | exact Hi]. }
    f_equal. f_equal.
    + destruct (pd_name pd) as [i|] eqn:En; [|reflexivity]. cbn [option_map]. f_equal. apply agree_ident.
      apply (Hmk CProc RProcDecl [i] eq_refl); [|now left]. intros j Hj. unfold occs_of_decl. cbn [fst snd]. fold q. rewrite En. cbn [opt_list].
      apply in_or_app. left. now apply Hin.
    + apply map_ext_in. intros [p so] Hp. cbn [fst snd]. f_equal. destruct p as [doc rf name ty inf | inf]; [|reflexivity]. cbn [rn_param]. f_equal.
      * destruct name as [i|]; [|reflexivity]. cbn [option_map]. f_equal. apply agree_ident.
        assert (Hx : In {| o_id := shift_ident (shift_ident i so) D; o_role := RParamDecl; o_proc := q; o_ty := ty_shape ty |} (occs_of_decl (GProc pd, D))).
        { unfold occs_of_decl. cbn [fst snd]. fold q. apply in_or_app. right. apply in_or_app. left. unfold param_occs. apply in_flat_map.
          exists (PValid doc rf (Some i) ty inf, so). split; [exact Hp | now left]. }
        specialize (H _ Hx). unfold agree. unfold F_occ, o_tok, o_name in H. cbn [o_id o_role o_proc cls shift_ident shift_info id_info id_val i_e] in H.
        replace (i_e (id_info i) + (D + so) - 1) with (i_e (id_info i) + so + D - 1) by lia. exact H.
      * apply ext_otexpr. intros te toff i E Hi. apply (agree_shift CType q D [i] so); [|now left]. intros j [<-|[]].
        apply (Hmk CType RTypeUse (types_in_params all (pd_params pd)) eq_refl).
        -- intros j Hj. unfold occs_of_decl. cbn [fst snd]. fold q. do 2 (apply in_or_app; right). apply in_or_app. left. now apply Hin.
        -- unfold types_in_params. apply in_flat_map. exists (PValid doc rf name ty inf, so). split; [exact Hp|]. cbn [fst snd]. rewrite E, Hi. now left.
    + apply map_ext_in. intros [p so] Hp. cbn [fst snd]. f_equal. destruct p as [doc name ty inf | inf]; [|reflexivity]. cbn [rn_vardecl]. f_equal.
      * destruct name as [i|]; [|reflexivity]. cbn [option_map]. f_equal. apply agree_ident.
        assert (Hx : In {| o_id := shift_ident (shift_ident i so) D; o_role := RVarDecl; o_proc := q; o_ty := ty_shape ty |} (occs_of_decl (GProc pd, D))).
        { unfold occs_of_decl. cbn [fst snd]. fold q. do 3 (apply in_or_app; right). apply in_or_app. left. unfold var_occs. apply in_flat_map.
          exists (VValid doc (Some i) ty inf, so). split; [exact Hp | now left]. }
        specialize (H _ Hx). unfold agree. unfold F_occ, o_tok, o_name in H. cbn [o_id o_role o_proc cls shift_ident shift_info id_info id_val i_e] in H.
        replace (i_e (id_info i) + (D + so) - 1) with (i_e (id_info i) + so + D - 1) by lia. exact H.
      * apply ext_otexpr. intros te toff i E Hi. apply (agree_shift CType q D [i] so); [|now left]. intros j [<-|[]].
        apply (Hmk CType RTypeUse (types_in_vars all (pd_vars pd)) eq_refl).
        -- intros j Hj. unfold occs_of_decl. cbn [fst snd]. fold q. do 4 (apply in_or_app; right). apply in_or_app. left. now apply Hin.
        -- unfold types_in_vars. apply in_flat_map. exists (VValid doc name ty inf, so). split; [exact Hp|]. cbn [fst snd]. rewrite E, Hi. now left.
    + apply ext_stmts.
      * apply (Hmk CLocal RVarUse _ eq_refl). intros j Hj. unfold occs_of_decl. cbn [fst snd]. fold q. do 6 (apply in_or_app; right). now apply Hin.
      * apply (Hmk CProc RCall _ eq_refl). intros j Hj. unfold occs_of_decl. cbn [fst snd]. fold q. do 5 (apply in_or_app; right). apply in_or_app. left. now apply Hin.
Qed.

Theorem rn_program_ext (T : program) :
  (forall x, In x (occurrences T) -> F_occ F x = F_occ F' x) -> rn_program F T = rn_program F' T.
Proof.
  intros H. unfold rn_program. f_equal. apply map_ext_in. intros [g D] Hg. cbn [fst snd]. f_equal. apply ext_decl.
  intros x Hx. apply H. unfold occurrences. apply in_flat_map. exists (g, D). split; [exact Hg | exact Hx].
Qed.
End Ext.
