(* C04 - the round-trip theorem (proved in GrammarProg.v) and its corollaries. *)
From Coq Require Import List Lia Arith Bool.
From Spl Require Import Spec.Grammar Model.Parser.
From Spl Require Export Proofs.GrammarBase Proofs.GrammarExpr Proofs.GrammarStmt Proofs.GrammarProg Proofs.GrammarKinds.
Import ListNotations.
Local Open Scope nat_scope.

(* ---- no syntax diagnostic: the mandated tree carries no error ---- *)
Lemma clean_expr_all :
  (forall v o, clean_var (x_var o v) = true) /\ (forall f o, clean_expr (x_fac o f) = true) /\
  (forall m o, clean_expr (x_mul o m) = true) /\ (forall a o, clean_expr (x_add o a) = true) /\
  (forall e o, clean_expr (x_cmp o e) = true).
Proof.
  apply aexpr_mutind; intros; cbn [x_var x_fac x_mul x_add x_cmp clean_var clean_expr clean_opt fst]; rewrite ?H, ?H0; reflexivity.
Qed.

Lemma clean_cmp e o : clean_expr (x_cmp o e) = true.
Proof. apply clean_expr_all. Qed.
Lemma clean_var_ok v o : clean_var (x_var o v) = true.
Proof. apply clean_expr_all. Qed.

Lemma clean_type t o : clean_texpr (x_type o t) = true.
Proof. revert o; induction t; intros o; cbn [x_type clean_texpr clean_opt fst]; rewrite ?IHt; reflexivity. Qed.

Lemma clean_tail l o : forallb (fun r : expr * nat => clean_expr (fst r)) (x_tail fl_cmp (x_cmp 0) o l) = true.
Proof. revert o; induction l as [|[c e] l IH]; intros o; cbn [x_tail forallb fst]; [reflexivity|]. now rewrite clean_cmp, IH. Qed.

Lemma clean_stmt_all :
  (forall s o, clean_stmt (x_stmt o s) = true) /\
  (forall b o, forallb (fun r : stmt * nat => clean_stmt (fst r)) (x_stmts o b) = true).
Proof.
  apply astmt_mutind; intros; cbn [x_stmt x_stmts clean_stmt clean_opt forallb fst];
    rewrite ?clean_cmp, ?clean_var_ok, ?H, ?H0; try reflexivity.
  destruct a as [[e l]|]; cbn [x_sep forallb fst]; [|reflexivity]. now rewrite clean_cmp, clean_tail.
Qed.

Lemma clean_param p : clean_paramdecl (x_param p) = true.
Proof. destruct p; cbn [x_param clean_paramdecl clean_opt fst]; now rewrite clean_type. Qed.

Lemma clean_params_tail l o : forallb (fun r : paramdecl * nat => clean_paramdecl (fst r)) (x_tail fl_param x_param o l) = true.
Proof. revert o; induction l as [|[c e] l IH]; intros o; cbn [x_tail forallb fst]; [reflexivity|]. now rewrite clean_param, IH. Qed.

Lemma clean_vardecls vs o : forallb (fun r : vardecl * nat => clean_vardecl (fst r)) (x_vardecls o vs) = true.
Proof.
  revert o; induction vs as [|v vs IH]; intros o; cbn [x_vardecls forallb fst]; [reflexivity|].
  rewrite IH. unfold x_vardecl. cbn [clean_vardecl clean_opt fst]. now rewrite clean_type.
Qed.

Lemma clean_decl d : clean_gdecl (x_decl d) = true.
Proof.
  destruct d as [c1 c2 x c3 t c4|c1 c2 x c3 ps c4 c5 vs b c6]; cbn [x_decl clean_gdecl clean_opt td_name td_ty td_info pd_name pd_params pd_vars pd_stmts pd_info fst].
  - now rewrite clean_type.
  - rewrite clean_vardecls, (proj2 clean_stmt_all).
    destruct ps as [[p l]|]; cbn [x_sep forallb fst]; [|reflexivity]. now rewrite clean_param, clean_params_tail.
Qed.

Lemma expected_clean p : tree_clean (expected p) = true.
Proof.
  unfold tree_clean, expected. cbn [pg_decls pg_info]. rewrite andb_true_r.
  generalize 0. induction (a_decls p) as [|d ds IH]; intros o; cbn [x_decls forallb fst]; [reflexivity|].
  now rewrite clean_decl, IH.
Qed.

Theorem no_syntax_diag p toks : prog_ok p = true -> map tk toks = flatten p ++ [Eof] ->
  exists t, parse toks = Done t /\ tree_clean t = true.
Proof. intros Hok H. exists (expected p). split; [now apply roundtrip | apply expected_clean]. Qed.

(* ---- ranges: the range of every node is [o, o + number of its own tokens incl. leading comments) ---- *)
Definition span (i : info) (o n : nat) : Prop := i_s i = o /\ i_e i = o + n.

Lemma range_var o v : span (var_info (x_var o v)) o (len (fl_var v)).
Proof. destruct v; cbn [x_var var_info x_ident id_info]; split; cbn [mkinfo i_s i_e]; try reflexivity. lens. lia. Qed.
Lemma range_fac o f : span (expr_info (x_fac o f)) o (len (fl_fac f)).
Proof.
  destruct f as [c l|v|c f|c1 e c2]; cbn [x_fac expr_info]; try (split; reflexivity).
  - split; cbn [x_lit il_info mkinfo i_s i_e]; [reflexivity|lens; lia].
  - apply range_var.
Qed.
Lemma range_mul o m : span (expr_info (x_mul o m)) o (len (fl_mul m)).
Proof. destruct m; cbn [x_mul expr_info fl_mul]; [apply range_fac | split; reflexivity]. Qed.
Lemma range_add o a : span (expr_info (x_add o a)) o (len (fl_add a)).
Proof. destruct a; cbn [x_add expr_info fl_add]; [apply range_mul | split; reflexivity]. Qed.
Lemma range_cmp o e : span (expr_info (x_cmp o e)) o (len (fl_cmp e)).
Proof. destruct e; cbn [x_cmp expr_info fl_cmp]; [apply range_add | split; reflexivity]. Qed.
Lemma range_type o t : span (texpr_info (x_type o t)) o (len (fl_type t)).
Proof. destruct t; cbn [x_type texpr_info x_ident id_info]; split; cbn [mkinfo i_s i_e]; try reflexivity. lens. lia. Qed.
Lemma range_stmt o s : span (stmt_info (x_stmt o s)) o (len (fl_stmt s)).
Proof. destruct s; cbn [x_stmt stmt_info]; split; reflexivity. Qed.
Lemma range_param p : span (paramdecl_info (x_param p)) 0 (len (fl_param p)).
Proof. destruct p; split; reflexivity. Qed.
Lemma range_vardecl v : span (vardecl_info (x_vardecl v)) 0 (len (fl_vardecl v)).
Proof. split; reflexivity. Qed.
Lemma range_decl d : span (gdecl_info (x_decl d)) 0 (len (fl_decl d)).
Proof. destruct d; split; reflexivity. Qed.

(* the i-th declaration of the result is a Reference at the absolute index of its first token *)
Lemma x_decls_nth ds : forall o i d, nth_error ds i = Some d ->
  nth_error (x_decls o ds) i = Some (x_decl d, o + len (flat_map fl_decl (firstn i ds))).
Proof.
  induction ds as [|d0 ds IH]; intros o [|i] d H; try discriminate; cbn [nth_error x_decls firstn flat_map] in *.
  - injection H as ->. cbn [length]. now rewrite Nat.add_0_r.
  - rewrite (IH _ _ _ H), app_length. f_equal. f_equal. lia.
Qed.

Theorem ranges_exact p toks : prog_ok p = true -> map tk toks = flatten p ++ [Eof] ->
  exists t, parse toks = Done t /\
    span (pg_info t) 0 (len (flat_map fl_decl (a_decls p))) /\
    (forall i d, nth_error (a_decls p) i = Some d ->
       exists g, nth_error (pg_decls t) i = Some (g, len (flat_map fl_decl (firstn i (a_decls p)))) /\
                 g = x_decl d /\ span (gdecl_info g) 0 (len (fl_decl d))) /\
    (* inside the declarations every node is an x_* image, for which: *)
    (forall o v, span (var_info (x_var o v)) o (len (fl_var v))) /\
    (forall o e, span (expr_info (x_cmp o e)) o (len (fl_cmp e))) /\
    (forall o a, span (expr_info (x_add o a)) o (len (fl_add a))) /\
    (forall o m, span (expr_info (x_mul o m)) o (len (fl_mul m))) /\
    (forall o f, span (expr_info (x_fac o f)) o (len (fl_fac f))) /\
    (forall o ty, span (texpr_info (x_type o ty)) o (len (fl_type ty))) /\
    (forall o s, span (stmt_info (x_stmt o s)) o (len (fl_stmt s))) /\
    (forall q, span (paramdecl_info (x_param q)) 0 (len (fl_param q))) /\
    (forall v, span (vardecl_info (x_vardecl v)) 0 (len (fl_vardecl v))).
Proof.
  intros Hok H. exists (expected p). split; [now apply roundtrip|]. split; [split; reflexivity|]. split.
  - intros i d Hd. exists (x_decl d). split; [|split; [reflexivity|apply range_decl]].
    unfold expected; cbn [pg_decls]. now rewrite (x_decls_nth _ 0 i d Hd).
  - repeat split; intros; first [apply range_var | apply range_cmp | apply range_add | apply range_mul | apply range_fac
                                | apply range_type | apply range_stmt | apply range_param | apply range_vardecl].
Qed.

(* ---- layout independence: byte ranges and lexical details of the tokens never reach the parser ---- *)
Theorem layout_independent p toks1 toks2 : prog_ok p = true -> map tk toks1 = flatten p ++ [Eof] ->
  map tk toks2 = map tk toks1 -> parse toks2 = parse toks1.
Proof. intros Hok H1 H2. rewrite (roundtrip p toks1 Hok H1). apply roundtrip; [exact Hok|congruence]. Qed.

(* ... and this holds for every token vector, valid or not (Proofs/GrammarKinds.v) *)
Theorem layout_independent_all toks1 toks2 : map tk toks2 = map tk toks1 -> parse toks2 = parse toks1.
Proof. apply parse_kinds_only. Qed.
