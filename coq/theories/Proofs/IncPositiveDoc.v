(* C01, positive part on whole documents.  table::build and table::analyze only APPEND build / semantic
   messages to AstInfos: the analysed tree and the parse tree have the same remove_messages image
   ([new_doc_strip]).  Hence AnalyzedSource::update, which starts from the analysed tree, is covered by
   `inc_empty_change`: after any history of notifications made of blank edits of a clean text the
   updated document IS the freshly analysed one ([blank_notifications_fresh]). *)
From Coq Require Import List Arith Lia.
From Spl Require Import Model.UpdateDoc Proofs.UpdateProofs Proofs.UpdateDocProofsStrip Proofs.UpdateDocProofs
  Proofs.IncPositiveList Proofs.IncPositiveProg Proofs.IncPositive.
Import ListNotations.
Local Open Scope nat_scope.

(* ---- appended messages disappear under remove_messages ---- *)
Lemma strip_info_append i x : keep_err x = false -> strip_info (info_append i x) = strip_info i.
Proof.
  intros H. unfold strip_info, info_append. cbn [i_s i_e i_errs]. rewrite filter_app. cbn [filter]. rewrite H, app_nil_r. reflexivity.
Qed.

Definition NP (m : text -> emsg) : Prop := forall n, keep_err {| e_s := 0; e_e := 0; e_m := m n |} = false.

Lemma ident_flag_strip i m i' : NP m -> ident_flag i m = ROk i' -> strip_ident i' = strip_ident i.
Proof.
  unfold ident_flag, to_error. intros Hm H. destruct (Nat.eqb (i_e (id_info i)) 0); cbn [rbind] in H; [discriminate|].
  injection H as <-. unfold strip_ident, ident_append. cbn [id_val id_info]. f_equal. apply strip_info_append. exact (Hm (id_val i)).
Qed.

Lemma strip_var_append v x : keep_err x = false -> strip_var (var_append v x) = strip_var v.
Proof.
  intros H. destruct v as [i|a idx inf]; cbn [var_append strip_var].
  - unfold strip_ident, ident_append. cbn [id_val id_info]. rewrite (strip_info_append _ _ H). reflexivity.
  - rewrite (strip_info_append _ _ H). reflexivity.
Qed.

Lemma strip_expr_append e x : keep_err x = false -> strip_expr (expr_append e x) = strip_expr e.
Proof.
  intros H. destruct e; cbn [expr_append strip_expr]; rewrite ?(strip_info_append _ _ H); try reflexivity.
  - unfold strip_intlit. cbn [il_val il_info]. rewrite (strip_info_append _ _ H). reflexivity.
  - rewrite (strip_var_append _ _ H). reflexivity.
Qed.

(* break a `do x <- e; k` that returned ROk *)
Ltac rb H :=
  repeat (cbv beta in H;
    match type of H with
    | rbind ?x _ = ROk _ => let E := fresh "E" in destruct x as [?|?] eqn:E; cbn [rbind] in H; [|discriminate H]
    | (let (_, _) := ?x in _) = ROk _ => destruct x
    end).

(* use an induction hypothesis whose premise may have been rewritten by `destruct .. eqn` *)
Ltac useIH2 IH X :=
  first [ pose proof (IH _ _ eq_refl) as X
        | match goal with Hx : _ = ROk (_, _) |- _ => pose proof (IH _ _ Hx) as X end ].
Ltac useIH1 IH X :=
  first [ pose proof (IH _ eq_refl) as X
        | match goal with Hx : _ = ROk _ |- _ => pose proof (IH _ Hx) as X end ].

(* ---- table::analyze ---- *)
Section An.
Variable L : option ltable.
Variable G : option gtable.

Lemma an_var_expr_strip :
  (forall v v' t, an_var L G v = ROk (v', t) -> strip_var v' = strip_var v) /\
  (forall e e' t, an_expr L G e = ROk (e', t) -> strip_expr e' = strip_expr e).
Proof.
  apply var_expr_induction.
  - intros i v' t H. cbn [an_var] in H. destruct (lt_lookup L G (id_val i)) as [[te|pe|ve|ve]|]; rb H; try (injection H as <- <-; try reflexivity).
    + cbn [strip_var]. f_equal. eapply ident_flag_strip; [|eassumption]. intros n; reflexivity.
    + cbn [strip_var]. f_equal. eapply ident_flag_strip; [|eassumption]. intros n; reflexivity.
    + cbn [strip_var]. f_equal. eapply ident_flag_strip; [|eassumption]. intros n; reflexivity.
  - intros a idx inf IHa IHi v' t H. cbn [an_var] in H. rb H.
    assert (Hidx : match idx with Some (e, o) => Some (strip_expr e, o) | None => None end =
                   match a0 with Some (e, o) => Some (strip_expr e, o) | None => None end).
    { destruct idx as [[e off]|]; rb E; injection E as <-; [|reflexivity]. cbn [po_opt fst] in IHi.
      useIH2 IHi X. match goal with |- context [match ?ty with Some _ => _ | None => _ end] => destruct ty as [[| |]|] end;
        rewrite ?strip_expr_append by reflexivity; rewrite X; reflexivity. }
    useIH2 IHa Xa.
    match type of H with match ?o with _ => _ end = _ => destruct o as [[| |sz base cr]|] end; injection H as <- <-;
      cbn [strip_var]; rewrite ?strip_info_append by reflexivity; rewrite Xa, Hidx; reflexivity.
  - intros op l r inf IHl IHr e' t H. cbn [an_expr] in H. rb H. injection H as <- <-. cbn [strip_expr].
    useIH2 IHl Xl. useIH2 IHr Xr. rewrite Xl, Xr. f_equal.
    destruct o as [a|]; [|reflexivity]. destruct o0 as [b|]; [|reflexivity].
    destruct (is_int a && is_int b); [reflexivity|]. destruct (is_int a || is_int b); [apply strip_info_append; reflexivity|].
    destruct (is_arithmetic op); apply strip_info_append; reflexivity.
  - intros a inf IHa e' t H. cbn [an_expr] in H. rb H. injection H as <- <-. cbn [strip_expr]. useIH2 IHa Xa. rewrite Xa. reflexivity.
  - intros i e' t H. cbn [an_expr] in H. injection H as <- <-. reflexivity.
  - intros op a inf IHa e' t H. cbn [an_expr] in H. rb H. injection H as <- <-. cbn [strip_expr]. useIH2 IHa Xa. rewrite Xa. f_equal.
    destruct o as [ty|]; [|reflexivity]. destruct (is_int ty); [reflexivity | apply strip_info_append; reflexivity].
  - intros v IHv e' t H. cbn [an_expr] in H. rb H. injection H as <- <-. cbn [strip_expr]. useIH2 IHv Xv. rewrite Xv. reflexivity.
  - intros inf e' t H. cbn [an_expr] in H. injection H as <- <-. reflexivity.
Qed.

Lemma an_cond_strip c m c' : an_cond L G c m = ROk c' -> strip_oref strip_expr c' = strip_oref strip_expr c.
Proof.
  unfold an_cond. destruct c as [[e off]|]; intros H; rb H; injection H as <-; [|reflexivity].
  cbn [strip_oref]. pose proof (proj2 an_var_expr_strip _ _ _ E) as X.
  destruct o as [[| |]|]; rewrite ?strip_expr_append by reflexivity; rewrite X; reflexivity.
Qed.

Lemma an_args_strip cname : forall args i params args',
  an_args L G cname i args params = ROk args' ->
  map (fun a => (strip_expr (fst a), snd a)) args' = map (fun a => (strip_expr (fst a), snd a)) args.
Proof.
  induction args as [|[a off] ar IH]; intros i params args' H; cbn [an_args] in H; [injection H as <-; reflexivity|].
  destruct params as [|p pr]; [injection H as <-; reflexivity|]. rb H. injection H as <-. cbn [map fst snd].
  match goal with Hx : an_args L G cname _ ar pr = ROk _ |- _ => rewrite (IH _ _ _ Hx) end. f_equal. f_equal.
  match goal with Hx : an_expr L G _ = ROk (_, _) |- _ => pose proof (proj2 an_var_expr_strip _ _ _ Hx) as X end.
  assert (Y : strip_expr e = strip_expr a).
  { rewrite X. destruct (ve_ref p && negb match a with EVar _ => true | _ => false end); [apply strip_expr_append; reflexivity | reflexivity]. }
  destruct o as [t1|]; [|exact Y]. destruct (ve_ty p) as [t2|]; [|exact Y].
  destruct (dt_eqb t1 t2); [exact Y | rewrite strip_expr_append by reflexivity; exact Y].
Qed.

Lemma an_stmt_strip : forall s s', an_stmt L G s = ROk s' -> strip_stmt s' = strip_stmt s.
Proof.
  apply (stmt_induction (fun s => forall s', an_stmt L G s = ROk s' -> strip_stmt s' = strip_stmt s)).
  - intros inf s' H. cbn [an_stmt] in H. injection H as <-. reflexivity.
  - intros v e inf s' H. cbn [an_stmt] in H. destruct e as [[e off]|]; [|injection H as <-; reflexivity]. rb H. injection H as <-.
    cbn [strip_stmt strip_oref]. rewrite (proj1 an_var_expr_strip _ _ _ E), (proj2 an_var_expr_strip _ _ _ E0). f_equal.
    destruct o as [l|]; [|reflexivity]. destruct o0 as [r|]; [|reflexivity].
    destruct (negb (dt_eqb l r)); [apply strip_info_append; reflexivity|].
    destruct (negb (is_int l)); [apply strip_info_append; reflexivity | reflexivity].
  - intros n args inf s' H. cbn [an_stmt] in H. destruct (lt_lookup L G (id_val n)) as [[te|pe|ve|ve]|]; rb H; injection H as <-;
      cbn [strip_stmt]; rewrite ?strip_info_append by reflexivity; try reflexivity.
    rewrite (an_args_strip _ _ _ _ _ E). f_equal.
    destruct (Nat.compare (length args) (length (pe_params pe))); [reflexivity | apply strip_info_append; reflexivity | apply strip_info_append; reflexivity].
  - intros c t e inf IHt IHe s' H. cbn [an_stmt] in H. rb H. injection H as <-. cbn [strip_stmt].
    rewrite (an_cond_strip _ _ _ E). f_equal.
    + destruct t as [[x off]|]; rb E0; injection E0 as <-; [|reflexivity]. cbn [po_opt fst] in IHt. useIH1 IHt X. rewrite X. reflexivity.
    + destruct e as [[x off]|]; rb E1; injection E1 as <-; [|reflexivity]. cbn [po_opt fst] in IHe. useIH1 IHe X. rewrite X. reflexivity.
  - intros c b inf IHb s' H. cbn [an_stmt] in H. rb H. injection H as <-. cbn [strip_stmt].
    rewrite (an_cond_strip _ _ _ E). f_equal.
    destruct b as [[x off]|]; rb E0; injection E0 as <-; [|reflexivity]. cbn [po_opt fst] in IHb. useIH1 IHb X. rewrite X. reflexivity.
  - intros body inf IHb s' H. cbn [an_stmt] in H.
    change (rbind (an_stmts L G body) (fun body' => ROk (SBlock body' inf)) = ROk s') in H.
    rb H. injection H as <-. rewrite !strip_stmt_block. f_equal.
    match goal with Hx : an_stmts L G body = ROk ?l |- _ => revert l Hx end. clear - IHb.
    induction body as [|[x off] r IH]; intros l' E; cbn [an_stmts] in E; [injection E as <-; reflexivity|].
    cbn [all fst] in IHb. destruct IHb as [I1 I2]. specialize (IH I2).
    rb E. injection E as <-. cbn [map fst snd]. useIH1 I1 X1. useIH1 IH X2. rewrite X1, X2. reflexivity.
  - intros inf s' H. cbn [an_stmt] in H. injection H as <-. reflexivity.
Qed.

Lemma an_stmts_strip : forall l l', an_stmts L G l = ROk l' ->
  map (fun a => (strip_stmt (fst a), snd a)) l' = map (fun a => (strip_stmt (fst a), snd a)) l.
Proof.
  induction l as [|[x off] r IH]; intros l' H; cbn [an_stmts] in H; [injection H as <-; reflexivity|].
  rb H. injection H as <-. cbn [map fst snd]. useIH1 IH X2.
  match goal with Hx : an_stmt L G x = ROk _ |- _ => rewrite (an_stmt_strip _ _ Hx) end. rewrite X2. reflexivity.
Qed.

End An.

Lemma analyze_gdecl_strip T d d' : analyze_gdecl T d = ROk d' -> strip_gdecl (fst d') = strip_gdecl (fst d) /\ snd d' = snd d.
Proof.
  unfold analyze_gdecl. destruct d as [g off]. destruct g as [td|pd|inf]; try (intros H; injection H as <-; auto).
  destruct (pd_name pd) as [name|] eqn:En; [|intros H; injection H as <-; auto].
  destruct (lookup T (id_val name)) as [[te|pe]|]; [intros H; injection H as <-; auto | | discriminate].
  destruct (negb _); [intros H; injection H as <-; auto|]. intros H. rb H. injection H as <-. cbn [fst snd strip_gdecl]. split; [|reflexivity].
  f_equal. unfold strip_procdecl. cbn [pd_doc pd_name pd_params pd_vars pd_stmts pd_info]. rewrite (an_stmts_strip _ _ _ _ E), En. reflexivity.
Qed.

Lemma analyze_res_strip p T p' : analyze_res p T = ROk p' -> strip_program p' = strip_program p.
Proof.
  unfold analyze_res. intros H. rb H. injection H as <-. unfold strip_program. cbn [pg_decls pg_info]. f_equal.
  revert a E. induction (pg_decls p) as [|d r IH]; intros l' E; cbn [analyze_gdecls] in E; [injection E as <-; reflexivity|].
  rb E. injection E as <-. cbn [map]. useIH1 IH X.
  match goal with Hx : analyze_gdecl T d = ROk _ |- _ => destruct (analyze_gdecl_strip _ _ _ Hx) as [A B] end. rewrite A, B, X. reflexivity.
Qed.

(* ---- table::build ---- *)
Ltac flag E := eapply ident_flag_strip; [|exact E]; intros ?; reflexivity.

Lemma get_data_type_te_strip l g c : forall t t' dt, get_data_type_te l g c t = ROk (t', dt) -> strip_texpr t' = strip_texpr t.
Proof.
  apply (texpr_induction (fun t => forall t' dt, get_data_type_te l g c t = ROk (t', dt) -> strip_texpr t' = strip_texpr t)).
  - intros i t' dt H. cbn [get_data_type_te] in H. destruct (lt_lookup l g (id_val i)) as [[te|pe|ve|ve]|]; rb H; injection H as <- <-;
      try reflexivity; cbn [strip_texpr]; f_equal; (eapply ident_flag_strip; [|eassumption]; intros n; reflexivity).
  - intros size base inf IH t' dt H. cbn [get_data_type_te] in H. destruct base as [[b off]|]; rb H; injection H as <- <-; [|reflexivity].
    cbn [po_opt fst] in IH. cbn [strip_texpr]. useIH2 IH X. rewrite X. reflexivity.
Qed.

Lemma get_data_type_strip l g c t t' dt : get_data_type l g c t = ROk (t', dt) -> strip_oref strip_texpr t' = strip_oref strip_texpr t.
Proof.
  unfold get_data_type. destruct t as [[te off]|]; intros H; rb H; injection H as <- <-; [|reflexivity].
  cbn [strip_oref]. rewrite (get_data_type_te_strip _ _ _ _ _ _ E). reflexivity.
Qed.

Ltac okflag :=
  match goal with
  | Hx : (if ?b then ROk _ else _) = ROk _ |- _ => destruct b; [injection Hx as <-; reflexivity | flag Hx]
  end.

Lemma build_typedecl_strip d T o d' T' : build_typedecl d T o = ROk (d', T') -> strip_typedecl d' = strip_typedecl d.
Proof.
  unfold build_typedecl. destruct (td_name d) as [name|] eqn:En; [|intros H; injection H as <- <-; reflexivity].
  destruct (text_eqb (id_val name) s_main).
  - intros H. rb H. injection H as <- <-. unfold strip_typedecl. cbn [td_doc td_name td_ty td_info]. rewrite En. cbn [option_map].
    f_equal. f_equal. flag E.
  - intros H. rb H. injection H as <- <-.
    unfold strip_typedecl. cbn [td_doc td_name td_ty td_info]. rewrite En. cbn [option_map].
    rewrite (get_data_type_strip _ _ _ _ _ _ E). f_equal. f_equal. okflag.
Qed.

Lemma build_parameter_strip p name g l p' l' oe :
  build_parameter p name g l = ROk (p', l', oe) -> strip_paramdecl (fst p') = strip_paramdecl (fst p) /\ snd p' = snd p.
Proof.
  unfold build_parameter. destruct p as [pd off]. destruct pd as [doc r [n|] ty inf|inf]; try (intros H; injection H as <- <- <-; auto).
  intros H. rb H. injection H as <- <- <-. cbn [fst snd strip_paramdecl option_map].
  split; [|reflexivity]. rewrite (get_data_type_strip _ _ _ _ _ _ E). f_equal. f_equal.
  match goal with Hx : (if ?b then ROk ?n1 else _) = ROk _ |- _ =>
    assert (X : strip_ident n1 = strip_ident n);
    [| destruct b; [injection Hx as <-; exact X | transitivity (strip_ident n1); [flag Hx | exact X]]] end.
  match goal with Hx : match ?o with Some _ => _ | None => _ end = ROk _ |- _ => destruct o as [d|]; [|injection Hx as <-; reflexivity];
    destruct (negb (is_primitive d) && negb r); [flag Hx | injection Hx as <-; reflexivity] end.
Qed.

Lemma build_parameters_strip name g : forall ps l ps' l' es,
  build_parameters ps name g l = ROk (ps', l', es) ->
  map (fun a => (strip_paramdecl (fst a), snd a)) ps' = map (fun a => (strip_paramdecl (fst a), snd a)) ps.
Proof.
  induction ps as [|p r IH]; intros l ps' l' es H; cbn [build_parameters] in H; [injection H as <- <- <-; reflexivity|].
  rb H. injection H as <- <- <-. cbn [map].
  match goal with Hx : build_parameters r name g _ = ROk _ |- _ => pose proof (IH _ _ _ _ Hx) as X end.
  match goal with Hx : build_parameter p name g l = ROk _ |- _ => destruct (build_parameter_strip _ _ _ _ _ _ _ Hx) as [A B] end.
  cbn [fst snd] in A, B. rewrite A, B, X. reflexivity.
Qed.

Lemma build_variable_strip v name g l v' l' :
  build_variable v name g l = ROk (v', l') -> strip_vardecl (fst v') = strip_vardecl (fst v) /\ snd v' = snd v.
Proof.
  unfold build_variable. destruct v as [vd off]. destruct vd as [doc [n|] ty inf|inf]; try (intros H; injection H as <- <-; auto).
  intros H. rb H. injection H as <- <-. cbn [fst snd strip_vardecl option_map].
  split; [|reflexivity]. rewrite (get_data_type_strip _ _ _ _ _ _ E). f_equal. f_equal. okflag.
Qed.

Lemma build_variables_strip name g : forall vs l vs' l',
  build_variables vs name g l = ROk (vs', l') ->
  map (fun a => (strip_vardecl (fst a), snd a)) vs' = map (fun a => (strip_vardecl (fst a), snd a)) vs.
Proof.
  induction vs as [|v r IH]; intros l vs' l' H; cbn [build_variables] in H; [injection H as <- <-; reflexivity|].
  rb H. injection H as <- <-. cbn [map].
  match goal with Hx : build_variables r name g _ = ROk _ |- _ => pose proof (IH _ _ _ Hx) as X end.
  match goal with Hx : build_variable v name g l = ROk _ |- _ => destruct (build_variable_strip _ _ _ _ _ _ Hx) as [A B] end.
  cbn [fst snd] in A, B. rewrite A, B, X. reflexivity.
Qed.

Lemma build_procdecl_strip d T o d' T' : build_procdecl d T o = ROk (d', T') -> strip_procdecl d' = strip_procdecl d.
Proof.
  unfold build_procdecl. destruct (pd_name d) as [name|] eqn:En; [|intros H; injection H as <- <-; reflexivity].
  intros H. rb H. injection H as <- <-.
  unfold strip_procdecl. cbn [pd_doc pd_name pd_params pd_vars pd_stmts pd_info]. rewrite En. cbn [option_map].
  rewrite (build_parameters_strip _ _ _ _ _ _ _ E), (build_variables_strip _ _ _ _ _ _ E0). f_equal. f_equal. okflag.
Qed.

Lemma build_gdecls_strip : forall ds T o ds' T', build_gdecls ds T o = ROk (ds', T') ->
  map (fun a => (strip_gdecl (fst a), snd a)) ds' = map (fun a => (strip_gdecl (fst a), snd a)) ds.
Proof.
  induction ds as [|[d off] r IH]; intros T o ds' T' H; cbn [build_gdecls] in H; [injection H as <- <-; reflexivity|].
  rb H. injection H as <- <-. cbn [map fst snd].
  match goal with Hx : build_gdecls r _ o = ROk _ |- _ => rewrite (IH _ _ _ _ Hx) end. f_equal. f_equal.
  match goal with Hx : build_gdecl d T _ = ROk _ |- _ => rename Hx into E end.
  unfold build_gdecl in E. destruct d as [td|pd|inf]; rb E; injection E as <- <-; cbn [strip_gdecl]; try reflexivity; f_equal.
  - eapply build_typedecl_strip; eassumption.
  - eapply build_procdecl_strip; eassumption.
Qed.

Lemma build_res_strip p p1 T : build_res p = ROk (p1, T) -> strip_program p1 = strip_program p.
Proof.
  unfold build_res, build_program. intros H. rb H. pose proof (build_gdecls_strip _ _ _ _ _ E) as X.
  destruct (lookup g s_main) as [[te|main]|].
  - discriminate H.
  - destruct (pe_params main); rb H; injection H as <- <-; unfold strip_program; cbn [pg_decls pg_info]; rewrite X;
      rewrite ?strip_info_append by reflexivity; reflexivity.
  - injection H as <- <-. unfold strip_program. cbn [pg_decls pg_info]. rewrite X, strip_info_append by reflexivity. reflexivity.
Qed.

(* the analysed tree of a freshly opened document is its parse tree up to build / semantic messages *)
Theorem new_doc_strip t d0 :
  new_doc t = Done d0 ->
  exists p, pnew t = Done {| p_text := t; p_toks := d_toks d0; p_tree := p |} /\ d_text d0 = t /\ strip_program (d_ast d0) = p.
Proof.
  rewrite new_doc_eq. unfold obind. destruct (pnew t) as [pd| |] eqn:En; try discriminate. unfold analyse_pdoc.
  destruct (build_res (p_tree pd)) as [[p1 T]|] eqn:Eb; [|discriminate].
  destruct (analyze_res p1 T) as [p2|] eqn:Ea; [|discriminate]. intros H. injection H as <-. cbn [d_toks d_text d_ast].
  destruct (pnew_inv _ _ En) as [Ht _]. exists (p_tree pd). split; [rewrite <- Ht; destruct pd; reflexivity|]. split; [exact Ht|].
  rewrite (analyze_res_strip _ _ _ Ea), (build_res_strip _ _ _ Eb). apply strip_program_id.
  unfold pnew in En. destruct (lex t); [|discriminate]. destruct (parse l) as [p| |] eqn:Ep; try discriminate. injection En as <-.
  exact (parse_parse_only _ _ Ep).
Qed.

(* ---- AnalyzedSource::update on blank edits ---- *)
(* the old tree only matters up to its messages *)
Lemma pstep_old_irrelevant pd1 pd2 c :
  p_toks pd1 = p_toks pd2 -> CleanDoc pd2 -> strip_program (p_tree pd1) = p_tree pd2 -> blank_change pd2 c ->
  pstep pd1 (c_a c) (c_d c) (c_b c) (c_ins c) = pstep pd2 (c_a c) (c_d c) (c_b c) (c_ins c).
Proof.
  intros Hk (Hl & Hp & Hc & Hn) Hs (Ht & toks & w & Hu). rewrite Ht in Hl. unfold pstep. rewrite Hk, Hu.
  assert (Hs2 : strip_program (p_tree pd2) = p_tree pd2) by (apply strip_program_id, (parse_parse_only _ _ Hp)).
  destruct (blank_parse_update (p_tree pd1) _ _ _ _ _ toks w _ Hl Hp Hc Hn Hs Hu) as (_ & _ & _ & C1).
  destruct (blank_parse_update (p_tree pd2) _ _ _ _ _ toks w _ Hl Hp Hc Hn Hs2 Hu) as (_ & _ & _ & C2).
  rewrite C1, C2. reflexivity.
Qed.

Lemma analyse_same_tree pd1 pd2 d1 : p_tree pd2 = p_tree pd1 -> analyse_pdoc pd1 = Done d1 -> exists d2, analyse_pdoc pd2 = Done d2.
Proof.
  unfold analyse_pdoc. intros ->. destruct (build_res (p_tree pd1)) as [[p1 T]|]; [|discriminate].
  destruct (analyze_res p1 T); [|discriminate]. eauto.
Qed.

Lemma blank_hist_app : forall h1 h2 doc,
  CleanDoc doc -> pnew (p_text doc) = Done doc -> blank_hist doc (h1 ++ h2) ->
  blank_hist doc h1 /\ forall doc', pnew (final_text (p_text doc) h1) = Done doc' -> blank_hist doc' h2.
Proof.
  induction h1 as [|c r IH]; intros h2 doc Hc Hn Hb.
  - cbn [app blank_hist final_text] in *. split; [exact I|]. intros doc' Hn'. rewrite Hn in Hn'. injection Hn' as <-. exact Hb.
  - cbn [app blank_hist final_text] in *. destruct Hb as [Hb1 Hb2].
    destruct (blank_step doc c Hc Hb1) as (d1 & E1 & N1 & C1 & T1).
    assert (Ht1 : p_text d1 = c_a c ++ c_ins c ++ c_b c).
    { unfold pnew in N1. destruct (lex _); [|discriminate]. destruct (parse _); try discriminate. injection N1 as <-. reflexivity. }
    pose proof N1 as N1'. rewrite <- Ht1 in N1'. destruct (IH h2 d1 C1 N1' (Hb2 d1 N1)) as [A B].
    split; [split; [exact Hb1|]|].
    + intros doc' Hn'. rewrite N1 in Hn'. injection Hn' as <-. exact A.
    + rewrite <- Ht1. exact B.
Qed.

(* one notification *)
Theorem blank_notification doc0 d0 cs :
  CleanDoc doc0 -> pnew (p_text doc0) = Done doc0 -> new_doc (p_text doc0) = Done d0 -> blank_hist doc0 cs ->
  exists doc1 d1, update_doc d0 cs = Done d1 /\ new_doc (final_text (p_text doc0) cs) = Done d1 /\
                  pnew (final_text (p_text doc0) cs) = Done doc1 /\ CleanDoc doc1.
Proof.
  intros Hc Hn Hd Hb. destruct cs as [|c r].
  - exists doc0, d0. cbn [final_text]. rewrite update_doc_nil. auto.
  - destruct (blank_history (c :: r) doc0 Hc Hn Hb) as (doc1 & E & N & T & C1).
    destruct (new_doc_strip _ _ Hd) as (p & Hn' & Ht & Hs). rewrite Hn in Hn'. injection Hn' as Hdoc.
    assert (Hk : p_toks (pdoc_of d0) = p_toks doc0) by (rewrite Hdoc; reflexivity).
    assert (Hs' : strip_program (p_tree (pdoc_of d0)) = p_tree doc0) by (rewrite Hdoc; exact Hs).
    destruct Hb as [Hb1 Hb2].
    assert (Hps : psteps (pdoc_of d0) (c :: r) = Done doc1).
    { cbn [psteps]. rewrite (pstep_old_irrelevant _ doc0 c Hk Hc Hs' Hb1). cbn [phist] in E.
      destruct (pstep doc0 (c_a c) (c_d c) (c_b c) (c_ins c)) as [pd1| |]; try discriminate. rewrite psteps_phist. exact E. }
    assert (Ha0 : analyse_pdoc doc0 = Done d0) by (rewrite new_doc_eq, Hn in Hd; exact Hd).
    destruct (analyse_same_tree doc0 doc1 d0 T Ha0) as (d1 & Ha1).
    exists doc1, d1. split; [rewrite update_doc_eq by discriminate; rewrite Hps; exact Ha1|].
    split; [rewrite new_doc_eq, N; exact Ha1|]. split; [exact N | exact C1].
Qed.

(* C01 on documents, for histories of notifications made of blank edits *)
Theorem blank_notifications : forall h doc0 d0,
  CleanDoc doc0 -> pnew (p_text doc0) = Done doc0 -> new_doc (p_text doc0) = Done d0 -> blank_hist doc0 (concat h) ->
  exists d', update_hist d0 h = Done d' /\ new_doc (final_text (p_text doc0) (concat h)) = Done d'.
Proof.
  induction h as [|cs r IH]; intros doc0 d0 Hc Hn Hd Hb.
  - exists d0. cbn [update_hist concat final_text]. auto.
  - cbn [concat] in Hb. destruct (blank_hist_app cs (concat r) doc0 Hc Hn Hb) as [Hb1 Hb2].
    destruct (blank_notification doc0 d0 cs Hc Hn Hd Hb1) as (doc1 & d1 & U & N & P1 & C1).
    assert (Ht1 : p_text doc1 = final_text (p_text doc0) cs).
    { unfold pnew in P1. destruct (lex _); [|discriminate]. destruct (parse _); try discriminate. injection P1 as <-. reflexivity. }
    rewrite <- Ht1 in P1, N. destruct (IH doc1 d1 C1 P1 N (Hb2 doc1 ltac:(rewrite <- Ht1; exact P1))) as (d' & U' & N').
    exists d'. cbn [update_hist concat]. rewrite U. rewrite final_text_app, <- Ht1. auto.
Qed.

Theorem blank_notifications_fresh t h d0 :
  clean_textb t = true -> blank_histb t (concat h) = true -> new_doc t = Done d0 ->
  exists d', update_hist d0 h = Done d' /\ new_doc (final_text t (concat h)) = Done d'.
Proof.
  intros Hc Hb Hd. destruct (clean_textb_spec t Hc) as (doc0 & Hn & Hcd & Ht). subst t.
  pose proof Hcd as (Hl & _).
  exact (blank_notifications h doc0 d0 Hcd Hn Hd (blank_histb_spec _ doc0 Hl Hb)).
Qed.
