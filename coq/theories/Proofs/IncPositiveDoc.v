(* C01, positive part on whole documents.  table::build and table::analyze only APPEND build / semantic
   messages to AstInfos: the analysed tree and the parse tree have the same remove_messages image
   ([new_doc_strip]).  Hence AnalyzedSource::update, which starts from the analysed tree, is covered by
   `inc_empty_change`: after any history of notifications made of blank edits of a clean text the
   updated document IS the freshly analysed one ([blank_notifications_fresh]). *)
From Coq Require Import List Arith Lia.
From Spl Require Import Model.UpdateDoc Proofs.UpdateProofs Proofs.UpdateDocProofsStrip Proofs.UpdateDocProofs
  Proofs.IncPositiveList Proofs.IncPositiveProg Proofs.IncPositive.
Import ListNotations.
Local Open Scope nat_scope.

(* ---- appended messages disappear under remove_messages ---- *)
Lemma strip_info_append i x : keep_err x = false -> strip_info (info_append i x) = strip_info i.
Proof.
  intros H. unfold strip_info, info_append. cbn [i_s i_e i_errs]. rewrite filter_app. cbn [filter]. rewrite H, app_nil_r. reflexivity.
Qed.

Definition NP (m : text -> emsg) : Prop := forall n, keep_err {| e_s := 0; e_e := 0; e_m := m n |} = false.

Lemma ident_flag_strip i m i' : NP m -> ident_flag i m = ROk i' -> strip_ident i' = strip_ident i.
Proof.
  unfold ident_flag, to_error. intros Hm H. destruct (Nat.eqb (i_e (id_info i)) 0); cbn [rbind] in H; [discriminate|].
  injection H as <-. unfold strip_ident, ident_append. cbn [id_val id_info]. f_equal. apply strip_info_append. exact (Hm (id_val i)).
Qed.

Lemma strip_var_append v x : keep_err x = false -> strip_var (var_append v x) = strip_var v.
Proof.
  intros H. destruct v as [i|a idx inf]; cbn [var_append strip_var].
  - unfold strip_ident, ident_append. cbn [id_val id_info]. rewrite (strip_info_append _ _ H). reflexivity.
  - rewrite (strip_info_append _ _ H). reflexivity.
Qed.

Lemma strip_expr_append e x : keep_err x = false -> strip_expr (expr_append e x) = strip_expr e.
Proof.
  intros H. destruct e; cbn [expr_append strip_expr]; rewrite ?(strip_info_append _ _ H); try reflexivity.
  - unfold strip_intlit. cbn [il_val il_info]. rewrite (strip_info_append _ _ H). reflexivity.
  - rewrite (strip_var_append _ _ H). reflexivity.
Qed.

(* break a `do x <- e; k` that returned ROk *)
Ltac rb H :=
  repeat (cbv beta in H;
    match type of H with
    | rbind ?x _ = ROk _ => let E := fresh "E" in destruct x as [?|?] eqn:E; cbn [rbind] in H; [|discriminate H]
    | (let (_, _) := ?x in _) = ROk _ => destruct x
    end).

(* ---- table::analyze ---- *)
Section An.
Variable L : option ltable.
Variable G : option gtable.

Lemma an_var_expr_strip :
  (forall v v' t, an_var L G v = ROk (v', t) -> strip_var v' = strip_var v) /\
  (forall e e' t, an_expr L G e = ROk (e', t) -> strip_expr e' = strip_expr e).
Proof.
  apply var_expr_induction.
  - intros i v' t H. cbn [an_var] in H. destruct (lt_lookup L G (id_val i)) as [[te|pe|ve|ve]|]; rb H; try (injection H as <- <-; try reflexivity).
    + cbn [strip_var]. f_equal. eapply ident_flag_strip; [|eassumption]. intros n; reflexivity.
    + cbn [strip_var]. f_equal. eapply ident_flag_strip; [|eassumption]. intros n; reflexivity.
    + cbn [strip_var]. f_equal. eapply ident_flag_strip; [|eassumption]. intros n; reflexivity.
  - intros a idx inf IHa IHi v' t H. cbn [an_var] in H. rb H.
    assert (Hidx : match idx with Some (e, o) => Some (strip_expr e, o) | None => None end =
                   match a0 with Some (e, o) => Some (strip_expr e, o) | None => None end).
    { destruct idx as [[e off]|]; rb E; [|injection E as <-; reflexivity]. injection E as <-. cbn [po_opt fst] in IHi.
      specialize (IHi _ _ E1). destruct o as [[| |]|]; rewrite ?strip_expr_append by reflexivity; rewrite IHi; reflexivity. }
    specialize (IHa _ _ E0).
    destruct o as [[| |sz base cr]|]; injection H as <- <-; cbn [strip_var]; rewrite ?strip_info_append by reflexivity;
      rewrite IHa, Hidx; reflexivity.
  - intros op l r inf IHl IHr e' t H. cbn [an_expr] in H. rb H. injection H as <- <-. cbn [strip_expr].
    rewrite (IHl _ _ E), (IHr _ _ E0). f_equal.
    destruct o as [a|]; [|reflexivity]. destruct o0 as [b|]; [|reflexivity].
    destruct (is_int a && is_int b); [reflexivity|]. destruct (is_int a || is_int b); [apply strip_info_append; reflexivity|].
    destruct (is_arithmetic op); apply strip_info_append; reflexivity.
  - intros a inf IHa e' t H. cbn [an_expr] in H. rb H. injection H as <- <-. cbn [strip_expr]. rewrite (IHa _ _ E). reflexivity.
  - intros i e' t H. cbn [an_expr] in H. injection H as <- <-. reflexivity.
  - intros op a inf IHa e' t H. cbn [an_expr] in H. rb H. injection H as <- <-. cbn [strip_expr]. rewrite (IHa _ _ E). f_equal.
    destruct o as [ty|]; [|reflexivity]. destruct (is_int ty); [reflexivity | apply strip_info_append; reflexivity].
  - intros v IHv e' t H. cbn [an_expr] in H. rb H. injection H as <- <-. cbn [strip_expr]. rewrite (IHv _ _ E). reflexivity.
  - intros inf e' t H. cbn [an_expr] in H. injection H as <- <-. reflexivity.
Qed.

Lemma an_cond_strip c m c' : an_cond L G c m = ROk c' -> strip_oref strip_expr c' = strip_oref strip_expr c.
Proof.
  unfold an_cond. destruct c as [[e off]|]; intros H; rb H; injection H as <-; [|reflexivity].
  cbn [strip_oref]. pose proof (proj2 an_var_expr_strip _ _ _ E) as X.
  destruct o as [[| |]|]; rewrite ?strip_expr_append by reflexivity; rewrite X; reflexivity.
Qed.

Lemma an_args_strip cname : forall args i params args',
  an_args L G cname i args params = ROk args' ->
  map (fun a => (strip_expr (fst a), snd a)) args' = map (fun a => (strip_expr (fst a), snd a)) args.
Proof.
  induction args as [|[a off] ar IH]; intros i params args' H; cbn [an_args] in H; [injection H as <-; reflexivity|].
  destruct params as [|p pr]; [injection H as <-; reflexivity|]. rb H. injection H as <-. cbn [map fst snd].
  rewrite (IH _ _ _ E0). f_equal. f_equal.
  pose proof (proj2 an_var_expr_strip _ _ _ E) as X.
  assert (Y : strip_expr e = strip_expr a).
  { rewrite X. destruct (ve_ref p && negb match a with EVar _ => true | _ => false end); [apply strip_expr_append; reflexivity | reflexivity]. }
  destruct o as [t1|]; [|exact Y]. destruct (ve_ty p) as [t2|]; [|exact Y].
  destruct (dt_eqb t1 t2); [exact Y | rewrite strip_expr_append by reflexivity; exact Y].
Qed.

Lemma an_stmt_strip : forall s s', an_stmt L G s = ROk s' -> strip_stmt s' = strip_stmt s.
Proof.
  apply (stmt_induction (fun s => forall s', an_stmt L G s = ROk s' -> strip_stmt s' = strip_stmt s)).
  - intros inf s' H. cbn [an_stmt] in H. injection H as <-. reflexivity.
  - intros v e inf s' H. cbn [an_stmt] in H. destruct e as [[e off]|]; [|injection H as <-; reflexivity]. rb H. injection H as <-.
    cbn [strip_stmt strip_oref]. rewrite (proj1 an_var_expr_strip _ _ _ E), (proj2 an_var_expr_strip _ _ _ E0). f_equal.
    destruct o as [l|]; [|reflexivity]. destruct o0 as [r|]; [|reflexivity].
    destruct (negb (dt_eqb l r)); [apply strip_info_append; reflexivity|].
    destruct (negb (is_int l)); [apply strip_info_append; reflexivity | reflexivity].
  - intros n args inf s' H. cbn [an_stmt] in H. destruct (lt_lookup L G (id_val n)) as [[te|pe|ve|ve]|]; rb H; injection H as <-;
      cbn [strip_stmt]; rewrite ?strip_info_append by reflexivity; try reflexivity.
    rewrite (an_args_strip _ _ _ _ _ E). f_equal.
    destruct (Nat.compare (length args) (length (pe_params pe))); [reflexivity | apply strip_info_append; reflexivity | apply strip_info_append; reflexivity].
  - intros c t e inf IHt IHe s' H. cbn [an_stmt] in H. rb H. injection H as <-. cbn [strip_stmt].
    rewrite (an_cond_strip _ _ _ E). f_equal.
    + destruct t as [[x off]|]; rb E0; injection E0 as <-; [|reflexivity]. cbn [po_opt fst] in IHt. rewrite (IHt _ E2). reflexivity.
    + destruct e as [[x off]|]; rb E1; injection E1 as <-; [|reflexivity]. cbn [po_opt fst] in IHe. rewrite (IHe _ E2). reflexivity.
  - intros c b inf IHb s' H. cbn [an_stmt] in H. rb H. injection H as <-. cbn [strip_stmt].
    rewrite (an_cond_strip _ _ _ E). f_equal.
    destruct b as [[x off]|]; rb E0; injection E0 as <-; [|reflexivity]. cbn [po_opt fst] in IHb. rewrite (IHb _ E1). reflexivity.
  - intros body inf IHb s' H. cbn [an_stmt] in H. rb H. injection H as <-. rewrite !strip_stmt_block. f_equal.
    clear - E IHb. revert a E. induction body as [|[x off] r IH]; intros l' E; [injection E as <-; reflexivity|].
    rb E. injection E as <-. cbn [all fst] in IHb. destruct IHb as [I1 I2]. cbn [map fst snd]. rewrite (I1 _ E0), (IH I2 _ E1). reflexivity.
  - intros inf s' H. cbn [an_stmt] in H. injection H as <-. reflexivity.
Qed.

Lemma an_stmts_strip : forall l l', an_stmts L G l = ROk l' ->
  map (fun a => (strip_stmt (fst a), snd a)) l' = map (fun a => (strip_stmt (fst a), snd a)) l.
Proof.
  induction l as [|[x off] r IH]; intros l' H; cbn [an_stmts] in H; [injection H as <-; reflexivity|].
  rb H. injection H as <-. cbn [map fst snd]. rewrite (an_stmt_strip _ _ E), (IH _ E0). reflexivity.
Qed.

End An.

Lemma analyze_gdecl_strip T d d' : analyze_gdecl T d = ROk d' -> strip_gdecl (fst d') = strip_gdecl (fst d) /\ snd d' = snd d.
Proof.
  unfold analyze_gdecl. destruct d as [g off]. destruct g as [td|pd|inf]; try (intros H; injection H as <-; auto).
  destruct (pd_name pd) as [name|]; [|intros H; injection H as <-; auto].
  destruct (lookup T (id_val name)) as [[te|pe]|]; [intros H; injection H as <-; auto | | discriminate].
  destruct (negb _); [intros H; injection H as <-; auto|]. intros H. rb H. injection H as <-. cbn [fst snd strip_gdecl]. split; [|reflexivity].
  f_equal. unfold strip_procdecl. cbn [pd_doc pd_name pd_params pd_vars pd_stmts pd_info]. rewrite (an_stmts_strip _ _ _ _ E). reflexivity.
Qed.

Lemma analyze_res_strip p T p' : analyze_res p T = ROk p' -> strip_program p' = strip_program p.
Proof.
  unfold analyze_res. intros H. rb H. injection H as <-. unfold strip_program. cbn [pg_decls pg_info]. f_equal.
  revert a E. induction (pg_decls p) as [|d r IH]; intros l' E; cbn [analyze_gdecls] in E; [injection E as <-; reflexivity|].
  rb E. injection E as <-. cbn [map]. destruct (analyze_gdecl_strip _ _ _ E0) as [A B]. rewrite A, B, (IH _ E1). reflexivity.
Qed.

(* ---- table::build ---- *)
Lemma get_data_type_te_strip l g c : forall t t' dt, get_data_type_te l g c t = ROk (t', dt) -> strip_texpr t' = strip_texpr t.
Proof.
  apply (texpr_induction (fun t => forall t' dt, get_data_type_te l g c t = ROk (t', dt) -> strip_texpr t' = strip_texpr t)).
  - intros i t' dt H. cbn [get_data_type_te] in H. destruct (lt_lookup l g (id_val i)) as [[te|pe|ve|ve]|]; rb H; injection H as <- <-;
      try reflexivity; cbn [strip_texpr]; f_equal; (eapply ident_flag_strip; [|eassumption]; intros n; reflexivity).
  - intros size base inf IH t' dt H. cbn [get_data_type_te] in H. destruct base as [[b off]|]; rb H; injection H as <- <-; [|reflexivity].
    cbn [po_opt fst] in IH. cbn [strip_texpr]. rewrite (IH _ _ E). reflexivity.
Qed.

Lemma get_data_type_strip l g c t t' dt : get_data_type l g c t = ROk (t', dt) -> strip_oref strip_texpr t' = strip_oref strip_texpr t.
Proof.
  unfold get_data_type. destruct t as [[te off]|]; intros H; rb H; injection H as <- <-; [|reflexivity].
  cbn [strip_oref]. rewrite (get_data_type_te_strip _ _ _ _ _ _ E). reflexivity.
Qed.

Lemma build_typedecl_strip d T o d' T' : build_typedecl d T o = ROk (d', T') -> strip_typedecl d' = strip_typedecl d.
Proof.
  unfold build_typedecl. destruct (td_name d) as [name|] eqn:En; [|intros H; injection H as <- <-; reflexivity].
  destruct (text_eqb (id_val name) s_main).
  - intros H. rb H. injection H as <- <-. unfold strip_typedecl. cbn [td_doc td_name td_ty td_info]. rewrite En. cbn [option_map].
    rewrite (ident_flag_strip _ _ _ ltac:(intros n; reflexivity) E). reflexivity.
  - intros H. rb H. destruct (enter T (id_val name) _) as [T1 ok]. rb H. injection H as <- <-.
    unfold strip_typedecl. cbn [td_doc td_name td_ty td_info]. rewrite En. cbn [option_map].
    rewrite (get_data_type_strip _ _ _ _ _ _ E). f_equal. f_equal.
    destruct ok; [injection E0 as <-; reflexivity | exact (ident_flag_strip _ _ _ ltac:(intros n; reflexivity) E0)].
Qed.

Lemma build_parameter_strip p name g l p' l' oe :
  build_parameter p name g l = ROk (p', l', oe) -> strip_paramdecl (fst p') = strip_paramdecl (fst p) /\ snd p' = snd p.
Proof.
  unfold build_parameter. destruct p as [pd off]. destruct pd as [doc r [n|] ty inf|inf]; try (intros H; injection H as <- <- <-; auto).
  intros H. rb H. destruct (enter l (id_val n) _) as [l1 ok]. rb H. injection H as <- <- <-. cbn [fst snd strip_paramdecl option_map].
  split; [|reflexivity]. rewrite (get_data_type_strip _ _ _ _ _ _ E). f_equal. f_equal.
  assert (X : strip_ident a0 = strip_ident n).
  { destruct o as [d|]; [|injection E0 as <-; reflexivity].
    destruct (negb (is_primitive d) && negb r); [exact (ident_flag_strip _ _ _ ltac:(intros k; reflexivity) E0) | injection E0 as <-; reflexivity]. }
  destruct ok; [injection E1 as <-; exact X | rewrite (ident_flag_strip _ _ _ ltac:(intros k; reflexivity) E1); exact X].
Qed.

Lemma build_parameters_strip name g : forall ps l ps' l' es,
  build_parameters ps name g l = ROk (ps', l', es) ->
  map (fun a => (strip_paramdecl (fst a), snd a)) ps' = map (fun a => (strip_paramdecl (fst a), snd a)) ps.
Proof.
  induction ps as [|p r IH]; intros l ps' l' es H; cbn [build_parameters] in H; [injection H as <- <- <-; reflexivity|].
  rb H. injection H as <- <- <-. cbn [map]. destruct (build_parameter_strip _ _ _ _ _ _ _ E) as [A B]. rewrite A, B, (IH _ _ _ _ E0). reflexivity.
Qed.

Lemma build_variable_strip v name g l v' l' :
  build_variable v name g l = ROk (v', l') -> strip_vardecl (fst v') = strip_vardecl (fst v) /\ snd v' = snd v.
Proof.
  unfold build_variable. destruct v as [vd off]. destruct vd as [doc [n|] ty inf|inf]; try (intros H; injection H as <- <-; auto).
  intros H. rb H. destruct (enter l (id_val n) _) as [l1 ok]. rb H. injection H as <- <-. cbn [fst snd strip_vardecl option_map].
  split; [|reflexivity]. rewrite (get_data_type_strip _ _ _ _ _ _ E). f_equal. f_equal.
  destruct ok; [injection E0 as <-; reflexivity | exact (ident_flag_strip _ _ _ ltac:(intros k; reflexivity) E0)].
Qed.

Lemma build_variables_strip name g : forall vs l vs' l',
  build_variables vs name g l = ROk (vs', l') ->
  map (fun a => (strip_vardecl (fst a), snd a)) vs' = map (fun a => (strip_vardecl (fst a), snd a)) vs.
Proof.
  induction vs as [|v r IH]; intros l vs' l' H; cbn [build_variables] in H; [injection H as <- <-; reflexivity|].
  rb H. injection H as <- <-. cbn [map]. destruct (build_variable_strip _ _ _ _ _ _ E) as [A B]. rewrite A, B, (IH _ _ _ E0). reflexivity.
Qed.

Lemma build_procdecl_strip d T o d' T' : build_procdecl d T o = ROk (d', T') -> strip_procdecl d' = strip_procdecl d.
Proof.
  unfold build_procdecl. destruct (pd_name d) as [name|] eqn:En; [|intros H; injection H as <- <-; reflexivity].
  intros H. rb H. destruct (enter T (id_val name) _) as [T1 ok]. rb H. injection H as <- <-.
  unfold strip_procdecl. cbn [pd_doc pd_name pd_params pd_vars pd_stmts pd_info]. rewrite En. cbn [option_map].
  rewrite (build_parameters_strip _ _ _ _ _ _ _ E), (build_variables_strip _ _ _ _ _ _ E0). f_equal. f_equal.
  destruct ok; [injection E1 as <-; reflexivity | exact (ident_flag_strip _ _ _ ltac:(intros k; reflexivity) E1)].
Qed.

Lemma build_gdecls_strip : forall ds T o ds' T', build_gdecls ds T o = ROk (ds', T') ->
  map (fun a => (strip_gdecl (fst a), snd a)) ds' = map (fun a => (strip_gdecl (fst a), snd a)) ds.
Proof.
  induction ds as [|[d off] r IH]; intros T o ds' T' H; cbn [build_gdecls] in H; [injection H as <- <-; reflexivity|].
  rb H. injection H as <- <-. cbn [map fst snd]. rewrite (IH _ _ _ _ E0). f_equal. f_equal.
  unfold build_gdecl in E. destruct d as [td|pd|inf]; rb E; injection E as <- <-; cbn [strip_gdecl]; try reflexivity; f_equal.
  - eapply build_typedecl_strip; eassumption.
  - eapply build_procdecl_strip; eassumption.
Qed.

Lemma build_res_strip p p1 T : build_res p = ROk (p1, T) -> strip_program p1 = strip_program p.
Proof.
  unfold build_res, build_program. intros H. rb H. pose proof (build_gdecls_strip _ _ _ _ _ E) as X.
  destruct (lookup g s_main) as [[te|main]|].
  - discriminate H.
  - destruct (pe_params main); rb H; injection H as <- <-; unfold strip_program; cbn [pg_decls pg_info]; rewrite X;
      rewrite ?strip_info_append by reflexivity; reflexivity.
  - injection H as <- <-. unfold strip_program. cbn [pg_decls pg_info]. rewrite X, strip_info_append by reflexivity. reflexivity.
Qed.

(* the analysed tree of a freshly opened document is its parse tree up to build / semantic messages *)
Theorem new_doc_strip t d0 :
  new_doc t = Done d0 ->
  exists p, pnew t = Done {| p_text := t; p_toks := d_toks d0; p_tree := p |} /\ d_text d0 = t /\ strip_program (d_ast d0) = p.
Proof.
  rewrite new_doc_eq. unfold obind. destruct (pnew t) as [pd| |] eqn:En; try discriminate. unfold analyse_pdoc.
  destruct (build_res (p_tree pd)) as [[p1 T]|] eqn:Eb; [|discriminate].
  destruct (analyze_res p1 T) as [p2|] eqn:Ea; [|discriminate]. intros H. injection H as <-. cbn [d_toks d_text d_ast].
  destruct (pnew_inv _ _ En) as [Ht _]. exists (p_tree pd). split; [rewrite <- Ht; destruct pd; reflexivity|]. split; [exact Ht|].
  rewrite (analyze_res_strip _ _ _ Ea), (build_res_strip _ _ _ Eb). apply strip_program_id.
  unfold pnew in En. destruct (lex t); [|discriminate]. destruct (parse l) as [p| |] eqn:Ep; try discriminate. injection En as <-.
  exact (parse_parse_only _ _ Ep).
Qed.
