(* C09 for comments ANYWHERE, part 3: the program the formatted text is a layout of.

   [kept p] is p with its comment slots rearranged the way the printers treat them:
     - every slot inside an expression, a variable, a type expression is emptied (never printed);
     - an assignment, a call, a parameter, a variable declaration carries ALL comments of its token range, in order, in
       front of its first token (add_all_comments) and none inside;
     - if / while keep the comments in front of the keyword and lose the ones in the header and in front of `else`;
       a block keeps the comments in front of `{` - unless it is the branch of an if / while - and loses the ones in front
       of `}`; declarations keep their doc comments only; the comments in front of EOF are lost.
   Here: its token kinds.  [sub ks' ks]: the same non-comment kinds in the same order, and the comments of ks' are an
   order-preserving sublist of the comments of ks (hoisting moves comments across code, never across each other) -
   this relates the flattened [kept p] to the flattened p, so validity carries over. *)
From Coq Require Import String Lia PeanoNat.
From Spl Require Import Model.Format Model.Lexer Spec.Grammar Proofs.RenderProofs Proofs.FormatProofs
  Proofs.FormatStructText Proofs.FormatStructTok Proofs.FormatStructExpr Proofs.FormatStructStmt Proofs.FormatStructProg
  Proofs.FormatAnyPP.
From Spl Require Proofs.GrammarExpr Proofs.GrammarStmt.
Import ListNotations.
Local Open Scope nat_scope.

(* ================================================================================================
   1. code / cmts: normal forms
   ================================================================================================ *)
Lemma nc_lit l : is_comment (k_lit l) = false.
Proof. destruct l; reflexivity. Qed.
Lemma nc_mul op : is_comment (k_mul op) = false.
Proof. destruct op; reflexivity. Qed.
Lemma nc_add op : is_comment (k_add op) = false.
Proof. destruct op; reflexivity. Qed.
Lemma nc_cmp op : is_comment (k_cmp op) = false.
Proof. destruct op; reflexivity. Qed.

Ltac nc := first [reflexivity | apply nc_lit | apply nc_mul | apply nc_add | apply nc_cmp].

Lemma code_nil : code [] = [].
Proof. reflexivity. Qed.
Lemma cmts_nil : cmts [] = [].
Proof. reflexivity. Qed.
Lemma cm_nil : cm [] = [].
Proof. reflexivity. Qed.

Lemma code_idem ks : code (code ks) = code ks.
Proof.
  unfold code. induction ks as [|k ks IH]; [reflexivity|]. cbn [filter]. destruct (negb (is_comment k)) eqn:E; [|exact IH].
  cbn [filter]. rewrite E, IH. reflexivity.
Qed.

Lemma cmts_code ks : cmts (code ks) = [].
Proof.
  unfold code, cmts. induction ks as [|k ks IH]; [reflexivity|]. cbn [filter]. destruct k; cbn [is_comment negb flat_map app]; exact IH.
Qed.

Ltac code_norm :=
  repeat first [ rewrite code_app | rewrite code_cm | rewrite code_nil | rewrite code_idem | rewrite code_cons by nc ];
  rewrite ?app_nil_r; cbn [app].
Ltac cmts_norm :=
  repeat first [ rewrite cmts_app | rewrite cmts_cm | rewrite cmts_nil | rewrite cmts_code | rewrite cmts_cons by nc ];
  rewrite ?app_nil_r; cbn [app].

(* the comments in front, then the code: what a hoisting construct is turned into *)
Definition hoisted (ks : list kind) : list kind := cm (cmts ks) ++ code ks.

Lemma code_hoisted ks : code (hoisted ks) = code ks.
Proof. unfold hoisted. code_norm. reflexivity. Qed.
Lemma cmts_hoisted ks : cmts (hoisted ks) = cmts ks.
Proof. unfold hoisted. cmts_norm. reflexivity. Qed.

(* ================================================================================================
   2. [sub]
   ================================================================================================ *)
(* order-preserving sublists *)
Inductive subseq {A : Type} : list A -> list A -> Prop :=
| ss_nil : subseq [] []
| ss_keep x l' l : subseq l' l -> subseq (x :: l') (x :: l)
| ss_skip x l' l : subseq l' l -> subseq l' (x :: l).

Lemma subseq_refl {A} (l : list A) : subseq l l.
Proof. induction l as [|x l IH]; [constructor | apply ss_keep; exact IH]. Qed.

Lemma subseq_nil_l {A} (l : list A) : subseq [] l.
Proof. induction l as [|x l IH]; [constructor | apply ss_skip; exact IH]. Qed.

Lemma subseq_appr {A} (c a b : list A) : subseq a b -> subseq a (c ++ b).
Proof. intros H. induction c as [|x c IH]; [exact H | apply ss_skip; exact IH]. Qed.

Lemma subseq_app {A} (a a' b b' : list A) : subseq a a' -> subseq b b' -> subseq (a ++ b) (a' ++ b').
Proof. intros H1 H2. induction H1 as [|x l' l _ IH|x l' l _ IH]; cbn [app]; [exact H2 | apply ss_keep; exact IH | apply ss_skip; exact IH]. Qed.

Lemma subseq_incl {A} (a b : list A) : subseq a b -> incl a b.
Proof.
  induction 1 as [|x l' l _ IH|x l' l _ IH]; intros y Hy; [exact Hy | | right; apply IH; exact Hy].
  destruct Hy as [->|Hy]; [left; reflexivity | right; apply IH; exact Hy].
Qed.

Lemma subseq_map {A B} (g : A -> B) (a b : list A) : subseq a b -> subseq (map g a) (map g b).
Proof. induction 1; cbn [map]; constructor; assumption. Qed.

Lemma subseq_length {A} (a b : list A) : subseq a b -> length a <= length b.
Proof. induction 1; cbn [length]; lia. Qed.

(* a sublist of full length is the list *)
Lemma subseq_full {A} (a b : list A) : subseq a b -> length a = length b -> a = b.
Proof.
  induction 1 as [|x l' l H IH|x l' l H IH]; cbn [length]; intros E; [reflexivity | f_equal; apply IH; lia|].
  pose proof (subseq_length _ _ H). lia.
Qed.

Lemma subseq_count {A} (dec : forall x y : A, {x = y} + {x <> y}) (a b : list A) c :
  subseq a b -> count_occ dec a c <= count_occ dec b c.
Proof. induction 1 as [|x l' l _ IH|x l' l _ IH]; cbn [count_occ]; [lia | destruct (dec x c); lia | destruct (dec x c); lia]. Qed.

Definition sub (ks' ks : list kind) : Prop := code ks' = code ks /\ subseq (cmts ks') (cmts ks).

Lemma sub_refl ks : sub ks ks.
Proof. split; [reflexivity | apply subseq_refl]. Qed.

Lemma sub_app a a' b b' : sub a a' -> sub b b' -> sub (a ++ b) (a' ++ b').
Proof.
  intros [C1 I1] [C2 I2]. split.
  - rewrite !code_app, C1, C2. reflexivity.
  - rewrite !cmts_app. apply subseq_app; assumption.
Qed.

Lemma sub_cons k a a' : sub a a' -> sub (k :: a) (k :: a').
Proof. apply (sub_app [k] [k]). apply sub_refl. Qed.

Lemma sub_skip c a a' : sub a a' -> sub a (cm c ++ a').
Proof.
  intros [C I]. split.
  - rewrite code_app, code_cm. exact C.
  - rewrite cmts_app. apply subseq_appr. exact I.
Qed.

Lemma sub_code ks : sub (code ks) ks.
Proof. split; [apply code_idem | rewrite cmts_code; apply subseq_nil_l]. Qed.

Lemma sub_hoisted ks : sub (hoisted ks) ks.
Proof. split; [apply code_hoisted | rewrite cmts_hoisted; apply subseq_refl]. Qed.

Lemma sub_eq a b c : a = b -> sub b c -> sub a c.
Proof. intros ->. exact (fun H => H). Qed.

Lemma in_cmts s ks : In s (cmts ks) <-> In (Comment s) ks.
Proof.
  unfold cmts. rewrite in_flat_map. split.
  - intros (k & Hk & Hs). destruct k; try (destruct Hs; fail). destruct Hs as [<-|[]]. exact Hk.
  - intros H. exists (Comment s). split; [exact H | left; reflexivity].
Qed.

Lemma sub_valid ks' ks : sub ks' ks -> forallb valid_kind ks = true -> forallb valid_kind ks' = true.
Proof.
  intros [C I0] Hv. pose proof (subseq_incl _ _ I0) as I. rewrite forallb_forall in *. intros k Hk.
  destruct (is_comment k) eqn:Ek.
  - destruct k; try discriminate Ek. apply Hv. apply in_cmts. apply I. apply in_cmts. exact Hk.
  - apply Hv. assert (Hc : In k (code ks')) by (unfold code; apply filter_In; split; [exact Hk | rewrite Ek; reflexivity]).
    rewrite C in Hc. unfold code in Hc. apply filter_In in Hc. exact (proj1 Hc).
Qed.

(* a valid list without its comments: every kind is nice *)
Lemma nice_code ks : forallb valid_kind ks = true -> forallb nice (code ks) = true.
Proof.
  intros Hv. rewrite forallb_forall in *. intros k Hk. unfold code in Hk. apply filter_In in Hk. destruct Hk as [Hk Hc].
  unfold nice. rewrite (Hv k Hk), Hc. reflexivity.
Qed.

Lemma nice_of_valid k : valid_kind k = true -> is_comment k = false -> nice k = true.
Proof. intros H1 H2. unfold nice. rewrite H1, H2. reflexivity. Qed.

Lemma nice_cons_i k r : nice k = true -> forallb nice r = true -> forallb nice (k :: r) = true.
Proof. intros H1 H2. cbn [forallb]. rewrite H1, H2. reflexivity. Qed.
Lemma nice_app_i a b : forallb nice a = true -> forallb nice b = true -> forallb nice (a ++ b) = true.
Proof. intros H1 H2. rewrite forallb_app, H1, H2. reflexivity. Qed.

(* goals [forallb nice (piece of a kept construct) = true] *)
Ltac nice_tac :=
  repeat first [ reflexivity
               | apply nice_code; assumption
               | apply nice_cons_i; [first [reflexivity | apply nice_of_valid; [assumption | reflexivity]] |]
               | apply nice_app_i ].

(* ================================================================================================
   3. Expressions, variables, type expressions without comments
   ================================================================================================ *)
Fixpoint s_var (v : avar) : avar :=
  match v with
  | AName _ x => AName [] x
  | AIndex v' _ e _ => AIndex (s_var v') [] (s_cmp e) []
  end
with s_fac (f : afac) : afac :=
  match f with
  | FLit _ l => FLit [] l
  | FVar v => FVar (s_var v)
  | FNeg _ f' => FNeg [] (s_fac f')
  | FPar _ e _ => FPar [] (s_cmp e) []
  end
with s_mul (m : amul) : amul :=
  match m with MFac f => MFac (s_fac f) | MBin m' _ op f => MBin (s_mul m') [] op (s_fac f) end
with s_add (a : aadd) : aadd :=
  match a with AMul m => AMul (s_mul m) | ABin a' _ op m => ABin (s_add a') [] op (s_mul m) end
with s_cmp (e : acmp) : acmp :=
  match e with CAdd a => CAdd (s_add a) | CBin l _ op r => CBin (s_add l) [] op (s_add r) end.

Fixpoint s_type (t : atype) : atype :=
  match t with
  | TName _ x => TName [] x
  | TArr _ _ _ size _ _ base => TArr [] [] [] size [] [] (s_type base)
  end.

Lemma fl_s_expr :
  (forall v, fl_var (s_var v) = code (fl_var v)) /\ (forall f, fl_fac (s_fac f) = code (fl_fac f)) /\
  (forall m, fl_mul (s_mul m) = code (fl_mul m)) /\ (forall a, fl_add (s_add a) = code (fl_add a)) /\
  (forall e, fl_cmp (s_cmp e) = code (fl_cmp e)).
Proof.
  apply GrammarExpr.aexpr_mutind; intros;
    cbn [s_var s_fac s_mul s_add s_cmp fl_var fl_fac fl_mul fl_add fl_cmp]; rewrite ?cm_nil; cbn [app]; code_norm;
    repeat match goal with H : _ = code _ |- _ => rewrite H; clear H end; reflexivity.
Qed.

Lemma fl_s_var v : fl_var (s_var v) = code (fl_var v).
Proof. apply fl_s_expr. Qed.
Lemma fl_s_cmp e : fl_cmp (s_cmp e) = code (fl_cmp e).
Proof. apply fl_s_expr. Qed.

Lemma fl_s_type t : fl_type (s_type t) = code (fl_type t).
Proof.
  induction t as [c x|ca cl cz size cr co base IH]; cbn [s_type fl_type]; rewrite ?cm_nil; cbn [app]; code_norm; rewrite ?IH; reflexivity.
Qed.

Lemma pp_s_expr :
  (forall v, pp_var (s_var v) = pp_var v) /\ (forall f, pp_fac (s_fac f) = pp_fac f) /\
  (forall m, pp_mul (s_mul m) = pp_mul m) /\ (forall a, pp_add (s_add a) = pp_add a) /\
  (forall e, pp_cmp (s_cmp e) = pp_cmp e).
Proof.
  apply GrammarExpr.aexpr_mutind; intros; cbn [s_var s_fac s_mul s_add s_cmp pp_var pp_fac pp_mul pp_add pp_cmp];
    repeat match goal with H : _ = _ |- _ => rewrite H; clear H end; reflexivity.
Qed.

Lemma pp_s_var v : pp_var (s_var v) = pp_var v.
Proof. apply pp_s_expr. Qed.
Lemma pp_s_cmp e : pp_cmp (s_cmp e) = pp_cmp e.
Proof. apply pp_s_expr. Qed.

Lemma pp_s_type t : pp_type (s_type t) = pp_type t.
Proof. induction t as [c x|ca cl cz size cr co base IH]; cbn [s_type pp_type]; rewrite ?IH; reflexivity. Qed.

(* the comments of an assignment go in front of the variable's name *)
Fixpoint set_lead (C : cs) (v : avar) : avar :=
  match v with
  | AName _ x => AName C x
  | AIndex v' c1 e c2 => AIndex (set_lead C v') c1 e c2
  end.

Lemma var_lead_set C v : var_lead (set_lead C v) = C.
Proof. induction v as [c x|v' IH c1 e c2]; cbn [set_lead var_lead]; [reflexivity | exact IH]. Qed.
Lemma var_code_set C v : var_code (set_lead C v) = var_code v.
Proof. induction v as [c x|v' IH c1 e c2]; cbn [set_lead var_code]; [reflexivity | rewrite IH; reflexivity]. Qed.
Lemma pp_set_lead C v : pp_var (set_lead C v) = pp_var v.
Proof. induction v as [c x|v' IH c1 e c2]; cbn [set_lead pp_var]; [reflexivity | rewrite IH; reflexivity]. Qed.

Lemma var_lead_s v : var_lead (s_var v) = [].
Proof. induction v as [c x|v' IH c1 e c2]; cbn [s_var var_lead]; [reflexivity | exact IH]. Qed.
Lemma var_code_s v : var_code (s_var v) = code (fl_var v).
Proof. rewrite <- fl_s_var, fl_var_lead, var_lead_s. reflexivity. Qed.

Lemma fl_set_lead C v : fl_var (set_lead C (s_var v)) = cm C ++ code (fl_var v).
Proof. rewrite fl_var_lead, var_lead_set, var_code_set, var_code_s. reflexivity. Qed.

(* ================================================================================================
   4. Comma-separated lists: no comment in front of a comma
   ================================================================================================ *)
Definition s_tail {A} (sf : A -> A) (l : list (cs * A)) : list (cs * A) := map (fun ca => ([], sf (snd ca))) l.
Definition s_sep {A} (sf : A -> A) (o : option (A * list (cs * A))) : option (A * list (cs * A)) :=
  match o with None => None | Some (a, l) => Some (sf a, s_tail sf l) end.

Lemma sub_tail {A} (fl : A -> list kind) (sf : A -> A) l :
  (forall a, sub (fl (sf a)) (fl a)) -> sub (fl_tail fl (s_tail sf l)) (fl_tail fl l).
Proof.
  intros H. induction l as [|[c a] r IH]; [apply sub_refl|]. unfold s_tail in *. cbn [map snd]. rewrite !fl_tail_cons. rewrite cm_nil.
  cbn [app]. apply sub_skip, sub_cons, sub_app; [apply H | exact IH].
Qed.

Lemma sub_sep {A} (fl : A -> list kind) (sf : A -> A) ps :
  (forall a, sub (fl (sf a)) (fl a)) -> sub (fl_sep fl (s_sep sf ps)) (fl_sep fl ps).
Proof.
  intros H. destruct ps as [[a l]|]; [|apply sub_refl]. cbn [s_sep fl_sep]. apply sub_app; [apply H | apply sub_tail; exact H].
Qed.

Lemma fl_s_tail {A} (fl : A -> list kind) (sf : A -> A) l :
  (forall a, fl (sf a) = code (fl a)) -> fl_tail fl (s_tail sf l) = code (fl_tail fl l).
Proof.
  intros H. induction l as [|[c a] r IH]; [reflexivity|]. unfold s_tail in *. cbn [map snd]. rewrite !fl_tail_cons, cm_nil, IH, H.
  cbn [app]. code_norm. reflexivity.
Qed.

Lemma fl_s_sep {A} (fl : A -> list kind) (sf : A -> A) ps :
  (forall a, fl (sf a) = code (fl a)) -> fl_sep fl (s_sep sf ps) = code (fl_sep fl ps).
Proof.
  intros H. destruct ps as [[a l]|]; [|reflexivity]. cbn [s_sep fl_sep]. rewrite (fl_s_tail fl sf l H), H, code_app. reflexivity.
Qed.

Lemma sep_list_s {A} (sf : A -> A) ps : sep_list (s_sep sf ps) = map sf (sep_list ps).
Proof.
  destruct ps as [[a l]|]; [|reflexivity]. cbn [s_sep sep_list map]. f_equal. unfold s_tail. rewrite !map_map. reflexivity.
Qed.

(* ================================================================================================
   5. Statements
   ================================================================================================ *)
Fixpoint k_stmt (s : astmt) : astmt :=
  let kb (t : astmt) : astmt :=
    match t with SBlk _ b _ => SBlk [] (k_stmts b) [] | _ => k_stmt t end in
  match s with
  | SEmp c => SEmp c
  | SAsg v _ e _ => SAsg (set_lead (cmts (fl_stmt s)) (s_var v)) [] (s_cmp e) []
  | SCal _ fn _ a _ _ => SCal (cmts (fl_stmt s)) fn [] (s_sep s_cmp a) [] []
  | SIfT c1 _ e _ t => SIfT c1 [] (s_cmp e) [] (kb t)
  | SIfE c1 _ e _ t _ s' => SIfE c1 [] (s_cmp e) [] (kb t) [] (kb s')
  | SWhl c1 _ e _ b => SWhl c1 [] (s_cmp e) [] (kb b)
  | SBlk c1 b _ => SBlk c1 (k_stmts b) []
  end
with k_stmts (b : astmts) : astmts :=
  match b with SNil => SNil | SCons s r => SCons (k_stmt s) (k_stmts r) end.

(* a statement as the branch of an if / while: the comments in front of a block's `{` are lost *)
Definition k_branch (t : astmt) : astmt :=
  match t with SBlk _ b _ => SBlk [] (k_stmts b) [] | _ => k_stmt t end.

Lemma k_ift c1 c2 e c3 t : k_stmt (SIfT c1 c2 e c3 t) = SIfT c1 [] (s_cmp e) [] (k_branch t).
Proof. reflexivity. Qed.
Lemma k_ife c1 c2 e c3 t c4 s' : k_stmt (SIfE c1 c2 e c3 t c4 s') = SIfE c1 [] (s_cmp e) [] (k_branch t) [] (k_branch s').
Proof. reflexivity. Qed.
Lemma k_whl c1 c2 e c3 t : k_stmt (SWhl c1 c2 e c3 t) = SWhl c1 [] (s_cmp e) [] (k_branch t).
Proof. reflexivity. Qed.
Lemma k_blk c1 b c2 : k_stmt (SBlk c1 b c2) = SBlk c1 (k_stmts b) [].
Proof. reflexivity. Qed.
Lemma k_branch_plain t : is_ablk t = false -> k_branch t = k_stmt t.
Proof. destruct t; try discriminate; reflexivity. Qed.

(* the two hoisting statements *)
Lemma fl_k_asg v c1 e c2 : fl_stmt (k_stmt (SAsg v c1 e c2)) = hoisted (fl_stmt (SAsg v c1 e c2)).
Proof.
  cbn [k_stmt]. set (C := cmts (fl_stmt (SAsg v c1 e c2))). cbn [fl_stmt]. rewrite fl_set_lead, fl_s_cmp, cm_nil. cbn [app].
  unfold hoisted. fold C. rewrite <- app_assoc. f_equal. code_norm. reflexivity.
Qed.

Lemma fl_k_cal c1 fn c2 a c3 c4 : fl_stmt (k_stmt (SCal c1 fn c2 a c3 c4)) = hoisted (fl_stmt (SCal c1 fn c2 a c3 c4)).
Proof.
  cbn [k_stmt]. set (C := cmts (fl_stmt (SCal c1 fn c2 a c3 c4))). cbn [fl_stmt]. rewrite (fl_s_sep fl_cmp s_cmp a fl_s_cmp), cm_nil. cbn [app].
  unfold hoisted. fold C. f_equal. code_norm. reflexivity.
Qed.

Ltac sub_tac :=
  repeat first [ assumption | apply sub_refl | apply sub_code | apply sub_cons
               | apply sub_app; [solve [assumption | apply sub_refl | apply sub_code] |]
               | apply sub_skip ].

Theorem sub_stmt :
  (forall s, sub (fl_stmt (k_stmt s)) (fl_stmt s) /\ sub (fl_stmt (k_branch s)) (fl_stmt s)) /\
  (forall b, sub (fl_stmts (k_stmts b)) (fl_stmts b)).
Proof.
  apply GrammarStmt.astmt_mutind.
  - intros c. split; apply sub_refl.
  - intros v c1 e c2. assert (G : sub (fl_stmt (k_stmt (SAsg v c1 e c2))) (fl_stmt (SAsg v c1 e c2))) by (rewrite fl_k_asg; apply sub_hoisted).
    split; exact G.
  - intros c1 fn c2 a c3 c4.
    assert (G : sub (fl_stmt (k_stmt (SCal c1 fn c2 a c3 c4))) (fl_stmt (SCal c1 fn c2 a c3 c4))) by (rewrite fl_k_cal; apply sub_hoisted).
    split; exact G.
  - intros c1 c2 e c3 t [_ IHt].
    assert (G : sub (fl_stmt (k_stmt (SIfT c1 c2 e c3 t))) (fl_stmt (SIfT c1 c2 e c3 t))).
    { rewrite k_ift. cbn [fl_stmt]. rewrite fl_s_cmp, cm_nil. cbn [app]. sub_tac. }
    split; exact G.
  - intros c1 c2 e c3 t [_ IHt] c4 s' [_ IHs].
    assert (G : sub (fl_stmt (k_stmt (SIfE c1 c2 e c3 t c4 s'))) (fl_stmt (SIfE c1 c2 e c3 t c4 s'))).
    { rewrite k_ife. cbn [fl_stmt]. rewrite fl_s_cmp, cm_nil. cbn [app]. sub_tac. }
    split; exact G.
  - intros c1 c2 e c3 t [_ IHt].
    assert (G : sub (fl_stmt (k_stmt (SWhl c1 c2 e c3 t))) (fl_stmt (SWhl c1 c2 e c3 t))).
    { rewrite k_whl. cbn [fl_stmt]. rewrite fl_s_cmp, cm_nil. cbn [app]. sub_tac. }
    split; exact G.
  - intros c1 b IHb c2. split.
    + rewrite k_blk. cbn [fl_stmt]. rewrite cm_nil. cbn [app]. sub_tac.
    + cbn [k_branch fl_stmt]. rewrite cm_nil. cbn [app]. sub_tac.
  - apply sub_refl.
  - intros s [IHs _] r IHr. cbn [k_stmts fl_stmts]. apply sub_app; assumption.
Qed.

(* ================================================================================================
   6. Declarations, the program
   ================================================================================================ *)
Definition k_param (p : aparam) : aparam :=
  match p with
  | PVal _ x _ t => PVal (cmts (fl_param p)) x [] (s_type t)
  | PRef _ _ x _ t => PRef (cmts (fl_param p)) [] x [] (s_type t)
  end.

Definition k_vardecl (v : avardecl) : avardecl :=
  {| v_c1 := cmts (fl_vardecl v); v_c2 := []; v_x := v_x v; v_c3 := []; v_t := s_type (v_t v); v_c4 := [] |}.

Definition k_decl (d : adecl) : adecl :=
  match d with
  | DType c1 _ x _ t _ => DType c1 [] x [] (s_type t) []
  | DProc c1 _ x _ ps _ _ vs b _ => DProc c1 [] x [] (s_sep k_param ps) [] [] (map k_vardecl vs) (k_stmts b) []
  end.

Definition kept (p : aprog) : aprog := {| a_decls := map k_decl (a_decls p); a_ceof := [] |}.

Lemma fl_k_param p : fl_param (k_param p) = hoisted (fl_param p).
Proof.
  destruct p as [c x cc t|cr c x cc t]; unfold k_param.
  - set (C := cmts (fl_param (PVal c x cc t))). cbn [fl_param]. rewrite fl_s_type, cm_nil. cbn [app].
    unfold hoisted. fold C. f_equal. code_norm. reflexivity.
  - set (C := cmts (fl_param (PRef cr c x cc t))). cbn [fl_param]. rewrite fl_s_type, !cm_nil. cbn [app].
    unfold hoisted. fold C. f_equal. code_norm. reflexivity.
Qed.

Lemma fl_k_vardecl v : fl_vardecl (k_vardecl v) = hoisted (fl_vardecl v).
Proof.
  unfold k_vardecl. set (C := cmts (fl_vardecl v)). unfold fl_vardecl at 1. cbn [v_c1 v_c2 v_x v_c3 v_t v_c4]. rewrite fl_s_type, !cm_nil. cbn [app].
  unfold hoisted. fold C. f_equal. unfold fl_vardecl. code_norm. reflexivity.
Qed.

Lemma sub_vardecls vs : sub (flat_map fl_vardecl (map k_vardecl vs)) (flat_map fl_vardecl vs).
Proof.
  induction vs as [|v r IH]; [apply sub_refl|]. cbn [map flat_map]. apply sub_app; [|exact IH]. rewrite fl_k_vardecl. apply sub_hoisted.
Qed.

Lemma sub_decl d : sub (fl_decl (k_decl d)) (fl_decl d).
Proof.
  destruct d as [c1 c2 x c3 t c4|c1 c2 x c3 ps c4 c5 vs b c6]; cbn [k_decl fl_decl]; rewrite ?cm_nil; cbn [app].
  - rewrite fl_s_type. sub_tac.
  - pose proof (sub_sep fl_param k_param ps (fun p => sub_eq _ _ _ (fl_k_param p) (sub_hoisted _))) as Hps.
    pose proof (sub_vardecls vs) as Hvs. pose proof (proj2 sub_stmt b) as Hb.
    apply sub_app; [apply sub_refl|]. apply sub_cons, sub_skip, sub_cons, sub_skip, sub_cons.
    apply sub_app; [exact Hps|]. apply sub_skip, sub_cons, sub_skip, sub_cons.
    apply sub_app; [exact Hvs|]. apply sub_app; [exact Hb|]. apply sub_skip, sub_refl.
Qed.

Theorem sub_kept p : sub (flatten (kept p)) (flatten p).
Proof.
  unfold flatten, kept. cbn [a_decls a_ceof]. rewrite cm_nil, app_nil_r.
  rewrite <- (app_nil_r (flat_map fl_decl (map k_decl (a_decls p)))). apply sub_app; [|split; [rewrite code_cm; reflexivity | apply subseq_nil_l]].
  induction (a_decls p) as [|d r IH]; [apply sub_refl|]. cbn [map flat_map]. apply sub_app; [apply sub_decl | exact IH].
Qed.
