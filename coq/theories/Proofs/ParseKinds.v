(* The parser reads token KINDS only: two token vectors with the same kinds parse to the same tree
   (positions, lexical errors and therefore whitespace never reach it).  A relational argument over every
   combinator and every non-terminal of Model/Parser.v. *)
From Coq Require Import String.
From Spl Require Import Model.Format Model.Lexer Proofs.FormatProofs.
Import ListNotations.
Local Open Scope nat_scope.

Section Rel.
Variables t1 t2 : list token.
Hypothesis Hk : same_kinds t1 t2.

Definition pres_rel {A} (R : A -> A -> Prop) (x y : pres A) : Prop :=
  match x, y with
  | POk s a, POk s' b => s = s' /\ R a b
  | PErr s, PErr s' => s = s'
  | PFuel, PFuel => True
  | _, _ => False
  end.

Definition prel {A} (R : A -> A -> Prop) (p q : parser A) : Prop := forall s, pres_rel R (p s) (q s).

Definition prod_rel {A B} (R1 : A -> A -> Prop) (R2 : B -> B -> Prop) (x y : A * B) : Prop :=
  R1 (fst x) (fst y) /\ R2 (snd x) (snd y).
Definition opt_rel {A} (R : A -> A -> Prop) (x y : option A) : Prop :=
  match x, y with Some a, Some b => R a b | None, None => True | _, _ => False end.
Definition tkr (a b : token) : Prop := tk a = tk b.

Ltac pr :=
  unfold prod_rel, opt_rel in *; cbn [fst snd] in *;
  repeat match goal with
         | H : _ /\ _ |- _ => destruct H
         | H : False |- _ => contradiction
         | |- _ /\ _ => split
         | |- True => exact I
         end; subst; try reflexivity; try assumption.

Lemma prel_eq {A} (p q : parser A) : prel eq p q -> forall s, p s = q s.
Proof. intros H s. specialize (H s). unfold pres_rel in H. destruct (p s), (q s); pr. Qed.

Lemma prel_weaken {A} (R R' : A -> A -> Prop) p q : (forall a b, R a b -> R' a b) -> prel R p q -> prel R' p q.
Proof. intros HR H s. specialize (H s). unfold pres_rel in *. destruct (p s), (q s); pr. apply HR. assumption. Qed.

(* ---- combinators ---- *)
Lemma prel_map {A B} (R : A -> A -> Prop) (R' : B -> B -> Prop) f g p q :
  prel R p q -> (forall a b, R a b -> R' (f a) (g b)) -> prel R' (p_map f p) (p_map g q).
Proof.
  intros H Hf s. specialize (H s). unfold p_map, bind, pres_rel in *.
  destruct (p s), (q s); pr. apply Hf. assumption.
Qed.

Lemma prel_alt {A} (R : A -> A -> Prop) p q p' q' : prel R p q -> prel R p' q' -> prel R (p_alt p p') (p_alt q q').
Proof.
  intros H H' s. specialize (H s). specialize (H' s). unfold p_alt, pres_rel in *.
  destruct (p s), (q s); pr.
Qed.

Lemma prel_restore {A} (R : A -> A -> Prop) p q : prel R p q -> prel R (p_restore p) (p_restore q).
Proof. intros H s. specialize (H s). unfold p_restore, pres_rel in *. destruct (p s), (q s); pr. Qed.

Lemma prel_opt {A} (R : A -> A -> Prop) p q : prel R p q -> prel (opt_rel R) (p_opt p) (p_opt q).
Proof. intros H s. specialize (H s). unfold p_opt, pres_rel in *. destruct (p s), (q s); pr. Qed.

Lemma prel_pair {A B} (R1 : A -> A -> Prop) (R2 : B -> B -> Prop) p q p' q' :
  prel R1 p q -> prel R2 p' q' -> prel (prod_rel R1 R2) (p_pair p p') (p_pair q q').
Proof.
  intros H H' s. specialize (H s). unfold p_pair, bind, pres_rel in *.
  destruct (p s) as [s1 a| |], (q s) as [s2 b| |]; pr.
  specialize (H' s2). unfold pres_rel in H'. destruct (p' s2), (q' s2); pr.
Qed.

Lemma prel_preceded {A B} (R1 : A -> A -> Prop) (R2 : B -> B -> Prop) p q p' q' :
  prel R1 p q -> prel R2 p' q' -> prel R2 (p_preceded p p') (p_preceded q q').
Proof. intros H H'. unfold p_preceded. eapply prel_map; [apply prel_pair; eassumption|]. intros a b [_ Hb]. exact Hb. Qed.

Lemma prel_terminated {A B} (R1 : A -> A -> Prop) (R2 : B -> B -> Prop) p q p' q' :
  prel R1 p q -> prel R2 p' q' -> prel R1 (p_terminated p p') (p_terminated q q').
Proof. intros H H'. unfold p_terminated. eapply prel_map; [apply prel_pair; eassumption|]. intros a b [Ha _]. exact Ha. Qed.

Lemma prel_many0 {A} (R : A -> A -> Prop) p q : prel R p q -> forall fuel, prel (Forall2 R) (p_many0 fuel p) (p_many0 fuel q).
Proof.
  intros H fuel. induction fuel as [|f IH]; intros s; cbn [p_many0]; [exact I|].
  pose proof (H s) as Hs. unfold pres_rel in Hs.
  destruct (p s) as [s1 a| |], (q s) as [s2 b| |]; pr; cbn [pres_rel]; pr; [|constructor].
  destruct (Nat.eqb (pos s2) (pos s)); [reflexivity|].
  specialize (IH s2). unfold bind, pres_rel in *.
  destruct (p_many0 f p s2), (p_many0 f q s2); pr. constructor; assumption.
Qed.

Lemma prel_info {A} (R : A -> A -> Prop) p q : prel R p q -> prel (prod_rel R eq) (p_info p) (p_info q).
Proof.
  intros H s. specialize (H (set_ebuf s [])). unfold p_info, pres_rel, prod_rel in *.
  destruct (p (set_ebuf s [])), (q (set_ebuf s [])); pr.
Qed.

Lemma prel_expect {A} (R : A -> A -> Prop) p q m : prel R p q -> prel (opt_rel R) (p_expect p m) (p_expect q m).
Proof. intros H s. specialize (H s). unfold p_expect, pres_rel in *. destruct (p s), (q s); pr. Qed.

Lemma prel_ref {A} (R : A -> A -> Prop) p q : prel R p q -> prel (prod_rel R eq) (p_ref p) (p_ref q).
Proof.
  intros H s. specialize (H (set_refp s (pos s))). unfold p_ref, pres_rel, prod_rel in *.
  destruct (p (set_refp s (pos s))), (q (set_refp s (pos s))); pr.
Qed.

Lemma prel_confusable {A} (R : A -> A -> Prop) p q m : prel R p q -> prel R (p_confusable p m) (p_confusable q m).
Proof.
  intros H s. pose proof (prel_info R p q H s) as Hi. unfold p_confusable, bind, pres_rel, prod_rel in *.
  destruct (p_info p s) as [s1 [a i]| |], (p_info q s) as [s2 [b j]| |]; pr.
Qed.

(* ---- token level ---- *)
Lemma leading_comments_kinds a : forall b, same_kinds a b -> leading_comments a = leading_comments b.
Proof.
  induction a as [|x a IH]; intros b H.
  - apply same_kinds_nil_l in H. subst. reflexivity.
  - destruct b as [|y b]; [discriminate H|]. apply same_kinds_cons in H. destruct H as [Hxy H].
    cbn [leading_comments]. rewrite Hxy. destruct (tk y); try reflexivity. rewrite (IH b H). reflexivity.
Qed.

Lemma comments_at_kinds p : comments_at t1 p = comments_at t2 p.
Proof. unfold comments_at. apply leading_comments_kinds. apply same_kinds_skipn. exact Hk. Qed.

Lemma nth_kinds i : opt_rel tkr (nth_error t1 i) (nth_error t2 i).
Proof.
  pose proof (f_equal (fun l => nth_error l i) Hk) as H. cbn beta in H. rewrite !nth_error_map in H.
  unfold opt_rel, tkr. destruct (nth_error t1 i), (nth_error t2 i); cbn in H; try discriminate; [|exact I].
  injection H as H. exact H.
Qed.

Lemma length_kinds : length t1 = length t2.
Proof. apply same_kinds_length. exact Hk. Qed.

Lemma prel_comments : prel eq (p_comments t1) (p_comments t2).
Proof. intros s. unfold p_comments. rewrite comments_at_kinds. cbn. split; reflexivity. Qed.

Lemma prel_tag f : prel tkr (p_tag t1 f) (p_tag t2 f).
Proof.
  intros s. unfold p_tag. rewrite comments_at_kinds.
  pose proof (nth_kinds (pos (adv s (length (comments_at t2 (pos s)))))) as H. unfold opt_rel, tkr in H.
  destruct (nth_error t1 _) as [a|], (nth_error t2 _) as [b|]; try contradiction; cbn [pres_rel]; [|reflexivity].
  rewrite H. destruct (f (tk b)); cbn [pres_rel]; [split; [reflexivity | exact H] | reflexivity].
Qed.

Lemma sig_at_kinds p : sig_at t1 p = sig_at t2 p.
Proof. unfold sig_at. rewrite comments_at_kinds. reflexivity. Qed.

Lemma la_tag_kinds f p : la_tag t1 f p = la_tag t2 f p.
Proof.
  unfold la_tag. rewrite sig_at_kinds. pose proof (nth_kinds (sig_at t2 p)) as H. unfold opt_rel, tkr in H.
  destruct (nth_error t1 _), (nth_error t2 _); try contradiction; [rewrite H|]; reflexivity.
Qed.

Lemma la_ident_then_kinds f p : la_ident_then t1 f p = la_ident_then t2 f p.
Proof.
  unfold la_ident_then. rewrite sig_at_kinds. pose proof (nth_kinds (sig_at t2 p)) as H. unfold opt_rel, tkr in H.
  destruct (nth_error t1 _), (nth_error t2 _); try contradiction; [rewrite H, la_tag_kinds|]; reflexivity.
Qed.

Lemma la_global_kinds p : la_global t1 p = la_global t2 p.
Proof. unfold la_global. apply la_tag_kinds. Qed.
Lemma la_stmt_kinds p : la_stmt t1 p = la_stmt t2 p.
Proof. unfold la_stmt. rewrite !la_tag_kinds, la_ident_then_kinds, la_global_kinds. reflexivity. Qed.
Lemma la_var_dec_kinds p : la_var_dec t1 p = la_var_dec t2 p.
Proof. unfold la_var_dec. rewrite !la_tag_kinds, la_ident_then_kinds, la_stmt_kinds. reflexivity. Qed.
Lemma la_param_kinds p : la_param t1 p = la_param t2 p.
Proof. unfold la_param. rewrite !la_tag_kinds, la_var_dec_kinds. reflexivity. Qed.
Lemma la_arg_kinds p : la_arg t1 p = la_arg t2 p.
Proof. apply la_param_kinds. Qed.

Lemma prel_peek_la la1 la2 : (forall p, la1 p = la2 p) -> prel eq (p_peek_la la1) (p_peek_la la2).
Proof. intros H s. unfold p_peek_la. rewrite H. destruct (la2 (pos s)); cbn; pr. Qed.

Lemma ignore_from_kinds la1 la2 : (forall p, la1 p = la2 p) -> forall n s, ignore_from t1 n la1 s = ignore_from t2 n la2 s.
Proof.
  intros H. induction n as [|n IH]; intros s; cbn [ignore_from]; rewrite H, ?length_kinds; [reflexivity|].
  destruct (la2 (pos s)); [reflexivity|]. destruct (Nat.ltb (pos s) (length t2)); [apply IH | reflexivity].
Qed.

Lemma skipped_kinds s s' : same_kinds (skipped t1 s s') (skipped t2 s s').
Proof. unfold skipped. apply same_kinds_firstn. apply same_kinds_skipn. exact Hk. Qed.

Lemma prel_ignore0 la1 la2 : (forall p, la1 p = la2 p) -> prel same_kinds (p_ignore0 t1 la1) (p_ignore0 t2 la2).
Proof.
  intros H s. unfold p_ignore0. rewrite (ignore_from_kinds la1 la2 H), length_kinds.
  destruct (ignore_from t2 _ la2 s) as [s' []| |]; cbn; [split; [reflexivity | apply skipped_kinds] | reflexivity | exact I].
Qed.

Lemma prel_ignore1 la1 la2 : (forall p, la1 p = la2 p) -> prel same_kinds (p_ignore1 t1 la1) (p_ignore1 t2 la2).
Proof.
  intros H s. unfold p_ignore1. rewrite H. destruct (la2 (pos s)); [cbn; reflexivity | apply prel_ignore0; exact H].
Qed.

Lemma show_tokens_kinds a : forall b, same_kinds a b -> show_tokens a = show_tokens b.
Proof.
  unfold show_tokens. induction a as [|x a IH]; intros b H.
  - apply same_kinds_nil_l in H. subst. reflexivity.
  - destruct b as [|y b]; [discriminate H|]. apply same_kinds_cons in H. destruct H as [Hxy H].
    cbn [flat_map]. rewrite Hxy, (IH b H). reflexivity.
Qed.

Lemma pres_rel_bind {A B} (R : A -> A -> Prop) (R' : B -> B -> Prop) (x y : pres A) (k k' : st -> A -> pres B) :
  pres_rel R x y -> (forall s a b, R a b -> pres_rel R' (k s a) (k' s b)) -> pres_rel R' (bind x k) (bind y k').
Proof. intros H Hk'. unfold bind, pres_rel in *. destruct x, y; pr. apply Hk'. assumption. Qed.

Lemma prel_list {A} (R : A -> A -> Prop) p q fuel :
  prel R p q -> prel (Forall2 (prod_rel R eq)) (p_list t1 fuel p) (p_list t2 fuel q).
Proof.
  intros H s. unfold p_list.
  eapply pres_rel_bind; [apply (prel_ref R p q H s)|]. intros s1 a b Hab.
  eapply (pres_rel_bind (Forall2 (prod_rel R eq))).
  - apply prel_many0. eapply prel_map.
    + apply prel_ref. eapply prel_preceded; [apply prel_tag | apply prel_ref; exact H].
    + intros x y Hxy. unfold prod_rel in *. cbn [fst snd].
      destruct Hxy as [[Hr Ho] Ho2]. rewrite Ho, Ho2. split; [exact Hr | reflexivity].
  - intros s2 l l' Hl. cbn [pres_rel]. split; [reflexivity | constructor; assumption].
Qed.

(* relations that are equality in disguise *)
Lemma prod_eq {A B} (x y : A * B) : prod_rel eq eq x y -> x = y.
Proof. destruct x, y. unfold prod_rel. cbn. intros [-> ->]. reflexivity. Qed.
Lemma opt_eq {A} (x y : option A) : opt_rel eq x y -> x = y.
Proof. destruct x, y; cbn; try contradiction; [intros ->|]; reflexivity. Qed.
Lemma forall2_eq {A} (l l' : list A) : Forall2 eq l l' -> l = l'.
Proof. induction 1; [reflexivity | subst; reflexivity]. Qed.
Lemma forall2_prod_eq {A B} (l l' : list (A * B)) : Forall2 (prod_rel eq eq) l l' -> l = l'.
Proof. induction 1 as [|x y l l' H _ IH]; [reflexivity|]. apply prod_eq in H. subst. reflexivity. Qed.
Lemma opt_prod_eq {A B} (x y : option (A * B)) : opt_rel (prod_rel eq eq) x y -> x = y.
Proof. destruct x, y; cbn; try contradiction; [intros H; apply prod_eq in H; subst|]; reflexivity. Qed.

(* normalises a hypothesis relating two values of a token-free type into an equation and substitutes it *)
Ltac releq :=
  repeat match goal with
         | H : prod_rel _ _ (_, _) (_, _) |- _ => destruct H as [? ?]; cbn [fst snd] in *
         | H : prod_rel _ _ ?x ?y |- _ => destruct x, y
         | H : opt_rel (prod_rel eq eq) _ _ |- _ => apply opt_prod_eq in H
         | H : opt_rel eq _ _ |- _ => apply opt_eq in H
         | H : Forall2 (prod_rel eq eq) _ _ |- _ => apply forall2_prod_eq in H
         | H : Forall2 eq _ _ |- _ => apply forall2_eq in H
         | H : opt_rel _ ?x ?y |- _ => destruct x, y; cbn [opt_rel] in H; try contradiction
         | H : _ /\ _ |- _ => destruct H
         | H : ?a = ?b |- _ => first [subst a | subst b]
         end.

(* ---- non-terminals ---- *)
Lemma prel_ident : prel eq (p_ident t1) (p_ident t2).
Proof.
  unfold p_ident. eapply prel_map; [apply prel_info; apply prel_tag|].
  intros a b H. releq. unfold tkr in *. cbn [fst snd]. congruence.
Qed.

Lemma prel_intlit : prel eq (p_intlit t1) (p_intlit t2).
Proof.
  unfold p_intlit. eapply prel_map.
  - apply prel_info. eapply prel_map with (R := tkr) (R' := eq).
    + repeat apply prel_alt; apply prel_tag.
    + intros a b H. unfold lit_value, tkr in *. rewrite H. reflexivity.
  - intros a b H. releq. reflexivity.
Qed.

Lemma prel_rhs p q lhs op : prel eq p q -> prel eq (p_rhs p lhs op) (p_rhs q lhs op).
Proof.
  intros H s. unfold p_rhs. eapply pres_rel_bind; [apply (prel_expect eq p q _ H s)|].
  intros s' a b Hab. releq. cbn. split; reflexivity.
Qed.

(* ---- expressions ---- *)
Definition acc_rel (a b : option (expr * nat) * option token * info) : Prop :=
  fst (fst a) = fst (fst b) /\ snd a = snd b.

Lemma fold_access l l' : Forall2 acc_rel l l' -> forall vinfo v,
  fold_left (fun v a => ArrAccess v (fst (fst a)) (extend_range (snd a) vinfo)) l v =
  fold_left (fun v a => ArrAccess v (fst (fst a)) (extend_range (snd a) vinfo)) l' v.
Proof.
  induction 1 as [|a b l l' [H1 H2] _ IH]; intros vinfo v; [reflexivity|]. cbn [fold_left]. rewrite H1, H2. apply IH.
Qed.

Definition loop_rel (l1 l2 : st -> expr -> pres expr) : Prop := forall s lhs, pres_rel eq (l1 s lhs) (l2 s lhs).

Definition expr_ok (fuel : nat) : Prop :=
  prel eq (p_variable t1 fuel) (p_variable t2 fuel) /\
  prel eq (p_primary t1 fuel) (p_primary t2 fuel) /\
  prel eq (p_factor t1 fuel) (p_factor t2 fuel) /\
  loop_rel (mul_loop t1 fuel) (mul_loop t2 fuel) /\
  prel eq (p_mul t1 fuel) (p_mul t2 fuel) /\
  loop_rel (add_loop t1 fuel) (add_loop t2 fuel) /\
  prel eq (p_add t1 fuel) (p_add t2 fuel) /\
  prel eq (p_comparison t1 fuel) (p_comparison t2 fuel).

Lemma loop_step (isop : kind -> bool) (pa pb : parser expr) (la lb : st -> expr -> pres expr) s lhs :
  prel eq pa pb -> loop_rel la lb ->
  pres_rel eq
    (match p_tag t1 isop s with
     | POk s1 op => bind (p_rhs pa lhs (op_of (tk op)) s1) (fun s2 e => la s2 e)
     | PErr _ => POk s lhs
     | PFuel => PFuel
     end)
    (match p_tag t2 isop s with
     | POk s1 op => bind (p_rhs pb lhs (op_of (tk op)) s1) (fun s2 e => lb s2 e)
     | PErr _ => POk s lhs
     | PFuel => PFuel
     end).
Proof.
  intros Hp Hl. pose proof (prel_tag isop s) as Ht. unfold pres_rel in Ht.
  destruct (p_tag t1 isop s) as [s1 a| |], (p_tag t2 isop s) as [s2 b| |]; try contradiction; cbn [pres_rel]; pr.
  unfold tkr in *. match goal with H : tk _ = tk _ |- _ => rewrite H end.
  eapply pres_rel_bind; [apply (prel_rhs pa pb lhs _ Hp)|]. intros s3 x y ->. apply Hl.
Qed.

Lemma expr_kinds : forall fuel, expr_ok fuel.
Proof.
  induction fuel as [|f (IHv & IHp & IHf & IHml & IHm & IHal & IHa & IHc)].
  - unfold expr_ok, loop_rel. repeat split; intros s; try intros lhs; exact I.
  - unfold expr_ok. repeat split.
    + (* variable *)
      intros s. cbn [p_variable]. eapply pres_rel_bind with (R := prod_rel (prod_rel eq eq) (Forall2 acc_rel)).
      * apply prel_pair; [apply prel_info; eapply prel_map; [apply prel_ident | intros a b ->; reflexivity]|].
        apply prel_many0. eapply prel_weaken; [|apply prel_info; eapply prel_preceded; [apply prel_tag|];
          apply prel_pair; [apply prel_expect; apply prel_ref; exact IHc | apply prel_expect; apply prel_tag]].
        intros a b H. unfold acc_rel. releq; cbn [fst snd]; split; reflexivity.
      * intros s' [[v0 vi] acc] [[v0' vi'] acc'] H. releq; cbn [pres_rel]; (split; [reflexivity|]); apply fold_access; assumption.
    + (* primary *)
      intros s. cbn [p_primary]. apply prel_alt; [eapply prel_map; [apply prel_intlit | intros a b ->; reflexivity]|].
      apply prel_alt; [eapply prel_map; [exact IHv | intros a b ->; reflexivity]|].
      intros s0. eapply pres_rel_bind.
      * apply prel_info. apply prel_pair; [apply prel_info; apply prel_tag|].
        apply prel_pair; [apply prel_expect; exact IHc | apply prel_expect; apply prel_tag].
      * intros s' a b H. releq; cbn [pres_rel fst snd]; split; reflexivity.
    + (* factor *)
      intros s. cbn [p_factor]. apply prel_alt; [exact IHp|].
      eapply prel_map; [apply prel_info; eapply prel_preceded; [apply prel_tag | exact IHf]|].
      intros a b H. releq; reflexivity.
    + intros s lhs. cbn [mul_loop]. apply loop_step; assumption.
    + intros s. cbn [p_mul]. eapply pres_rel_bind; [apply IHf|]. intros s1 a b ->. apply IHml.
    + intros s lhs. cbn [add_loop]. apply loop_step; assumption.
    + intros s. cbn [p_add]. eapply pres_rel_bind; [apply IHm|]. intros s1 a b ->. apply IHal.
    + intros s. cbn [p_comparison]. eapply pres_rel_bind; [apply IHa|]. intros s1 a b ->.
      pose proof (prel_tag is_cmpop s1) as Ht. unfold pres_rel in Ht.
      destruct (p_tag t1 is_cmpop s1) as [s2 x| |], (p_tag t2 is_cmpop s1) as [s3 y| |]; try contradiction; cbn [pres_rel]; pr.
      unfold tkr in *. match goal with H : tk _ = tk _ |- _ => rewrite H end. apply prel_rhs. exact IHa.
Qed.

Lemma prel_expr fuel : prel eq (p_expr t1 fuel) (p_expr t2 fuel).
Proof. unfold p_expr. apply (expr_kinds fuel). Qed.

(* ---- declarations and statements ---- *)
Ltac la_kinds :=
  intros; first [ apply la_param_kinds | apply la_arg_kinds | apply la_var_dec_kinds | apply la_stmt_kinds
                | apply la_global_kinds | apply la_tag_kinds | apply la_ident_then_kinds ].

Ltac fin :=
  releq;
  repeat match goal with
         | H : same_kinds ?a ?b |- _ => try rewrite (show_tokens_kinds a b H); clear H
         | H : tkr _ _ |- _ => clear H
         end;
  try reflexivity.

Ltac prel_auto :=
  lazymatch goal with
  | |- prel _ (p_map _ _) (p_map _ _) => eapply prel_map; [ prel_auto | intros ? ? ?; fin ]
  | |- prel _ (p_alt _ _) (p_alt _ _) => eapply prel_alt; prel_auto
  | |- prel _ (p_restore _) (p_restore _) => eapply prel_restore; prel_auto
  | |- prel _ (p_pair _ _) (p_pair _ _) => eapply prel_pair; prel_auto
  | |- prel _ (p_opt _) (p_opt _) => eapply prel_opt; prel_auto
  | |- prel _ (p_info _) (p_info _) => eapply prel_info; prel_auto
  | |- prel _ (p_expect _ _) (p_expect _ _) => eapply prel_expect; prel_auto
  | |- prel _ (p_ref _) (p_ref _) => eapply prel_ref; prel_auto
  | |- prel _ (p_confusable _ _) (p_confusable _ _) => eapply prel_confusable; prel_auto
  | |- prel _ (p_preceded _ _) (p_preceded _ _) => eapply prel_preceded; prel_auto
  | |- prel _ (p_terminated _ _) (p_terminated _ _) => eapply prel_terminated; prel_auto
  | |- prel _ (p_many0 _ _) (p_many0 _ _) => eapply prel_many0; prel_auto
  | |- prel eq (p_list _ _ _) (p_list _ _ _) => eapply prel_weaken; [apply forall2_prod_eq | eapply prel_list; prel_auto]
  | |- prel _ (p_list _ _ _) (p_list _ _ _) => eapply prel_list; prel_auto
  | |- prel _ (p_tag _ _) (p_tag _ _) => apply prel_tag
  | |- prel _ (p_comments _) (p_comments _) => apply prel_comments
  | |- prel _ (p_peek_la _) (p_peek_la _) => apply prel_peek_la; la_kinds
  | |- prel _ (p_ignore0 _ _) (p_ignore0 _ _) => apply prel_ignore0; la_kinds
  | |- prel _ (p_ignore1 _ _) (p_ignore1 _ _) => apply prel_ignore1; la_kinds
  | |- prel _ (p_ident _) (p_ident _) => apply prel_ident
  | |- prel _ (p_intlit _) (p_intlit _) => apply prel_intlit
  | |- prel _ (p_expr _ _) (p_expr _ _) => apply prel_expr
  | |- prel _ (p_variable _ _) (p_variable _ _) => apply (expr_kinds _)
  | _ => eassumption
  end.

Lemma prel_texpr : forall fuel, prel eq (p_texpr t1 fuel) (p_texpr t2 fuel).
Proof.
  induction fuel as [|f IH]; intros s; [exact I|]. revert s. cbn [p_texpr].
  refine (_ : prel eq (p_alt _ _) (p_alt _ _)). prel_auto.
Qed.

Lemma prel_typedecl fuel : prel eq (p_typedecl t1 fuel) (p_typedecl t2 fuel).
Proof. pose proof (prel_texpr fuel). unfold p_typedecl. prel_auto. Qed.

Lemma prel_vardecl fuel : prel eq (p_vardecl t1 fuel) (p_vardecl t2 fuel).
Proof. pose proof (prel_texpr fuel). unfold p_vardecl. prel_auto. Qed.

Lemma prel_paramdecl fuel : prel eq (p_paramdecl t1 fuel) (p_paramdecl t2 fuel).
Proof. pose proof (prel_texpr fuel). unfold p_paramdecl. prel_auto. Qed.

Lemma prel_argument fuel : prel eq (p_argument t1 fuel) (p_argument t2 fuel).
Proof. unfold p_argument. prel_auto. Qed.

Lemma prel_call fuel : prel eq (p_call t1 fuel) (p_call t2 fuel).
Proof. pose proof (prel_argument fuel). unfold p_call. prel_auto. Qed.

Lemma prel_assign fuel : prel eq (p_assign t1 fuel) (p_assign t2 fuel).
Proof. unfold p_assign. prel_auto. Qed.

Lemma prel_stmt : forall fuel, prel eq (p_stmt t1 fuel) (p_stmt t2 fuel).
Proof.
  induction fuel as [|f IH]; intros s; [exact I|]. revert s. cbn [p_stmt].
  pose proof (prel_call f). pose proof (prel_assign f).
  refine (_ : prel eq (p_alt _ _) (p_alt _ _)). prel_auto.
Qed.

Lemma prel_procdecl fuel : prel eq (p_procdecl t1 fuel) (p_procdecl t2 fuel).
Proof.
  pose proof (prel_paramdecl fuel). pose proof (prel_vardecl fuel). pose proof (prel_stmt fuel).
  unfold p_procdecl. prel_auto.
Qed.

Lemma prel_gdecl fuel : prel eq (p_gdecl t1 fuel) (p_gdecl t2 fuel).
Proof. pose proof (prel_typedecl fuel). pose proof (prel_procdecl fuel). unfold p_gdecl. prel_auto. Qed.

Lemma prel_eof_all : prel eq (p_eof_all t1) (p_eof_all t2).
Proof.
  intros s. unfold p_eof_all. eapply pres_rel_bind; [apply (prel_tag (is_k Eof))|].
  intros s' a b _. rewrite length_kinds. destruct (Nat.ltb (pos s') (length t2)); cbn; pr.
Qed.

Lemma prel_program fuel : prel eq (p_program t1 fuel) (p_program t2 fuel).
Proof. pose proof (prel_gdecl fuel). pose proof prel_eof_all. unfold p_program. prel_auto. Qed.

End Rel.

(* the parser is a function of the token kinds *)
Theorem parse_kinds t1 t2 : same_kinds t1 t2 -> parse t1 = parse t2.
Proof.
  intros H. unfold parse, parse_fuel. rewrite (same_kinds_length _ _ H).
  rewrite (prel_eq _ _ (prel_program t1 t2 H _)). reflexivity.
Qed.

(* C11, canonical form, in full: two documents whose token streams have the same kinds format identically *)
Theorem canonical d1 d2 t1 t2 ins ts :
  lex d1 = Some t1 -> lex d2 = Some t2 -> same_kinds t1 t2 ->
  formatted_text d1 ins ts = formatted_text d2 ins ts.
Proof.
  intros H1 H2 Hk. eapply canonical_given_tree; try eassumption. apply parse_kinds. exact Hk.
Qed.
