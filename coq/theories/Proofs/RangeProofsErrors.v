(* R2, semantic side: `build` and `analyze` only append errors whose ranges are ranges of existing
   nodes, (end-1, end) of an existing identifier, (0,0), or - MainMustNotHaveParameters - the name range
   of `main` shifted by its declaration's start; so the bound of RangeProofsBound.v survives both
   passes.  Hence every diagnostic `errors()` collects has a token range with end <= length - 1:
   AnalyzedSource::errors() never panics, and every published byte range lies inside the text. *)
From Coq Require Import Arith Lia List NArith.
From Spl Require Import Model.Errors Proofs.SemProofs Proofs.LexerProofs Spec.LexSpec.
From Spl Require Import Proofs.ParserProofs Proofs.RangeProofsIdent Proofs.RangeProofsBuild Proofs.RangeProofsBound.
Import ListNotations.
Local Open Scope nat_scope.

Definition BRes {A} (P : A -> Prop) (r : res A) : Prop :=
  match r with ROk a => P a | RFail _ => True end.

Lemma br_bind {A B} (P : A -> Prop) (Q : B -> Prop) (r : res A) (k : A -> res B) :
  BRes P r -> (forall a, P a -> BRes Q (k a)) -> BRes Q (rbind r k).
Proof. destruct r as [a|s]; cbn [BRes rbind]; auto. Qed.

Ltac bsplit :=
  cbn; unfold TypedeclB, ProcdeclB, VardeclB, ParamdeclB, GdeclB, RefB; cbn;
  repeat match goal with |- _ /\ _ => split end; try assumption; try exact I.

Section SemBound.
Variable M : nat.

Lemma InfoB_range_err off inf m : InfoB M off inf -> InfoB M off (info_append inf (mkerr_t (info_range inf) m)).
Proof. intros H. exact (InfoB_self_err M off inf m H). Qed.

Lemma IdB_append off i x : IdB M off i -> ErrB M off x -> IdB M off (ident_append i x).
Proof. intros H Hx. exact (InfoB_append M off _ x H Hx). Qed.

Lemma br_ident_flag off i m : IdB M off i -> BRes (IdB M off) (ident_flag i m).
Proof.
  intros H. unfold ident_flag, to_error. destruct (Nat.eqb _ 0); [exact I|]. cbn [rbind BRes].
  apply IdB_append; [exact H|]. unfold ErrB. cbn [e_e]. exact (proj1 H).
Qed.

(* ---- build ---- *)
Fixpoint br_gdt_te l g c off (t : typeexpr) {struct t} :
  TexprB M off t -> BRes (fun r => TexprB M off (fst r)) (get_data_type_te l g c t).
Proof.
  destruct t as [n | size base inf]; cbn [get_data_type_te TexprB].
  - intros H. try (destruct (text_eqb _ _); [exact H|]).
    destruct (lt_lookup l g _) as [[]|];
      try (apply br_bind with (P := IdB M off); [apply br_ident_flag, H | intros n' Hn'; exact Hn']).
    exact H.
  - destruct base as [[b o]|]; intros (Hi & Hs & Hb); [|cbn; auto].
    apply br_bind with (P := fun r => TexprB M (off + o) (fst r)); [apply br_gdt_te, Hb|].
    intros [b' bt] Hb'. cbn. auto.
Qed.

Lemma br_gdt l g c off t :
  OptB (RefB (TexprB M)) off t -> BRes (fun r => OptB (RefB (TexprB M)) off (fst r)) (get_data_type l g c t).
Proof.
  unfold get_data_type. destruct t as [[te o]|]; intros H; [|exact I].
  apply br_bind with (P := fun r => TexprB M (off + o) (fst r)); [apply br_gdt_te, H|].
  intros [te' dt] H'. exact H'.
Qed.

(* the name range of the entry of `main`, shifted by the start of its declaration, is in bounds *)
Definition TabB (t : gtable) : Prop :=
  forall pe, lookup t s_main = Some (GProcE pe) -> fst (pe_range pe) + i_e (id_info (pe_name pe)) <= M.

Lemma TabB_initialized : TabB initialized.
Proof. intros pe H. vm_compute in H. discriminate H. Qed.

Lemma TabB_enter t k v t' ok :
  enter t k v = (t', ok) -> TabB t ->
  (forall pe, v = GProcE pe -> fst (pe_range pe) + i_e (id_info (pe_name pe)) <= M) -> TabB t'.
Proof.
  unfold enter. destruct (lookup t k); intros [= <- <-] Ht Hv; [exact Ht|].
  intros pe Hl. rewrite lookup_app in Hl. destruct (lookup t s_main) eqn:E.
  - apply Ht. congruence.
  - destruct (text_eqb k s_main); [|discriminate]. apply Hv. congruence.
Qed.

Lemma br_build_typedecl d t off :
  TypedeclB M off d -> TabB t -> BRes (fun r => TypedeclB M off (fst r) /\ TabB (snd r)) (build_typedecl d t off).
Proof.
  intros (Hi & Hn & Hty) Ht. unfold build_typedecl. destruct (td_name d) as [name|] eqn:En.
  2:{ cbn. split; [|exact Ht]. unfold TypedeclB. rewrite En. bsplit. }
  cbn [OptB] in Hn. destruct (text_eqb _ _).
  - apply br_bind with (P := IdB M off); [apply br_ident_flag, Hn|].
    intros n' Hn'. cbn. bsplit.
  - apply br_bind with (P := fun r => OptB (RefB (TexprB M)) off (fst r)); [apply br_gdt, Hty|].
    intros [ty' dt] Hty'. cbn [fst] in Hty'.
    destruct (enter t (id_val name) _) as [t' ok] eqn:Een.
    apply br_bind with (P := IdB M off); [destruct ok; [exact Hn | apply br_ident_flag, Hn]|].
    intros n' Hn'. cbn. bsplit.
    eapply TabB_enter; [exact Een | exact Ht | intros pe E; discriminate E].
Qed.

Lemma br_build_parameter off p pn g l :
  RefB (ParamdeclB M) off p -> BRes (fun r => RefB (ParamdeclB M) off (fst (fst r))) (build_parameter p pn g l).
Proof.
  unfold build_parameter, RefB. destruct p as [pd o]. cbn [fst snd].
  destruct pd as [doc is_ref [name|] ty inf | inf]; intros H; try exact H.
  destruct H as (Hi & Hn & Hty). cbn [OptB] in Hn.
  apply br_bind with (P := fun r => OptB (RefB (TexprB M)) (off + o) (fst r)); [apply br_gdt, Hty|].
  intros [ty' dt] Hty'. cbn [fst] in Hty'.
  apply br_bind with (P := IdB M (off + o)).
  { destruct dt as [d|]; [|exact Hn]. destruct (_ && _); [apply br_ident_flag, Hn | exact Hn]. }
  intros name1 Hn1. destruct (enter l (id_val name) _) as [l' ok].
  apply br_bind with (P := IdB M (off + o)); [destruct ok; [exact Hn1 | apply br_ident_flag, Hn1]|].
  intros name2 Hn2. cbn. bsplit.
Qed.

Lemma br_build_parameters off ps pn g l :
  Forall (RefB (ParamdeclB M) off) ps ->
  BRes (fun r => Forall (RefB (ParamdeclB M) off) (fst (fst r))) (build_parameters ps pn g l).
Proof.
  intros H. revert l. induction H as [|p r Hp Hr IH]; intros l; cbn [build_parameters]; [constructor|].
  apply br_bind with (P := fun r => RefB (ParamdeclB M) off (fst (fst r))); [apply br_build_parameter, Hp|].
  intros [[p' l1] oe] Hp'. cbn [fst] in Hp'.
  apply br_bind with (P := fun r => Forall (RefB (ParamdeclB M) off) (fst (fst r))); [apply IH|].
  intros [[r' l2] es] Hr'. cbn. constructor; assumption.
Qed.

Lemma br_build_variable off v pn g l :
  RefB (VardeclB M) off v -> BRes (fun r => RefB (VardeclB M) off (fst r)) (build_variable v pn g l).
Proof.
  unfold build_variable, RefB. destruct v as [vd o]. cbn [fst snd].
  destruct vd as [doc [name|] ty inf | inf]; intros H; try exact H.
  destruct H as (Hi & Hn & Hty). cbn [OptB] in Hn.
  apply br_bind with (P := fun r => OptB (RefB (TexprB M)) (off + o) (fst r)); [apply br_gdt, Hty|].
  intros [ty' dt] Hty'. cbn [fst] in Hty'.
  destruct (enter l (id_val name) _) as [l' ok].
  apply br_bind with (P := IdB M (off + o)); [destruct ok; [exact Hn | apply br_ident_flag, Hn]|].
  intros name' Hn'. cbn. bsplit.
Qed.

Lemma br_build_variables off vs pn g l :
  Forall (RefB (VardeclB M) off) vs ->
  BRes (fun r => Forall (RefB (VardeclB M) off) (fst r)) (build_variables vs pn g l).
Proof.
  intros H. revert l. induction H as [|v r Hv Hr IH]; intros l; cbn [build_variables]; [constructor|].
  apply br_bind with (P := fun r => RefB (VardeclB M) off (fst r)); [apply br_build_variable, Hv|].
  intros [v' l1] Hv'. cbn [fst] in Hv'.
  apply br_bind with (P := fun r => Forall (RefB (VardeclB M) off) (fst r)); [apply IH|].
  intros [r' l2] Hr'. cbn. constructor; assumption.
Qed.

Lemma br_build_procdecl d t off :
  ProcdeclB M off d -> i_s (pd_info d) = 0 -> TabB t ->
  BRes (fun r => ProcdeclB M off (fst r) /\ TabB (snd r)) (build_procdecl d t off).
Proof.
  intros (Hi & Hn & Hps & Hvs & Hss) H0 Ht. unfold build_procdecl. destruct (pd_name d) as [name|] eqn:En.
  2:{ cbn. split; [|exact Ht]. unfold ProcdeclB. rewrite En. bsplit. }
  cbn [OptB] in Hn.
  apply br_bind with (P := fun r => Forall (RefB (ParamdeclB M) off) (fst (fst r))); [apply br_build_parameters, Hps|].
  intros [[ps' l1] params] Hps'. cbn [fst] in Hps'.
  apply br_bind with (P := fun r => Forall (RefB (VardeclB M) off) (fst r)); [apply br_build_variables, Hvs|].
  intros [vs' l2] Hvs'. cbn [fst] in Hvs'.
  destruct (enter t (id_val name) _) as [t' ok] eqn:Een.
  apply br_bind with (P := IdB M off); [destruct ok; [exact Hn | apply br_ident_flag, Hn]|].
  intros n' Hn'. cbn. split; [bsplit|].
  eapply TabB_enter; [exact Een | exact Ht |]. intros pe [= <-]. cbn [pe_range pe_name shift_range info_range fst].
  rewrite H0. pose proof (proj1 Hn). lia.
Qed.

Lemma br_build_gdecl d t off :
  GdeclB M off d -> i_s (gdecl_info d) = 0 -> TabB t ->
  BRes (fun r => GdeclB M off (fst r) /\ TabB (snd r)) (build_gdecl d t off).
Proof.
  destruct d as [td | pd | inf]; cbn [build_gdecl GdeclB gdecl_info]; intros H H0 Ht.
  - apply br_bind with (P := fun r => TypedeclB M off (fst r) /\ TabB (snd r)); [now apply br_build_typedecl|].
    intros [t' tb] H'. exact H'.
  - apply br_bind with (P := fun r => ProcdeclB M off (fst r) /\ TabB (snd r)); [now apply br_build_procdecl|].
    intros [p' tb] H'. exact H'.
  - cbn. auto.
Qed.

Definition StartsAt0 (ds : list (gdecl * nat)) : Prop := Forall (fun x => i_s (gdecl_info (fst x)) = 0) ds.

Lemma br_build_gdecls off ds t :
  Forall (RefB (GdeclB M) off) ds -> StartsAt0 ds -> TabB t ->
  BRes (fun r => Forall (RefB (GdeclB M) off) (fst r) /\ TabB (snd r)) (build_gdecls ds t off).
Proof.
  intros H. revert t. induction H as [|[d o] r Hd Hr IH]; intros t H0 Ht; cbn [build_gdecls].
  - cbn. auto.
  - inversion H0 as [|? ? H01 H02]; subst. cbn [fst] in H01. unfold RefB in Hd. cbn [fst snd] in Hd.
    apply br_bind with (P := fun r => GdeclB M (off + o) (fst r) /\ TabB (snd r)); [now apply br_build_gdecl|].
    intros [d' t1] [Hd' Ht1]. cbn [fst snd] in *.
    apply br_bind with (P := fun r => Forall (RefB (GdeclB M) off) (fst r) /\ TabB (snd r)); [now apply IH|].
    intros [r' t2] [Hr' Ht2]. cbn. split; [constructor; assumption | assumption].
Qed.

Lemma br_build_res p :
  ProgB M p -> StartsAt0 (pg_decls p) -> BRes (fun r => ProgB M (fst r)) (build_res p).
Proof.
  intros [Hi Hd] H0. unfold build_res, build_program.
  apply br_bind with (P := fun r => Forall (RefB (GdeclB M) 0) (fst r) /\ TabB (snd r)).
  { apply br_build_gdecls; [exact Hd | exact H0 | exact TabB_initialized]. }
  intros [ds' t'] [Hd' Ht]. cbn [fst snd] in *.
  destruct (lookup t' s_main) as [[te|main]|] eqn:L; [exact I | |].
  - destruct (pe_params main); [cbn; split; assumption|].
    unfold to_error. destruct (Nat.eqb _ 0); [exact I|]. cbn [rbind BRes fst e_s e_e].
    split; [|exact Hd']. cbn [pg_info]. apply InfoB_append; [exact Hi|].
    unfold ErrB, mkerr_t, shift_range. cbn [e_e fst snd]. pose proof (Ht main L). lia.
  - cbn. split; [|exact Hd']. apply InfoB_append; [exact Hi|]. unfold ErrB. cbn. lia.
Qed.

(* ---- analyze ---- *)
Lemma VarB_info off v : VarB M off v -> off + i_e (var_info v) <= M.
Proof. destruct v; cbn [VarB var_info]; [intros H; exact (proj1 H) | intros (H & _); exact (proj1 H)]. Qed.

Lemma ExprB_info off e : ExprB M off e -> off + i_e (expr_info e) <= M.
Proof.
  destruct e; cbn [ExprB expr_info]; try (intros (H & _); exact (proj1 H)); try (intros H; exact (proj1 H)).
  apply VarB_info.
Qed.

Lemma VarB_append off v x : VarB M off v -> ErrB M off x -> VarB M off (var_append v x).
Proof.
  destruct v; cbn [VarB var_append]; intros H Hx; [now apply IdB_append|].
  destruct H as (H1 & H2). split; [now apply InfoB_append | exact H2].
Qed.

Lemma ExprB_append off e x : ExprB M off e -> ErrB M off x -> ExprB M off (expr_append e x).
Proof.
  destruct e; cbn [ExprB expr_append]; intros H Hx;
    try (destruct H as (H1 & H2); split; [now apply InfoB_append | exact H2]).
  - exact (InfoB_append M off _ x H Hx).
  - now apply VarB_append.
  - now apply InfoB_append.
Qed.

Lemma ExprB_range_err off e m : ExprB M off e -> ExprB M off (expr_append e (mkerr_t (expr_range e) m)).
Proof. intros H. apply ExprB_append; [exact H|]. unfold ErrB. cbn. now apply ExprB_info. Qed.

Section AnalyzeB.
Variable L : option ltable.
Variable G : option gtable.

Fixpoint br_an_var off (v : variable) {struct v} :
  VarB M off v -> BRes (fun r => VarB M off (fst r)) (an_var L G v)
with br_an_expr off (e : expr) {struct e} :
  ExprB M off e -> BRes (fun r => ExprB M off (fst r)) (an_expr L G e).
Proof.
  - destruct v as [named | arr index inf]; cbn [an_var VarB].
    + intros H. destruct (lt_lookup L G _) as [[]|];
        try (apply br_bind with (P := IdB M off); [apply br_ident_flag, H | intros n' Hn'; exact Hn']);
        exact H.
    + intros (Hinf & Ha & Hi).
      apply br_bind with (P := fun idx => match idx with Some (e, o) => ExprB M (off + o) e | None => True end).
      * destruct index as [[e o]|]; [|exact I].
        apply br_bind with (P := fun r => ExprB M (off + o) (fst r)); [apply br_an_expr, Hi|].
        intros [e' ty] He'. cbn [fst] in He'. cbn.
        destruct ty as [[]|]; try exact He'; apply ExprB_range_err, He'.
      * intros index' Hi'.
        apply br_bind with (P := fun r => VarB M off (fst r)); [apply br_an_var, Ha|].
        intros [arr' aty] Ha'. cbn [fst] in Ha'.
        destruct aty as [[]|]; cbn; bsplit; apply InfoB_range_err, Hinf.
  - destruct e as [op l r inf | a inf | i | op a inf | v | inf]; cbn [an_expr ExprB]; intros H; try exact H.
    + destruct H as (Hinf & Hl & Hr).
      apply br_bind with (P := fun r => ExprB M off (fst r)); [apply br_an_expr, Hl|].
      intros [l' lt] Hl'. cbn [fst] in Hl'.
      apply br_bind with (P := fun r => ExprB M off (fst r)); [apply br_an_expr, Hr|].
      intros [r' rt] Hr'. cbn [fst] in Hr'. cbn. split; [|split; assumption].
      destruct lt as [a|]; [|exact Hinf]. destruct rt as [b|]; [|exact Hinf].
      destruct (_ && _); [exact Hinf|]. destruct (_ || _); [apply InfoB_range_err, Hinf|].
      destruct (is_arithmetic op); apply InfoB_range_err, Hinf.
    + destruct H as (Hinf & Ha).
      apply br_bind with (P := fun r => ExprB M off (fst r)); [apply br_an_expr, Ha|].
      intros [a' ty] Ha'. cbn. split; assumption.
    + destruct H as (Hinf & Ha).
      apply br_bind with (P := fun r => ExprB M off (fst r)); [apply br_an_expr, Ha|].
      intros [a' ty] Ha'. cbn. split; [|exact Ha'].
      destruct ty as [t|]; [|exact Hinf]. destruct (is_int t); [exact Hinf | apply InfoB_range_err, Hinf].
    + apply br_bind with (P := fun r => VarB M off (fst r)); [apply br_an_var, H|].
      intros [v' ty] Hv'. exact Hv'.
Qed.

Lemma br_an_cond off c m :
  OptB (RefB (ExprB M)) off c -> BRes (OptB (RefB (ExprB M)) off) (an_cond L G c m).
Proof.
  unfold an_cond. destruct c as [[e o]|]; intros H; [|exact I].
  apply br_bind with (P := fun r => ExprB M (off + o) (fst r)); [apply br_an_expr, H|].
  intros [e' ty] He'. cbn [fst] in He'. cbn. unfold RefB. cbn [fst snd].
  destruct ty as [[]|]; try exact He'; apply ExprB_range_err, He'.
Qed.

Lemma br_an_args off cname i args params :
  Forall (RefB (ExprB M) off) args -> BRes (Forall (RefB (ExprB M) off)) (an_args L G cname i args params).
Proof.
  intros H. revert i params. induction H as [|[a o] ar Ha Har IH]; intros i params; cbn [an_args]; [constructor|].
  destruct params as [|p pr]; [cbn; constructor; assumption|].
  unfold RefB in Ha. cbn [fst snd] in Ha.
  apply br_bind with (P := fun r => ExprB M (off + o) (fst r)).
  { apply br_an_expr. destruct (_ && _); [apply ExprB_range_err, Ha | exact Ha]. }
  intros [a2 ty] Ha2. cbn [fst] in Ha2.
  apply br_bind with (P := Forall (RefB (ExprB M) off)); [apply IH|].
  intros r Hr. cbn. constructor; [|exact Hr]. unfold RefB. cbn [fst snd].
  destruct ty as [t1|]; [|exact Ha2]. destruct (ve_ty p) as [t2|]; [|exact Ha2].
  destruct (dt_eqb t1 t2); [exact Ha2|]. apply ExprB_append; [exact Ha2|].
  unfold ErrB. cbn. now apply ExprB_info.
Qed.

Fixpoint br_an_stmt off (s : stmt) {struct s} : StmtB M off s -> BRes (StmtB M off) (an_stmt L G s).
Proof.
  destruct s as [inf | v e inf | name args inf | c t e inf | c b inf | body inf | inf]; cbn [an_stmt];
    try (intros H; exact H).
  - intros (Hinf & Hv & He). destruct e as [[e o]|]; [|cbn; bsplit].
    apply br_bind with (P := fun r => VarB M off (fst r)); [apply br_an_var, Hv|].
    intros [v' lty] Hv'. cbn [fst] in Hv'.
    apply br_bind with (P := fun r => ExprB M (off + o) (fst r)); [apply br_an_expr, He|].
    intros [e' rty] He'. cbn [fst] in He'. cbn. split; [|split; assumption].
    destruct lty as [l|]; [|exact Hinf]. destruct rty as [r|]; [|exact Hinf].
    destruct (negb (dt_eqb l r)); [apply InfoB_range_err, Hinf|].
    destruct (negb (is_int l)); [apply InfoB_range_err, Hinf | exact Hinf].
  - intros (Hinf & Hn & Ha).
    destruct (lt_lookup L G _) as [[]|];
      try (cbn; bsplit; apply InfoB_range_err, Hinf).
    apply br_bind with (P := Forall (RefB (ExprB M) off)); [apply br_an_args, Ha|].
    intros args' Ha'. cbn. bsplit.
    destruct (Nat.compare _ _); [exact Hinf | |]; apply InfoB_range_err, Hinf.
  - intros (Hinf & Hc & Ht & He).
    apply br_bind with (P := OptB (RefB (ExprB M)) off); [apply br_an_cond, Hc|]. intros c' Hc'.
    apply br_bind with (P := fun r => match r with Some (x, o) => StmtB M (off + o) x | None => True end).
    { destruct t as [[x o]|]; [|exact I].
      apply br_bind with (P := StmtB M (off + o)); [apply br_an_stmt, Ht | intros x' Hx'; exact Hx']. }
    intros t' Ht'.
    apply br_bind with (P := fun r => match r with Some (x, o) => StmtB M (off + o) x | None => True end).
    { destruct e as [[x o]|]; [|exact I].
      apply br_bind with (P := StmtB M (off + o)); [apply br_an_stmt, He | intros x' Hx'; exact Hx']. }
    intros e' He'. cbn. bsplit.
  - intros (Hinf & Hc & Hb).
    apply br_bind with (P := OptB (RefB (ExprB M)) off); [apply br_an_cond, Hc|]. intros c' Hc'.
    apply br_bind with (P := fun r => match r with Some (x, o) => StmtB M (off + o) x | None => True end).
    { destruct b as [[x o]|]; [|exact I].
      apply br_bind with (P := StmtB M (off + o)); [apply br_an_stmt, Hb | intros x' Hx'; exact Hx']. }
    intros b' Hb'. cbn. bsplit.
  - intros H. apply StmtB_block in H as [Hinf H].
    apply br_bind with (P := Forall (RefB (StmtB M) off)); [|intros body' Hb'; apply StmtB_block; split; assumption].
    clear Hinf. induction body as [|[x o] r IHr]; [constructor|].
    inversion H as [|? ? Hx Hr]; subst. unfold RefB in Hx. cbn [fst snd] in Hx.
    apply br_bind with (P := StmtB M (off + o)); [apply br_an_stmt, Hx|]. intros x' Hx'.
    apply br_bind with (P := Forall (RefB (StmtB M) off)); [apply IHr, Hr|]. intros r' Hr'.
    cbn. constructor; assumption.
Qed.

Lemma br_an_stmts off l : Forall (RefB (StmtB M) off) l -> BRes (Forall (RefB (StmtB M) off)) (an_stmts L G l).
Proof.
  induction 1 as [|[x o] r Hx Hr IH]; cbn [an_stmts]; [constructor|].
  unfold RefB in Hx. cbn [fst snd] in Hx.
  apply br_bind with (P := StmtB M (off + o)); [apply br_an_stmt, Hx|]. intros x' Hx'.
  apply br_bind with (P := Forall (RefB (StmtB M) off)); [exact IH|]. intros r' Hr'.
  cbn. constructor; assumption.
Qed.

End AnalyzeB.

Lemma br_analyze_gdecl off t d : RefB (GdeclB M) off d -> BRes (RefB (GdeclB M) off) (analyze_gdecl t d).
Proof.
  unfold analyze_gdecl. destruct d as [g o]. destruct g as [td | pd | inf]; intros H; try exact H.
  destruct (pd_name pd) as [name|] eqn:En; [|exact H].
  destruct (lookup t (id_val name)) as [[te|pe]|]; [exact H | | exact I].
  destruct (negb _); [exact H|].
  unfold RefB in H. cbn [fst snd GdeclB] in H. destruct H as (Hi & Hn & Hps & Hvs & Hss).
  apply br_bind with (P := Forall (RefB (StmtB M) (off + o))); [apply br_an_stmts, Hss|].
  intros stmts' Hs'. rewrite En in Hn. unfold RefB, GdeclB, ProcdeclB. cbn. bsplit.
Qed.

Lemma br_analyze_gdecls off t ds :
  Forall (RefB (GdeclB M) off) ds -> BRes (Forall (RefB (GdeclB M) off)) (analyze_gdecls t ds).
Proof.
  induction 1 as [|d r Hd Hr IH]; cbn [analyze_gdecls]; [constructor|].
  apply br_bind with (P := RefB (GdeclB M) off); [apply br_analyze_gdecl, Hd|]. intros d' Hd'.
  apply br_bind with (P := Forall (RefB (GdeclB M) off)); [exact IH|]. intros r' Hr'.
  cbn. constructor; assumption.
Qed.

Lemma br_analyze_res p t : ProgB M p -> BRes (ProgB M) (analyze_res p t).
Proof.
  intros [Hi Hd]. unfold analyze_res.
  apply br_bind with (P := Forall (RefB (GdeclB M) 0)); [apply br_analyze_gdecls, Hd|].
  intros ds' Hd'. split; assumption.
Qed.

(* ---- what errors() collects ---- *)
Lemma shift_es_B off o l : Forall (ErrB M (off + o)) l -> Forall (ErrB M off) (shift_es o l).
Proof.
  intros H. unfold shift_es. apply Forall_map. eapply Forall_impl; [|exact H].
  intros x Hx. unfold ErrB, shift_e in *. cbn [e_e]. lia.
Qed.

Lemma flat_map_B {A} off (f : A -> list err) l :
  Forall (fun x => Forall (ErrB M off) (f x)) l -> Forall (ErrB M off) (flat_map f l).
Proof. induction 1; cbn [flat_map]; [constructor | apply Forall_app; split; assumption]. Qed.

Fixpoint var_errors_B off (v : variable) {struct v} : VarB M off v -> Forall (ErrB M off) (var_errors v)
with expr_errors_B off (e : expr) {struct e} : ExprB M off e -> Forall (ErrB M off) (expr_errors e).
Proof.
  - destruct v as [n | a idx inf]; cbn [VarB var_errors].
    + intros H. exact (proj2 H).
    + intros (Hi & Ha & Hx). apply Forall_app. split; [exact (proj2 Hi)|]. apply Forall_app. split.
      * apply var_errors_B, Ha.
      * destruct idx as [[e o]|]; [|constructor]. apply shift_es_B, expr_errors_B, Hx.
  - destruct e as [op l r inf | a inf | i | op a inf | v | inf]; cbn [ExprB expr_errors].
    + intros (Hi & Hl & Hr). apply Forall_app. split; [exact (proj2 Hi)|]. apply Forall_app. split;
        apply expr_errors_B; assumption.
    + intros (Hi & Ha). apply Forall_app. split; [exact (proj2 Hi) | apply expr_errors_B, Ha].
    + intros H. exact (proj2 H).
    + intros (Hi & Ha). apply Forall_app. split; [exact (proj2 Hi) | apply expr_errors_B, Ha].
    + apply var_errors_B.
    + intros H. exact (proj2 H).
Qed.

Fixpoint texpr_errors_B off (t : typeexpr) {struct t} : TexprB M off t -> Forall (ErrB M off) (texpr_errors t).
Proof.
  destruct t as [n | size base inf]; cbn [TexprB texpr_errors].
  - intros H. exact (proj2 H).
  - intros (Hi & _ & Hb). apply Forall_app. split; [exact (proj2 Hi)|].
    destruct base as [[b o]|]; [|constructor]. apply shift_es_B, texpr_errors_B, Hb.
Qed.

Lemma opt_ident_errors_B off n : OptB (IdB M) off n -> Forall (ErrB M off) (opt_ident_errors n).
Proof. destruct n as [i|]; [intros H; exact (proj2 H) | constructor]. Qed.

Lemma opt_texpr_errors_B off t : OptB (RefB (TexprB M)) off t -> Forall (ErrB M off) (opt_texpr_errors t).
Proof. destruct t as [[x o]|]; [intros H; apply shift_es_B, texpr_errors_B, H | constructor]. Qed.

Lemma opt_expr_errors_B off t : OptB (RefB (ExprB M)) off t -> Forall (ErrB M off) (opt_expr_errors t).
Proof. destruct t as [[x o]|]; [intros H; apply shift_es_B, expr_errors_B, H | constructor]. Qed.

Fixpoint stmt_errors_B off (s : stmt) {struct s} : StmtB M off s -> Forall (ErrB M off) (stmt_errors s).
Proof.
  assert (Hopt : forall r : option (stmt * nat),
             match r with Some (x, o) => StmtB M (off + o) x | None => True end ->
             (forall x o, r = Some (x, o) -> StmtB M (off + o) x -> Forall (ErrB M (off + o)) (stmt_errors x)) ->
             Forall (ErrB M off) (match r with Some (x, o) => shift_es o (stmt_errors x) | None => [] end)).
  { intros [[x o]|] H K; [|constructor]. apply shift_es_B. eapply K; [reflexivity | exact H]. }
  destruct s as [inf | v e inf | name args inf | c t e inf | c b inf | body inf | inf]; cbn [StmtB stmt_errors].
  - intros H. exact (proj2 H).
  - intros (Hi & Hv & He). apply Forall_app. split; [exact (proj2 Hi)|]. apply Forall_app. split;
      [apply var_errors_B, Hv | apply opt_expr_errors_B, He].
  - intros (Hi & Hn & Ha). apply Forall_app. split; [exact (proj2 Hi)|]. apply Forall_app. split; [exact (proj2 Hn)|].
    apply flat_map_B. eapply Forall_impl; [|exact Ha]. intros [a o] H. apply shift_es_B, expr_errors_B, H.
  - intros (Hi & Hc & Ht & He). apply Forall_app. split; [exact (proj2 Hi)|]. apply Forall_app. split;
      [apply opt_expr_errors_B, Hc|]. apply Forall_app. split.
    + destruct t as [[x o]|]; [|constructor]. apply shift_es_B, stmt_errors_B, Ht.
    + destruct e as [[x o]|]; [|constructor]. apply shift_es_B, stmt_errors_B, He.
  - intros (Hi & Hc & Hb). apply Forall_app. split; [exact (proj2 Hi)|]. apply Forall_app. split;
      [apply opt_expr_errors_B, Hc|].
    destruct b as [[x o]|]; [|constructor]. apply shift_es_B, stmt_errors_B, Hb.
  - intros (Hi & Hb). apply Forall_app. split; [exact (proj2 Hi)|]. clear Hopt.
    induction body as [|[x o] r IHr]; [constructor|]. destruct Hb as [Hx Hr].
    apply Forall_app. split; [apply shift_es_B, stmt_errors_B, Hx | apply IHr, Hr].
  - intros H. exact (proj2 H).
Qed.

Lemma vardecl_errors_B off v : VardeclB M off v -> Forall (ErrB M off) (vardecl_errors v).
Proof.
  destruct v as [doc name ty inf | inf]; cbn [VardeclB vardecl_errors]; [|intros H; exact (proj2 H)].
  intros (Hi & Hn & Ht). apply Forall_app. split; [exact (proj2 Hi)|]. apply Forall_app. split;
    [apply opt_ident_errors_B, Hn | apply opt_texpr_errors_B, Ht].
Qed.

Lemma paramdecl_errors_B off p : ParamdeclB M off p -> Forall (ErrB M off) (paramdecl_errors p).
Proof.
  destruct p as [doc rf name ty inf | inf]; cbn [ParamdeclB paramdecl_errors]; [|intros H; exact (proj2 H)].
  intros (Hi & Hn & Ht). apply Forall_app. split; [exact (proj2 Hi)|]. apply Forall_app. split;
    [apply opt_ident_errors_B, Hn | apply opt_texpr_errors_B, Ht].
Qed.

Lemma gdecl_errors_B off g : GdeclB M off g -> Forall (ErrB M off) (gdecl_errors g).
Proof.
  destruct g as [d | d | inf]; cbn [GdeclB gdecl_errors]; [| |intros H; exact (proj2 H)].
  - intros (Hi & Hn & Ht). unfold typedecl_errors. apply Forall_app. split; [exact (proj2 Hi)|].
    apply Forall_app. split; [apply opt_ident_errors_B, Hn | apply opt_texpr_errors_B, Ht].
  - intros (Hi & Hn & Hps & Hvs & Hss). unfold procdecl_errors.
    apply Forall_app. split; [exact (proj2 Hi)|]. apply Forall_app. split; [apply opt_ident_errors_B, Hn|].
    apply Forall_app. split; [|apply Forall_app; split]; apply flat_map_B.
    + eapply Forall_impl; [|exact Hps]. intros [x o] H. apply shift_es_B, paramdecl_errors_B, H.
    + eapply Forall_impl; [|exact Hvs]. intros [x o] H. apply shift_es_B, vardecl_errors_B, H.
    + eapply Forall_impl; [|exact Hss]. intros [x o] H. apply shift_es_B, stmt_errors_B, H.
Qed.

Lemma tree_errors_B p : ProgB M p -> Forall (ErrB M 0) (tree_errors p).
Proof.
  intros [Hi Hd]. unfold tree_errors. apply Forall_app. split; [exact (proj2 Hi)|].
  apply flat_map_B. eapply Forall_impl; [|exact Hd]. intros [g o] H. apply shift_es_B, gdecl_errors_B, H.
Qed.

End SemBound.

(* ------------------------------------------------------------------------------------------ *)
(* the tree of a document *)

Lemma Spans_starts toks l : forall a b, Spans toks a l b -> StartsAt0 l.
Proof.
  induction l as [|[g off] l IH]; intros a b; cbn [Spans]; [constructor|].
  intros (_ & H0 & _ & _ & Hr). constructor; [exact H0 | eapply IH, Hr].
Qed.

Lemma parse_starts toks p : EofLast toks -> parse toks = Done p -> StartsAt0 (pg_decls p).
Proof. intros HE H. destruct (T5_sync toks p HE H) as (Hs & _). eapply Spans_starts, Hs. Qed.

(* RangesInBounds: every range of the tree, read at its accumulated Reference offset, ends at or
   before the Eof token; in particular every error range `tree_errors` publishes *)
Definition RangesInBounds (toks : list token) (p : program) : Prop := ProgB (length toks - 1) p.

Theorem build_bounded M p p' t : ProgB M p -> StartsAt0 (pg_decls p) -> build_res p = ROk (p', t) -> ProgB M p'.
Proof. intros H H0 E. pose proof (br_build_res M p H H0) as Hr. rewrite E in Hr. exact Hr. Qed.

Theorem analyze_bounded M p t p' : ProgB M p -> analyze_res p t = ROk p' -> ProgB M p'.
Proof. intros H E. pose proof (br_analyze_res M p t H) as Hr. rewrite E in Hr. exact Hr. Qed.

Theorem doc_bounded t d : new_doc_res t = ODone d -> RangesInBounds (d_toks d) (d_ast d) /\ EofLast (d_toks d).
Proof.
  intros H. destruct (new_doc_shape t d H) as (_ & _ & HE & _ & p & p1 & Hp & Hb & Ha).
  split; [|exact HE]. unfold RangesInBounds.
  eapply analyze_bounded; [|exact Ha]. eapply build_bounded; [| |exact Hb].
  - now apply parse_bounded.
  - now apply (parse_starts (d_toks d)).
Qed.

Theorem doc_errors_bounded t d :
  new_doc_res t = ODone d -> Forall (fun x => e_e x < length (d_toks d)) (tree_errors (d_ast d)).
Proof.
  intros H. destruct (doc_bounded t d H) as [Hb HE]. pose proof (N_pos _ HE) as HN.
  eapply Forall_impl; [|exact (tree_errors_B _ _ Hb)]. intros x Hx. unfold ErrB in Hx. lia.
Qed.

(* ------------------------------------------------------------------------------------------ *)
(* errors(): token range -> byte range *)

Lemma hd_error_none {A} (l : list A) : hd_error l = None -> l = [].
Proof. destruct l; [reflexivity | discriminate]. Qed.

Lemma byte_range_ok toks x : e_e x < length toks -> exists y, byte_range toks x = ROk y.
Proof.
  intros H. unfold byte_range. destruct (Nat.ltb (e_s x) (e_e x)) eqn:E1.
  - apply Nat.ltb_lt in E1. rewrite (proj2 (Nat.ltb_ge (length toks) (e_e x))) by lia.
    set (sl := firstn (e_e x - e_s x) (skipn (e_s x) toks)).
    assert (Hl : 0 < length sl) by (unfold sl; rewrite firstn_length, skipn_length; lia).
    destruct (hd_error sl) as [a|] eqn:Ea.
    2:{ apply hd_error_none in Ea. rewrite Ea in Hl. cbn in Hl. lia. }
    destruct (hd_error (rev sl)) as [b|] eqn:Eb; [eauto|].
    apply hd_error_none in Eb. apply (f_equal (@length token)) in Eb. rewrite rev_length in Eb. cbn in Eb. lia.
  - destruct (nth_error toks (e_e x)) as [t|] eqn:Et; [eauto|].
    apply nth_error_None in Et. lia.
Qed.

Lemma byte_ranges_ok toks l :
  Forall (fun x => e_e x < length toks) l -> exists r, byte_ranges toks l = ROk r.
Proof.
  induction 1 as [|x l Hx Hl [r IH]]; cbn [byte_ranges]; [eauto|].
  destruct (byte_range_ok toks x Hx) as [y ->]. rewrite IH. cbn. eauto.
Qed.

Lemma In_firstn {A} n (l : list A) x : In x (firstn n l) -> In x l.
Proof. intros H. rewrite <- (firstn_skipn n l). apply in_or_app. now left. Qed.

Lemma Ordered_nth lo l : Ordered lo l -> forall j b, nth_error l j = Some b -> (lo <= ts b /\ ts b <= te b)%N.
Proof.
  induction 1 as [lo | lo t tl H1 H2 H3 H4 IH]; intros j b Hj; [destruct j; discriminate|].
  destruct j as [|j]; cbn [nth_error] in Hj.
  - injection Hj as <-. split; assumption.
  - destruct (IH j b Hj) as [A B]. split; [|exact B]. apply N.le_trans with (te t); [|exact A].
    apply N.le_trans with (ts t); assumption.
Qed.

Lemma Ordered_pair lo l : Ordered lo l ->
  forall i j a b, i <= j -> nth_error l i = Some a -> nth_error l j = Some b -> (ts a <= te b)%N.
Proof.
  induction 1 as [lo | lo t tl H1 H2 H3 H4 IH]; intros i j a b Hij Hi Hj; [destruct i; discriminate|].
  destruct i as [|i], j as [|j]; cbn [nth_error] in *; try lia.
  - assert (a = t) by congruence. assert (b = t) by congruence. subst a b. exact H2.
  - assert (a = t) by congruence. subst a. destruct (Ordered_nth _ _ H4 j b Hj) as [A B].
    apply N.le_trans with (te t); [exact H2|]. apply N.le_trans with (ts b); assumption.
  - eapply IH; [|exact Hi|exact Hj]. lia.
Qed.

Lemma byte_range_inside toks B x y :
  Ordered 0 toks -> Forall (fun t => (te t <= B)%N) toks -> byte_range toks x = ROk y ->
  (fst (fst y) <= snd (fst y) <= B)%N.
Proof.
  intros Ho Hb. rewrite Forall_forall in Hb. unfold byte_range. destruct (Nat.ltb (e_s x) (e_e x)) eqn:E1.
  - destruct (Nat.ltb (length toks) (e_e x)); [discriminate|].
    set (sl := firstn (e_e x - e_s x) (skipn (e_s x) toks)).
    destruct (hd_error sl) as [a|] eqn:Ea; [|discriminate].
    destruct (hd_error (rev sl)) as [b|] eqn:Eb; [|discriminate].
    intros [= <-]. cbn [fst snd].
    assert (Ha : nth_error toks (e_s x) = Some a).
    { unfold sl in Ea. apply Nat.ltb_lt in E1.
      destruct (e_e x - e_s x) as [|n] eqn:En; [lia|].
      destruct (skipn (e_s x) toks) as [|t0 r] eqn:Es; [discriminate|]. cbn in Ea. injection Ea as <-.
      pose proof (nth_error_skipn_add toks (e_s x) 0) as Hn. rewrite Es in Hn. cbn in Hn.
      rewrite Nat.add_0_r in Hn. congruence. }
    assert (Hbn : exists j, e_s x <= j /\ nth_error toks j = Some b).
    { assert (Hin : In b (skipn (e_s x) toks)).
      { apply In_firstn with (n := e_e x - e_s x). fold sl. apply in_rev.
        destruct (rev sl) as [|b0 r]; [discriminate|]. cbn in Eb. injection Eb as <-. now left. }
      apply In_nth_error in Hin as [k Hk]. rewrite nth_error_skipn_add in Hk.
      exists (e_s x + k). split; [lia | exact Hk]. }
    destruct Hbn as (j & Hj1 & Hj2). split.
    + eapply Ordered_pair; [exact Ho | exact Hj1 | exact Ha | exact Hj2].
    + apply Hb. eapply nth_error_In, Hj2.
  - destruct (nth_error toks (e_e x)) as [t|] eqn:Et; [|discriminate]. intros [= <-]. cbn [fst snd].
    split; [apply N.le_refl | apply Hb; eapply nth_error_In, Et].
Qed.

Lemma byte_ranges_inside toks B l r :
  Ordered 0 toks -> Forall (fun t => (te t <= B)%N) toks -> byte_ranges toks l = ROk r ->
  Forall (fun y => (fst (fst y) <= snd (fst y) <= B)%N) r.
Proof.
  intros Ho Hb. revert r. induction l as [|x l IH]; intros r; cbn [byte_ranges]; [intros [= <-]; constructor|].
  destruct (byte_range toks x) as [y|] eqn:Ey; cbn [rbind]; [|discriminate].
  destruct (byte_ranges toks l) as [r'|]; cbn [rbind]; [|discriminate].
  intros [= <-]. constructor; [eapply byte_range_inside; eassumption | now apply IH].
Qed.

Lemma lex_tokens_inside t toks : lex t = Some toks -> Forall (fun k => (te k <= blen t)%N) toks.
Proof.
  intros H. eapply Forall_impl; [|exact (tiles_boundaries 0 t toks (lex_tiles t toks H))].
  cbn beta. intros k (a & b & c & -> & H1 & H2). rewrite !blen_app. lia.
Qed.

(* ------------------------------------------------------------------------------------------ *)
(* AnalyzedSource::errors() never panics ... *)
Theorem doc_errors_total t d : new_doc_res t = ODone d -> exists l, doc_errors_res d = ROk l.
Proof. intros H. unfold doc_errors_res. apply byte_ranges_ok. exact (doc_errors_bounded t d H). Qed.

(* ... and every byte range it publishes lies inside the document *)
Theorem errors_inside t d l :
  new_doc_res t = ODone d -> doc_errors_res d = ROk l ->
  Forall (fun y => (fst (fst y) <= snd (fst y) <= blen t)%N) l.
Proof.
  intros H Hl. destruct (new_doc_shape t d H) as (_ & Hlex & _).
  unfold doc_errors_res in Hl. eapply byte_ranges_inside; [| |exact Hl].
  - exact (tiles_ordered 0 t _ (lex_tiles t _ Hlex)).
  - exact (lex_tokens_inside t _ Hlex).
Qed.

(* the robustness core of C02 in one statement *)
Theorem analysis_total t :
  exists d l, new_doc_res t = ODone d /\ doc_errors_res d = ROk l /\
              Forall (fun y => (fst (fst y) <= snd (fst y) <= blen t)%N) l.
Proof.
  destruct (new_doc_total t) as [d Hd]. destruct (doc_errors_total t d Hd) as [l Hl].
  exists d, l. split; [exact Hd|]. split; [exact Hl | exact (errors_inside t d l Hd Hl)].
Qed.
