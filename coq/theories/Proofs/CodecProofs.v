(* Proofs about the codec model (C19): a verdict of `decode` is stable under more input, the
   FramedRead loop is independent of the segmentation of the byte stream, and frames written by
   `encode_frame` are read back exactly, with lengths counted in bytes. *)
From Coq Require Import List NArith Bool Lia PeanoNat.
Import ListNotations.
From Spl Require Import Model.Codec.
Open Scope N_scope.

(* ------------------------------------------------------------------------------------------ *)
(* 1. the header parser never revises a final answer *)

Lemma hrun_app : forall l hs s pos x,
  hrun hs s pos l <> HPartial -> hrun hs s pos (l ++ x) = hrun hs s pos l.
Proof.
  induction l as [|a l IH]; intros hs s pos x H; cbn [hrun app] in *.
  - congruence.
  - destruct (hstep hs s a); auto.
Qed.

Lemma parse_headers_app : forall l x,
  parse_headers l <> HPartial -> parse_headers (l ++ x) = parse_headers l.
Proof. intros. apply hrun_app. assumption. Qed.

(* ------------------------------------------------------------------------------------------ *)
(* 2. decode is monotone *)

Lemma blen_app : forall a b : list N, blen (a ++ b) = blen a + blen b.
Proof. intros. unfold blen. rewrite app_length. lia. Qed.

Lemma blen_cons : forall (a : N) l, blen (a :: l) = 1 + blen l.
Proof. intros. unfold blen. cbn [length]. lia. Qed.

Lemma firstn_skipn_app : forall (b x : list N) (s l : nat),
  (s + l <= length b)%nat -> firstn l (skipn s (b ++ x)) = firstn l (skipn s b).
Proof.
  intros b x s l H.
  rewrite skipn_app. replace (s - length b)%nat with O by lia. cbn [skipn].
  rewrite firstn_app. rewrite skipn_length. replace (l - (length b - s))%nat with O by lia.
  cbn [firstn]. apply app_nil_r.
Qed.

Lemma skipn_app_le : forall (b x : list N) (n : nat),
  (n <= length b)%nat -> skipn n (b ++ x) = skipn n b ++ x.
Proof.
  intros b x n H. rewrite skipn_app. replace (n - length b)%nat with O by lia. reflexivity.
Qed.

Lemma decode_mono_frame : forall b x m n, decode b = Frame m n -> decode (b ++ x) = Frame m n.
Proof.
  intros b x m n H. unfold decode in *.
  destruct (blen b <? 21) eqn:G; [discriminate|].
  apply N.ltb_ge in G.
  assert (G' : blen (b ++ x) <? 21 = false) by (apply N.ltb_ge; rewrite blen_app; lia).
  rewrite G'.
  destruct (parse_headers b) as [| |start hs] eqn:P; try discriminate.
  rewrite parse_headers_app by congruence. rewrite P.
  destruct (find _ hs) as [h|]; [|discriminate].
  destruct (parse_usize (snd h)) as [len|]; [|discriminate].
  destruct (USIZE_LIMIT <=? start + len); [discriminate|].
  destruct (blen b <? start + len) eqn:L; [discriminate|].
  apply N.ltb_ge in L.
  assert (L' : blen (b ++ x) <? start + len = false) by (apply N.ltb_ge; rewrite blen_app; lia).
  rewrite L'. inversion H; subst. f_equal.
  apply firstn_skipn_app. unfold blen in L. lia.
Qed.

Lemma decode_mono_bad : forall b x, decode b = Bad -> decode (b ++ x) = Bad.
Proof.
  intros b x H. unfold decode in *.
  destruct (blen b <? 21) eqn:G; [discriminate|].
  apply N.ltb_ge in G.
  assert (G' : blen (b ++ x) <? 21 = false) by (apply N.ltb_ge; rewrite blen_app; lia).
  rewrite G'.
  destruct (parse_headers b) as [| |start hs] eqn:P; try discriminate.
  - rewrite parse_headers_app by congruence. rewrite P. reflexivity.
  - rewrite parse_headers_app by congruence. rewrite P.
    destruct (find _ hs) as [h|]; [|reflexivity].
    destruct (parse_usize (snd h)) as [len|]; [|reflexivity].
    destruct (USIZE_LIMIT <=? start + len); [discriminate|].
    destruct (blen b <? start + len); discriminate.
Qed.

Lemma decode_mono_crash : forall b x, decode b = Crash -> decode (b ++ x) = Crash.
Proof.
  intros b x H. unfold decode in *.
  destruct (blen b <? 21) eqn:G; [discriminate|].
  apply N.ltb_ge in G.
  assert (G' : blen (b ++ x) <? 21 = false) by (apply N.ltb_ge; rewrite blen_app; lia).
  rewrite G'.
  destruct (parse_headers b) as [| |start hs] eqn:P; try discriminate.
  rewrite parse_headers_app by congruence. rewrite P.
  destruct (find _ hs) as [h|]; [|discriminate].
  destruct (parse_usize (snd h)) as [len|]; [|discriminate].
  destruct (USIZE_LIMIT <=? start + len); [reflexivity|].
  destruct (blen b <? start + len); discriminate.
Qed.

(* more bytes never change a verdict *)
Lemma decode_mono : forall b x,
  (forall m n, decode b = Frame m n -> decode (b ++ x) = Frame m n) /\
  (decode b = Bad -> decode (b ++ x) = Bad) /\
  (decode b = Crash -> decode (b ++ x) = Crash).
Proof.
  intros b x. split; [|split].
  - intros m n. apply decode_mono_frame.
  - apply decode_mono_bad.
  - apply decode_mono_crash.
Qed.

(* Complete reports a position past the bytes consumed before *)
Lemma hrun_complete_pos : forall l hs s pos p hs',
  hrun hs s pos l = HComplete p hs' -> pos < p.
Proof.
  induction l as [|a l IH]; intros hs s pos p hs' H; cbn [hrun] in H.
  - discriminate.
  - destruct (hstep hs s a) as [hs1 s1| |hs1].
    + apply IH in H. lia.
    + discriminate.
    + inversion H; subst. lia.
Qed.

(* a frame consumes at least one byte and never more than the buffer holds *)
Lemma decode_frame_bounds : forall b m n, decode b = Frame m n -> 1 <= n /\ n <= blen b.
Proof.
  intros b m n H. unfold decode in H.
  destruct (blen b <? 21); [discriminate|].
  destruct (parse_headers b) as [| |start hs] eqn:P; try discriminate.
  apply hrun_complete_pos in P.
  destruct (find _ hs) as [h|]; [|discriminate].
  destruct (parse_usize (snd h)) as [len|]; [|discriminate].
  destruct (USIZE_LIMIT <=? start + len); [discriminate|].
  destruct (blen b <? start + len) eqn:L; [discriminate|]. apply N.ltb_ge in L.
  inversion H; subst. lia.
Qed.

Lemma decode_nil : decode [] = NeedMore.
Proof. reflexivity. Qed.

(* ------------------------------------------------------------------------------------------ *)
(* 3. the FramedRead loop *)

Lemma drain_skip : forall jo k buf, (k <= length buf)%nat -> drain jo k buf = drain jo 0 (skipn k buf).
Proof.
  induction k as [|k IH]; intros buf H.
  - reflexivity.
  - destruct buf as [|a t]; cbn [length] in H; [lia|].
    cbn [drain skipn]. apply IH. lia.
Qed.

(* the defining equation of the decode loop *)
Lemma drain_eq : forall jc buf,
  drain jc 0 buf =
  match decode buf with
  | NeedMore => ([], Some buf)
  | Bad => ([EErr], None)
  | Crash => ([ECrash], None)
  | Frame m n =>
      match jc m with
      | JMsg => let (ev, r) := drain jc 0 (skipn (N.to_nat n) buf) in (EMsg m :: ev, r)
      | JNull => ([], Some (skipn (N.to_nat n) buf))
      | JBad => ([EBadJson m], None)
      end
  end.
Proof.
  intros jc [|a t].
  - reflexivity.
  - cbn [drain]. destruct (decode (a :: t)) as [|m n| |] eqn:D; try reflexivity.
    apply decode_frame_bounds in D. destruct D as [D1 D2]. rewrite blen_cons in D2.
    assert (E : skipn (N.to_nat n) (a :: t) = skipn (N.to_nat n - 1) t).
    { replace (N.to_nat n) with (S (N.to_nat n - 1)) at 1 by lia. reflexivity. }
    rewrite E.
    destruct (jc m); try reflexivity.
    rewrite drain_skip by (unfold blen in D2; lia). reflexivity.
Qed.

(* a body classification without the consumed-but-Ok(None) outcome *)
Definition no_null (jc : list N -> jclass) : Prop := forall b, jc b <> JNull.

Lemma jc_of_bool_no_null : forall json_ok, no_null (jc_of_bool json_ok).
Proof. intros json_ok b. unfold jc_of_bool. destruct (json_ok b); discriminate. Qed.

(* draining a longer buffer: same events while the shorter buffer has frames, then the loop goes
   on with the remainder followed by the new bytes (unless it was stopped by an error) *)
Lemma drain_app_aux : forall jc x, no_null jc -> forall n buf, (length buf < n)%nat ->
  match drain jc 0 buf with
  | (ev, None) => drain jc 0 (buf ++ x) = (ev, None)
  | (ev, Some r) => drain jc 0 (buf ++ x) = (let (ev', r') := drain jc 0 (r ++ x) in (ev ++ ev', r'))
  end.
Proof.
  intros jc x NN. induction n as [|n IH]; intros buf Hn; [lia|].
  rewrite (drain_eq jc buf). destruct (decode buf) as [|m k| |] eqn:D.
  - destruct (drain jc 0 (buf ++ x)); reflexivity.
  - pose proof (decode_frame_bounds _ _ _ D) as [B1 B2]. unfold blen in B2.
    destruct (jc m) eqn:J.
    + specialize (IH (skipn (N.to_nat k) buf)).
      rewrite skipn_length in IH. specialize (IH ltac:(lia)).
      destruct (drain jc 0 (skipn (N.to_nat k) buf)) as [ev [r|]] eqn:E.
      * rewrite (drain_eq jc (buf ++ x)), (decode_mono_frame _ x _ _ D), J.
        rewrite skipn_app_le by lia. rewrite IH.
        destruct (drain jc 0 (r ++ x)); reflexivity.
      * rewrite (drain_eq jc (buf ++ x)), (decode_mono_frame _ x _ _ D), J.
        rewrite skipn_app_le by lia. rewrite IH. reflexivity.
    + exfalso. exact (NN m J).
    + rewrite (drain_eq jc (buf ++ x)), (decode_mono_frame _ x _ _ D), J. reflexivity.
  - rewrite (drain_eq jc (buf ++ x)), (decode_mono_bad _ x D). reflexivity.
  - rewrite (drain_eq jc (buf ++ x)), (decode_mono_crash _ x D). reflexivity.
Qed.

Lemma drain_app_none : forall jc buf x ev, no_null jc ->
  drain jc 0 buf = (ev, None) -> drain jc 0 (buf ++ x) = (ev, None).
Proof.
  intros jc buf x ev NN H. pose proof (drain_app_aux jc x NN (S (length buf)) buf ltac:(lia)) as A.
  rewrite H in A. exact A.
Qed.

Lemma drain_app_some : forall jc buf x ev r, no_null jc ->
  drain jc 0 buf = (ev, Some r) ->
  drain jc 0 (buf ++ x) = (let (ev', r') := drain jc 0 (r ++ x) in (ev ++ ev', r')).
Proof.
  intros jc buf x ev r NN H. pose proof (drain_app_aux jc x NN (S (length buf)) buf ltac:(lia)) as A.
  rewrite H in A. exact A.
Qed.

(* the same for the end-of-input step *)
Lemma at_eof_app_none : forall jc buf x ev, no_null jc ->
  drain jc 0 buf = (ev, None) -> at_eof jc (buf ++ x) = ev.
Proof. intros jc buf x ev NN H. unfold at_eof. rewrite (drain_app_none _ _ x _ NN H). reflexivity. Qed.

Lemma at_eof_app_some : forall jc buf x ev r, no_null jc ->
  drain jc 0 buf = (ev, Some r) -> at_eof jc (buf ++ x) = ev ++ at_eof jc (r ++ x).
Proof.
  intros jc buf x ev r NN H. unfold at_eof. rewrite (drain_app_some _ _ x _ _ NN H).
  destruct (drain jc 0 (r ++ x)) as [ev' [[|a t]|]]; try reflexivity.
  symmetry. apply app_assoc.
Qed.

(* the events of a segmented stream are those of the whole stream handed over at once *)
Lemma feed_chunks_concat : forall jc, no_null jc -> forall chunks buf,
  feed_chunks jc buf chunks = at_eof jc (buf ++ concat chunks).
Proof.
  intros jc NN. induction chunks as [|c cs IH]; intros buf; cbn [feed_chunks concat].
  - rewrite app_nil_r. reflexivity.
  - rewrite app_assoc. destruct (drain jc 0 (buf ++ c)) as [ev [r|]] eqn:E.
    + rewrite (at_eof_app_some _ _ _ _ _ NN E), IH. reflexivity.
    + rewrite (at_eof_app_none _ _ _ _ NN E). reflexivity.
Qed.

Lemma run_chunks_pinned_concat : forall jc chunks, no_null jc ->
  run_chunks_pinned jc chunks = at_eof jc (concat chunks).
Proof. intros. unfold run_chunks_pinned. rewrite feed_chunks_concat by assumption. reflexivity. Qed.

Lemma chunking_pinned : forall jc chunks, no_null jc ->
  run_chunks_pinned jc chunks = run_chunks_pinned jc [concat chunks].
Proof.
  intros. rewrite !run_chunks_pinned_concat by assumption. cbn [concat]. rewrite app_nil_r. reflexivity.
Qed.

Lemma chunking : forall json_ok chunks, run_chunks json_ok chunks = run_chunks json_ok [concat chunks].
Proof. intros. unfold run_chunks. apply chunking_pinned. apply jc_of_bool_no_null. Qed.

(* two segmentations of the same byte stream give the same events *)
Lemma chunking_any : forall json_ok c1 c2,
  concat c1 = concat c2 -> run_chunks json_ok c1 = run_chunks json_ok c2.
Proof.
  intros. unfold run_chunks. rewrite !run_chunks_pinned_concat by apply jc_of_bool_no_null. congruence.
Qed.

(* ------------------------------------------------------------------------------------------ *)
(* 4. the decimal printer and the usize parser are inverse *)

Definition val_rev (l : list N) : N := fold_right (fun d a => (d - 48) + 10 * a) 0 l.

Lemma is_digit_spec : forall d, is_digit d = true <-> 48 <= d <= 57.
Proof.
  intros d. unfold is_digit. rewrite andb_true_iff, !N.leb_le. reflexivity.
Qed.

Lemma mod10_lt : forall n, n mod 10 < 10.
Proof. intros. apply N.mod_lt. lia. Qed.

Lemma dec_rev_digits : forall f n, Forall (fun d => is_digit d = true) (dec_rev f n).
Proof.
  induction f as [|f IH]; intros n; cbn [dec_rev].
  - constructor.
  - constructor.
    + apply is_digit_spec. pose proof (mod10_lt n) as ML. set (r := n mod 10) in *. clearbody r. lia.
    + destruct (n / 10 =? 0); [constructor | apply IH].
Qed.

Lemma dec_rev_val : forall f n, n < 2 ^ N.of_nat f -> val_rev (dec_rev (S f) n) = n.
Proof.
  induction f as [|f IH]; intros n H.
  - cbn in H. assert (n = 0) by lia. subst. reflexivity.
  - change (dec_rev (S (S f)) n)
      with ((48 + n mod 10) :: (if n / 10 =? 0 then [] else dec_rev (S f) (n / 10))).
    pose proof (N.div_mod n 10 ltac:(lia)) as DM. pose proof (mod10_lt n) as ML.
    set (r := n mod 10) in *. set (q := n / 10) in *. clearbody r.
    destruct (q =? 0) eqn:Q.
    + apply N.eqb_eq in Q. cbn [val_rev fold_right]. lia.
    + cbn [val_rev fold_right]. fold (val_rev (dec_rev (S f) q)).
      rewrite Nat2N.inj_succ, N.pow_succ_r' in H.
      rewrite IH; clearbody q; lia.
Qed.

Lemma dec_rev_nonempty : forall f n, dec_rev (S f) n <> [].
Proof. intros. cbn [dec_rev]. discriminate. Qed.

Lemma parse_digits_snoc : forall a d acc,
  parse_digits (a ++ [d]) acc =
  match parse_digits a acc with
  | Some v => if is_digit d then Some (v * 10 + (d - 48)) else None
  | None => None
  end.
Proof.
  induction a as [|c a IH]; intros d acc; cbn [app parse_digits].
  - destruct (is_digit d); reflexivity.
  - destruct (is_digit c); [apply IH | reflexivity].
Qed.

Lemma parse_digits_rev : forall l,
  Forall (fun d => is_digit d = true) l -> parse_digits (rev l) 0 = Some (val_rev l).
Proof.
  induction l as [|d l IH]; intros H.
  - reflexivity.
  - inversion H; subst. cbn [rev]. rewrite parse_digits_snoc, IH by assumption.
    rewrite H2. cbn [val_rev fold_right]. fold (val_rev l). f_equal. lia.
Qed.

Lemma print_dec_digits : forall n, Forall (fun d => is_digit d = true) (print_dec n).
Proof. intros. unfold print_dec. apply Forall_rev. apply dec_rev_digits. Qed.

Lemma print_dec_nonempty : forall n, print_dec n <> [].
Proof.
  intros n H. unfold print_dec in H. apply (f_equal (@rev N)) in H. rewrite rev_involutive in H.
  cbn [rev] in H. exact (dec_rev_nonempty _ _ H).
Qed.

Lemma parse_digits_print_dec : forall n, parse_digits (print_dec n) 0 = Some n.
Proof.
  intros n. unfold print_dec. rewrite parse_digits_rev by apply dec_rev_digits.
  f_equal. apply dec_rev_val. rewrite N2Nat.id. apply N.size_gt.
Qed.

(* Display followed by FromStr is the identity on usize *)
Lemma parse_usize_print_dec : forall n, n < USIZE_LIMIT -> parse_usize (print_dec n) = Some n.
Proof.
  intros n H. unfold parse_usize.
  pose proof (print_dec_digits n) as D. pose proof (print_dec_nonempty n) as NE.
  pose proof (parse_digits_print_dec n) as P.
  destruct (print_dec n) as [|d r]; [congruence|].
  inversion D; subst. apply is_digit_spec in H2.
  destruct (d =? 43) eqn:E; [apply N.eqb_eq in E; lia|].
  rewrite P. apply N.ltb_lt in H. rewrite H. reflexivity.
Qed.

(* ------------------------------------------------------------------------------------------ *)
(* 5. a frame written by encode_frame is read back exactly *)

(* running the header machine over a prefix on which it does not stop *)
Fixpoint hfeed (hs : list header) (s : hstate) (l : list N) : option (list header * hstate) :=
  match l with
  | [] => Some (hs, s)
  | b :: r => match hstep hs s b with Go hs' s' => hfeed hs' s' r | _ => None end
  end.

Lemma hrun_hfeed : forall l hs s pos hs' s' rest,
  hfeed hs s l = Some (hs', s') -> hrun hs s pos (l ++ rest) = hrun hs' s' (pos + blen l) rest.
Proof.
  induction l as [|b l IH]; intros hs s pos hs' s' rest H; cbn [hfeed app hrun] in *.
  - inversion H; subst. f_equal. unfold blen. cbn [length]. lia.
  - destruct (hstep hs s b) as [hs1 s1| |]; try discriminate.
    rewrite (IH _ _ _ _ _ _ H). f_equal. rewrite blen_cons. lia.
Qed.

Lemma digit_value_token : forall d, is_digit d = true -> is_value_token d = true.
Proof.
  intros d H. apply is_digit_spec in H. unfold is_value_token.
  assert (E : (32 <=? d) && (d <=? 126) = true)
    by (apply andb_true_iff; split; apply N.leb_le; lia).
  rewrite E. apply orb_true_iff. left. apply orb_true_r.
Qed.

Lemma digit_not_sp_tab : forall d, is_digit d = true -> is_sp_tab d = false.
Proof.
  intros d H. apply is_digit_spec in H. unfold is_sp_tab.
  apply orb_false_iff. split; apply N.eqb_neq; lia.
Qed.

Lemma digit_not_trim_ws : forall d, is_digit d = true -> is_trim_ws d = false.
Proof.
  intros d H. apply is_digit_spec in H. unfold is_trim_ws.
  repeat (apply orb_false_iff; split); apply N.eqb_neq; lia.
Qed.

Lemma hfeed_value_digits : forall ds hs n rv,
  Forall (fun d => is_digit d = true) ds ->
  hfeed hs (SValue n rv) ds = Some (hs, SValue n (rev ds ++ rv)).
Proof.
  induction ds as [|d ds IH]; intros hs n rv H.
  - reflexivity.
  - inversion H; subst. cbn [hfeed hstep]. rewrite (digit_value_token _ H2).
    rewrite IH by assumption. cbn [rev]. rewrite <- app_assoc. reflexivity.
Qed.

Lemma hfeed_prefix : hfeed [] SLine HEADER_PREFIX = Some ([], SColon CONTENT_LENGTH).
Proof. vm_compute. reflexivity. Qed.

Lemma drop_while_digits : forall l,
  Forall (fun d => is_digit d = true) l -> drop_while is_trim_ws l = l.
Proof.
  intros [|d l] H; [reflexivity|]. inversion H; subst.
  cbn [drop_while]. rewrite (digit_not_trim_ws _ H2). reflexivity.
Qed.

(* "Content-Length: <digits>\r\n\r\n" is a complete head with the one expected header *)
Lemma parse_headers_wellformed : forall ds rest,
  Forall (fun d => is_digit d = true) ds -> ds <> [] ->
  parse_headers (HEADER_PREFIX ++ ds ++ (CRLF ++ CRLF) ++ rest)
  = HComplete (blen HEADER_PREFIX + blen ds + 4) [(CONTENT_LENGTH, ds)].
Proof.
  intros ds rest D NE. unfold parse_headers.
  rewrite (hrun_hfeed _ _ _ _ _ _ _ hfeed_prefix).
  destruct ds as [|d ds]; [congruence|]. inversion D as [|? ? D1 D2]; subst.
  cbn [app hrun hstep]. rewrite (digit_not_sp_tab _ D1), (digit_value_token _ D1).
  rewrite (hrun_hfeed _ _ _ _ _ _ _ (hfeed_value_digits ds [] CONTENT_LENGTH [d] D2)).
  change ((CRLF ++ CRLF) ++ rest) with (13 :: 10 :: 13 :: 10 :: rest).
  cbn [hrun].
  change (hstep [] (SValue CONTENT_LENGTH (rev ds ++ [d])) 13)
    with (Go [] (SValueCR CONTENT_LENGTH (rev ds ++ [d]))).
  cbv iota beta.
  change (hstep [] (SValueCR CONTENT_LENGTH (rev ds ++ [d])) 10)
    with (Go ([] ++ [(CONTENT_LENGTH, rev (drop_while is_trim_ws (rev ds ++ [d])))]) SLine).
  cbv iota beta.
  change (rev ds ++ [d]) with (rev (d :: ds)).
  rewrite drop_while_digits by (apply Forall_rev; assumption).
  rewrite rev_involutive. cbn [app].
  change (hstep [(CONTENT_LENGTH, d :: ds)] SLine 13) with (Go [(CONTENT_LENGTH, d :: ds)] SEndCR).
  cbv iota beta.
  change (hstep [(CONTENT_LENGTH, d :: ds)] SEndCR 10) with (FinOk [(CONTENT_LENGTH, d :: ds)]).
  cbv iota beta. f_equal. rewrite blen_cons. lia.
Qed.

Lemma firstn_app_exact : forall (a b : list N), firstn (length a) (a ++ b) = a.
Proof.
  intros. rewrite firstn_app, firstn_all, Nat.sub_diag. cbn [firstn]. apply app_nil_r.
Qed.

Lemma skipn_app_exact : forall (a b : list N), skipn (length a) (a ++ b) = b.
Proof.
  intros. rewrite skipn_app, skipn_all, Nat.sub_diag. reflexivity.
Qed.

Lemma decode_wellformed : forall ds body x,
  Forall (fun d => is_digit d = true) ds -> ds <> [] ->
  parse_usize ds = Some (blen body) ->
  blen (HEADER_PREFIX ++ ds ++ (CRLF ++ CRLF) ++ body) < USIZE_LIMIT ->
  decode ((HEADER_PREFIX ++ ds ++ (CRLF ++ CRLF) ++ body) ++ x)
  = Frame body (blen (HEADER_PREFIX ++ ds ++ (CRLF ++ CRLF) ++ body)).
Proof.
  intros ds body x D NE P L.
  assert (NE' : 1 <= blen ds).
  { destruct ds; [congruence|]. rewrite blen_cons. lia. }
  assert (E : (HEADER_PREFIX ++ ds ++ (CRLF ++ CRLF) ++ body) ++ x
              = HEADER_PREFIX ++ ds ++ (CRLF ++ CRLF) ++ (body ++ x))
    by (rewrite <- !app_assoc; reflexivity).
  assert (PL : blen HEADER_PREFIX = 16) by reflexivity.
  assert (CL : blen (CRLF ++ CRLF) = 4) by reflexivity.
  unfold decode.
  rewrite E at 2. rewrite parse_headers_wellformed by assumption.
  rewrite !blen_app in *. rewrite PL, CL in *.
  destruct (16 + (blen ds + (4 + blen body)) + blen x <? 21) eqn:G; [apply N.ltb_lt in G; lia|].
  cbn [find fst snd]. change (bytes_eqb CONTENT_LENGTH CONTENT_LENGTH) with true. cbv iota beta.
  cbn [snd]. rewrite P.
  destruct (USIZE_LIMIT <=? 16 + blen ds + 4 + blen body) eqn:U; [apply N.leb_le in U; lia|].
  destruct (16 + (blen ds + (4 + blen body)) + blen x <? 16 + blen ds + 4 + blen body) eqn:M;
    [apply N.ltb_lt in M; lia|].
  f_equal; [|lia].
  assert (E2 : (HEADER_PREFIX ++ ds ++ (CRLF ++ CRLF) ++ body) ++ x
               = (HEADER_PREFIX ++ ds ++ (CRLF ++ CRLF)) ++ (body ++ x))
    by (rewrite <- !app_assoc; reflexivity).
  rewrite E2.
  replace (N.to_nat (16 + blen ds + 4)) with (length (HEADER_PREFIX ++ ds ++ (CRLF ++ CRLF))).
  2:{ rewrite !app_length. unfold blen. change (length HEADER_PREFIX) with 16%nat.
      change (length CRLF) with 2%nat. lia. }
  rewrite skipn_app_exact. unfold blen at 1. rewrite Nat2N.id. apply firstn_app_exact.
Qed.

(* lengths are counted in bytes: any body, any following bytes *)
Lemma decode_encode_frame : forall body x,
  blen (encode_frame body) < USIZE_LIMIT ->
  decode (encode_frame body ++ x) = Frame body (blen (encode_frame body)).
Proof.
  intros body x L. unfold encode_frame in *.
  apply decode_wellformed.
  - apply print_dec_digits.
  - apply print_dec_nonempty.
  - apply parse_usize_print_dec. rewrite !blen_app in L. lia.
  - assumption.
Qed.

(* hence a stream of encoded frames is decoded to exactly their bodies, whatever the reads *)
Lemma at_eof_frames : forall jc bodies,
  Forall (fun b => jc b = JMsg /\ blen (encode_frame b) < USIZE_LIMIT) bodies ->
  at_eof jc (concat (map encode_frame bodies)) = map EMsg bodies.
Proof.
  intros jc. induction bodies as [|b bs IH]; intros H.
  - reflexivity.
  - inversion H as [|? ? [J L] H']; subst. specialize (IH H').
    cbn [map concat]. unfold at_eof in *.
    rewrite drain_eq, (decode_encode_frame _ _ L), J.
    unfold blen. rewrite Nat2N.id, skipn_app_exact.
    destruct (drain jc 0 (concat (map encode_frame bs))) as [ev [[|a t]|]];
      cbn [app] in *; rewrite <- IH; reflexivity.
Qed.

Lemma stream_pinned : forall jc bodies chunks, no_null jc ->
  Forall (fun b => jc b = JMsg /\ blen (encode_frame b) < USIZE_LIMIT) bodies ->
  concat chunks = concat (map encode_frame bodies) ->
  run_chunks_pinned jc chunks = map EMsg bodies.
Proof.
  intros jc bodies chunks NN H E. rewrite run_chunks_pinned_concat, E by assumption.
  apply at_eof_frames. assumption.
Qed.

Lemma stream : forall json_ok bodies chunks,
  Forall (fun b => json_ok b = true /\ blen (encode_frame b) < USIZE_LIMIT) bodies ->
  concat chunks = concat (map encode_frame bodies) ->
  run_chunks json_ok chunks = map EMsg bodies.
Proof.
  intros json_ok bodies chunks H E. unfold run_chunks.
  apply stream_pinned; [apply jc_of_bool_no_null | | assumption].
  eapply Forall_impl; [|exact H]. intros b [J L]. split; [|assumption].
  unfold jc_of_bool. rewrite J. reflexivity.
Qed.

(* ------------------------------------------------------------------------------------------ *)
(* 6. regression witness.  Before /repo commit e5c7771 decode deserialised the body to
   Option<Message>: a body `null` was consumed with Ok(None) (JNull), FramedRead then waits for the
   next read (or gives up at end of input) although complete frames are left in its buffer.  With
   that outcome the loop is NOT independent of the segmentation: *)

Definition NULL_BODY : list N := [110; 117; 108; 108].   (* null *)
Definition jc_null (b : list N) : jclass := if bytes_eqb b NULL_BODY then JNull else JMsg.

Lemma pinned_null_counterexample :
  let n := encode_frame NULL_BODY in
  let a := encode_frame [123; 125] in
  run_chunks_pinned jc_null [n; n ++ a] = [EMsg [123; 125]]
  /\ run_chunks_pinned jc_null [n ++ n ++ a] = [ETrailing].
Proof. vm_compute. split; reflexivity. Qed.

Lemma pinned_not_chunking_independent :
  exists jc chunks, run_chunks_pinned jc chunks <> run_chunks_pinned jc [concat chunks].
Proof.
  exists jc_null, [encode_frame NULL_BODY; encode_frame NULL_BODY ++ encode_frame [123; 125]].
  vm_compute. discriminate.
Qed.
