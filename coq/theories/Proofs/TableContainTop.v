(* C05, table part (3/3): the theorems about [build_res] for two trees whose declaration lists agree
   except for the declarations k .. k2-1 resp. k .. k2'-1 (the relation [C05_containment] delivers),
   and the corollary from token vectors on. *)
From Coq Require Import Arith Lia List Bool.
From Spl Require Import Model.Errors Proofs.SemProofs Proofs.ParserTotal Proofs.ParserFwd Proofs.ParserShiftProofs Proofs.RangeProofsIdent
  Proofs.RangeProofsBuild.
From Spl Require Import Proofs.TableContain Proofs.TableContainSim.
Import ListNotations.
Local Open Scope nat_scope.

(* ------------------------------------------------------------------------------------------ *)
(* 1. the statement *)

(* [ds], [ds']: the declarations of the two trees; in front of position k they agree; the declarations
   from k2 of ds on are the declarations from k2' of ds' on, offsets moved; T, T' the two tables.
     A  the common front, M / M' the parts that differ, D the names M or M' declare,
     seed .. the names of D that resolve differently as type names once M resp. M' is processed,
     tainted .. B: those and every later declaration that mentions a tainted name in a type expression *)
Definition table_kept (old new : nat) (ds ds' : list (gdecl * nat)) (k k2 k2' : nat) (T T' : gtable) : Prop :=
  let A := firstn k ds in
  let M := firstn (k2 - k) (skipn k ds) in
  let M' := firstn (k2' - k) (skipn k ds') in
  let D := decl_keys M ++ decl_keys M' in
  entries_kept old new (table_of A initialized) D
    (tainted (seed (table_of (A ++ M) initialized) (table_of (A ++ M') initialized) D) (skipn k2 ds)) T T'.

Lemma skipn_add {X} (l : list X) : forall a b, skipn b (skipn a l) = skipn (a + b) l.
Proof.
  intros a. revert l. induction a as [|a IH]; intros l b; [reflexivity|].
  destruct l as [|x l]; cbn [skipn Nat.add]; [destruct b; reflexivity | apply IH].
Qed.

Lemma split3 {X} (l : list X) k k2 : k <= k2 -> l = firstn k l ++ firstn (k2 - k) (skipn k l) ++ skipn k2 l.
Proof.
  intros H. rewrite <- (firstn_skipn k l) at 1. f_equal.
  rewrite <- (firstn_skipn (k2 - k) (skipn k l)) at 1. f_equal.
  rewrite skipn_add. f_equal. lia.
Qed.

Theorem table_kept_trees p p' k k2 k2' old new q T q' T' :
  k <= k2 -> k <= k2' ->
  firstn k (pg_decls p) = firstn k (pg_decls p') ->
  shift_offs new (skipn k2 (pg_decls p)) = shift_offs old (skipn k2' (pg_decls p')) ->
  build_res p = ROk (q, T) -> build_res p' = ROk (q', T') ->
  table_kept old new (pg_decls p) (pg_decls p') k k2 k2' T T'.
Proof.
  intros Hk Hk' Hfront Hback Hb Hb'. unfold table_kept.
  pose proof (build_res_table _ _ _ Hb) as ET. pose proof (build_res_table _ _ _ Hb') as ET'.
  rewrite (split3 (pg_decls p) k k2 Hk) in ET. rewrite (split3 (pg_decls p') k k2' Hk'), <- Hfront in ET'.
  rewrite ET, ET'. exact (table_contain old new _ _ _ _ _ Hback).
Qed.

(* ------------------------------------------------------------------------------------------ *)
(* 2. reading it *)

Section Reading.
Variables (old new : nat) (ds ds' : list (gdecl * nat)) (k k2 k2' : nat) (T T' : gtable).
Hypothesis HK : table_kept old new ds ds' k k2 k2' T T'.

Let A := firstn k ds.
Let M := firstn (k2 - k) (skipn k ds).
Let M' := firstn (k2' - k) (skipn k ds').

(* the entries of the declarations in front: unchanged, whatever the damage declares *)
Lemma kept_front n e :
  lookup (table_of A initialized) n = Some e -> lookup T n = Some e /\ lookup T' n = Some e.
Proof. exact (proj1 HK n e). Qed.

(* which names these are *)
Lemma front_keys n :
  lookup (table_of A initialized) n <> None <-> lookup initialized n <> None \/ In n (decl_keys A).
Proof. apply table_of_keys. Qed.

(* a name the damaged part does not declare: an entry iff there was one, and the same one up to data types *)
Lemma kept_other n :
  ~ In n (decl_keys M ++ decl_keys M') ->
  (lookup T n = None <-> lookup T' n = None) /\
  (lookup (table_of A initialized) n <> None /\ lookup T n = lookup T' n \/
   lookup (table_of A initialized) n = None /\ kept_skel old new (lookup T n) (lookup T' n)).
Proof.
  intros Hd. destruct HK as (H0 & _ & H2 & _).
  destruct (lookup (table_of A initialized) n) as [e|] eqn:Ef.
  - destruct (H0 _ _ Ef) as [E1 E2]. fold A in Ef. rewrite E1, E2.
    split; [split; discriminate|]. left. split; [discriminate | reflexivity].
  - specialize (H2 n Ef Hd). fold A in Ef. split; [|right; split; [reflexivity | exact H2]].
    unfold kept_skel in H2. destruct (lookup T n), (lookup T' n); cbn [option_map] in H2; try discriminate; split; congruence.
Qed.

(* ... and completely the same one when it is not tainted *)
Lemma kept_untainted n :
  ~ In n (decl_keys M ++ decl_keys M') ->
  ~ In n (tainted (seed (table_of (A ++ M) initialized) (table_of (A ++ M') initialized) (decl_keys M ++ decl_keys M'))
            (skipn k2 ds)) ->
  lookup (table_of A initialized) n = None ->
  kept_full old new (lookup T n) (lookup T' n).
Proof. intros Hd Hw Hf. exact (proj2 (proj2 (proj2 HK)) n Hf Hd Hw). Qed.

End Reading.

(* ------------------------------------------------------------------------------------------ *)
(* 3. no taint at all: the damaged declaration is a procedure that keeps its name *)

Lemma tyres_eqb_refl a : tyres_eqb a a = true.
Proof.
  destruct a as [[b [x|]]|]; cbn [tyres_eqb odt_eqb]; rewrite ?Bool.eqb_reflx, ?TypingProofs.dt_eqb_refl; reflexivity.
Qed.

Lemma seed_nil T1 T1' : forall D, (forall n, In n D -> tyres T1 n = tyres T1' n) -> seed T1 T1' D = [].
Proof.
  induction D as [|n D IH]; intros H; [reflexivity|]. unfold seed in *. cbn [filter].
  rewrite (H n (or_introl eq_refl)), tyres_eqb_refl. cbn [negb]. apply IH. intros m Hm. apply H. right. exact Hm.
Qed.

Lemma dep_hit_nil d : dep_hit [] d = false.
Proof. unfold dep_hit. induction (decl_deps d) as [|n l IH]; [reflexivity | exact IH]. Qed.

Lemma tainted_nil : forall ds, tainted [] ds = [].
Proof.
  induction ds as [|[d off] r IH]; [reflexivity|]. cbn [tainted]. unfold taint_step. rewrite dep_hit_nil.
  destruct (decl_key d); exact IH.
Qed.

Lemma nth_part {X} (l : list X) k x : nth_error l k = Some x -> firstn (S k - k) (skipn k l) = [x].
Proof.
  replace (S k - k) with 1 by lia. revert l. induction k as [|k IH]; intros [|y l] H; cbn [nth_error] in H; try discriminate.
  - injection H as ->. reflexivity.
  - cbn [skipn]. exact (IH _ H).
Qed.

Lemma proc_step_tyres T0 o o' pd pd' n :
  decl_key (GProc pd) = decl_key (GProc pd') ->
  tyres (table_step T0 o (GProc pd)) n = tyres (table_step T0 o' (GProc pd')) n.
Proof.
  intros Hk. unfold tyres. rewrite !lookup_step. destruct (lookup T0 n) as [x|]; [reflexivity|].
  cbn [decl_key decl_entry] in *.
  destruct (pd_name pd) as [name|], (pd_name pd') as [name'|]; try discriminate; [|reflexivity].
  injection Hk as Hk. rewrite Hk.
  destruct (params_tab (id_val name') T0 (pd_params pd) []), (params_tab (id_val name') T0 (pd_params pd') []).
  destruct (text_eqb (id_val name') n); reflexivity.
Qed.

Theorem table_kept_same_proc p p' k old new q T q' T' pd o pd' o' :
  firstn k (pg_decls p) = firstn k (pg_decls p') ->
  shift_offs new (skipn (S k) (pg_decls p)) = shift_offs old (skipn (S k) (pg_decls p')) ->
  build_res p = ROk (q, T) -> build_res p' = ROk (q', T') ->
  nth_error (pg_decls p) k = Some (GProc pd, o) -> nth_error (pg_decls p') k = Some (GProc pd', o') ->
  decl_key (GProc pd) = decl_key (GProc pd') ->
  entries_kept old new (table_of (firstn k (pg_decls p)) initialized)
    (decl_keys [(GProc pd, o)] ++ decl_keys [(GProc pd', o')]) [] T T'.
Proof.
  intros Hfront Hback Hb Hb' Hn Hn' Hk.
  pose proof (table_kept_trees p p' k (S k) (S k) old new q T q' T' (Nat.le_succ_diag_r k) (Nat.le_succ_diag_r k)
                Hfront Hback Hb Hb') as H.
  unfold table_kept in H. rewrite (nth_part _ _ _ Hn), (nth_part _ _ _ Hn') in H.
  rewrite seed_nil, tainted_nil in H; [exact H|].
  intros n _. rewrite !table_of_app. cbn [table_of]. apply proc_step_tyres. exact Hk.
Qed.

(* ------------------------------------------------------------------------------------------ *)
(* 4. from token vectors on *)

Lemma parse_build_ok toks p : parse toks = Done p -> exists q T, build_res p = ROk (q, T).
Proof.
  intros Hp. destruct (build_res_ok p (parse_idents_nonempty _ _ Hp)) as (q & T & Hb & _). exists q, T. exact Hb.
Qed.

(* the hypotheses of C05_containment; the conclusion: both builds succeed and the tables are related *)
Theorem table_contained pre mid mid' post p p' j k o k2 k2' :
  EofLast (pre ++ mid ++ post) -> EofLast (pre ++ mid' ++ post) ->
  parse (pre ++ mid ++ post) = Done p -> parse (pre ++ mid' ++ post) = Done p' ->
  (exists t, nth_error pre j = Some t /\ sync_full (tk t) = true) -> Boundary p k o -> o <= j ->
  Boundary p k2 (length pre + length mid) -> Boundary p' k2' (length pre + length mid') ->
  exists q T q' T',
    build_res p = ROk (q, T) /\ build_res p' = ROk (q', T') /\
    table_kept (length mid) (length mid') (pg_decls p) (pg_decls p') k k2 k2' T T'.
Proof.
  intros HE HE' Hp Hp' Hj Hb Ho Hb2 Hb2'.
  destruct (S4_containment pre mid mid' post p p' j k o k2 k2' HE HE' Hp Hp' Hj Hb Ho Hb2 Hb2')
    as (Hfront & _ & Hback & _ & Hk & Hk').
  destruct (parse_build_ok _ _ Hp) as (q & T & Hq). destruct (parse_build_ok _ _ Hp') as (q' & T' & Hq').
  exists q, T, q', T'. split; [exact Hq|]. split; [exact Hq'|].
  apply (table_kept_trees p p' k k2 k2' _ _ q T q' T'); try assumption; lia.
Qed.

(* the same for the documents of two texts *)
Theorem table_contained_docs t t' d d' pre mid mid' post j k o k2 k2' :
  new_doc_res t = ODone d -> new_doc_res t' = ODone d' ->
  d_toks d = pre ++ mid ++ post -> d_toks d' = pre ++ mid' ++ post ->
  exists p p',
    parse (d_toks d) = Done p /\ parse (d_toks d') = Done p' /\
    ((exists tj, nth_error pre j = Some tj /\ sync_full (tk tj) = true) -> Boundary p k o -> o <= j ->
     Boundary p k2 (length pre + length mid) -> Boundary p' k2' (length pre + length mid') ->
     table_kept (length mid) (length mid') (pg_decls p) (pg_decls p') k k2 k2' (d_table d) (d_table d')).
Proof.
  intros Hd Hd' Ht Ht'.
  destruct (new_doc_shape _ _ Hd) as (_ & _ & HE & _ & p & p1 & Hp & Hb & _).
  destruct (new_doc_shape _ _ Hd') as (_ & _ & HE' & _ & p' & p1' & Hp' & Hb' & _).
  exists p, p'. split; [exact Hp|]. split; [exact Hp'|]. intros Hj Hbd Ho Hb2 Hb2'.
  rewrite Ht in HE, Hp. rewrite Ht' in HE', Hp'.
  destruct (S4_containment pre mid mid' post p p' j k o k2 k2' HE HE' Hp Hp' Hj Hbd Ho Hb2 Hb2')
    as (Hfront & _ & Hback & _ & Hk & Hk').
  apply (table_kept_trees p p' k k2 k2' _ _ p1 _ p1' _); try assumption; lia.
Qed.
