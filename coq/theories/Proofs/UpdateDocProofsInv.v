(* C01, "no stale messages": every tree parser::update returns - from ANY old tree, in particular
   an analysed one that carries build and semantic messages - carries parse errors only.

   [Inv p]: from a state whose error buffer holds parse errors only, p returns (or fails in) such
   a state, and the value it returns carries parse errors only ([po], the canonical predicate of
   its type).  The old node `this` is arbitrary everywhere: a reused node has gone through
   remove_messages (strip), a re-parsed node takes its errors from the parser's own buffer.
   One lemma per combinator of Model/ParserInc.v, then every non-terminal. *)
From Coq Require Import List Arith Lia.
From Spl Require Import Model.ParserInc Proofs.UpdateDocProofsStrip.
Import ListNotations.
Local Open Scope nat_scope.

Definition EB (s : ist) : Prop := Forall perr (iebuf s).

Definition Post {A} (P : A -> Prop) (r : ires A) : Prop :=
  match r with IOk s a => EB s /\ P a | IErr s _ => EB s | IPanic => True | IFuel => True end.

Definition Inv {A} {H : PO A} (p : iparser A) : Prop := forall s, EB s -> Post po (p s).

Lemma Post_bind {A B} (P : A -> Prop) (Q : B -> Prop) r (k : ist -> A -> ires B) :
  Post P r -> (forall s a, EB s -> P a -> Post Q (k s a)) -> Post Q (ibind r k).
Proof. destruct r as [s a|s b| |]; cbn; auto. intros [H1 H2] Hk. auto. Qed.

Lemma Post_impl {A} (P Q : A -> Prop) r : (forall a, P a -> Q a) -> Post P r -> Post Q r.
Proof. intros H. destruct r; cbn; auto. intros [H1 H2]. auto. Qed.

Lemma EB_iadv s n : EB s -> EB (iadv s n).
Proof. exact (fun H => H). Qed.
Lemma EB_refp s n : EB s -> EB (iset_refp s n).
Proof. exact (fun H => H). Qed.
Lemma EB_incr s l : EB s -> EB (iset_incr s l).
Proof. exact (fun H => H). Qed.
Lemma EB_ebuf s s' : EB s -> EB (iset_ebuf s' (iebuf s)).
Proof. exact (fun H => H). Qed.
Lemma EB_nil s : EB (iset_ebuf s []).
Proof. constructor. Qed.
Lemma EB_push s a b m : EB s -> EB (ipush_err s a b m).
Proof. intros H. unfold EB, ipush_err. cbn [iebuf iset_ebuf]. apply Forall_app. split; [exact H | repeat constructor]. Qed.
Lemma EB_expect_error s m : EB s -> EB (iexpect_error s m).
Proof. apply EB_push. Qed.

Lemma po_info_append i x : po_info i -> perr x -> po_info (info_append i x).
Proof. intros H Hx. unfold po_info, info_append. cbn [i_errs]. apply Forall_app. split; [exact H | repeat constructor; exact Hx]. Qed.

Lemma po_mkinfo a b : po_info (mkinfo a b).
Proof. constructor. Qed.

Lemma po_extend_range a b : po_info a -> po_info (extend_range a b).
Proof. exact (fun H => H). Qed.

(* ------------------------------------------------------------------------------------------ *)
(* combinators *)

Section Comb.
Variable toks : list token.
Variables ds de ilen : nat.

Lemma Inv_fuel {A} {H : PO A} : Inv (fun _ => @IFuel A).
Proof. intros s _. exact I. Qed.

Lemma Inv_ext {A} {H : PO A} (p q : iparser A) : (forall s, p s = q s) -> Inv p -> Inv q.
Proof. intros E Hp s Hs. rewrite <- E. apply Hp, Hs. Qed.

Lemma Inv_map {A B} {HA : PO A} {HB : PO B} (f : A -> B) p :
  Inv p -> (forall a, po a -> po (f a)) -> Inv (i_map f p).
Proof. intros Hp Hf s Hs. unfold i_map. eapply Post_bind; [apply Hp, Hs|]. intros s' a Hs' Ha. split; auto. Qed.

Lemma Inv_alt {A} {H : PO A} (p q : iparser A) : Inv p -> Inv q -> Inv (i_alt p q).
Proof.
  intros Hp Hq s Hs. unfold i_alt. specialize (Hp s Hs). destruct (p s); auto.
Qed.

Lemma Inv_opt {A} {H : PO A} (p : iparser A) : Inv p -> Inv (i_opt p).
Proof.
  intros Hp s Hs. unfold i_opt. specialize (Hp s Hs). destruct (p s); cbn in *; intuition auto.
Qed.

Lemma Inv_pair {A B} {HA : PO A} {HB : PO B} (p : iparser A) (q : iparser B) : Inv p -> Inv q -> Inv (i_pair p q).
Proof.
  intros Hp Hq s Hs. unfold i_pair. eapply Post_bind; [apply Hp, Hs|]. intros s1 a Hs1 Ha.
  eapply Post_bind; [apply Hq, Hs1|]. intros s2 b Hs2 Hb. split; [exact Hs2 | split; assumption].
Qed.

Lemma Inv_restore {A} {H : PO A} (p : iparser A) : Inv p -> Inv (i_restore p).
Proof. intros Hp s Hs. unfold i_restore. specialize (Hp s Hs). destruct (p s); auto. Qed.

Lemma Inv_preceded {A B} {HA : PO A} {HB : PO B} (p : iparser A) (q : iparser B) : Inv p -> Inv q -> Inv (i_preceded p q).
Proof. intros Hp Hq. unfold i_preceded. apply Inv_map; [apply Inv_pair; assumption|]. intros a [_ Hb]. exact Hb. Qed.

Lemma Inv_terminated {A B} {HA : PO A} {HB : PO B} (p : iparser A) (q : iparser B) : Inv p -> Inv q -> Inv (i_terminated p q).
Proof. intros Hp Hq. unfold i_terminated. apply Inv_map; [apply Inv_pair; assumption|]. intros a [Ha _]. exact Ha. Qed.

Lemma Inv_many0 {A} {H : PO A} fuel (p : iparser A) : Inv p -> Inv (i_many0 fuel p).
Proof.
  intros Hp. induction fuel as [|f IH]; intros s Hs; cbn [i_many0]; [exact I|].
  specialize (Hp s Hs). destruct (p s) as [s' a|s' b| |]; cbn in *; auto.
  destruct Hp as [Hs' Ha]. destruct (Nat.eqb (ipos s') (ipos s)); [exact Hs|].
  eapply Post_bind; [apply IH, Hs'|]. intros s2 l Hs2 Hl. split; [exact Hs2 | split; assumption].
Qed.

Lemma Inv_comments : Inv (i_comments toks).
Proof. intros s Hs. unfold i_comments. split; [exact Hs | exact (all_triv _)]. Qed.

Lemma Inv_tag f : Inv (i_tag toks f).
Proof.
  intros s Hs. unfold i_tag. destruct (nth_error toks _) as [t|]; [|exact Hs].
  destruct (f (tk t)); [split; [exact Hs | exact I] | exact Hs].
Qed.

Lemma Inv_info {A} {H : PO A} (p : iparser A) : Inv p -> Inv (i_info p).
Proof.
  intros Hp s Hs. unfold i_info. specialize (Hp (iset_ebuf s []) (EB_nil s)).
  destruct (p (iset_ebuf s [])) as [s' a|s' b| |]; cbn in *; auto.
  destruct Hp as [Hs' Ha]. split; [exact Hs|]. split; [exact Ha | exact Hs'].
Qed.

Lemma Inv_expect {A T} {H : PO A} (this : option T) (p : option T -> iparser A) m :
  (forall t, Inv (p t)) -> Inv (i_expect this p m).
Proof.
  intros Hp s Hs. unfold i_expect. pose proof (Hp this s Hs) as H1.
  destruct (p this s) as [s' a|s' [|]| |]; cbn in *; auto.
  - pose proof (Hp None s' H1) as H2. destruct (p None s') as [s2 a|s2 b| |]; cbn in *; auto.
    split; [apply EB_expect_error, H2 | exact I].
  - split; [apply EB_expect_error, H1 | exact I].
Qed.

Lemma Inv_expect0 {A} {H : PO A} (p : iparser A) m : Inv p -> Inv (i_expect0 p m).
Proof. intros Hp. unfold i_expect0. apply Inv_expect. intros _. exact Hp. Qed.

Lemma Inv_ref {A} {H : PO A} (this : option (A * nat)) (p : option A -> iparser A) :
  (forall t, Inv (p t)) -> Inv (i_ref this p).
Proof.
  intros Hp s Hs. unfold i_ref.
  match goal with |- Post _ (match p ?t ?s1 with _ => _ end) =>
    assert (H1 : EB s1) by (destruct this as [[x o]|]; exact Hs); specialize (Hp t s1 H1); destruct (p t s1) end;
    cbn in *; auto.
  destruct Hp as [Hs' Ha]. split; [destruct this; exact Hs' | split; [exact Ha | exact I]].
Qed.

Lemma Inv_confusable {A} {H : PO A} (p : iparser A) m : Inv p -> Inv (i_confusable p m).
Proof.
  intros Hp s Hs. unfold i_confusable. eapply Post_bind; [apply (Inv_info p Hp), Hs|].
  intros s' [a i] Hs' [Ha _]. split; [apply EB_push, Hs' | exact Ha].
Qed.

Lemma Inv_peek_la la : Inv (i_peek_la la).
Proof. intros s Hs. unfold i_peek_la. destruct (la (ipos s)); [split; [exact Hs | exact I] | exact Hs]. Qed.

Lemma iignore_from_post n la : forall s, EB s -> Post (fun _ : unit => True) (iignore_from toks n la s).
Proof.
  induction n as [|n IH]; intros s Hs; cbn [iignore_from]; destruct (la (ipos s)); try (split; [exact Hs | exact I]); try exact Hs.
  destruct (Nat.ltb (ipos s) (length toks)); [apply IH; exact Hs | exact Hs].
Qed.

Lemma Inv_ignore0 la : Inv (i_ignore0 toks la).
Proof.
  intros s Hs. unfold i_ignore0. eapply Post_bind; [apply iignore_from_post, Hs|].
  intros s' _ Hs' _. split; [exact Hs' | exact (all_triv _)].
Qed.

Lemma Inv_ignore1 la : Inv (i_ignore1 toks la).
Proof. intros s Hs. unfold i_ignore1. destruct (la (ipos s)); [exact Hs | apply Inv_ignore0, Hs]. Qed.

(* affected: a reused node is stripped *)
Lemma Inv_affected {A} {H : PO A} (this : option A) (inf : A -> info) (strip : A -> A) (inner : iparser A) :
  Inv inner -> (forall t, po (strip t)) -> Inv (i_affected toks ds de ilen this inf strip inner).
Proof.
  intros Hi Hstrip s Hs. unfold i_affected. destruct this as [t|]; [|apply Hi, Hs].
  destruct (tc_invalid _ _ _ _ _ _); [exact Hs|].
  destruct (tc_overlaps _ _ _ _).
  - specialize (Hi s Hs). destruct (inner s); auto.
  - destruct (Nat.leb _ _); [|exact I]. split; [exact Hs | apply Hstrip].
Qed.

Lemma Inv_bind {A B} {HA : PO A} {HB : PO B} (p : iparser A) (k : ist -> A -> ires B) :
  Inv p -> (forall a, po a -> Inv (fun s => k s a)) -> Inv (fun s => ibind (p s) k).
Proof. intros Hp Hk s Hs. eapply Post_bind; [apply Hp, Hs|]. intros s' a Hs' Ha. exact (Hk a Ha s' Hs'). Qed.

Lemma Inv_ret {A} {H : PO A} (f : ist -> A) : (forall s, po (f s)) -> Inv (fun s => IOk s (f s)).
Proof. intros Hf s Hs. split; [exact Hs | apply Hf]. Qed.

(* many(Some(old elements)) *)
Section Many.
Context {A : Type} {H : PO A}.
Variable pe : option (A * nat) -> iparser (A * nat).
Variable start_of : A * nat -> nat.
Hypothesis Hpe : forall t, Inv (pe t).

Lemma parse_insertion_post fuel end_pos : forall s (acc : list (A * nat)),
  EB s -> po acc ->
  Post po (fst (parse_insertion pe fuel end_pos s acc)) /\ po (snd (parse_insertion pe fuel end_pos s acc)).
Proof.
  induction fuel as [|f IH]; intros s acc Hs Hacc; cbn [parse_insertion];
    destruct (Nat.ltb (ipos s) end_pos); cbn [fst snd]; try (split; [split|]; assumption); try (split; [exact I | assumption]).
  pose proof (Hpe None s Hs) as H1. destruct (pe None s) as [s' a|s' b| |]; cbn [fst snd] in *;
    try (split; [exact I | assumption]).
  - destruct H1 as [Hs' Ha]. apply IH; [exact Hs'|]. apply all_app. split; [exact Hacc | split; [exact Ha | exact I]].
  - split; assumption.
Qed.

Lemma many_old_post fuel : forall olds s (acc : list (A * nat)),
  EB s -> po acc -> Post po (many_old ds de ilen pe start_of fuel olds s acc).
Proof.
  induction olds as [|o rest IH]; intros s acc Hs Hacc; cbn [many_old].
  - eapply Post_bind; [apply (Inv_many0 fuel (pe None) (Hpe None)), Hs|].
    intros s' l Hs' Hl. split; [exact Hs'|]. apply all_app. split; assumption.
  - unfold handle_insertions.
    match goal with |- context [parse_insertion pe fuel ?e s acc] =>
      pose proof (parse_insertion_post fuel e s acc Hs Hacc) as [H1 H2]; destruct (parse_insertion pe fuel e s acc) as [r acc1] end.
    cbn [fst snd] in *. destruct r as [s1 x|s1 b| |]; cbn in *; auto.
    destruct H1 as [Hs1 _]. pose proof (Hpe (Some o) s1 Hs1) as H3.
    destruct (pe (Some o) s1) as [s2 a|s2 [|]| |]; cbn in *; auto.
    destruct H3 as [Hs2 Ha]. apply IH; [exact Hs2|]. apply all_app. split; [exact H2 | split; [exact Ha | exact I]].
Qed.

Lemma Inv_many fuel olds : Inv (i_many ds de ilen pe start_of fuel olds).
Proof. intros s Hs. unfold i_many. apply many_old_post; [exact Hs | exact I]. Qed.
End Many.

Lemma Inv_list {A} {H : PO A} (parse_one : option A -> iparser A) (inf : A -> info) fuel olds :
  (forall t, Inv (parse_one t)) -> Inv (i_list toks ds de ilen parse_one inf fuel olds).
Proof.
  intros Hp s Hs. unfold i_list. eapply Post_bind; [apply (Inv_ref _ parse_one Hp), Hs|].
  intros s1 head Hs1 Hh.
  match goal with |- Post _ (if ?c then _ else _) => destruct c end; [exact I|].
  eapply Post_bind.
  - apply Inv_many; [|exact Hs1]. intros t. unfold i_cp_elem. apply Inv_ref. intros t'.
    unfold i_comma_preceded. apply Inv_preceded; [apply Inv_tag | apply Inv_ref, Hp].
  - intros s2 tail Hs2 Ht. split; [exact Hs2|]. split; [exact Hh|].
    apply all_map. eapply all_impl; [|exact Ht]. intros [[x o1] o2] [[Hx _] _]. split; [exact Hx | exact I].
Qed.

End Comb.

(* ------------------------------------------------------------------------------------------ *)
(* tactics *)

Ltac eta_inv :=
  try match goal with |- @Inv ?A ?H (fun s => ?p s) => change (@Inv A H p) end.

Ltac po_side :=
  intros;
  repeat match goal with x : _ * _ |- _ => destruct x end;
  repeat match goal with |- context [match ?o with Some _ => _ | None => _ end] => is_var o; destruct o end;
  unfold po, PO_stmt, PO_texpr, PO_variable; cbn beta;
  try apply po_stmt_if; try apply po_stmt_while; try apply po_stmt_block; try apply po_texpr_array; try apply po_var_access;
  unfold_po;
  unfold po_gdecl, parse_only in *; cbn beta iota in *;
  unfold po_typedecl, po_procdecl, po_vardecl, po_paramdecl, po_ident, po_intlit in *;
  cbn [po_stmt po_texpr po_var po_expr td_name td_ty td_info pd_name pd_params pd_vars pd_stmts pd_info
       pg_decls pg_info id_info il_info fst snd] in *;
  unfold po_ref, po_pair, po_opt, triv in *; cbn [fst snd] in *;
  intuition (auto using po_info_append, perr_mk, po_mkinfo, po_extend_range);
  try (repeat match goal with |- context [match ?x with Some _ => _ | None => _ end] => destruct x end; exact I).

Create HintDb strip_po.
#[global] Hint Resolve strip_ident_po strip_intlit_po strip_var_po strip_expr_po strip_texpr_po strip_stmt_po
  strip_vardecl_po strip_paramdecl_po strip_typedecl_po strip_procdecl_po : strip_po.

Ltac inv_auto :=
  cbv beta; eta_inv;
  lazymatch goal with
  | |- Inv (i_map _ _) => eapply Inv_map; [ inv_auto | po_side ]
  | |- Inv (i_alt _ _) => apply Inv_alt; inv_auto
  | |- Inv (i_opt _) => apply Inv_opt; inv_auto
  | |- Inv (i_pair _ _) => apply Inv_pair; inv_auto
  | |- Inv (i_restore _) => apply Inv_restore; inv_auto
  | |- Inv (i_preceded _ _) => apply Inv_preceded; inv_auto
  | |- Inv (i_terminated _ _) => apply Inv_terminated; inv_auto
  | |- Inv (i_many0 _ _) => apply Inv_many0; inv_auto
  | |- Inv (i_comments _) => apply Inv_comments
  | |- Inv (i_tag _ _) => apply Inv_tag
  | |- Inv (i_info _) => apply Inv_info; inv_auto
  | |- Inv (i_expect0 _ _) => apply Inv_expect0; inv_auto
  | |- Inv (i_expect _ _ _) => apply Inv_expect; intros ?; inv_auto
  | |- Inv (i_ref _ _) => apply Inv_ref; intros ?; inv_auto
  | |- Inv (i_confusable _ _) => apply Inv_confusable; inv_auto
  | |- Inv (i_peek_la _) => apply Inv_peek_la
  | |- Inv (i_ignore0 _ _) => apply Inv_ignore0
  | |- Inv (i_ignore1 _ _) => apply Inv_ignore1
  | |- Inv (i_affected _ _ _ _ _ _ _ _) => apply Inv_affected; [ inv_auto | intros ?; unfold po, PO_ident, PO_intlit, PO_variable, PO_expr, PO_texpr, PO_stmt, PO_vardecl, PO_paramdecl,
                    PO_typedecl, PO_procdecl; auto with strip_po ]
  | |- Inv (i_many _ _ _ _ _ _ _) => apply Inv_many; intros ?; inv_auto
  | |- Inv (i_list _ _ _ _ _ _ _ _) => apply Inv_list; intros ?; inv_auto
  | _ => solve [ auto ]
  end.

(* ------------------------------------------------------------------------------------------ *)
(* non-terminals *)

Section NonTerminals.
Variable toks : list token.
Variables ds de ilen : nat.

Notation i_ident := (i_ident toks ds de ilen).
Notation i_intlit := (i_intlit toks ds de ilen).
Notation i_variable0 := (i_variable0 toks ds de ilen).
Notation i_primary := (i_primary toks ds de ilen).
Notation i_factor := (i_factor toks ds de ilen).
Notation i_mul_loop := (i_mul_loop toks ds de ilen).
Notation i_mul := (i_mul toks ds de ilen).
Notation i_add_loop := (i_add_loop toks ds de ilen).
Notation i_add := (i_add toks ds de ilen).
Notation i_comparison := (i_comparison toks ds de ilen).

Lemma Inv_ident0 : Inv (i_ident0 toks).
Proof. unfold i_ident0. inv_auto. Qed.

Lemma Inv_ident this : Inv (i_ident this).
Proof. pose proof Inv_ident0. unfold ParserInc.i_ident. inv_auto. Qed.

Lemma Inv_intlit0 : Inv (i_intlit0 toks).
Proof. unfold i_intlit0. inv_auto. Qed.

Lemma Inv_intlit this : Inv (i_intlit this).
Proof. pose proof Inv_intlit0. unfold ParserInc.i_intlit. inv_auto. Qed.

Lemma Inv_rhs (p : iparser expr) lhs op : Inv p -> po_expr lhs -> Inv (i_rhs p lhs op).
Proof.
  intros Hp Hl. unfold i_rhs. apply Inv_bind; [inv_auto|]. intros rhs Hr. apply Inv_ret. intros s.
  destruct rhs as [e|]; cbn in *; repeat split; auto using po_mkinfo.
Qed.

Lemma po_var_fold accesses : forall (v0 : variable) (vinfo : info),
  po_var v0 -> po (accesses : list (option (expr * nat) * option token * info)) ->
  po_var (fold_left (fun v a => ArrAccess v (fst (fst a)) (extend_range (snd a) vinfo)) accesses v0).
Proof.
  induction accesses as [|a r IH]; intros v0 vinfo Hv Ha; cbn [fold_left]; [exact Hv|].
  destruct Ha as [H1 H2]. apply IH; [|exact H2]. apply po_var_access.
  destruct a as [[idx t] i]. destruct H1 as [[Hi _] Hinf]. cbn [fst snd] in *. repeat split; assumption.
Qed.

Definition LoopInv (l : ist -> expr -> ires expr) : Prop := forall lhs, po_expr lhs -> Inv (fun s => l s lhs).

Lemma Inv_tag_loop f (k : ist -> token -> ires expr) (d : expr) :
  po_expr d -> (forall t, Inv (fun s => k s t)) ->
  Inv (fun s => match i_tag toks f s with IOk s1 op => k s1 op | IErr _ _ => IOk s d | IPanic => IPanic | IFuel => IFuel end).
Proof.
  intros Hd Hk s Hs. pose proof (Inv_tag toks f s Hs) as H1. destruct (i_tag toks f s) as [s1 t|s1 b| |]; cbn in *; auto.
  apply (Hk t s1), H1.
Qed.

Lemma Inv_expr_all f :
  Inv (i_variable0 f) /\ Inv (i_primary f) /\ Inv (i_factor f) /\ LoopInv (i_mul_loop f) /\ Inv (i_mul f) /\
  LoopInv (i_add_loop f) /\ Inv (i_add f) /\ Inv (i_comparison f).
Proof.
  induction f as [|f (IHvar & IHpri & IHfac & IHml & IHmul & IHal & IHadd & IHcmp)].
  - repeat split; try intros lhs Hl; intros s Hs; exact I.
  - pose proof Inv_ident. pose proof Inv_intlit. repeat split.
    + cbn [ParserInc.i_variable0]. apply Inv_bind; [inv_auto|].
      intros [[v0 vinfo] acc] [[Hv _] Hacc]. apply Inv_ret. intros _. apply po_var_fold; assumption.
    + cbn [ParserInc.i_primary]. eta_inv. apply Inv_alt; [inv_auto|]. apply Inv_alt; [inv_auto|].
      apply Inv_bind; [inv_auto|]. intros [[[x lp] [e y]] inf] Hr. apply Inv_ret. intros _. revert Hr. po_side.
    + cbn [ParserInc.i_factor]. eta_inv. inv_auto.
    + intros lhs Hl. cbn [ParserInc.i_mul_loop]. apply Inv_tag_loop; [exact Hl|]. intros t.
      apply (Inv_bind (i_rhs (i_factor f) lhs (op_of (tk t)))); [apply Inv_rhs; assumption | exact IHml].
    + cbn [ParserInc.i_mul]. apply (Inv_bind (i_factor f)); [exact IHfac | exact IHml].
    + intros lhs Hl. cbn [ParserInc.i_add_loop]. apply Inv_tag_loop; [exact Hl|]. intros t.
      apply (Inv_bind (i_rhs (i_mul f) lhs (op_of (tk t)))); [apply Inv_rhs; assumption | exact IHal].
    + cbn [ParserInc.i_add]. apply (Inv_bind (i_mul f)); [exact IHmul | exact IHal].
    + cbn [ParserInc.i_comparison]. apply (Inv_bind (i_add f)); [exact IHadd|].
      intros e He. apply Inv_tag_loop; [exact He|]. intros t. apply Inv_rhs; assumption.
Qed.

Lemma Inv_variable0 f : Inv (i_variable0 f). Proof. apply Inv_expr_all. Qed.
Lemma Inv_comparison f : Inv (i_comparison f). Proof. apply Inv_expr_all. Qed.

Lemma Inv_variable f this : Inv (i_variable toks ds de ilen f this).
Proof. pose proof (Inv_variable0 f). unfold i_variable. inv_auto. Qed.

Lemma Inv_expr f this : Inv (i_expr toks ds de ilen f this).
Proof. pose proof (Inv_comparison f). unfold i_expr. inv_auto. Qed.

Lemma Inv_ref_expr f this : Inv (i_ref_expr toks ds de ilen f this).
Proof. pose proof (Inv_expr f). unfold i_ref_expr. inv_auto. Qed.

Lemma Inv_texpr f : forall this, Inv (i_texpr toks ds de ilen f this).
Proof.
  pose proof Inv_ident. pose proof Inv_intlit.
  induction f as [|f IH]; intros this; [intros s Hs; exact I|].
  destruct this as [[name|sz b inf]|]; cbn [i_texpr]; inv_auto.
Qed.

Lemma Inv_ref_texpr f this : Inv (i_ref_texpr toks ds de ilen f this).
Proof. pose proof (Inv_texpr f). unfold i_ref_texpr. inv_auto. Qed.

Lemma Inv_typedecl f this : Inv (i_typedecl toks ds de ilen f this).
Proof. pose proof Inv_ident. pose proof (Inv_ref_texpr f). unfold i_typedecl. inv_auto. Qed.

Lemma Inv_vardecl f this : Inv (i_vardecl toks ds de ilen f this).
Proof.
  pose proof Inv_ident. pose proof (Inv_ref_texpr f). unfold i_vardecl.
  destruct this as [[doc n t inf|inf]|]; inv_auto.
Qed.

Lemma Inv_paramdecl f this : Inv (i_paramdecl toks ds de ilen f this).
Proof.
  pose proof Inv_ident. pose proof (Inv_ref_texpr f). unfold i_paramdecl.
  destruct this as [[doc r n t inf|inf]|]; inv_auto.
Qed.

Lemma Inv_argument f this : Inv (i_argument toks ds de ilen f this).
Proof.
  pose proof (Inv_expr f). unfold i_argument.
  destruct this as [[op l r inf|x inf|i|op x inf|v|inf]|]; inv_auto.
Qed.

Lemma Inv_call f this : Inv (i_call toks ds de ilen f this).
Proof. pose proof Inv_ident. pose proof (Inv_argument f). unfold i_call. inv_auto. Qed.

Lemma Inv_assign f this : Inv (i_assign toks ds de ilen f this).
Proof. pose proof (Inv_variable f). pose proof (Inv_ref_expr f). unfold i_assign. inv_auto. Qed.

Lemma Inv_stmt f : forall this, Inv (i_stmt toks ds de ilen f this).
Proof.
  induction f as [|f IH]; intros this; [intros s Hs; exact I|].
  pose proof (Inv_ref_expr f). pose proof (Inv_call f). pose proof (Inv_assign f).
  destruct this as [[inf|v e inf|n args inf|c t e inf|c b inf|body inf|inf]|]; cbn [i_stmt]; inv_auto.
Qed.

Lemma Inv_procdecl f this : Inv (i_procdecl toks ds de ilen f this).
Proof.
  pose proof Inv_ident. pose proof (Inv_paramdecl f). pose proof (Inv_vardecl f). pose proof (Inv_stmt f).
  unfold i_procdecl. inv_auto.
Qed.

Lemma Inv_gdecl f this : Inv (i_gdecl toks ds de ilen f this).
Proof.
  pose proof (Inv_typedecl f). pose proof (Inv_procdecl f). unfold i_gdecl.
  destruct this as [[td|pd|inf]|]; inv_auto.
Qed.

Lemma Inv_eof_all : Inv (i_eof_all toks).
Proof.
  intros s Hs. unfold i_eof_all. eapply Post_bind; [apply Inv_tag, Hs|]. intros s' t Hs' _.
  destruct (Nat.ltb (ipos s') (length toks)); [exact Hs' | split; [exact Hs' | exact I]].
Qed.

Lemma Inv_program f this : Inv (i_program toks ds de ilen f this).
Proof. pose proof (Inv_gdecl f). pose proof Inv_eof_all. unfold i_program. inv_auto. Qed.

End NonTerminals.

(* ------------------------------------------------------------------------------------------ *)
(* G2: parser::update never returns a stale build or semantic message, whatever the old tree *)
Theorem parse_update_parse_only old toks ws we n p :
  parse_update old toks ws we n = Done p -> parse_only p.
Proof.
  unfold parse_update.
  pose proof (Inv_program toks ws we n (parse_fuel toks) (Some old)
                {| ipos := 0; irefp := 0; iebuf := []; incr := [] |} (Forall_nil _)) as H.
  destruct (i_program toks ws we n (parse_fuel toks) (Some old) _) as [s q|s b| |]; try discriminate.
  intros [= <-]. exact (proj2 H).
Qed.

(* the same for the scratch instance of the machinery *)
Theorem parse_via_inc_parse_only toks p : parse_via_inc toks = Done p -> parse_only p.
Proof.
  unfold parse_via_inc.
  pose proof (Inv_program toks 0 0 (length toks) (parse_fuel toks) None
                {| ipos := 0; irefp := 0; iebuf := []; incr := [] |} (Forall_nil _)) as H.
  destruct (i_program toks 0 0 (length toks) (parse_fuel toks) None _) as [s q|s b| |]; try discriminate.
  intros [= <-]. exact (proj2 H).
Qed.
