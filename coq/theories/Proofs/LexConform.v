(* C06, conformance of the whole lexer: a text that is a concatenation of lexemes of the declarative
   lexical grammar with whitespace separators (possibly empty where the lexemes do not merge) lexes to
   exactly these lexemes: kinds, values, byte ranges, no lexical error, one Eof at the end. *)
From Spl Require Import Model.Lexer Spec.LexSpec Proofs.LexerProofs Proofs.LexLocality Proofs.LexRun
  Proofs.LexConformOne.

(* ---- the expected token vector ---- *)

(* [place off seps ls]: the lexemes [ls] placed at their byte positions in [weave seps (map snd ls)],
   the text starting at byte offset [off]. *)
Fixpoint place (off : N) (seps : list text) (ls : list (kind * text)) : list token :=
  match seps, ls with
  | g :: seps', kl :: ls' =>
      mk_token (off + blen g) (fst kl) [] (snd kl) :: place (off + blen g + blen (snd kl)) seps' ls'
  | g :: _, [] => [eof_token (off + blen g)]
  | [], _ => []
  end.

(* what follows a lexeme in the text: the next separator if it is not empty, else the next lexeme *)
Definition follow (seps' : list text) (ls' : list (kind * text)) : text :=
  match seps' with
  | [] => []
  | (_ :: _) as g :: _ => g
  | [] :: _ => match ls' with [] => [] | kl :: _ => snd kl end
  end.

(* every lexeme is delimited by what follows it *)
Fixpoint SeparatedOK (ls : list (kind * text)) (seps : list text) : Prop :=
  match seps, ls with
  | _ :: seps', kl :: ls' => Delimited (fst kl) (snd kl) (follow seps' ls') /\ SeparatedOK ls' seps'
  | _, _ => True
  end.

(* ---- facts about lexemes ---- *)

Lemma lexeme_head k lx : Lexeme k lx -> exists c lx', lx = c :: lx' /\ is_ws c = false.
Proof.
  intros HL. destruct HL as [p k Hin | p k Hin | c r Hc Hr Hnk | d v Hne Hd Hv Hlt | d v Hne Hd Hv Hlt | c | | body Hb | body Hb].
  - cbn in Hin.
    repeat (destruct Hin as [Hin|Hin]; [inversion Hin; subst p k; clear Hin; do 2 eexists; split; reflexivity|]).
    destruct Hin.
  - cbn in Hin.
    repeat (destruct Hin as [Hin|Hin]; [inversion Hin; subst p k; clear Hin; do 2 eexists; split; reflexivity|]).
    destruct Hin.
  - exists c, r. split; [reflexivity|]. apply alnum_ascii_not_ws. now apply ident_start_ascii.
  - destruct d as [|c d]; [congruence|]. exists c, d. split; [reflexivity|].
    cbn [forallb] in Hd. apply andb_true_iff in Hd as [Hc _]. apply alnum_ascii_not_ws. now apply digit_ascii.
  - do 2 eexists. split; reflexivity.
  - do 2 eexists. split; reflexivity.
  - do 2 eexists. split; reflexivity.
  - do 2 eexists. split; reflexivity.
  - do 2 eexists. split; reflexivity.
Qed.

Lemma lexeme_nonempty k lx : Lexeme k lx -> lx <> [].
Proof. intros H. destruct (lexeme_head k lx H) as [c [lx' [-> _]]]. discriminate. Qed.

(* [Delimited] looks at most at the first character of what follows *)
Lemma delimited_agree k lx r r' : agree1 r r' -> Delimited k lx r -> Delimited k lx r'.
Proof.
  intros Hag. destruct r as [|c r], r' as [|c' r']; try discriminate Hag; [exact (fun H => H)|].
  injection Hag as <-. destruct k; exact (fun H => H).
Qed.

Lemma delimited_nil k lx : Delimited k lx [].
Proof. destruct k; exact I. Qed.

(* after whitespace every lexeme is delimited, except a comment that is not closed by a line feed *)
Definition closed_comment (k : kind) (lx : text) : Prop :=
  match k with Comment _ => last lx 0 = 10 | _ => True end.

Lemma delimited_ws k lx c r : is_ws c = true -> closed_comment k lx -> Delimited k lx (c :: r).
Proof.
  intros Hc Hcl. destruct (ws_not_alnum c Hc) as [Ha Ht].
  assert (Hd : is_digit c = false).
  { unfold is_alnum_ascii in Ha. apply orb_false_iff in Ha as [Ha _]. apply orb_false_iff in Ha as [_ Ha]. exact Ha. }
  assert (Hh : is_hex c = false) by (destruct (is_ws_cases c Hc) as [-> | [-> | [-> | ->]]]; reflexivity).
  assert (H61 : match c :: r with 61 :: _ => False | _ => True end)
    by (destruct (is_ws_cases c Hc) as [-> | [-> | [-> | ->]]]; exact I).
  assert (H47 : match c :: r with 47 :: _ => False | _ => True end)
    by (destruct (is_ws_cases c Hc) as [-> | [-> | [-> | ->]]]; exact I).
  destruct k; cbn [Delimited]; try exact I; try exact Ht; try exact Hh; try exact H61; try exact H47; try exact Hcl.
  split; [exact Hd|]. intros [_ ->]. discriminate Hc.
Qed.

(* ---- weave ---- *)

Lemma follow_agree seps' ls' :
  length seps' = S (length ls') -> Forall (fun kl => Lexeme (fst kl) (snd kl)) ls' ->
  agree1 (follow seps' ls') (weave seps' (map snd ls')).
Proof.
  intros Hlen HL. destruct seps' as [|g seps']; [discriminate Hlen|]. cbn [follow].
  destruct g as [|c g].
  - destruct ls' as [|kl ls']; [reflexivity|]. cbn [map weave app].
    inversion HL as [|? ? Hkl _]; subst. destruct (lexeme_head _ _ Hkl) as [c [lx' [-> _]]]. reflexivity.
  - destruct ls' as [|kl ls']; reflexivity.
Qed.

(* ---- the run ---- *)

Lemma conform_run ls : forall seps off,
  length seps = S (length ls) ->
  Forall (fun s => forallb is_ws s = true) seps ->
  Forall (fun kl => Lexeme (fst kl) (snd kl)) ls ->
  SeparatedOK ls seps ->
  Run off (weave seps (map snd ls)) (place off seps ls).
Proof.
  induction ls as [|kl ls IH]; intros seps off Hlen Hws HL Hsep.
  - destruct seps as [|g [|g2 seps]]; try discriminate Hlen. cbn [map weave place].
    inversion Hws; subst. now apply Run_eof.
  - destruct seps as [|g seps]; [discriminate Hlen|]. cbn [length] in Hlen. injection Hlen as Hlen.
    inversion Hws as [|? ? Hg Hws']; subst. inversion HL as [|? ? Hkl HL']; subst.
    cbn [SeparatedOK] in Hsep. destruct Hsep as [HD Hsep]. cbn [map weave place].
    destruct (lexeme_head _ _ Hkl) as [c [lx' [Elx Hc]]].
    eapply Run_tok.
    + exact Hg.
    + rewrite Elx. cbn [app stops]. exact Hc.
    + apply lex_raw_lexeme; [exact Hkl|].
      eapply delimited_agree; [|exact HD]. now apply follow_agree.
    + now apply IH.
Qed.

Theorem conformance_place ls seps :
  length seps = S (length ls) ->
  Forall (fun s => forallb is_ws s = true) seps ->
  Forall (fun kl => Lexeme (fst kl) (snd kl)) ls ->
  SeparatedOK ls seps ->
  lex (weave seps (map snd ls)) = Some (place 0 seps ls).
Proof.
  intros Hlen Hws HL Hsep. unfold lex. apply run_lex_from; [now apply conform_run | lia].
Qed.

(* ---- what [place] says ---- *)

Lemma place_kinds ls : forall seps off,
  length seps = S (length ls) -> map tk (place off seps ls) = map fst ls ++ [Eof].
Proof.
  induction ls as [|kl ls IH]; intros seps off Hlen.
  - destruct seps as [|g [|g2 seps]]; try discriminate Hlen. reflexivity.
  - destruct seps as [|g seps]; [discriminate Hlen|]. cbn [length] in Hlen. injection Hlen as Hlen.
    cbn [place map app mk_token tk]. now rewrite IH.
Qed.

Lemma place_no_errors ls : forall seps off, Forall (fun t => terr t = []) (place off seps ls).
Proof.
  induction ls as [|kl ls IH]; intros seps off.
  - destruct seps as [|g seps]; cbn [place]; repeat constructor.
  - destruct seps as [|g seps]; cbn [place]; [constructor|]. constructor; [reflexivity | apply IH].
Qed.

Lemma weave_nil_r g seps : weave (g :: seps) [] = g.
Proof. reflexivity. Qed.

(* token i is lexeme i, at the byte offset of everything woven before it *)
Lemma place_nth ls : forall seps off i kl,
  length seps = S (length ls) -> nth_error ls i = Some kl ->
  exists t, nth_error (place off seps ls) i = Some t /\ tk t = fst kl /\ terr t = [] /\
            ts t = off + blen (weave (firstn (S i) seps) (firstn i (map snd ls))) /\
            te t = ts t + blen (snd kl).
Proof.
  induction ls as [|kl0 ls IH]; intros seps off i kl Hlen Hn.
  - destruct i; discriminate Hn.
  - destruct seps as [|g seps]; [discriminate Hlen|]. cbn [length] in Hlen. injection Hlen as Hlen.
    destruct i as [|i].
    + cbn [nth_error] in Hn. injection Hn as <-. eexists. split; [reflexivity|].
      cbn [mk_token tk terr ts te map]. repeat split.
    + cbn [nth_error] in Hn. destruct (IH seps (off + blen g + blen (snd kl0)) i kl Hlen Hn) as [t [H1 [H2 [H3 [H4 H5]]]]].
      exists t. cbn [place nth_error]. repeat split; try assumption.
      rewrite H4. destruct seps as [|g2 seps]; [discriminate Hlen|].
      cbn [map firstn weave]. rewrite !blen_app. lia.
Qed.

Lemma place_eof ls : forall seps off,
  length seps = S (length ls) ->
  nth_error (place off seps ls) (length ls) = Some (eof_token (off + blen (weave seps (map snd ls)))).
Proof.
  induction ls as [|kl ls IH]; intros seps off Hlen.
  - destruct seps as [|g [|g2 seps]]; try discriminate Hlen. reflexivity.
  - destruct seps as [|g seps]; [discriminate Hlen|]. cbn [length] in Hlen. injection Hlen as Hlen.
    cbn [place length nth_error map weave]. rewrite (IH seps _ Hlen), !blen_app. do 2 f_equal. lia.
Qed.

Lemma weave_split (ls : list (kind * text)) : forall (seps : list text) i kl,
  length seps = S (length ls) -> nth_error ls i = Some kl ->
  exists suffix, weave seps (map snd ls)
                 = weave (firstn (S i) seps) (firstn i (map snd ls)) ++ snd kl ++ suffix.
Proof.
  induction ls as [|kl0 ls IH]; intros seps i kl Hlen Hn.
  - destruct i; discriminate Hn.
  - destruct seps as [|g seps]; [discriminate Hlen|]. cbn [length] in Hlen. injection Hlen as Hlen.
    destruct i as [|i].
    + cbn [nth_error] in Hn. injection Hn as <-. exists (weave seps (map snd ls)).
      cbn [map firstn weave]. destruct seps; reflexivity.
    + cbn [nth_error] in Hn. destruct (IH seps i kl Hlen Hn) as [suffix E]. exists suffix.
      destruct seps as [|g2 seps]; [discriminate Hlen|].
      cbn [map firstn weave] in *. rewrite E. now rewrite <- !app_assoc.
Qed.

(* ---- the conformance theorem ---- *)

Theorem conformance (ls : list (kind * text)) (seps : list text) :
  length seps = S (length ls) ->
  Forall (fun s => forallb is_ws s = true) seps ->
  Forall (fun kl => Lexeme (fst kl) (snd kl)) ls ->
  SeparatedOK ls seps ->
  exists toks,
    lex (weave seps (map snd ls)) = Some toks /\
    map tk toks = map fst ls ++ [Eof] /\
    Forall (fun t => terr t = []) toks /\
    (forall i kl, nth_error ls i = Some kl ->
       exists t suffix,
         nth_error toks i = Some t /\ tk t = fst kl /\
         ts t = blen (weave (firstn (S i) seps) (firstn i (map snd ls))) /\
         te t = ts t + blen (snd kl) /\
         weave seps (map snd ls) = weave (firstn (S i) seps) (firstn i (map snd ls)) ++ snd kl ++ suffix) /\
    nth_error toks (length ls) = Some (eof_token (blen (weave seps (map snd ls)))).
Proof.
  intros Hlen Hws HL Hsep. exists (place 0 seps ls).
  split; [now apply conformance_place|]. split; [now apply place_kinds|]. split; [apply place_no_errors|]. split.
  - intros i kl Hn. destruct (place_nth ls seps 0 i kl Hlen Hn) as [t [H1 [H2 [H3 [H4 H5]]]]].
    destruct (weave_split ls seps i kl Hlen Hn) as [suffix E]. exists t, suffix. repeat split; assumption.
  - now apply place_eof.
Qed.

(* ---- a purely syntactic sufficient condition ---- *)

(* every separator after a lexeme is non-empty (white space), and every comment lexeme is closed by its
   line feed: then the sequence is separated, whatever the lexemes are *)
Lemma nonempty_seps_separated ls : forall seps,
  length seps = S (length ls) ->
  Forall (fun s => forallb is_ws s = true) seps ->
  Forall (fun s => s <> []) (tl seps) ->
  Forall (fun kl => closed_comment (fst kl) (snd kl)) ls ->
  SeparatedOK ls seps.
Proof.
  induction ls as [|kl ls IH]; intros seps Hlen Hws Hne Hcl.
  - destruct seps; exact I.
  - destruct seps as [|g seps]; [exact I|]. cbn [length] in Hlen. injection Hlen as Hlen.
    cbn [tl] in Hne. inversion Hws as [|? ? _ Hws']; subst. inversion Hcl as [|? ? Hc Hcl']; subst.
    destruct seps as [|g2 seps]; [discriminate Hlen|].
    inversion Hne as [|? ? Hg2 Hne']; subst. inversion Hws' as [|? ? Hw2 _]; subst.
    cbn [SeparatedOK]. split.
    + destruct g2 as [|c g2]; [congruence|]. cbn [follow].
      cbn [forallb] in Hw2. apply andb_true_iff in Hw2 as [Hwc _]. now apply delimited_ws.
    + apply IH; assumption.
Qed.

Theorem conformance_nonempty_seps ls seps :
  length seps = S (length ls) ->
  Forall (fun s => forallb is_ws s = true) seps ->
  Forall (fun s => s <> []) (tl seps) ->
  Forall (fun kl => Lexeme (fst kl) (snd kl)) ls ->
  Forall (fun kl => closed_comment (fst kl) (snd kl)) ls ->
  lex (weave seps (map snd ls)) = Some (place 0 seps ls) /\
  map tk (place 0 seps ls) = map fst ls ++ [Eof].
Proof.
  intros Hlen Hws Hne HL Hcl. split; [|now apply place_kinds].
  apply conformance_place; try assumption. now apply nonempty_seps_separated.
Qed.

(* ---- keywords only as whole words ---- *)

Lemma kw_shape p k :
  In (p, k) kw_table -> exists c p', p = c :: p' /\ is_ident_start c = true /\ forallb is_alnum_ascii p' = true.
Proof.
  intros Hin. cbn in Hin.
  repeat (destruct Hin as [Hin|Hin];
          [inversion Hin; subst p k; clear Hin; do 2 eexists; split; [reflexivity | split; reflexivity]|]).
  destruct Hin.
Qed.

Lemma kw_extended_not_kw p k (r : text) : In (p, k) kw_table -> r <> [] -> is_keyword_text (p ++ r) = false.
Proof.
  intros Hin Hr. destruct r as [|x r]; [congruence|]. cbn in Hin.
  repeat (destruct Hin as [Hin|Hin]; [inversion Hin; subst p k; clear Hin; reflexivity|]). destruct Hin.
Qed.

(* a keyword spelling is the keyword exactly when no letter, digit or '_' follows it ... *)
Lemma kw_whole_word p k rest :
  In (p, k) kw_table -> match rest with [] => True | c :: _ => is_alnum_trunc c = false end ->
  lex_raw (p ++ rest) = Some (k, [], p, rest).
Proof.
  intros Hin Hst. apply lex_raw_lexeme; [now apply Lx_kw|].
  cbn in Hin. repeat (destruct Hin as [Hin|Hin]; [inversion Hin; subst p k; clear Hin; exact Hst|]). destruct Hin.
Qed.

(* ... and when letters, digits or '_' follow, the whole word is ONE identifier *)
Lemma kw_prefix_is_ident p k (r rest : text) :
  In (p, k) kw_table -> r <> [] -> forallb is_alnum_ascii r = true ->
  match rest with [] => True | c :: _ => is_alnum_trunc c = false end ->
  lex_raw ((p ++ r) ++ rest) = Some (Ident (p ++ r), [], p ++ r, rest).
Proof.
  intros Hin Hr Ha Hst. pose proof (kw_extended_not_kw p k r Hin Hr) as Hnk.
  destruct (kw_shape p k Hin) as [c [p' [-> [Hc Hp']]]]. cbn [app] in *.
  apply (lex_raw_lexeme (Ident (c :: p' ++ r)) (c :: p' ++ r) rest); [|exact Hst].
  apply Lx_ident; [exact Hc | | exact Hnk]. rewrite forallb_app, Hp', Ha. reflexivity.
Qed.

Print Assumptions conformance.
Print Assumptions conformance_nonempty_seps.
