(* C13 on valid programs, part 2 - what the static semantics (Spec/Typing.v [well_typed]) says about the
   occurrences of Spec/Nav.v, for EVERY tree pr and table G with [well_typed pr G]:

     T  [type_facts], [proc_facts]: a declared name is in the table with an entry of its kind and is not
        predefined; a name inside a type expression is a global TYPE entry; the keys of a procedure's
        local table are exactly the names of its parameter / variable declarations, without
        repetition; a variable of a statement is a key of the local table; a callee is NOT a key of
        the local table and is a global PROCEDURE entry; global names are declared once.
     K  the tree-only binding of Spec/Nav.v ([binding], [same_entity]) on such a tree: two occurrences
        are bound to the same entity iff they have the same KEY = (class of the role, name, and - for
        the local class - enclosing procedure) ([same_entity_key]), provided distinct declaring
        occurrences have distinct tokens ([decl_tok_inj], established for the trees of the grammar in
        Proofs/RefsValid.v); an occurrence has no declaration iff its name is predefined. *)
From Coq Require Import PeanoNat Lia Bool List.
From Spl Require Import Spec.Typing Proofs.SemProofs Proofs.TypingProofs Proofs.HoverProofs Proofs.HoverValid.
From Spl Require Import Proofs.GotoProofs Proofs.RefsProofs Spec.Nav Proofs.RefsValidWalks.
Import ListNotations.
Local Open Scope nat_scope.

(* ---------------------------------------------------------------------------------------- *)
(* association lists *)

Lemma lookup_none_keys {V} (t : list (text * V)) k : lookup t k = None <-> ~ In k (map fst t).
Proof.
  induction t as [|[k0 v0] t IH]; cbn [lookup map fst In]; [tauto|].
  destruct (text_eqb k0 k) eqn:E.
  - apply text_eqb_eq in E. subst. split; [discriminate | intros H; exfalso; apply H; now left].
  - rewrite IH. split; [intros H [H1|H1]; [subst; rewrite text_eqb_refl in E; discriminate | auto] | tauto].
Qed.

Lemma lookup_some_keys {V} (t : list (text * V)) k : lookup t k <> None <-> In k (map fst t).
Proof.
  split.
  - intros H. destruct (in_dec (list_eq_dec N.eq_dec) k (map fst t)) as [Hi|Hn]; [exact Hi|].
    apply lookup_none_keys in Hn. contradiction.
  - intros Hi Hn. apply lookup_none_keys in Hn. contradiction.
Qed.

Lemma lookup_app_some {V} (t t' : list (text * V)) k v :
  lookup (t ++ t') k = Some v -> lookup t k = Some v \/ (lookup t k = None /\ lookup t' k = Some v).
Proof.
  destruct (lookup t k) as [x|] eqn:E.
  - rewrite (lookup_app_l _ _ _ _ E). intros [= <-]. now left.
  - rewrite (lookup_app_none _ _ _ E). intros H. right. now split.
Qed.

Lemma NoDup_map_inj {A B} (f : A -> B) l a b : NoDup (map f l) -> In a l -> In b l -> f a = f b -> a = b.
Proof.
  induction l as [|x l IH]; intros Hn Ha Hb Hf; [contradiction|]. cbn [map] in Hn. inversion Hn as [|? ? Hx Hl]; subst.
  destruct Ha as [->|Ha], Hb as [->|Hb]; auto.
  - exfalso. apply Hx. rewrite Hf. now apply in_map.
  - exfalso. apply Hx. rewrite <- Hf. now apply in_map.
Qed.

Lemma NoDup_app_snoc {A} (l : list A) x : NoDup l -> ~ In x l -> NoDup (l ++ [x]).
Proof.
  induction l as [|y l IH]; intros Hn Hx; cbn [app]; [constructor; [intros []|constructor]|].
  inversion Hn as [|? ? Hy Hl]; subst. constructor.
  - intros H. apply in_app_or in H as [H|[H|[]]]; [auto | subst; apply Hx; now left].
  - apply IH; [exact Hl|]. intros H. apply Hx. now right.
Qed.

Lemma find_ext_in {A} (f g : A -> bool) l : (forall x, In x l -> f x = g x) -> find f l = find g l.
Proof.
  induction l as [|x l IH]; intros H; [reflexivity|]. cbn [find]. rewrite (H x (or_introl eq_refl)).
  destruct (g x); [reflexivity|]. apply IH. intros y Hy. apply H. now right.
Qed.

Lemma find_not_none {A} (f : A -> bool) l x : In x l -> f x = true -> find f l <> None.
Proof. intros Hi Hf Hn. pose proof (find_none _ _ Hn x Hi). congruence. Qed.

(* ---------------------------------------------------------------------------------------- *)
(* T: type expressions, parameters, variables                                                *)

Definition is_type_in (G : gtable) (i : ident) : Prop := exists te, lookup G (id_val i) = Some (GTypeE te).

Lemma binds_type_global L G x te : binds L G x (EntType te) -> lookup G x = Some (GTypeE te).
Proof. intros H. inversion H as [le Hl He | ge Hl Hg He]; [destruct le; discriminate He|]. destruct ge; [injection He as ->; exact Hg | discriminate]. Qed.

Lemma id_val_shift i off : id_val (shift_ident i off) = id_val i.
Proof. reflexivity. Qed.

Lemma denotes_ident L G c te t : denotes L G c te t -> forall toff i, ident_in_texpr te toff = Some i -> is_type_in G i.
Proof.
  induction 1 as [i0 te t Hb _ | il b o inf bt _ IH]; intros toff i H.
  - cbn [ident_in_texpr] in H. injection H as <-. exists te. rewrite id_val_shift. eapply binds_type_global; eauto.
  - cbn [ident_in_texpr] in H. destruct (ident_in_texpr b o) as [j|] eqn:E; [|discriminate]. injection H as <-.
    destruct (IH _ _ E) as [te Hl]. exists te. now rewrite id_val_shift.
Qed.

Lemma is_type_in_shift G i off : is_type_in G i -> is_type_in G (shift_ident i off).
Proof. intros [te H]. exists te. exact H. Qed.

Lemma keys_snoc {V} (L : list (text * V)) k v : map fst (L ++ [(k, v)]) = map fst L ++ [k].
Proof. now rewrite map_app. Qed.

Lemma wf_params_facts Gi pn L ps L' es : wf_params Gi pn L ps L' es ->
  map fst L' = map fst L ++ map id_val (var_names_in_params all ps)
  /\ (NoDup (map fst L) -> NoDup (map fst L'))
  /\ forall i, In i (types_in_params all ps) -> is_type_in Gi i.
Proof.
  induction 1 as [L | L doc is_ref name te o inf off t r L' es Hd _ Hfresh _ [IHk [IHn IHt]]].
  - split; [now rewrite app_nil_r|]. split; [auto | intros i []].
  - split; [|split].
    + rewrite IHk, keys_snoc. unfold var_names_in_params. cbn [flat_map fst snd all app map]. rewrite id_val_shift, <- app_assoc. reflexivity.
    + intros Hn. apply IHn. rewrite keys_snoc. apply NoDup_app_snoc; [exact Hn|]. now apply lookup_none_keys.
    + intros i Hi. unfold types_in_params in Hi. cbn [flat_map fst snd] in Hi. apply in_app_or in Hi as [Hi|Hi]; [|now apply IHt].
      apply filter_In in Hi as [Hi _]. destruct (ident_in_texpr te o) as [j|] eqn:E; [|contradiction].
      destruct Hi as [<-|[]]. apply is_type_in_shift. eapply denotes_ident; eauto.
Qed.

Lemma wf_vars_facts Gi pn L vs L' : wf_vars Gi pn L vs L' ->
  map fst L' = map fst L ++ map id_val (var_names_in_vars all vs)
  /\ (NoDup (map fst L) -> NoDup (map fst L'))
  /\ forall i, In i (types_in_vars all vs) -> is_type_in Gi i.
Proof.
  induction 1 as [L | L doc name te o inf off t r L' Hd Hfresh _ [IHk [IHn IHt]]].
  - split; [now rewrite app_nil_r|]. split; [auto | intros i []].
  - split; [|split].
    + rewrite IHk, keys_snoc. unfold var_names_in_vars. cbn [flat_map fst snd all app map]. rewrite id_val_shift, <- app_assoc. reflexivity.
    + intros Hn. apply IHn. rewrite keys_snoc. apply NoDup_app_snoc; [exact Hn|]. now apply lookup_none_keys.
    + intros i Hi. unfold types_in_vars in Hi. cbn [flat_map fst snd] in Hi. apply in_app_or in Hi as [Hi|Hi]; [|now apply IHt].
      apply filter_In in Hi as [Hi _]. destruct (ident_in_texpr te o) as [j|] eqn:E; [|contradiction].
      destruct Hi as [<-|[]]. apply is_type_in_shift. eapply denotes_ident; eauto.
Qed.

(* ---------------------------------------------------------------------------------------- *)
(* T: statements                                                                             *)

Lemma names_shift (P : text -> Prop) (l : list ident) off :
  (forall i, In i l -> P (id_val i)) -> forall i, In i (shift_idents l off) -> P (id_val i).
Proof. intros H i Hi. apply in_shift in Hi as [j [-> Hj]]. rewrite id_val_shift. auto. Qed.

Section Bodies.
Variables (L : ltable) (G : gtable).

Definition is_local (x : text) : Prop := lookup L x <> None.
Definition is_callee (x : text) : Prop := lookup L x = None /\ exists pe, lookup G x = Some (GProcE pe).

Lemma typing_names :
  (forall v t, var_type L G v t -> forall i, In i (vars_in_variable all v) -> is_local (id_val i)) /\
  (forall e t, expr_type L G e t -> forall i, In i (vars_in_expr all e) -> is_local (id_val i)).
Proof.
  apply typing_mutind.
  - intros i e ve t Hb Hv _ j [<-|[]]. destruct (binds_var_local _ _ _ _ _ Hb Hv) as [le [Hl _]]. unfold is_local. congruence.
  - intros a e off inf sz b c _ IHa _ IHe i H. cbn [vars_in_variable] in H. apply in_app_or in H as [H|H]; [auto|].
    revert i H. apply names_shift. exact IHe.
  - intros i j [].
  - intros v t _ IH. exact IH.
  - intros op l r inf _ _ IHl _ IHr i H. cbn [vars_in_expr] in H. apply in_app_or in H as [H|H]; auto.
  - intros op l r inf _ _ IHl _ IHr i H. cbn [vars_in_expr] in H. apply in_app_or in H as [H|H]; auto.
  - intros op a inf _ IH. exact IH.
  - intros a inf t _ IH. exact IH.
Qed.

Lemma args_names args ps : Forall2 (arg_ok L G) args ps ->
  forall i, In i (flat_map (fun a => shift_idents (vars_in_expr all (fst a)) (snd a)) args) -> is_local (id_val i).
Proof.
  induction 1 as [|[a o] p args ps Ha _ IH]; [intros i []|]. intros i H. cbn [flat_map fst snd] in H.
  apply in_app_or in H as [H|H]; [|auto]. inversion Ha; subst. revert i H. apply names_shift.
  eapply (proj2 typing_names); eauto.
Qed.

Lemma wt_names :
  (forall s, wt_stmt L G s ->
     (forall i, In i (vars_in_stmt all s) -> is_local (id_val i)) /\ (forall i, In i (procs_in_stmt all s) -> is_callee (id_val i))) /\
  (forall l, wt_stmts L G l ->
     (forall i, In i (vars_in_stmts all l) -> is_local (id_val i)) /\ (forall i, In i (procs_in_stmts all l) -> is_callee (id_val i))).
Proof.
  destruct typing_names as [Tv Te].
  apply wt_mutind.
  - intros inf. split; intros i [].
  - intros v e o inf Hv He. split; [|intros i []]. intros i H. cbn [vars_in_stmt vars_in_oexpr] in H.
    apply in_app_or in H as [H|H]; [eapply Tv; eauto|]. revert i H. apply names_shift. eapply Te; eauto.
  - intros name args inf pe Hb Ha. split.
    + cbn [vars_in_stmt]. eapply args_names; eauto.
    + intros i [<-|[]]. inversion Hb as [le Hl He | ge Hl Hg He]; [destruct le; discriminate He|].
      split; [exact Hl|]. destruct ge; [discriminate|]. injection He as ->. eauto.
  - intros c oc t ot inf Hc _ [IHv IHp]. split; intros i H; cbn [vars_in_stmt procs_in_stmt vars_in_oexpr] in H.
    + rewrite app_nil_r in H. apply in_app_or in H as [H|H]; revert i H; apply names_shift; [eapply Te; eauto | exact IHv].
    + rewrite app_nil_r in H. revert i H. apply names_shift. exact IHp.
  - intros c oc t ot e oe inf Hc _ [IHtv IHtp] _ [IHev IHep]. split; intros i H; cbn [vars_in_stmt procs_in_stmt vars_in_oexpr] in H.
    + apply in_app_or in H as [H|H]; [revert i H; apply names_shift; eapply Te; eauto|].
      apply in_app_or in H as [H|H]; revert i H; apply names_shift; assumption.
    + apply in_app_or in H as [H|H]; revert i H; apply names_shift; assumption.
  - intros c oc b ob inf Hc _ [IHv IHp]. split; intros i H; cbn [vars_in_stmt procs_in_stmt vars_in_oexpr] in H.
    + apply in_app_or in H as [H|H]; revert i H; apply names_shift; [eapply Te; eauto | exact IHv].
    + revert i H. apply names_shift. exact IHp.
  - intros body inf _ [IHv IHp]. cbn [vars_in_stmt procs_in_stmt].
    rewrite (block_go (vars_in_stmt all) shift_idents), (block_go (procs_in_stmt all) shift_idents). split; assumption.
  - split; intros i [].
  - intros s o r _ [IHsv IHsp] _ [IHrv IHrp]. unfold vars_in_stmts, procs_in_stmts in *. cbn [flat_map fst snd].
    split; intros i H; apply in_app_or in H as [H|H]; auto; revert i H; apply names_shift; assumption.
Qed.
End Bodies.

(* ---------------------------------------------------------------------------------------- *)
(* T: the global declarations                                                                 *)

Definition gname (g : gdecl) : option text := option_map id_val (gdecl_name g).

Definition kind_match (g : gdecl) (v : gentry) : Prop :=
  match g, v with GType _, GTypeE _ | GProc _, GProcE _ => True | _, _ => False end.

Lemma wf_gdecl_name G off g ke : wf_gdecl G off g ke -> gname g = Some (fst ke) /\ kind_match g (snd ke).
Proof. intros [d name te o t Hn _ _ _ _ | d name L1 ps L2 Hn _ _ _]; unfold gname; cbn [gdecl_name fst snd kind_match]; rewrite Hn; (split; [reflexivity | exact I]). Qed.

Lemma wf_gdecls_in' : forall G0 ds es, wf_gdecls G0 ds es ->
  forall g off, In (g, off) ds ->
  exists Gi ke, wf_gdecl Gi off g ke /\ lookup (G0 ++ es) (fst ke) = Some (snd ke)
                /\ (forall x v, lookup Gi x = Some v -> lookup (G0 ++ es) x = Some v)
                /\ (forall x v, lookup G0 x = Some v -> lookup Gi x = Some v).
Proof.
  induction 1 as [G | G d off [k e] r es Hd _ IH]; intros g o Hin; [contradiction|].
  destruct (wf_gdecl_fresh _ _ _ _ Hd) as [Hf _]. cbn [fst] in Hf.
  assert (Heq : G ++ (k, e) :: es = (G ++ [(k, e)]) ++ es) by (now rewrite <- app_assoc).
  destruct Hin as [Hin|Hin].
  - injection Hin as <- <-. exists G, (k, e). split; [exact Hd|]. cbn [fst snd]. repeat split.
    + rewrite Heq. apply lookup_app_l. now rewrite lookup_app, Hf, text_eqb_refl.
    + intros x v E. now apply lookup_app_l.
    + auto.
  - destruct (IH _ _ Hin) as [Gi [ke [H1 [H2 [H3 H4]]]]]. exists Gi, ke. rewrite Heq. repeat split; try assumption.
    intros x v E. apply H4. now apply lookup_app_l.
Qed.

(* a name is declared once *)
Lemma wf_gdecls_unique : forall G0 ds es, wf_gdecls G0 ds es ->
  forall d1 d2, In d1 ds -> In d2 ds -> gname (fst d1) = gname (fst d2) -> d1 = d2.
Proof.
  induction 1 as [G | G d off [k e] r es Hd Hr IH]; intros d1 d2 H1 H2 Hn; [contradiction|].
  destruct (wf_gdecl_name _ _ _ _ Hd) as [Hk _]. cbn [fst] in Hk.
  assert (Htail : forall d', In d' r -> gname (fst d') <> Some k).
  { intros [g' o'] Hin E. destruct (wf_gdecls_in' _ _ _ Hr _ _ Hin) as [Gi [ke [Hw [_ [_ Hsub]]]]].
    destruct (wf_gdecl_name _ _ _ _ Hw) as [Hk' _]. cbn [fst] in E. rewrite Hk' in E. injection E as E.
    destruct (wf_gdecl_fresh _ _ _ _ Hw) as [Hf _]. rewrite E in Hf.
    destruct (wf_gdecl_fresh _ _ _ _ Hd) as [Hf0 _]. cbn [fst] in Hf0.
    rewrite (Hsub k e) in Hf; [discriminate|]. now rewrite lookup_app, Hf0, text_eqb_refl. }
  destruct H1 as [<-|H1], H2 as [<-|H2]; auto.
  - exfalso. apply (Htail _ H2). cbn [fst] in Hn. now rewrite <- Hn.
  - exfalso. apply (Htail _ H1). cbn [fst] in Hn. now rewrite Hn.
Qed.

(* ... positionally: the names of the declarations do not repeat *)
Lemma wf_gdecls_nodup : forall G0 ds es, wf_gdecls G0 ds es -> NoDup (map (fun d => gname (fst d)) ds).
Proof.
  induction 1 as [G | G d off [k e] r es Hd Hr IH]; [constructor|]. cbn [map fst]. constructor; [|exact IH].
  destruct (wf_gdecl_name _ _ _ _ Hd) as [Hk _]. cbn [fst] in Hk. rewrite Hk. intros Hin.
  apply in_map_iff in Hin as [[g' o'] [E Hin]]. cbn [fst] in E.
  destruct (wf_gdecls_in' _ _ _ Hr _ _ Hin) as [Gi [ke [Hw [_ [_ Hsub]]]]].
  destruct (wf_gdecl_name _ _ _ _ Hw) as [Hk' _]. rewrite Hk' in E. injection E as E.
  destruct (wf_gdecl_fresh _ _ _ _ Hw) as [Hf _]. rewrite E in Hf.
  destruct (wf_gdecl_fresh _ _ _ _ Hd) as [Hf0 _]. cbn [fst] in Hf0.
  rewrite (Hsub k e) in Hf; [discriminate|]. now rewrite lookup_app, Hf0, text_eqb_refl.
Qed.

(* an entry of the table is initial or made from a declaration of its kind *)
Lemma wf_gdecls_conv : forall G0 ds es, wf_gdecls G0 ds es -> forall x v,
  lookup (G0 ++ es) x = Some v ->
  lookup G0 x = Some v \/ exists g off, In (g, off) ds /\ gname g = Some x /\ kind_match g v.
Proof.
  induction 1 as [G | G d off [k e] r es Hd _ IH]; intros x v H.
  - rewrite app_nil_r in H. now left.
  - rewrite (app_assoc G [(k, e)] es : G ++ (k, e) :: es = (G ++ [(k, e)]) ++ es) in H.
    destruct (IH _ _ H) as [H1 | [g [o [Hin [Hn Hk]]]]].
    + rewrite lookup_app in H1. destruct (lookup G x) as [v'|] eqn:E; [left; exact H1|].
      destruct (text_eqb k x) eqn:Ek; [|discriminate]. injection H1 as <-. apply text_eqb_eq in Ek. subst x.
      right. exists d, off. destruct (wf_gdecl_name _ _ _ _ Hd) as [Hn Hk]. split; [now left|]. split; assumption.
    + right. exists g, o. split; [now right|]. split; assumption.
Qed.

Definition type_facts (G : gtable) (td : typedecl) : Prop :=
  exists name te, td_name td = Some name /\ lookup G (id_val name) = Some (GTypeE te) /\ ten_name te = name
    /\ lookup initialized (id_val name) = None
    /\ forall te0 o i, td_ty td = Some (te0, o) -> ident_in_texpr te0 o = Some i -> is_type_in G i.

Definition proc_facts (G : gtable) (pd : procdecl) (off : nat) : Prop :=
  exists name pe, pd_name pd = Some name /\ lookup G (id_val name) = Some (GProcE pe) /\ pe_name pe = name
    /\ lookup initialized (id_val name) = None
    /\ (forall i, In i (types_in_params all (pd_params pd)) \/ In i (types_in_vars all (pd_vars pd)) -> is_type_in G i)
    /\ map fst (pe_local pe) = map id_val (var_names_in_params all (pd_params pd) ++ var_names_in_vars all (pd_vars pd))
    /\ NoDup (map fst (pe_local pe))
    /\ (forall i, In i (vars_in_stmts all (pd_stmts pd)) -> is_local (pe_local pe) (id_val i))
    /\ (forall i, In i (procs_in_stmts all (pd_stmts pd)) -> is_callee (pe_local pe) G (id_val i)).

Definition decl_facts (G : gtable) (d : gdecl * nat) : Prop :=
  match fst d with
  | GType td => type_facts G td
  | GProc pd => proc_facts G pd (snd d)
  | GError _ => False
  end.

Lemma is_type_in_ext (Gi G : gtable) i :
  (forall x v, lookup Gi x = Some v -> lookup G x = Some v) -> is_type_in Gi i -> is_type_in G i.
Proof. intros H [te E]. exists te. auto. Qed.

Theorem well_typed_facts pr G : well_typed pr G -> forall d, In d (pg_decls pr) -> decl_facts G d.
Proof.
  intros [[es [Hwf [HG _]]] Hbodies] [g off] Hin. subst G.
  destruct (wf_gdecls_in' _ _ _ Hwf _ _ Hin) as [Gi [ke [Hw [Hl [Hsub Hsup]]]]].
  destruct (wf_gdecl_fresh _ _ _ _ Hw) as [Hf _].
  assert (Hinit : lookup initialized (fst ke) = None).
  { destruct (lookup initialized (fst ke)) as [v|] eqn:E; [|reflexivity]. rewrite (Hsup _ _ E) in Hf. discriminate. }
  unfold decl_facts. cbn [fst snd].
  inversion Hw as [d0 name te o t Hname _ _ Hty Hden | d0 name L1 pes L2 Hname _ Hpar Hvar]; subst; cbn [fst snd] in *.
  - exists name. eexists. repeat split; try eassumption; try reflexivity.
    intros te0 o0 i E Hi. rewrite Hty in E. injection E as <- <-. apply (is_type_in_ext Gi); [exact Hsub|].
    eapply denotes_ident; eauto.
  - destruct (wf_params_facts _ _ _ _ _ _ Hpar) as [Pk [Pn Pt]]. destruct (wf_vars_facts _ _ _ _ _ Hvar) as [Vk [Vn Vt]].
    unfold wt_bodies in Hbodies. rewrite Forall_forall in Hbodies. destruct (Hbodies _ Hin) as [_ Hwb].
    unfold wt_body in Hwb. cbn [fst snd] in Hwb.
    match type of Hl with lookup _ _ = Some (GProcE ?pe0) => set (pe := pe0) in * end.
    assert (Hoe : own_entry (initialized ++ es) d0 off pe) by (exists name; repeat split; assumption).
    destruct (proj2 (wt_names (pe_local pe) (initialized ++ es)) _ (Hwb pe Hoe)) as [Bv Bp].
    exists name, pe. repeat split; try assumption; try reflexivity.
    + intros i [Hi|Hi]; apply (is_type_in_ext Gi); auto.
    + cbn [pe pe_local]. rewrite Vk, Pk. cbn [map app]. now rewrite map_app.
    + cbn [pe pe_local]. apply Vn, Pn. constructor.
    + now apply Bp.
    + now apply Bp.
Qed.

(* the names of the global declarations determine them *)
Theorem well_typed_unique pr G : well_typed pr G ->
  forall d1 d2, In d1 (pg_decls pr) -> In d2 (pg_decls pr) -> gname (fst d1) = gname (fst d2) -> d1 = d2.
Proof. intros [[es [Hwf _]] _]. eapply wf_gdecls_unique; eauto. Qed.

Theorem well_typed_conv pr G : well_typed pr G -> forall x v, lookup G x = Some v ->
  lookup initialized x = Some v \/ exists g off, In (g, off) (pg_decls pr) /\ gname g = Some x /\ kind_match g v.
Proof. intros [[es [Hwf [-> _]]] _]. eapply wf_gdecls_conv; eauto. Qed.

Theorem well_typed_nodup pr G : well_typed pr G -> NoDup (map (fun d => gname (fst d)) (pg_decls pr)).
Proof. intros [[es [Hwf _]] _]. eapply wf_gdecls_nodup; eauto. Qed.

Lemma well_typed_init pr G : well_typed pr G -> forall x v, lookup initialized x = Some v -> lookup G x = Some v.
Proof. intros [[es [_ [-> _]]] _] x v H. now apply lookup_app_l. Qed.

(* ---------------------------------------------------------------------------------------- *)
(* predefined entries                                                                        *)

Lemma initialized_default n ge : lookup initialized n = Some ge -> is_default (entry_of_g ge) = true.
Proof.
  intros H. apply lookup_In in H. unfold initialized in H.
  repeat (destruct H as [H|H]; [injection H as _ <-; reflexivity|]). contradiction.
Qed.

Lemma default_initialized n : existsb (text_eqb n) default_entries = true -> lookup initialized n <> None.
Proof.
  intros H. apply existsb_exists in H as [x [Hx He]]. apply text_eqb_eq in He. subst x.
  unfold default_entries in Hx. cbn [map] in Hx.
  repeat (destruct Hx as [<-|Hx]; [vm_compute; discriminate|]). contradiction.
Qed.

(* ---------------------------------------------------------------------------------------- *)
(* K: keys                                                                                   *)

Definition key_R (o : occ) (r : role) : bool := rclass_eqb (cls r) (cls (o_role o)).
Definition key_Q (o : occ) : option text -> bool :=
  match cls (o_role o) with CLocal => fun p => opt_text_eqb p (o_proc o) | _ => any_proc end.
(* x has the key of o: the same class of role, the same name and - in the local class - the same procedure *)
Definition samekey (x o : occ) : bool := sel (key_R o) (named (o_name o)) (key_Q o) x.

Lemma rclass_eqb_eq a b : rclass_eqb a b = true <-> a = b.
Proof. destruct a, b; cbn; split; congruence. Qed.

Lemma opt_text_eqb_eq a b : opt_text_eqb a b = true <-> a = b.
Proof.
  destruct a as [a|], b as [b|]; cbn [opt_text_eqb]; try (split; congruence).
  rewrite text_eqb_eq. split; congruence.
Qed.

Lemma samekey_spec x o : samekey x o = true <->
  cls (o_role x) = cls (o_role o) /\ o_name x = o_name o /\ (cls (o_role o) = CLocal -> o_proc x = o_proc o).
Proof.
  unfold samekey, sel, key_R, key_Q, named. rewrite !andb_true_iff, rclass_eqb_eq, text_eqb_eq. unfold o_name.
  destruct (cls (o_role o)); unfold any_proc; rewrite ?opt_text_eqb_eq; intuition congruence.
Qed.

Lemma samekey_refl x : samekey x x = true.
Proof. apply samekey_spec. auto. Qed.

Lemma samekey_right x o : samekey x o = true -> forall y, samekey y x = samekey y o.
Proof.
  intros H y. apply samekey_spec in H as [H1 [H2 H3]]. unfold samekey, sel, key_R, key_Q. rewrite H1, H2.
  destruct (cls (o_role o)); try reflexivity. now rewrite H3.
Qed.

Definition declof (occs : list occ) (x : occ) : option occ :=
  find (fun y => is_decl (o_role y) && samekey y x) occs.
Definition dtok (occs : list occ) (x : occ) : option nat := option_map o_tok (binding occs x).

Lemma same_entity_dtok occs x o :
  same_entity occs x o =
  match dtok occs x, dtok occs o with
  | Some a, Some b => Nat.eqb a b
  | None, None => text_eqb (o_name x) (o_name o)
  | _, _ => false
  end.
Proof. unfold same_entity, dtok. destruct (binding occs x), (binding occs o); reflexivity. Qed.

(* the declaring occurrences of a tree *)
Lemma name_occ_type td D i : td_name td = Some i ->
  exists a, In a (occs_of_decl (GType td, D)) /\ o_id a = shift_ident i D /\ o_role a = RTypeDecl.
Proof. intros H. unfold occs_of_decl. cbn [fst snd]. rewrite H. eexists. split; [left; reflexivity|]. split; reflexivity. Qed.

Lemma name_occ_proc pd D i : pd_name pd = Some i ->
  exists a, In a (occs_of_decl (GProc pd, D)) /\ o_id a = shift_ident i D /\ o_role a = RProcDecl.
Proof. intros H. unfold occs_of_decl. cbn [fst snd]. rewrite H. eexists. split; [left; reflexivity|]. split; reflexivity. Qed.

Lemma param_occ_of_name D p ps i : In i (var_names_in_params all ps) ->
  exists a, In a (param_occs D p ps) /\ o_id a = shift_ident i D /\ o_role a = RParamDecl /\ o_proc a = p.
Proof.
  unfold var_names_in_params, param_occs. intros H. apply in_flat_map in H as [[pd o] [Hx H]]. cbn [fst snd] in H.
  destruct pd as [doc rf [j|] ty inf | inf]; try contradiction. destruct H as [<-|[]].
  eexists. split; [apply in_flat_map; exists (PValid doc rf (Some j) ty inf, o); split; [exact Hx | left; reflexivity]|].
  repeat split.
Qed.

Lemma var_occ_of_name D p vs i : In i (var_names_in_vars all vs) ->
  exists a, In a (var_occs D p vs) /\ o_id a = shift_ident i D /\ o_role a = RVarDecl /\ o_proc a = p.
Proof.
  unfold var_names_in_vars, var_occs. intros H. apply in_flat_map in H as [[vd o] [Hx H]]. cbn [fst snd] in H.
  destruct vd as [doc [j|] ty inf | inf]; try contradiction. destruct H as [<-|[]].
  eexists. split; [apply in_flat_map; exists (VValid doc (Some j) ty inf, o); split; [exact Hx | left; reflexivity]|].
  repeat split.
Qed.

Lemma local_occ_of_name pd D i :
  In i (var_names_in_params all (pd_params pd) ++ var_names_in_vars all (pd_vars pd)) ->
  exists a, In a (occs_of_decl (GProc pd, D)) /\ o_id a = shift_ident i D /\ is_decl (o_role a) = true
            /\ cls (o_role a) = CLocal /\ o_proc a = option_map id_val (pd_name pd).
Proof.
  intros H. unfold occs_of_decl. cbn [fst snd]. apply in_app_or in H as [H|H].
  - destruct (param_occ_of_name D (option_map id_val (pd_name pd)) _ _ H) as [a [Ha [Hi [Hr Hp]]]]. exists a.
    split; [apply in_or_app; right; apply in_or_app; left; exact Ha|]. rewrite Hr. repeat split; assumption.
  - destruct (var_occ_of_name D (option_map id_val (pd_name pd)) _ _ H) as [a [Ha [Hi [Hr Hp]]]]. exists a.
    split; [do 3 (apply in_or_app; right); apply in_or_app; left; exact Ha|]. rewrite Hr. repeat split; assumption.
Qed.

Section Keys.
Variables (pr : program) (G : gtable).
Hypothesis Hwt : well_typed pr G.
Notation occs := (occurrences pr).

Lemma occ_decl x : In x occs -> exists g D, In (g, D) (pg_decls pr) /\ In x (occs_of_decl (g, D)).
Proof. unfold occurrences. intros H. apply in_flat_map in H as [[g D] [H1 H2]]. eauto. Qed.

Lemma in_occs g D x : In (g, D) (pg_decls pr) -> In x (occs_of_decl (g, D)) -> In x occs.
Proof. intros H1 H2. unfold occurrences. apply in_flat_map. eauto. Qed.

Lemma o_name_shift x i D : o_id x = shift_ident i D -> o_name x = id_val i.
Proof. unfold o_name. now intros ->. Qed.

Lemma local_key pd pe i :
  map fst (pe_local pe) = map id_val (var_names_in_params all (pd_params pd) ++ var_names_in_vars all (pd_vars pd)) ->
  In i (var_names_in_params all (pd_params pd)) \/ In i (var_names_in_vars all (pd_vars pd)) ->
  lookup (pe_local pe) (id_val i) <> None.
Proof. intros Hk Hi. apply lookup_some_keys. rewrite Hk. apply in_map, in_or_app. exact Hi. Qed.

(* what the tables say about the name of an occurrence *)
Theorem occ_table x : In x occs ->
  match cls (o_role x) with
  | CType => exists te, lookup G (o_name x) = Some (GTypeE te)
  | CProc => exists pe, lookup G (o_name x) = Some (GProcE pe)
  | CLocal => exists pn pe, o_proc x = Some pn /\ lookup G pn = Some (GProcE pe) /\ lookup (pe_local pe) (o_name x) <> None
  end
  /\ (o_role x = RCall ->
      exists pn pe, o_proc x = Some pn /\ lookup G pn = Some (GProcE pe) /\ lookup (pe_local pe) (o_name x) = None)
  /\ (is_decl (o_role x) = true -> cls (o_role x) <> CLocal -> lookup initialized (o_name x) = None).
Proof.
  intros Hx. destruct (occ_decl x Hx) as [g [D [Hg Ho]]]. pose proof (well_typed_facts pr G Hwt _ Hg) as Hf.
  unfold decl_facts in Hf. cbn [fst snd] in Hf. destruct g as [td|pd|inf]; [| |contradiction].
  - destruct Hf as [name [te [Hn [Hl [Hten [Hinit Huse]]]]]].
    apply link_decl_type in Ho as [Hp [i Hr Hi Hid | i te0 toff Hr Ht Hi Hid _]]; rewrite Hr, (o_name_shift _ _ _ Hid); cbn [cls is_decl].
    + rewrite Hn in Hi. injection Hi as <-. split; [eauto|]. split; [discriminate | auto].
    + split; [exact (Huse _ _ _ Ht Hi)|]. split; discriminate.
  - destruct Hf as [name [pe [Hn [Hl [Hpn [Hinit [Hty [Hk [Hnd [Hv Hc]]]]]]]]]].
    apply link_decl_proc in Ho as [Hp [i Hr Hi Hid | i Hr Hi Hid _ | i Hr Hi Hid _ | i Hr Hi Hid _ | i Hr Hi Hid _ | i Hr Hi Hid _ | i Hr Hi Hid _]];
      rewrite Hr, (o_name_shift _ _ _ Hid); cbn [cls is_decl]; rewrite Hn in Hp; cbn [option_map] in Hp.
    + rewrite Hn in Hi. injection Hi as <-. split; [eauto|]. split; [discriminate | auto].
    + split; [|split; [discriminate | intros _ H; now contradiction H]].
      exists (id_val name), pe. repeat split; try assumption. eapply local_key; eauto.
    + split; [apply Hty; now left|]. split; discriminate.
    + split; [|split; [discriminate | intros _ H; now contradiction H]].
      exists (id_val name), pe. repeat split; try assumption. eapply local_key; eauto.
    + split; [apply Hty; now right|]. split; discriminate.
    + destruct (Hc _ Hi) as [Hnone [pe' Hl']]. split; [eauto|]. split; [|discriminate].
      intros _. exists (id_val name), pe. repeat split; assumption.
    + split; [|split; discriminate]. exists (id_val name), pe. repeat split; try assumption. exact (Hv _ Hi).
Qed.

(* declaring occurrences with the same key carry the same identifier node *)
Theorem decl_unique a b :
  In a occs -> In b occs -> is_decl (o_role a) = true -> is_decl (o_role b) = true -> samekey a b = true -> o_id a = o_id b.
Proof.
  intros Ha Hb Hda Hdb Hk. apply samekey_spec in Hk as [Hc [Hnm Hp]].
  destruct (occ_decl a Ha) as [ga [Da [Hga Hoa]]]. destruct (occ_decl b Hb) as [gb [Db [Hgb Hob]]].
  pose proof (well_typed_facts pr G Hwt _ Hga) as Hfa. pose proof (well_typed_facts pr G Hwt _ Hgb) as Hfb.
  unfold decl_facts in Hfa, Hfb. cbn [fst snd] in Hfa, Hfb.
  assert (Hsame : gname ga = gname gb -> ga = gb /\ Da = Db).
  { intros E. pose proof (well_typed_unique pr G Hwt _ _ Hga Hgb E) as Heq. injection Heq as -> ->. auto. }
  destruct ga as [tda|pda|inf]; [| |contradiction]; destruct gb as [tdb|pdb|inf]; try contradiction.
  - (* two type declarations *)
    apply link_decl_type in Hoa as [_ [ia Hra Hia Hida | ia ? ? Hra _ _ _ _]]; [|rewrite Hra in Hda; discriminate].
    apply link_decl_type in Hob as [_ [ib Hrb Hib Hidb | ib ? ? Hrb _ _ _ _]]; [|rewrite Hrb in Hdb; discriminate].
    rewrite (o_name_shift _ _ _ Hida), (o_name_shift _ _ _ Hidb) in Hnm.
    destruct Hsame as [E1 E2]; [unfold gname; cbn [gdecl_name]; rewrite Hia, Hib; cbn [option_map]; now rewrite Hnm|].
    injection E1 as ->. subst Db. rewrite Hia in Hib. injection Hib as <-. now rewrite Hida, Hidb.
  - (* a type and a procedure declaration: different classes *)
    apply link_decl_type in Hoa as [_ [ia Hra Hia Hida | ia ? ? Hra _ _ _ _]]; [|rewrite Hra in Hda; discriminate].
    apply link_decl_proc in Hob as [_ [i Hr _ _ | i Hr _ _ _ | i Hr _ _ _ | i Hr _ _ _ | i Hr _ _ _ | i Hr _ _ _ | i Hr _ _ _]];
      rewrite Hra, Hr in *; try discriminate.
  - apply link_decl_type in Hob as [_ [ib Hrb Hib Hidb | ib ? ? Hrb _ _ _ _]]; [|rewrite Hrb in Hdb; discriminate].
    apply link_decl_proc in Hoa as [_ [i Hr _ _ | i Hr _ _ _ | i Hr _ _ _ | i Hr _ _ _ | i Hr _ _ _ | i Hr _ _ _ | i Hr _ _ _]];
      rewrite Hrb, Hr in *; try discriminate.
  - (* two procedure declarations *)
    destruct Hfa as [na [pea [Hna [_ [_ [_ [_ [Hka [Hnda _]]]]]]]]]. destruct Hfb as [nb [peb [Hnb _]]].
    apply link_decl_proc in Hoa as [Hpa Hoa]. apply link_decl_proc in Hob as [Hpb Hob].
    assert (Hloc : forall ia ib, In ia (var_names_in_params all (pd_params pda) ++ var_names_in_vars all (pd_vars pda)) ->
                     In ib (var_names_in_params all (pd_params pdb) ++ var_names_in_vars all (pd_vars pdb)) ->
                     o_id a = shift_ident ia Da -> o_id b = shift_ident ib Db -> cls (o_role b) = CLocal -> o_id a = o_id b).
    { intros ia ib Hia Hib Hida Hidb Hcl. specialize (Hp Hcl). rewrite Hpa, Hpb in Hp.
      destruct Hsame as [E1 E2]; [exact Hp|]. injection E1 as ->. subst Db.
      rewrite (o_name_shift _ _ _ Hida), (o_name_shift _ _ _ Hidb) in Hnm. rewrite Hka, map_map in Hnda || rewrite Hka in Hnda.
      rewrite (NoDup_map_inj id_val _ ia ib Hnda Hia Hib Hnm) in Hida. now rewrite Hida, Hidb. }
    destruct Hoa as [ia Hra Hia Hida | ia Hra Hia Hida _ | ia Hra _ _ _ | ia Hra Hia Hida _ | ia Hra _ _ _ | ia Hra _ _ _ | ia Hra _ _ _];
      rewrite Hra in Hda, Hc; try discriminate Hda;
      destruct Hob as [ib Hrb Hib Hidb | ib Hrb Hib Hidb _ | ib Hrb _ _ _ | ib Hrb Hib Hidb _ | ib Hrb _ _ _ | ib Hrb _ _ _ | ib Hrb _ _ _];
      rewrite Hrb in Hdb, Hc; try discriminate Hdb; try discriminate Hc.
    + rewrite (o_name_shift _ _ _ Hida), (o_name_shift _ _ _ Hidb) in Hnm.
      destruct Hsame as [E1 E2]; [unfold gname; cbn [gdecl_name]; rewrite Hia, Hib; cbn [option_map]; now rewrite Hnm|].
      injection E1 as ->. subst Db. rewrite Hia in Hib. injection Hib as <-. now rewrite Hida, Hidb.
    + apply (Hloc ia ib); auto; [apply in_or_app; now left | apply in_or_app; now left | now rewrite Hrb].
    + apply (Hloc ia ib); auto; [apply in_or_app; now left | apply in_or_app; now right | now rewrite Hrb].
    + apply (Hloc ia ib); auto; [apply in_or_app; now right | apply in_or_app; now left | now rewrite Hrb].
    + apply (Hloc ia ib); auto; [apply in_or_app; now right | apply in_or_app; now right | now rewrite Hrb].
Qed.


(* ---- the key relation is an equivalence ---- *)
Lemma samekey_sym x o : samekey x o = true -> samekey o x = true.
Proof.
  intros H. apply samekey_spec in H as [H1 [H2 H3]]. apply samekey_spec. repeat split; auto.
  intros Hc. symmetry. apply H3. congruence.
Qed.

Lemma samekey_trans x y z : samekey x y = true -> samekey y z = true -> samekey x z = true.
Proof. intros H1 H2. now rewrite <- (samekey_right _ _ H2 x). Qed.

(* ---- declaring occurrences exist ---- *)
Lemma local_roles b : existsb (role_eqb (o_role b)) [RParamDecl; RVarDecl] = true <-> is_decl (o_role b) = true /\ cls (o_role b) = CLocal.
Proof. destruct (o_role b); cbn; intuition discriminate. Qed.

(* a parameter, variable or variable use has a declaring occurrence with its key *)
Lemma local_has_decl x : In x occs -> cls (o_role x) = CLocal ->
  exists b, In b occs /\ is_decl (o_role b) = true /\ samekey b x = true.
Proof.
  intros Hx Hc. destruct (occ_decl x Hx) as [g [D [Hg Ho]]]. pose proof (well_typed_facts pr G Hwt _ Hg) as Hf.
  unfold decl_facts in Hf. cbn [fst snd] in Hf. destruct g as [td|pd|inf]; [| |contradiction].
  - apply link_decl_type in Ho as [_ [i Hr _ _ | i te0 toff Hr _ _ _ _]]; rewrite Hr in Hc; discriminate.
  - destruct Hf as [name [pe [Hn [Hl [Hpn [Hinit [Hty [Hk [Hnd [Hv Hcl]]]]]]]]]].
    assert (Hself : is_decl (o_role x) = true -> exists b, In b occs /\ is_decl (o_role b) = true /\ samekey b x = true).
    { intros Hd. exists x. split; [exact Hx|]. split; [exact Hd | apply samekey_refl]. }
    apply link_decl_proc in Ho as [Hp [i Hr Hi Hid | i Hr Hi Hid _ | i Hr Hi Hid _ | i Hr Hi Hid _ | i Hr Hi Hid _ | i Hr Hi Hid _ | i Hr Hi Hid _]];
      rewrite Hr in Hc; try discriminate Hc.
    + apply Hself. now rewrite Hr.
    + apply Hself. now rewrite Hr.
    + specialize (Hv _ Hi). unfold is_local in Hv. apply lookup_some_keys in Hv. rewrite Hk in Hv.
      apply in_map_iff in Hv as [j [Hj Hjin]]. destruct (local_occ_of_name pd D j Hjin) as [a [Ha [Hida [Hda [Hca Hpa]]]]].
      exists a. split; [exact (in_occs _ _ _ Hg Ha)|]. split; [exact Hda|]. apply samekey_spec.
      rewrite Hca, Hr. cbn [cls]. split; [reflexivity|].
      split; [rewrite (o_name_shift _ _ _ Hida), (o_name_shift _ _ _ Hid); exact Hj|]. intros _. now rewrite Hpa, Hp.
Qed.

(* a global name that is not predefined has a declaring occurrence of its kind *)
Lemma global_decl_occ x v : lookup G x = Some v -> lookup initialized x = None ->
  exists a, In a occs /\ o_name a = x /\ o_role a = match v with GTypeE _ => RTypeDecl | GProcE _ => RProcDecl end.
Proof.
  intros Hl Hi. destruct (well_typed_conv pr G Hwt _ _ Hl) as [H|[g [off [Hin [Hn Hk]]]]]; [congruence|].
  destruct g as [td|pd|inf], v as [te|pe]; try contradiction; unfold gname in Hn; cbn [gdecl_name] in Hn.
  - destruct (td_name td) as [i|] eqn:E; [|discriminate]. injection Hn as Hn. destruct (name_occ_type td off i E) as [a [Ha [Hid Hr]]].
    exists a. split; [exact (in_occs _ _ _ Hin Ha)|]. split; [now rewrite (o_name_shift _ _ _ Hid) | exact Hr].
  - destruct (pd_name pd) as [i|] eqn:E; [|discriminate]. injection Hn as Hn. destruct (name_occ_proc pd off i E) as [a [Ha [Hid Hr]]].
    exists a. split; [exact (in_occs _ _ _ Hin Ha)|]. split; [now rewrite (o_name_shift _ _ _ Hid) | exact Hr].
Qed.

Lemma find_declaring_some roles name proc b : find_declaring occs roles name proc = Some b ->
  In b occs /\ existsb (role_eqb (o_role b)) roles = true /\ o_name b = name
  /\ match proc with Some p => o_proc b = p | None => True end.
Proof.
  unfold find_declaring. intros H. apply find_some in H as [Hin H]. apply andb_true_iff in H as [H H3]. apply andb_true_iff in H as [H1 H2].
  apply text_eqb_eq in H2. repeat split; auto. destruct proc; [now apply opt_text_eqb_eq | exact I].
Qed.

Lemma find_declaring_not_none roles name proc a : In a occs -> existsb (role_eqb (o_role a)) roles = true -> o_name a = name ->
  match proc with Some p => o_proc a = p | None => True end -> find_declaring occs roles name proc <> None.
Proof.
  intros Hin H1 H2 H3. unfold find_declaring. apply (find_not_none _ _ a Hin). rewrite H1, H2, text_eqb_refl. cbn [andb].
  destruct proc; [apply opt_text_eqb_eq; exact H3 | reflexivity].
Qed.

(* the tree-only binding of Spec/Nav.v on a well-typed tree *)
Theorem binding_spec o : In o occs ->
  match binding occs o with
  | Some b => In b occs /\ is_decl (o_role b) = true /\ samekey b o = true
  | None => cls (o_role o) <> CLocal /\ lookup initialized (o_name o) <> None
  end.
Proof.
  intros Ho. destruct (occ_table o Ho) as [Ht [Hcall _]].
  assert (Hglob : forall r v, lookup G (o_name o) = Some v -> cls (o_role o) <> CLocal ->
            r = match v with GTypeE _ => RTypeDecl | GProcE _ => RProcDecl end -> cls r = cls (o_role o) ->
            match find_declaring occs [r] (o_name o) None with
            | Some b => In b occs /\ is_decl (o_role b) = true /\ samekey b o = true
            | None => cls (o_role o) <> CLocal /\ lookup initialized (o_name o) <> None
            end).
  { intros r v Hl Hnl Hr Hcr. destruct (find_declaring occs [r] (o_name o) None) as [b|] eqn:E.
    - apply find_declaring_some in E as [Hb [Hrb [Hn _]]]. split; [exact Hb|].
      cbn [existsb] in Hrb. rewrite orb_false_r in Hrb.
      assert (Hbr : o_role b = r) by (destruct (o_role b), r; try discriminate Hrb; reflexivity).
      split; [rewrite Hbr, Hr; now destruct v|]. apply samekey_spec. rewrite Hbr. repeat split; auto. intros Hc. contradiction.
    - split; [exact Hnl|]. intros Hi. destruct (lookup initialized (o_name o)) eqn:Ei; [discriminate|].
      destruct (global_decl_occ _ _ Hl Ei) as [a [Ha [Hn Hra]]].
      apply (find_declaring_not_none [r] (o_name o) None a Ha) in E; auto.
      rewrite Hra, <- Hr. cbn [existsb]. now destruct r. }
  unfold binding.
  destruct (o_role o) eqn:Er; cbn [cls] in Ht;
    try (split; [exact Ho|]; split; [now rewrite Er | apply samekey_refl]).
  - (* a type identifier *)
    destruct Ht as [te Hl]. apply (Hglob RTypeDecl _ Hl); [discriminate | reflexivity | reflexivity].
  - (* a variable *)
    destruct (local_has_decl o Ho) as [b0 [Hb0 [Hd0 Hk0]]]; [now rewrite Er|].
    apply samekey_spec in Hk0 as [Hc0 [Hn0 Hp0]]. rewrite Er in Hc0, Hp0. cbn [cls] in Hc0, Hp0.
    destruct (find_declaring occs [RParamDecl; RVarDecl] (o_name o) (Some (o_proc o))) as [b|] eqn:E.
    + apply find_declaring_some in E as [Hb [Hrb [Hn Hp]]]. apply local_roles in Hrb as [Hdb Hcb].
      split; [exact Hb|]. split; [exact Hdb|]. apply samekey_spec. rewrite Er. cbn [cls]. auto.
    + exfalso. apply (find_declaring_not_none [RParamDecl; RVarDecl] (o_name o) (Some (o_proc o)) b0 Hb0) in E; auto.
      apply local_roles. auto.
  - (* a called name *)
    destruct (Hcall eq_refl) as [pn [pe [Hpn [Hlp Hnone]]]]. destruct Ht as [pe' Hl].
    destruct (find_declaring occs [RParamDecl; RVarDecl] (o_name o) (Some (o_proc o))) as [b|] eqn:E.
    + exfalso. apply find_declaring_some in E as [Hb [Hrb [Hn Hp]]]. apply local_roles in Hrb as [Hdb Hcb].
      destruct (occ_table b Hb) as [Tb _]. rewrite Hcb in Tb. destruct Tb as [pn' [pe2 [Hpb [Hlb Hsome]]]].
      rewrite Hp, Hpn in Hpb. injection Hpb as <-. rewrite Hlp in Hlb. injection Hlb as <-. rewrite Hn in Hsome. contradiction.
    + apply (Hglob RProcDecl _ Hl); [discriminate | reflexivity | reflexivity].
Qed.

Lemma decl_not_predefined b : In b occs -> is_decl (o_role b) = true -> cls (o_role b) <> CLocal -> lookup initialized (o_name b) = None.
Proof. intros Hb. exact (proj2 (proj2 (occ_table b Hb))). Qed.

Lemma class_of_name x o : In x occs -> In o occs -> cls (o_role x) <> CLocal -> cls (o_role o) <> CLocal ->
  o_name x = o_name o -> cls (o_role x) = cls (o_role o).
Proof.
  intros Hx Ho Hcx Hco Hn. destruct (occ_table x Hx) as [Tx _]. destruct (occ_table o Ho) as [To _]. rewrite Hn in Tx.
  destruct (cls (o_role x)), (cls (o_role o)); try reflexivity; try congruence; destruct Tx as [? Tx], To as [? To]; congruence.
Qed.

(* an occurrence has no declaration iff its name is predefined *)
Theorem binding_predefined o : In o occs -> cls (o_role o) <> CLocal ->
  match binding occs o with Some _ => false | None => true end
  = match lookup initialized (o_name o) with Some _ => true | None => false end.
Proof.
  intros Ho Hc. pose proof (binding_spec o Ho) as Hb. destruct (binding occs o) as [b|].
  - destruct Hb as [Hb [Hd Hk]]. apply samekey_spec in Hk as [Hcb [Hn _]].
    rewrite <- Hn, (decl_not_predefined b Hb Hd); [reflexivity | now rewrite Hcb].
  - destruct Hb as [_ Hi]. destruct (lookup initialized (o_name o)); [reflexivity | contradiction].
Qed.

Theorem binding_local o : In o occs -> cls (o_role o) = CLocal -> binding occs o <> None.
Proof. intros Ho Hc E. pose proof (binding_spec o Ho) as Hb. rewrite E in Hb. destruct Hb as [Hb _]. contradiction. Qed.

(* the entry of a global name is predefined iff the name is *)
Theorem entry_default x ge : lookup G x = Some ge ->
  is_default (entry_of_g ge) = match lookup initialized x with Some _ => true | None => false end.
Proof.
  intros Hl. destruct (lookup initialized x) as [v|] eqn:Ei.
  - rewrite (well_typed_init pr G Hwt _ _ Ei) in Hl. injection Hl as <-. eapply initialized_default; eauto.
  - destruct (well_typed_conv pr G Hwt _ _ Hl) as [H|[g [off [Hin [Hn Hk]]]]]; [congruence|].
    pose proof (well_typed_facts pr G Hwt _ Hin) as Hf. unfold decl_facts in Hf. cbn [fst snd] in Hf.
    unfold gname in Hn. destruct g as [td|pd|inf]; [| |contradiction]; cbn [gdecl_name] in Hn.
    + destruct Hf as [name [te [Hnm [Hlk [Hten _]]]]]. rewrite Hnm in Hn. injection Hn as <-. rewrite Hlk in Hl. injection Hl as <-.
      cbn [entry_of_g is_default]. rewrite Hten. destruct (existsb (text_eqb (id_val name)) default_entries) eqn:E; [|reflexivity].
      apply default_initialized in E. contradiction.
    + destruct Hf as [name [pe [Hnm [Hlk [Hpn _]]]]]. rewrite Hnm in Hn. injection Hn as <-. rewrite Hlk in Hl. injection Hl as <-.
      cbn [entry_of_g is_default]. rewrite Hpn. destruct (existsb (text_eqb (id_val name)) default_entries) eqn:E; [|reflexivity].
      apply default_initialized in E. contradiction.
Qed.

(* ---- K: bound to the same entity = the same key ---- *)
Hypothesis decl_tok_inj : forall a b, In a occs -> In b occs -> is_decl (o_role a) = true -> is_decl (o_role b) = true ->
  o_tok a = o_tok b -> samekey a b = true.

Theorem same_entity_key x o : In x occs -> In o occs -> same_entity occs x o = samekey x o.
Proof.
  intros Hx Ho. unfold same_entity. pose proof (binding_spec x Hx) as Bx. pose proof (binding_spec o Ho) as Bo.
  destruct (binding occs x) as [bx|], (binding occs o) as [bo|].
  - destruct Bx as [Hbx [Hdx Hkx]]. destruct Bo as [Hbo [Hdo Hko]]. destruct (samekey x o) eqn:E.
    + apply Nat.eqb_eq.
      assert (Hk : samekey bx bo = true).
      { eapply samekey_trans; [exact Hkx|]. eapply samekey_trans; [exact E | now apply samekey_sym]. }
      unfold o_tok. now rewrite (decl_unique bx bo Hbx Hbo Hdx Hdo Hk).
    + apply Nat.eqb_neq. intros Ht. pose proof (decl_tok_inj bx bo Hbx Hbo Hdx Hdo Ht) as Hk.
      assert (Hxo : samekey x o = true); [|congruence].
      eapply samekey_trans; [apply samekey_sym; exact Hkx|]. eapply samekey_trans; [exact Hk | exact Hko].
  - destruct Bx as [Hbx [Hdx Hkx]]. destruct Bo as [Hco Hio]. symmetry. destruct (samekey x o) eqn:E; [|reflexivity]. exfalso.
    assert (Hk : samekey bx o = true) by (eapply samekey_trans; eauto). apply samekey_spec in Hk as [Hc [Hn _]].
    apply Hio. rewrite <- Hn. apply decl_not_predefined; auto. now rewrite Hc.
  - destruct Bo as [Hbo [Hdo Hko]]. destruct Bx as [Hcx Hix]. symmetry. destruct (samekey x o) eqn:E; [|reflexivity]. exfalso.
    assert (Hk : samekey bo x = true) by (eapply samekey_trans; [exact Hko | now apply samekey_sym]).
    apply samekey_spec in Hk as [Hc [Hn _]]. apply Hix. rewrite <- Hn. apply decl_not_predefined; auto. now rewrite Hc.
  - destruct Bx as [Hcx Hix], Bo as [Hco Hio]. destruct (text_eqb (o_name x) (o_name o)) eqn:E.
    + apply text_eqb_eq in E. symmetry. apply samekey_spec. split; [apply class_of_name; auto|]. split; [exact E|]. intros; contradiction.
    + symmetry. destruct (samekey x o) eqn:E'; [|reflexivity]. apply samekey_spec in E' as [_ [Hn _]].
      rewrite Hn, text_eqb_refl in E. discriminate.
Qed.

End Keys.
