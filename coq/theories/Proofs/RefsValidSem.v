(* C13 on valid programs, part 2 - what the static semantics (Spec/Typing.v [well_typed]) says about the
   occurrences of Spec/Nav.v, for EVERY tree pr and table G with [well_typed pr G]:

     T  [type_facts], [proc_facts]: a declared name is in the table with an entry of its kind and is not
        predefined; a name inside a type expression is a global TYPE entry; the keys of a procedure's
        local table are exactly the names of its parameter / variable declarations, without
        repetition; a variable of a statement is a key of the local table; a callee is NOT a key of
        the local table and is a global PROCEDURE entry; global names are declared once.
     K  the tree-only binding of Spec/Nav.v ([binding], [same_entity]) on such a tree: two occurrences
        are bound to the same entity iff they have the same KEY = (class of the role, name, and - for
        the local class - enclosing procedure) ([same_entity_key]), provided distinct declaring
        occurrences have distinct tokens ([decl_tok_inj], established for the trees of the grammar in
        Proofs/RefsValid.v); an occurrence has no declaration iff its name is predefined. *)
From Coq Require Import PeanoNat Lia Bool List.
From Spl Require Import Spec.Typing Proofs.SemProofs Proofs.TypingProofs Proofs.HoverProofs Proofs.HoverValid.
From Spl Require Import Proofs.GotoProofs Proofs.RefsProofs Spec.Nav Proofs.RefsValidWalks.
Import ListNotations.
Local Open Scope nat_scope.

(* ---------------------------------------------------------------------------------------- *)
(* association lists *)

Lemma lookup_none_keys {V} (t : list (text * V)) k : lookup t k = None <-> ~ In k (map fst t).
Proof.
  induction t as [|[k0 v0] t IH]; cbn [lookup map fst In]; [tauto|].
  destruct (text_eqb k0 k) eqn:E.
  - apply text_eqb_eq in E. subst. split; [discriminate | intros H; exfalso; apply H; now left].
  - rewrite IH. split; [intros H [H1|H1]; [subst; rewrite text_eqb_refl in E; discriminate | auto] | tauto].
Qed.

Lemma lookup_some_keys {V} (t : list (text * V)) k : lookup t k <> None <-> In k (map fst t).
Proof.
  split.
  - intros H. destruct (in_dec (list_eq_dec N.eq_dec) k (map fst t)) as [Hi|Hn]; [exact Hi|].
    apply lookup_none_keys in Hn. contradiction.
  - intros Hi Hn. apply lookup_none_keys in Hn. contradiction.
Qed.

Lemma lookup_app_some {V} (t t' : list (text * V)) k v :
  lookup (t ++ t') k = Some v -> lookup t k = Some v \/ (lookup t k = None /\ lookup t' k = Some v).
Proof.
  destruct (lookup t k) as [x|] eqn:E.
  - rewrite (lookup_app_l _ _ _ _ E). intros [= <-]. now left.
  - rewrite (lookup_app_none _ _ _ E). intros H. right. now split.
Qed.

Lemma NoDup_map_inj {A B} (f : A -> B) l a b : NoDup (map f l) -> In a l -> In b l -> f a = f b -> a = b.
Proof.
  induction l as [|x l IH]; intros Hn Ha Hb Hf; [contradiction|]. cbn [map] in Hn. inversion Hn as [|? ? Hx Hl]; subst.
  destruct Ha as [->|Ha], Hb as [->|Hb]; auto.
  - exfalso. apply Hx. rewrite Hf. now apply in_map.
  - exfalso. apply Hx. rewrite <- Hf. now apply in_map.
Qed.

Lemma find_ext_in {A} (f g : A -> bool) l : (forall x, In x l -> f x = g x) -> find f l = find g l.
Proof.
  induction l as [|x l IH]; intros H; [reflexivity|]. cbn [find]. rewrite (H x (or_introl eq_refl)).
  destruct (g x); [reflexivity|]. apply IH. intros y Hy. apply H. now right.
Qed.

Lemma find_not_none {A} (f : A -> bool) l x : In x l -> f x = true -> find f l <> None.
Proof. intros Hi Hf Hn. pose proof (find_none _ _ Hn x Hi). congruence. Qed.

(* ---------------------------------------------------------------------------------------- *)
(* T: type expressions, parameters, variables                                                *)

Definition is_type_in (G : gtable) (i : ident) : Prop := exists te, lookup G (id_val i) = Some (GTypeE te).

Lemma binds_type_global L G x te : binds L G x (EntType te) -> lookup G x = Some (GTypeE te).
Proof. intros H. inversion H as [le Hl He | ge Hl Hg He]; [destruct le; discriminate He|]. destruct ge; [injection He as ->; exact Hg | discriminate]. Qed.

Lemma id_val_shift i off : id_val (shift_ident i off) = id_val i.
Proof. reflexivity. Qed.

Lemma denotes_ident L G c te t : denotes L G c te t -> forall toff i, ident_in_texpr te toff = Some i -> is_type_in G i.
Proof.
  induction 1 as [i0 te t Hb _ | il b o inf bt _ IH]; intros toff i H.
  - cbn [ident_in_texpr] in H. injection H as <-. exists te. rewrite id_val_shift. eapply binds_type_global; eauto.
  - cbn [ident_in_texpr] in H. destruct (ident_in_texpr b o) as [j|] eqn:E; [|discriminate]. injection H as <-.
    destruct (IH _ _ E) as [te Hl]. exists te. now rewrite id_val_shift.
Qed.

Lemma is_type_in_shift G i off : is_type_in G i -> is_type_in G (shift_ident i off).
Proof. intros [te H]. exists te. exact H. Qed.

Lemma keys_snoc {V} (L : list (text * V)) k v : map fst (L ++ [(k, v)]) = map fst L ++ [k].
Proof. now rewrite map_app. Qed.

Lemma wf_params_facts Gi pn L ps L' es : wf_params Gi pn L ps L' es ->
  map fst L' = map fst L ++ map id_val (var_names_in_params all ps)
  /\ (NoDup (map fst L) -> NoDup (map fst L'))
  /\ forall i, In i (types_in_params all ps) -> is_type_in Gi i.
Proof.
  induction 1 as [L | L doc is_ref name te o inf off t r L' es Hd _ Hfresh _ [IHk [IHn IHt]]].
  - split; [now rewrite app_nil_r|]. split; [auto | intros i []].
  - split; [|split].
    + rewrite IHk, keys_snoc. unfold var_names_in_params. cbn [flat_map fst snd all app map]. rewrite id_val_shift, <- app_assoc. reflexivity.
    + intros Hn. apply IHn. rewrite keys_snoc. apply NoDup_app_snoc; [exact Hn|]. now apply lookup_none_keys.
    + intros i Hi. unfold types_in_params in Hi. cbn [flat_map fst snd] in Hi. apply in_app_or in Hi as [Hi|Hi]; [|now apply IHt].
      apply filter_In in Hi as [Hi _]. destruct (ident_in_texpr te o) as [j|] eqn:E; [|contradiction].
      destruct Hi as [<-|[]]. apply is_type_in_shift. eapply denotes_ident; eauto.
Qed.
