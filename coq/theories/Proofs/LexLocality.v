(* Locality of [lex_raw]: the result depends only on the lexeme and (for kinds with look-ahead 1)
   on the first character after it. *)
From Spl Require Import Model.Lexer Proofs.LexerProofs.

Definition agree1 (r r' : text) : Prop := hd_error r = hd_error r'.

Lemma agree1_refl r : agree1 r r.
Proof. reflexivity. Qed.

Lemma agree1_sym r r' : agree1 r r' -> agree1 r' r.
Proof. unfold agree1. congruence. Qed.

Lemma agree1_nil_l r' : agree1 [] r' -> r' = [].
Proof. destruct r'; [reflexivity | discriminate]. Qed.

Lemma agree1_cons_l c r r' : agree1 (c :: r) r' -> exists r2, r' = c :: r2.
Proof. destruct r' as [|c' r2]; [discriminate|]. intros [= ->]. now exists r2. Qed.

Lemma starts_agree p lx r r' :
  lx <> [] -> (length p <= S (length lx))%nat -> agree1 r r' ->
  starts p (lx ++ r) = starts p (lx ++ r').
Proof.
  revert p; induction lx as [|c lx IH]; [congruence|]. intros p _ Hlen Hag.
  destruct p as [|a p]; [reflexivity|]. cbn [app starts]. f_equal.
  destruct lx as [|c2 lx].
  - cbn [app]. destruct p as [|b p]; [reflexivity|].
    destruct p; [|cbn [length] in Hlen; lia].
    destruct r as [|x r], r' as [|y r']; try discriminate; [reflexivity|].
    inversion Hag; subst. reflexivity.
  - apply IH; [discriminate | cbn [length] in *; lia | exact Hag].
Qed.

Definition stops (f : char -> bool) (r : text) : Prop :=
  match r with [] => True | c :: _ => f c = false end.

Lemma span_app_stop f x r : forallb f x = true -> stops f r -> span f (x ++ r) = (x, r).
Proof.
  induction x as [|c x IH]; cbn [forallb app]; intros Hx Hr.
  - destruct r as [|c r]; [reflexivity|]. cbn [span]. cbn [stops] in Hr. now rewrite Hr.
  - apply andb_true_iff in Hx as [Hc Hx]. cbn [span]. rewrite Hc, (IH Hx Hr). reflexivity.
Qed.

Lemma stops_agree f r r' : agree1 r r' -> stops f r -> stops f r'.
Proof.
  destruct r as [|x r], r' as [|y r']; try discriminate; auto.
  intros [= ->]. auto.
Qed.

Lemma span_snd_stops f s : stops f (snd (span f s)).
Proof.
  destruct (snd (span f s)) as [|c r] eqn:E; [exact I|]. cbn [stops]. eapply span_stop; eauto.
Qed.

(* ---- comment ---- *)

Lemma lex_comment_unfold x :
  lex_comment (47 :: 47 :: x) =
  match snd (span not_nl x) with
  | [] => Some (Comment (fst (span not_nl x)), [], [47; 47] ++ fst (span not_nl x), [])
  | nl :: rest => Some (Comment (fst (span not_nl x)), [], [47; 47] ++ fst (span not_nl x) ++ [nl], rest)
  end.
Proof. reflexivity. Qed.

Lemma lex_comment_local s k e lx r r' :
  lex_comment s = Some (k, e, lx, r) -> agree1 r r' -> lex_comment (lx ++ r') = Some (k, e, lx, r').
Proof.
  unfold lex_comment at 1. destruct (starts [47; 47] s) eqn:E; [|discriminate].
  pose proof (span_all not_nl (skipn 2 s)) as Hall.
  pose proof (span_snd_stops not_nl (skipn 2 s)) as Hstop.
  set (body := fst (span not_nl (skipn 2 s))) in *. clearbody body.
  destruct (snd (span not_nl (skipn 2 s))) as [|nl rest]; intros [= <- <- <- <-] Hag.
  - apply agree1_nil_l in Hag. subst r'. cbn [app]. rewrite lex_comment_unfold.
    rewrite (span_app_stop not_nl _ [] Hall I). reflexivity.
  - cbn [app]. rewrite lex_comment_unfold. rewrite <- app_assoc. cbn [app].
    rewrite (span_app_stop not_nl _ (nl :: r') Hall Hstop). reflexivity.
Qed.

Lemma lex_comment_none s lx r r' :
  lex_comment s = None -> s = lx ++ r -> lx <> [] -> agree1 r r' -> lex_comment (lx ++ r') = None.
Proof.
  unfold lex_comment. intros H -> Hne Hag.
  rewrite <- (starts_agree [47; 47] lx r r' Hne); [| cbn [length]; destruct lx; [congruence | cbn [length]; lia] | exact Hag].
  destruct (starts [47; 47] (lx ++ r)); [|reflexivity].
  destruct (snd _); discriminate.
Qed.

(* ---- symbols ---- *)

Lemma first_match_some tbl s p k : In (p, k) tbl -> starts p s = true -> first_match tbl s <> None.
Proof.
  induction tbl as [|[q j] tbl IH]; cbn [first_match In]; [tauto|].
  intros [H|H] Hs.
  - inversion H; subst. rewrite Hs. discriminate.
  - destruct (starts q s); [discriminate | auto].
Qed.

Lemma sym_hd_in p k : In (p, k) sym_table -> exists c p' k', p = c :: p' /\ In ([c], k') sym_table.
Proof.
  cbn. intros H.
  repeat (destruct H as [H|H]; [inversion H; subst; do 3 eexists; split; [reflexivity|]; tauto|]).
  destruct H.
Qed.

Lemma lex_sym_none_hd c x y : lex_sym (c :: x) = None -> lex_sym (c :: y) = None.
Proof.
  unfold lex_sym. intros H.
  destruct (first_match sym_table (c :: y)) as [[p k]|] eqn:E; [|reflexivity].
  exfalso. apply first_match_in in E as [Hin Hs].
  destruct (sym_hd_in _ _ Hin) as [c0 [p' [k' [-> Hin']]]].
  cbn [starts] in Hs. apply andb_true_iff in Hs as [Hc _]. apply N.eqb_eq in Hc. subst c0.
  apply (first_match_some sym_table (c :: x) [c] k' Hin').
  - cbn [starts]. now rewrite N.eqb_refl.
  - destruct (first_match sym_table (c :: x)) as [[? ?]|]; [discriminate | reflexivity].
Qed.

Lemma lex_sym_none s lx r r' :
  lex_sym s = None -> s = lx ++ r -> lx <> [] -> lex_sym (lx ++ r') = None.
Proof.
  intros H -> Hne. destruct lx as [|c lx]; [congruence|]. cbn [app] in *. eapply lex_sym_none_hd; eauto.
Qed.

Lemma lex_sym_local s k e lx r r' :
  lex_sym s = Some (k, e, lx, r) -> (look_ahead k = 1 -> agree1 r r') ->
  lex_sym (lx ++ r') = Some (k, e, lx, r').
Proof.
  unfold lex_sym. destruct (first_match sym_table s) as [[p j]|] eqn:E; [|discriminate].
  intros [= <- <- <- <-] Hag.
  pose proof (first_match_in _ _ _ _ E) as [Hin Hs]. apply starts_skipn in Hs.
  set (r := skipn (length p) s) in *. clearbody r. subst s.
  cbn in Hin.
  repeat (destruct Hin as [Hin|Hin]; [inversion Hin; subst; clear Hin|]); try (destruct Hin).
  all: try reflexivity.
  all: specialize (Hag eq_refl); destruct r as [|x r], r' as [|y r']; try discriminate; [reflexivity|];
    inversion Hag; subst; destruct (N.eqb_spec 61 y) as [<-|Hn]; [vm_compute in E; discriminate|];
    apply N.eqb_neq in Hn; unfold sym_table; cbn [first_match starts app]; rewrite Hn; reflexivity.
Qed.

Lemma lex_sym_comment_none s k e lx r r' :
  lex_comment s = None -> lex_sym s = Some (k, e, lx, r) -> (look_ahead k = 1 -> agree1 r r') ->
  lex_comment (lx ++ r') = None.
Proof.
  intros Hc Hs Hag. destruct (N.eq_dec (look_ahead k) 1) as [Hla|Hla].
  - pose proof (lex_sym_good s) as G. rewrite Hs in G. destruct G as [G1 G2].
    eapply lex_comment_none; eauto.
  - unfold lex_sym in Hs. destruct (first_match sym_table s) as [[p j]|] eqn:E; [|discriminate].
    inversion Hs; subst. apply first_match_in in E as [Hin _]. cbn in Hin.
    repeat (destruct Hin as [Hin|Hin]; [inversion Hin; subst; clear Hin;
                                        first [reflexivity | exfalso; apply Hla; reflexivity]|]).
    destruct Hin.
Qed.

(* ---- keywords ---- *)

Lemma skipn_length_app {A} (p r : list A) : skipn (length p) (p ++ r) = r.
Proof. induction p; cbn [length skipn app]; auto. Qed.

Lemma kw_ok_stops r : kw_ok r = true <-> stops is_alnum_trunc r.
Proof. destruct r as [|c r]; cbn [kw_ok stops]; [tauto|]. destruct (is_alnum_trunc c); cbn; split; auto; discriminate. Qed.

Lemma kw_test_eq p s :
  forallb is_alnum_trunc p = true ->
  starts p s && kw_ok (skipn (length p) s) = text_eqb p (fst (span is_alnum_trunc s)).
Proof.
  revert s; induction p as [|a p IH]; intros s Hp.
  - cbn [starts length skipn andb]. destruct s as [|c r]; [reflexivity|]. cbn [kw_ok span].
    destruct (is_alnum_trunc c); [|reflexivity]. destruct (span is_alnum_trunc r). reflexivity.
  - cbn [forallb] in Hp. apply andb_true_iff in Hp as [Ha Hp].
    destruct s as [|b s]; [reflexivity|]. cbn [starts length skipn span].
    destruct (is_alnum_trunc b) eqn:Eb.
    + rewrite <- andb_assoc, (IH s Hp). destruct (span is_alnum_trunc s). reflexivity.
    + destruct (N.eqb_spec a b) as [->|Hn]; [congruence|]. reflexivity.
Qed.

Fixpoint first_kw' (tbl : list (text * kind)) (w : text) : option (text * kind) :=
  match tbl with
  | [] => None
  | (p, k) :: tbl' => if text_eqb p w then Some (p, k) else first_kw' tbl' w
  end.

Lemma first_kw_span tbl s :
  Forall (fun pk => forallb is_alnum_trunc (fst pk) = true) tbl ->
  first_kw tbl s = first_kw' tbl (fst (span is_alnum_trunc s)).
Proof.
  induction 1 as [|[p k] tbl Hp _ IH]; [reflexivity|]. cbn [first_kw first_kw'].
  cbn [fst] in Hp. rewrite (kw_test_eq p s Hp), IH. reflexivity.
Qed.

Lemma kw_table_alnum : Forall (fun pk => forallb is_alnum_trunc (fst pk) = true) kw_table.
Proof. repeat constructor. Qed.

Lemma lex_kw_local s k e lx r r' :
  lex_kw s = Some (k, e, lx, r) -> agree1 r r' -> lex_kw (lx ++ r') = Some (k, e, lx, r').
Proof.
  unfold lex_kw. destruct (first_kw kw_table s) as [[p j]|] eqn:E; [|discriminate].
  intros [= <- <- <- <-] Hag.
  pose proof (first_kw_in _ _ _ _ E) as [Hin [Hs Hok]]. apply starts_skipn in Hs.
  set (r := skipn (length p) s) in *. clearbody r. subst s.
  assert (Hp : forallb is_alnum_trunc p = true).
  { pose proof kw_table_alnum as F. rewrite Forall_forall in F. apply (F _ Hin). }
  apply kw_ok_stops in Hok.
  rewrite first_kw_span in E |- * by apply kw_table_alnum.
  rewrite (span_app_stop _ _ _ Hp Hok) in E.
  rewrite (span_app_stop _ _ _ Hp (stops_agree _ _ _ Hag Hok)).
  cbn [fst] in *. rewrite E. now rewrite skipn_length_app.
Qed.

Lemma lex_kw_none_hd c x : is_ident_start c = false -> lex_kw (c :: x) = None.
Proof.
  intros Hc. unfold lex_kw. destruct (first_kw kw_table (c :: x)) as [[p k]|] eqn:E; [|reflexivity].
  exfalso. apply first_kw_in in E as [Hin [Hs _]]. cbn in Hin.
  repeat (destruct Hin as [Hin|Hin];
          [inversion Hin; subst; clear Hin; cbn [starts] in Hs; apply andb_true_iff in Hs as [Hs _];
           apply N.eqb_eq in Hs; subst c; vm_compute in Hc; discriminate|]).
  destruct Hin.
Qed.

Lemma ident_start_alnum c : is_ident_start c = true -> is_alnum_trunc c = true.
Proof.
  unfold is_ident_start, is_alnum_trunc, is_alpha, is_upper, is_lower. cbv zeta. intros H.
  destruct (c =? 95) eqn:E; [now rewrite orb_true_r|]. rewrite orb_false_r in H.
  assert (c < 256).
  { apply orb_true_iff in H as [H|H]; apply andb_true_iff in H as [_ H]; apply N.leb_le in H; lia. }
  rewrite N.mod_small by lia. rewrite H. reflexivity.
Qed.

Lemma lex_ident_kw_none s k e lx r r' :
  lex_kw s = None -> lex_ident s = Some (k, e, lx, r) -> agree1 r r' -> lex_kw (lx ++ r') = None.
Proof.
  unfold lex_kw, lex_ident. intros Hk Hi Hag.
  destruct s as [|c t]; [discriminate|]. destruct (is_ident_start c) eqn:Ec; [|discriminate].
  inversion Hi; subst; clear Hi.
  pose proof (span_all is_alnum_trunc t) as Hall. pose proof (span_snd_stops is_alnum_trunc t) as Hst.
  assert (Hlx : forallb is_alnum_trunc (c :: fst (span is_alnum_trunc t)) = true).
  { cbn [forallb]. now rewrite (ident_start_alnum c Ec), Hall. }
  rewrite first_kw_span in Hk |- * by apply kw_table_alnum.
  rewrite (span_app_stop _ _ _ Hlx (stops_agree _ _ _ Hag Hst)).
  cbn [span] in Hk. rewrite (ident_start_alnum c Ec) in Hk.
  destruct (span is_alnum_trunc t) as [x y]. cbn [fst snd] in *.
  destruct (first_kw' kw_table (c :: x)) as [[? ?]|]; [discriminate | reflexivity].
Qed.

(* ---- char literals ---- *)

Definition char_close (c : char) (lx r2 : text) : option lexres :=
  match r2 with
  | [] => Some (CharT c, [mkerr (blen lx) (blen lx) MissingClosingTick], lx, r2)
  | d :: r3 => if d =? 39 then Some (CharT c, [], lx ++ [39], r3)
               else Some (CharT c, [mkerr (blen lx) (blen lx) MissingClosingTick], lx, r2)
  end.

Definition lex_char' (s : text) : option lexres :=
  match s with
  | [] => None
  | q :: r =>
      if q =? 39 then
        if starts [92; 110] r then char_close 10 [39; 92; 110] (skipn 2 r)
        else match r with [] => None | x :: r2 => char_close x [39; x] r2 end
      else None
  end.

Lemma char_close_eq c lx r2 :
  match r2 with
  | 39 :: r3 => Some (CharT c, [], lx ++ [39], r3)
  | _ => Some (CharT c, [mkerr (blen lx) (blen lx) MissingClosingTick], lx, r2)
  end = char_close c lx r2.
Proof.
  unfold char_close. destruct r2 as [|d r3]; [reflexivity|].
  destruct (N.eqb_spec d 39) as [->|Hd]; [reflexivity|].
  destruct d as [|p]; [reflexivity|]. do 6 (destruct p as [p|p|]; try reflexivity). congruence.
Qed.

Lemma lex_char_eq s : lex_char s = lex_char' s.
Proof.
  unfold lex_char, lex_char'. destruct s as [|q r]; [reflexivity|].
  destruct (N.eqb_spec q 39) as [->|Hq].
  - destruct (starts [92; 110] r).
    + apply char_close_eq.
    + destruct r as [|x r2]; [reflexivity|]. apply char_close_eq.
  - destruct q as [|p]; [reflexivity|]. do 6 (destruct p as [p|p|]; try reflexivity). congruence.
Qed.

Lemma char_close_local c lx0 r2 k e lx r r' :
  char_close c lx0 r2 = Some (k, e, lx, r) -> agree1 r r' ->
  exists r2', lx0 ++ r2' = lx ++ r' /\ agree1 r2 r2' /\ char_close c lx0 r2' = Some (k, e, lx, r').
Proof.
  unfold char_close. destruct r2 as [|d r3].
  - intros [= <- <- <- <-] Hag. apply agree1_nil_l in Hag. subst r'. exists []. auto using agree1_refl.
  - destruct (d =? 39) eqn:Ed.
    + intros [= <- <- <- <-] Hag. exists (d :: r'). apply N.eqb_eq in Ed. subst d.
      rewrite <- app_assoc. cbn [app]. split; [reflexivity|]. split; [reflexivity|]. reflexivity.
    + intros [= <- <- <- <-] Hag. destruct (agree1_cons_l _ _ _ Hag) as [r4 ->].
      exists (d :: r4). rewrite Ed. split; [reflexivity|]. split; reflexivity.
Qed.

Lemma lex_char_local s k e lx r r' :
  lex_char s = Some (k, e, lx, r) -> agree1 r r' -> lex_char (lx ++ r') = Some (k, e, lx, r').
Proof.
  rewrite !lex_char_eq. unfold lex_char' at 1. destruct s as [|q t]; [discriminate|].
  destruct (N.eqb_spec q 39) as [->|Hq]; [|discriminate].
  destruct (starts [92; 110] t) eqn:Es.
  - intros H Hag. destruct (char_close_local _ _ _ _ _ _ _ _ H Hag) as [r2' [Heq [_ Hc]]].
    rewrite <- Heq. exact Hc.
  - destruct t as [|x r2]; [discriminate|]. intros H Hag.
    destruct (char_close_local _ _ _ _ _ _ _ _ H Hag) as [r2' [Heq [Hag2 Hc]]].
    rewrite <- Heq. cbn [app lex_char']. cbn [N.eqb Pos.eqb].
    replace (starts [92; 110] (x :: r2')) with false; [exact Hc|].
    rewrite <- Es. cbn [starts]. destruct (92 =? x); [|reflexivity]. cbn [andb].
    destruct r2 as [|y r2], r2' as [|y' r2']; try discriminate; [reflexivity|].
    inversion Hag2; subst. reflexivity.
Qed.

Lemma lex_char_none s lx r r' :
  lex_char s = None -> s = lx ++ r -> lx <> [] -> agree1 r r' -> lex_char (lx ++ r') = None.
Proof.
  rewrite !lex_char_eq. intros H -> Hne Hag. destruct lx as [|q lx]; [congruence|].
  cbn [app lex_char'] in *. destruct (q =? 39); [|reflexivity].
  destruct (starts [92; 110] (lx ++ r)) eqn:Es.
  - unfold char_close in H. destruct (skipn 2 (lx ++ r)); [discriminate|]. destruct (_ =? 39); discriminate.
  - destruct (lx ++ r) as [|x r2] eqn:E.
    + apply app_eq_nil in E as [-> ->]. apply agree1_nil_l in Hag. subst r'. reflexivity.
    + unfold char_close in H. destruct r2; [discriminate|]. destruct (_ =? 39); discriminate.
Qed.

Lemma lex_char_none_hd c x : c <> 39 -> lex_char (c :: x) = None.
Proof. intros Hc. rewrite lex_char_eq. cbn [lex_char']. apply N.eqb_neq in Hc. now rewrite Hc. Qed.

(* ---- hex ---- *)

Lemma lex_hex_unfold x :
  lex_hex (48 :: 120 :: x) =
  match fst (span is_hex x) with
  | [] => Some (HexT (IntErr []), [mkerr 2 2 ExpectedHexNumber], [48; 120], snd (span is_hex x))
  | _ =>
      if hex_value (fst (span is_hex x)) <? u32_limit
      then Some (HexT (IntOk (hex_value (fst (span is_hex x)))), [], [48; 120] ++ fst (span is_hex x), snd (span is_hex x))
      else Some (HexT (IntErr (fst (span is_hex x))),
                 [mkerr 2 (2 + blen (fst (span is_hex x))) (InvalidIntLit ([48; 120] ++ fst (span is_hex x)))],
                 [48; 120] ++ fst (span is_hex x), snd (span is_hex x))
  end.
Proof. reflexivity. Qed.

Lemma lex_hex_local s k e lx r r' :
  lex_hex s = Some (k, e, lx, r) -> agree1 r r' -> lex_hex (lx ++ r') = Some (k, e, lx, r').
Proof.
  unfold lex_hex at 1. destruct (starts [48; 120] s); [|discriminate].
  pose proof (span_all is_hex (skipn 2 s)) as Hall. pose proof (span_snd_stops is_hex (skipn 2 s)) as Hst.
  set (d := fst (span is_hex (skipn 2 s))) in *. set (rest := snd (span is_hex (skipn 2 s))) in *.
  clearbody d rest. intros H Hag.
  assert (Hlx : lx = [48; 120] ++ d /\ r = rest).
  { destruct d; [|destruct (_ <? _)]; inversion H; auto. }
  destruct Hlx as [-> ->]. cbn [app]. rewrite lex_hex_unfold.
  rewrite (span_app_stop _ _ _ Hall (stops_agree _ _ _ Hag Hst)). cbn [fst snd].
  revert H. destruct d; [|destruct (_ <? _)]; intros H; inversion H; subst; reflexivity.
Qed.

Lemma lex_hex_none s lx r r' :
  lex_hex s = None -> s = lx ++ r -> lx <> [] -> agree1 r r' -> lex_hex (lx ++ r') = None.
Proof.
  unfold lex_hex. intros H -> Hne Hag.
  rewrite <- (starts_agree [48; 120] lx r r' Hne); [| destruct lx; [congruence | cbn [length]; lia] | exact Hag].
  destruct (starts [48; 120] (lx ++ r)); [|reflexivity].
  destruct (fst _); [discriminate|]. destruct (_ <? _); discriminate.
Qed.

(* ---- int ---- *)

Lemma lex_int_local s k e lx r r' :
  lex_int s = Some (k, e, lx, r) -> agree1 r r' -> lex_int (lx ++ r') = Some (k, e, lx, r').
Proof.
  unfold lex_int.
  pose proof (span_all is_digit s) as Hall. pose proof (span_snd_stops is_digit s) as Hst.
  set (d := fst (span is_digit s)) in *. set (rest := snd (span is_digit s)) in *.
  clearbody d rest. intros H Hag.
  assert (Hlx : lx = d /\ r = rest).
  { destruct d; [discriminate|destruct (_ <? _)]; inversion H; auto. }
  destruct Hlx as [-> ->].
  rewrite (span_app_stop _ _ _ Hall (stops_agree _ _ _ Hag Hst)). cbn [fst snd].
  revert H. destruct d; [discriminate|destruct (_ <? _)]; intros H; inversion H; subst; reflexivity.
Qed.

Lemma lex_int_none_hd c x y : lex_int (c :: x) = None -> lex_int (c :: y) = None.
Proof.
  unfold lex_int. cbn [span]. destruct (is_digit c); [|reflexivity].
  destruct (span is_digit x). cbn [fst snd]. destruct (_ <? _); discriminate.
Qed.

Lemma lex_int_none s lx r r' :
  lex_int s = None -> s = lx ++ r -> lx <> [] -> lex_int (lx ++ r') = None.
Proof.
  intros H -> Hne. destruct lx as [|c lx]; [congruence|]. cbn [app] in *. eapply lex_int_none_hd; eauto.
Qed.

(* ---- ident ---- *)

Lemma lex_ident_local s k e lx r r' :
  lex_ident s = Some (k, e, lx, r) -> agree1 r r' -> lex_ident (lx ++ r') = Some (k, e, lx, r').
Proof.
  unfold lex_ident. destruct s as [|c t]; [discriminate|]. destruct (is_ident_start c) eqn:Ec; [|discriminate].
  pose proof (span_all is_alnum_trunc t) as Hall. pose proof (span_snd_stops is_alnum_trunc t) as Hst.
  intros [= <- <- <- <-] Hag. cbn [app]. rewrite Ec.
  rewrite (span_app_stop _ _ _ Hall (stops_agree _ _ _ Hag Hst)). reflexivity.
Qed.

Lemma lex_ident_none s lx r r' :
  lex_ident s = None -> s = lx ++ r -> lx <> [] -> lex_ident (lx ++ r') = None.
Proof.
  intros H -> Hne. destruct lx as [|c lx]; [congruence|]. cbn [app lex_ident] in *.
  destruct (is_ident_start c); [discriminate | reflexivity].
Qed.

Lemma lex_unknown_local s k e lx r r' :
  lex_unknown s = Some (k, e, lx, r) -> lex_unknown (lx ++ r') = Some (k, e, lx, r').
Proof. destruct s; [discriminate|]. intros [= <- <- <- <-]. reflexivity. Qed.

(* ---- look-ahead of the kinds produced by each alternative ---- *)

Lemma la_comment s k e lx r : lex_comment s = Some (k, e, lx, r) -> look_ahead k = 1.
Proof. unfold lex_comment. destruct (starts _ s); [|discriminate]. destruct (snd _); intros [= <- _ _ _]; reflexivity. Qed.

Lemma la_kw s k e lx r : lex_kw s = Some (k, e, lx, r) -> look_ahead k = 1.
Proof.
  unfold lex_kw. destruct (first_kw kw_table s) as [[p j]|] eqn:E; [|discriminate].
  intros [= <- _ _ _]. apply first_kw_in in E as [Hin _]. cbn in Hin.
  repeat (destruct Hin as [Hin|Hin]; [inversion Hin; reflexivity|]). destruct Hin.
Qed.

Lemma la_char s k e lx r : lex_char s = Some (k, e, lx, r) -> look_ahead k = 1.
Proof.
  rewrite lex_char_eq. unfold lex_char', char_close. destruct s as [|q t]; [discriminate|].
  destruct (q =? 39); [|discriminate].
  destruct (starts _ t).
  - destruct (skipn 2 t); [|destruct (_ =? 39)]; intros [= <- _ _ _]; reflexivity.
  - destruct t as [|x [|d r3]]; [discriminate| |destruct (_ =? 39)]; intros [= <- _ _ _]; reflexivity.
Qed.

Lemma la_hex s k e lx r : lex_hex s = Some (k, e, lx, r) -> look_ahead k = 1.
Proof.
  unfold lex_hex. destruct (starts _ s); [|discriminate].
  destruct (fst _); [|destruct (_ <? _)]; intros [= <- _ _ _]; reflexivity.
Qed.

Lemma la_int s k e lx r : lex_int s = Some (k, e, lx, r) -> look_ahead k = 1.
Proof.
  unfold lex_int. destruct (fst _); [discriminate|destruct (_ <? _)]; intros [= <- _ _ _]; reflexivity.
Qed.

Lemma la_ident s k e lx r : lex_ident s = Some (k, e, lx, r) -> look_ahead k = 1.
Proof.
  unfold lex_ident. destruct s; [discriminate|]. destruct (is_ident_start _); [|discriminate].
  intros [= <- _ _ _]; reflexivity.
Qed.

Lemma la_unknown s k e lx r : lex_unknown s = Some (k, e, lx, r) -> look_ahead k = 1.
Proof. destruct s; [discriminate|]. intros [= <- _ _ _]; reflexivity. Qed.

(* ---- first character is not an identifier start ---- *)

Definition hd_not_ident (s : text) : Prop :=
  match s with [] => True | c :: _ => is_ident_start c = false end.

Lemma hni_char s x : lex_char s = Some x -> hd_not_ident s.
Proof.
  rewrite lex_char_eq. destruct s as [|q t]; [exact (fun _ => I)|]. cbn [lex_char' hd_not_ident].
  destruct (N.eqb_spec q 39) as [->|]; [reflexivity | discriminate].
Qed.

Lemma hni_hex s x : lex_hex s = Some x -> hd_not_ident s.
Proof.
  unfold lex_hex. destruct (starts [48; 120] s) eqn:E; [|discriminate]. intros _.
  destruct s as [|q t]; [exact I|]. cbn [starts] in E. apply andb_true_iff in E as [E _].
  apply N.eqb_eq in E. subst q. reflexivity.
Qed.

Lemma hni_int s x : lex_int s = Some x -> hd_not_ident s.
Proof.
  unfold lex_int. destruct s as [|q t]; [exact (fun _ => I)|]. cbn [span hd_not_ident].
  destruct (is_digit q) eqn:E; [|discriminate]. intros _.
  unfold is_digit in E. apply andb_true_iff in E as [E1 E2]. apply N.leb_le in E1, E2.
  unfold is_ident_start, is_alpha, is_upper, is_lower.
  repeat match goal with |- context [?a <=? ?b] => destruct (N.leb_spec a b) end;
  repeat match goal with |- context [?a =? ?b] => destruct (N.eqb_spec a b) end; cbn; try reflexivity; lia.
Qed.

Lemma hni_ident_none s : lex_ident s = None -> hd_not_ident s.
Proof.
  destruct s as [|q t]; [exact (fun _ => I)|]. cbn [lex_ident hd_not_ident].
  destruct (is_ident_start q); [discriminate | reflexivity].
Qed.

Lemma hni_kw_none lx r r' : hd_not_ident (lx ++ r) -> lx <> [] -> lex_kw (lx ++ r') = None.
Proof.
  destruct lx as [|c lx]; [congruence|]. cbn [app hd_not_ident]. intros H _. now apply lex_kw_none_hd.
Qed.

(* ---- the locality theorem ---- *)

Theorem lex_raw_local s k e lx r r' :
  lex_raw s = Some (k, e, lx, r) -> (look_ahead k = 1 -> agree1 r r') ->
  lex_raw (lx ++ r') = Some (k, e, lx, r').
Proof.
  intros H Hag. pose proof (lex_raw_split _ _ _ _ _ H) as [Hs Hne].
  unfold lex_raw in *.
  destruct (lex_comment s) as [x|] eqn:Ec; cbn [orelse] in H.
  { injection H as ->. rewrite (lex_comment_local _ _ _ _ _ _ Ec (Hag (la_comment _ _ _ _ _ Ec))). reflexivity. }
  destruct (lex_sym s) as [x|] eqn:Esy; cbn [orelse] in H.
  { injection H as ->. rewrite (lex_sym_comment_none _ _ _ _ _ _ Ec Esy Hag), (lex_sym_local _ _ _ _ _ _ Esy Hag).
    reflexivity. }
  assert (Hla : look_ahead k = 1).
  { repeat (apply orelse_inv in H as [H|H]);
      eauto using la_kw, la_char, la_hex, la_int, la_ident, la_unknown. }
  specialize (Hag Hla).
  rewrite (lex_comment_none _ _ _ _ Ec Hs Hne Hag), (lex_sym_none _ _ _ r' Esy Hs Hne). cbn [orelse].
  destruct (lex_kw s) as [x|] eqn:Ek; cbn [orelse] in H.
  { injection H as ->. rewrite (lex_kw_local _ _ _ _ _ _ Ek Hag). reflexivity. }
  destruct (lex_char s) as [x|] eqn:Ech; cbn [orelse] in H.
  { injection H as ->. pose proof (hni_char _ _ Ech) as Hni. rewrite Hs in Hni.
    rewrite (hni_kw_none _ _ r' Hni Hne), (lex_char_local _ _ _ _ _ _ Ech Hag). reflexivity. }
  rewrite (lex_char_none _ _ _ _ Ech Hs Hne Hag).
  destruct (lex_hex s) as [x|] eqn:Eh; cbn [orelse] in H.
  { injection H as ->. pose proof (hni_hex _ _ Eh) as Hni. rewrite Hs in Hni.
    rewrite (hni_kw_none _ _ r' Hni Hne), (lex_hex_local _ _ _ _ _ _ Eh Hag). reflexivity. }
  rewrite (lex_hex_none _ _ _ _ Eh Hs Hne Hag).
  destruct (lex_int s) as [x|] eqn:Ei; cbn [orelse] in H.
  { injection H as ->. pose proof (hni_int _ _ Ei) as Hni. rewrite Hs in Hni.
    rewrite (hni_kw_none _ _ r' Hni Hne), (lex_int_local _ _ _ _ _ _ Ei Hag). reflexivity. }
  rewrite (lex_int_none _ _ _ r' Ei Hs Hne).
  destruct (lex_ident s) as [x|] eqn:Eid; cbn [orelse] in H.
  { injection H as ->. rewrite (lex_ident_kw_none _ _ _ _ _ _ Ek Eid Hag), (lex_ident_local _ _ _ _ _ _ Eid Hag).
    reflexivity. }
  rewrite (lex_ident_none _ _ _ r' Eid Hs Hne).
  pose proof (hni_ident_none _ Eid) as Hni. rewrite Hs in Hni.
  rewrite (hni_kw_none _ _ r' Hni Hne), (lex_unknown_local _ _ _ _ _ r' H). reflexivity.
Qed.

Print Assumptions lex_raw_local.
