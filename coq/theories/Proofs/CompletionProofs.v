(* C16 - proofs about the model of completion.rs (Model/Completion.v), for ALL documents and
   positions: whatever `propose` answers,
     - the proposed variables (kind VARIABLE) are either none or exactly the entries of the local
       table of the procedure entry that carries the name of the declaration containing the
       (corrected) cursor position - never another procedure's table;
     - the proposed procedures (kind FUNCTION) are either none or exactly the procedure entries of
       the global table; the proposed types (kind STRUCT) are none or exactly the type
       entries of the global table;
     - outside every declaration (and not behind an unfinished last type declaration) the answer
       is the list of declaration starters, with the `main` snippet iff `main` is not a procedure
       of the global table. *)
From Coq Require Import String PeanoNat Lia.
From Spl Require Import Model.Completion.

Local Open Scope nat_scope.

Definition opt_stmt_P (P : stmt -> Prop) (o : option (stmt * nat)) : Prop :=
  match o with Some (x, _) => P x | None => True end.

Section StmtInd.
Variable P : stmt -> Prop.
Hypothesis Hempty : forall inf, P (SEmpty inf).
Hypothesis Hassign : forall v e inf, P (SAssign v e inf).
Hypothesis Hcall : forall n args inf, P (SCall n args inf).
Hypothesis Hif : forall c t e inf, opt_stmt_P P t -> opt_stmt_P P e -> P (SIf c t e inf).
Hypothesis Hwhile : forall c b inf, opt_stmt_P P b -> P (SWhile c b inf).
Hypothesis Hblock : forall body inf, Forall (fun x => P (fst x)) body -> P (SBlock body inf).
Hypothesis Herror : forall inf, P (SError inf).

Fixpoint stmt_ind' (s : stmt) : P s :=
  let opt (o : option (stmt * nat)) : opt_stmt_P P o :=
    match o with Some (x, _) => stmt_ind' x | None => I end in
  match s with
  | SEmpty inf => Hempty inf
  | SAssign v e inf => Hassign v e inf
  | SCall n args inf => Hcall n args inf
  | SIf c t e inf => Hif c t e inf (opt t) (opt e)
  | SWhile c b inf => Hwhile c b inf (opt b)
  | SBlock body inf =>
      Hblock body inf
        ((fix go (l : list (stmt * nat)) : Forall (fun x => P (fst x)) l :=
            match l with
            | [] => Forall_nil _
            | x :: r => Forall_cons x (stmt_ind' (fst x)) (go r)
            end) body)
  | SError inf => Herror inf
  end.
End StmtInd.

(* ------------------------------------------------------------------------------------------ *)
(* the three entry-derived parts of an answer                                                   *)

Definition vars_ok (l : option ltable) (items : list item) : Prop :=
  filter is_var items = [] \/ exists lt, l = Some lt /\ filter is_var items = search_variables lt.
Definition funs_ok (g : gtable) (items : list item) : Prop :=
  filter is_fun items = [] \/ filter is_fun items = search_procedures g.
Definition types_ok (g : gtable) (items : list item) : Prop :=
  filter is_struct items = [] \/ filter is_struct items = search_types g.

Definition shape_ok (l : option ltable) (g : gtable) (r : option (list item)) : Prop :=
  match r with
  | None => True
  | Some items => vars_ok l items /\ funs_ok g items /\ types_ok g items
  end.

Lemma filter_map_all {A B} (f : B -> bool) (h : A -> B) (l : list A) :
  (forall x, f (h x) = true) -> filter f (map h l) = map h l.
Proof. intros H. induction l as [|a l IH]; cbn [map filter]; [reflexivity|]. now rewrite H, IH. Qed.

Lemma filter_map_none {A B} (f : B -> bool) (h : A -> B) (l : list A) :
  (forall x, f (h x) = false) -> filter f (map h l) = [].
Proof. intros H. induction l as [|a l IH]; cbn [map filter]; [reflexivity|]. now rewrite H, IH. Qed.

Lemma var_vars l : filter is_var (search_variables l) = search_variables l.
Proof. apply filter_map_all. reflexivity. Qed.
Lemma fun_vars l : filter is_fun (search_variables l) = [].
Proof. apply filter_map_none. reflexivity. Qed.
Lemma struct_vars l : filter is_struct (search_variables l) = [].
Proof. apply filter_map_none. reflexivity. Qed.
Lemma var_procs g : filter is_var (search_procedures g) = [].
Proof. apply filter_map_none. reflexivity. Qed.
Lemma fun_procs g : filter is_fun (search_procedures g) = search_procedures g.
Proof. apply filter_map_all. reflexivity. Qed.
Lemma struct_procs g : filter is_struct (search_procedures g) = [].
Proof. apply filter_map_none. reflexivity. Qed.
Lemma var_types g : filter is_var (search_types g) = [].
Proof. apply filter_map_none. reflexivity. Qed.
Lemma fun_types g : filter is_fun (search_types g) = [].
Proof. apply filter_map_none. reflexivity. Qed.
Lemma struct_types g : filter is_struct (search_types g) = search_types g.
Proof. apply filter_map_all. reflexivity. Qed.

Ltac filters :=
  rewrite ?filter_app, ?var_vars, ?fun_vars, ?struct_vars, ?var_procs, ?fun_procs, ?struct_procs,
          ?var_types, ?fun_types, ?struct_types;
  cbn [filter is_var is_fun is_struct it_kind snip_if snip_while snip_else snip_var snip_array snip_main
       snip_proc snip_type item_if item_while item_else item_var item_array item_of item_ref
       item_proc item_type kw_item snippet app N.eqb Pos.eqb kind_variable kind_function kind_struct
       kind_keyword kind_snippet];
  rewrite ?app_nil_r.

Lemma new_stmt_shape l g extra :
  filter is_var extra = [] -> filter is_fun extra = [] -> filter is_struct extra = [] ->
  shape_ok l g (Some (extra ++ new_stmt l g)).
Proof.
  intros Hv Hf Hs. unfold shape_ok, vars_ok, funs_ok, types_ok, new_stmt.
  rewrite !filter_app, Hv, Hf, Hs. cbn [app].
  repeat split.
  - destruct l as [lt|]; filters; [right; now exists lt | now left].
  - right. destruct l; filters; reflexivity.
  - left. destruct l; filters; reflexivity.
Qed.

Lemma new_stmt_shape0 l g : shape_ok l g (Some (new_stmt l g)).
Proof. exact (new_stmt_shape l g [] eq_refl eq_refl eq_refl). Qed.

Lemma complete_vars_shape toks position l g k : shape_ok l g (complete_vars toks position l k).
Proof.
  unfold complete_vars. destruct (find _ toks); [|exact I]. destruct (_ <=? _)%N; [|exact I].
  destruct l as [lt|]; [|exact I]. cbn [shape_ok]. unfold vars_ok, funs_ok, types_ok.
  repeat split; filters; [right; now exists lt | now left | now left].
Qed.

Lemma types_shape l g : shape_ok l g (Some (search_types g)).
Proof.
  cbn [shape_ok]. unfold vars_ok, funs_ok, types_ok. repeat split; filters; [now left | now left | now right].
Qed.

(* ------------------------------------------------------------------------------------------ *)
(* complete_statement / complete_statements                                                     *)

Lemma rbind_ok {A B} (e : res A) (k : A -> res B) r : rbind e k = ROk r -> exists a, e = ROk a /\ k a = ROk r.
Proof. destruct e as [a|s]; cbn [rbind]; [intros H; now exists a | discriminate]. Qed.

Ltac binv H :=
  let a := fresh "a" in let E := fresh "E" in
  apply rbind_ok in H as (a & E & H).

(* the nested fix of the block case IS complete_statements *)
Lemma complete_statement_block body inf position toks last prev_if l g :
  complete_statement (SBlock body inf) position toks last prev_if l g =
  if prev_if && is_rcurly (tk last) then ROk (Some ([snip_else; item_else] ++ new_stmt l g))
  else complete_statements body position toks last false l g.
Proof.
  cbn [complete_statement]. destruct (prev_if && is_rcurly (tk last)); [reflexivity|].
  generalize false. induction body as [|[st off] r IH]; intros b; cbn [complete_statements]; [reflexivity|].
  destruct (slice_from toks off) as [tl|]; cbn [rbind]; [|reflexivity].
  destruct (slice tl (info_range (stmt_info st))) as [sl|]; cbn [rbind]; [|reflexivity].
  destruct (info_text_range sl (stmt_info st)) as [tr|]; cbn [rbind]; [|reflexivity].
  destruct (in_range tr position); [reflexivity | apply IH].
Qed.

Definition stmt_shape (s : stmt) : Prop :=
  forall position toks last prev_if l g r,
    complete_statement s position toks last prev_if l g = ROk r -> shape_ok l g r.

Lemma else_shape l g : shape_ok l g (Some ([snip_else; item_else] ++ new_stmt l g)).
Proof. apply new_stmt_shape; reflexivity. Qed.

Lemma complete_statements_shape : forall body,
  Forall (fun x => stmt_shape (fst x)) body ->
  forall position toks last prev_if l g r,
    complete_statements body position toks last prev_if l g = ROk r -> shape_ok l g r.
Proof.
  induction body as [|[st off] rest IH]; intros HF position toks last prev_if l g r H; cbn [complete_statements] in H.
  - injection H as <-. apply new_stmt_shape0.
  - inversion HF as [|? ? Hst Hrest]; subst. cbn [fst] in Hst.
    binv H. binv H. binv H.
    destruct (in_range a1 position); [exact (Hst _ _ _ _ _ _ _ H) | exact (IH Hrest _ _ _ _ _ _ _ H)].
Qed.

Lemma branch_shape (b : option (stmt * nat)) position toks last l g (otherwise : res (option (list item))) r :
  opt_stmt_P stmt_shape b ->
  (forall r', otherwise = ROk r' -> shape_ok l g r') ->
  match b with
  | Some (st, off) =>
      do tl <- slice_from toks off;
      do sl <- slice tl (info_range (stmt_info st));
      do tr <- info_text_range sl (stmt_info st);
      if in_range tr position then complete_statement st position sl last false l g else otherwise
  | None => otherwise
  end = ROk r -> shape_ok l g r.
Proof.
  intros Hb Ho H. destruct b as [[st off]|]; [|exact (Ho _ H)]. cbn [opt_stmt_P] in Hb.
  binv H. binv H. binv H. destruct (in_range a1 position); [exact (Hb _ _ _ _ _ _ _ H) | exact (Ho _ H)].
Qed.

Lemma complete_statement_shape : forall s, stmt_shape s.
Proof.
  induction s as [inf | v e inf | name args inf | c thn els inf IHt IHe | c b inf IHb | body inf IH | inf] using stmt_ind';
    intros position toks last prev_if l g r H.
  - cbn [complete_statement] in H. destruct (prev_if && is_rcurly (tk last)); injection H as <-;
      [apply else_shape | apply new_stmt_shape0].
  - cbn [complete_statement] in H. destruct (prev_if && is_rcurly (tk last)); injection H as <-;
      [apply else_shape | apply complete_vars_shape].
  - cbn [complete_statement] in H. destruct (prev_if && is_rcurly (tk last)); injection H as <-;
      [apply else_shape | apply complete_vars_shape].
  - cbn [complete_statement] in H. destruct (prev_if && is_rcurly (tk last)); [injection H as <-; apply else_shape|].
    revert H. apply branch_shape; [exact IHt|]. intros r'. apply branch_shape; [exact IHe|].
    intros r'' [= <-]. apply complete_vars_shape.
  - cbn [complete_statement] in H. destruct (prev_if && is_rcurly (tk last)); [injection H as <-; apply else_shape|].
    revert H. apply (branch_shape b position toks last l g (ROk (complete_vars toks position l LParen))); [exact IHb|].
    intros r' [= <-]. apply complete_vars_shape.
  - rewrite complete_statement_block in H. destruct (prev_if && is_rcurly (tk last)); [injection H as <-; apply else_shape|].
    exact (complete_statements_shape body IH _ _ _ _ _ _ _ H).
  - cbn [complete_statement] in H. destruct (prev_if && is_rcurly (tk last)); injection H as <-;
      [apply else_shape | apply new_stmt_shape0].
Qed.

Lemma complete_statements_shape' body position toks last prev_if l g r :
  complete_statements body position toks last prev_if l g = ROk r -> shape_ok l g r.
Proof.
  apply complete_statements_shape. apply Forall_forall. intros x _. apply complete_statement_shape.
Qed.

(* ------------------------------------------------------------------------------------------ *)
(* complete_procedure, complete_type, new_global_declaration, propose                           *)

Lemma fixed_shape l g items :
  filter is_var items = [] -> filter is_fun items = [] -> filter is_struct items = [] ->
  shape_ok l g (Some items).
Proof.
  intros Hv Hf Hs. cbn [shape_ok]. unfold vars_ok, funs_ok, types_ok. rewrite Hv, Hf, Hs. auto.
Qed.

Lemma complete_procedure_shape pd position toks g r :
  complete_procedure pd position toks g = ROk r -> shape_ok (get_local_table pd g) g r.
Proof.
  unfold complete_procedure. intros H.
  destruct (token_before toks position) as [last|]; [|injection H as <-; exact I].
  match type of H with (if ?c then _ else _) = _ => destruct c end.
  - injection H as <-. destruct (tk last); try exact I; try apply types_shape; apply fixed_shape; reflexivity.
  - binv H. destruct a.
    + exact (complete_statements_shape' _ _ _ _ _ _ _ _ H).
    + injection H as <-. destruct (tk last); try exact I; try apply types_shape;
        apply (new_stmt_shape _ g [snip_var; item_var]); reflexivity.
Qed.

Lemma complete_type_shape position toks l g : shape_ok l g (complete_type position toks g).
Proof.
  unfold complete_type. destruct (token_before toks position) as [last|]; [|exact I].
  destruct (tk last); try exact I;
    first [apply fixed_shape; reflexivity
          | cbn [shape_ok]; unfold vars_ok, funs_ok, types_ok; repeat split; filters; auto].
Qed.

Lemma global_shape l g : shape_ok l g (Some (new_global_declaration g)).
Proof.
  unfold new_global_declaration. apply fixed_shape; rewrite filter_app;
    (destruct (lookup g s_main) as [[?|?]|]; reflexivity).
Qed.

(* the (corrected) position `propose` classifies *)
Definition cursor_position (d : doc) (line col : N) : N :=
  correct_index (get_insertion_index line col (d_text d)).

(* the local table `propose` consults: the one of the procedure ENTRY named like the declaration
   that contains the position; None when the position is in no procedure declaration *)
Definition consulted_table (d : doc) (line col : N) : option ltable :=
  match find_decl (d_toks d) (cursor_position d line col) (pg_decls (d_ast d)) with
  | ROk (Some (GProc pd, _)) => get_local_table pd (d_table d)
  | _ => None
  end.

Theorem propose_shape d line col r :
  propose d line col = ROk r -> shape_ok (consulted_table d line col) (d_table d) r.
Proof.
  unfold propose, consulted_table, cursor_position. intros H. binv H.
  assert (Hc : c_index a = get_insertion_index line col (d_text d)).
  { unfold doc_cursor in E. binv E. now injection E as <-. }
  rewrite Hc in H. binv H. rewrite E0.
  destruct a0 as [[gd off]|].
  - binv H. destruct gd as [td | pd | inf].
    + binv H. injection H as <-. exact (complete_type_shape _ _ _ _).
    + binv H. exact (complete_procedure_shape _ _ _ _ _ H).
    + injection H as <-. apply global_shape.
  - destruct (last (map Some (pg_decls (d_ast d))) None) as [[[td | pd | inf] off]|];
      try (injection H as <-; apply global_shape).
    binv H. binv H. destruct (last (map Some a1) None) as [lt|]; [|injection H as <-; apply global_shape].
    destruct (is_semic (tk lt)); injection H as <-; [apply global_shape | exact (complete_type_shape _ _ _ _)].
Qed.

Lemma get_local_table_spec pd g lt :
  get_local_table pd g = Some lt ->
  exists name p, pd_name pd = Some name /\ lookup g (id_val name) = Some (GProcE p) /\ lt = pe_local p.
Proof.
  unfold get_local_table. destruct (pd_name pd) as [name|]; [|discriminate].
  destruct (lookup g (id_val name)) as [[t|p]|] eqn:E; try discriminate.
  intros [= <-]. now exists name, p.
Qed.

(* `Names local to another procedure are never proposed`: a proposed variable is an entry of the
   local table of the procedure entry that carries the name of the declaration around the cursor *)
Theorem propose_variables_local d line col items it :
  propose d line col = ROk (Some items) -> In it items -> it_kind it = kind_variable ->
  exists pd off name p,
    find_decl (d_toks d) (cursor_position d line col) (pg_decls (d_ast d)) = ROk (Some (GProc pd, off)) /\
    pd_name pd = Some name /\ lookup (d_table d) (id_val name) = Some (GProcE p) /\
    In it (search_variables (pe_local p)).
Proof.
  intros H Hin Hk. apply propose_shape in H. cbn [shape_ok] in H. destruct H as (Hv & _ & _).
  assert (Hf : In it (filter is_var items)).
  { apply filter_In. split; [exact Hin|]. unfold is_var. now rewrite Hk. }
  destruct Hv as [Hv | (lt & Hl & Hv)]; [rewrite Hv in Hf; destruct Hf|].
  unfold consulted_table in Hl.
  destruct (find_decl _ _ _) as [[[[td | pd | inf] off]|]|]; try discriminate.
  apply get_local_table_spec in Hl as (name & p & Hn & Hp & ->).
  exists pd, off, name, p. rewrite Hv in Hf. now repeat split.
Qed.

(* outside every declaration: the declaration starters, `main` snippet iff main is not a procedure *)
Definition last_type_unfinished (d : doc) : bool :=
  match last (map Some (pg_decls (d_ast d))) None with
  | Some (GType td, off) =>
      match slice_from (d_toks d) off with
      | ROk tl =>
          match slice tl (info_range (td_info td)) with
          | ROk sl => match last (map Some sl) None with Some lt => negb (is_semic (tk lt)) | None => false end
          | RFail _ => true
          end
      | RFail _ => true
      end
  | _ => false
  end.

Theorem propose_toplevel d line col r :
  propose d line col = ROk r ->
  find_decl (d_toks d) (cursor_position d line col) (pg_decls (d_ast d)) = ROk None ->
  last_type_unfinished d = false ->
  r = Some (new_global_declaration (d_table d)).
Proof.
  unfold propose, cursor_position, last_type_unfinished. intros H Hf Hl. binv H.
  assert (Hc : c_index a = get_insertion_index line col (d_text d)).
  { unfold doc_cursor in E. binv E. now injection E as <-. }
  rewrite Hc, Hf in H. cbn [rbind] in H.
  destruct (last (map Some (pg_decls (d_ast d))) None) as [[[td | pd | inf] off]|]; try (now injection H as <-).
  destruct (slice_from (d_toks d) off) as [tl|]; cbn [rbind] in H; [|discriminate].
  destruct (slice tl (info_range (td_info td))) as [sl|]; cbn [rbind] in H; [|discriminate].
  destruct (last (map Some sl) None) as [lt|]; [|now injection H as <-].
  destruct (is_semic (tk lt)); [now injection H as <- | discriminate].
Qed.

Lemma main_snippet_iff g :
  In snip_main (new_global_declaration g) <-> ~ exists p, lookup g s_main = Some (GProcE p).
Proof.
  unfold new_global_declaration. split.
  - intros H [p Hp]. rewrite Hp in H. cbn in H.
    repeat (destruct H as [H|H]; [discriminate H|]). exact H.
  - intros H. apply in_or_app. right. destruct (lookup g s_main) as [[t|p]|]; [now left | | now left].
    exfalso. apply H. now exists p.
Qed.

Lemma toplevel_no_entries g :
  filter is_var (new_global_declaration g) = [] /\ filter is_fun (new_global_declaration g) = [] /\
  filter is_struct (new_global_declaration g) = [].
Proof.
  unfold new_global_declaration. rewrite !filter_app.
  destruct (lookup g s_main) as [[?|?]|]; repeat split; reflexivity.
Qed.

(* ------------------------------------------------------------------------------------------ *)
(* the full functional statement of C16 on the model, and its refutation                        *)

(* In a document without diagnostics (a missing `main` is tolerated), at every cursor position of one of the four classes
   ([position_class]: statement start or the gap in front of a closing brace inside a procedure body;
   behind `:=` or behind a `(` of a body; behind `:` in a procedure declaration; between / before /
   behind the global declarations - each including the position directly behind the token and
   positions behind comments) the answer is what the property prescribes ([meets]). *)
Definition completion_full_statement : Prop :=
  forall t d line col c,
    new_doc t = Done d -> valid_doc d = true ->
    position_class d (get_insertion_index line col (d_text d)) = Some c ->
    meets d c (propose d line col) = true.

(* `proc main() { var x: int; x :=1; }` at 0:30, directly behind `:=`: the answer is `null` *)
Definition refute_text : text :=
  [112; 114; 111; 99; 32; 109; 97; 105; 110; 40; 41; 32; 123; 32; 118; 97; 114; 32; 120; 58; 32; 105; 110; 116; 59;
   32; 120; 32; 58; 61; 49; 59; 32; 125]%N.

Lemma completion_full_statement_refuted : ~ completion_full_statement.
Proof.
  intros H.
  destruct (new_doc refute_text) as [d| |] eqn:Ed; [|vm_compute in Ed; discriminate|vm_compute in Ed; discriminate].
  assert (He : valid_doc d = true) by (vm_compute in Ed; injection Ed as <-; vm_compute; reflexivity).
  destruct (position_class d (get_insertion_index 0 30 (d_text d))) as [c|] eqn:Ec.
  2:{ vm_compute in Ed. injection Ed as <-. vm_compute in Ec. discriminate. }
  pose proof (H refute_text d 0%N 30%N c Ed He Ec) as Hm.
  vm_compute in Ed. injection Ed as <-. vm_compute in Ec. injection Ec as <-. vm_compute in Hm. discriminate.
Qed.

(* ------------------------------------------------------------------------------------------ *)
(* robustness: under an explicit well-formedness predicate on the tree, `propose` never panics  *)

(* a statement behind a Reference: its range starts at its own Reference (i_s = 0), is not empty,
   and every nested statement lies inside it *)
Fixpoint stmt_wf (s : stmt) : Prop :=
  i_s (stmt_info s) = 0 /\ 0 < i_e (stmt_info s) /\
  let child (o : option (stmt * nat)) : Prop :=
    match o with
    | Some (c, off) => off + i_e (stmt_info c) <= i_e (stmt_info s) /\ stmt_wf c
    | None => True
    end in
  match s with
  | SIf _ t e _ => child t /\ child e
  | SWhile _ b _ => child b
  | SBlock body _ =>
      (fix go (l : list (stmt * nat)) : Prop :=
         match l with
         | [] => True
         | (c, off) :: r => (off + i_e (stmt_info c) <= i_e (stmt_info s) /\ stmt_wf c) /\ go r
         end) body
  | _ => True
  end.

Definition child_wf (len : nat) (co : stmt * nat) : Prop :=
  snd co + i_e (stmt_info (fst co)) <= len /\ stmt_wf (fst co).

Lemma stmt_wf_head s : stmt_wf s -> i_s (stmt_info s) = 0 /\ 0 < i_e (stmt_info s).
Proof. destruct s; cbn [stmt_wf]; tauto. Qed.

Lemma block_wf body inf : stmt_wf (SBlock body inf) -> Forall (child_wf (i_e inf)) body.
Proof.
  cbn [stmt_wf stmt_info]. intros (_ & _ & H). induction body as [|[c off] r IH]; [constructor|].
  destruct H as [H1 H2]. constructor; [exact H1 | exact (IH H2)].
Qed.

(* the three slicing steps in front of every nested statement succeed *)
Lemma child_slices (toks : list token) c off :
  off + i_e (stmt_info c) <= length toks -> i_s (stmt_info c) = 0 -> 0 < i_e (stmt_info c) ->
  exists sl tr,
    slice_from toks off = ROk (skipn off toks) /\
    slice (skipn off toks) (info_range (stmt_info c)) = ROk sl /\ length sl = i_e (stmt_info c) /\
    info_text_range sl (stmt_info c) = ROk tr.
Proof.
  intros Hlen Hs He. set (n := i_e (stmt_info c)) in *.
  exists (firstn n (skipn off toks)).
  assert (Hl : length (firstn n (skipn off toks)) = n).
  { rewrite firstn_length, skipn_length. lia. }
  assert (Hne : firstn n (skipn off toks) <> []) by (intros E; rewrite E in Hl; cbn in Hl; lia).
  destruct (firstn n (skipn off toks)) as [|x r] eqn:Esl; [congruence|].
  assert (Hrev : exists y, hd_error (rev (x :: r)) = Some y).
  { destruct (rev (x :: r)) as [|y r'] eqn:Er; [|now exists y].
    apply (f_equal (@length token)) in Er. rewrite rev_length in Er. discriminate. }
  destruct Hrev as [y Hy].
  exists (ts x, te y). repeat split.
  - unfold slice_from. replace (Nat.ltb (length toks) off) with false by (symmetry; apply Nat.ltb_ge; lia). reflexivity.
  - unfold slice, info_range. cbn [fst snd]. rewrite Hs. fold n.
    replace (Nat.ltb n 0) with false by reflexivity.
    rewrite skipn_length. replace (Nat.ltb (length toks - off) n) with false by (symmetry; apply Nat.ltb_ge; lia).
    rewrite Nat.sub_0_r. cbn [skipn]. now rewrite Esl.
  - exact Hl.
  - unfold info_text_range, byte_range. cbn [e_s e_e]. rewrite Hs. fold n.
    replace (Nat.ltb 0 n) with true by (symmetry; apply Nat.ltb_lt; lia).
    replace (Nat.ltb (length (x :: r)) n) with false by (symmetry; apply Nat.ltb_ge; lia).
    rewrite Nat.sub_0_r. cbn [skipn]. rewrite <- Hl, firstn_all. cbn [hd_error]. rewrite Hy. reflexivity.
Qed.

Definition stmt_total (s : stmt) : Prop :=
  stmt_wf s -> forall position toks last prev_if l g,
    length toks = i_e (stmt_info s) -> exists r, complete_statement s position toks last prev_if l g = ROk r.

Lemma complete_statements_total : forall body,
  Forall (fun x => stmt_total (fst x)) body ->
  forall position toks last prev_if l g,
    Forall (child_wf (length toks)) body ->
    exists r, complete_statements body position toks last prev_if l g = ROk r.
Proof.
  induction body as [|[c off] rest IH]; intros HF position toks last prev_if l g Hw; cbn [complete_statements].
  - eexists; reflexivity.
  - inversion HF as [|? ? Hc Hrest]; subst. inversion Hw as [|? ? Hcw Hrw]; subst.
    destruct Hcw as [Hle Hwf]. cbn [fst snd] in *. destruct (stmt_wf_head c Hwf) as [Hs He].
    destruct (child_slices toks c off Hle Hs He) as (sl & tr & E1 & E2 & Hl & E3).
    rewrite E1. cbn [rbind]. rewrite E2. cbn [rbind]. rewrite E3. cbn [rbind].
    destruct (in_range tr position); [exact (Hc Hwf _ _ _ _ _ _ Hl) | exact (IH Hrest _ _ _ _ _ _ Hrw)].
Qed.

Lemma branch_total (b : option (stmt * nat)) position toks last l g (otherwise : res (option (list item))) :
  opt_stmt_P stmt_total b ->
  match b with Some (c, off) => off + i_e (stmt_info c) <= length toks /\ stmt_wf c | None => True end ->
  (exists r, otherwise = ROk r) ->
  exists r,
  match b with
  | Some (st, off) =>
      do tl <- slice_from toks off;
      do sl <- slice tl (info_range (stmt_info st));
      do tr <- info_text_range sl (stmt_info st);
      if in_range tr position then complete_statement st position sl last false l g else otherwise
  | None => otherwise
  end = ROk r.
Proof.
  intros Hb Hw Ho. destruct b as [[c off]|]; [|exact Ho]. cbn [opt_stmt_P] in Hb. destruct Hw as [Hle Hwf].
  destruct (stmt_wf_head c Hwf) as [Hs He].
  destruct (child_slices toks c off Hle Hs He) as (sl & tr & E1 & E2 & Hl & E3).
  rewrite E1. cbn [rbind]. rewrite E2. cbn [rbind]. rewrite E3. cbn [rbind].
  destruct (in_range tr position); [exact (Hb Hwf _ _ _ _ _ _ Hl) | exact Ho].
Qed.

Lemma complete_statement_total : forall s, stmt_total s.
Proof.
  induction s as [inf | v e inf | name args inf | c thn els inf IHt IHe | c b inf IHb | body inf IH | inf] using stmt_ind';
    intros Hwf position toks last prev_if l g Hlen.
  - cbn [complete_statement]. destruct (prev_if && is_rcurly (tk last)); eexists; reflexivity.
  - cbn [complete_statement]. destruct (prev_if && is_rcurly (tk last)); eexists; reflexivity.
  - cbn [complete_statement]. destruct (prev_if && is_rcurly (tk last)); eexists; reflexivity.
  - cbn [complete_statement]. destruct (prev_if && is_rcurly (tk last)); [eexists; reflexivity|].
    cbn [stmt_wf stmt_info] in Hwf. destruct Hwf as (_ & _ & Ht & He). cbn [stmt_info] in Hlen.
    apply branch_total; [exact IHt | rewrite Hlen; exact Ht |].
    apply branch_total; [exact IHe | rewrite Hlen; exact He |]. eexists; reflexivity.
  - cbn [complete_statement]. destruct (prev_if && is_rcurly (tk last)); [eexists; reflexivity|].
    cbn [stmt_wf stmt_info] in Hwf. destruct Hwf as (_ & _ & Hb). cbn [stmt_info] in Hlen.
    apply (branch_total b position toks last l g (ROk (complete_vars toks position l LParen))); [exact IHb | rewrite Hlen; exact Hb |].
    eexists; reflexivity.
  - rewrite complete_statement_block. destruct (prev_if && is_rcurly (tk last)); [eexists; reflexivity|].
    apply complete_statements_total; [exact IH|]. cbn [stmt_info] in Hlen. rewrite Hlen. exact (block_wf body inf Hwf).
  - cbn [complete_statement]. destruct (prev_if && is_rcurly (tk last)); eexists; reflexivity.
Qed.

(* ---- declarations and the document ---- *)
Lemma text_range_total (sl : list token) inf :
  i_s inf = 0 -> 0 < i_e inf -> i_e inf <= length sl -> exists tr, info_text_range sl inf = ROk tr.
Proof.
  intros Hs He Hl. unfold info_text_range, byte_range. cbn [e_s e_e]. rewrite Hs.
  replace (Nat.ltb 0 (i_e inf)) with true by (symmetry; apply Nat.ltb_lt; lia).
  replace (Nat.ltb (length sl) (i_e inf)) with false by (symmetry; apply Nat.ltb_ge; lia).
  rewrite Nat.sub_0_r. cbn [skipn].
  assert (Hn : length (firstn (i_e inf) sl) = i_e inf) by (rewrite firstn_length; lia).
  destruct (firstn (i_e inf) sl) as [|x r] eqn:E; [cbn in Hn; lia|].
  destruct (rev (x :: r)) as [|y r'] eqn:Er.
  { apply (f_equal (@length token)) in Er. rewrite rev_length in Er. discriminate. }
  cbn [hd_error]. eexists; reflexivity.
Qed.

Definition decl_cwf (toks : list token) (go : gdecl * nat) : Prop :=
  i_s (gdecl_info (fst go)) = 0 /\ 0 < i_e (gdecl_info (fst go)) /\
  snd go + i_e (gdecl_info (fst go)) <= length toks /\
  match fst go with
  | GProc pd => Forall (child_wf (i_e (pd_info pd))) (pd_stmts pd)
  | _ => True
  end.

Definition compl_wf (d : doc) : Prop := Forall (decl_cwf (d_toks d)) (pg_decls (d_ast d)).

Lemma find_decl_total toks idx : forall decls,
  Forall (decl_cwf toks) decls ->
  exists r, find_decl toks idx decls = ROk r /\ (forall go, r = Some go -> In go decls).
Proof.
  induction decls as [|[g off] rest IH]; intros HF; cbn [find_decl].
  - exists None. split; [reflexivity | discriminate].
  - inversion HF as [|? ? Hd Hr]; subst. destruct Hd as (Hs & He & Hl & _). cbn [fst snd] in *.
    unfold slice_from. replace (Nat.ltb (length toks) off) with false by (symmetry; apply Nat.ltb_ge; lia).
    cbn [rbind].
    destruct (text_range_total (skipn off toks) (gdecl_info g) Hs He) as [tr Etr]; [rewrite skipn_length; lia|].
    rewrite Etr. cbn [rbind]. destruct (in_range tr idx).
    + eexists. split; [reflexivity|]. intros go [= <-]. now left.
    + destruct (IH Hr) as (r & Er & Hin). exists r. split; [exact Er|]. intros go Hgo. right. now apply Hin.
Qed.

Lemma decl_slices toks g off :
  decl_cwf toks (g, off) ->
  slice_from toks off = ROk (skipn off toks) /\
  slice (skipn off toks) (info_range (gdecl_info g)) = ROk (firstn (i_e (gdecl_info g)) (skipn off toks)) /\
  length (firstn (i_e (gdecl_info g)) (skipn off toks)) = i_e (gdecl_info g).
Proof.
  intros (Hs & He & Hl & _). cbn [fst snd] in *. repeat split.
  - unfold slice_from. now replace (Nat.ltb (length toks) off) with false by (symmetry; apply Nat.ltb_ge; lia).
  - unfold slice, info_range. cbn [fst snd]. rewrite Hs.
    replace (Nat.ltb (i_e (gdecl_info g)) 0) with false by reflexivity.
    rewrite skipn_length.
    replace (Nat.ltb (length toks - off) (i_e (gdecl_info g))) with false by (symmetry; apply Nat.ltb_ge; lia).
    now rewrite Nat.sub_0_r.
  - rewrite firstn_length, skipn_length. lia.
Qed.

Lemma find_in {A} (f : A -> bool) (l : list A) x : find f l = Some x -> In x l.
Proof. induction l as [|a l IH]; cbn [find]; [discriminate|]. destruct (f a); [intros [= ->]; now left | right; auto]. Qed.

Lemma complete_procedure_total pd position toks g :
  length toks = i_e (pd_info pd) -> Forall (child_wf (i_e (pd_info pd))) (pd_stmts pd) ->
  exists r, complete_procedure pd position toks g = ROk r.
Proof.
  intros Hlen HF. unfold complete_procedure.
  destruct (token_before toks position) as [last|]; [|eexists; reflexivity].
  match goal with |- context [if ?c then _ else _] => destruct c end; [eexists; reflexivity|].
  assert (Hin : exists b, (match find is_real_stmt (pd_stmts pd) with
                           | Some (st, off) =>
                               do tl <- slice_from toks off;
                               do tr <- info_text_range tl (stmt_info st);
                               ROk (fst tr <=? position)%N
                           | None => ROk false
                           end) = ROk b).
  { destruct (find is_real_stmt (pd_stmts pd)) as [[st off]|] eqn:Ef; [|eexists; reflexivity].
    apply find_in in Ef. rewrite Forall_forall in HF. destruct (HF _ Ef) as [Hle Hwf]. cbn [fst snd] in *.
    destruct (stmt_wf_head st Hwf) as [Hs He].
    unfold slice_from. replace (Nat.ltb (length toks) off) with false by (symmetry; apply Nat.ltb_ge; lia).
    cbn [rbind].
    destruct (text_range_total (skipn off toks) (stmt_info st) Hs He) as [tr Etr]; [rewrite skipn_length; lia|].
    rewrite Etr. cbn [rbind]. eexists; reflexivity. }
  destruct Hin as [b Eb]. rewrite Eb. cbn [rbind]. destruct b; [|eexists; reflexivity].
  apply complete_statements_total.
  - apply Forall_forall. intros x _. apply complete_statement_total.
  - now rewrite Hlen.
Qed.

Lemma last_some_in {A} (l : list A) x : last (map Some l) None = Some x -> In x l.
Proof.
  induction l as [|a l IH]; cbn [map last]; [discriminate|].
  destruct l as [|b l']; [intros [= ->]; now left|]. intros H. right. exact (IH H).
Qed.

Theorem propose_total d line col : compl_wf d -> exists r, propose d line col = ROk r.
Proof.
  intros Hwf. unfold propose, doc_cursor.
  destruct (find_decl_total (d_toks d) (get_insertion_index line col (d_text d)) _ Hwf) as (r0 & E0 & _).
  rewrite E0. cbn [rbind c_index].
  destruct (find_decl_total (d_toks d) (correct_index (get_insertion_index line col (d_text d))) _ Hwf) as (r1 & E1 & Hin).
  rewrite E1. cbn [rbind].
  destruct r1 as [[gd off]|].
  - pose proof (Hin _ eq_refl) as Hd. unfold compl_wf in Hwf. rewrite Forall_forall in Hwf. pose proof (Hwf _ Hd) as Hc.
    destruct (decl_slices _ _ _ Hc) as (S1 & S2 & S3). rewrite S1. cbn [rbind].
    destruct gd as [td | pd | inf]; cbn [gdecl_info] in *.
    + rewrite S2. cbn [rbind]. eexists; reflexivity.
    + rewrite S2. cbn [rbind]. destruct Hc as (_ & _ & _ & Hst). cbn [fst] in Hst.
      now apply complete_procedure_total.
    + eexists; reflexivity.
  - destruct (last (map Some (pg_decls (d_ast d))) None) as [[[td | pd | inf] off]|] eqn:El; try (eexists; reflexivity).
    apply last_some_in in El. unfold compl_wf in Hwf. rewrite Forall_forall in Hwf. pose proof (Hwf _ El) as Hc.
    destruct (decl_slices _ _ _ Hc) as (S1 & S2 & S3). cbn [gdecl_info] in *. rewrite S1. cbn [rbind]. rewrite S2. cbn [rbind].
    destruct (last (map Some _) None) as [lt|]; [|eexists; reflexivity].
    destruct (is_semic (tk lt)); eexists; reflexivity.
Qed.

(* the executable predicate implies the Prop one *)
Lemma head_reflect a b rest :
  Nat.eqb a 0 && Nat.ltb 0 b && rest = true -> a = 0 /\ 0 < b /\ rest = true.
Proof.
  rewrite !andb_true_iff. intros [[H1 H2] H3]. apply Nat.eqb_eq in H1. apply Nat.ltb_lt in H2. auto.
Qed.

Lemma child_reflect (n : nat) (o : option (stmt * nat)) :
  opt_stmt_P (fun s => stmt_wf_b s = true -> stmt_wf s) o ->
  match o with Some (c, off) => Nat.leb (off + i_e (stmt_info c)) n && stmt_wf_b c | None => true end = true ->
  match o with Some (c, off) => off + i_e (stmt_info c) <= n /\ stmt_wf c | None => True end.
Proof.
  destruct o as [[c off]|]; [|intros; exact I]. cbn [opt_stmt_P]. intros IH H.
  apply andb_true_iff in H as [H1 H2]. apply Nat.leb_le in H1. split; [exact H1 | exact (IH H2)].
Qed.

Lemma stmt_wf_reflect : forall s, stmt_wf_b s = true -> stmt_wf s.
Proof.
  induction s as [inf | v e inf | name args inf | c thn els inf IHt IHe | c b inf IHb | body inf IH | inf] using stmt_ind';
    cbn [stmt_wf_b stmt_wf stmt_info]; intros H.
  - apply head_reflect in H as (H1 & H2 & _). now repeat split.
  - apply head_reflect in H as (H1 & H2 & _). now repeat split.
  - apply head_reflect in H as (H1 & H2 & _). now repeat split.
  - apply head_reflect in H as (H1 & H2 & H3). apply andb_true_iff in H3 as [Ht He].
    repeat split; try assumption; [exact (child_reflect _ thn IHt Ht) | exact (child_reflect _ els IHe He)].
  - apply head_reflect in H as (H1 & H2 & H3).
    repeat split; try assumption. exact (child_reflect _ b IHb H3).
  - apply head_reflect in H as (H1 & H2 & H3). repeat split; try assumption.
    revert H3. induction body as [|[x o] r IHr]; intros H3; [exact I|].
    inversion IH as [|? ? Hx Hr]; subst. cbn [fst] in Hx.
    rewrite !andb_true_iff in H3. destruct H3 as [[Ha Hb] Hc]. apply Nat.leb_le in Ha.
    split; [split; [exact Ha | exact (Hx Hb)] | exact (IHr Hr Hc)].
  - apply head_reflect in H as (H1 & H2 & _). now repeat split.
Qed.

Lemma compl_wf_reflect d : compl_wf_b d = true -> compl_wf d.
Proof.
  unfold compl_wf_b, compl_wf. rewrite forallb_forall, Forall_forall. intros H go Hin. specialize (H go Hin).
  unfold decl_cwf_b in H. rewrite !andb_true_iff in H. destruct H as [[[H1 H2] H3] H4].
  apply Nat.eqb_eq in H1. apply Nat.ltb_lt in H2. apply Nat.leb_le in H3.
  unfold decl_cwf. repeat split; try assumption.
  destruct (fst go) as [td | pd | inf]; try exact I.
  rewrite forallb_forall in H4. apply Forall_forall. intros co Hco. specialize (H4 co Hco).
  unfold child_wf_b in H4. apply andb_true_iff in H4 as [Ha Hb]. apply Nat.leb_le in Ha.
  split; [exact Ha | exact (stmt_wf_reflect _ Hb)].
Qed.

Theorem propose_no_panic d line col : compl_wf_b d = true -> exists r, propose d line col = ROk r.
Proof. intros H. apply propose_total. now apply compl_wf_reflect. Qed.
