(* C13 on valid programs, part 1 - facts about the tree walks of Model/Refs.v and the occurrences of
   Spec/Nav.v that hold for EVERY tree:

     A  a walk under a shift-invariant test f returns the walk under the always-true test, filtered by f
        ([find_procs_filter], [find_types_filter], [vars_of_proc_filter]); hence the identifiers that
        find_types / find_procs / find_vars collect are the identifiers of the occurrences of
        Spec/Nav.v selected by role class, name (and procedure), in the same order
        ([occs_types], [occs_procs], [occs_vars_decl]);
     B  every occurrence of Spec/Nav.v is an occurrence of Proofs/HoverProofs.v ([program_occs]) with
        the scope its role prescribes, header occurrences in the header part, calls and variables in
        the statement part ([link_decl_type], [link_decl_proc]);
     I  on a tree whose identifier nodes have non-empty ranges (Proofs/RangeProofsIdent.v: every parser
        output) every occurrence's identifier has a non-empty range ([occs_idok]). *)
From Coq Require Import PeanoNat Lia Bool List.
From Spl Require Import Model.Refs Proofs.TypingProofs Proofs.HoverProofs Proofs.RangeProofsIdent.
From Spl Require Import Proofs.HoverValid.
From Spl Require Import Proofs.GotoProofs Proofs.RefsProofs Spec.Nav.
Import ListNotations.
Local Open Scope nat_scope.

(* ---------------------------------------------------------------------------------------- *)
(* lists *)

Lemma filter_flat_map {A B} (f : B -> bool) (g : A -> list B) l :
  filter f (flat_map g l) = flat_map (fun x => filter f (g x)) l.
Proof. induction l as [|x l IH]; [reflexivity|]. cbn [flat_map]. now rewrite filter_app, IH. Qed.

Lemma flat_map_ext_in {A B} (f g : A -> list B) l : (forall x, In x l -> f x = g x) -> flat_map f l = flat_map g l.
Proof.
  induction l as [|x l IH]; intros H; [reflexivity|]. cbn [flat_map].
  rewrite (H x (or_introl eq_refl)), IH; [reflexivity|]. intros y Hy. apply H. now right.
Qed.

Lemma map_flat_map {A B C} (h : B -> C) (g : A -> list B) l : map h (flat_map g l) = flat_map (fun x => map h (g x)) l.
Proof. induction l as [|x l IH]; [reflexivity|]. cbn [flat_map]. now rewrite map_app, IH. Qed.

Lemma filter_true {A} (l : list A) : filter (fun _ => true) l = l.
Proof. induction l as [|x l IH]; [reflexivity|]. cbn [filter]. now rewrite IH. Qed.

Lemma filter_false {A} (l : list A) : filter (fun _ => false) l = [].
Proof. induction l as [|x l IH]; [reflexivity|]. exact IH. Qed.

(* the anonymous fix of the block cases is a flat_map *)
Lemma block_go {B} (W : stmt -> list B) (sh : list B -> nat -> list B) (body : list (stmt * nat)) :
  (fix go (l : list (stmt * nat)) : list B :=
     match l with [] => [] | (x, off) :: r => sh (W x) off ++ go r end) body
  = flat_map (fun x => sh (W (fst x)) (snd x)) body.
Proof. induction body as [|[x off] r IH]; [reflexivity|]. cbn [flat_map fst snd]. now rewrite IH. Qed.

(* ---------------------------------------------------------------------------------------- *)
(* A: walk f = filter f (walk all)                                                            *)
Section Filter.
Variable f : ident -> bool.
Hypothesis f_shift : forall i off, f (shift_ident i off) = f i.

Definition flt (a b : list ident) : Prop := a = filter f b.

Lemma flt_nil : flt [] [].
Proof. reflexivity. Qed.

Lemma flt_app a a' b b' : flt a a' -> flt b b' -> flt (a ++ b) (a' ++ b').
Proof. unfold flt. intros -> ->. now rewrite filter_app. Qed.

Lemma filter_shift l off : filter f (shift_idents l off) = shift_idents (filter f l) off.
Proof.
  unfold shift_idents. induction l as [|i l IH]; [reflexivity|]. cbn [map filter]. rewrite f_shift, IH.
  destruct (f i); reflexivity.
Qed.

Lemma flt_shift a a' off : flt a a' -> flt (shift_idents a off) (shift_idents a' off).
Proof. unfold flt. intros ->. now rewrite filter_shift. Qed.

Lemma flt_test i : flt (if f i then [i] else []) (if all i then [i] else []).
Proof. unfold flt, all. cbn [filter]. destruct (f i); reflexivity. Qed.

Lemma flt_test_shift i off : flt (if f i then [shift_ident i off] else []) (if all i then [shift_ident i off] else []).
Proof. unfold flt, all. cbn [filter]. rewrite f_shift. destruct (f i); reflexivity. Qed.

Lemma flt_filter l : flt (filter f l) (filter all l).
Proof. unfold flt, all. now rewrite filter_true. Qed.

Lemma flt_flat_map {A} (F G : A -> list ident) l :
  (forall x, In x l -> flt (F x) (G x)) -> flt (flat_map F l) (flat_map G l).
Proof. unfold flt. intros H. rewrite filter_flat_map. now apply flat_map_ext_in. Qed.

Lemma flt_opt_stmt (W : (ident -> bool) -> stmt -> list ident) (r : option (stmt * nat)) :
  (forall x off, r = Some (x, off) -> flt (W f x) (W all x)) ->
  flt (match r with Some (x, off) => shift_idents (W f x) off | None => [] end)
      (match r with Some (x, off) => shift_idents (W all x) off | None => [] end).
Proof. destruct r as [[x off]|]; intros H; [apply flt_shift; eauto | apply flt_nil]. Qed.

Lemma flt_block (W : (ident -> bool) -> stmt -> list ident) (body : list (stmt * nat)) :
  (forall x off, In (x, off) body -> flt (W f x) (W all x)) ->
  flt ((fix go (l : list (stmt * nat)) : list ident :=
          match l with [] => [] | (x, off) :: r => shift_idents (W f x) off ++ go r end) body)
      ((fix go (l : list (stmt * nat)) : list ident :=
          match l with [] => [] | (x, off) :: r => shift_idents (W all x) off ++ go r end) body).
Proof.
  induction body as [|[x off] r IH]; intros H; [apply flt_nil|].
  apply flt_app; [apply flt_shift, (H x off); now left|]. apply IH. intros; eapply H; right; eauto.
Qed.

Lemma procs_in_stmt_flt s : flt (procs_in_stmt f s) (procs_in_stmt all s).
Proof.
  induction s as [inf|v e inf|n a inf|c t e inf IHt IHe|c b inf IHb|body inf IHbody|inf] using RefsProofs.stmt_ind';
    cbn [procs_in_stmt]; try apply flt_nil.
  - apply flt_test.
  - apply flt_app; apply (flt_opt_stmt procs_in_stmt); auto.
  - apply (flt_opt_stmt procs_in_stmt); auto.
  - apply (flt_block procs_in_stmt); auto.
Qed.

Lemma procs_in_stmts_flt l : flt (procs_in_stmts f l) (procs_in_stmts all l).
Proof. apply flt_flat_map. intros x _. apply flt_shift, procs_in_stmt_flt. Qed.

Lemma types_in_params_flt l : flt (types_in_params f l) (types_in_params all l).
Proof.
  apply flt_flat_map. intros [pd off] _. cbn [fst snd].
  destruct pd as [? ? ? [[te toff]|] ?|?]; try apply flt_nil. apply flt_filter.
Qed.

Lemma types_in_vars_flt l : flt (types_in_vars f l) (types_in_vars all l).
Proof.
  apply flt_flat_map. intros [vd off] _. cbn [fst snd].
  destruct vd as [? ? [[te toff]|] ?|?]; try apply flt_nil. apply flt_filter.
Qed.

Lemma vars_flt :
  (forall v, flt (vars_in_variable f v) (vars_in_variable all v))
  /\ (forall e, flt (vars_in_expr f e) (vars_in_expr all e)).
Proof.
  apply var_expr_ind; intros; cbn [vars_in_variable vars_in_expr]; try apply flt_nil; auto.
  - apply flt_test.
  - apply flt_app; [assumption | apply flt_nil].
  - apply flt_app; [assumption | now apply flt_shift].
  - now apply flt_app.
Qed.

Lemma vars_in_oexpr_flt o : flt (vars_in_oexpr f o) (vars_in_oexpr all o).
Proof. destruct o as [[e off]|]; [apply flt_shift, vars_flt | apply flt_nil]. Qed.

Lemma vars_in_stmt_flt s : flt (vars_in_stmt f s) (vars_in_stmt all s).
Proof.
  induction s as [inf|v e inf|n a inf|c t e inf IHt IHe|c b inf IHb|body inf IHbody|inf] using RefsProofs.stmt_ind';
    cbn [vars_in_stmt]; try apply flt_nil.
  - apply flt_app; [apply vars_flt | apply vars_in_oexpr_flt].
  - apply flt_flat_map. intros x _. apply flt_shift, vars_flt.
  - apply flt_app; [apply vars_in_oexpr_flt|]. apply flt_app; apply (flt_opt_stmt vars_in_stmt); auto.
  - apply flt_app; [apply vars_in_oexpr_flt|]. apply (flt_opt_stmt vars_in_stmt); auto.
  - apply (flt_block vars_in_stmt); auto.
Qed.

Lemma vars_in_stmts_flt l : flt (vars_in_stmts f l) (vars_in_stmts all l).
Proof. apply flt_flat_map. intros x _. apply flt_shift, vars_in_stmt_flt. Qed.

Lemma var_names_in_params_flt l : flt (var_names_in_params f l) (var_names_in_params all l).
Proof.
  apply flt_flat_map. intros [pd off] _. cbn [fst snd].
  destruct pd as [? ? [i|] ? ?|?]; try apply flt_nil. apply flt_test_shift.
Qed.

Lemma var_names_in_vars_flt l : flt (var_names_in_vars f l) (var_names_in_vars all l).
Proof.
  apply flt_flat_map. intros [vd off] _. cbn [fst snd].
  destruct vd as [? [i|] ? ?|?]; try apply flt_nil. apply flt_test_shift.
Qed.

End Filter.

(* ---------------------------------------------------------------------------------------- *)
(* A, continued: selecting occurrences by role, identifier test and procedure                 *)

(* the three classes of entities *)
Inductive rclass := CType | CProc | CLocal.
Definition cls (r : role) : rclass :=
  match r with
  | RTypeDecl | RTypeUse => CType
  | RProcDecl | RCall => CProc
  | RParamDecl | RVarDecl | RVarUse => CLocal
  end.
Definition rclass_eqb (a b : rclass) : bool :=
  match a, b with CType, CType | CProc, CProc | CLocal, CLocal => true | _, _ => false end.
Definition is_decl (r : role) : bool :=
  match r with RTypeDecl | RProcDecl | RParamDecl | RVarDecl => true | _ => false end.

Definition sel (R : role -> bool) (F : ident -> bool) (Q : option text -> bool) (x : occ) : bool :=
  R (o_role x) && F (o_id x) && Q (o_proc x).

Section Select.
Variables (R : role -> bool) (F : ident -> bool) (Q : option text -> bool).
Hypothesis F_shift : forall i off, F (shift_ident i off) = F i.

Lemma sel_mk_occs off r p l :
  map o_id (filter (sel R F Q) (mk_occs off r p l)) = if R r && Q p then shift_idents (filter F l) off else [].
Proof.
  unfold mk_occs, sel, shift_idents. induction l as [|i l IH]; [destruct (R r && Q p); reflexivity|].
  cbn [map filter o_role o_id o_proc]. rewrite F_shift.
  destruct (R r), (Q p), (F i); cbn [andb map] in *; rewrite ?IH; reflexivity.
Qed.

Lemma sel_param_occs off p ps :
  map o_id (filter (sel R F Q) (param_occs off p ps))
  = if R RParamDecl && Q p then shift_idents (var_names_in_params F ps) off else [].
Proof.
  unfold param_occs, var_names_in_params, sel, shift_idents.
  induction ps as [|[pd o] ps IH]; [destruct (R RParamDecl && Q p); reflexivity|].
  cbn [flat_map fst snd]. rewrite filter_app, !map_app, IH.
  destruct pd as [doc rf [i|] ty inf | inf]; cbn [filter map app o_role o_id o_proc];
    try (destruct (R RParamDecl && Q p); reflexivity).
  rewrite !F_shift. destruct (R RParamDecl), (Q p), (F i); reflexivity.
Qed.

Lemma sel_var_occs off p vs :
  map o_id (filter (sel R F Q) (var_occs off p vs))
  = if R RVarDecl && Q p then shift_idents (var_names_in_vars F vs) off else [].
Proof.
  unfold var_occs, var_names_in_vars, sel, shift_idents.
  induction vs as [|[vd o] vs IH]; [destruct (R RVarDecl && Q p); reflexivity|].
  cbn [flat_map fst snd]. rewrite filter_app, !map_app, IH.
  destruct vd as [doc [i|] ty inf | inf]; cbn [filter map app o_role o_id o_proc];
    try (destruct (R RVarDecl && Q p); reflexivity).
  rewrite !F_shift. destruct (R RVarDecl), (Q p), (F i); reflexivity.
Qed.
End Select.

Definition is_type_role (r : role) : bool := rclass_eqb (cls r) CType.
Definition is_proc_role (r : role) : bool := rclass_eqb (cls r) CProc.
Definition is_local_role (r : role) : bool := rclass_eqb (cls r) CLocal.
Definition any_proc (p : option text) : bool := true.

Lemma shift_idents_app a b off : shift_idents (a ++ b) off = shift_idents a off ++ shift_idents b off.
Proof. apply map_app. Qed.

Lemma filter_opt_list (F : ident -> bool) (o : option ident) :
  filter F (opt_list o) = match o with Some i => if F i then [i] else [] | None => [] end.
Proof. destruct o as [i|]; [|reflexivity]. cbn [opt_list filter]. destruct (F i); reflexivity. Qed.

(* find_types: the type-class occurrences named n, in order *)
Theorem occs_types n p :
  map o_id (filter (sel is_type_role (named n) any_proc) (occurrences p)) = find_types n p.
Proof.
  unfold occurrences, find_types, find_types_f. rewrite filter_flat_map, map_flat_map. apply flat_map_ext_in.
  intros [g off] _. unfold occs_of_decl. cbn [fst snd].
  pose proof (named_shift n) as Hs.
  destruct g as [td|pd|inf]; [| |reflexivity].
  - rewrite filter_app, map_app, (sel_mk_occs _ _ _ Hs). cbn [is_type_role cls rclass_eqb any_proc andb].
    rewrite shift_idents_app. f_equal.
    + destruct (td_name td) as [i|]; [|reflexivity]. unfold sel. cbn [filter map o_role o_id o_proc is_type_role cls rclass_eqb any_proc andb].
      rewrite Hs, andb_true_r. destruct (named n i); reflexivity.
    + destruct (td_ty td) as [[te toff]|]; reflexivity.
  - rewrite !filter_app, !map_app, !(sel_mk_occs _ _ _ Hs), (sel_param_occs _ _ _ Hs), (sel_var_occs _ _ _ Hs).
    cbn [is_type_role cls rclass_eqb any_proc andb app]. rewrite app_nil_r, shift_idents_app.
    f_equal; f_equal; symmetry; [apply types_in_params_flt | apply types_in_vars_flt]; exact Hs.
Qed.

(* find_procs: the procedure-class occurrences named n, in order *)
Theorem occs_procs n p :
  map o_id (filter (sel is_proc_role (named n) any_proc) (occurrences p)) = find_procs n p.
Proof.
  unfold occurrences, find_procs, find_procs_f. rewrite filter_flat_map, map_flat_map. apply flat_map_ext_in.
  intros [g off] _. unfold occs_of_decl. cbn [fst snd].
  pose proof (named_shift n) as Hs.
  destruct g as [td|pd|inf]; [| |reflexivity].
  - rewrite filter_app, map_app, (sel_mk_occs _ _ _ Hs). cbn [is_proc_role cls rclass_eqb any_proc andb].
    destruct (td_name td) as [i|]; reflexivity.
  - rewrite !filter_app, !map_app, !(sel_mk_occs _ _ _ Hs), (sel_param_occs _ _ _ Hs), (sel_var_occs _ _ _ Hs).
    cbn [is_proc_role cls rclass_eqb any_proc andb app]. rewrite app_nil_r, shift_idents_app, filter_opt_list.
    f_equal. f_equal. symmetry. apply procs_in_stmts_flt. exact Hs.
Qed.

(* find_vars: the local-class occurrences named n of one procedure declaration, in order *)
Lemma occs_vars_decl n Q pd off :
  map o_id (filter (sel is_local_role (named n) Q) (occs_of_decl (GProc pd, off)))
  = if Q (option_map id_val (pd_name pd)) then vars_of_proc (named n) pd off else [].
Proof.
  unfold occs_of_decl, vars_of_proc. cbn [fst snd]. pose proof (named_shift n) as Hs.
  rewrite !filter_app, !map_app, !(sel_mk_occs _ _ _ Hs), (sel_param_occs _ _ _ Hs), (sel_var_occs _ _ _ Hs).
  cbn [is_local_role cls rclass_eqb andb app].
  destruct (Q (option_map id_val (pd_name pd))); [|reflexivity].
  rewrite !shift_idents_app. f_equal. f_equal. f_equal. symmetry. apply vars_in_stmts_flt. exact Hs.
Qed.

Lemma occs_vars_type n Q td off :
  filter (sel is_local_role (named n) Q) (occs_of_decl (GType td, off)) = [].
Proof.
  unfold occs_of_decl. cbn [fst snd]. rewrite filter_app.
  replace (filter _ (mk_occs off RTypeUse None _)) with (@nil occ).
  - destruct (td_name td); reflexivity.
  - symmetry. unfold mk_occs. induction (match td_ty td with Some (te, toff) => opt_list (ident_in_texpr te toff) | None => [] end) as [|i l IH];
      [reflexivity | exact IH].
Qed.

(* ---------------------------------------------------------------------------------------- *)
(* B: every occurrence of Spec/Nav.v is an occurrence of Proofs/HoverProofs.v                  *)

Lemma id_tok_shift off i o : id_tok off (shift_ident i o) = id_tok (off + o) i.
Proof. unfold id_tok, shift_ident, shift_info. cbn [id_info i_e]. lia. Qed.

Lemma in_shift i l o : In i (shift_idents l o) <-> exists j, i = shift_ident j o /\ In j l.
Proof. unfold shift_idents. rewrite in_map_iff. split; intros [j [H1 H2]]; exists j; split; auto. Qed.

Definition hocc (off : nat) (sc : occ_scope) (i : ident) : HoverProofs.occ := (id_tok off i, id_val i, sc).

Lemma hocc_shift off sc j o : hocc off sc (shift_ident j o) = hocc (off + o) sc j.
Proof. unfold hocc. now rewrite id_tok_shift. Qed.

Lemma link_vars :
  (forall v off i, In i (vars_in_variable all v) -> In (hocc off ScLocal i) (occs_var off v))
  /\ (forall e off i, In i (vars_in_expr all e) -> In (hocc off ScLocal i) (occs_expr off e)).
Proof.
  apply var_expr_ind; cbn [vars_in_variable vars_in_expr occs_var occs_expr]; try (intros; contradiction); auto.
  - intros i0 off i [<-|[]]. now left.
  - intros a inf IH off i H. rewrite app_nil_r in *. auto.
  - intros a e o inf IHa IHe off i H. apply in_or_app. apply in_app_or in H as [H|H]; [left; auto|right].
    apply in_shift in H as [j [-> Hj]]. rewrite hocc_shift. auto.
  - intros op l r inf IHl IHr off i H. apply in_or_app. apply in_app_or in H as [H|H]; auto.
Qed.

Lemma link_oexpr o off i : In i (vars_in_oexpr all o) -> In (hocc off ScLocal i) (occs_opt_expr off o).
Proof.
  destruct o as [[e oe]|]; [|contradiction]. cbn [vars_in_oexpr occs_opt_expr]. intros H.
  apply in_shift in H as [j [-> Hj]]. rewrite hocc_shift. now apply link_vars.
Qed.

Lemma occs_stmt_block' off body inf :
  occs_stmt off (SBlock body inf) = flat_map (fun x => occs_stmt (off + snd x) (fst x)) body.
Proof. exact (occs_stmt_block off body inf). Qed.

Lemma link_stmt s : forall off i,
  (In i (vars_in_stmt all s) -> In (hocc off ScLocal i) (occs_stmt off s))
  /\ (In i (procs_in_stmt all s) -> In (hocc off ScGlobal i) (occs_stmt off s)).
Proof.
  induction s as [inf|v e inf|n a inf|c t e inf IHt IHe|c b inf IHb|body inf IHbody|inf] using RefsProofs.stmt_ind';
    intros off i; try (split; intros []).
  - (* assign *) cbn [vars_in_stmt procs_in_stmt occs_stmt]. split; [|intros []]. intros H. apply in_or_app.
    apply in_app_or in H as [H|H]; [left; now apply link_vars | right; now apply link_oexpr].
  - (* call *) cbn [vars_in_stmt procs_in_stmt occs_stmt]. split.
    + intros H. right. apply in_flat_map in H as [x [Hx H]]. apply in_flat_map. exists x. split; [exact Hx|].
      apply in_shift in H as [j [-> Hj]]. rewrite hocc_shift. now apply link_vars.
    + intros [<-|[]]. now left.
  - (* if *) cbn [vars_in_stmt procs_in_stmt occs_stmt]. split; intros H.
    + apply in_or_app. apply in_app_or in H as [H|H]; [left; now apply link_oexpr | right].
      apply in_or_app. apply in_app_or in H as [H|H]; [left|right].
      * destruct t as [[x o]|]; [|contradiction]. apply in_shift in H as [j [-> Hj]]. rewrite hocc_shift. now apply (IHt x o eq_refl).
      * destruct e as [[x o]|]; [|contradiction]. apply in_shift in H as [j [-> Hj]]. rewrite hocc_shift. now apply (IHe x o eq_refl).
    + apply in_or_app. right. apply in_or_app. apply in_app_or in H as [H|H]; [left|right].
      * destruct t as [[x o]|]; [|contradiction]. apply in_shift in H as [j [-> Hj]]. rewrite hocc_shift. now apply (IHt x o eq_refl).
      * destruct e as [[x o]|]; [|contradiction]. apply in_shift in H as [j [-> Hj]]. rewrite hocc_shift. now apply (IHe x o eq_refl).
  - (* while *) cbn [vars_in_stmt procs_in_stmt occs_stmt]. split; intros H.
    + apply in_or_app. apply in_app_or in H as [H|H]; [left; now apply link_oexpr | right].
      destruct b as [[x o]|]; [|contradiction]. apply in_shift in H as [j [-> Hj]]. rewrite hocc_shift. now apply (IHb x o eq_refl).
    + apply in_or_app. right.
      destruct b as [[x o]|]; [|contradiction]. apply in_shift in H as [j [-> Hj]]. rewrite hocc_shift. now apply (IHb x o eq_refl).
  - (* block *) rewrite occs_stmt_block'. cbn [vars_in_stmt procs_in_stmt].
    rewrite (block_go (vars_in_stmt all) shift_idents), (block_go (procs_in_stmt all) shift_idents).
    split; intros H; apply in_flat_map in H as [[x o] [Hx H]]; apply in_flat_map; exists (x, o); (split; [exact Hx|]);
      cbn [fst snd] in *; apply in_shift in H as [j [-> Hj]]; rewrite hocc_shift; now apply (IHbody x o Hx).
Qed.

Lemma link_stmts l off i :
  (In i (vars_in_stmts all l) -> In (hocc off ScLocal i) (occs_stmts off l))
  /\ (In i (procs_in_stmts all l) -> In (hocc off ScGlobal i) (occs_stmts off l)).
Proof.
  unfold vars_in_stmts, procs_in_stmts, occs_stmts.
  split; intros H; apply in_flat_map in H as [x [Hx H]]; apply in_flat_map; exists x; (split; [exact Hx|]);
    apply in_shift in H as [j [-> Hj]]; rewrite hocc_shift; now apply link_stmt.
Qed.

Lemma link_texpr : forall te toff off i,
  ident_in_texpr te toff = Some i -> In (hocc off ScGlobal i) (occs_texpr (off + toff) te).
Proof.
  induction te as [i0 | sz inf | sz b bo inf IH] using texpr_ind'; intros toff off i H.
  - cbn [ident_in_texpr] in H. injection H as <-. cbn [occs_texpr]. left. now rewrite hocc_shift.
  - discriminate H.
  - cbn [ident_in_texpr occs_texpr] in *.
    destruct (ident_in_texpr b bo) as [j|] eqn:E; [|discriminate]. injection H as <-. rewrite hocc_shift.
    apply (IH bo (off + toff) j E).
Qed.

Lemma link_otexpr (ty : option (typeexpr * nat)) F off i :
  In i (match ty with Some (te, toff) => filter F (opt_list (ident_in_texpr te toff)) | None => [] end) ->
  In (hocc off ScGlobal i) (occs_opt_texpr off ty).
Proof.
  destruct ty as [[te toff]|]; [|contradiction]. intros H. apply filter_In in H as [H _].
  destruct (ident_in_texpr te toff) as [j|] eqn:E; [|contradiction]. destruct H as [<-|[]].
  cbn [occs_opt_texpr]. now apply link_texpr.
Qed.

Definition sc_of_role (r : role) : occ_scope :=
  match r with RTypeDecl | RProcDecl | RTypeUse | RCall => ScGlobal | _ => ScLocal end.

(* the occurrence of Proofs/HoverProofs.v that an occurrence of Spec/Nav.v is *)
Definition hocc_of (o : occ) : HoverProofs.occ := (o_tok o, o_name o, sc_of_role (o_role o)).

Lemma hocc_of_eq o : hocc_of o = hocc 0 (sc_of_role (o_role o)) (o_id o).
Proof. unfold hocc_of, hocc, o_tok, o_name, id_tok. reflexivity. Qed.

Lemma in_mk_occs o off r p l : In o (mk_occs off r p l) ->
  o_role o = r /\ o_proc o = p /\ exists i, In i l /\ o_id o = shift_ident i off.
Proof. unfold mk_occs. intros H. apply in_map_iff in H as [i [<- Hi]]. cbn. eauto. Qed.

Lemma link_params_types ps D i :
  In i (types_in_params all ps) -> In (hocc D ScGlobal i) (occs_params D ps).
Proof.
  unfold types_in_params, occs_params. intros H. apply in_flat_map in H as [[pd o] [Hx H]]. apply in_flat_map.
  exists (pd, o). split; [exact Hx|]. cbn [fst snd] in *. destruct pd as [doc rf nm [[te toff]|] inf | inf]; try contradiction.
  apply filter_In in H as [H _]. destruct (ident_in_texpr te toff) as [j|] eqn:E; [|contradiction].
  destruct H as [<-|[]]. cbn [option_map occs_paramdecl]. apply in_or_app. right. rewrite hocc_shift. cbn [occs_opt_texpr].
  now apply link_texpr.
Qed.

Lemma link_vars_types vs D i :
  In i (types_in_vars all vs) -> In (hocc D ScGlobal i) (occs_vars D vs).
Proof.
  unfold types_in_vars, occs_vars. intros H. apply in_flat_map in H as [[vd o] [Hx H]]. apply in_flat_map.
  exists (vd, o). split; [exact Hx|]. cbn [fst snd] in *. destruct vd as [doc nm [[te toff]|] inf | inf]; try contradiction.
  apply filter_In in H as [H _]. destruct (ident_in_texpr te toff) as [j|] eqn:E; [|contradiction].
  destruct H as [<-|[]]. cbn [option_map occs_vardecl]. apply in_or_app. right. rewrite hocc_shift. cbn [occs_opt_texpr].
  now apply link_texpr.
Qed.

Lemma link_param_occs D p ps o : In o (param_occs D p ps) ->
  o_role o = RParamDecl /\ o_proc o = p /\ In (hocc 0 ScLocal (o_id o)) (occs_params D ps)
  /\ exists i, In i (var_names_in_params all ps) /\ o_id o = shift_ident i D.
Proof.
  unfold param_occs, occs_params, var_names_in_params. intros H. apply in_flat_map in H as [[pd off] [Hx H]].
  cbn [fst snd] in H. destruct pd as [doc rf [i|] ty inf | inf]; try contradiction. destruct H as [<-|[]].
  cbn [o_role o_proc o_id]. repeat split.
  - apply in_flat_map. exists (PValid doc rf (Some i) ty inf, off). split; [exact Hx|]. cbn [fst snd occs_paramdecl occs_name].
    left. rewrite !hocc_shift. reflexivity.
  - exists (shift_ident i off). split; [|reflexivity]. apply in_flat_map. exists (PValid doc rf (Some i) ty inf, off).
    split; [exact Hx|]. now left.
Qed.

Lemma link_var_occs D p vs o : In o (var_occs D p vs) ->
  o_role o = RVarDecl /\ o_proc o = p /\ In (hocc 0 ScLocal (o_id o)) (occs_vars D vs)
  /\ exists i, In i (var_names_in_vars all vs) /\ o_id o = shift_ident i D.
Proof.
  unfold var_occs, occs_vars, var_names_in_vars. intros H. apply in_flat_map in H as [[vd off] [Hx H]].
  cbn [fst snd] in H. destruct vd as [doc [i|] ty inf | inf]; try contradiction. destruct H as [<-|[]].
  cbn [o_role o_proc o_id]. repeat split.
  - apply in_flat_map. exists (VValid doc (Some i) ty inf, off). split; [exact Hx|]. cbn [fst snd occs_vardecl occs_name].
    left. rewrite !hocc_shift. reflexivity.
  - exists (shift_ident i off). split; [|reflexivity]. apply in_flat_map. exists (VValid doc (Some i) ty inf, off).
    split; [exact Hx|]. now left.
Qed.

(* the pieces of the occurrences of a procedure declaration *)
Inductive proc_piece (pd : procdecl) (D : nat) (o : occ) : Prop :=
| PP_name i : o_role o = RProcDecl -> pd_name pd = Some i -> o_id o = shift_ident i D -> proc_piece pd D o
| PP_param i : o_role o = RParamDecl -> In i (var_names_in_params all (pd_params pd)) -> o_id o = shift_ident i D ->
    In (hocc_of o) (occs_params D (pd_params pd)) -> proc_piece pd D o
| PP_ptype i : o_role o = RTypeUse -> In i (types_in_params all (pd_params pd)) -> o_id o = shift_ident i D ->
    In (hocc_of o) (occs_params D (pd_params pd)) -> proc_piece pd D o
| PP_var i : o_role o = RVarDecl -> In i (var_names_in_vars all (pd_vars pd)) -> o_id o = shift_ident i D ->
    In (hocc_of o) (occs_vars D (pd_vars pd)) -> proc_piece pd D o
| PP_vtype i : o_role o = RTypeUse -> In i (types_in_vars all (pd_vars pd)) -> o_id o = shift_ident i D ->
    In (hocc_of o) (occs_vars D (pd_vars pd)) -> proc_piece pd D o
| PP_call i : o_role o = RCall -> In i (procs_in_stmts all (pd_stmts pd)) -> o_id o = shift_ident i D ->
    In (hocc_of o) (occs_stmts D (pd_stmts pd)) -> proc_piece pd D o
| PP_use i : o_role o = RVarUse -> In i (vars_in_stmts all (pd_stmts pd)) -> o_id o = shift_ident i D ->
    In (hocc_of o) (occs_stmts D (pd_stmts pd)) -> proc_piece pd D o.

Theorem link_decl_proc pd D o : In o (occs_of_decl (GProc pd, D)) ->
  o_proc o = option_map id_val (pd_name pd) /\ proc_piece pd D o.
Proof.
  unfold occs_of_decl. cbn [fst snd]. intros H.
  repeat (apply in_app_or in H as [H|H]).
  - apply in_mk_occs in H as [Hr [Hp [i [Hi Ho]]]]. split; [exact Hp|].
    destruct (pd_name pd) as [n|] eqn:En; [|contradiction]. destruct Hi as [<-|[]]. now apply (PP_name _ _ _ n).
  - apply link_param_occs in H as [Hr [Hp [Hin [i [Hi Ho]]]]]. split; [exact Hp|].
    apply (PP_param _ _ _ i); auto. now rewrite hocc_of_eq, Hr.
  - apply in_mk_occs in H as [Hr [Hp [i [Hi Ho]]]]. split; [exact Hp|]. apply (PP_ptype _ _ _ i); auto.
    rewrite hocc_of_eq, Hr, Ho, hocc_shift. now apply link_params_types.
  - apply link_var_occs in H as [Hr [Hp [Hin [i [Hi Ho]]]]]. split; [exact Hp|].
    apply (PP_var _ _ _ i); auto. now rewrite hocc_of_eq, Hr.
  - apply in_mk_occs in H as [Hr [Hp [i [Hi Ho]]]]. split; [exact Hp|]. apply (PP_vtype _ _ _ i); auto.
    rewrite hocc_of_eq, Hr, Ho, hocc_shift. now apply link_vars_types.
  - apply in_mk_occs in H as [Hr [Hp [i [Hi Ho]]]]. split; [exact Hp|]. apply (PP_call _ _ _ i); auto.
    rewrite hocc_of_eq, Hr, Ho, hocc_shift. now apply link_stmts.
  - apply in_mk_occs in H as [Hr [Hp [i [Hi Ho]]]]. split; [exact Hp|]. apply (PP_use _ _ _ i); auto.
    rewrite hocc_of_eq, Hr, Ho, hocc_shift. now apply link_stmts.
Qed.

Inductive type_piece (td : typedecl) (D : nat) (o : occ) : Prop :=
| TP_name i : o_role o = RTypeDecl -> td_name td = Some i -> o_id o = shift_ident i D -> type_piece td D o
| TP_use i te toff : o_role o = RTypeUse -> td_ty td = Some (te, toff) -> ident_in_texpr te toff = Some i ->
    o_id o = shift_ident i D -> In (hocc_of o) (occs_opt_texpr D (td_ty td)) -> type_piece td D o.

Theorem link_decl_type td D o : In o (occs_of_decl (GType td, D)) -> o_proc o = None /\ type_piece td D o.
Proof.
  unfold occs_of_decl. cbn [fst snd]. intros H. apply in_app_or in H as [H|H].
  - destruct (td_name td) as [n|] eqn:En; [|contradiction]. destruct H as [<-|[]]. split; [reflexivity|].
    now apply (TP_name _ _ _ n).
  - apply in_mk_occs in H as [Hr [Hp [i [Hi Ho]]]]. split; [exact Hp|].
    destruct (td_ty td) as [[te toff]|] eqn:Et; [|contradiction].
    destruct (ident_in_texpr te toff) as [j|] eqn:E; [|contradiction]. destruct Hi as [<-|[]].
    apply (TP_use _ _ _ j te toff); auto. rewrite hocc_of_eq, Hr, Ho, hocc_shift, Et. cbn [occs_opt_texpr Nat.add sc_of_role]. now apply link_texpr.
Qed.

(* ---------------------------------------------------------------------------------------- *)
(* I: identifiers with non-empty ranges                                                       *)

Lemma IdOk_shift i off : IdOk i -> IdOk (shift_ident i off).
Proof. unfold IdOk, shift_ident, shift_info. cbn [id_info i_s i_e]. lia. Qed.

Lemma idok_shifts (l : list ident) off : (forall i, In i l -> IdOk i) -> forall i, In i (shift_idents l off) -> IdOk i.
Proof. intros H i Hi. apply in_shift in Hi as [j [-> Hj]]. apply IdOk_shift. auto. Qed.

Lemma idok_vars :
  (forall v, VarOk v -> forall i, In i (vars_in_variable all v) -> IdOk i)
  /\ (forall e, ExprOk e -> forall i, In i (vars_in_expr all e) -> IdOk i).
Proof.
  apply var_expr_ind; cbn [vars_in_variable vars_in_expr VarOk ExprOk]; try (intros; contradiction); auto.
  - intros i0 H i [<-|[]]. exact H.
  - intros a inf IH [Ha _] i H. rewrite app_nil_r in H. auto.
  - intros a e o inf IHa IHe [Ha He] i H. apply in_app_or in H as [H|H]; [exact (IHa Ha i H)|]. exact (idok_shifts _ _ (IHe He) i H).
  - intros op l r inf IHl IHr [Hl Hr] i H. apply in_app_or in H as [H|H]; auto.
Qed.

Lemma idok_oexpr o : OptP (RefP ExprOk) o -> forall i, In i (vars_in_oexpr all o) -> IdOk i.
Proof.
  destruct o as [[e oe]|]; [|intros _ i []]. cbn [vars_in_oexpr OptP RefP fst]. intros H. apply idok_shifts. now apply idok_vars.
Qed.

Lemma idok_stmt s : StmtOk s ->
  (forall i, In i (vars_in_stmt all s) -> IdOk i) /\ (forall i, In i (procs_in_stmt all s) -> IdOk i).
Proof.
  induction s as [inf|v e inf|n a inf|c t e inf IHt IHe|c b inf IHb|body inf IHbody|inf] using RefsProofs.stmt_ind';
    intros Hok; try (split; intros i []).
  - cbn [StmtOk vars_in_stmt procs_in_stmt] in *. destruct Hok as [Hv He]. split; [|intros i []].
    intros i H. apply in_app_or in H as [H|H]; [exact (proj1 idok_vars v Hv i H) | exact (idok_oexpr e He i H)].
  - cbn [StmtOk vars_in_stmt procs_in_stmt] in *. destruct Hok as [Hn Ha]. split.
    + intros i H. apply in_flat_map in H as [x [Hx H]]. rewrite Forall_forall in Ha. specialize (Ha x Hx).
      revert i H. apply idok_shifts. now apply idok_vars.
    + intros i [<-|[]]. exact Hn.
  - cbn [StmtOk vars_in_stmt procs_in_stmt] in *. destruct Hok as [Hc [Ht He]]. split; intros i H.
    + apply in_app_or in H as [H|H]; [exact (idok_oexpr c Hc i H)|]. apply in_app_or in H as [H|H].
      * destruct t as [[x o]|]; [|contradiction]. revert i H. apply idok_shifts. now apply (IHt x o eq_refl).
      * destruct e as [[x o]|]; [|contradiction]. revert i H. apply idok_shifts. now apply (IHe x o eq_refl).
    + apply in_app_or in H as [H|H].
      * destruct t as [[x o]|]; [|contradiction]. revert i H. apply idok_shifts. now apply (IHt x o eq_refl).
      * destruct e as [[x o]|]; [|contradiction]. revert i H. apply idok_shifts. now apply (IHe x o eq_refl).
  - cbn [StmtOk vars_in_stmt procs_in_stmt] in *. destruct Hok as [Hc Hb]. split; intros i H.
    + apply in_app_or in H as [H|H]; [exact (idok_oexpr c Hc i H)|].
      destruct b as [[x o]|]; [|contradiction]. revert i H. apply idok_shifts. now apply (IHb x o eq_refl).
    + destruct b as [[x o]|]; [|contradiction]. revert i H. apply idok_shifts. now apply (IHb x o eq_refl).
  - apply StmtOk_block in Hok. rewrite Forall_forall in Hok. cbn [vars_in_stmt procs_in_stmt].
    rewrite (block_go (vars_in_stmt all) shift_idents), (block_go (procs_in_stmt all) shift_idents).
    split; intros i H; apply in_flat_map in H as [[x o] [Hx H]]; cbn [fst snd] in H; revert i H; apply idok_shifts;
      apply (IHbody x o Hx); exact (Hok _ Hx).
Qed.

Lemma idok_stmts l : Forall (RefP StmtOk) l ->
  (forall i, In i (vars_in_stmts all l) -> IdOk i) /\ (forall i, In i (procs_in_stmts all l) -> IdOk i).
Proof.
  intros Hok. rewrite Forall_forall in Hok. unfold vars_in_stmts, procs_in_stmts.
  split; intros i H; apply in_flat_map in H as [x [Hx H]]; revert i H; apply idok_shifts; apply idok_stmt; exact (Hok _ Hx).
Qed.

Lemma idok_texpr : forall te toff i, TexprOk te -> ident_in_texpr te toff = Some i -> IdOk i.
Proof.
  induction te as [i0 | sz inf | sz b bo inf IH] using texpr_ind'; intros toff i Hok H.
  - cbn [ident_in_texpr] in H. injection H as <-. now apply IdOk_shift.
  - discriminate H.
  - cbn [ident_in_texpr TexprOk] in *. destruct (ident_in_texpr b bo) as [j|] eqn:E; [|discriminate]. injection H as <-.
    apply IdOk_shift. eapply IH; eauto.
Qed.

Lemma idok_otexpr (ty : option (typeexpr * nat)) F i : OptP (RefP TexprOk) ty ->
  In i (match ty with Some (te, toff) => filter F (opt_list (ident_in_texpr te toff)) | None => [] end) -> IdOk i.
Proof.
  destruct ty as [[te toff]|]; [|intros _ []]. cbn [OptP RefP fst]. intros Hok H. apply filter_In in H as [H _].
  destruct (ident_in_texpr te toff) as [j|] eqn:E; [|contradiction]. destruct H as [<-|[]]. eapply idok_texpr; eauto.
Qed.

Theorem occs_idok p : IdentsNonEmpty p -> forall o, In o (occurrences p) -> IdOk (o_id o).
Proof.
  unfold IdentsNonEmpty, occurrences. intros Hok o H. apply in_flat_map in H as [[g D] [Hg H]].
  rewrite Forall_forall in Hok. specialize (Hok _ Hg). unfold RefP in Hok. cbn [fst] in Hok.
  destruct g as [td|pd|inf]; [| |contradiction].
  - destruct Hok as [Hn Ht]. apply link_decl_type in H as [_ [i Hr Hi Ho | i te toff Hr Ht' Hi Ho _]]; rewrite Ho; apply IdOk_shift.
    + rewrite Hi in Hn. exact Hn.
    + rewrite Ht' in Ht. eapply idok_texpr; eauto.
  - destruct Hok as [Hn [Hp [Hv Hs]]]. rewrite Forall_forall in Hp, Hv. destruct (idok_stmts _ Hs) as [Hsv Hsp].
    apply link_decl_proc in H as [_ [i Hr Hi Ho | i Hr Hi Ho _ | i Hr Hi Ho _ | i Hr Hi Ho _ | i Hr Hi Ho _ | i Hr Hi Ho _ | i Hr Hi Ho _]];
      rewrite Ho; apply IdOk_shift; auto.
    + rewrite Hi in Hn. exact Hn.
    + unfold var_names_in_params in Hi. apply in_flat_map in Hi as [[x o'] [Hx Hi]]. specialize (Hp _ Hx). cbn [fst snd RefP] in *.
      destruct x as [doc rf [j|] ty inf | inf]; try contradiction. destruct Hi as [<-|[]]. apply IdOk_shift. apply Hp.
    + unfold types_in_params in Hi. apply in_flat_map in Hi as [[x o'] [Hx Hi]]. specialize (Hp _ Hx). cbn [fst snd RefP] in *.
      destruct x as [doc rf nm [[te toff]|] inf | inf]; try contradiction. destruct Hp as [_ Hp]. cbn [OptP RefP fst] in Hp.
      apply filter_In in Hi as [Hi _]. destruct (ident_in_texpr te toff) as [j|] eqn:E; [|contradiction]. destruct Hi as [<-|[]].
      apply IdOk_shift. eapply idok_texpr; eauto.
    + unfold var_names_in_vars in Hi. apply in_flat_map in Hi as [[x o'] [Hx Hi]]. specialize (Hv _ Hx). cbn [fst snd RefP] in *.
      destruct x as [doc [j|] ty inf | inf]; try contradiction. destruct Hi as [<-|[]]. apply IdOk_shift. apply Hv.
    + unfold types_in_vars in Hi. apply in_flat_map in Hi as [[x o'] [Hx Hi]]. specialize (Hv _ Hx). cbn [fst snd RefP] in *.
      destruct x as [doc nm [[te toff]|] inf | inf]; try contradiction. destruct Hv as [_ Hv]. cbn [OptP RefP fst] in Hv.
      apply filter_In in Hi as [Hi _]. destruct (ident_in_texpr te toff) as [j|] eqn:E; [|contradiction]. destruct Hi as [<-|[]].
      apply IdOk_shift. eapply idok_texpr; eauto.
Qed.
