(* C14 - signature help on VALID programs, part 1 (the grammar side):
     S  the call statements of an abstract statement in the order find_call_stmt visits them, with the
        absolute index of their first token ([sites_stmt], [sites_stmts]: lengths of flattened pieces
        only), and the call statements of the mandated tree are exactly these ([calls_sites]);
     C  the sites of a statement lie inside the statement's token range, one after the other, without
        overlap ([sites_chain]);
     L  the token kinds at a site are the flattening of that call statement ([sites_seg]);
     K  the token kinds of a call statement: where `(`, `)`, `;` and the commas sit; an expression
        contains no comma ([expr_nocomma]) - arguments are expressions and calls are statements, so the
        commas of a call statement's token slice are exactly the separators of ITS arguments
        ([call_comma_count]). *)
From Coq Require Import PeanoNat Lia.
From Spl Require Import Proofs.GrammarBase Proofs.GrammarExpr Proofs.GrammarStmt.
From Spl Require Import Proofs.GrammarProofs Spec.Grammar Model.Errors.
From Spl Require Import Model.Hover Model.SigHelp Model.Fold Proofs.HoverProofs Proofs.HoverValid.
Local Open Scope nat_scope.

(* ---------------------------------------------------------------------------------------- *)
(* S: call sites                                                                             *)

(* a call statement of the grammar: c1 f c2 ( a c3 ) c4 ; *)
Record acall := { k_c1 : cs; k_f : text; k_c2 : cs; k_a : aargs; k_c3 : cs; k_c4 : cs }.
Definition call_stmt (c : acall) : astmt := SCal (k_c1 c) (k_f c) (k_c2 c) (k_a c) (k_c3 c) (k_c4 c).
Definition fl_call (c : acall) : list kind := fl_stmt (call_stmt c).

(* (absolute index of the statement's first token = its first leading comment, the statement) *)
Definition site := (nat * acall)%type.

Fixpoint sites_stmt (o : nat) (s : astmt) : list site :=
  match s with
  | SCal c1 f c2 a c3 c4 => [(o, {| k_c1 := c1; k_f := f; k_c2 := c2; k_a := a; k_c3 := c3; k_c4 := c4 |})]
  | SIfT c1 c2 e c3 t => sites_stmt (o + len c1 + 1 + len c2 + 1 + len (fl_cmp e) + len c3 + 1) t
  | SIfE c1 c2 e c3 t c4 s' =>
      sites_stmt (o + len c1 + 1 + len c2 + 1 + len (fl_cmp e) + len c3 + 1) t
      ++ sites_stmt (o + len c1 + 1 + len c2 + 1 + len (fl_cmp e) + len c3 + 1 + len (fl_stmt t) + len c4 + 1) s'
  | SWhl c1 c2 e c3 b => sites_stmt (o + len c1 + 1 + len c2 + 1 + len (fl_cmp e) + len c3 + 1) b
  | SBlk c1 b c2 => sites_stmts (o + len c1 + 1) b
  | _ => []
  end
with sites_stmts (o : nat) (b : astmts) : list site :=
  match b with SNil => [] | SCons s r => sites_stmt o s ++ sites_stmts (o + len (fl_stmt s)) r end.

(* the call_hit (callee, info, accumulated offset) of the mandated tree at a site *)
Definition hit_of (x : site) : call_hit :=
  (x_ident 0 (k_c1 (snd x)) (k_f (snd x)), mkinfo 0 (len (fl_call (snd x))), fst x).

Lemma calls_block body inf off : calls_of_stmt (SBlock body inf) off = calls_of_stmts body off.
Proof.
  induction body as [|[s n] body IH]; [reflexivity|].
  cbn [calls_of_stmts]. rewrite <- IH. reflexivity.
Qed.

Theorem calls_sites :
  (forall s off, calls_of_stmt (x_stmt 0 s) off = map hit_of (sites_stmt off s)) /\
  (forall b off o, calls_of_stmts (x_stmts o b) off = map hit_of (sites_stmts (off + o) b)).
Proof.
  apply astmt_mutind.
  - (* SEmp *) intros c off. reflexivity.
  - (* SAsg *) intros v c1 e c2 off. reflexivity.
  - (* SCal *) intros c1 f c2 a c3 c4 off. reflexivity.
  - (* SIfT *) intros c1 c2 e c3 t IHt off. cbn [x_stmt calls_of_stmt sites_stmt]. rewrite app_nil_r, IHt.
    do 2 f_equal. lia.
  - (* SIfE *) intros c1 c2 e c3 t IHt c4 s IHs off. cbn [x_stmt calls_of_stmt sites_stmt].
    rewrite map_app, IHt, IHs. f_equal; do 2 f_equal; lia.
  - (* SWhl *) intros c1 c2 e c3 b IHb off. cbn [x_stmt calls_of_stmt sites_stmt]. rewrite IHb. do 2 f_equal. lia.
  - (* SBlk *) intros c1 b IHb c2 off. cbn [x_stmt sites_stmt]. rewrite calls_block, IHb. do 2 f_equal. lia.
  - (* SNil *) intros off o. reflexivity.
  - (* SCons *) intros s IHs r IHr off o. cbn [x_stmts calls_of_stmts sites_stmts].
    rewrite map_app, IHs, IHr. f_equal. do 2 f_equal. lia.
Qed.

(* ---------------------------------------------------------------------------------------- *)
(* C: the sites of a statement follow one another inside the statement's token range          *)

Fixpoint chain (lo hi : nat) (l : list site) : Prop :=
  match l with
  | [] => lo <= hi
  | x :: r => lo <= fst x /\ chain (fst x + len (fl_call (snd x))) hi r
  end.

Lemma chain_le : forall l lo hi, chain lo hi l -> lo <= hi.
Proof.
  induction l as [|x l IH]; intros lo hi H; [exact H|]. destruct H as [H1 H2]. specialize (IH _ _ H2). lia.
Qed.

Lemma chain_weaken : forall l lo hi lo' hi', chain lo hi l -> lo' <= lo -> hi <= hi' -> chain lo' hi' l.
Proof.
  induction l as [|x l IH]; intros lo hi lo' hi' H H1 H2; cbn [chain] in *; [lia|].
  destruct H as [Ha Hb]. split; [lia|]. apply (IH _ _ _ _ Hb); lia.
Qed.

Lemma chain_app : forall l1 l2 lo mid hi, chain lo mid l1 -> chain mid hi l2 -> chain lo hi (l1 ++ l2).
Proof.
  induction l1 as [|x l1 IH]; intros l2 lo mid hi H1 H2; cbn [app chain] in *.
  - apply (chain_weaken _ _ _ _ _ H2); lia.
  - destruct H1 as [Ha Hb]. split; [exact Ha|]. exact (IH _ _ _ _ Hb H2).
Qed.

(* in a chain everything in front of a site ends before it starts, everything behind starts after it *)
Lemma chain_split : forall l1 x l2 lo hi, chain lo hi (l1 ++ x :: l2) ->
  Forall (fun y => fst y + len (fl_call (snd y)) <= fst x) l1 /\ lo <= fst x /\
  fst x + len (fl_call (snd x)) <= hi /\
  Forall (fun y => fst x + len (fl_call (snd x)) <= fst y) l2.
Proof.
  induction l1 as [|y l1 IH]; intros x l2 lo hi H; cbn [app chain] in H.
  - destruct H as [H1 H2]. split; [constructor|]. split; [exact H1|]. split; [exact (chain_le _ _ _ H2)|].
    clear H1. revert H2. generalize (fst x + len (fl_call (snd x))). induction l2 as [|z l2 IH2]; intros m H2; [constructor|].
    destruct H2 as [Ha Hb]. constructor; [exact Ha|]. apply IH2. apply (chain_weaken _ _ _ _ _ Hb); lia.
  - destruct H as [H1 H2]. destruct (IH _ _ _ _ H2) as [Ha [Hb [Hc Hd]]].
    split; [constructor; [lia | exact Ha]|]. split; [lia|]. split; assumption.
Qed.

Lemma call_len_pos c : 4 <= len (fl_call c).
Proof. unfold fl_call, call_stmt. cbn [fl_stmt]. repeat (rewrite app_length || cbn [length]). lia. Qed.

Theorem sites_chain :
  (forall s o, chain o (o + len (fl_stmt s)) (sites_stmt o s)) /\
  (forall b o, chain o (o + len (fl_stmts b)) (sites_stmts o b)).
Proof.
  apply astmt_mutind.
  - intros c o. cbn [sites_stmt chain]. lia.
  - intros v c1 e c2 o. cbn [sites_stmt chain]. lia.
  - intros c1 f c2 a c3 c4 o. cbn [sites_stmt chain fst snd]. unfold fl_call, call_stmt.
    cbn [k_c1 k_f k_c2 k_a k_c3 k_c4]. lia.
  - intros c1 c2 e c3 t IHt o. cbn [sites_stmt]. eapply chain_weaken; [apply IHt | lia | cbn [fl_stmt]; leneq].
  - intros c1 c2 e c3 t IHt c4 s IHs o. cbn [sites_stmt].
    eapply chain_weaken;
      [eapply chain_app; [apply IHt | eapply chain_weaken; [apply IHs | lia | apply le_n]] | lia | cbn [fl_stmt]; leneq].
  - intros c1 c2 e c3 b IHb o. cbn [sites_stmt]. eapply chain_weaken; [apply IHb | lia | cbn [fl_stmt]; leneq].
  - intros c1 b IHb c2 o. cbn [sites_stmt]. eapply chain_weaken; [apply IHb | lia | cbn [fl_stmt]; leneq].
  - intros o. cbn [sites_stmts chain]. lia.
  - intros s IHs r IHr o. cbn [sites_stmts]. eapply chain_app; [apply IHs|].
    eapply chain_weaken; [apply IHr | lia | cbn [fl_stmts]; leneq].
Qed.

(* ---------------------------------------------------------------------------------------- *)
(* L: the token kinds at a site                                                              *)

(* the kinds [seg] start at index o of K *)
Definition seg_at (K : list kind) (o : nat) (seg : list kind) : Prop :=
  exists pre post, K = pre ++ seg ++ post /\ len pre = o.

Lemma seg_in K o seg a sub b o' :
  seg_at K o seg -> seg = a ++ sub ++ b -> o' = o + len a -> seg_at K o' sub.
Proof.
  intros [pre [post [-> <-]]] -> ->. exists (pre ++ a), (b ++ post). split; [listeq | leneq].
Qed.

Lemma seg_at_bound K o seg : seg_at K o seg -> o + len seg <= len K.
Proof. intros [pre [post [-> <-]]]. leneq. Qed.

Lemma seg_at_nth K o seg j k : seg_at K o seg -> nth_error seg j = Some k -> nth_error K (o + j) = Some k.
Proof. intros [pre [post [-> <-]]] H. now apply nth_error_mid. Qed.

Ltac sub_seg IH H a s b := apply IH; eapply (seg_in _ _ _ a s b); [exact H | listeq | leneq].

Theorem sites_seg K :
  (forall s o, seg_at K o (fl_stmt s) -> Forall (fun x => seg_at K (fst x) (fl_call (snd x))) (sites_stmt o s)) /\
  (forall b o, seg_at K o (fl_stmts b) -> Forall (fun x => seg_at K (fst x) (fl_call (snd x))) (sites_stmts o b)).
Proof.
  apply astmt_mutind.
  - intros c o H. constructor.
  - intros v c1 e c2 o H. constructor.
  - intros c1 f c2 a c3 c4 o H. cbn [sites_stmt]. constructor; [exact H | constructor].
  - intros c1 c2 e c3 t IHt o H. cbn [sites_stmt fl_stmt] in *.
    sub_seg IHt H (cm c1 ++ KIf :: cm c2 ++ LParen :: fl_cmp e ++ cm c3 ++ [RParen]) (fl_stmt t) (@nil kind).
  - intros c1 c2 e c3 t IHt c4 s IHs o H. cbn [sites_stmt fl_stmt] in *. apply Forall_app. split.
    + sub_seg IHt H (cm c1 ++ KIf :: cm c2 ++ LParen :: fl_cmp e ++ cm c3 ++ [RParen]) (fl_stmt t) (cm c4 ++ KElse :: fl_stmt s).
    + sub_seg IHs H (cm c1 ++ KIf :: cm c2 ++ LParen :: fl_cmp e ++ cm c3 ++ RParen :: fl_stmt t ++ cm c4 ++ [KElse]) (fl_stmt s) (@nil kind).
  - intros c1 c2 e c3 b IHb o H. cbn [sites_stmt fl_stmt] in *.
    sub_seg IHb H (cm c1 ++ KWhile :: cm c2 ++ LParen :: fl_cmp e ++ cm c3 ++ [RParen]) (fl_stmt b) (@nil kind).
  - intros c1 b IHb c2 o H. cbn [sites_stmt fl_stmt] in *.
    sub_seg IHb H (cm c1 ++ [LCurly]) (fl_stmts b) (cm c2 ++ [RCurly]).
  - intros o H. constructor.
  - intros s IHs r IHr o H. cbn [sites_stmts fl_stmts] in *. apply Forall_app. split.
    + sub_seg IHs H (@nil kind) (fl_stmt s) (fl_stmts r).
    + sub_seg IHr H (fl_stmt s) (fl_stmts r) (@nil kind).
Qed.

(* ---------------------------------------------------------------------------------------- *)
(* K: the token kinds of a call statement                                                    *)

Definition is_comma_k (k : kind) : bool := match k with Comma => true | _ => false end.
Definition nocomma (l : list kind) : Prop := Forall (fun k => is_comma_k k = false) l.

Lemma nocomma_cm c : nocomma (cm c).
Proof. induction c; constructor; [reflexivity | assumption]. Qed.

Ltac nc := repeat first [assumption | apply nocomma_cm | apply Forall_nil | apply Forall_app; split | apply Forall_cons | reflexivity].

(* arguments are expressions, calls are statements: no comma inside an expression *)
Theorem expr_nocomma :
  (forall v, nocomma (fl_var v)) /\ (forall f, nocomma (fl_fac f)) /\
  (forall m, nocomma (fl_mul m)) /\ (forall a, nocomma (fl_add a)) /\
  (forall e, nocomma (fl_cmp e)).
Proof.
  unfold nocomma.
  apply aexpr_mutind; intros; cbn [fl_var fl_fac fl_mul fl_add fl_cmp]; nc;
    try (match goal with |- is_comma_k (k_lit ?l) = false => destruct l end; reflexivity);
    try (match goal with |- is_comma_k (_ ?op) = false => destruct op end; reflexivity).
Qed.

Definition cmp_nocomma := proj2 (proj2 (proj2 (proj2 expr_nocomma))).

Definition count_commas_k (l : list kind) : nat := len (filter is_comma_k l).

Lemma count_commas_app a b : count_commas_k (a ++ b) = count_commas_k a + count_commas_k b.
Proof. unfold count_commas_k. now rewrite filter_app, app_length. Qed.

Lemma nocomma_count l : nocomma l -> count_commas_k l = 0.
Proof.
  unfold count_commas_k. induction 1 as [|k l Hk _ IH]; [reflexivity|]. cbn [filter]. now rewrite Hk.
Qed.

(* the number of arguments of a call *)
Definition nargs (a : aargs) : nat := match a with None => 0 | Some (_, l) => S (len l) end.

Lemma tail_comma_count : forall l, count_commas_k (fl_tail fl_cmp l) = len l.
Proof.
  induction l as [|[c e] l IH]; [reflexivity|]. unfold fl_tail in *. cbn [flat_map fst snd].
  rewrite !count_commas_app, IH, (nocomma_count _ (nocomma_cm c)).
  change (Comma :: fl_cmp e) with ([Comma] ++ fl_cmp e). rewrite count_commas_app, (nocomma_count _ (cmp_nocomma e)).
  cbn [length]. reflexivity.
Qed.

(* the commas of a call statement are the separators of its arguments: one less than arguments *)
Theorem call_comma_count c : count_commas_k (fl_call c) = nargs (k_a c) - 1.
Proof.
  unfold fl_call, call_stmt. cbn [fl_stmt].
  change (Ident (k_f c) :: cm (k_c2 c) ++ LParen :: fl_sep fl_cmp (k_a c) ++ cm (k_c3 c) ++ RParen :: cm (k_c4 c) ++ [Semic])
    with ([Ident (k_f c)] ++ cm (k_c2 c) ++ [LParen] ++ fl_sep fl_cmp (k_a c) ++ cm (k_c3 c) ++ [RParen] ++ cm (k_c4 c) ++ [Semic]).
  rewrite !count_commas_app, !(nocomma_count _ (nocomma_cm _)).
  assert (Ha : count_commas_k (fl_sep fl_cmp (k_a c)) = nargs (k_a c) - 1).
  { destruct (k_a c) as [[e l]|]; [|reflexivity]. cbn [fl_sep nargs].
    rewrite count_commas_app, (nocomma_count _ (cmp_nocomma e)), tail_comma_count. lia. }
  rewrite Ha. cbn. lia.
Qed.

(* the arguments of the mandated tree: one expression per argument *)
Lemma x_tail_length {A B} (fl : A -> list kind) (x : A -> B) : forall l o, len (x_tail fl x o l) = len l.
Proof. induction l as [|[c a] l IH]; intros o; [reflexivity|]. cbn [x_tail length]. now rewrite IH. Qed.

Lemma x_sep_length {A B} (fl : A -> list kind) (x : A -> B) o a :
  len (x_sep fl x o a) = match a with None => 0 | Some (_, l) => S (len l) end.
Proof. destruct a as [[e l]|]; [|reflexivity]. cbn [x_sep length]. now rewrite x_tail_length. Qed.

(* where the parentheses and the semicolon of a call statement sit *)
Definition lp_pos (c : acall) : nat := len (k_c1 c) + 1 + len (k_c2 c).
Definition rp_pos (c : acall) : nat := lp_pos c + 1 + len (fl_sep fl_cmp (k_a c)) + len (k_c3 c).

Lemma call_lp c : nth_error (fl_call c) (lp_pos c) = Some LParen.
Proof.
  unfold fl_call, call_stmt, lp_pos. cbn [fl_stmt].
  replace (cm (k_c1 c) ++ Ident (k_f c) :: cm (k_c2 c) ++ LParen :: fl_sep fl_cmp (k_a c) ++ cm (k_c3 c) ++ RParen :: cm (k_c4 c) ++ [Semic])
    with ((cm (k_c1 c) ++ Ident (k_f c) :: cm (k_c2 c)) ++ LParen :: fl_sep fl_cmp (k_a c) ++ cm (k_c3 c) ++ RParen :: cm (k_c4 c) ++ [Semic]) by listeq.
  replace (len (k_c1 c) + 1 + len (k_c2 c)) with (len (cm (k_c1 c) ++ Ident (k_f c) :: cm (k_c2 c))) by leneq.
  apply nth_error_at.
Qed.

Lemma call_rp c : nth_error (fl_call c) (rp_pos c) = Some RParen.
Proof.
  unfold fl_call, call_stmt, rp_pos, lp_pos. cbn [fl_stmt].
  replace (cm (k_c1 c) ++ Ident (k_f c) :: cm (k_c2 c) ++ LParen :: fl_sep fl_cmp (k_a c) ++ cm (k_c3 c) ++ RParen :: cm (k_c4 c) ++ [Semic])
    with ((cm (k_c1 c) ++ Ident (k_f c) :: cm (k_c2 c) ++ LParen :: fl_sep fl_cmp (k_a c) ++ cm (k_c3 c)) ++ RParen :: cm (k_c4 c) ++ [Semic]) by listeq.
  replace (len (k_c1 c) + 1 + len (k_c2 c) + 1 + len (fl_sep fl_cmp (k_a c)) + len (k_c3 c))
    with (len (cm (k_c1 c) ++ Ident (k_f c) :: cm (k_c2 c) ++ LParen :: fl_sep fl_cmp (k_a c) ++ cm (k_c3 c))) by leneq.
  apply nth_error_at.
Qed.

Lemma rp_pos_lt c : lp_pos c < rp_pos c /\ rp_pos c + 2 <= len (fl_call c).
Proof. unfold fl_call, call_stmt, rp_pos, lp_pos. cbn [fl_stmt]. split; leneq. Qed.

(* nothing in front of `(` is a parenthesis: the FIRST `(` of the statement's kinds is the one behind the
   callee, and nothing behind `)` is one: the LAST `)` is the closing one *)
Lemma call_first_lp c : forall j, j < lp_pos c -> nth_error (fl_call c) j <> Some LParen.
Proof.
  intros j Hj. unfold fl_call, call_stmt, lp_pos in *. cbn [fl_stmt].
  replace (cm (k_c1 c) ++ Ident (k_f c) :: cm (k_c2 c) ++ LParen :: fl_sep fl_cmp (k_a c) ++ cm (k_c3 c) ++ RParen :: cm (k_c4 c) ++ [Semic])
    with ((cm (k_c1 c) ++ [Ident (k_f c)] ++ cm (k_c2 c)) ++ LParen :: fl_sep fl_cmp (k_a c) ++ cm (k_c3 c) ++ RParen :: cm (k_c4 c) ++ [Semic]) by listeq.
  rewrite nth_error_app1 by leneq. intros H. apply nth_error_In in H.
  apply in_app_or in H as [H|H]; [|apply in_app_or in H as [H|H]].
  - unfold cm in H. apply in_map_iff in H as [x [Hx _]]. discriminate.
  - destruct H as [H|[]]. discriminate.
  - unfold cm in H. apply in_map_iff in H as [x [Hx _]]. discriminate.
Qed.

Lemma call_last_rp c : forall j, rp_pos c < j -> nth_error (fl_call c) j <> Some RParen.
Proof.
  intros j Hj. unfold fl_call, call_stmt, rp_pos, lp_pos in *. cbn [fl_stmt].
  replace (cm (k_c1 c) ++ Ident (k_f c) :: cm (k_c2 c) ++ LParen :: fl_sep fl_cmp (k_a c) ++ cm (k_c3 c) ++ RParen :: cm (k_c4 c) ++ [Semic])
    with ((cm (k_c1 c) ++ Ident (k_f c) :: cm (k_c2 c) ++ LParen :: fl_sep fl_cmp (k_a c) ++ cm (k_c3 c) ++ [RParen]) ++ cm (k_c4 c) ++ [Semic]) by listeq.
  rewrite nth_error_app2 by leneq. intros H. apply nth_error_In in H.
  apply in_app_or in H as [H|H].
  - unfold cm in H. apply in_map_iff in H as [x [Hx _]]. discriminate.
  - destruct H as [H|[]]. discriminate.
Qed.

(* ---------------------------------------------------------------------------------------- *)
(* the argument slots of a call statement                                                    *)

(* positions (relative to the statement's first token) of the separators `(`, the commas, `)`:
   argument number j stands between separator j and separator j + 1 *)
Fixpoint tail_seps (o : nat) (l : list (cs * acmp)) : list nat :=
  match l with [] => [] | (c, e) :: r => (o + len c) :: tail_seps (o + len c + 1 + len (fl_cmp e)) r end.

Definition call_seps (c : acall) : list nat :=
  lp_pos c :: match k_a c with None => [] | Some (e, l) => tail_seps (lp_pos c + 1 + len (fl_cmp e)) l end ++ [rp_pos c].

Lemma tail_seps_length : forall l o, len (tail_seps o l) = len l.
Proof. induction l as [|[c e] l IH]; intros o; [reflexivity|]. cbn [tail_seps length]. now rewrite IH. Qed.

(* one separator more than slots; a call without arguments has the one (empty) slot between `(` and `)` *)
Lemma call_seps_length c : len (call_seps c) = S (Nat.max 1 (nargs (k_a c))).
Proof.
  unfold call_seps. cbn [length]. rewrite app_length. cbn [length]. destruct (k_a c) as [[e l]|]; cbn [nargs length].
  - rewrite tail_seps_length. lia.
  - reflexivity.
Qed.

Definition is_sep (K : list kind) (q : nat) : Prop := nth_error K q = Some LParen \/ nth_error K q = Some Comma.

Lemma is_sep_app P T q : q < len P -> is_sep P q -> is_sep (P ++ T) q.
Proof. intros Hq [H|H]; [left | right]; now rewrite nth_error_app1. Qed.

(* in front of slot j (up to and including its opening separator) and up to its closing separator there are
   exactly j commas: none inside the slot *)
Lemma tail_slots : forall l P qp m rest c3,
  qp < len P -> is_sep P qp -> count_commas_k (firstn (S qp) P) = m -> count_commas_k P = m ->
  forall j qa qb,
    nth_error (qp :: tail_seps (len P) l ++ [len P + len (fl_tail fl_cmp l) + len c3]) j = Some qa ->
    nth_error (qp :: tail_seps (len P) l ++ [len P + len (fl_tail fl_cmp l) + len c3]) (S j) = Some qb ->
    let K := P ++ fl_tail fl_cmp l ++ cm c3 ++ RParen :: rest in
    qa < qb /\ is_sep K qa /\ count_commas_k (firstn (S qa) K) = m + j /\ count_commas_k (firstn qb K) = m + j.
Proof.
  induction l as [|[cc e] l IH]; intros P qp m rest c3 Hqp Hsep Hm1 Hm2 j qa qb Ha Hb K.
  - cbn [tail_seps app fl_tail flat_map length] in *. rewrite Nat.add_0_r in *. unfold K. cbn [fl_tail flat_map app].
    destruct j as [|[|j]]; cbn [nth_error] in Ha, Hb; try discriminate. injection Ha as <-. injection Hb as <-.
    split; [lia|]. split; [now apply is_sep_app|]. split.
    + rewrite firstn_app_lt by lia. lia.
    + replace (P ++ cm c3 ++ RParen :: rest) with ((P ++ cm c3) ++ RParen :: rest) by listeq.
      replace (len P + len c3) with (len (P ++ cm c3)) by leneq. rewrite firstn_exact, count_commas_app.
      rewrite (nocomma_count _ (nocomma_cm c3)). lia.
  - set (P' := P ++ cm cc ++ Comma :: fl_cmp e).
    assert (HK : K = P' ++ fl_tail fl_cmp l ++ cm c3 ++ RParen :: rest).
    { unfold K, P', fl_tail. cbn [flat_map fst snd]. listeq. }
    assert (HP' : len P' = len P + len cc + 1 + len (fl_cmp e)) by (unfold P'; leneq).
    destruct j as [|j]; cbn [nth_error tail_seps app] in Ha, Hb.
    + injection Ha as <-. injection Hb as <-. split; [lia|]. split; [unfold K; now apply is_sep_app|]. split.
      * unfold K. rewrite firstn_app_lt by lia. lia.
      * assert (HK2 : K = (P ++ cm cc) ++ Comma :: fl_cmp e ++ fl_tail fl_cmp l ++ cm c3 ++ RParen :: rest)
          by (unfold K, fl_tail; cbn [flat_map fst snd]; listeq).
        rewrite HK2. replace (len P + len cc) with (len (P ++ cm cc)) by leneq. rewrite firstn_exact, count_commas_app.
        rewrite (nocomma_count _ (nocomma_cm cc)). lia.
    + assert (Hlast : len P + len (fl_tail fl_cmp ((cc, e) :: l)) + len c3 = len P' + len (fl_tail fl_cmp l) + len c3).
      { rewrite HP'. unfold fl_tail. cbn [flat_map fst snd]. leneq. }
      rewrite Hlast in Ha, Hb. rewrite <- HP' in Ha, Hb.
      assert (Hc1 : count_commas_k (firstn (S (len P + len cc)) P') = m + 1).
      { unfold P'. replace (P ++ cm cc ++ Comma :: fl_cmp e) with ((P ++ cm cc ++ [Comma]) ++ fl_cmp e) by listeq.
        replace (S (len P + len cc)) with (len (P ++ cm cc ++ [Comma])) by leneq. rewrite firstn_exact.
        rewrite !count_commas_app, (nocomma_count _ (nocomma_cm cc)). cbn. lia. }
      assert (Hc2 : count_commas_k P' = m + 1).
      { unfold P'. change (Comma :: fl_cmp e) with ([Comma] ++ fl_cmp e).
        rewrite !count_commas_app, (nocomma_count _ (nocomma_cm cc)), (nocomma_count _ (cmp_nocomma e)). cbn. lia. }
      assert (Hs' : is_sep P' (len P + len cc)).
      { right. unfold P'. replace (P ++ cm cc ++ Comma :: fl_cmp e) with ((P ++ cm cc) ++ Comma :: fl_cmp e) by listeq.
        replace (len P + len cc) with (len (P ++ cm cc)) by leneq. apply nth_error_at. }
      destruct (IH P' (len P + len cc) (m + 1) rest c3 ltac:(lia) Hs' Hc1 Hc2 j qa qb Ha Hb) as [H1 [H2 [H3 H4]]].
      rewrite <- HK in H2, H3, H4. split; [exact H1|]. split; [exact H2|]. split; lia.
Qed.

Theorem call_slots c j qa qb :
  nth_error (call_seps c) j = Some qa -> nth_error (call_seps c) (S j) = Some qb ->
  qa < qb /\ qb < len (fl_call c) /\ is_sep (fl_call c) qa /\
  count_commas_k (firstn (S qa) (fl_call c)) = j /\ count_commas_k (firstn qb (fl_call c)) = j.
Proof.
  intros Ha Hb.
  set (H0 := cm (k_c1 c) ++ Ident (k_f c) :: cm (k_c2 c) ++ [LParen]).
  assert (HH0 : len H0 = lp_pos c + 1) by (unfold H0, lp_pos; leneq).
  assert (Hs0 : is_sep H0 (lp_pos c)).
  { left. unfold H0, lp_pos. replace (cm (k_c1 c) ++ Ident (k_f c) :: cm (k_c2 c) ++ [LParen])
      with ((cm (k_c1 c) ++ Ident (k_f c) :: cm (k_c2 c)) ++ [LParen]) by listeq.
    replace (len (k_c1 c) + 1 + len (k_c2 c)) with (len (cm (k_c1 c) ++ Ident (k_f c) :: cm (k_c2 c))) by leneq. apply nth_error_at. }
  assert (Hc0 : count_commas_k H0 = 0).
  { unfold H0. change (Ident (k_f c) :: cm (k_c2 c) ++ [LParen]) with ([Ident (k_f c)] ++ cm (k_c2 c) ++ [LParen]).
    rewrite !count_commas_app, !(nocomma_count _ (nocomma_cm _)). reflexivity. }
  assert (Hbound : qb < len (fl_call c)).
  { assert (Hin : In qb (call_seps c)) by (eapply nth_error_In; eauto).
    destruct (rp_pos_lt c) as [_ Hr]. unfold call_seps in Hin. destruct Hin as [<-|Hin]; [unfold rp_pos in Hr; lia|].
    apply in_app_or in Hin as [Hin|[<-|[]]]; [|lia].
    destruct (k_a c) as [[e l]|] eqn:Eka; [|contradiction].
    assert (Hg : forall l o, In qb (tail_seps o l) -> qb < o + len (fl_tail fl_cmp l)).
    { clear. induction l as [|[cc e] l IH]; intros o H; [contradiction|]. unfold fl_tail in *. cbn [tail_seps flat_map fst snd] in *.
      rewrite !app_length, cm_length. cbn [length]. destruct H as [<-|H]; [lia|]. specialize (IH _ H). lia. }
    specialize (Hg _ _ Hin). unfold rp_pos in Hr. rewrite Eka in Hr. cbn [fl_sep] in Hr. rewrite app_length in Hr. lia. }
  assert (Hf0 : forall T, count_commas_k (firstn (S (lp_pos c)) (H0 ++ T)) = 0).
  { intros T. rewrite firstn_app_lt by lia. replace (S (lp_pos c)) with (len H0) by lia. rewrite firstn_all. exact Hc0. }
  unfold call_seps in Ha, Hb. unfold fl_call, call_stmt in *. cbn [fl_stmt] in *. destruct (k_a c) as [[e l]|] eqn:Eka.
  - pose proof (tail_slots l (H0 ++ fl_cmp e) (lp_pos c) 0 (cm (k_c4 c) ++ [Semic]) (k_c3 c)) as Ht.
    rewrite app_length, HH0 in Ht.
    replace (lp_pos c + 1 + len (fl_cmp e) + len (fl_tail fl_cmp l) + len (k_c3 c)) with (rp_pos c) in Ht
      by (unfold rp_pos; rewrite Eka; cbn [fl_sep]; rewrite app_length; lia).
    assert (Hm2 : count_commas_k (H0 ++ fl_cmp e) = 0)
      by (rewrite count_commas_app, Hc0, (nocomma_count _ (cmp_nocomma e)); reflexivity).
    destruct (Ht ltac:(lia) ltac:(apply is_sep_app; [lia | exact Hs0]) (Hf0 _) Hm2 j qa qb Ha Hb) as [H1 [H2 [H3 H4]]].
    cbn [fl_sep] in *. cbn [Nat.add] in H3, H4.
    replace (cm (k_c1 c) ++ Ident (k_f c) :: cm (k_c2 c) ++ LParen :: (fl_cmp e ++ fl_tail fl_cmp l) ++ cm (k_c3 c) ++ RParen :: cm (k_c4 c) ++ [Semic])
      with ((H0 ++ fl_cmp e) ++ fl_tail fl_cmp l ++ cm (k_c3 c) ++ RParen :: cm (k_c4 c) ++ [Semic]) in * by (unfold H0; listeq).
    repeat split; assumption.
  - cbn [app] in Ha, Hb. destruct j as [|[|j]]; cbn [nth_error] in Ha, Hb; try discriminate.
    injection Ha as <-. injection Hb as <-. cbn [fl_sep app] in *.
    replace (cm (k_c1 c) ++ Ident (k_f c) :: cm (k_c2 c) ++ LParen :: cm (k_c3 c) ++ RParen :: cm (k_c4 c) ++ [Semic])
      with (H0 ++ cm (k_c3 c) ++ RParen :: cm (k_c4 c) ++ [Semic]) in * by (unfold H0; listeq).
    destruct (rp_pos_lt c) as [Hlr _].
    split; [exact Hlr|]. split; [exact Hbound|]. split; [apply is_sep_app; [lia | exact Hs0]|]. split; [apply Hf0|].
    replace (H0 ++ cm (k_c3 c) ++ RParen :: cm (k_c4 c) ++ [Semic]) with ((H0 ++ cm (k_c3 c)) ++ RParen :: cm (k_c4 c) ++ [Semic]) by listeq.
    replace (rp_pos c) with (len (H0 ++ cm (k_c3 c))) by (unfold rp_pos; rewrite Eka, app_length, cm_length; cbn [fl_sep length]; lia).
    rewrite firstn_exact, count_commas_app, Hc0, (nocomma_count _ (nocomma_cm _)). reflexivity.
Qed.
