(* Lemmas about the lexer model: totality, the split invariant of [lex_raw], tiling. *)
From Spl Require Import Model.Lexer Spec.LexSpec.

Lemma starts_skipn p s : starts p s = true -> s = p ++ skipn (length p) s.
Proof.
  revert s; induction p as [|a p IH]; intros s H; cbn [starts] in *; [reflexivity|].
  destruct s as [|b s]; [discriminate|]. apply andb_true_iff in H as [Hab H].
  apply N.eqb_eq in Hab. subst b. cbn [length skipn app]. f_equal. now apply IH.
Qed.

Lemma first_match_in tbl s p k : first_match tbl s = Some (p, k) -> In (p, k) tbl /\ starts p s = true.
Proof.
  induction tbl as [|[q j] tbl IH]; cbn [first_match]; [discriminate|].
  destruct (starts q s) eqn:E.
  - intros [= -> ->]. split; [now left | exact E].
  - intros H. destruct (IH H) as [Hin Hs]. split; [now right | exact Hs].
Qed.

Lemma first_kw_in tbl s p k :
  first_kw tbl s = Some (p, k) -> In (p, k) tbl /\ starts p s = true /\ kw_ok (skipn (length p) s) = true.
Proof.
  induction tbl as [|[q j] tbl IH]; cbn [first_kw]; [discriminate|].
  destruct (starts q s && kw_ok (skipn (length q) s)) eqn:E.
  - intros [= -> ->]. apply andb_true_iff in E as [E1 E2]. split; [now left | split; assumption].
  - intros H. destruct (IH H) as [Hin Hs]. split; [now right | exact Hs].
Qed.

Lemma sym_nonempty p k : In (p, k) sym_table -> p <> [].
Proof. cbn. intros H. repeat (destruct H as [H|H]; [inversion H; discriminate|]). destruct H. Qed.

Lemma kw_nonempty p k : In (p, k) kw_table -> p <> [].
Proof. cbn. intros H. repeat (destruct H as [H|H]; [inversion H; discriminate|]). destruct H. Qed.

(* The split invariant: a successful [lex_raw] returns a non-empty prefix and the matching rest. *)
Definition good_res (s : text) (r : option lexres) : Prop :=
  match r with
  | None => True
  | Some (_, _, lx, rest) => s = lx ++ rest /\ lx <> []
  end.

Lemma lex_comment_good s : good_res s (lex_comment s).
Proof.
  unfold lex_comment. destruct (starts [47; 47] s) eqn:E; [|exact I].
  apply starts_skipn in E. cbn [length] in E.
  pose proof (span_app not_nl (skipn 2 s)) as Hs.
  destruct (snd (span not_nl (skipn 2 s))) as [|nl rest] eqn:E2; cbn [good_res].
  - split; [|discriminate]. rewrite E at 1. rewrite <- Hs at 1. now rewrite app_nil_r, app_nil_r.
  - split; [|discriminate]. rewrite E at 1. rewrite <- Hs at 1. cbn [app]. now rewrite <- app_assoc.
Qed.

Lemma lex_sym_good s : good_res s (lex_sym s).
Proof.
  unfold lex_sym. destruct (first_match sym_table s) as [[p k]|] eqn:E; [|exact I].
  apply first_match_in in E as [Hin Hs]. cbn. split; [now apply starts_skipn | eapply sym_nonempty; eauto].
Qed.

Lemma lex_kw_good s : good_res s (lex_kw s).
Proof.
  unfold lex_kw. destruct (first_kw kw_table s) as [[p k]|] eqn:E; [|exact I].
  apply first_kw_in in E as [Hin [Hs _]]. cbn. split; [now apply starts_skipn | eapply kw_nonempty; eauto].
Qed.

Lemma lex_char_good s : good_res s (lex_char s).
Proof.
  unfold lex_char. destruct s as [|c r]; [exact I|].
  destruct (N.eq_dec c 39) as [->|Hc].
  2:{ destruct c as [|p]; [exact I|]. do 6 (destruct p as [p|p|]; try exact I). congruence. }
  destruct (starts [92; 110] r) eqn:E.
  - apply starts_skipn in E. cbn [length] in E.
    destruct (skipn 2 r) as [|d r3] eqn:E3.
    + cbn. split; [|discriminate]. now rewrite E.
    + destruct (N.eq_dec d 39) as [->|Hd].
      * cbn. split; [|discriminate]. now rewrite E.
      * assert (H : good_res (39 :: r) (Some (CharT 10, [mkerr (blen [39; 92; 110]) (blen [39; 92; 110]) MissingClosingTick], [39; 92; 110], d :: r3))).
        { cbn. split; [|discriminate]. now rewrite E. }
        destruct d as [|p]; [exact H|]. do 6 (destruct p as [p|p|]; try exact H). congruence.
  - destruct r as [|x r2]; [exact I|].
    destruct r2 as [|d r3].
    + cbn. split; [reflexivity | discriminate].
    + destruct (N.eq_dec d 39) as [->|Hd].
      * cbn. split; [reflexivity | discriminate].
      * assert (H : good_res (39 :: x :: d :: r3) (Some (CharT x, [mkerr (blen [39; x]) (blen [39; x]) MissingClosingTick], [39; x], d :: r3))).
        { cbn. split; [reflexivity | discriminate]. }
        destruct d as [|p]; [exact H|]. do 6 (destruct p as [p|p|]; try exact H). congruence.
Qed.

Lemma lex_hex_good s : good_res s (lex_hex s).
Proof.
  unfold lex_hex. destruct (starts [48; 120] s) eqn:E; [|exact I].
  apply starts_skipn in E. cbn [length] in E.
  pose proof (span_app is_hex (skipn 2 s)) as Hs.
  destruct (fst (span is_hex (skipn 2 s))) as [|d0 d] eqn:Ed.
  - cbn [good_res]. split; [|discriminate]. cbn [app] in Hs. rewrite Hs. exact E.
  - destruct (hex_value (d0 :: d) <? u32_limit); cbn [good_res]; (split; [|discriminate]);
      rewrite E at 1; rewrite <- Hs at 1; reflexivity.
Qed.

Lemma lex_int_good s : good_res s (lex_int s).
Proof.
  unfold lex_int. pose proof (span_app is_digit s) as Hs.
  destruct (fst (span is_digit s)) as [|d0 d] eqn:Ed; [exact I|].
  destruct (dec_value (d0 :: d) <? u32_limit); cbn [good_res]; (split; [now rewrite Hs | discriminate]).
Qed.

Lemma lex_ident_good s : good_res s (lex_ident s).
Proof.
  unfold lex_ident. destruct s as [|c r]; [exact I|]. destruct (is_ident_start c); [|exact I].
  cbn [good_res]. split; [|discriminate]. cbn [app]. now rewrite span_app.
Qed.

Lemma lex_unknown_good s : good_res s (lex_unknown s).
Proof. destruct s as [|c r]; [exact I|]. cbn. split; [reflexivity | discriminate]. Qed.

Lemma orelse_good s a b : good_res s a -> good_res s b -> good_res s (orelse a b).
Proof. destruct a; cbn; auto. Qed.

Lemma lex_raw_good s : good_res s (lex_raw s).
Proof.
  unfold lex_raw.
  repeat apply orelse_good;
    auto using lex_comment_good, lex_sym_good, lex_kw_good, lex_char_good, lex_hex_good, lex_int_good,
      lex_ident_good, lex_unknown_good.
Qed.

Lemma lex_raw_split s k e lx rest : lex_raw s = Some (k, e, lx, rest) -> s = lx ++ rest /\ lx <> [].
Proof. intros H. pose proof (lex_raw_good s) as G. rewrite H in G. exact G. Qed.

Lemma orelse_some {A} (a b : option A) : b <> None -> orelse a b <> None.
Proof. destruct a; cbn; [discriminate | auto]. Qed.

Lemma lex_raw_nonempty s : s <> [] -> lex_raw s <> None.
Proof.
  intros Hs. unfold lex_raw. do 7 apply orelse_some. destruct s; [congruence | discriminate].
Qed.

Lemma lex_raw_nil : lex_raw [] = None.
Proof. reflexivity. Qed.

(* no lexeme is produced with kind Eof *)
Lemma orelse_inv {A} (a b : option A) x : orelse a b = Some x -> a = Some x \/ b = Some x.
Proof. destruct a; cbn; auto. Qed.

Lemma sym_not_eof p k : In (p, k) sym_table -> k <> Eof.
Proof. cbn. intros H. repeat (destruct H as [H|H]; [inversion H; discriminate|]). destruct H. Qed.
Lemma kw_not_eof p k : In (p, k) kw_table -> k <> Eof.
Proof. cbn. intros H. repeat (destruct H as [H|H]; [inversion H; discriminate|]). destruct H. Qed.

Lemma lex_raw_not_eof s k e lx rest : lex_raw s = Some (k, e, lx, rest) -> k <> Eof.
Proof.
  unfold lex_raw. intros H.
  repeat (apply orelse_inv in H as [H|H]).
  - unfold lex_comment in H. destruct (starts _ s); [|discriminate].
    destruct (snd _); inversion H; discriminate.
  - unfold lex_sym in H. destruct (first_match sym_table s) as [[p j]|] eqn:E; [|discriminate].
    inversion H; subst. apply first_match_in in E as [Hin _]. eapply sym_not_eof; eauto.
  - unfold lex_kw in H. destruct (first_kw kw_table s) as [[p j]|] eqn:E; [|discriminate].
    inversion H; subst. apply first_kw_in in E as [Hin _]. eapply kw_not_eof; eauto.
  - unfold lex_char in H. destruct s as [|c r]; [discriminate|].
    destruct c as [|p]; [discriminate|]. do 6 (destruct p as [p|p|]; try discriminate).
    destruct (if starts [92; 110] r then _ else _) as [[[c lx'] r2]|]; [|discriminate].
    destruct r2 as [|d r3]; [inversion H; discriminate|].
    destruct d as [|p]; [inversion H; discriminate|].
    do 6 (destruct p as [p|p|]; try (inversion H; discriminate)).
  - unfold lex_hex in H. destruct (starts _ s); [|discriminate].
    destruct (fst _); [inversion H; discriminate|]. destruct (_ <? _); inversion H; discriminate.
  - unfold lex_int in H. destruct (fst _); [discriminate|]. destruct (_ <? _); inversion H; discriminate.
  - unfold lex_ident in H. destruct s; [discriminate|]. destruct (is_ident_start _); inversion H; discriminate.
  - unfold lex_unknown in H. destruct s; inversion H; discriminate.
Qed.

(* ---- totality ---- *)

Lemma span_length f s : length s = (length (fst (span f s)) + length (snd (span f s)))%nat.
Proof. rewrite <- (span_app f s) at 1. apply app_length. Qed.

Lemma lex_from_total fuel off s : (length s < fuel)%nat -> exists toks, lex_from fuel off s = Some toks.
Proof.
  revert off s; induction fuel as [|f IH]; intros off s Hf; [lia|].
  cbn [lex_from]. pose proof (span_length is_ws s) as Hl.
  destruct (lex_raw (snd (span is_ws s))) as [[[[k e] lx] rest]|] eqn:E; [|eauto].
  apply lex_raw_split in E as [Hs Hne].
  assert (Hlen : (length rest < f)%nat).
  { rewrite Hs, app_length in Hl. destruct lx; [congruence|]. cbn [length] in Hl. lia. }
  destruct (IH (off + blen (fst (span is_ws s)) + blen lx) rest Hlen) as [tl ->]. eauto.
Qed.

Lemma lex_total s : exists toks, lex s = Some toks.
Proof. apply lex_from_total. lia. Qed.

(* ---- tiling ---- *)

Lemma span_stop_ws s c r : snd (span is_ws s) = c :: r -> is_ws c = false.
Proof. apply span_stop. Qed.

Lemma lex_from_tiles fuel off s toks : lex_from fuel off s = Some toks -> Tiles off s toks.
Proof.
  revert off s toks; induction fuel as [|f IH]; intros off s toks; [discriminate|].
  cbn [lex_from]. pose proof (span_app is_ws s) as Hs. pose proof (span_all is_ws s) as Hw.
  pose proof (span_stop is_ws s) as Hstop.
  destruct (span is_ws s) as [ws s1]. cbn [fst snd] in *. subst s.
  destruct (lex_raw s1) as [[[[k e] lx] rest]|] eqn:E.
  - destruct (lex_from f _ rest) as [tl|] eqn:El; [|discriminate]. intros [= <-].
    pose proof (lex_raw_not_eof _ _ _ _ _ E) as Hk.
    apply lex_raw_split in E as [Hsplit Hne].
    destruct lx as [|c lx]; [congruence|]. subst s1.
    apply Tiles_tok; cbn [mk_token ts te tk].
    + exact Hw.
    + eapply Hstop. reflexivity.
    + reflexivity.
    + reflexivity.
    + exact Hk.
    + apply (IH _ _ _ El).
  - intros [= <-].
    destruct s1 as [|c r].
    + rewrite app_nil_r. now apply Tiles_eof.
    + exfalso. eapply lex_raw_nonempty; [|exact E]. discriminate.
Qed.

Lemma lex_tiles s toks : lex s = Some toks -> Tiles 0 s toks.
Proof. apply lex_from_tiles. Qed.

(* ---- consequences of [Tiles], independent of the lexer ---- *)

Lemma tiles_last_eof off s toks :
  Tiles off s toks ->
  exists body, toks = body ++ [ {| tk := Eof; ts := off + blen s; te := off + blen s; terr := [] |} ]
               /\ Forall (fun t => tk t <> Eof) body.
Proof.
  induction 1 as [off ws Hw | off ws c lx rest t tl Hw Hc Hts Hte Hk Ht IH].
  - exists []. split; [reflexivity | constructor].
  - destruct IH as [body [-> Hb]]. exists (t :: body). split; [|now constructor].
    assert (Heq : te t + blen rest = off + blen (ws ++ (c :: lx) ++ rest)) by (rewrite Hte, Hts, !blen_app; lia).
    rewrite Heq. reflexivity.
Qed.

(* tokens are ordered, non-empty (except Eof) and do not overlap *)
Inductive Ordered : N -> list token -> Prop :=
| Ord_nil lo : Ordered lo []
| Ord_cons lo t tl : lo <= ts t -> ts t <= te t -> (tk t <> Eof -> ts t < te t) -> Ordered (te t) tl -> Ordered lo (t :: tl).

Lemma tiles_ordered off s toks : Tiles off s toks -> Ordered off toks.
Proof.
  induction 1 as [off ws Hw | off ws c lx rest t tl Hw Hc Hts Hte Hk Ht IH].
  - constructor; cbn; try lia; [congruence | constructor].
  - assert (ts t < te t) by (rewrite Hte; cbn [blen]; pose proof (ulen_pos c); lia).
    constructor; try lia; try exact IH; intros _; assumption.
Qed.

(* every token boundary is a character boundary of the text, every token is inside the text *)
Lemma tiles_boundaries off s toks :
  Tiles off s toks ->
  Forall (fun t => exists a b c, s = a ++ b ++ c /\ ts t = off + blen a /\ te t = ts t + blen b) toks.
Proof.
  induction 1 as [off ws Hw | off ws c lx rest t tl Hw Hc Hts Hte Hk Ht IH].
  - constructor; [|constructor]. exists ws, [], []. cbn. rewrite !app_nil_r. repeat split; lia.
  - constructor.
    + exists ws, (c :: lx), rest. auto.
    + eapply Forall_impl; [|exact IH]. cbn beta. intros t' [a [b [c' [Hr [H1 H2]]]]].
      exists (ws ++ (c :: lx) ++ a), b, c'. rewrite Hr. repeat split.
      * now rewrite <- !app_assoc.
      * rewrite H1, Hte, Hts, !blen_app. lia.
      * exact H2.
Qed.

(* the text is exactly: gap, token, gap, token, ..., gap - with whitespace-only gaps *)
Fixpoint weave (gaps : list text) (lexemes : list text) : text :=
  match gaps, lexemes with
  | g :: gaps', l :: lexemes' => g ++ l ++ weave gaps' lexemes'
  | g :: _, [] => g
  | [], _ => []
  end.

Lemma tiles_lossless off s toks :
  Tiles off s toks ->
  exists gaps lexemes,
    s = weave gaps lexemes /\
    length gaps = length toks /\ length lexemes = (length toks - 1)%nat /\
    Forall (fun g => forallb is_ws g = true) gaps /\
    Forall2 (fun t l => te t = ts t + blen l /\ l <> []) (removelast toks) lexemes.
Proof.
  induction 1 as [off ws Hw | off ws c lx rest t tl Hw Hc Hts Hte Hk Ht IH].
  - exists [ws], []. cbn. repeat split; auto.
  - destruct IH as [gaps [lexemes [-> [Hg [Hl [Hws Hf]]]]]].
    exists (ws :: gaps), ((c :: lx) :: lexemes).
    assert (tl <> []) by (inversion Ht; discriminate).
    repeat split.
    + cbn [length]. lia.
    + cbn [length]. destruct tl; [congruence|]. cbn [length] in *. lia.
    + now constructor.
    + destruct tl as [|t2 tl]; [congruence|]. cbn [removelast]. constructor; [|exact Hf].
      split; [exact Hte | discriminate].
Qed.
