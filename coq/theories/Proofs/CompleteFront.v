(* COMPLETENESS of the front end: a text that the implementation accepts without any diagnostic - and
   without a lexical error, which errors() does not report - is a layout of a well-typed abstract
   program, and the document holds exactly the tree the grammar mandates and the table the static
   semantics prescribes.  This is the converse of TypingProofs.no_false_positive; with it the *_valid
   theorems (stated for "a text that lexes to the tokens of a well-typed abstract program") apply
   to every [clean_doc] of Spec/Nav.v. *)
From Coq Require Import Arith Lia List Bool NArith Permutation.
From Spl Require Import Spec.Grammar Model.Parser Model.Errors Model.Lexer Proofs.LexerProofs
  Proofs.GrammarProofs Spec.Typing Proofs.CompleteBase Proofs.CompleteProg Proofs.CompleteSem.
From Spl Require Import Model.Goto Model.Refs Spec.Nav Proofs.GotoValidMain Proofs.RefsValid.
Import ListNotations.

(* ---- a token without lexical error is not an out-of-range literal ---- *)
Lemma sym_lit p k : In (p, k) sym_table -> lit_ok k = true.
Proof. cbn. intros H. repeat (destruct H as [H|H]; [inversion H; reflexivity|]). destruct H. Qed.
Lemma kw_lit p k : In (p, k) kw_table -> lit_ok k = true.
Proof. cbn. intros H. repeat (destruct H as [H|H]; [inversion H; reflexivity|]). destruct H. Qed.

Lemma lex_raw_lit s k lx rest : lex_raw s = Some (k, [], lx, rest) -> lit_ok k = true.
Proof.
  unfold lex_raw. intros H.
  repeat (apply orelse_inv in H as [H|H]).
  - unfold lex_comment in H. destruct (starts _ s); [|discriminate].
    destruct (snd _); inversion H; reflexivity.
  - unfold lex_sym in H. destruct (first_match sym_table s) as [[p j]|] eqn:E; [|discriminate].
    inversion H; subst. apply first_match_in in E as [Hin _]. eapply sym_lit; eauto.
  - unfold lex_kw in H. destruct (first_kw kw_table s) as [[p j]|] eqn:E; [|discriminate].
    inversion H; subst. apply first_kw_in in E as [Hin _]. eapply kw_lit; eauto.
  - unfold lex_char in H. destruct s as [|c r]; [discriminate|].
    destruct c as [|p]; [discriminate|]. do 6 (destruct p as [p|p|]; try discriminate).
    destruct (if starts [92; 110] r then _ else _)%N as [[[c lx'] r2]|]; [|discriminate].
    destruct r2 as [|d r3]; [inversion H|].
    destruct d as [|p]; [inversion H|].
    do 6 (destruct p as [p|p|]; try (inversion H; fail)). inversion H; reflexivity.
  - unfold lex_hex in H. destruct (starts _ s); [|discriminate].
    destruct (fst _); [inversion H|]. destruct (_ <? _)%N; inversion H; reflexivity.
  - unfold lex_int in H. destruct (fst _); [discriminate|]. destruct (_ <? _)%N; inversion H; reflexivity.
  - unfold lex_ident in H. destruct s; [discriminate|]. destruct (is_ident_start _); inversion H; reflexivity.
  - unfold lex_unknown in H. destruct s; inversion H; reflexivity.
Qed.

Lemma lex_from_lit fuel : forall off s toks, lex_from fuel off s = Some toks ->
  forall t, In t toks -> terr t = [] -> lit_ok (tk t) = true.
Proof.
  induction fuel as [|f IH]; intros off s toks H; [discriminate|]. cbn [lex_from] in H.
  destruct (lex_raw (snd (span is_ws s))) as [[[[k errs] lx] rest]|] eqn:E.
  - destruct (lex_from f _ rest) as [tl|] eqn:El; [|discriminate]. injection H as <-.
    intros t [<-|Hin] Ht.
    + cbn [mk_token terr tk] in *. destruct errs; [|discriminate]. eapply lex_raw_lit; eassumption.
    + eapply IH; eassumption.
  - injection H as <-. intros t [<-|[]] _. reflexivity.
Qed.

Definition lex_clean (toks : list token) : bool :=
  forallb (fun tok => match terr tok with [] => true | _ => false end) toks.

Lemma lex_lit t toks : lex t = Some toks -> lex_clean toks = true -> LitOk toks.
Proof.
  intros H Hc tok Hin. unfold lex_clean in Hc. rewrite forallb_forall in Hc. specialize (Hc _ Hin).
  apply (lex_from_lit _ _ _ _ H _ Hin). destruct (terr tok); [reflexivity | discriminate].
Qed.

Lemma byte_ranges_nil toks l : byte_ranges toks l = ROk [] -> l = [].
Proof.
  destruct l as [|x l]; [reflexivity|]. cbn [byte_ranges]. destruct (byte_range toks x); [|discriminate].
  cbn. destruct (byte_ranges toks l); discriminate.
Qed.

(* ---- the stages of AnalyzedSource::new ---- *)
Lemma new_doc_stages t d :
  new_doc_res t = ODone d ->
  d_text d = t /\ lex t = Some (d_toks d) /\
  exists p0 p1, parse (d_toks d) = Done p0 /\ build_res p0 = ROk (p1, d_table d) /\ analyze_res p1 (d_table d) = ROk (d_ast d).
Proof.
  unfold new_doc_res. destruct (lex t) as [toks|]; [|discriminate].
  destruct (parse toks) as [p0| |] eqn:Ep; try discriminate.
  destruct (build_res p0) as [[p1 G]|] eqn:Eb; [|discriminate].
  destruct (analyze_res p1 G) as [p2|] eqn:Ea; [|discriminate].
  intros [= <-]. cbn [d_text d_toks d_ast d_table]. repeat split. eauto.
Qed.

(* ---- Stage 1 + Stage 2: the whole front end behind the lexer ---- *)
Theorem pipeline_complete toks p0 p1 G p2 :
  LitOk toks -> parse toks = Done p0 -> build_res p0 = ROk (p1, G) -> analyze_res p1 G = ROk p2 -> tree_errors p2 = [] ->
  exists p, prog_ok p = true /\ map tk toks = flatten p ++ [Eof] /\ well_typed (expected p) G /\ p2 = expected p.
Proof.
  intros HL Hp Hb Ha He.
  pose proof (back_end_errors_back _ _ _ _ Hb Ha He) as He0.
  destruct (parse_complete toks HL p0 Hp He0) as (p & Hok & Hk & ->).
  destruct (back_end_complete _ _ _ _ (expected_clean p) Hb Ha He) as (_ & -> & Hwt).
  exists p. auto.
Qed.

Theorem front_end_complete : forall t d,
  new_doc_res t = ODone d -> doc_errors_res d = ROk [] ->
  forallb (fun tok => match terr tok with [] => true | _ => false end) (d_toks d) = true ->
  exists p G, prog_ok p = true /\ map tk (d_toks d) = flatten p ++ [Eof] /\ well_typed (expected p) G
              /\ d_ast d = expected p /\ d_table d = G.
Proof.
  intros t d Hd He Hc. destruct (new_doc_stages _ _ Hd) as (_ & Hlex & p0 & p1 & Hp & Hb & Ha).
  unfold doc_errors_res in He. apply byte_ranges_nil in He.
  destruct (pipeline_complete _ _ _ _ _ (lex_lit _ _ Hlex Hc) Hp Hb Ha He) as (p & Hok & Hk & Hwt & Hast).
  exists p, (d_table d). auto.
Qed.
Print Assumptions front_end_complete.

(* a document without diagnostics is the document of a layout of a well-typed abstract program *)
Corollary clean_doc_valid t d :
  clean_doc t d ->
  exists p G, prog_ok p = true /\ well_typed (expected p) G /\ lex t = Some (d_toks d)
              /\ map tk (d_toks d) = flatten p ++ [Eof] /\ d_ast d = expected p /\ d_table d = G.
Proof.
  intros (Hd & He & Hc). destruct (front_end_complete t d Hd He Hc) as (p & G & Hok & Hk & Hwt & Hast & HG).
  destruct (new_doc_stages _ _ Hd) as (_ & Hlex & _). exists p, G. auto 8.
Qed.

(* ---- C12 / C13 in the wording "document without diagnostics" ---- *)
Theorem full_statement_holds : full_statement.
Proof.
  intros t d o l c Hcl Ho Hcur. pose proof Hcl as (Hd & _).
  destruct (clean_doc_valid t d Hcl) as (p & G & Hok & Hwt & Hlex & Hk & _).
  exact (goto_valid p G t (d_toks d) d Hok Hwt Hlex Hk Hd o l c Ho Hcur).
Qed.
Print Assumptions full_statement_holds.

Theorem full_statement_refs_holds : full_statement_refs.
Proof.
  intros t d o l c Hcl Ho Hcur. pose proof Hcl as (Hd & _).
  destruct (clean_doc_valid t d Hcl) as (p & G & Hok & Hwt & Hlex & Hk & _).
  exact (refs_valid p G t (d_toks d) d Hok Hwt Hlex Hk Hd o l c Ho Hcur).
Qed.
Print Assumptions full_statement_refs_holds.
