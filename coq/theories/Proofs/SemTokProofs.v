(* C15 - proofs about the model of semantic_tokens.rs (Model/SemTok.v).

   Under the executable well-formedness predicate [doc_wf_b] the handler never panics and its
   answer decodes to the image of an order-preserving subsequence of the document's tokens:
   strictly increasing positions, pairwise disjoint byte ranges, every decoded token coincides
   with one lexical token, keywords / numbers / comments carry their lexical class, and every
   keyword / number / comment inside a declaration or in the trailing slice is reported (for the
   documents of AnalyzedSource::new that is every token of the document: declarations and trailing
   slice tile the token vector).
   The token half of [doc_wf_b] is proved for every output of [lex] (from C06's tiling), the
   ordering half of the tree part for every output of [parse] (from ParserSync.parse_sync). *)
From Coq Require Import Sorting.Sorted PeanoNat.
From Spl Require Import Model.SemTok Proofs.DocProofs.

Local Open Scope N_scope.

(* ------------------------------------------------------------------------------------------ *)
(* 1. positions                                                                                 *)

Definition pos_le (a b : N * N) : Prop := fst a < fst b \/ (fst a = fst b /\ snd a <= snd b).
Definition pos_lt (a b : N * N) : Prop := fst a < fst b \/ (fst a = fst b /\ snd a < snd b).

Lemma pos_le_refl a : pos_le a a.
Proof. unfold pos_le. lia. Qed.
Lemma pos_le_trans a b c : pos_le a b -> pos_le b c -> pos_le a c.
Proof. unfold pos_le. lia. Qed.
Lemma pos_lt_le_trans a b c : pos_lt a b -> pos_le b c -> pos_lt a c.
Proof. unfold pos_le, pos_lt. lia. Qed.
Lemma pos_le_lt_trans a b c : pos_le a b -> pos_lt b c -> pos_lt a c.
Proof. unfold pos_le, pos_lt. lia. Qed.
Lemma pos_lt_trans a b c : pos_lt a b -> pos_lt b c -> pos_lt a c.
Proof. unfold pos_lt. lia. Qed.
Lemma pos_lt_le a b : pos_lt a b -> pos_le a b.
Proof. unfold pos_le, pos_lt. lia. Qed.
Lemma pos_lt_irrefl a : ~ pos_lt a a.
Proof. unfold pos_lt. lia. Qed.

Lemma pos_from_ge s idx line ch i : pos_le (line, ch) (pos_from idx line ch i s).
Proof.
  destruct (pos_from idx line ch i s) as [pl pc] eqn:E. apply pos_mono in E.
  unfold pos_le; cbn [fst snd]. lia.
Qed.

Lemma step_ge c r line ch : pos_le (line, ch) (step c r line ch).
Proof. pose proof (step_mono c r line ch). unfold pos_le; cbn [fst snd]. lia. Qed.

Lemma pos_from_mono s : forall a b line ch i,
  a <= b -> pos_le (pos_from a line ch i s) (pos_from b line ch i s).
Proof.
  induction s as [|c r IH]; intros a b line ch i Hab; [apply pos_le_refl|].
  rewrite !pos_cons.
  destruct (a <=? i) eqn:Ea, (b <=? i) eqn:Eb; b2p.
  - apply pos_le_refl.
  - eapply pos_le_trans; [apply (step_ge c r line ch)|].
    destruct (step c r line ch) as [l' c'] eqn:Es. cbn [fst snd]. apply pos_from_ge.
  - lia.
  - now apply IH.
Qed.

Lemma pos_from_strict pre : forall c rest a b line ch i,
  a = i + blen pre -> a < b -> isnl c = false ->
  pos_lt (pos_from a line ch i (pre ++ c :: rest)) (pos_from b line ch i (pre ++ c :: rest)).
Proof.
  induction pre as [|x pre IH]; intros c rest a b line ch i Ha Hab Hc; cbn [app blen] in *.
  - rewrite !pos_cons.
    replace (a <=? i) with true by (symmetry; apply N.leb_le; lia).
    replace (b <=? i) with false by (symmetry; apply N.leb_gt; lia).
    rewrite (step_regular c rest line ch Hc). cbn [fst snd].
    eapply pos_lt_le_trans; [|apply pos_from_ge].
    pose proof (u16len_bounds c). unfold pos_lt; cbn [fst snd]. lia.
  - rewrite !pos_cons. pose proof (ulen_pos x).
    replace (a <=? i) with false by (symmetry; apply N.leb_gt; lia).
    replace (b <=? i) with false by (symmetry; apply N.leb_gt; lia).
    apply IH; [lia | lia | exact Hc].
Qed.

Lemma as_position_mono t a b : a <= b -> pos_le (as_position a t) (as_position b t).
Proof. apply pos_from_mono. Qed.

Lemma as_position_strict t pre c rest a b :
  t = pre ++ c :: rest -> blen pre = a -> a < b -> isnl c = false ->
  pos_lt (as_position a t) (as_position b t).
Proof. intros -> Ha Hab Hc. apply pos_from_strict; [lia | exact Hab | exact Hc]. Qed.

Lemma as_position_0 t : as_position 0 t = (0, 0).
Proof. destruct t as [|c r]; reflexivity. Qed.

(* ------------------------------------------------------------------------------------------ *)
(* 2. byte slices of the text and the token half of the well-formedness predicate               *)

Lemma split_bytes_spec s : forall n a b, split_bytes n s = Some (a, b) -> s = a ++ b /\ blen a = n.
Proof.
  induction s as [|c r IH]; intros n a b H; cbn [split_bytes] in H.
  - destruct (n =? 0) eqn:E; [|discriminate]. b2p. injection H as <- <-. now split.
  - destruct (n =? 0) eqn:E.
    + b2p. injection H as <- <-. now split.
    + destruct (n <? ulen c) eqn:E1; [discriminate|].
      destruct (split_bytes (n - ulen c) r) as [[a' b']|] eqn:E2; [|discriminate].
      injection H as <- <-. apply IH in E2 as [-> Hb]. b2p. split; [reflexivity|].
      cbn [blen]. lia.
Qed.

(* [Sliced t k m]: the byte range of token k is the slice m of t, on character boundaries *)
Definition Sliced (t : text) (k : token) (a m c : text) : Prop :=
  t = a ++ m ++ c /\ blen a = ts k /\ ts k + blen m = te k.

Lemma sliced_text_slice t k a m c : Sliced t k a m c -> text_slice t (ts k) (te k) = Some m.
Proof.
  intros (-> & Ha & Hm). unfold text_slice.
  replace (te k <? ts k) with false by (symmetry; apply N.ltb_ge; lia).
  rewrite <- Ha, split_bytes_app. replace (te k - blen a) with (blen m) by lia.
  now rewrite split_bytes_app.
Qed.

Definition clean_at (t : text) (k : token) : Prop :=
  exists a c r, t = a ++ c :: r /\ blen a = ts k /\ isnl c = false.

(* the Prop reading of [toks_wf_from] *)
Fixpoint TokChain (t : text) (lo : N) (l : list token) : Prop :=
  match l with
  | [] => True
  | k :: r =>
      lo <= ts k /\ ts k <= te k /\ (exists a m c, Sliced t k a m c) /\
      (r <> [] -> ts k < te k /\ clean_at t k) /\
      TokChain t (te k) r
  end.

Lemma clean_head_isnl c r : clean_head (c :: r) = true -> isnl c = false.
Proof. cbn [clean_head]. unfold isnl. now rewrite negb_true_iff. Qed.

Lemma toks_wf_chain t : forall l pre rest off,
  t = pre ++ rest -> blen pre = off -> toks_wf_from rest off l = true -> TokChain t off l.
Proof.
  induction l as [|k r IH]; intros pre rest off Ht Hoff H; cbn [toks_wf_from TokChain] in *; [exact I|].
  destruct (split_bytes (ts k - off) rest) as [[g rest1]|] eqn:E1; [|b2p; discriminate].
  destruct (split_bytes (te k - ts k) rest1) as [[m rest2]|] eqn:E2; [|b2p; discriminate].
  apply split_bytes_spec in E1 as [-> Hg]. apply split_bytes_spec in E2 as [-> Hm].
  b2p.
  assert (Hsl : Sliced t k (pre ++ g) m rest2).
  { unfold Sliced. rewrite Ht, <- app_assoc, blen_app. repeat split; lia. }
  repeat split; try lia.
  - now exists (pre ++ g), m, rest2.
  - destruct r as [|k2 r2]; [congruence|]. b2p. lia.
  - destruct r as [|k2 r2]; [congruence|]. b2p.
    destruct m as [|c m']; [cbn [blen] in Hm; lia|].
    exists (pre ++ g), c, (m' ++ rest2). destruct Hsl as (Hs & Ha & _). repeat split.
    + rewrite Hs. reflexivity.
    + exact Ha.
    + match goal with Hc : clean_head _ = true |- _ => exact (clean_head_isnl _ _ Hc) end.
  - apply (IH (pre ++ g ++ m) rest2); [rewrite Ht, <- !app_assoc; reflexivity | rewrite !blen_app; lia |].
    destruct r; b2p; assumption.
Qed.

Lemma doc_wf_chain d : doc_wf_b d = true -> TokChain (d_text d) 0 (d_toks d).
Proof.
  unfold doc_wf_b. intros H. b2p. now apply (toks_wf_chain (d_text d) (d_toks d) [] (d_text d) 0).
Qed.

(* [Before t k1 k2]: k1 is a non-empty token that starts on a character other than a line
   terminator and ends before k2 starts *)
Definition Before (t : text) (k1 k2 : token) : Prop := ts k1 < te k1 /\ te k1 <= ts k2 /\ clean_at t k1.

Lemma chain_lower t : forall l lo, TokChain t lo l -> Forall (fun k => lo <= ts k) l.
Proof.
  induction l as [|k r IH]; intros lo H; [constructor|]. cbn [TokChain] in H.
  destruct H as (H1 & H2 & _ & _ & H5). constructor; [exact H1|].
  apply IH in H5. eapply Forall_impl; [|exact H5]. cbn. intros; lia.
Qed.

Lemma chain_sorted t : forall l lo, TokChain t lo l -> StronglySorted (Before t) l.
Proof.
  induction l as [|k r IH]; intros lo H; [constructor|]. cbn [TokChain] in H.
  destruct H as (H1 & H2 & _ & H4 & H5). constructor; [now apply IH in H5|].
  destruct r as [|k2 r2]; [constructor|]. destruct H4 as [Hne Hcl]; [congruence|].
  apply chain_lower in H5. eapply Forall_impl; [|exact H5]. cbn. intros k' Hk'. now repeat split.
Qed.

Lemma chain_sliced t : forall l lo, TokChain t lo l -> Forall (fun k => exists a m c, Sliced t k a m c) l.
Proof.
  induction l as [|k r IH]; intros lo H; [constructor|]. cbn [TokChain] in H.
  destruct H as (_ & _ & H3 & _ & H5). constructor; [exact H3 | now apply IH in H5].
Qed.

Lemma before_pos_lt t k1 k2 : Before t k1 k2 ->
  pos_lt (as_position (ts k1) t) (as_position (ts k2) t).
Proof.
  intros (Hne & Hle & a & c & r & Ht & Ha & Hc). apply (as_position_strict t a c r); try assumption. lia.
Qed.

(* ------------------------------------------------------------------------------------------ *)
(* 3. order-preserving subsequences                                                             *)

Inductive Subseq {A : Type} : list A -> list A -> Prop :=
| Sub_nil l : Subseq [] l
| Sub_keep x a b : Subseq a b -> Subseq (x :: a) (x :: b)
| Sub_skip x a b : Subseq a b -> Subseq a (x :: b).

Lemma Subseq_refl {A} (l : list A) : Subseq l l.
Proof. induction l; constructor; assumption. Qed.

Lemma Subseq_prefix {A} (p a b : list A) : Subseq a b -> Subseq a (p ++ b).
Proof. intros H. induction p; cbn [app]; [exact H | now constructor]. Qed.

Lemma Subseq_app {A} (a1 b1 a2 b2 : list A) : Subseq a1 b1 -> Subseq a2 b2 -> Subseq (a1 ++ a2) (b1 ++ b2).
Proof.
  intros H1 H2. induction H1; cbn [app].
  - now apply Subseq_prefix.
  - now constructor.
  - now constructor.
Qed.

Lemma Subseq_firstn {A} (l : list A) : forall n, Subseq (firstn n l) l.
Proof.
  induction l as [|x l IH]; intros n; [rewrite firstn_nil; constructor|].
  destruct n as [|n]; cbn [firstn]; constructor. apply IH.
Qed.

Lemma Subseq_nil_inv {A} (a : list A) : Subseq a [] -> a = [].
Proof. inversion 1; reflexivity. Qed.

Lemma Subseq_trans {A} (a b c : list A) : Subseq a b -> Subseq b c -> Subseq a c.
Proof.
  intros H1 H2. revert a H1. induction H2 as [l | x b c H2 IH | x b c H2 IH]; intros a H1.
  - apply Subseq_nil_inv in H1 as ->. constructor.
  - inversion H1; subst.
    + constructor.
    + constructor. now apply IH.
    + apply Sub_skip. now apply IH.
  - apply Sub_skip. now apply IH.
Qed.

Lemma Subseq_Forall {A} (P : A -> Prop) (a b : list A) : Subseq a b -> Forall P b -> Forall P a.
Proof.
  induction 1; intros HF; [constructor | |]; inversion HF; subst; [constructor|]; auto.
Qed.

Lemma Subseq_In {A} (a b : list A) x : Subseq a b -> In x a -> In x b.
Proof.
  induction 1; cbn [In]; [tauto | |]; intros H'; [destruct H' as [->|H']; [now left | right; auto] | right; auto].
Qed.

Lemma Subseq_sorted {A} (R : A -> A -> Prop) (a b : list A) :
  Subseq a b -> StronglySorted R b -> StronglySorted R a.
Proof.
  induction 1 as [l | x a b H IH | x a b H IH]; intros HS; [constructor | |].
  - apply StronglySorted_inv in HS as [HS HF]. constructor; [now apply IH|].
    now apply (Subseq_Forall _ a b).
  - apply StronglySorted_inv in HS as [HS _]. now apply IH.
Qed.

Lemma Subseq_map {A B} (f : A -> B) (a b : list A) : Subseq a b -> Subseq (map f a) (map f b).
Proof. induction 1; cbn [map]; constructor; assumption. Qed.

(* ------------------------------------------------------------------------------------------ *)
(* 4. the handler as one emission over the tagged sequence of visited tokens                    *)

Definition tagged := (token * option (N * N))%type.

Fixpoint emit (t : text) (l : list tagged) (prev : N * N) : sres (list semtok * (N * N)) :=
  match l with
  | [] => SOk ([], prev)
  | (k, oc) :: r =>
      match oc with
      | Some (ty, md) =>
          let pos := as_position (ts k) t in
          dos st <- create_semantic_token_at pos k prev t ty md;
          dos res <- emit t r pos;
          SOk (st :: fst res, snd res)
      | None => emit t r prev
      end
  end.

Fixpoint tag (cls : nat -> token -> option (N * N)) (idx : nat) (l : list token) : list tagged :=
  match l with
  | [] => []
  | k :: r => (k, cls idx k) :: tag cls (S idx) r
  end.

Lemma tag_fst cls : forall l idx, map fst (tag cls idx l) = l.
Proof. induction l as [|k r IH]; intros idx; cbn [tag map fst]; [reflexivity | now rewrite IH]. Qed.

Lemma collect_emit cls t : forall l idx prev, collect cls t idx l prev = emit t (tag cls idx l) prev.
Proof.
  induction l as [|k r IH]; intros idx prev; cbn [collect tag emit]; [reflexivity|].
  destruct (cls idx k) as [[ty md]|]; [|apply IH].
  destruct (create_semantic_token_at _ k prev t ty md); cbn [sbind]; [|reflexivity].
  now rewrite IH.
Qed.

Lemma emit_app t : forall l1 l2 prev,
  emit t (l1 ++ l2) prev =
  dos r1 <- emit t l1 prev; dos r2 <- emit t l2 (snd r1); SOk (fst r1 ++ fst r2, snd r2).
Proof.
  induction l1 as [|[k oc] r IH]; intros l2 prev; cbn [app emit].
  - cbn [sbind fst snd app]. destruct (emit t l2 prev) as [[d p]|]; reflexivity.
  - destruct oc as [[ty md]|]; [|apply IH].
    destruct (create_semantic_token_at _ k prev t ty md); cbn [sbind]; [|reflexivity].
    rewrite IH. destruct (emit t r (as_position (ts k) t)) as [[d1 p1]|]; cbn [sbind fst snd]; [|reflexivity].
    destruct (emit t l2 p1) as [[d2 p2]|]; reflexivity.
Qed.

Fixpoint classified (l : list tagged) : list (token * (N * N)) :=
  match l with
  | [] => []
  | (k, Some c) :: r => (k, c) :: classified r
  | (k, None) :: r => classified r
  end.

Lemma classified_app l1 l2 : classified (l1 ++ l2) = classified l1 ++ classified l2.
Proof.
  induction l1 as [|[k [c|]] r IH]; cbn [app classified]; [reflexivity | now rewrite IH | exact IH].
Qed.

Lemma classified_subseq l : Subseq (map fst (classified l)) (map fst l).
Proof.
  induction l as [|[k [c|]] r IH]; cbn [classified map fst]; constructor; assumption.
Qed.

Fixpoint SortedFrom (b : N) (l : list tagged) : Prop :=
  match l with
  | [] => True
  | (k, _) :: r => b <= ts k /\ SortedFrom (ts k) r
  end.

Lemma SortedFrom_weaken l : forall b b', b <= b' -> SortedFrom b' l -> SortedFrom b l.
Proof. destruct l as [|[k oc] r]; cbn [SortedFrom]; [tauto|]. intros b b' Hb [H1 H2]. split; [lia | exact H2]. Qed.

Lemma emit_ok t : forall l b prev,
  prev = as_position b t -> SortedFrom b l ->
  Forall (fun e : tagged => exists a m c, Sliced t (fst e) a m c) l ->
  exists data p', emit t l prev = SOk (data, p') /\
                  decode_from (fst prev) (snd prev) data = map (tok_view t) (classified l).
Proof.
  induction l as [|[k oc] r IH]; intros b prev Hprev Hs Hf; cbn [emit classified].
  - exists [], prev. split; reflexivity.
  - cbn [SortedFrom] in Hs. destruct Hs as [Hb Hs]. inversion Hf as [|? ? Hk Hr]; subst.
    destruct oc as [[ty md]|].
    2:{ apply (IH b); [reflexivity | now apply (SortedFrom_weaken r b (ts k)) | exact Hr]. }
    cbn [fst] in Hk. destruct Hk as (a & m & c & Hsl).
    pose proof (as_position_mono t b (ts k) Hb) as Hle.
    destruct (IH (ts k) (as_position (ts k) t) eq_refl Hs Hr) as (data & p' & He & Hd).
    unfold create_semantic_token_at. rewrite (sliced_text_slice t k a m c Hsl).
    destruct (as_position (ts k) t) as [line ch] eqn:Epos.
    destruct (as_position b t) as [pl pc] eqn:Eprev. cbn [fst snd] in *.
    unfold pos_le in Hle; cbn [fst snd] in Hle.
    replace (line <? pl) with false by (symmetry; apply N.ltb_ge; lia).
    destruct (line =? pl) eqn:El; b2p.
    + subst pl. replace (ch <? pc) with false by (symmetry; apply N.ltb_ge; lia).
      cbn [sbind]. rewrite He. cbn [sbind fst snd]. eexists _, _. split; [reflexivity|].
      cbn [decode_from map st_dl st_ds st_len st_ty st_mod].
      replace (line - line =? 0) with true by (symmetry; apply N.eqb_eq; lia).
      replace (line + (line - line)) with line by lia.
      replace (pc + (ch - pc)) with ch by lia.
      rewrite Hd. f_equal. unfold tok_view, tok_len. cbn [fst snd]. rewrite Epos.
      now rewrite (sliced_text_slice t k a m c Hsl).
    + cbn [sbind]. rewrite He. cbn [sbind fst snd]. eexists _, _. split; [reflexivity|].
      cbn [decode_from map st_dl st_ds st_len st_ty st_mod].
      replace (line - pl =? 0) with false by (symmetry; apply N.eqb_neq; lia).
      replace (pl + (line - pl)) with line by lia.
      rewrite Hd. f_equal. unfold tok_view, tok_len. cbn [fst snd]. rewrite Epos.
      now rewrite (sliced_text_slice t k a m c Hsl).
Qed.

(* ------------------------------------------------------------------------------------------ *)
(* 5. the tree half of the well-formedness predicate and the sequence of visited tokens          *)

Local Open Scope nat_scope.

Fixpoint DeclsWf (toks : list token) (lo : nat) (l : list (gdecl * nat)) (hi : nat) : Prop :=
  match l with
  | [] => lo <= hi
  | (g, off) :: r =>
      let inf := gdecl_info g in
      lo <= off + i_s inf /\ i_s inf <= i_e inf /\ off + i_e inf <= length toks /\
      name_is_ident toks off (gdecl_name g) = true /\
      DeclsWf toks (off + i_e inf) r hi
  end.

Lemma decls_wf_prop toks hi : forall l lo, decls_wf_b toks lo l hi = true -> DeclsWf toks lo l hi.
Proof.
  induction l as [|[g off] r IH]; intros lo H; cbn [decls_wf_b DeclsWf] in *; [now apply Nat.leb_le|].
  rewrite !andb_true_iff, !Nat.leb_le in H. destruct H as ((((H1 & H2) & H3) & H4) & H5).
  repeat split; try assumption. now apply IH.
Qed.

Lemma skipn_skipn {A} (l : list A) : forall x y, skipn x (skipn y l) = skipn (x + y) l.
Proof.
  induction l as [|a l IH]; intros x y; [now rewrite !skipn_nil|].
  destruct y as [|y]; [now rewrite Nat.add_0_r|].
  rewrite Nat.add_succ_r. cbn [skipn]. apply IH.
Qed.

Definition seg (toks : list token) (a b : nat) : list token := firstn (b - a) (skipn a toks).

(* the token slice of a declaration *)
Definition decl_seg (d : doc) (g : gdecl) (off : nat) : list token :=
  seg (d_toks d) (off + i_s (gdecl_info g)) (off + i_e (gdecl_info g)).

Definition visited_decl (d : doc) (g : gdecl) (off : nat) : list tagged :=
  tag (decl_class g (d_table d) (decl_seg d g off)) (i_s (gdecl_info g)) (decl_seg d g off).

Fixpoint visited (d : doc) (l : list (gdecl * nat)) : list tagged :=
  match l with
  | [] => []
  | (g, off) :: r => visited_decl d g off ++ visited d r
  end.

Lemma collect_decl_emit d g off prev :
  i_s (gdecl_info g) <= i_e (gdecl_info g) -> off + i_e (gdecl_info g) <= length (d_toks d) ->
  collect_decl d g off prev = emit (d_text d) (visited_decl d g off) prev.
Proof.
  intros H1 H2. unfold collect_decl, visited_decl, decl_seg, slice_from, slice, info_range, seg. cbn [fst snd].
  replace (Nat.ltb (length (d_toks d)) off) with false by (symmetry; apply Nat.ltb_ge; lia).
  cbn [lift sbind].
  replace (Nat.ltb (i_e (gdecl_info g)) (i_s (gdecl_info g))) with false by (symmetry; apply Nat.ltb_ge; lia).
  rewrite skipn_length.
  replace (Nat.ltb (length (d_toks d) - off) (i_e (gdecl_info g))) with false by (symmetry; apply Nat.ltb_ge; lia).
  cbn [lift sbind]. rewrite collect_emit, skipn_skipn.
  replace (i_s (gdecl_info g) + off) with (off + i_s (gdecl_info g)) by lia.
  replace (off + i_e (gdecl_info g) - (off + i_s (gdecl_info g))) with (i_e (gdecl_info g) - i_s (gdecl_info g)) by lia.
  reflexivity.
Qed.

Lemma collect_decls_emit d hi : forall l lo prev,
  DeclsWf (d_toks d) lo l hi ->
  collect_decls d l prev = emit (d_text d) (visited d l) prev.
Proof.
  induction l as [|[g off] r IH]; intros lo prev H; cbn [collect_decls visited emit]; [reflexivity|].
  cbn [DeclsWf] in H. destruct H as (_ & H2 & H3 & _ & H5).
  rewrite (collect_decl_emit d g off prev H2 H3), emit_app.
  destruct (emit (d_text d) (visited_decl d g off) prev) as [[d1 p1]|]; cbn [sbind fst snd]; [|reflexivity].
  rewrite (IH _ p1 H5).
  destruct (emit (d_text d) (visited d r) p1) as [[d2 p2]|]; reflexivity.
Qed.

(* the trailing slice: the tokens from min(end of the program's range, number of tokens) on *)
Definition visited_trailing (d : doc) : list tagged :=
  tag class_error (trailing_start d) (seg (d_toks d) (trailing_start d) (length (d_toks d))).

Definition visited_all (d : doc) : list tagged := visited d (pg_decls (d_ast d)) ++ visited_trailing d.

Lemma trailing_start_le d : trailing_start d <= length (d_toks d).
Proof. apply Nat.le_min_r. Qed.

Lemma collect_trailing_emit d prev :
  collect_trailing d prev = emit (d_text d) (visited_trailing d) prev.
Proof.
  unfold collect_trailing, visited_trailing, slice, seg. cbn [fst snd].
  pose proof (trailing_start_le d) as Hle.
  replace (Nat.ltb (length (d_toks d)) (trailing_start d)) with false by (symmetry; apply Nat.ltb_ge; lia).
  rewrite Nat.ltb_irrefl. cbn [lift sbind]. apply collect_emit.
Qed.

Lemma skipn_split {A} (l : list A) a b : a <= b -> skipn a l = firstn (b - a) (skipn a l) ++ skipn b l.
Proof.
  intros H. rewrite <- (firstn_skipn (b - a) (skipn a l)) at 1. f_equal.
  rewrite skipn_skipn. f_equal. lia.
Qed.

Lemma visited_subseq d hi : forall l lo,
  DeclsWf (d_toks d) lo l hi -> lo <= length (d_toks d) ->
  Subseq (map fst (visited d l) ++ seg (d_toks d) (Nat.min hi (length (d_toks d))) (length (d_toks d)))
         (skipn lo (d_toks d)).
Proof.
  induction l as [|[g off] r IH]; intros lo H Hlo; cbn [visited map app].
  - cbn [DeclsWf] in H.
    assert (Ha : lo <= Nat.min hi (length (d_toks d))) by (apply Nat.min_glb; assumption).
    unfold seg. remember (skipn (Nat.min hi (length (d_toks d))) (d_toks d)) as T eqn:ET.
    rewrite (skipn_split (d_toks d) lo (Nat.min hi (length (d_toks d)))) by exact Ha.
    rewrite <- ET. apply Subseq_prefix, Subseq_firstn.
  - cbn [DeclsWf] in H. destruct H as (H1 & H2 & H3 & _ & H5).
    rewrite map_app, <- app_assoc. unfold visited_decl. rewrite tag_fst. unfold decl_seg, seg at 1.
    rewrite (skipn_split (d_toks d) lo (off + i_s (gdecl_info g))) by lia.
    apply Subseq_prefix.
    remember (firstn (off + i_e (gdecl_info g) - (off + i_s (gdecl_info g))) (skipn (off + i_s (gdecl_info g)) (d_toks d))) as S eqn:ES.
    rewrite (skipn_split (d_toks d) (off + i_s (gdecl_info g)) (off + i_e (gdecl_info g))) by lia.
    rewrite <- ES.
    apply Subseq_app; [apply Subseq_refl | now apply IH].
Qed.

(* ------------------------------------------------------------------------------------------ *)
(* 6. the theorems                                                                               *)

Local Open Scope N_scope.

(* the reported tokens with their classes, in the order of the answer *)
Definition emitted (d : doc) : list (token * (N * N)) := classified (visited_all d).

Lemma sorted_from_of_before t : forall (l : list tagged) b,
  StronglySorted (Before t) (map fst l) -> Forall (fun e : tagged => b <= ts (fst e)) l -> SortedFrom b l.
Proof.
  induction l as [|[k oc] r IH]; intros b HS HF; cbn [SortedFrom]; [exact I|].
  cbn [map fst] in HS. apply StronglySorted_inv in HS as [HS HB]. inversion HF as [|? ? Hk Hr]; subst.
  split; [exact Hk|]. apply IH; [exact HS|].
  rewrite Forall_map in HB. eapply Forall_impl; [|exact HB]. cbn. intros e (H1 & H2 & _). lia.
Qed.

Lemma sorted_map {A B} (f : A -> B) (R : B -> B -> Prop) (l : list A) :
  StronglySorted (fun a b => R (f a) (f b)) l -> StronglySorted R (map f l).
Proof.
  induction 1 as [|a l HS IH HF]; cbn [map]; constructor; [exact IH|]. now rewrite Forall_map.
Qed.

Lemma sorted_unmap {A B} (f : A -> B) (R : B -> B -> Prop) (l : list A) :
  StronglySorted R (map f l) -> StronglySorted (fun a b => R (f a) (f b)) l.
Proof.
  induction l as [|a l IH]; cbn [map]; intros H; [constructor|].
  apply StronglySorted_inv in H as [HS HF]. constructor; [now apply IH | now rewrite Forall_map in HF].
Qed.

Lemma sorted_impl {A} (R S : A -> A -> Prop) (l : list A) :
  (forall a b, R a b -> S a b) -> StronglySorted R l -> StronglySorted S l.
Proof.
  intros HRS. induction 1 as [|a l HS IH HF]; constructor; [exact IH|].
  eapply Forall_impl; [|exact HF]. intros; now apply HRS.
Qed.

Section Wf.
Variable d : doc.
Hypothesis Hwf : doc_wf_b d = true.

Local Notation t := (d_text d).
Local Notation toks := (d_toks d).
Local Notation decls := (pg_decls (d_ast d)).

Lemma wf_decls : DeclsWf toks 0 decls (i_e (pg_info (d_ast d))).
Proof. unfold doc_wf_b in Hwf. apply andb_true_iff in Hwf as [_ H]. now apply decls_wf_prop. Qed.

Lemma visited_sub : Subseq (map fst (visited_all d)) toks.
Proof.
  unfold visited_all, visited_trailing. rewrite map_app, tag_fst.
  exact (visited_subseq d _ decls 0 wf_decls (Nat.le_0_l _)).
Qed.

Lemma visited_sorted : StronglySorted (Before t) (map fst (visited_all d)).
Proof. exact (Subseq_sorted _ _ _ visited_sub (chain_sorted t toks 0 (doc_wf_chain d Hwf))). Qed.

Lemma emitted_sub : Subseq (map fst (emitted d)) toks.
Proof. exact (Subseq_trans _ _ _ (classified_subseq _) visited_sub). Qed.

Lemma emitted_sorted : StronglySorted (Before t) (map fst (emitted d)).
Proof. exact (Subseq_sorted _ _ _ (classified_subseq _) visited_sorted). Qed.

(* no panic, and the answer decodes to the views of the reported tokens *)
Lemma semtok_answer :
  exists data, semantic_tokens d = SOk data /\ decode data = map (tok_view t) (emitted d).
Proof.
  unfold semantic_tokens. rewrite (collect_decls_emit d _ decls 0 (0, 0) wf_decls).
  destruct (emit_ok t (visited_all d) 0 (0, 0)) as (data & p' & He & Hd).
  - now rewrite as_position_0.
  - apply (sorted_from_of_before t); [exact visited_sorted|].
    apply Forall_forall. intros; lia.
  - pose proof (Subseq_Forall _ _ _ visited_sub (chain_sliced t toks 0 (doc_wf_chain d Hwf))) as HF.
    rewrite Forall_map in HF. exact HF.
  - exists data. unfold visited_all in He. rewrite emit_app in He.
    destruct (emit t (visited d decls) (0, 0)) as [[d1 p1]|]; cbn [sbind fst snd] in *; [|discriminate].
    rewrite collect_trailing_emit.
    destruct (emit t (visited_trailing d) p1) as [[d2 p2]|]; cbn [sbind fst snd] in *; [|discriminate].
    injection He as <- _. split; [reflexivity | exact Hd].
Qed.

End Wf.

Definition at_pos (a : abstok) : N * N := (at_line a, at_col a).

Theorem semtok_no_panic d : doc_wf_b d = true -> exists data, semantic_tokens d = SOk data.
Proof. intros H. destruct (semtok_answer d H) as (data & H1 & _). now exists data. Qed.

(* the decoded stream is the image of an order-preserving subsequence of the document's tokens:
   every decoded token is the view (position of its first byte, UTF-16 length of its text) of one
   lexical token, the tokens are visited in text order without repetition *)
Theorem semtok_coincide d data :
  doc_wf_b d = true -> semantic_tokens d = SOk data ->
  decode data = map (tok_view (d_text d)) (emitted d) /\ Subseq (map fst (emitted d)) (d_toks d).
Proof.
  intros H Hd. destruct (semtok_answer d H) as (data' & H1 & H2).
  rewrite H1 in Hd. injection Hd as <-. split; [exact H2 | exact (emitted_sub d H)].
Qed.

Theorem semtok_increasing d data :
  doc_wf_b d = true -> semantic_tokens d = SOk data ->
  StronglySorted (fun a b => pos_lt (at_pos a) (at_pos b)) (decode data).
Proof.
  intros H Hd. destruct (semtok_coincide d data H Hd) as [-> _].
  apply sorted_map. pose proof (sorted_unmap _ _ _ (emitted_sorted d H)) as HS.
  eapply sorted_impl; [|exact HS]. cbn beta. intros a b HB.
  apply before_pos_lt in HB. unfold at_pos, tok_view; cbn [at_line at_col].
  destruct (as_position (ts (fst a)) (d_text d)), (as_position (ts (fst b)) (d_text d)). exact HB.
Qed.

Theorem semtok_disjoint d :
  doc_wf_b d = true ->
  StronglySorted (fun k1 k2 : token => (ts k1 < te k1 /\ te k1 <= ts k2)%N) (map fst (emitted d)).
Proof.
  intros H. eapply sorted_impl; [|exact (emitted_sorted d H)]. intros a b (H1 & H2 & _). now split.
Qed.

(* ------------------------------------------------------------------------------------------ *)
(* 7. lexical classes                                                                            *)

Local Open Scope nat_scope.

(* a reported keyword / number / comment carries exactly its lexical class and no modifier; every
   other reported token is an identifier *)
Definition lex_ok (e : token * (N * N)) : Prop :=
  match map_class (tk (fst e)) with
  | Some c => snd e = c
  | None => is_ident (tk (fst e)) = true
  end.

Lemma tag_forall (P : token * (N * N) -> Prop) cls : forall l idx,
  (forall j k c, nth_error l j = Some k -> cls (idx + j) k = Some c -> P (k, c)) ->
  Forall P (classified (tag cls idx l)).
Proof.
  induction l as [|k r IH]; intros idx H; cbn [tag classified]; [constructor|].
  assert (Hr : Forall P (classified (tag cls (S idx) r))).
  { apply IH. intros j k' c Hn Hc. apply (H (S j) k' c); [exact Hn|]. now rewrite Nat.add_succ_r. }
  destruct (cls idx k) as [c|] eqn:E; [|exact Hr].
  constructor; [|exact Hr]. apply (H 0 k c); [reflexivity | now rewrite Nat.add_0_r].
Qed.

Lemma nth_error_firstn_some {A} (l : list A) : forall n j x, nth_error (firstn n l) j = Some x -> nth_error l j = Some x.
Proof.
  induction l as [|a l IH]; intros n j x H.
  - rewrite firstn_nil in H. now destruct j.
  - destruct n as [|n]; [now destruct j|]. destruct j as [|j]; cbn in *; [exact H | now apply IH in H].
Qed.

Lemma nth_error_skipn {A} (l : list A) : forall a j, nth_error (skipn a l) j = nth_error l (a + j).
Proof.
  induction l as [|x l IH]; intros a j.
  - rewrite skipn_nil. now destruct j, a.
  - destruct a as [|a]; [reflexivity|]. cbn [skipn Nat.add nth_error]. apply IH.
Qed.

Lemma map_class_ident k : is_ident k = true -> map_class k = None.
Proof. destruct k; cbn; congruence. Qed.

Lemma map_class_some_not_ident k c : map_class k = Some c -> is_ident k = false.
Proof. destruct k; cbn; congruence. Qed.

Lemma name_token_ident toks off name idx k :
  name_is_ident toks off name = true -> opt_name_token name idx = true ->
  nth_error toks (off + idx) = Some k -> is_ident (tk k) = true.
Proof.
  destruct name as [n|]; cbn [name_is_ident opt_name_token]; [|discriminate].
  unfold is_name_token. intros H1 H2 Hk. apply andb_true_iff in H2 as [Hlt Heq].
  rewrite Hlt in H1. apply Nat.eqb_eq in Heq. cbn [Nat.add] in Heq.
  replace (off + i_e (id_info n) - 1) with (off + idx) in H1 by lia.
  now rewrite Hk in H1.
Qed.

Lemma decl_class_lex_ok toks table sl g off idx k c :
  name_is_ident toks off (gdecl_name g) = true ->
  nth_error toks (off + idx) = Some k ->
  decl_class g table sl idx k = Some c -> lex_ok (k, c).
Proof.
  intros Hn Hk Hc. unfold lex_ok; cbn [fst snd].
  destruct g as [td | pd | inf]; cbn [decl_class gdecl_name] in *.
  - unfold class_type_dec in Hc.
    destruct (opt_name_token (td_name td) idx) eqn:En.
    { pose proof (name_token_ident _ _ _ _ _ Hn En Hk) as Hi. now rewrite (map_class_ident _ Hi). }
    destruct (map_class (tk k)) as [c'|] eqn:Em.
    + pose proof (map_class_some_not_ident _ _ Em) as Hi.
      destruct (tk k); cbn [is_ident] in Hi; try discriminate; congruence.
    + destruct (tk k); cbn [is_ident]; try reflexivity; congruence.
  - unfold class_proc_dec in Hc. cbv zeta in Hc.
    destruct (opt_name_token (pd_name pd) idx) eqn:En.
    { pose proof (name_token_ident _ _ _ _ _ Hn En Hk) as Hi. now rewrite (map_class_ident _ Hi). }
    destruct (map_class (tk k)) as [c'|] eqn:Em.
    + pose proof (map_class_some_not_ident _ _ Em) as Hi.
      destruct (tk k); cbn [is_ident] in Hi; try discriminate; congruence.
    + destruct (tk k); cbn [is_ident]; try reflexivity; congruence.
  - unfold class_error in Hc. now rewrite Hc.
Qed.

Lemma visited_lex_ok d hi : forall l lo, DeclsWf (d_toks d) lo l hi -> Forall lex_ok (classified (visited d l)).
Proof.
  induction l as [|[g off] r IH]; intros lo H; cbn [visited classified]; [constructor|].
  cbn [DeclsWf] in H. destruct H as (_ & H2 & H3 & H4 & H5).
  rewrite classified_app. apply Forall_app. split; [|now apply (IH _ H5)].
  unfold visited_decl. apply tag_forall. intros j k c Hj Hc.
  unfold decl_seg, seg in Hj. apply nth_error_firstn_some in Hj. rewrite nth_error_skipn in Hj.
  apply (decl_class_lex_ok (d_toks d) (d_table d) (decl_seg d g off) g off (i_s (gdecl_info g) + j) k c H4); [|exact Hc].
  now rewrite Nat.add_assoc.
Qed.

Lemma trailing_lex_ok d : Forall lex_ok (classified (visited_trailing d)).
Proof.
  unfold visited_trailing. apply tag_forall. intros j k c _ Hc.
  unfold lex_ok, class_error in *; cbn [fst snd]. now rewrite Hc.
Qed.

Theorem semtok_lexical_class d : doc_wf_b d = true -> Forall lex_ok (emitted d).
Proof.
  intros H. unfold doc_wf_b in H. apply andb_true_iff in H as [_ H].
  unfold emitted, visited_all. rewrite classified_app. apply Forall_app. split.
  - exact (visited_lex_ok d _ _ 0 (decls_wf_prop _ _ _ _ H)).
  - apply trailing_lex_ok.
Qed.

(* ... and every keyword / number / comment inside a declaration IS reported *)
Lemma tag_complete cls : forall l idx j k c,
  nth_error l j = Some k -> cls (idx + j) k = Some c -> In (k, c) (classified (tag cls idx l)).
Proof.
  induction l as [|x r IH]; intros idx j k c Hj Hc; [now destruct j|].
  cbn [tag classified]. destruct j as [|j].
  - cbn in Hj. injection Hj as ->. rewrite Nat.add_0_r in Hc. rewrite Hc. now left.
  - cbn in Hj. rewrite Nat.add_succ_r in Hc.
    pose proof (IH (S idx) j k c Hj Hc) as HI. destruct (cls idx x); [now right | exact HI].
Qed.

Lemma nth_error_firstn_lt {A} (l : list A) : forall n j, j < n -> nth_error (firstn n l) j = nth_error l j.
Proof.
  induction l as [|a l IH]; intros n j H; [now rewrite firstn_nil|].
  destruct n as [|n]; [lia|]. destruct j as [|j]; [reflexivity|]. cbn. apply IH. lia.
Qed.

Lemma decl_class_complete toks table sl g off idx k c :
  name_is_ident toks off (gdecl_name g) = true ->
  nth_error toks (off + idx) = Some k ->
  map_class (tk k) = Some c -> decl_class g table sl idx k = Some c.
Proof.
  intros Hn Hk Hc. pose proof (map_class_some_not_ident _ _ Hc) as Hi.
  destruct g as [td | pd | inf]; cbn [decl_class gdecl_name] in *.
  - unfold class_type_dec. destruct (opt_name_token (td_name td) idx) eqn:En.
    { rewrite (name_token_ident _ _ _ _ _ Hn En Hk) in Hi. discriminate. }
    destruct (tk k); cbn [is_ident] in Hi; try discriminate; exact Hc.
  - unfold class_proc_dec. cbv zeta. destruct (opt_name_token (pd_name pd) idx) eqn:En.
    { rewrite (name_token_ident _ _ _ _ _ Hn En Hk) in Hi. discriminate. }
    destruct (tk k); cbn [is_ident] in Hi; try discriminate; exact Hc.
  - exact Hc.
Qed.

Lemma visited_complete d hi i g off j k c : forall l lo,
  DeclsWf (d_toks d) lo l hi ->
  nth_error l i = Some (g, off) ->
  off + i_s (gdecl_info g) <= j < off + i_e (gdecl_info g) ->
  nth_error (d_toks d) j = Some k -> map_class (tk k) = Some c ->
  In (k, c) (classified (visited d l)).
Proof.
  intros l. revert i.
  induction l as [|[g' off'] r IH]; intros i lo H Hi Hj Hk Hc; [now destruct i|].
  cbn [DeclsWf] in H. destruct H as (_ & H2 & H3 & H4 & H5).
  cbn [visited]. rewrite classified_app. apply in_or_app.
  destruct i as [|i].
  - left. cbn in Hi. injection Hi as -> ->. unfold visited_decl.
    apply (tag_complete _ _ _ (j - (off + i_s (gdecl_info g)))).
    + unfold decl_seg, seg. rewrite nth_error_firstn_lt by lia. rewrite nth_error_skipn.
      replace (off + i_s (gdecl_info g) + (j - (off + i_s (gdecl_info g)))) with j by lia. exact Hk.
    + apply (decl_class_complete (d_toks d) (d_table d) (decl_seg d g off) g off); [exact H4 | | exact Hc].
      replace (off + (i_s (gdecl_info g) + (j - (off + i_s (gdecl_info g))))) with j by lia. exact Hk.
  - right. cbn in Hi. exact (IH i _ H5 Hi Hj Hk Hc).
Qed.

(* the token indices the handler walks over: the token ranges of the declarations and the trailing
   slice *)
Definition covered (d : doc) (j : nat) : Prop :=
  (exists i g off, nth_error (pg_decls (d_ast d)) i = Some (g, off) /\
                   off + i_s (gdecl_info g) <= j < off + i_e (gdecl_info g))
  \/ trailing_start d <= j.

Theorem semtok_lexical_complete d j k c :
  doc_wf_b d = true -> covered d j ->
  nth_error (d_toks d) j = Some k -> map_class (tk k) = Some c ->
  In (k, c) (emitted d).
Proof.
  intros H Hcov Hk Hc. unfold doc_wf_b in H. apply andb_true_iff in H as [_ H].
  apply decls_wf_prop in H. unfold emitted, visited_all. rewrite classified_app. apply in_or_app.
  destruct Hcov as [(i & g & off & Hi & Hj) | Hj].
  - left. exact (visited_complete d _ i g off j k c _ 0 H Hi Hj Hk Hc).
  - right. unfold visited_trailing.
    assert (Hlt : j < length (d_toks d)) by (apply nth_error_Some; congruence).
    apply (tag_complete _ _ _ (j - trailing_start d)); [|exact Hc].
    unfold seg. rewrite nth_error_firstn_lt by lia. rewrite nth_error_skipn.
    replace (trailing_start d + (j - trailing_start d)) with j by lia. exact Hk.
Qed.

(* ------------------------------------------------------------------------------------------ *)
(* 8. where the well-formedness predicate comes from                                             *)

From Spl Require Import Spec.LexSpec Proofs.LexerProofs Proofs.ParserTotal Proofs.ParserSync.

(* 8a. the token half holds for every output of the lexer (from the tiling theorem of C06) *)
Lemma is_ws_clean c : is_ws c = false -> negb ((c =? 10)%N || (c =? 13)%N) = true.
Proof.
  unfold is_ws. intros H. apply orb_false_iff in H as [H H10]. apply orb_false_iff in H as [_ H13].
  now rewrite H10, H13.
Qed.

Lemma tiles_wf off s toks : Tiles off s toks -> toks_wf_from s off toks = true.
Proof.
  induction 1 as [off ws Hw | off ws c lx rest k tl Hw Hc Hts Hte Hk Ht IH].
  - cbn [toks_wf_from ts te].
    replace (off + blen ws - off)%N with (blen ws) by lia.
    assert (E : split_bytes (blen ws) ws = Some (ws, [])).
    { pose proof (split_bytes_app ws []) as E. now rewrite app_nil_r in E. }
    rewrite E.
    replace (off + blen ws - (off + blen ws))%N with 0%N by lia. rewrite split_bytes_0.
    rewrite !andb_true_r. apply andb_true_iff. split; apply N.leb_le; lia.
  - cbn [toks_wf_from]. rewrite Hts at 3. replace (off + blen ws - off)%N with (blen ws) by lia.
    rewrite split_bytes_app. replace (te k - ts k)%N with (blen (c :: lx)) by lia.
    rewrite split_bytes_app. rewrite IH, andb_true_r.
    assert (Hpos : (1 <= blen (c :: lx))%N) by (apply blen_pos; discriminate).
    assert (Hnext : match tl with [] => true | _ :: _ => (ts k <? te k)%N && clean_head ((c :: lx) ++ rest) end = true).
    { destruct tl; [reflexivity|]. apply andb_true_iff. split; [apply N.ltb_lt; lia|].
      cbn [app clean_head]. now apply is_ws_clean. }
    rewrite Hnext, andb_true_r. apply andb_true_iff. split; apply N.leb_le; lia.
Qed.

Theorem lex_toks_wf s toks : lex s = Some toks -> toks_wf_from s 0 toks = true.
Proof. intros H. apply tiles_wf. now apply lex_tiles. Qed.

(* 8b. the ordering part of the tree half holds for every output of the parser: declarations are
   consecutive, start at 0, end inside the token vector, and the last one ends where the program's
   range ends ([hi]) *)
Local Open Scope nat_scope.

Fixpoint decls_ordered_b (n : nat) (lo : nat) (l : list (gdecl * nat)) (hi : nat) : bool :=
  match l with
  | [] => Nat.leb lo hi
  | (g, off) :: r =>
      let inf := gdecl_info g in
      Nat.leb lo (off + i_s inf) && Nat.leb (i_s inf) (i_e inf) && Nat.leb (off + i_e inf) n
      && decls_ordered_b n (off + i_e inf) r hi
  end.

Fixpoint decls_names_b (toks : list token) (l : list (gdecl * nat)) : bool :=
  match l with
  | [] => true
  | (g, off) :: r => name_is_ident toks off (gdecl_name g) && decls_names_b toks r
  end.

Lemma decls_wf_split toks hi : forall l lo,
  decls_wf_b toks lo l hi = decls_ordered_b (length toks) lo l hi && decls_names_b toks l.
Proof.
  induction l as [|[g off] r IH]; intros lo; cbn [decls_wf_b decls_ordered_b decls_names_b];
    [now rewrite andb_true_r|].
  rewrite IH. repeat destruct (Nat.leb _ _); cbn [andb]; try reflexivity.
  destruct (name_is_ident toks off (gdecl_name g)); cbn [andb]; [reflexivity|].
  now rewrite andb_false_r.
Qed.

Lemma spans_ordered toks n : forall l a b,
  Spans toks a l b -> b <= n -> decls_ordered_b n a l b = true.
Proof.
  induction l as [|[g off] r IH]; intros a b H Hb; cbn [Spans decls_ordered_b] in *;
    [rewrite H; apply Nat.leb_refl|].
  destruct H as (-> & H0 & Hpos & _ & Hr). pose proof (Spans_le toks _ _ _ Hr) as Hle.
  rewrite (IH _ b Hr Hb), andb_true_r.
  rewrite !andb_true_iff, !Nat.leb_le. lia.
Qed.

Theorem parse_decls_ordered toks prog :
  EofLast toks -> parse toks = Done prog ->
  decls_ordered_b (length toks) 0 (pg_decls prog) (i_e (pg_info prog)) = true.
Proof.
  intros HE H. destruct (parse_sync toks prog HE H) as (Hsp & _ & Hsig).
  apply (spans_ordered toks _ _ 0 (i_e (pg_info prog)) Hsp).
  pose proof (Proofs.ParserComb.sig_at_ge toks (i_e (pg_info prog))). lia.
Qed.

(* ... and together with the trailing slice the declarations tile the token vector *)
Lemma spans_cover toks : forall l a b j,
  Spans toks a l b -> a <= j < b ->
  exists i g off, nth_error l i = Some (g, off) /\
                  off + i_s (gdecl_info g) <= j < off + i_e (gdecl_info g).
Proof.
  induction l as [|[g off] r IH]; intros a b j H Hj; cbn [Spans] in H; [lia|].
  destruct H as (-> & H0 & Hpos & _ & Hr).
  destruct (Nat.lt_ge_cases j (a + i_e (gdecl_info g))) as [Hlt|Hge].
  - exists 0, g, a. split; [reflexivity | lia].
  - destruct (IH _ b j Hr) as (i & g' & off' & Hi & Hj'); [lia|].
    exists (S i), g', off'. now split.
Qed.

(* ------------------------------------------------------------------------------------------ *)
(* 9. the classification part of C15 as a tree-directed specification                            *)

(* Every identifier occurrence of the syntax tree with the absolute index of its token (the last
   token of its range) and the class the property prescribes for it: decided by the syntactic ROLE
   of the occurrence (declared name / type position / variable position / callee), not by looking
   the spelling up.  Ranges and offsets are relative to the enclosing Reference, as in Errors.v. *)
Local Open Scope nat_scope.

(* The classification part of C15 on the model: in a document without diagnostics the answer reports
   (a) every keyword / number / comment of the text with its lexical class and
   (b) every identifier occurrence with the class of the entity it is bound to, the declaration
   modifier exactly on declared names.  Together with [semtok_coincide], [semtok_increasing] and
   [semtok_lexical_class] (nothing else is reported, in text order) this pins the whole answer.
   Part (a) is proved in section 10 ([new_doc_complete], for every document of AnalyzedSource::new
   whose declaration names end with identifier tokens, with or without diagnostics); part (b) is
   not proved (it needs the pipeline lemma relating the table to the tree). *)
Definition semtok_full_statement : Prop :=
  forall t d data,
    new_doc t = Done d -> doc_errors d = Done [] -> semantic_tokens d = SOk data ->
    (forall j k c, nth_error (d_toks d) j = Some k -> map_class (tk k) = Some c ->
                   In (tok_view (d_text d) (k, c)) (decode data)) /\
    (forall j k c, In (j, Some c) (doc_occs d) -> nth_error (d_toks d) j = Some k ->
                   In (tok_view (d_text d) (k, c)) (decode data)).

(* ------------------------------------------------------------------------------------------ *)
(* 10. documents produced by AnalyzedSource::new: the well-formedness predicate reduces to the   *)
(*     condition on declaration names                                                            *)

Local Open Scope nat_scope.

Definition name_range (n : option ident) : option (nat * nat) :=
  match n with Some i => Some (i_s (id_info i), i_e (id_info i)) | None => None end.

(* everything [decls_wf_b] looks at *)
Definition shape (go : gdecl * nat) : nat * nat * nat * option (nat * nat) :=
  (snd go, i_s (gdecl_info (fst go)), i_e (gdecl_info (fst go)), name_range (gdecl_name (fst go))).

Lemma name_is_ident_shape toks off n1 n2 :
  name_range n1 = name_range n2 -> name_is_ident toks off n1 = name_is_ident toks off n2.
Proof.
  destruct n1 as [a|], n2 as [b|]; cbn [name_range]; try discriminate; [|reflexivity].
  intros [= H1 H2]. cbn [name_is_ident]. now rewrite H1, H2.
Qed.

Lemma decls_wf_b_shape toks hi : forall l1 l2 lo,
  map shape l1 = map shape l2 -> decls_wf_b toks lo l1 hi = decls_wf_b toks lo l2 hi.
Proof.
  induction l1 as [|[g1 o1] r1 IH]; intros [|[g2 o2] r2] lo H; cbn [map] in H; try discriminate; [reflexivity|].
  injection H as Ho Hs1 He1 Hn Hr. subst o2.
  cbn [decls_wf_b]. rewrite Hs1, He1, (name_is_ident_shape toks o1 _ _ Hn). now rewrite (IH r2 _ Hr).
Qed.

Lemma decls_ordered_b_shape n hi : forall l1 l2 lo,
  map shape l1 = map shape l2 -> decls_ordered_b n lo l1 hi = decls_ordered_b n lo l2 hi.
Proof.
  induction l1 as [|[g1 o1] r1 IH]; intros [|[g2 o2] r2] lo H; cbn [map] in H; try discriminate; [reflexivity|].
  injection H as Ho Hs1 He1 Hn Hr. subst o2.
  cbn [decls_ordered_b]. rewrite Hs1, He1. now rewrite (IH r2 _ Hr).
Qed.

Lemma ident_flag_range i m i' :
  ident_flag i m = ROk i' -> name_range (Some i') = name_range (Some i).
Proof.
  unfold ident_flag, to_error. destruct (Nat.eqb (i_e (id_info i)) 0); cbn [rbind]; [discriminate|].
  intros [= <-]. reflexivity.
Qed.

Lemma build_typedecl_shape d t off d' t' :
  build_typedecl d t off = ROk (d', t') -> td_info d' = td_info d /\ name_range (td_name d') = name_range (td_name d).
Proof.
  unfold build_typedecl. destruct (td_name d) as [name|] eqn:En; [|intros [= <- <-]; now rewrite En].
  destruct (text_eqb (id_val name) s_main).
  - destruct (ident_flag name _) as [name'|] eqn:Ef; cbn [rbind]; [|discriminate].
    intros [= <- <-]. cbn [td_info td_name]. split; [reflexivity | exact (ident_flag_range _ _ _ Ef)].
  - destruct (get_data_type None (Some t) (Some (id_val name)) (td_ty d)) as [[ty' dt]|]; cbn [rbind]; [|discriminate].
    destruct (enter t (id_val name) _) as [table' ok].
    destruct ok; cbn [rbind].
    + intros [= <- <-]. split; reflexivity.
    + destruct (ident_flag name _) as [name'|] eqn:Ef; cbn [rbind]; [|discriminate].
      intros [= <- <-]. cbn [td_info td_name]. split; [reflexivity | exact (ident_flag_range _ _ _ Ef)].
Qed.

Lemma build_procdecl_shape d t off d' t' :
  build_procdecl d t off = ROk (d', t') -> pd_info d' = pd_info d /\ name_range (pd_name d') = name_range (pd_name d).
Proof.
  unfold build_procdecl. destruct (pd_name d) as [name|] eqn:En; [|intros [= <- <-]; now rewrite En].
  destruct (build_parameters _ _ _ _) as [[[params' local1] parameters]|]; cbn [rbind]; [|discriminate].
  destruct (build_variables _ _ _ _) as [[vars' local2]|]; cbn [rbind]; [|discriminate].
  destruct (enter t (id_val name) _) as [table' ok].
  destruct ok; cbn [rbind].
  - intros [= <- <-]. split; reflexivity.
  - destruct (ident_flag name _) as [name'|] eqn:Ef; cbn [rbind]; [|discriminate].
    intros [= <- <-]. cbn [pd_info pd_name]. split; [reflexivity | exact (ident_flag_range _ _ _ Ef)].
Qed.

Lemma build_gdecls_shape : forall ds t off ds' t',
  build_gdecls ds t off = ROk (ds', t') -> map shape ds' = map shape ds.
Proof.
  induction ds as [|[g o] r IH]; intros t off ds' t' H; cbn [build_gdecls] in H.
  - injection H as <- <-. reflexivity.
  - destruct (build_gdecl g t (off + o)) as [[g' t1]|] eqn:Eg; cbn [rbind] in H; [|discriminate].
    destruct (build_gdecls r t1 off) as [[r' t2]|] eqn:Er; cbn [rbind] in H; [|discriminate].
    injection H as <- <-. cbn [map]. rewrite (IH _ _ _ _ Er). f_equal.
    unfold shape; cbn [fst snd]. unfold build_gdecl in Eg.
    destruct g as [td | pd | inf].
    + destruct (build_typedecl td t (off + o)) as [[td' t1']|] eqn:E; cbn [rbind] in Eg; [|discriminate].
      injection Eg as <- <-. apply build_typedecl_shape in E as [Hi Hn]. cbn [gdecl_info gdecl_name]. now rewrite Hi, Hn.
    + destruct (build_procdecl pd t (off + o)) as [[pd' t1']|] eqn:E; cbn [rbind] in Eg; [|discriminate].
      injection Eg as <- <-. apply build_procdecl_shape in E as [Hi Hn]. cbn [gdecl_info gdecl_name]. now rewrite Hi, Hn.
    + injection Eg as <- <-. reflexivity.
Qed.

Lemma build_res_shape p p1 table :
  build_res p = ROk (p1, table) ->
  map shape (pg_decls p1) = map shape (pg_decls p) /\ i_e (pg_info p1) = i_e (pg_info p).
Proof.
  unfold build_res, build_program.
  destruct (build_gdecls (pg_decls p) initialized 0) as [[ds' t']|] eqn:E; cbn [rbind]; [|discriminate].
  apply build_gdecls_shape in E.
  destruct (lookup t' s_main) as [[te|main]|]; [discriminate | |].
  - destruct (pe_params main).
    + intros [= <- <-]. split; [exact E | reflexivity].
    + destruct (to_error _ _); cbn [rbind]; [|discriminate]. intros [= <- <-]. split; [exact E | reflexivity].
  - intros [= <- <-]. split; [exact E | reflexivity].
Qed.

Lemma shape_nth : forall l1 l2 i g off,
  map shape l1 = map shape l2 -> nth_error l1 i = Some (g, off) ->
  exists g', nth_error l2 i = Some (g', off) /\
             i_s (gdecl_info g') = i_s (gdecl_info g) /\ i_e (gdecl_info g') = i_e (gdecl_info g).
Proof.
  induction l1 as [|[g1 o1] r1 IH]; intros [|[g2 o2] r2] i g off H Hi; cbn [map] in H; try discriminate;
    [now destruct i|].
  injection H as Ho Hs1 He1 Hn Hr. cbn [fst snd] in *. subst o2.
  destruct i as [|i]; cbn [nth_error] in *.
  - injection Hi as <- <-. exists g2. repeat split; congruence.
  - exact (IH r2 i g off Hr Hi).
Qed.

Lemma analyze_gdecl_shape table d d' : analyze_gdecl table d = ROk d' -> shape d' = shape d.
Proof.
  destruct d as [g off]. unfold analyze_gdecl. destruct g as [td | pd | inf]; try (intros [= <-]; reflexivity).
  destruct (pd_name pd) as [name|] eqn:En; [|intros [= <-]; reflexivity].
  destruct (lookup table (id_val name)) as [[te|pe]|]; [intros [= <-]; reflexivity | | discriminate].
  destruct (negb _); [intros [= <-]; reflexivity|].
  destruct (an_stmts _ _ _) as [stmts'|]; cbn [rbind]; [|discriminate].
  intros [= <-]. unfold shape; cbn [fst snd gdecl_info gdecl_name pd_info pd_name]. now rewrite En.
Qed.

Lemma analyze_gdecls_shape table : forall ds ds', analyze_gdecls table ds = ROk ds' -> map shape ds' = map shape ds.
Proof.
  induction ds as [|d r IH]; intros ds' H; cbn [analyze_gdecls] in H.
  - injection H as <-. reflexivity.
  - destruct (analyze_gdecl table d) as [d1|] eqn:E1; cbn [rbind] in H; [|discriminate].
    destruct (analyze_gdecls table r) as [r1|] eqn:E2; cbn [rbind] in H; [|discriminate].
    injection H as <-. cbn [map]. now rewrite (analyze_gdecl_shape _ _ _ E1), (IH _ eq_refl).
Qed.

Lemma lex_eof_last s toks : lex s = Some toks -> EofLast toks.
Proof.
  intros H. destruct (tiles_last_eof 0 s toks (lex_tiles s toks H)) as (body & -> & HF).
  exists body, {| tk := Eof; ts := (0 + blen s)%N; te := (0 + blen s)%N; terr := [] |}. repeat split; assumption.
Qed.

(* what the pipeline keeps of the parser's tree: offsets, ranges and name ranges of the
   declarations, the end of the program's range; the parser's tree is synchronised ([Spans]) *)
Lemma new_doc_parts t d :
  new_doc t = Done d ->
  d_text d = t /\ lex t = Some (d_toks d) /\
  exists p, parse (d_toks d) = Done p /\
            map shape (pg_decls (d_ast d)) = map shape (pg_decls p) /\
            i_e (pg_info (d_ast d)) = i_e (pg_info p).
Proof.
  unfold new_doc, new_doc_res. destruct (lex t) as [toks|] eqn:El; [|discriminate].
  destruct (parse toks) as [p| |] eqn:Ep; try discriminate.
  destruct (build_res p) as [[p1 table]|] eqn:Eb; [|discriminate].
  destruct (analyze_res p1 table) as [p2|] eqn:Ea; [|discriminate].
  cbn [ores_outcome]. intros [= <-]. cbn [d_text d_toks d_ast].
  split; [reflexivity|]. split; [reflexivity|]. exists p. split; [exact Ep|].
  destruct (build_res_shape _ _ _ Eb) as [Hb He].
  unfold analyze_res in Ea. destruct (analyze_gdecls table (pg_decls p1)) as [ds'|] eqn:E; cbn [rbind] in Ea; [|discriminate].
  injection Ea as <-. cbn [pg_decls pg_info]. split; [|exact He].
  rewrite (analyze_gdecls_shape _ _ _ E). exact Hb.
Qed.

(* for a document produced by AnalyzedSource::new, the well-formedness predicate holds as soon as
   the names of the declarations end with identifier tokens *)
Theorem new_doc_wf t d :
  new_doc t = Done d -> doc_wf_b d = decls_names_b (d_toks d) (pg_decls (d_ast d)).
Proof.
  intros Hn. destruct (new_doc_parts t d Hn) as (Ht & El & p & Ep & Hs & He).
  unfold doc_wf_b. rewrite Ht, (lex_toks_wf t _ El), decls_wf_split. cbn [andb].
  pose proof (parse_decls_ordered _ p (lex_eof_last t _ El) Ep) as Ho.
  rewrite (decls_ordered_b_shape _ _ _ _ 0 Hs), He, Ho. reflexivity.
Qed.

(* ... and the declarations together with the trailing slice tile the token vector: the handler
   walks over every token of the document *)
Theorem new_doc_covered t d :
  new_doc t = Done d -> forall j, covered d j.
Proof.
  intros Hn j. destruct (new_doc_parts t d Hn) as (Ht & El & p & Ep & Hs & He).
  destruct (parse_sync _ p (lex_eof_last t _ El) Ep) as (Hsp & _ & _).
  destruct (Nat.lt_ge_cases j (i_e (pg_info p))) as [Hlt|Hge].
  - left. destruct (spans_cover _ _ 0 _ j Hsp) as (i & g & off & Hi & Hj); [lia|].
    destruct (shape_nth _ _ i g off (eq_sym Hs) Hi) as (g' & Hi' & E1 & E2).
    exists i, g', off. rewrite E1, E2. now split.
  - right. unfold trailing_start. rewrite He. pose proof (Nat.le_min_l (i_e (pg_info p)) (length (d_toks d))). lia.
Qed.

(* everything together for the documents the server actually holds *)
Theorem new_doc_stream t d :
  new_doc t = Done d -> decls_names_b (d_toks d) (pg_decls (d_ast d)) = true ->
  exists data,
    semantic_tokens d = SOk data /\
    decode data = map (tok_view t) (emitted d) /\
    Subseq (map fst (emitted d)) (d_toks d) /\
    StronglySorted (fun a b => pos_lt (at_pos a) (at_pos b)) (decode data) /\
    Forall lex_ok (emitted d) /\
    (forall j k c, nth_error (d_toks d) j = Some k -> map_class (tk k) = Some c -> In (k, c) (emitted d)).
Proof.
  intros Hn Hnames. pose proof (new_doc_wf t d Hn) as Hwf. rewrite Hnames in Hwf.
  destruct (new_doc_parts t d Hn) as (Ht & _).
  destruct (semtok_no_panic d Hwf) as [data Hd]. exists data.
  destruct (semtok_coincide d data Hwf Hd) as [H1 H2]. rewrite Ht in H1.
  repeat split; try assumption.
  - exact (semtok_increasing d data Hwf Hd).
  - exact (semtok_lexical_class d Hwf).
  - intros j k c Hk Hc. exact (semtok_lexical_complete d j k c Hwf (new_doc_covered t d Hn j) Hk Hc).
Qed.

(* part (a) of [semtok_full_statement], for every document of AnalyzedSource::new (with or without
   diagnostics): every keyword / number / comment token of the document - wherever it stands, also
   behind the last declaration - is in the decoded answer with its lexical class *)
Theorem new_doc_complete t d data :
  new_doc t = Done d -> decls_names_b (d_toks d) (pg_decls (d_ast d)) = true ->
  semantic_tokens d = SOk data ->
  forall j k c, nth_error (d_toks d) j = Some k -> map_class (tk k) = Some c ->
                In (tok_view (d_text d) (k, c)) (decode data).
Proof.
  intros Hn Hnames Hd j k c Hk Hc.
  pose proof (new_doc_wf t d Hn) as Hwf. rewrite Hnames in Hwf.
  destruct (semtok_coincide d data Hwf Hd) as [-> _].
  apply in_map. exact (semtok_lexical_complete d j k c Hwf (new_doc_covered t d Hn j) Hk Hc).
Qed.
