(* C13 on valid programs, part 3b - find-references, rename and prepare-rename on every identifier
   occurrence of a VALID program, in ANY layout, answer what the formal reading of Spec/Nav.v prescribes:
   [refs_valid].  p, G, t, toks as in Proofs/HoverValid.v (C14 [hover_valid]).

   Here: where the occurrences of Spec/Nav.v sit in the token kinds of the grammar's trees and which bit
   `is_global_position` gives there ([occ_placed], from HoverValid [located]/[hlocated]); distinct declaring
   occurrences have distinct tokens ([decl_tok_inj]); the assembly of
     Proofs/RefsValidSem.v   [same_entity_key]  (bound to the same entity = the same key),
     Proofs/RefsValidKey.v   [referenced_key]   (the walk = the occurrences with the key, in order),
     Proofs/RefsValidModel.v [refs_at]          (the handlers on a token vector in text order). *)
From Coq Require Import PeanoNat Lia Permutation.
From Spl Require Import Proofs.GrammarBase Proofs.GrammarExpr Proofs.GrammarStmt.
From Spl Require Import Proofs.GrammarProofs Spec.Typing Model.Errors Proofs.SemProofs Proofs.TypingProofs.
From Spl Require Import Model.Hover Model.Fold Proofs.LexerProofs Proofs.FoldProofs Proofs.HoverProofs.
From Spl Require Import Proofs.RangeProofsIdent Proofs.HoverValid.
From Spl Require Import Proofs.GotoProofs Proofs.RefsProofs Spec.Nav.
From Spl Require Import Proofs.RefsValidWalks Proofs.RefsValidSem Proofs.RefsValidKey Proofs.RefsValidModel.
Local Open Scope nat_scope.

(* ---------------------------------------------------------------------------------------- *)
(* S: where an occurrence sits                                                               *)

(* occurrence o is token number j of declaration dd (= a_decls p at position len l1); in a procedure
   declaration the previous non-comment token is `proc`, `:` or `of` exactly for the roles that are
   looked up globally *)
Definition placed (p : aprog) (o : occ) (l1 : list adecl) (dd : adecl) (l2 : list adecl) (j : nat) : Prop :=
  let pre := flat_map fl_decl l1 in
  a_decls p = l1 ++ dd :: l2 /\ In o (occs_of_decl (x_decl dd, len pre)) /\ o_tok o = len pre + j
  /\ nth_error (fl_decl dd) j = Some (Ident (o_name o))
  /\ match x_decl dd with
     | GProc _ => global_kind (prev_kind_k (prev_kind_k None pre) (firstn j (fl_decl dd))) = gp_of_role (o_role o)
     | _ => True
     end.

Lemma occ_placed p o : In o (occurrences (expected p)) -> exists l1 dd l2 j, placed p o l1 dd l2 j.
Proof.
  unfold occurrences. intros H. apply in_flat_map in H as [[g D] [Hg Ho]]. cbn [expected pg_decls] in Hg.
  destruct (x_decls_in _ _ _ _ Hg) as [l1 [dd [l2 [Hds [-> HD]]]]]. cbn [Nat.add] in HD. subst D.
  set (pre := flat_map fl_decl l1) in *.
  assert (Hfin : forall want, occ_at_w want (prev_kind_k None pre) (fl_decl dd) (len pre) (hocc_of o) ->
            match x_decl dd with GProc _ => want (sc_of_role (o_role o)) = gp_of_role (o_role o) | _ => True end ->
            exists l1 dd l2 j, placed p o l1 dd l2 j).
  { intros want [j [Hj [Hn Hg']]] Hw. exists l1, dd, l2, j. unfold placed. fold pre.
    split; [exact Hds|]. split; [exact Ho|]. split; [exact Hj|]. split; [exact Hn|].
    destruct (x_decl dd); try exact I. rewrite Hg'. exact Hw. }
  destruct dd as [c1 c2 xn c3 ty c4 | c1 c2 xn c3 ps c4 c5 vs b c6].
  - (* a type declaration *)
    pose proof (type_decl_located c1 c2 xn c3 ty c4 (len pre)) as Hloc. cbv zeta in Hloc.
    assert (Hin : In (hocc_of o) (map snd (occs_gdecl (len pre) (x_decl (DType c1 c2 xn c3 ty c4))))).
    { cbn [x_decl occs_gdecl td_name td_ty]. rewrite map_map. cbn [snd]. rewrite map_id.
      cbn [x_decl] in Ho. apply link_decl_type in Ho as [_ [i Hr Hi Hid | i te toff Hr Ht Hi Hid Hin]].
      - cbn [td_name] in Hi. injection Hi as <-. apply in_or_app. left. rewrite hocc_of_eq, Hr, Hid, hocc_shift. left. reflexivity.
      - apply in_or_app. right. cbn [td_ty] in Hin. exact Hin. }
    unfold located in Hloc. rewrite Forall_forall in Hloc. destruct (Hloc _ Hin) as [j [Hj Hn]].
    apply (Hfin (fun _ => global_kind (prev_kind_k (prev_kind_k None pre) (firstn j (fl_decl (DType c1 c2 xn c3 ty c4))))));
      [|exact I]. exists j. split; [exact Hj|]. split; [exact Hn | reflexivity].
  - (* a procedure declaration *)
    set (dd := DProc c1 c2 xn c3 ps c4 c5 vs b c6) in *.
    change (x_decl dd) with (GProc (the_proc dd)) in *.
    pose proof (proc_header_hlocated c1 c2 xn c3 ps c4 c5 vs b c6 (len pre) (prev_kind_k None pre)) as Hhead. cbv zeta in Hhead. fold dd in Hhead.
    unfold wlocated in Hhead. rewrite Forall_forall in Hhead.
    pose proof (proc_body_located c1 c2 xn c3 ps c4 c5 vs b c6 (len pre) (prev_kind_k None pre)) as Hbody. cbv zeta in Hbody. fold dd in Hbody.
    unfold wlocated in Hbody. rewrite Forall_forall in Hbody.
    assert (Hh : In (hocc_of o) (proc_header_occs (len pre) (the_proc dd)) -> is_gscope (sc_of_role (o_role o)) = gp_of_role (o_role o) ->
                 exists l1 dd l2 j, placed p o l1 dd l2 j).
    { intros Hin Hw. exact (Hfin is_gscope (Hhead _ Hin) Hw). }
    assert (Hb : In (hocc_of o) (occs_stmts (len pre) (pd_stmts (the_proc dd))) -> gp_of_role (o_role o) = false ->
                 exists l1 dd l2 j, placed p o l1 dd l2 j).
    { intros Hin Hw. apply (Hfin never (Hbody _ Hin)). now rewrite Hw. }
    unfold proc_header_occs in Hh.
    apply link_decl_proc in Ho as [_ [i Hr Hi Hid | i Hr Hi Hid Hin | i Hr Hi Hid Hin | i Hr Hi Hid Hin | i Hr Hi Hid Hin | i Hr Hi Hid Hin | i Hr Hi Hid Hin]].
    + apply Hh; [|now rewrite Hr]. apply in_or_app. left. rewrite Hi, hocc_of_eq, Hr, Hid, hocc_shift. left. reflexivity.
    + apply Hh; [|now rewrite Hr]. apply in_or_app. right. apply in_or_app. now left.
    + apply Hh; [|now rewrite Hr]. apply in_or_app. right. apply in_or_app. now left.
    + apply Hh; [|now rewrite Hr]. apply in_or_app. right. apply in_or_app. now right.
    + apply Hh; [|now rewrite Hr]. apply in_or_app. right. apply in_or_app. now right.
    + apply Hb; [exact Hin | now rewrite Hr].
    + apply Hb; [exact Hin | now rewrite Hr].
Qed.

(* a token belongs to one declaration *)
Lemma split_unique : forall (l1 l1' : list adecl) d d' l2 l2' k,
  l1 ++ d :: l2 = l1' ++ d' :: l2' ->
  len (flat_map fl_decl l1) <= k < len (flat_map fl_decl l1) + len (fl_decl d) ->
  len (flat_map fl_decl l1') <= k < len (flat_map fl_decl l1') + len (fl_decl d') ->
  l1 = l1' /\ d = d' /\ l2 = l2'.
Proof.
  induction l1 as [|a l1 IH]; intros [|a' l1'] d d' l2 l2' k E H1 H2; cbn [app flat_map length] in *.
  - injection E as E1 E2. subst. auto.
  - injection E as E1 E2. subst. rewrite app_length in H2. lia.
  - injection E as E1 E2. subst. rewrite app_length in H1. lia.
  - injection E as E1 E2. subst a'. rewrite app_length in H1, H2.
    destruct (IH l1' d d' l2 l2' (k - len (fl_decl a)) E2) as [E3 [E4 E5]]; [lia | lia |]. subst. auto.
Qed.

Lemma proc_roles pd D o : In o (occs_of_decl (GProc pd, D)) -> o_role o <> RTypeDecl.
Proof.
  intros H. apply link_decl_proc in H as [_ [i Hr _ _ | i Hr _ _ _ | i Hr _ _ _ | i Hr _ _ _ | i Hr _ _ _ | i Hr _ _ _ | i Hr _ _ _]];
    rewrite Hr; discriminate.
Qed.

(* distinct declaring occurrences have distinct tokens *)
Theorem decl_tok_inj p a b : In a (occurrences (expected p)) -> In b (occurrences (expected p)) ->
  is_decl (o_role a) = true -> is_decl (o_role b) = true -> o_tok a = o_tok b -> samekey a b = true.
Proof.
  intros Ha Hb Hda Hdb Ht.
  destruct (occ_placed p a Ha) as [l1 [dd [l2 [j [Hds [Hoa [Hja [Hna Hga]]]]]]]].
  destruct (occ_placed p b Hb) as [l1' [dd' [l2' [j' [Hds' [Hob [Hjb [Hnb Hgb]]]]]]]].
  assert (Hlt : j < len (fl_decl dd)) by (apply nth_error_Some; congruence).
  assert (Hlt' : j' < len (fl_decl dd')) by (apply nth_error_Some; congruence).
  rewrite Hds in Hds'. destruct (split_unique _ _ _ _ _ _ (o_tok a) Hds') as [E1 [E2 E3]]; [lia | lia |]. subst l1' dd' l2'.
  assert (j' = j) by lia. subst j'. rewrite Hna in Hnb. injection Hnb as Hnm.
  apply samekey_spec. destruct dd as [c1 c2 xn c3 ty c4 | c1 c2 xn c3 ps c4 c5 vs b0 c6].
  - cbn [x_decl] in Hoa, Hob.
    apply link_decl_type in Hoa as [_ [ia Hra _ _ | ia ? ? Hra _ _ _ _]]; [|rewrite Hra in Hda; discriminate].
    apply link_decl_type in Hob as [_ [ib Hrb _ _ | ib ? ? Hrb _ _ _ _]]; [|rewrite Hrb in Hdb; discriminate].
    rewrite Hra, Hrb. split; [reflexivity|]. split; [exact Hnm | discriminate].
  - set (dd := DProc c1 c2 xn c3 ps c4 c5 vs b0 c6) in *. change (x_decl dd) with (GProc (the_proc dd)) in *.
    rewrite Hga in Hgb. pose proof (proc_roles _ _ _ Hoa) as Hta. pose proof (proc_roles _ _ _ Hob) as Htb.
    apply link_decl_proc in Hoa as [Hpa _]. apply link_decl_proc in Hob as [Hpb _].
    split; [|split; [exact Hnm | intros _; now rewrite Hpa, Hpb]].
    destruct (o_role a), (o_role b); try discriminate Hda; try discriminate Hdb; try discriminate Hgb; try reflexivity;
      try (now contradiction Hta); now contradiction Htb.
Qed.

Lemma x_decls_mid : forall l1 o dd l2, In (x_decl dd, o + len (flat_map fl_decl l1)) (x_decls o (l1 ++ dd :: l2)).
Proof.
  induction l1 as [|a l1 IH]; intros o dd l2; cbn [app x_decls flat_map length]; [left; f_equal; lia|].
  right. rewrite app_length. replace (o + (len (fl_decl a) + len (flat_map fl_decl l1))) with (o + len (fl_decl a) + len (flat_map fl_decl l1)) by lia.
  apply IH.
Qed.

(* ---------------------------------------------------------------------------------------- *)
(* the theorem                                                                               *)

Theorem refs_valid : forall (p : aprog) (G : gtable) (t : text) (toks : list token) (d : doc),
  prog_ok p = true -> well_typed (expected p) G ->
  lex t = Some toks -> map tk toks = flatten p ++ [Eof] ->
  new_doc_res t = ODone d ->
  forall o l c, In o (occurrences (d_ast d)) -> cursor_inside d o l c ->
    (exists rs, references d l c = ROk (Some rs) /\ Permutation rs (spec_references d o))
    /\ match spec_rename d o with
       | Some es' => exists es, rename d l c = ROk (Some es) /\ Permutation es es'
       | None => rename d l c = ROk None
       end
    /\ prepare_rename d l c = ROk (spec_prepare d o).
Proof.
  intros p G t toks d0 Hok Hwt Hlex Hk Hd o line col Ho Hcur.
  rewrite (valid_doc p G t toks d0 Hok Hwt Hlex Hk Hd) in *. clear Hd d0.
  set (d := {| d_text := t; d_toks := toks; d_ast := expected p; d_table := G |}) in *.
  cbn [d d_ast] in Ho.
  assert (Hs : toks_sorted toks = true) by exact (ordered_sorted 0 _ (tiles_ordered 0 t _ (lex_tiles t _ Hlex))).
  (* every occurrence has its token *)
  assert (Hkind : forall x l1 dd l2 j, placed p x l1 dd l2 j -> nth_error (map tk toks) (o_tok x) = Some (Ident (o_name x))).
  { intros x l1 dd l2 j [Hds [_ [Hj [Hn _]]]]. rewrite Hk, Hj. unfold flatten. rewrite Hds, flat_map_app. cbn [flat_map].
    rewrite <- !app_assoc. now apply nth_error_mid. }
  assert (Hall : forall x, In x (occurrences (d_ast d)) -> occ_ok (d_toks d) x).
  { intros x Hx. cbn [d d_ast d_toks] in *. split.
    - apply (occs_idok (expected p)); [|exact Hx]. exact (parse_idents_nonempty _ _ (roundtrip p toks Hok Hk)).
    - destruct (occ_placed p x Hx) as [l1 [dd [l2 [j Hpl]]]]. pose proof (Hkind _ _ _ _ _ Hpl) as Hn.
      rewrite nth_error_map in Hn. destruct (nth_error toks (o_tok x)); [discriminate | discriminate Hn]. }
  destruct (occ_placed p o Ho) as [l1 [dd [l2 [j Hpl]]]]. pose proof (Hkind _ _ _ _ _ Hpl) as Hnk.
  destruct Hpl as [Hds [Hod [Hj [Hn Hg]]]]. set (pre := flat_map fl_decl l1) in *.
  destruct Hcur as [tok [Hnt Hr]]. cbn [d d_toks d_text] in Hnt, Hr.
  assert (Hid : tk tok = Ident (o_name o)). { rewrite nth_error_map, Hnt in Hnk. now injection Hnk. }
  unfold in_range in Hr. cbn [fst snd] in Hr. apply andb_true_iff in Hr as [Hr1 Hr2]. apply N.leb_le in Hr1. apply N.ltb_lt in Hr2.
  assert (Hjl : j < len (fl_decl dd)) by (apply nth_error_Some; congruence).
  assert (Hlen : len (flat_map fl_decl (a_decls p)) <= len toks).
  { rewrite <- (map_length tk toks), Hk. unfold flatten. rewrite !app_length. lia. }
  assert (Hg0 : In (x_decl dd, len pre) (pg_decls (expected p))).
  { cbn [expected pg_decls]. rewrite Hds. exact (x_decls_mid l1 0 dd l2). }
  assert (Hfd : find_decl (d_toks d) (get_insertion_index line col (d_text d)) (pg_decls (d_ast d)) = ROk (Some (x_decl dd, 0 + len pre))).
  { cbn [d d_toks d_ast d_text expected pg_decls]. rewrite Hds.
    apply (find_decl_hit toks _ (o_tok o) tok Hs Hnt Hr1 Hr2 l1 0 dd l2); rewrite <- ?Hds; fold pre; lia. }
  cbn [Nat.add] in Hfd.
  (* the context entry *)
  pose proof (well_typed_facts _ _ Hwt _ Hg0) as Hf. unfold decl_facts in Hf. cbn [fst snd] in Hf.
  assert (Hctx : exists ctx, match gdecl_name (x_decl dd) with Some n => lookup (d_table d) (id_val n) | None => None end = Some ctx).
  { cbn [d d_table]. destruct (x_decl dd) as [td|pd|inf]; [| |contradiction]; cbn [gdecl_name].
    - destruct Hf as [name [te [Hnm [Hl _]]]]. rewrite Hnm, Hl. eauto.
    - destruct Hf as [name [pe [Hnm [Hl _]]]]. rewrite Hnm, Hl. eauto. }
  destruct Hctx as [ctx Hctx].
  (* the global-position bit *)
  assert (Hgp : global_kind (prev_kind_k None (firstn (o_tok o) (map tk (d_toks d))))
                = global_kind (prev_kind_k (prev_kind_k None pre) (firstn j (fl_decl dd)))).
  { cbn [d d_toks]. rewrite Hk, Hj. unfold flatten. rewrite Hds, flat_map_app. cbn [flat_map]. fold pre. rewrite <- !app_assoc.
    rewrite firstn_app_ge, prev_app, firstn_app_lt by lia. reflexivity. }
  destruct (referenced_key (expected p) G Hwt (x_decl dd) (len pre) o ctx
              (global_kind (prev_kind_k None (firstn (o_tok o) (map tk (d_toks d))))) Hg0 Hod Hctx) as [Hwalk Hpre].
  { unfold gp_ok. rewrite Hgp. destruct (x_decl dd); try exact I. exact Hg. }
  apply (refs_at d o line col tok (x_decl dd) (len pre) ctx Hs Hnt Hid Hr1 Hr2 Hfd Hctx Ho Hall Hwalk Hpre).
  intros x Hx. apply (same_entity_key (expected p) G Hwt (decl_tok_inj p) x o Hx Ho).
Qed.
