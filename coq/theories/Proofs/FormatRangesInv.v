(* C09 "same diagnostics" for programs with comments, the RANGES, part 2: what build and analyze keep.

   Table build and semantic analysis only APPEND diagnostics to the AstInfo of nodes; they never change a range or an
   offset, and every diagnostic they append has the range its node prescribes (Proofs/FormatRangesNodes.v: the node's
   range, or - Identifier::to_error - the last token of an identifier).  [keeps own nd t t']: if t is [own] so is t',
   and the position half of the node list is the same.  One lemma per function of Model/Build.v and Model/Semantic.v;
   no table is involved (whatever the lookups answer). *)
From Coq Require Import String List Lia PeanoNat.
From Spl Require Import Model.Errors Proofs.FormatDiagErase Proofs.FormatDiagSem Proofs.FormatDiagMsgs Proofs.FormatRangesNodes.
From Spl Require Proofs.FormatProofs.
Import ListNotations.
Local Open Scope nat_scope.

(* ================================================================================================
   1. The relation
   ================================================================================================ *)
Definition keeps {T} (P : T -> Prop) (f : nat -> T -> list node) (t t' : T) : Prop :=
  (P t -> P t') /\ forall b, map fst (f b t') = map fst (f b t).

Lemma keeps_refl {T} (P : T -> Prop) f t : keeps P f t t.
Proof. split; [exact (fun H => H) | reflexivity]. Qed.
Lemma keeps_trans {T} (P : T -> Prop) f t1 t2 t3 : keeps P f t1 t2 -> keeps P f t2 t3 -> keeps P f t1 t3.
Proof. intros [A1 B1] [A2 B2]. split; [auto | intros b; rewrite B2; apply B1]. Qed.

Definition KI (i i' : info) : Prop := (own_info i -> own_info i') /\ i_s i' = i_s i /\ i_e i' = i_e i.
Definition KD (n n' : ident) : Prop :=
  (own_id n -> own_id n') /\ i_s (id_info n') = i_s (id_info n) /\ i_e (id_info n') = i_e (id_info n).

Lemma ki_refl i : KI i i.
Proof. repeat split. exact (fun H => H). Qed.
Lemma kd_refl n : KD n n.
Proof. repeat split. exact (fun H => H). Qed.
Lemma kd_trans a b c : KD a b -> KD b c -> KD a c.
Proof. intros (A1 & B1 & C1) (A2 & B2 & C2). split; [auto | split; congruence]. Qed.

Lemma ki_nd i i' b : KI i i' -> fst (nd b i') = fst (nd b i).
Proof. intros (_ & E1 & E2). unfold nd. cbn [fst]. rewrite E1, E2. reflexivity. Qed.
Lemma kd_ndi n n' b : KD n n' -> fst (ndi b n') = fst (ndi b n).
Proof. intros (_ & E1 & E2). unfold ndi. cbn [fst]. rewrite E1, E2. reflexivity. Qed.

Lemma ki_append i x : e_s x = i_s i -> e_e x = i_e i -> KI i (info_append i x).
Proof.
  intros H1 H2. split; [|split; reflexivity]. unfold own_info, info_append. cbn [i_s i_e i_errs]. intros H.
  apply Forall_app. split; [exact H | constructor; [split; assumption | constructor]].
Qed.

Lemma ki_mk i m : KI i (info_append i (mkerr_t (info_range i) m)).
Proof. apply ki_append; reflexivity. Qed.

Lemma kd_plain n x : e_s x = i_s (id_info n) -> e_e x = i_e (id_info n) -> name_msg (e_m x) = false -> KD n (ident_append n x).
Proof.
  intros H1 H2 H3. split; [|split; reflexivity]. unfold own_id, ident_append, info_append. cbn [id_info i_s i_e i_errs]. intros H.
  apply Forall_app. split; [exact H | constructor; [|constructor]]. rewrite H3, H1, H2. reflexivity.
Qed.

(* results *)
Definition okp {A} (P : A -> Prop) (r : res A) : Prop := match r with ROk a => P a | RFail _ => True end.

Lemma okp_bind {A B} (P : A -> Prop) (Q : B -> Prop) (r : res A) (k : A -> res B) :
  okp P r -> (forall a, P a -> okp Q (k a)) -> okp Q (rbind r k).
Proof. destruct r as [a|s]; cbn [okp rbind]; auto. Qed.

Lemma okp_ok {A} (P : A -> Prop) r a : okp P r -> r = ROk a -> P a.
Proof. intros H ->. exact H. Qed.

(* Identifier::to_error *)
Lemma kd_flag n m : (forall s, name_msg (m s) = true) -> okp (KD n) (ident_flag n m).
Proof.
  intros Hm. unfold ident_flag, to_error. destruct (Nat.eqb (i_e (id_info n)) 0); [exact I|]. cbn [rbind okp].
  split; [|split; reflexivity]. unfold own_id, ident_append, info_append. cbn [id_info i_s i_e i_errs]. intros H.
  apply Forall_app. split; [exact H | constructor; [|constructor]]. cbn [e_s e_e e_m]. rewrite Hm. reflexivity.
Qed.

(* options and lists of References *)
Definition nd_opt {T} (f : nat -> T -> list node) (b : nat) (o : option (T * nat)) : list node :=
  match o with Some (x, off) => f (b + off) x | None => [] end.

Definition KO {T} (K : T -> T -> Prop) (o o' : option (T * nat)) : Prop :=
  match o, o' with
  | Some (x, off), Some (x', off') => K x x' /\ off' = off
  | None, None => True
  | _, _ => False
  end.

Lemma ko_refl {T} (K : T -> T -> Prop) o : (forall x, K x x) -> KO K o o.
Proof. intros H. destruct o as [[x off]|]; [split; [apply H | reflexivity] | exact I]. Qed.

Lemma ko_keeps {T} (P : T -> Prop) f o o' : KO (keeps P f) o o' -> keeps (own_opt P) (nd_opt f) o o'.
Proof.
  destruct o as [[x off]|], o' as [[x' off']|]; cbn [KO]; try (intros []; fail).
  - intros [[A B] ->]. split; [exact A | intros b; apply B].
  - intros _. apply keeps_refl.
Qed.

Definition KOid (o o' : option ident) : Prop :=
  match o, o' with Some n, Some n' => KD n n' | None, None => True | _, _ => False end.

Lemma koid_refl o : KOid o o.
Proof. destruct o; [apply kd_refl | exact I]. Qed.

Lemma koid_keeps o o' : KOid o o' -> (own_oid o -> own_oid o') /\ forall b, map fst (nd_oid b o') = map fst (nd_oid b o).
Proof.
  destruct o as [n|], o' as [n'|]; cbn [KOid]; try (intros []; fail).
  - intros H. split; [exact (proj1 H) | intros b; cbn [nd_oid map]; rewrite (kd_ndi _ _ b H); reflexivity].
  - intros _. split; [exact (fun H => H) | reflexivity].
Qed.

Definition krefs {T} (K : T -> T -> Prop) (l l' : list (T * nat)) : Prop :=
  Forall2 (fun x x' => K (fst x) (fst x') /\ snd x' = snd x) l l'.

Lemma krefs_refl {T} (K : T -> T -> Prop) l : (forall x, K x x) -> krefs K l l.
Proof. intros H. induction l as [|x r IH]; constructor; [split; [apply H | reflexivity] | exact IH]. Qed.

Lemma krefs_trans {T} (K : T -> T -> Prop) l1 : (forall a b c, K a b -> K b c -> K a c) ->
  forall l2 l3, krefs K l1 l2 -> krefs K l2 l3 -> krefs K l1 l3.
Proof.
  intros HK. induction l1 as [|x r IH]; intros l2 l3 H12 H23.
  - inversion H12; subst. inversion H23; subst. constructor.
  - inversion H12 as [|x1 y1 r1 s1 [A1 B1] Hr1]; subst. inversion H23 as [|x2 y2 r2 s2 [A2 B2] Hr2]; subst. constructor.
    + split; [eapply HK; eassumption | congruence].
    + eapply IH; eassumption.
Qed.

Lemma krefs_keeps {T} (P : T -> Prop) f l l' : krefs (keeps P f) l l' -> keeps (own_refs P) (nd_refs f) l l'.
Proof.
  unfold own_refs, nd_refs. induction 1 as [|x x' l l' [K E] _ IH]; [apply keeps_refl|]. destruct K as [A B], IH as [IA IB]. split.
  - intros H. inversion H; subst. constructor; auto.
  - intros b. cbn [flat_map]. rewrite !map_app, E, B, IB. reflexivity.
Qed.

(* ================================================================================================
   2. Congruences
   ================================================================================================ *)
Notation KV := (keeps own_var nd_var).
Notation KE := (keeps own_expr nd_expr).
Notation KT := (keeps own_texpr nd_texpr).
Notation KS := (keeps own_stmt nd_stmt).
Notation KP := (keeps own_paramdecl nd_paramdecl).
Notation KVd := (keeps own_vardecl nd_vardecl).
Notation KG := (keeps own_gdecl nd_gdecl).

Lemma kv_named n n' : KD n n' -> KV (NamedVar n) (NamedVar n').
Proof. intros H. split; [exact (proj1 H) | intros b; cbn [nd_var map]; rewrite (kd_ndi _ _ b H); reflexivity]. Qed.

Lemma kv_arr a a' idx idx' inf inf' :
  KV a a' -> KO KE idx idx' -> KI inf inf' -> KV (ArrAccess a idx inf) (ArrAccess a' idx' inf').
Proof.
  intros [A1 B1] Hi Hinf. destruct (ko_keeps _ _ _ _ Hi) as [A2 B2]. split.
  - cbn [own_var]. intros (H1 & H2 & H3). split; [apply Hinf; exact H1|]. split; [auto | apply A2; exact H3].
  - intros b. cbn [nd_var map]. rewrite !map_app, B1, (ki_nd _ _ b Hinf). do 2 f_equal. apply (B2 b).
Qed.

Lemma ke_bin op l l' r r' inf inf' : KE l l' -> KE r r' -> KI inf inf' -> KE (EBin op l r inf) (EBin op l' r' inf').
Proof.
  intros [A1 B1] [A2 B2] Hinf. split.
  - cbn [own_expr]. intros (H1 & H2 & H3). split; [apply Hinf; exact H1 | auto].
  - intros b. cbn [nd_expr map]. rewrite !map_app, B1, B2, (ki_nd _ _ b Hinf). reflexivity.
Qed.

Lemma ke_brack a a' inf inf' : KE a a' -> KI inf inf' -> KE (EBrack a inf) (EBrack a' inf').
Proof.
  intros [A1 B1] Hinf. split.
  - cbn [own_expr]. intros (H1 & H2). split; [apply Hinf; exact H1 | auto].
  - intros b. cbn [nd_expr map]. rewrite B1, (ki_nd _ _ b Hinf). reflexivity.
Qed.

Lemma ke_un op a a' inf inf' : KE a a' -> KI inf inf' -> KE (EUn op a inf) (EUn op a' inf').
Proof.
  intros [A1 B1] Hinf. split.
  - cbn [own_expr]. intros (H1 & H2). split; [apply Hinf; exact H1 | auto].
  - intros b. cbn [nd_expr map]. rewrite B1, (ki_nd _ _ b Hinf). reflexivity.
Qed.

Lemma ke_var v v' : KV v v' -> KE (EVar v) (EVar v').
Proof. exact (fun H => H). Qed.

Lemma ke_info_eq inf inf' : KI inf inf' -> forall b, [fst (nd b inf')] = [fst (nd b inf)].
Proof. intros H b. rewrite (ki_nd _ _ b H). reflexivity. Qed.

(* Expression::info_mut().append_error(..) with the expression's own range and a message that is not about a name *)
Lemma ke_append e x :
  e_s x = i_s (expr_info e) -> e_e x = i_e (expr_info e) -> name_msg (e_m x) = false -> KE e (expr_append e x).
Proof.
  intros H1 H2 H3. destruct e as [op l r inf|a inf|i|op a inf|v|inf]; cbn [expr_append expr_info] in *.
  - apply ke_bin; [apply keeps_refl | apply keeps_refl | apply ki_append; assumption].
  - apply ke_brack; [apply keeps_refl | apply ki_append; assumption].
  - pose proof (ki_append (il_info i) x H1 H2) as Hk. split; [exact (proj1 Hk)|]. intros b. cbn [nd_expr map il_info]. apply (ke_info_eq _ _ Hk).
  - apply ke_un; [apply keeps_refl | apply ki_append; assumption].
  - apply ke_var. destruct v as [n|a idx inf]; cbn [var_append var_info] in *.
    + apply kv_named. apply kd_plain; assumption.
    + apply kv_arr; [apply keeps_refl | apply ko_refl; intros; apply keeps_refl | apply ki_append; assumption].
  - pose proof (ki_append inf x H1 H2) as Hk. split; [exact (proj1 Hk)|]. intros b. cbn [nd_expr map]. apply (ke_info_eq _ _ Hk).
Qed.

Lemma ke_flag e m : name_msg m = false -> KE e (expr_append e (mkerr_t (expr_range e) m)).
Proof. intros H. apply ke_append; [reflexivity | reflexivity | exact H]. Qed.

(* the range of an expression is the first node *)
Lemma nd_expr_hd e b : exists p rest, map fst (nd_expr b e) = (b + i_s (expr_info e), p, b + i_e (expr_info e)) :: rest.
Proof.
  destruct e as [op l r inf|a inf|i|op a inf|v|inf]; cbn [nd_expr expr_info map]; try (eexists; eexists; reflexivity).
  destruct v as [n|a idx inf]; cbn [nd_var var_info map]; eexists; eexists; reflexivity.
Qed.

Lemma ke_range e e' : KE e e' -> expr_range e' = expr_range e.
Proof.
  intros [_ H]. specialize (H 0). destruct (nd_expr_hd e 0) as (p & r & E), (nd_expr_hd e' 0) as (p' & r' & E').
  rewrite E, E' in H. injection H as H1 _ H2 _. unfold expr_range, info_range. cbn [Nat.add] in H1, H2. rewrite H1, H2. reflexivity.
Qed.

Lemma kt_named n n' : KD n n' -> KT (TNamed n) (TNamed n').
Proof. intros H. split; [exact (proj1 H) | intros b; cbn [nd_texpr map]; rewrite (kd_ndi _ _ b H); reflexivity]. Qed.

Lemma kt_arr size base base' inf : KO KT base base' -> KT (TArray size base inf) (TArray size base' inf).
Proof.
  intros Hb. destruct (ko_keeps _ _ _ _ Hb) as [A B]. split.
  - cbn [own_texpr]. intros (H1 & H2). split; [exact H1 | apply A; exact H2].
  - intros b. cbn [nd_texpr map]. f_equal. apply (B b).
Qed.

Lemma ks_assign v v' e e' inf inf' : KV v v' -> KO KE e e' -> KI inf inf' -> KS (SAssign v e inf) (SAssign v' e' inf').
Proof.
  intros [A1 B1] He Hinf. destruct (ko_keeps _ _ _ _ He) as [A2 B2]. split.
  - cbn [own_stmt]. intros (H1 & H2 & H3). split; [apply Hinf; exact H1|]. split; [auto | apply A2; exact H3].
  - intros b. cbn [nd_stmt map]. rewrite !map_app, B1, (ki_nd _ _ b Hinf). do 2 f_equal. apply (B2 b).
Qed.

Lemma ks_call n args args' inf inf' : krefs KE args args' -> KI inf inf' -> KS (SCall n args inf) (SCall n args' inf').
Proof.
  intros Ha Hinf. destruct (krefs_keeps _ _ _ _ Ha) as [A B]. split.
  - cbn [own_stmt]. intros (H1 & H2 & H3). split; [apply Hinf; exact H1|]. split; [exact H2 | apply A; exact H3].
  - intros b. cbn [nd_stmt map]. rewrite (ki_nd _ _ b Hinf), B. reflexivity.
Qed.

Lemma ks_if c c' t t' e e' inf : KO KE c c' -> KO KS t t' -> KO KS e e' -> KS (SIf c t e inf) (SIf c' t' e' inf).
Proof.
  intros Hc Ht He. destruct (ko_keeps _ _ _ _ Hc) as [A1 B1], (ko_keeps _ _ _ _ Ht) as [A2 B2], (ko_keeps _ _ _ _ He) as [A3 B3]. split.
  - rewrite !own_stmt_if. intros (H1 & H2 & H3 & H4). split; [exact H1|]. split; [apply A1; exact H2|]. split; [apply A2; exact H3 | apply A3; exact H4].
  - intros b. rewrite !nd_stmt_if. cbn [map]. rewrite !map_app. f_equal. f_equal; [apply (B1 b)|]. f_equal; [apply (B2 b) | apply (B3 b)].
Qed.

Lemma ks_while c c' t t' inf : KO KE c c' -> KO KS t t' -> KS (SWhile c t inf) (SWhile c' t' inf).
Proof.
  intros Hc Ht. destruct (ko_keeps _ _ _ _ Hc) as [A1 B1], (ko_keeps _ _ _ _ Ht) as [A2 B2]. split.
  - rewrite !own_stmt_while. intros (H1 & H2 & H3). split; [exact H1|]. split; [apply A1; exact H2 | apply A2; exact H3].
  - intros b. rewrite !nd_stmt_while. cbn [map]. rewrite !map_app. f_equal. f_equal; [apply (B1 b) | apply (B2 b)].
Qed.

Lemma ks_block body body' inf : krefs KS body body' -> KS (SBlock body inf) (SBlock body' inf).
Proof.
  intros Hb. destruct (krefs_keeps _ _ _ _ Hb) as [A B]. split.
  - rewrite !own_stmt_block. intros (H1 & H2). split; [exact H1 | apply A; exact H2].
  - intros b. rewrite !nd_stmt_block. cbn [map]. rewrite B. reflexivity.
Qed.

Lemma kp_valid doc r n n' ty ty' inf : KOid n n' -> KO KT ty ty' -> KP (PValid doc r n ty inf) (PValid doc r n' ty' inf).
Proof.
  intros Hn Ht. destruct (koid_keeps _ _ Hn) as [A1 B1], (ko_keeps _ _ _ _ Ht) as [A2 B2]. split.
  - cbn [own_paramdecl]. intros (H1 & H2 & H3). split; [exact H1|]. split; [apply A1; exact H2 | apply A2; exact H3].
  - intros b. cbn [nd_paramdecl map]. rewrite !map_app, B1. do 2 f_equal. apply (B2 b).
Qed.

Lemma kvd_valid doc n n' ty ty' inf : KOid n n' -> KO KT ty ty' -> KVd (VValid doc n ty inf) (VValid doc n' ty' inf).
Proof.
  intros Hn Ht. destruct (koid_keeps _ _ Hn) as [A1 B1], (ko_keeps _ _ _ _ Ht) as [A2 B2]. split.
  - cbn [own_vardecl]. intros (H1 & H2 & H3). split; [exact H1|]. split; [apply A1; exact H2 | apply A2; exact H3].
  - intros b. cbn [nd_vardecl map]. rewrite !map_app, B1. do 2 f_equal. apply (B2 b).
Qed.

Lemma kg_type d d' : KOid (td_name d) (td_name d') -> KO KT (td_ty d) (td_ty d') -> td_info d' = td_info d -> KG (GType d) (GType d').
Proof.
  intros Hn Ht Ei. destruct (koid_keeps _ _ Hn) as [A1 B1], (ko_keeps _ _ _ _ Ht) as [A2 B2]. split.
  - cbn [own_gdecl]. rewrite Ei. intros (H1 & H2 & H3). split; [exact H1|]. split; [apply A1; exact H2 | apply A2; exact H3].
  - intros b. cbn [nd_gdecl map]. rewrite !map_app, B1, Ei. do 2 f_equal. apply (B2 b).
Qed.

Lemma kg_proc d d' :
  KOid (pd_name d) (pd_name d') -> krefs KP (pd_params d) (pd_params d') -> krefs KVd (pd_vars d) (pd_vars d') ->
  krefs KS (pd_stmts d) (pd_stmts d') -> pd_info d' = pd_info d -> KG (GProc d) (GProc d').
Proof.
  intros Hn Hp Hv Hs Ei. destruct (koid_keeps _ _ Hn) as [A1 B1], (krefs_keeps _ _ _ _ Hp) as [A2 B2], (krefs_keeps _ _ _ _ Hv) as [A3 B3],
    (krefs_keeps _ _ _ _ Hs) as [A4 B4]. split.
  - cbn [own_gdecl]. rewrite Ei. intros (H1 & H2 & H3 & H4 & H5). repeat split; auto.
  - intros b. cbn [nd_gdecl map]. rewrite !map_app, B1, B2, B3, B4, Ei. reflexivity.
Qed.

(* ================================================================================================
   3. Semantic analysis
   ================================================================================================ *)
Section Sem.
Variables (L : option ltable) (G : option gtable).

Fixpoint an_var_keeps (v : variable) {struct v} : okp (fun r => KV v (fst r)) (an_var L G v)
with an_expr_keeps (e : expr) {struct e} : okp (fun r => KE e (fst r)) (an_expr L G e).
Proof.
  - destruct v as [named|arr index inf]; cbn [an_var].
    + destruct (lt_lookup L G (id_val named)) as [[te|pe|ve|ve]|];
        try (apply (okp_bind (KD named)); [apply kd_flag; intros s; reflexivity | intros n' Hn; cbn [okp fst]; apply kv_named; exact Hn]);
        cbn [okp fst]; apply keeps_refl.
    + apply (okp_bind (KO KE index)).
      * destruct index as [[e off]|]; [|exact I].
        apply (okp_bind (fun r => KE e (fst r))); [apply an_expr_keeps|]. intros [e' ty] He. cbn [fst] in He. cbn [okp KO]. split; [|reflexivity].
        destruct ty as [[| |]|]; try exact He; (eapply keeps_trans; [exact He | apply ke_flag; reflexivity]).
      * intros index' Hi. apply (okp_bind (fun r => KV arr (fst r))); [apply an_var_keeps|]. intros [arr' aty] Ha. cbn [fst] in Ha.
        destruct aty as [[| |]|]; cbn [okp fst]; apply kv_arr; try assumption; try apply ki_refl; apply ki_mk.
  - destruct e as [op l r inf|a inf|i|op a inf|v|inf]; cbn [an_expr].
    + apply (okp_bind (fun r => KE l (fst r))); [apply an_expr_keeps|]. intros [l' lt] Hl. cbn [fst] in Hl.
      apply (okp_bind (fun z => KE r (fst z))); [apply an_expr_keeps|]. intros [r' rt] Hr. cbn [fst] in Hr.
      cbn [okp fst]. apply ke_bin; [exact Hl | exact Hr|].
      destruct lt as [ta|], rt as [tb|]; try apply ki_refl.
      destruct (is_int ta && is_int tb); [apply ki_refl|]. destruct (is_int ta || is_int tb); [apply ki_mk|].
      destruct (is_arithmetic op); apply ki_mk.
    + apply (okp_bind (fun r => KE a (fst r))); [apply an_expr_keeps|]. intros [a' ty] Ha. cbn [okp fst] in *.
      apply ke_brack; [exact Ha | apply ki_refl].
    + cbn [okp fst]. apply keeps_refl.
    + apply (okp_bind (fun r => KE a (fst r))); [apply an_expr_keeps|]. intros [a' ty] Ha. cbn [okp fst] in *.
      apply ke_un; [exact Ha|]. destruct ty as [t|]; [|apply ki_refl]. destruct (is_int t); [apply ki_refl | apply ki_mk].
    + apply (okp_bind (fun r => KV v (fst r))); [apply an_var_keeps|]. intros [v' ty] Hv. cbn [okp fst] in *. apply ke_var. exact Hv.
    + cbn [okp fst]. apply keeps_refl.
Qed.

Lemma an_cond_keeps c m : name_msg (ESem m) = false -> okp (KO KE c) (an_cond L G c m).
Proof.
  intros Hm. destruct c as [[e off]|]; [|exact I]. cbn [an_cond].
  apply (okp_bind (fun r => KE e (fst r))); [apply an_expr_keeps|]. intros [e' ty] He. cbn [fst] in He. cbn [okp KO]. split; [|reflexivity].
  destruct ty as [[| |]|]; try exact He; (eapply keeps_trans; [exact He | apply ke_flag; exact Hm]).
Qed.

Lemma an_args_keeps cname : forall args i params, okp (krefs KE args) (an_args L G cname i args params).
Proof.
  induction args as [|[a off] ar IH]; intros i params; [constructor|].
  destruct params as [|p pr]; [cbn [an_args okp]; apply krefs_refl; intros; apply keeps_refl|]. cbn [an_args].
  set (a1 := if ve_ref p && negb match a with EVar _ => true | _ => false end
             then expr_append a (mkerr_t (expr_range a) (ESem (ArgumentMustBeAVariable cname i))) else a).
  assert (H1 : KE a a1) by (unfold a1; destruct (ve_ref p && _); [apply ke_flag; reflexivity | apply keeps_refl]).
  apply (okp_bind (fun r => KE a1 (fst r))); [apply an_expr_keeps|]. intros [a2 ty] H2. cbn [fst] in H2.
  pose proof (keeps_trans _ _ _ _ _ H1 H2) as H12.
  apply (okp_bind (krefs KE ar)); [apply IH|]. intros r Hr. cbn [okp]. constructor; [|exact Hr]. cbn [fst snd]. split; [|reflexivity].
  destruct ty as [t1|]; [|exact H12]. destruct (ve_ty p) as [t2|]; [|exact H12]. destruct (dt_eqb t1 t2); [exact H12|].
  eapply keeps_trans; [exact H12|]. rewrite <- (ke_range _ _ H12). apply ke_flag. reflexivity.
Qed.

Definition stmt_keeps_p (s : stmt) : Prop := okp (KS s) (an_stmt L G s).

Lemma an_ref_keeps (r : option (stmt * nat)) : (forall x off, r = Some (x, off) -> stmt_keeps_p x) ->
  okp (KO KS r) (match r with Some (x, off) => do x' <- an_stmt L G x; ROk (Some (x', off)) | None => ROk None end).
Proof.
  intros IH. destruct r as [[x off]|]; [|exact I]. apply (okp_bind (KS x)); [apply (IH x off eq_refl)|].
  intros x' Hx. cbn [okp KO]. split; [exact Hx | reflexivity].
Qed.

Lemma an_stmts_keeps_of body : (forall x off, In (x, off) body -> stmt_keeps_p x) -> okp (krefs KS body) (an_stmts L G body).
Proof.
  induction body as [|[x off] r IH]; intros H; [constructor|]. cbn [an_stmts].
  apply (okp_bind (KS x)); [apply (H x off (or_introl eq_refl))|]. intros x' Hx.
  apply (okp_bind (krefs KS r)); [apply IH; intros y o Hy; apply (H y o (or_intror Hy))|]. intros r' Hr.
  cbn [okp]. constructor; [split; [exact Hx | reflexivity] | exact Hr].
Qed.

Theorem an_stmt_keeps : forall s, stmt_keeps_p s.
Proof.
  apply FormatProofs.stmt_ind'; unfold stmt_keeps_p.
  - intros inf. apply keeps_refl.
  - intros v [[e off]|] inf; [|apply keeps_refl]. cbn [an_stmt].
    apply (okp_bind (fun r => KV v (fst r))); [apply an_var_keeps|]. intros [v' lty] Hv. cbn [fst] in Hv.
    apply (okp_bind (fun r => KE e (fst r))); [apply an_expr_keeps|]. intros [e' rty] He. cbn [fst] in He.
    cbn [okp]. apply ks_assign; [exact Hv | split; [exact He | reflexivity]|].
    destruct lty as [a|], rty as [b|]; try apply ki_refl.
    destruct (negb (dt_eqb a b)); [apply ki_mk|]. destruct (negb (is_int a)); [apply ki_mk | apply ki_refl].
  - intros name args inf. cbn [an_stmt].
    destruct (lt_lookup L G (id_val name)) as [[te|pe|ve|ve]|];
      try (cbn [okp]; apply ks_call; [apply krefs_refl; intros; apply keeps_refl | apply ki_mk]).
    apply (okp_bind (krefs KE args)); [apply an_args_keeps|]. intros args' Ha. cbn [okp]. apply ks_call; [exact Ha|].
    destruct (Nat.compare (length args) (length (pe_params pe))); [apply ki_refl | apply ki_mk | apply ki_mk].
  - intros c t e inf IHt IHe. rewrite an_stmt_if.
    apply (okp_bind (KO KE c)); [apply an_cond_keeps; reflexivity|]. intros c' Hc.
    apply (okp_bind (KO KS t)); [apply an_ref_keeps; exact IHt|]. intros t' Ht.
    apply (okp_bind (KO KS e)); [apply an_ref_keeps; exact IHe|]. intros e' He. cbn [okp]. apply ks_if; assumption.
  - intros c b inf IHb. rewrite an_stmt_while.
    apply (okp_bind (KO KE c)); [apply an_cond_keeps; reflexivity|]. intros c' Hc.
    apply (okp_bind (KO KS b)); [apply an_ref_keeps; exact IHb|]. intros b' Hb. cbn [okp]. apply ks_while; assumption.
  - intros body inf IH. rewrite an_stmt_block.
    apply (okp_bind (krefs KS body)); [apply an_stmts_keeps_of; exact IH|]. intros body' Hb. cbn [okp]. apply ks_block. exact Hb.
  - intros inf. apply keeps_refl.
Qed.

Theorem an_stmts_keeps body : okp (krefs KS body) (an_stmts L G body).
Proof. apply an_stmts_keeps_of. intros x off _. apply an_stmt_keeps. Qed.

End Sem.

(* ================================================================================================
   4. Table build
   ================================================================================================ *)
Fixpoint gdt_te_keeps l g caller (t : typeexpr) {struct t} : okp (fun r => KT t (fst r)) (get_data_type_te l g caller t).
Proof.
  destruct t as [name|size base inf]; cbn [get_data_type_te].
  - destruct (lt_lookup l g (id_val name)) as [[te|pe|ve|ve]|];
      try (apply (okp_bind (KD name)); [apply kd_flag; intros s; reflexivity | intros n' Hn; cbn [okp fst]; apply kt_named; exact Hn]).
    cbn [okp fst]. apply keeps_refl.
  - destruct base as [[b off]|]; [|cbn [okp fst]; apply keeps_refl].
    apply (okp_bind (fun r => KT b (fst r))); [apply gdt_te_keeps|]. intros [b' bt] Hb. cbn [okp fst] in *.
    apply kt_arr. split; [exact Hb | reflexivity].
Qed.

Lemma gdt_keeps l g caller t : okp (fun r => KO KT t (fst r)) (get_data_type l g caller t).
Proof.
  destruct t as [[te off]|]; [|exact I]. cbn [get_data_type].
  apply (okp_bind (fun r => KT te (fst r))); [apply gdt_te_keeps|]. intros [te' dt] Ht. cbn [okp fst KO] in *. split; [exact Ht | reflexivity].
Qed.

Lemma build_parameter_keeps p name g local :
  okp (fun r => KP (fst p) (fst (fst (fst r))) /\ snd (fst (fst r)) = snd p) (build_parameter p name g local).
Proof.
  destruct p as [pd off]. unfold build_parameter. destruct pd as [docs is_ref [nm|] ty inf|inf]; try (cbn [okp fst snd]; split; [apply keeps_refl | reflexivity]).
  apply (okp_bind (fun r => KO KT ty (fst r))); [apply gdt_keeps|]. intros [ty' dt] Ht. cbn [fst] in Ht.
  apply (okp_bind (KD nm)).
  { destruct dt as [d|]; [|apply kd_refl]. destruct (negb (is_primitive d) && negb is_ref); [apply kd_flag; intros s; reflexivity | apply kd_refl]. }
  intros n1 H1. destruct (enter local (id_val nm) _) as [local' ok].
  apply (okp_bind (KD nm)).
  { destruct ok; [exact H1|]. pose proof (kd_flag n1 (fun n => EBuild (RedeclarationAsParameter n)) (fun s => eq_refl)) as H.
    destruct (ident_flag n1 _) as [n2|]; [|exact I]. cbn [okp] in *. eapply kd_trans; eassumption. }
  intros n2 H2. cbn [okp fst snd]. split; [|reflexivity]. apply kp_valid; [exact H2 | exact Ht].
Qed.

Lemma build_parameters_keeps name g : forall ps local, okp (fun r => krefs KP ps (fst (fst r))) (build_parameters ps name g local).
Proof.
  induction ps as [|p r IH]; intros local; [constructor|]. cbn [build_parameters].
  apply (okp_bind _ _ _ _ (build_parameter_keeps p name g local)). intros [[p' l1] oe] [Hp Eo]. cbn [fst snd] in Hp, Eo.
  apply (okp_bind _ _ _ _ (IH l1)). intros [[r' l2] es] Hr. cbn [okp fst] in *. constructor; [split; assumption | exact Hr].
Qed.

Lemma build_variable_keeps v name g local :
  okp (fun r => KVd (fst v) (fst (fst r)) /\ snd (fst r) = snd v) (build_variable v name g local).
Proof.
  destruct v as [vd off]. unfold build_variable. destruct vd as [docs [nm|] ty inf|inf]; try (cbn [okp fst snd]; split; [apply keeps_refl | reflexivity]).
  apply (okp_bind (fun r => KO KT ty (fst r))); [apply gdt_keeps|]. intros [ty' dt] Ht. cbn [fst] in Ht.
  destruct (enter local (id_val nm) _) as [local' ok].
  apply (okp_bind (KD nm)); [destruct ok; [apply kd_refl | apply kd_flag; intros s; reflexivity]|].
  intros n2 H2. cbn [okp fst snd]. split; [|reflexivity]. apply kvd_valid; [exact H2 | exact Ht].
Qed.

Lemma build_variables_keeps name g : forall vs local, okp (fun r => krefs KVd vs (fst r)) (build_variables vs name g local).
Proof.
  induction vs as [|v r IH]; intros local; [constructor|]. cbn [build_variables].
  apply (okp_bind _ _ _ _ (build_variable_keeps v name g local)). intros [v' l1] [Hv Eo]. cbn [fst snd] in Hv, Eo.
  apply (okp_bind _ _ _ _ (IH l1)). intros [r' l2] Hr. cbn [okp fst] in *. constructor; [split; assumption | exact Hr].
Qed.

Lemma build_typedecl_keeps d table o : okp (fun r => KG (GType d) (GType (fst r))) (build_typedecl d table o).
Proof.
  unfold build_typedecl. destruct (td_name d) as [name|] eqn:En; [|cbn [okp fst]; apply keeps_refl].
  destruct (text_eqb (id_val name) s_main).
  - apply (okp_bind (KD name)); [apply kd_flag; intros s; reflexivity|]. intros n' Hn. cbn [okp fst].
    apply kg_type; cbn [td_name td_ty td_info]; [rewrite En; exact Hn | apply ko_refl; intros; apply keeps_refl | reflexivity].
  - apply (okp_bind (fun r => KO KT (td_ty d) (fst r))); [apply gdt_keeps|]. intros [ty' dt] Ht. cbn [fst] in Ht.
    destruct (enter table (id_val name) _) as [table' ok].
    apply (okp_bind (KD name)); [destruct ok; [apply kd_refl | apply kd_flag; intros s; reflexivity]|].
    intros n' Hn. cbn [okp fst]. apply kg_type; cbn [td_name td_ty td_info]; [rewrite En; exact Hn | exact Ht | reflexivity].
Qed.

Lemma build_procdecl_keeps d table o : okp (fun r => KG (GProc d) (GProc (fst r))) (build_procdecl d table o).
Proof.
  unfold build_procdecl. destruct (pd_name d) as [name|] eqn:En; [|cbn [okp fst]; apply keeps_refl].
  apply (okp_bind _ _ _ _ (build_parameters_keeps (id_val name) table (pd_params d) [])). intros [[ps' l1] params] Hp. cbn [fst] in Hp.
  apply (okp_bind _ _ _ _ (build_variables_keeps (id_val name) table (pd_vars d) l1)). intros [vs' l2] Hv. cbn [fst] in Hv.
  destruct (enter table (id_val name) _) as [table' ok].
  apply (okp_bind (KD name)); [destruct ok; [apply kd_refl | apply kd_flag; intros s; reflexivity]|].
  intros n' Hn. cbn [okp fst]. apply kg_proc; cbn [pd_name pd_params pd_vars pd_stmts pd_info]; try assumption; try reflexivity.
  - rewrite En. exact Hn.
  - apply krefs_refl. intros. apply keeps_refl.
Qed.

Lemma build_gdecl_keeps d table o : okp (fun r => KG d (fst r)) (build_gdecl d table o).
Proof.
  destruct d as [t|p|inf]; cbn [build_gdecl].
  - apply (okp_bind _ _ _ _ (build_typedecl_keeps t table o)). intros [t' tb] H. exact H.
  - apply (okp_bind _ _ _ _ (build_procdecl_keeps p table o)). intros [p' tb] H. exact H.
  - cbn [okp fst]. apply keeps_refl.
Qed.

Lemma build_gdecls_keeps o : forall ds table, okp (fun r => krefs KG ds (fst r)) (build_gdecls ds table o).
Proof.
  induction ds as [|[d off] r IH]; intros table; [constructor|]. cbn [build_gdecls].
  apply (okp_bind _ _ _ _ (build_gdecl_keeps d table (o + off))). intros [d' t1] Hd. cbn [fst] in Hd.
  apply (okp_bind _ _ _ _ (IH t1)). intros [r' t2] Hr. cbn [okp fst] in *. constructor; [split; [exact Hd | reflexivity] | exact Hr].
Qed.

(* ================================================================================================
   5. analyze
   ================================================================================================ *)
Lemma analyze_gdecl_keeps table d : okp (fun r => KG (fst d) (fst r) /\ snd r = snd d) (analyze_gdecl table d).
Proof.
  destruct d as [g o]. unfold analyze_gdecl. destruct g as [t|pd|inf]; try (cbn [okp fst snd]; split; [apply keeps_refl | reflexivity]).
  destruct (pd_name pd) as [name|] eqn:En; [|cbn [okp fst snd]; split; [apply keeps_refl | reflexivity]].
  destruct (lookup table (id_val name)) as [[te|pe]|]; [cbn [okp fst snd]; split; [apply keeps_refl | reflexivity] | | exact I].
  destruct (negb _); [cbn [okp fst snd]; split; [apply keeps_refl | reflexivity]|].
  apply (okp_bind _ _ _ _ (an_stmts_keeps (Some (pe_local pe)) (Some table) (pd_stmts pd))). intros s' Hs. cbn [okp fst snd]. split; [|reflexivity].
  apply kg_proc; cbn [pd_name pd_params pd_vars pd_stmts pd_info]; try reflexivity; try (apply krefs_refl; intros; apply keeps_refl); [|exact Hs].
  rewrite ?En. apply koid_refl.
Qed.

Lemma analyze_gdecls_keeps table : forall ds, okp (krefs KG ds) (analyze_gdecls table ds).
Proof.
  induction ds as [|d r IH]; [constructor|]. cbn [analyze_gdecls].
  apply (okp_bind _ _ _ _ (analyze_gdecl_keeps table d)). intros d' [Hd Eo].
  apply (okp_bind _ _ _ _ IH). intros r' Hr. cbn [okp]. constructor; [split; assumption | exact Hr].
Qed.

(* ================================================================================================
   6. build followed by analyze: the declarations
   ================================================================================================ *)
Theorem pipeline_keeps p p1 T1 p2 :
  build_program p initialized 0 = ROk (p1, T1) -> analyze_res p1 T1 = ROk p2 ->
  keeps (own_refs own_gdecl) (nd_refs nd_gdecl) (pg_decls p) (pg_decls p2) /\ pg_info p2 = pg_info p1.
Proof.
  intros HB HA. unfold build_program in HB.
  pose proof (build_gdecls_keeps 0 (pg_decls p) initialized) as K1.
  destruct (build_gdecls (pg_decls p) initialized 0) as [[ds1 t1]|]; [|discriminate HB]. cbn [rbind okp fst] in HB, K1.
  assert (E1 : pg_decls p1 = ds1).
  { destruct (lookup t1 s_main) as [[te|main]|]; [discriminate HB | |injection HB as <- _; reflexivity].
    destruct (pe_params main); [injection HB as <- _; reflexivity|].
    destruct (to_error _ _); [|discriminate HB]. cbn [rbind] in HB. injection HB as <- _. reflexivity. }
  unfold analyze_res in HA. pose proof (analyze_gdecls_keeps T1 (pg_decls p1)) as K2.
  destruct (analyze_gdecls T1 (pg_decls p1)) as [ds2|]; [|discriminate HA]. cbn [rbind okp] in HA, K2. injection HA as <-. cbn [pg_decls pg_info].
  split; [|reflexivity]. apply krefs_keeps. rewrite E1 in K2.
  exact (krefs_trans _ _ (fun a b c => keeps_trans _ _ a b c) _ _ K1 K2).
Qed.
