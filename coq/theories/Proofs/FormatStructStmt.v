(* C09 part (A): comma-separated lists, statements (with fmt_branch and else-if chains), statement sequences. *)
From Coq Require Import String Lia PeanoNat.
From Spl Require Import Model.Format Model.Lexer Spec.Grammar Proofs.RenderProofs Proofs.FormatProofs
  Proofs.FormatStructText Proofs.FormatStructTok Proofs.FormatStructExpr.
From Spl Require Proofs.GrammarStmt.
Import ListNotations.
Local Open Scope nat_scope.

(* side conditions on gaps that are variables *)
Ltac gapt := first [reflexivity | assumption].
Ltac net := first [discriminate | assumption].

Lemma ends_tail {A} (fl : A -> list kind) l ks0 : (forall a, ends_e (fl a)) -> ends_e ks0 -> ends_e (ks0 ++ fl_tail fl l).
Proof.
  intros Hfl. revert ks0. induction l as [|[c a] r IH]; intros ks0 H0.
  - unfold fl_tail. cbn [flat_map]. rewrite app_nil_r. exact H0.
  - unfold fl_tail in *. cbn [flat_map fst snd]. rewrite app_assoc. apply IH. rewrite app_assoc. apply ends_app, ends_cons, Hfl.
Qed.

Lemma ends_sep {A} (fl : A -> list kind) a l : (forall a, ends_e (fl a)) -> ends_e (fl_sep fl (Some (a, l))).
Proof. intros Hfl. cbn [fl_sep]. apply ends_tail; [exact Hfl | apply Hfl]. Qed.

Ltac ends2 := first [solve [apply ends_sep; first [exact ends_cmp | assumption]] | solve [ends]].

Ltac wv2 :=
  lazymatch goal with
  | |- Wv [?k] (sh ?k) => apply Wv_one; nicek
  | |- Wv (?k :: ?ks) (sh ?k ++ gp ?g ++ ?t) => apply (Wv_tok_sp k ks g t); [nicek | wv2 | gapt | net]
  | |- Wv (?k :: ?ks) (sh ?k ++ ?t) =>
      first [ apply (Wv_tok_closed k ks t); [reflexivity | wv2]
            | apply (Wv_tok_punct k ks t); [nicek | endk | wv2 | reflexivity] ]
  | |- Wv (?ks1 ++ ?ks2) (?t1 ++ gp ?g ++ ?t2) => apply (Wv_sp ks1 ks2 t1 g t2); [wv2 | wv2 | gapt | net]
  | |- Wv (?ks1 ++ ?ks2) (?t1 ++ ?t2) => apply (Wv_sub_punct ks1 ks2 t1 t2); [wv2 | ends2 | wv2 | reflexivity]
  | |- Wv _ _ => eassumption
  end.

(* [out = t ++ [10]] for a right-nested [out]: take everything but the final line feed *)
Ltac nl_split := eexists; split; [rewrite ?app_assoc; reflexivity | rewrite <- ?app_assoc].

(* ================================================================================================
   1. Comma-separated lists (arguments, parameters)
   ================================================================================================ *)
Lemma fmap_nil {A} (g : A -> fres) k : fmap g [] k = k [].
Proof. reflexivity. Qed.
Lemma fmap_cons {A} (g : A -> fres) x r k : fmap g (x :: r) k = (do a <- g x; fmap g r (fun bs => k (a :: bs))).
Proof. reflexivity. Qed.

Lemma fl_tail_cons {A} (fl : A -> list kind) c a r :
  fl_tail fl ((c, a) :: r) = cm c ++ Comma :: fl a ++ fl_tail fl r.
Proof. unfold fl_tail. cbn [flat_map fst snd]. rewrite <- app_assoc. reflexivity. Qed.

Section Sep.
Context {A B : Type}.
Variable fl : A -> list kind.
Variable x : A -> B.
Variable toks : list token.
Variable g : B * nat -> fres.
(* what is assumed of an element (comment-free, or comments in leading position only) *)
Variable okp : A -> Prop.

Definition elem_ok (a : A) : Prop :=
  forall off, okp a -> At toks off (fl a) -> exists t, g (x a, off) = FOk t /\ Wv (fl a) t.

Hypothesis fl_ends : forall a, ends_e (fl a).

Definition sepf (gsep : text) (acc p : text) : text := acc ++ (sh Comma ++ gsep) ++ p.

Lemma join_sepf gsep t ts : join (sh Comma ++ gsep) (t :: ts) = fold_left (sepf gsep) ts t.
Proof. reflexivity. Qed.

(* no comment in front of a comma, every element admissible *)
Definition tail_okp (l : list (cs * A)) : Prop := Forall (fun ca : cs * A => fst ca = [] /\ okp (snd ca)) l.

(* the elements are printed one by one; joined with "," and any non-empty gap they are woven *)
Lemma tail_prints l : Forall (fun ca : cs * A => elem_ok (snd ca)) l -> forall o,
  tail_okp l -> At toks o (fl_tail fl l) ->
  exists ts, (forall k, fmap g (x_tail fl x o l) k = k ts) /\ length ts = length l /\
             forall gsep ks0 t0, forallb gapc gsep = true -> gsep <> [] -> Wv ks0 t0 -> ends_e ks0 ->
                                 Wv (ks0 ++ fl_tail fl l) (fold_left (sepf gsep) ts t0).
Proof.
  induction 1 as [|[c a] r Ha _ IH]; intros o Hn H.
  - exists []. split; [reflexivity|]. split; [reflexivity|]. intros gsep ks0 t0 _ _ W0 _.
    cbn [fold_left fl_tail flat_map]. rewrite app_nil_r. exact W0.
  - inversion Hn as [|? ? [Hc Hoa] Hn']; subst. cbn [fst snd] in Hc, Hoa, Ha. subst c.
    rewrite fl_tail_cons in *. cbn [cm map app length] in *. at_split.
    destruct (Ha (o + length (@nil text) + 1) Hoa ltac:(at_solve)) as (t & Et & Wt).
    destruct (IH (o + length (@nil text) + 1 + length (fl a)) Hn' ltac:(at_solve)) as (ts & Ets & Lts & Wts).
    exists (t :: ts). split; [|split].
    + intros k. cbn [x_tail]. rewrite fmap_cons, Et. cbn [fbind]. apply Ets.
    + cbn [length]. rewrite Lts. reflexivity.
    + intros gsep ks0 t0 Gg Gn W0 E0.
      assert (W1 : Wv (ks0 ++ Comma :: fl a) (t0 ++ (sh Comma ++ gsep) ++ t)).
      { rewrite <- app_assoc. change gsep with (gp gsep) at 1. wv2. }
      assert (E1 : ends_e (ks0 ++ Comma :: fl a)) by (apply ends_app, ends_cons, fl_ends).
      pose proof (Wts gsep _ _ Gg Gn W1 E1) as W2. rewrite <- app_assoc in W2. exact W2.
Qed.

Lemma sep_prints a l : elem_ok a -> Forall (fun ca : cs * A => elem_ok (snd ca)) l -> forall o,
  okp a -> tail_okp l -> At toks o (fl_sep fl (Some (a, l))) ->
  exists t ts, (forall k, fmap g (x_sep fl x o (Some (a, l))) k = k (t :: ts)) /\ length ts = length l /\
               forall gsep, forallb gapc gsep = true -> gsep <> [] ->
                            Wv (fl_sep fl (Some (a, l))) (join (sh Comma ++ gsep) (t :: ts)).
Proof.
  intros Ha Hl o Hoa Hn H. cbn [fl_sep] in *. at_split.
  destruct (Ha o Hoa ltac:(at_solve)) as (t & Et & Wt).
  destruct (tail_prints l Hl (o + length (fl a)) Hn ltac:(at_solve)) as (ts & Ets & Lts & Wts).
  exists t, ts. split; [|split].
  - intros k. cbn [x_sep]. rewrite fmap_cons, Et. cbn [fbind]. apply Ets.
  - exact Lts.
  - intros gsep Gg Gn. rewrite join_sepf. apply Wts; [exact Gg | exact Gn | exact Wt | apply fl_ends].
Qed.
End Sep.

(* a comment-free tail: no comment in front of a comma, every element comment-free *)
Lemma nice_tail {A} (fl : A -> list kind) l :
  forallb nice (fl_tail fl l) = true -> tail_okp (fun a => forallb nice (fl a) = true) l.
Proof.
  induction l as [|[c a] r IH]; intros H; [constructor|]. rewrite fl_tail_cons in H. nice_split.
  constructor; [split; [reflexivity | assumption] | apply IH; assumption].
Qed.

(* ================================================================================================
   2. The statement printers, written with [sh] and [gp]
   ================================================================================================ *)
Lemma fmt_assign_body_eq v e off toks :
  fmt_assign_body v (Some (e, off)) toks =
  (do ex <- with_from off toks (fun t' => fmt_expr e t'); do vv <- fmt_var v toks;
   FOk (vv ++ gp [32%N] ++ sh Assign ++ gp [32%N] ++ ex ++ sh Semic ++ [10%N])).
Proof. reflexivity. Qed.

Lemma fmt_call_body_eq name args toks :
  fmt_call_body name args toks =
  fmap (fun a : expr * nat => with_from (snd a) toks (fun t' => fmt_expr (fst a) t')) args (fun l =>
    FOk (sh (Ident (id_val name)) ++ sh LParen ++ join (sh Comma ++ [32%N]) l ++ sh RParen ++ sh Semic ++ [10%N])).
Proof. reflexivity. Qed.

Section Stmt.
Variable f : fopts.
Hypothesis sym_ok : (ind_sym f = 32 \/ ind_sym f = 9)%N.

Notation unit := (indentation f).

Lemma fmt_stmt_empty inf toks :
  fmt_stmt f (SEmpty inf) toks = with_slice inf toks (fun sl => FOk (add_all_comments (sh Semic ++ [10%N]) sl)).
Proof. reflexivity. Qed.

Lemma fmt_stmt_assign v e inf toks :
  fmt_stmt f (SAssign v e inf) toks =
  (do body <- fmt_assign_body v e toks; with_slice inf toks (fun sl => FOk (add_all_comments body sl))).
Proof. reflexivity. Qed.

Lemma fmt_stmt_call n a inf toks :
  fmt_stmt f (SCall n a inf) toks =
  (do body <- fmt_call_body n a toks; with_slice inf toks (fun sl => FOk (add_all_comments body sl))).
Proof. reflexivity. Qed.

Lemma fmt_stmt_block_nil inf toks :
  fmt_stmt f (SBlock [] inf) toks =
  with_slice inf toks (fun sl => FOk (add_leading_comments (sh LCurly ++ sh RCurly ++ [10%N]) sl)).
Proof. reflexivity. Qed.

Lemma fmt_stmt_block_cons b0 body inf toks :
  fmt_stmt f (SBlock (b0 :: body) inf) toks =
  (do ss <- fmt_stmts f (b0 :: body) toks;
   with_slice inf toks (fun sl => FOk (add_leading_comments (sh LCurly ++ gp [10%N] ++ indent ss f ++ sh RCurly ++ [10%N]) sl))).
Proof. rewrite fmt_stmt_block. cbn [fbind]. destruct (fmt_stmts f (b0 :: body) toks); reflexivity. Qed.

Lemma fmt_stmt_while_eq c oc b inf toks :
  fmt_stmt f (SWhile (Some (c, oc)) b inf) toks =
  (do cond <- with_from oc toks (fun t' => fmt_expr c t');
   do br <- fmt_branch f b toks 10%N;
   with_slice inf toks (fun sl => FOk (add_leading_comments (sh KWhile ++ gp [32%N] ++ sh LParen ++ cond ++ sh RParen ++ br) sl))).
Proof. rewrite fmt_stmt_while. reflexivity. Qed.

Lemma fmt_stmt_if_none c oc t inf toks :
  fmt_stmt f (SIf (Some (c, oc)) t None inf) toks =
  (do cond <- with_from oc toks (fun t' => fmt_expr c t');
   do b <- fmt_branch f t toks 10%N;
   with_slice inf toks (fun sl => FOk (add_leading_comments (sh KIf ++ gp [32%N] ++ sh LParen ++ cond ++ sh RParen ++ b) sl))).
Proof.
  rewrite fmt_stmt_if. cbn [fmt_ref_expr]. destruct (with_from oc toks _) as [cond|]; [|reflexivity]. cbn [fbind].
  destruct (fmt_branch f t toks 10%N); reflexivity.
Qed.

Lemma fmt_stmt_if_else c oc t x off inf toks :
  is_if x = false ->
  fmt_stmt f (SIf (Some (c, oc)) t (Some (x, off)) inf) toks =
  (do cond <- with_from oc toks (fun t' => fmt_expr c t');
   do b <- fmt_branch f t toks 32%N;
   do b2 <- fmt_branch f (Some (x, off)) toks 10%N;
   with_slice inf toks (fun sl => FOk (add_leading_comments
     (sh KIf ++ gp [32%N] ++ sh LParen ++ cond ++ sh RParen ++ b ++ sh KElse ++ b2) sl))).
Proof.
  intros Hx. rewrite fmt_stmt_if. cbn [fmt_ref_expr]. destruct (with_from oc toks _) as [cond|]; [|reflexivity]. cbn [fbind].
  destruct x; try discriminate Hx;
    (destruct (fmt_branch f t toks 32%N); [|reflexivity]; cbn [fbind];
     match goal with |- context [fmt_branch f ?e toks 10%N] => destruct (fmt_branch f e toks 10%N) end; reflexivity).
Qed.

Lemma fmt_stmt_if_elseif c oc t x off inf toks :
  is_if x = true ->
  fmt_stmt f (SIf (Some (c, oc)) t (Some (x, off)) inf) toks =
  (do cond <- with_from oc toks (fun t' => fmt_expr c t');
   do b <- fmt_branch f t toks 32%N;
   do ei <- with_from off toks (fun t' => fmt_stmt f x t');
   with_slice inf toks (fun sl => FOk (add_leading_comments
     (sh KIf ++ gp [32%N] ++ sh LParen ++ cond ++ sh RParen ++ b ++ sh KElse ++ gp [32%N] ++ ei) sl))).
Proof.
  intros Hx. rewrite fmt_stmt_if. cbn [fmt_ref_expr]. destruct (with_from oc toks _) as [cond|]; [|reflexivity]. cbn [fbind].
  destruct x; try discriminate Hx.
  destruct (fmt_branch f t toks 32%N); [|reflexivity]. cbn [fbind].
  match goal with |- context [with_from off toks ?k] => destruct (with_from off toks k) end; reflexivity.
Qed.

Lemma fmt_branch_block_nil i off toks ending :
  fmt_branch f (Some (SBlock [] i, off)) toks ending =
  with_from off toks (fun _ => FOk (gp [32%N] ++ (sh LCurly ++ sh RCurly) ++ gp [10%N])).
Proof. reflexivity. Qed.

Lemma fmt_branch_block_cons b0 body i off toks ending :
  fmt_branch f (Some (SBlock (b0 :: body) i, off)) toks ending =
  with_from off toks (fun t' => do ss <- fmt_stmts f (b0 :: body) t';
                                FOk (gp [32%N] ++ (sh LCurly ++ gp [10%N] ++ indent ss f ++ sh RCurly) ++ gp [ending])).
Proof.
  unfold fmt_branch, with_from. destruct (slice_from off toks) as [t'|]; [|reflexivity].
  destruct (fmt_stmts f (b0 :: body) t') as [ss|]; [|reflexivity]. cbn [fbind]. unfold gp. rewrite <- !app_assoc. reflexivity.
Qed.

Lemma fmt_branch_plain x off toks ending :
  is_block x = false ->
  fmt_branch f (Some (x, off)) toks ending =
  with_from off toks (fun t' => do st <- fmt_stmt f x t'; FOk ([10%N] ++ indent st f)).
Proof. intros Hx. destruct x; try discriminate Hx; reflexivity. Qed.

Lemma fmt_stmts_nil toks : fmt_stmts f [] toks = FOk [].
Proof. reflexivity. Qed.

Lemma fmt_stmts_cons s o r toks :
  fmt_stmts f ((s, o) :: r) toks =
  (do a <- with_from o toks (fun t' => fmt_stmt f s t'); do b <- fmt_stmts f r toks; FOk (a ++ b)).
Proof. reflexivity. Qed.

(* the slice of the node's own range: the comments of its leading slot, then no comment (add_all_comments) resp.
   a token that is no comment (add_leading_comments): the helpers print exactly the leading comments *)
Lemma finish_all toks o e ks0 c ks body :
  At toks o ks0 -> ks0 = cm c ++ ks -> forallb nice ks = true -> e = o + length ks0 ->
  with_slice (mkinfo o e) toks (fun sl => FOk (add_all_comments body sl)) = FOk (lead_text c ++ body).
Proof.
  intros H -> Hn He. destruct (with_slice_At toks o e _ (fun sl => FOk (add_all_comments body sl)) H He) as (sl & E & M).
  rewrite E, (lead_all sl c ks body M Hn). reflexivity.
Qed.

Lemma finish_leading toks o e ks0 c k ks body :
  At toks o ks0 -> ks0 = cm c ++ k :: ks -> is_comment k = false -> e = o + length ks0 ->
  with_slice (mkinfo o e) toks (fun sl => FOk (add_leading_comments body sl)) = FOk (lead_text c ++ body).
Proof.
  intros H -> Hk He. destruct (with_slice_At toks o e _ (fun sl => FOk (add_leading_comments body sl)) H He) as (sl & E & M).
  rewrite E, (lead_leading sl c k ks body M Hk). reflexivity.
Qed.

(* ================================================================================================
   3. Statements
   ================================================================================================ *)
(* comments in leading position only: in front of the first token of a statement - but not of a block that is the
   branch of an if / while (fmt_branch drops those, C10) - and nowhere else *)
Fixpoint lo_stmt (s : astmt) : bool :=
  match s with
  | SEmp _ => true
  | SAsg v c1 e c2 => forallb nice (var_code v ++ cm c1 ++ Assign :: fl_cmp e ++ cm c2 ++ [Semic])
  | SCal _ fn c2 a c3 c4 => forallb nice (Ident fn :: cm c2 ++ LParen :: fl_sep fl_cmp a ++ cm c3 ++ RParen :: cm c4 ++ [Semic])
  | SIfT _ c2 e c3 t =>
      forallb nice (KIf :: cm c2 ++ LParen :: fl_cmp e ++ cm c3 ++ [RParen])
      && match t with SBlk c1 b c2 => is_nil c1 && is_nil c2 && lo_stmts b | _ => lo_stmt t end
  | SIfE _ c2 e c3 t c4 s' =>
      forallb nice (KIf :: cm c2 ++ LParen :: fl_cmp e ++ cm c3 ++ [RParen])
      && match t with SBlk c1 b c2 => is_nil c1 && is_nil c2 && lo_stmts b | _ => lo_stmt t end
      && is_nil c4
      && match s' with SBlk c1 b c2 => is_nil c1 && is_nil c2 && lo_stmts b | _ => lo_stmt s' end
  | SWhl _ c2 e c3 t =>
      forallb nice (KWhile :: cm c2 ++ LParen :: fl_cmp e ++ cm c3 ++ [RParen])
      && match t with SBlk c1 b c2 => is_nil c1 && is_nil c2 && lo_stmts b | _ => lo_stmt t end
  | SBlk _ b c2 => lo_stmts b && is_nil c2
  end
with lo_stmts (b : astmts) : bool :=
  match b with SNil => true | SCons s r => lo_stmt s && lo_stmts r end.

Definition lo_branch (t : astmt) : bool :=
  match t with SBlk c1 b c2 => is_nil c1 && is_nil c2 && lo_stmts b | _ => lo_stmt t end.

Lemma lo_ift c1 c2 e c3 t :
  lo_stmt (SIfT c1 c2 e c3 t) = forallb nice (KIf :: cm c2 ++ LParen :: fl_cmp e ++ cm c3 ++ [RParen]) && lo_branch t.
Proof. reflexivity. Qed.
Lemma lo_ife c1 c2 e c3 t c4 s' :
  lo_stmt (SIfE c1 c2 e c3 t c4 s') =
  forallb nice (KIf :: cm c2 ++ LParen :: fl_cmp e ++ cm c3 ++ [RParen]) && lo_branch t && is_nil c4 && lo_branch s'.
Proof. reflexivity. Qed.
Lemma lo_whl c1 c2 e c3 t :
  lo_stmt (SWhl c1 c2 e c3 t) = forallb nice (KWhile :: cm c2 ++ LParen :: fl_cmp e ++ cm c3 ++ [RParen]) && lo_branch t.
Proof. reflexivity. Qed.

Lemma is_nil_eq {A} (l : list A) : is_nil l = true -> l = [].
Proof. destruct l; [reflexivity | discriminate]. Qed.

(* split a boolean conjunction hypothesis, emptying the slots that must be empty *)
Ltac lo_split H :=
  repeat match type of H with
         | _ && _ = true => let H' := fresh "L" in apply andb_true_iff in H; destruct H as [H H']
         end;
  repeat match goal with
         | H0 : is_nil ?c = true |- _ => apply is_nil_eq in H0; subst c
         end.

(* a statement is printed as its woven text and one line feed *)
Definition stmt_ok (s : astmt) : Prop :=
  forall toks o, lo_stmt s = true -> forallb valid_kind (fl_stmt s) = true -> At toks o (fl_stmt s) ->
  exists t, fmt_stmt f (x_stmt o s) toks = FOk (t ++ [10%N]) /\ Wv (fl_stmt s) t.

(* as a branch: a non-empty gap, the woven text, a non-empty gap (the line feed when the ending is the line feed) *)
Definition branch_ok (s : astmt) : Prop :=
  forall toks off ending, (ending = 10 \/ ending = 32)%N ->
  lo_branch s = true -> forallb valid_kind (fl_stmt s) = true -> At toks off (fl_stmt s) ->
  exists g1 t g2, fmt_branch f (Some (x_stmt 0 s, off)) toks ending = FOk (gp g1 ++ t ++ gp g2) /\ Wv (fl_stmt s) t /\
                  forallb gapc g1 = true /\ g1 <> [] /\ forallb gapc g2 = true /\ g2 <> [] /\ (ending = 10%N -> g2 = [10%N]).

Definition stmts_ok (b : astmts) : Prop :=
  forall toks o, lo_stmts b = true -> forallb valid_kind (fl_stmts b) = true -> At toks o (fl_stmts b) ->
  match b with
  | SNil => fmt_stmts f (x_stmts o b) toks = FOk []
  | SCons _ _ => exists t, fmt_stmts f (x_stmts o b) toks = FOk (t ++ [10%N]) /\ Wv (fl_stmts b) t
  end.

Lemma unit_gapc : forallb gapc unit = true.
Proof. apply unit_gap. exact sym_ok. Qed.

Lemma nl_unit_gap : forallb gapc (10%N :: unit) = true.
Proof. cbn [forallb]. rewrite unit_gapc. reflexivity. Qed.

Lemma ending_gap ending : (ending = 10 \/ ending = 32)%N -> forallb gapc [ending] = true.
Proof. intros [-> | ->]; reflexivity. Qed.

(* a statement that is not a block, printed as a branch: on its own line, one unit deeper *)
Lemma branch_of_stmt s : is_block (x_stmt 0 s) = false -> lo_branch s = lo_stmt s -> stmt_ok s -> branch_ok s.
Proof.
  intros Hb Hlb IH toks off ending He Hlo Hn H. rewrite Hlb in Hlo. rewrite (fmt_branch_plain _ _ _ _ Hb).
  destruct (with_from_At toks off 0 (fl_stmt s) (fun t' => do st <- fmt_stmt f (x_stmt 0 s) t'; FOk ([10%N] ++ indent st f)))
    as [E A0]; [at_solve|].
  rewrite E. destruct (IH _ 0 Hlo Hn A0) as (t & Et & Wt). rewrite Et. cbn [fbind].
  exists (10%N :: unit), (ins_after unit t), [10%N].
  split; [unfold gp; cbn [app]; do 2 f_equal; apply (indent_Wv_nl f sym_ok _ _ Wt)|].
  split; [apply Wv_unit; [exact sym_ok | exact Wt]|].
  split; [exact nl_unit_gap|]. split; [discriminate|]. split; [reflexivity|]. split; [discriminate|]. reflexivity.
Qed.

Lemma ref_stmt toks off s :
  stmt_ok s -> lo_stmt s = true -> forallb valid_kind (fl_stmt s) = true -> At toks off (fl_stmt s) ->
  exists t, with_from off toks (fun t' => fmt_stmt f (x_stmt 0 s) t') = FOk (t ++ [10%N]) /\ Wv (fl_stmt s) t.
Proof.
  intros IH Hlo Hn H. destruct (with_from_At toks off 0 (fl_stmt s) (fun t' => fmt_stmt f (x_stmt 0 s) t')) as [E A0]; [at_solve|].
  rewrite E. exact (IH _ 0 Hlo Hn A0).
Qed.

Ltac kinds_norm :=
  match goal with
  | |- Wv ?ks ?t => let ks' := eval cbn [fl_stmt fl_sep cm map app] in ks in change (Wv ks' t)
  end.

(* [out = t ++ [10]] with the leading comment lines in front *)
Ltac nl_lead c := nl_split; kinds_norm; apply (Wv_lead c); [assumption|].

Lemma stmt_emp c : stmt_ok (SEmp c).
Proof.
  intros toks o Hlo Hv H. pose proof H as H0. cbn [fl_stmt] in Hv, H. valid_split.
  cbn [x_stmt]. rewrite fmt_stmt_empty, (finish_all toks o _ _ c [Semic] _ H0 eq_refl eq_refl eq_refl).
  nl_split. cbn [fl_stmt]. apply (Wv_lead c); [assumption | wv2].
Qed.

Lemma stmt_asg v c1 e c2 : stmt_ok (SAsg v c1 e c2).
Proof.
  intros toks o Hlo Hv H. pose proof H as H0. cbn [lo_stmt] in Hlo. pose proof (Hlo : id _) as Hlo0. nice_split. unfold id in Hlo0.
  cbn [fl_stmt] in Hv, H. rewrite fl_var_lead, <- app_assoc in Hv. valid_split.
  cbn [x_stmt]. cbn [cm map app length] in *. rewrite fmt_stmt_assign, fmt_assign_body_eq. at_split.
  assert (IH1 := ref_expr_ok e toks (o + length (fl_var v) + 0 + 1) (cmp_prints e) ltac:(assumption) ltac:(at_solve)).
  use_prints IH1.
  assert (IH2 := var_lead_prints v toks o ltac:(assumption) ltac:(at_solve)). use_prints IH2.
  rewrite (finish_all toks o _ _ (var_lead v) _ _ H0 ltac:(cbn [fl_stmt cm map app]; rewrite fl_var_lead, <- app_assoc; reflexivity) Hlo0 eq_refl).
  nl_split. cbn [fl_stmt cm map app]. rewrite fl_var_lead, <- app_assoc. apply (Wv_lead (var_lead v)); [assumption|].
  apply Wv_sp; [eassumption | wv2 | reflexivity | discriminate].
Qed.

Lemma stmt_cal c1 fn c2 a c3 c4 : stmt_ok (SCal c1 fn c2 a c3 c4).
Proof.
  intros toks o Hlo Hv H. pose proof H as H0. cbn [lo_stmt] in Hlo. pose proof (Hlo : id _) as Hlo0. nice_split. unfold id in Hlo0.
  cbn [fl_stmt] in Hv, H. valid_split.
  cbn [x_stmt]. unfold x_ident. cbn [cm map app length] in *. rewrite fmt_stmt_call, fmt_call_body_eq. cbn [id_val]. at_split.
  destruct a as [[a l]|].
  - set (g := fun a0 : expr * nat => with_from (snd a0) toks (fun t' => fmt_expr (fst a0) t')).
    set (okp := fun a0 : acmp => forallb nice (fl_cmp a0) = true).
    assert (Hel : forall a0, elem_ok fl_cmp (x_cmp 0) toks g okp a0).
    { intros a0 off Hn1 H1. unfold g. cbn [fst snd]. apply ref_expr_ok; [apply cmp_prints | exact Hn1 | exact H1]. }
    match goal with N : forallb nice (fl_sep fl_cmp (Some (a, l))) = true |- _ => cbn [fl_sep] in N; apply nice_app in N; destruct N as [Na Nl] end.
    destruct (sep_prints fl_cmp (x_cmp 0) toks g okp ends_cmp a l (Hel a)
                ltac:(apply Forall_forall; intros; apply Hel) (o + length c1 + 1 + 0 + 1) Na (nice_tail fl_cmp l Nl) ltac:(at_solve))
      as (t & ts & Ets & _ & Wts0).
    pose proof (Wts0 [32%N] eq_refl ltac:(discriminate)) as Wts.
    rewrite Ets. cbn [fbind]. rewrite (finish_all toks o _ _ c1 _ _ H0 eq_refl Hlo0 eq_refl). nl_lead c1. wv2.
  - cbn [x_sep fl_sep app] in *. rewrite fmap_nil. cbn [fbind join].
    rewrite (finish_all toks o _ _ c1 _ _ H0 eq_refl Hlo0 eq_refl). nl_lead c1. cbn [app]. wv2.
Qed.

(* rewrite [indent (t ++ [10]) f] for a woven t (the implicit element types of the two sides may differ: N / char) *)
Ltac rw_indent W :=
  let Ei := fresh "Ei" in
  pose proof (indent_Wv_nl f sym_ok _ _ W) as Ei;
  match type of Ei with ?l = _ =>
    match goal with |- context [indent ?s f] => change (indent s f) with l; rewrite Ei; clear Ei end
  end.

Lemma blk_shape (a u m b : text) : a ++ gp [10%N] ++ (u ++ m ++ [10%N]) ++ b = a ++ gp (10%N :: u) ++ m ++ gp [10%N] ++ b.
Proof. unfold gp. rewrite <- !app_assoc. reflexivity. Qed.

Lemma stmt_blk c1 b c2 : stmts_ok b -> stmt_ok (SBlk c1 b c2) /\ branch_ok (SBlk c1 b c2).
Proof.
  intros IHb. pose proof nl_unit_gap as Gu. split.
  - intros toks o Hlo Hv H. pose proof H as H0. cbn [lo_stmt] in Hlo. lo_split Hlo.
    cbn [fl_stmt] in Hv, H. valid_split.
    cbn [x_stmt]. cbn [cm map app length] in *. at_split.
    pose proof (IHb toks (o + length c1 + 1) Hlo ltac:(assumption) ltac:(at_solve)) as IH1.
    destruct b as [|s r]; cbn [x_stmts] in IH1 |- *.
    + rewrite fmt_stmt_block_nil, (finish_leading toks o _ _ c1 LCurly _ _ H0 eq_refl eq_refl eq_refl). nl_lead c1.
      change (fl_stmts SNil) with (@nil kind). kinds_norm. wv2.
    + rewrite fmt_stmt_block_cons. destruct IH1 as (t & Et & Wt). rewrite Et. cbn [fbind].
      rewrite (finish_leading toks o _ _ c1 LCurly _ _ H0 eq_refl eq_refl eq_refl). rw_indent Wt. rewrite blk_shape. nl_lead c1.
      pose proof (Wv_unit f sym_ok _ _ Wt) as Wt'. wv2.
  - intros toks off ending He Hlo Hv H. pose proof H as H0. pose proof (ending_gap ending He) as Ge.
    unfold lo_branch in Hlo. lo_split Hlo.
    cbn [fl_stmt] in Hv, H. cbn [cm map app] in Hv, H. valid_split. cbn [x_stmt]. cbn [cm map app length] in *.
    destruct b as [|s r]; cbn [x_stmts].
    + rewrite fmt_branch_block_nil.
      match goal with |- context [with_from off toks ?K] =>
        destruct (with_from_At toks off 0 (fl_stmt (SBlk [] SNil [])) K) as [E _]; [at_solve|]; rewrite E end.
      exists [32%N], (sh LCurly ++ sh RCurly), [10%N]. split; [reflexivity|].
      split; [kinds_norm; change (fl_stmts SNil) with (@nil kind); kinds_norm; wv2|].
      split; [reflexivity|]. split; [discriminate|]. split; [reflexivity|]. split; [discriminate | reflexivity].
    + rewrite fmt_branch_block_cons.
      match goal with |- context [with_from off toks ?K] =>
        destruct (with_from_At toks off 0 (fl_stmt (SBlk [] (SCons s r) [])) K) as [E A0]; [at_solve|]; rewrite E end.
      cbn [fl_stmt cm map app] in A0. at_split.
      pose proof (IHb (skipn off toks) (0 + 0 + 1) ltac:(assumption) ltac:(assumption) ltac:(at_solve)) as IH1. cbn [x_stmts] in IH1.
      destruct IH1 as (t & Et & Wt). rewrite Et. cbn [fbind]. rw_indent Wt.
      pose proof (Wv_unit f sym_ok _ _ Wt) as Wt'.
      exists [32%N], (sh LCurly ++ gp (10%N :: unit) ++ ins_after unit t ++ gp [10%N] ++ sh RCurly), [ending].
      split; [unfold gp; rewrite <- !app_assoc; reflexivity|].
      split; [kinds_norm; wv2|]. split; [reflexivity|]. split; [discriminate|]. split; [exact Ge|]. split; [discriminate|].
      intros ->. reflexivity.
Qed.

Lemma plain_pair s : is_block (x_stmt 0 s) = false -> lo_branch s = lo_stmt s -> stmt_ok s -> stmt_ok s /\ branch_ok s.
Proof. intros Hb Hl S. split; [exact S | apply branch_of_stmt; assumption]. Qed.

Lemma stmt_ift c1 c2 e c3 t : branch_ok t -> stmt_ok (SIfT c1 c2 e c3 t).
Proof.
  intros IHt toks o Hlo Hv H. pose proof H as H0. rewrite lo_ift in Hlo. lo_split Hlo. nice_split.
  cbn [fl_stmt] in Hv, H. cbn [cm map app] in Hv, H. valid_split.
  cbn [x_stmt]. cbv zeta. cbn [cm map app length] in *. rewrite fmt_stmt_if_none. at_split.
  assert (IH1 := ref_expr_ok e toks (o + length c1 + 1 + 0 + 1) (cmp_prints e) ltac:(assumption) ltac:(at_solve)). use_prints IH1.
  destruct (IHt toks (o + length c1 + 1 + 0 + 1 + length (fl_cmp e) + 0 + 1) 10%N (or_introl eq_refl)
              ltac:(assumption) ltac:(assumption) ltac:(at_solve))
    as (g1 & tt & g2 & Eb & Wb & G1 & NE1 & G2 & NE2 & Hg2).
  rewrite Eb. cbn [fbind]. rewrite (Hg2 eq_refl). rewrite (finish_leading toks o _ _ c1 KIf _ _ H0 eq_refl eq_refl eq_refl).
  change (gp [10%N]) with [10%N]. nl_lead c1. wv2.
Qed.

Lemma stmt_whl c1 c2 e c3 b : branch_ok b -> stmt_ok (SWhl c1 c2 e c3 b).
Proof.
  intros IHt toks o Hlo Hv H. pose proof H as H0. rewrite lo_whl in Hlo. lo_split Hlo. nice_split.
  cbn [fl_stmt] in Hv, H. cbn [cm map app] in Hv, H. valid_split.
  cbn [x_stmt]. cbv zeta. cbn [cm map app length] in *. rewrite fmt_stmt_while_eq. at_split.
  assert (IH1 := ref_expr_ok e toks (o + length c1 + 1 + 0 + 1) (cmp_prints e) ltac:(assumption) ltac:(at_solve)). use_prints IH1.
  destruct (IHt toks (o + length c1 + 1 + 0 + 1 + length (fl_cmp e) + 0 + 1) 10%N (or_introl eq_refl)
              ltac:(assumption) ltac:(assumption) ltac:(at_solve))
    as (g1 & tt & g2 & Eb & Wb & G1 & NE1 & G2 & NE2 & Hg2).
  rewrite Eb. cbn [fbind]. rewrite (Hg2 eq_refl). rewrite (finish_leading toks o _ _ c1 KWhile _ _ H0 eq_refl eq_refl eq_refl).
  change (gp [10%N]) with [10%N]. nl_lead c1. wv2.
Qed.

Lemma lo_branch_if s : is_if (x_stmt 0 s) = true -> lo_branch s = lo_stmt s.
Proof. destruct s; try discriminate; reflexivity. Qed.

Lemma stmt_ife c1 c2 e c3 t c4 s' : branch_ok t -> stmt_ok s' -> branch_ok s' -> stmt_ok (SIfE c1 c2 e c3 t c4 s').
Proof.
  intros IHt IHs IHsb toks o Hlo Hv H. pose proof H as H0. rewrite lo_ife in Hlo. lo_split Hlo. nice_split.
  cbn [fl_stmt] in Hv, H. cbn [cm map app] in Hv, H. valid_split.
  cbn [x_stmt]. cbv zeta. cbn [cm map app length] in *. at_split.
  destruct (is_if (x_stmt 0 s')) eqn:Hif.
  - rewrite (fmt_stmt_if_elseif _ _ _ _ _ _ _ Hif).
    assert (IH1 := ref_expr_ok e toks (o + length c1 + 1 + 0 + 1) (cmp_prints e) ltac:(assumption) ltac:(at_solve)). use_prints IH1.
    destruct (IHt toks (o + length c1 + 1 + 0 + 1 + length (fl_cmp e) + 0 + 1) 32%N (or_intror eq_refl)
                ltac:(assumption) ltac:(assumption) ltac:(at_solve))
      as (g1 & tt & g2 & Eb & Wb & G1 & NE1 & G2 & NE2 & _).
    rewrite Eb. cbn [fbind].
    match goal with L : lo_branch s' = true |- _ => rewrite (lo_branch_if s' Hif) in L end.
    destruct (ref_stmt toks (o + length c1 + 1 + 0 + 1 + length (fl_cmp e) + 0 + 1 + length (fl_stmt t) + 0 + 1) s' IHs
                ltac:(assumption) ltac:(assumption) ltac:(at_solve)) as (ts & Es & Ws).
    rewrite Es. cbn [fbind]. rewrite (finish_leading toks o _ _ c1 KIf _ _ H0 eq_refl eq_refl eq_refl). nl_lead c1. wv2.
  - rewrite (fmt_stmt_if_else _ _ _ _ _ _ _ Hif).
    assert (IH1 := ref_expr_ok e toks (o + length c1 + 1 + 0 + 1) (cmp_prints e) ltac:(assumption) ltac:(at_solve)). use_prints IH1.
    destruct (IHt toks (o + length c1 + 1 + 0 + 1 + length (fl_cmp e) + 0 + 1) 32%N (or_intror eq_refl)
                ltac:(assumption) ltac:(assumption) ltac:(at_solve))
      as (g1 & tt & g2 & Eb & Wb & G1 & NE1 & G2 & NE2 & _).
    rewrite Eb. cbn [fbind].
    destruct (IHsb toks (o + length c1 + 1 + 0 + 1 + length (fl_cmp e) + 0 + 1 + length (fl_stmt t) + 0 + 1) 10%N (or_introl eq_refl)
                ltac:(assumption) ltac:(assumption) ltac:(at_solve)) as (h1 & ts & h2 & Es & Ws & G3 & NE3 & G4 & NE4 & Hh2).
    rewrite Es. cbn [fbind]. rewrite (Hh2 eq_refl). rewrite (finish_leading toks o _ _ c1 KIf _ _ H0 eq_refl eq_refl eq_refl).
    change (gp [10%N]) with [10%N]. nl_lead c1. wv2.
Qed.

Lemma stmts_nil : stmts_ok SNil.
Proof. intros toks o _ _ _. reflexivity. Qed.

Lemma stmts_cons s r : stmt_ok s -> stmts_ok r -> stmts_ok (SCons s r).
Proof.
  intros IHs IHr toks o Hlo Hv H. cbn [lo_stmts] in Hlo. lo_split Hlo. cbn [fl_stmts] in Hv, H. valid_split. at_split.
  cbn [x_stmts]. rewrite fmt_stmts_cons.
  destruct (ref_stmt toks o s IHs ltac:(assumption) ltac:(assumption) ltac:(at_solve)) as (t1 & E1 & W1). rewrite E1. cbn [fbind].
  pose proof (IHr toks (o + length (fl_stmt s)) ltac:(assumption) ltac:(assumption) ltac:(at_solve)) as IH2.
  destruct r as [|s2 r2].
  - rewrite IH2. cbn [fbind]. exists t1. split; [rewrite app_nil_r; reflexivity|]. cbn [fl_stmts]. rewrite app_nil_r. exact W1.
  - destruct IH2 as (t2 & E2 & W2). rewrite E2. cbn [fbind]. exists (t1 ++ gp [10%N] ++ t2).
    split; [unfold gp; rewrite <- !app_assoc; reflexivity|]. change (fl_stmts (SCons s (SCons s2 r2))) with (fl_stmt s ++ fl_stmts (SCons s2 r2)). wv2.
Qed.

Theorem stmt_prints : (forall s, stmt_ok s /\ branch_ok s) /\ (forall b, stmts_ok b).
Proof.
  apply GrammarStmt.astmt_mutind.
  - intros c. apply plain_pair; [reflexivity | reflexivity | apply stmt_emp].
  - intros. apply plain_pair; [reflexivity | reflexivity | apply stmt_asg].
  - intros. apply plain_pair; [reflexivity | reflexivity | apply stmt_cal].
  - intros c1 c2 e c3 t [_ IHt]. apply plain_pair; [reflexivity | reflexivity | apply stmt_ift; exact IHt].
  - intros c1 c2 e c3 t [_ IHt] c4 s' [IHs IHsb]. apply plain_pair; [reflexivity | reflexivity | apply stmt_ife; assumption].
  - intros c1 c2 e c3 b [_ IHb]. apply plain_pair; [reflexivity | reflexivity | apply stmt_whl; exact IHb].
  - intros c1 b IHb c2. apply stmt_blk. exact IHb.
  - apply stmts_nil.
  - intros s [IHs _] r IHr. apply stmts_cons; assumption.
Qed.

Lemma stmts_prints b : stmts_ok b.
Proof. apply stmt_prints. Qed.

End Stmt.

(* ---- a comment-free statement has its comments in leading position only ---- *)
Lemma nice_var_code v : forallb nice (fl_var v) = true -> forallb nice (var_code v) = true /\ var_lead v = [].
Proof. rewrite fl_var_lead. intros H. apply nice_cm in H. tauto. Qed.

Lemma nice_lo : (forall s, forallb nice (fl_stmt s) = true -> lo_stmt s = true /\ lo_branch s = true) /\
                (forall b, forallb nice (fl_stmts b) = true -> lo_stmts b = true).
Proof.
  assert (nice_refold : forall a b, forallb nice a = true -> forallb nice b = true -> forallb nice (a ++ b) = true)
    by (intros a b Ha Hb; rewrite forallb_app, Ha, Hb; reflexivity).
  apply GrammarStmt.astmt_mutind.
  - intros c _. split; reflexivity.
  - intros v c1 e c2 H. cbn [fl_stmt] in H. apply nice_app in H. destruct H as [Hv H].
    destruct (nice_var_code v Hv) as [Hc _]. assert (G : lo_stmt (SAsg v c1 e c2) = true) by (cbn [lo_stmt]; apply nice_refold; assumption).
    split; exact G.
  - intros c1 fn c2 a c3 c4 H. cbn [fl_stmt] in H. apply nice_cm in H. destruct H as [_ H]. split; exact H.
  - intros c1 c2 e c3 t IHt H. cbn [fl_stmt] in H. nice_split.
    destruct (IHt ltac:(assumption)) as [_ Lt].
    assert (G : lo_stmt (SIfT [] [] e [] t) = true).
    { rewrite lo_ift, Lt, andb_true_r. cbn [cm map app forallb]. apply andb_true_iff. split; [reflexivity|].
      apply andb_true_iff. split; [reflexivity|]. apply nice_refold; [assumption | reflexivity]. }
    split; exact G.
  - intros c1 c2 e c3 t IHt c4 s' IHs H. cbn [fl_stmt] in H. nice_split.
    destruct (IHt ltac:(assumption)) as [_ Lt]. destruct (IHs ltac:(assumption)) as [_ Ls].
    assert (G : lo_stmt (SIfE [] [] e [] t [] s') = true).
    { rewrite lo_ife, Lt, Ls, !andb_true_r. cbn [cm map app forallb]. apply andb_true_iff. split; [reflexivity|].
      apply andb_true_iff. split; [reflexivity|]. apply nice_refold; [assumption | reflexivity]. }
    split; exact G.
  - intros c1 c2 e c3 b IHb H. cbn [fl_stmt] in H. nice_split.
    destruct (IHb ltac:(assumption)) as [_ Lt].
    assert (G : lo_stmt (SWhl [] [] e [] b) = true).
    { rewrite lo_whl, Lt, andb_true_r. cbn [cm map app forallb]. apply andb_true_iff. split; [reflexivity|].
      apply andb_true_iff. split; [reflexivity|]. apply nice_refold; [assumption | reflexivity]. }
    split; exact G.
  - intros c1 b IHb c2 H. cbn [fl_stmt] in H. nice_split. pose proof (IHb ltac:(assumption)) as Lb.
    split; [cbn [lo_stmt]; rewrite Lb; reflexivity | unfold lo_branch; cbn [is_nil andb]; exact Lb].
  - intros _. reflexivity.
  - intros s IHs r IHr H. cbn [fl_stmts] in H. nice_split. cbn [lo_stmts].
    destruct (IHs ltac:(assumption)) as [Ls _]. rewrite Ls, (IHr ltac:(assumption)). reflexivity.
Qed.
